import RlModel.Gen.BuilderArms
/-
C17 — the plan checker: `resolve`, `check`, the `apply_proj` applier, the plan-text reader.
Term language: `Model/PlanTm.lean`; `schema`: `Gen/Schema.lean` (generated from the source).
-/
namespace RlModel.Wf
open RlModel

def indexOf? (x : Tm) : List Tm → Nat → Option Nat
  | [], _ => none
  | y :: ys, i => if x == y then some i else indexOf? x ys (i + 1)

/-- Resolved expressions: column indices instead of identities. -/
inductive RTm where
  | idx (i : Nat)
  | leaf (l : Leaf)
  | node (h : Hd) (args : List RTm)
  deriving Repr

mutual
  /-- `resolve_column_index_on_schema`: `none` = the builder panics ("column not found"). -/
  def resolve (sch : List Tm) : Tm → Option RTm
    | .col t c =>
      match indexOf? (.col t c) sch 0 with
      | some i => some (.idx i)
      | none => none
    | .leaf l =>
      match indexOf? (.leaf l) sch 0 with
      | some i => some (.idx i)
      | none => some (.leaf l)
    | .node h xs =>
      match indexOf? (.node h xs) sch 0 with
      | some i => some (.idx i)
      | none => (resolveList sch xs).map (RTm.node h)
  def resolveList (sch : List Tm) : List Tm → Option (List RTm)
    | [] => some []
    | x :: xs =>
      match resolve sch x, resolveList sch xs with
      | some y, some ys => some (y :: ys)
      | _, _ => none
end

mutual
  /-- Every index of a resolved expression is within the child's schema. -/
  def RTm.bounded (n : Nat) : RTm → Bool
    | .idx i => decide (i < n)
    | .leaf _ => true
    | .node _ xs => RTm.boundedList n xs
  def RTm.boundedList (n : Nat) : List RTm → Bool
    | [] => true
    | x :: xs => RTm.bounded n x && RTm.boundedList n xs
end

/-- Builder outcome for a plan. -/
inductive Verdict where
  | ok
  | buildPanic (why : String)    -- `panic!`/`assert!` reached while building executors
  | runtimeTodo (why : String)   -- builds, but an executor hits `todo!()` at run time
  deriving Repr, DecidableEq

def Verdict.and : Verdict → Verdict → Verdict
  | .ok, v => v
  | v, _ => v

def resolvesAll (sch : List Tm) (e : Tm) (what : String) : Verdict :=
  match resolve sch e with
  | some _ => .ok
  | none => .buildPanic ("column not found from input (" ++ what ++ ")")

def limitOk (l o : Tm) : Verdict :=
  match l, o with
  | .leaf .null, .leaf (.num _) => .ok
  | .leaf (.num _), .leaf (.num _) => .ok
  | _, _ => .buildPanic "limit/offset is not a non-negative constant"

def joinType? : Tm → Option JT
  | .leaf (.jt t) => some t
  | _ => none

def isTrue : Tm → Bool
  | .leaf .tru => true
  | _ => false

/-- All resolution obligations of an arm (`Gen/BuilderArms.lean`, generated from the builder's
source) are met: every listed expression resolves against the listed schema. -/
def obligationsOk (what : String) : List (List Tm × Tm) → Verdict
  | [] => .ok
  | (sch, e) :: rest => (resolvesAll sch e what).and (obligationsOk what rest)

/-- The builder's match arms.  Which expression is resolved against which input, which join types
have an executor and which builders assert a `true` residual come from `Gen/BuilderArms.lean`
(regenerated from `executor/mod.rs` on every run); the rest (which children are built, constant
limits, the scan's columns) is written here. -/
def check : Tm → Verdict
  | .node .scan [.leaf (.table _), cols, _] =>
    if isListNode cols && (listItems cols).all isColumn then .ok else .buildPanic "not a column"
  | .node .scan _ => .buildPanic "not a table"
  | .node .values _ => .ok
  | .node .proj [es, c] => (check c).and (obligationsOk "proj" (resolveObligations (.node .proj [es, c])))
  | .node .filter [e, c] => (check c).and (obligationsOk "filter" (resolveObligations (.node .filter [e, c])))
  | .node .order [ks, c] => (check c).and (obligationsOk "order" (resolveObligations (.node .order [ks, c])))
  | .node .limit [l, o, c] => (check c).and (limitOk l o)
  | .node .topn [l, o, ks, c] =>
    ((check c).and (limitOk l o)).and (obligationsOk "topn" (resolveObligations (.node .topn [l, o, ks, c])))
  | .node .join [t, on, l, r] =>
    let base := ((check l).and (check r)).and (obligationsOk "join" (resolveObligations (.node .join [t, on, l, r])))
    match joinType? t with
    | none => base.and (.buildPanic "invalid join type")
    | some jt => if nlJoinTypes.contains jt then base else base.and (.buildPanic "invalid join type")
  | .node .hashjoin [t, cond, lk, rk, l, r] =>
    let kids := (check l).and (check r)
    match joinType? t with
    | none => kids.and (.buildPanic "invalid join type")
    | some jt =>
      if !hashJoinTypes.contains jt then kids.and (.buildPanic "invalid join type")
      else if jt = .semi ∨ jt = .anti then
        (kids.and (obligationsOk "hashjoin" (hashSemiJoinObligations [t, cond, lk, rk, l, r]))).and
          (if hashSemiJoinResidualMustBeTrue && !isTrue cond then .buildPanic "hashjoin residual condition is not `true`" else .ok)
      else
        (kids.and (obligationsOk "hashjoin" (hashJoinObligations [t, cond, lk, rk, l, r]))).and
          (if hashJoinResidualMustBeTrue && !isTrue cond then .buildPanic "hashjoin residual condition is not `true`" else .ok)
  | .node .mergejoin [t, cond, lk, rk, l, r] =>
    let kids := (check l).and (check r)
    match joinType? t with
    | none => kids.and (.buildPanic "invalid join type")
    | some jt =>
      if !mergeJoinTypes.contains jt then kids.and (.buildPanic "invalid join type")
      else
        (kids.and (obligationsOk "mergejoin" (mergeJoinObligations [t, cond, lk, rk, l, r]))).and
          (if mergeJoinResidualMustBeTrue && !isTrue cond then .buildPanic "mergejoin residual condition is not `true`" else .ok)
  | .node .apply _ => .buildPanic "Apply is not supported in executor"
  | .node .agg [as, c] => (check c).and (obligationsOk "agg" (resolveObligations (.node .agg [as, c])))
  | .node .hashagg [ks, as, c] => (check c).and (obligationsOk "hashagg" (resolveObligations (.node .hashagg [ks, as, c])))
  | .node .sortagg [ks, as, c] => (check c).and (obligationsOk "sortagg" (resolveObligations (.node .sortagg [ks, as, c])))
  | .node .window [es, c] => (check c).and (obligationsOk "window" (resolveObligations (.node .window [es, c])))
  | .node .empty [_] => .ok
  | .node .insert [_, _, c] => check c
  | .node .delete [_, c] => check c
  | .node .copyTo [_, c] => check c
  | .node .analyze [c] => check c
  | .node .explain _ => .ok
  | _ => .buildPanic "not a plan"

-- ---------------------------------------------------------------------------------------------
-- expressions the evaluator can evaluate
-- ---------------------------------------------------------------------------------------------

/-- Heads of plan nodes (a plan inside an expression is a subquery). -/
def planHead : Hd → Bool
  | .filter | .order | .limit | .topn | .empty | .join | .hashjoin | .mergejoin | .apply | .scan | .values
  | .proj | .agg | .window | .hashagg | .sortagg | .insert | .delete | .copyTo | .analyze | .explain
  | .indexScan => true
  | _ => false

/-- Heads `Evaluator::eval` has no arm for (`panic!("can not evaluate expression")`): the subquery
forms `exists`, `max1row`, and any plan (the argument of `in` / `exists` / `max1row`, an `apply`). -/
def subqueryHead (h : Hd) : Bool := h == .exists_ || h == .max1row || planHead h

mutual
  /-- The expression can be evaluated on rows of the schema `sch`: a sub-expression that is an
  entry of the schema is a column index (not looked into, as in `resolve`), anything else must not
  be a subquery form. -/
  def evalOk (sch : List Tm) : Tm → Bool
    | .col _ _ => true
    | .leaf _ => true
    | .node h xs => sch.contains (.node h xs) || (!subqueryHead h && evalOkList sch xs)
  def evalOkList (sch : List Tm) : List Tm → Bool
    | [] => true
    | x :: xs => evalOk sch x && evalOkList sch xs
end

/-- Which expression of a node is evaluated on rows of which schema: the builder's resolution
obligations (`Gen/BuilderArms.lean`) — for the join builders the ones of the executor built for
the join type — and the scan's pushed-down filter on the scanned columns. -/
def nodeObligations : Tm → List (List Tm × Tm)
  | .node .hashjoin [t, cond, lk, rk, l, r] =>
    if isSemiAnti t then hashSemiJoinObligations [t, cond, lk, rk, l, r] else hashJoinObligations [t, cond, lk, rk, l, r]
  | .node .mergejoin args => mergeJoinObligations args
  | .node .scan [_, cols, f] => [(listItems cols, f)]
  | n => resolveObligations n

def obligationsEvaluable : List (List Tm × Tm) → Bool
  | [] => true
  | (sch, e) :: rest => evalOk sch e && obligationsEvaluable rest

mutual
  /-- Every expression of every operator of the plan can be evaluated. -/
  def evalCheck : Tm → Bool
    | .col _ _ => true
    | .leaf _ => true
    | .node h xs => if planHead h then obligationsEvaluable (nodeObligations (.node h xs)) && evalCheckList xs else true
  def evalCheckList : List Tm → Bool
    | [] => true
    | x :: xs => evalCheck x && evalCheckList xs
end

/-- The builder's verdict, then the evaluator's: a plan the builder accepts whose expressions still
hold a subquery form fails inside the operator (`operator panicked: can not evaluate expression`). -/
def verdict (p : Tm) : Verdict :=
  match check p with
  | .ok => if evalCheck p then .ok else .runtimeTodo "an expression of the plan is not evaluable (a subquery form is left in it)"
  | v => v

-- ---------------------------------------------------------------------------------------------
-- aggregate and window calls are produced by an operator below, or they are references to nothing
-- ---------------------------------------------------------------------------------------------

/-- Heads of aggregate calls, window calls and the two nullary ones.  `Evaluator::eval` HAS arms for
them (an aggregate "evaluates" to its argument, `rowcount` / `row_number` to NULLs: that is how the
aggregation and window executors compute the arguments they feed to the aggregate states), so an
aggregate call left in a scalar position — a projection, a filter, an order key, a join condition
— builds and runs and silently yields the argument instead of the aggregate.  Such a call is a
reference to a column its input does not produce (C17: "every column an operator references is
produced by its input"). -/
def aggHeadNames : List String :=
  ["sum", "count", "min", "max", "first", "last", "count-distinct", "avg", "rowcount", "row_number", "over"]

def isAggHd : Hd → Bool
  | .other c => (aggHeadNames.map (fun s => s.hash.toNat)).contains c
  | _ => false

def isOverHd : Hd → Bool
  | .other c => c == "over".hash.toNat
  | _ => false

mutual
  /-- Scalar position: every aggregate / window call in the expression is an entry of the input's
  schema (a column computed below).  Plans inside an expression (subqueries) are not entered. -/
  def scalarOk (agg : Hd → Bool) (sch : List Tm) : Tm → Bool
    | .col _ _ => true
    | .leaf _ => true
    | .node h xs => sch.contains (.node h xs) || planHead h || (!agg h && scalarOkList agg sch xs)
  def scalarOkList (agg : Hd → Bool) (sch : List Tm) : List Tm → Bool
    | [] => true
    | x :: xs => scalarOk agg sch x && scalarOkList agg sch xs
end

mutual
  /-- The nodes `Evaluator::eval` visits on rows of the schema `sch` (entries of the schema are
  column indices and not looked into; a plan is not an expression). -/
  def visited (sch : List Tm) : Tm → List Tm
    | .col _ _ => []
    | .leaf _ => []
    | .node h xs => if sch.contains (.node h xs) || planHead h then [] else .node h xs :: visitedList sch xs
  def visitedList (sch : List Tm) : List Tm → List Tm
    | [] => []
    | x :: xs => visited sch x ++ visitedList sch xs
end

/-- The arguments of a call are scalar. -/
def callArgsOk (agg : Hd → Bool) (sch : List Tm) : Tm → Bool
  | .node _ xs => scalarOkList agg sch xs
  | _ => true

/-- An item of the list of an aggregation / window operator: the call itself is what the operator
computes, its arguments are scalar; `(over f partition order)`: `f` is the call. -/
def aggItemOk (agg over : Hd → Bool) (sch : List Tm) : Tm → Bool
  | .node h xs =>
    if sch.contains (.node h xs) then true
    else if over h then
      match xs with
      | f :: rest => callArgsOk agg sch f && scalarOkList agg sch rest
      | [] => false
    else if agg h then scalarOkList agg sch xs
    else scalarOk agg sch (.node h xs)
  | _ => true

def aggItemsOk (agg over : Hd → Bool) (sch : List Tm) : List Tm → Bool
  | [] => true
  | x :: xs => aggItemOk agg over sch x && aggItemsOk agg over sch xs

def obligationsScalar (agg : Hd → Bool) : List (List Tm × Tm) → Bool
  | [] => true
  | (sch, e) :: rest => scalarOk agg sch e && obligationsScalar agg rest

/-- The expressions of one operator reference only aggregate / window values computed below it. -/
def aggRefsNode (agg over : Hd → Bool) : Tm → Bool
  | .node .agg [as, c] => aggItemsOk agg over (schema c) (listItems as)
  | .node .hashagg [ks, as, c] => scalarOk agg (schema c) ks && aggItemsOk agg over (schema c) (listItems as)
  | .node .sortagg [ks, as, c] => scalarOk agg (schema c) ks && aggItemsOk agg over (schema c) (listItems as)
  | .node .window [es, c] => aggItemsOk agg over (schema c) (listItems es)
  | n => obligationsScalar agg (nodeObligations n)

mutual
  /-- Every operator of the plan references only aggregate / window values computed below it. -/
  def aggRefsCheck (agg over : Hd → Bool) : Tm → Bool
    | .col _ _ => true
    | .leaf _ => true
    | .node h xs => if planHead h then aggRefsNode agg over (.node h xs) && aggRefsCheckList agg over xs else true
  def aggRefsCheckList (agg over : Hd → Bool) : List Tm → Bool
    | [] => true
    | x :: xs => aggRefsCheck agg over x && aggRefsCheckList agg over xs
end

/-- As read from plan text. -/
def aggRefsProduced (p : Tm) : Bool := aggRefsCheck isAggHd isOverHd p

-- ---------------------------------------------------------------------------------------------
-- apply_proj (rules/plan.rs) for `pushdown-proj-order`
-- ---------------------------------------------------------------------------------------------

mutual
  /-- `analyze_columns`: a column or `(ref e)` stands for itself; anything else uses what its
  children use. -/
  def usedCols : Tm → List Tm
    | .col t c => [.col t c]
    | .leaf _ => []
    | .node .ref xs => [.node .ref xs]
    | .node _ xs => usedColsList xs
  def usedColsList : List Tm → List Tm
    | [] => []
    | x :: xs => usedCols x ++ usedColsList xs
end

/-- `produced`: a schema entry that is a column or `(ref e)` is itself, anything else is
published as `(ref e)`. -/
def producedOf : Tm → Tm
  | .col t c => .col t c
  | .node .ref xs => .node .ref xs
  | e => .node .ref [e]

def produced (p : Tm) : List Tm := (schema p).map producedOf

def isColOrRef : Tm → Bool
  | .col _ _ => true
  | .node .ref _ => true
  | _ => false

mutual
  /-- The (sub)expressions of a term, not looking through `ref`s (`apply_proj`, since `fix:`
  5c889c5: the e-classes reachable from `[?vars]`). -/
  def directSubs : Tm → List Tm
    | .col t c => [.col t c]
    | .leaf l => [.leaf l]
    | .node .ref xs => [.node .ref xs]
    | .node h xs => .node h xs :: directSubsList xs
  def directSubsList : List Tm → List Tm
    | [] => []
    | x :: xs => directSubs x ++ directSubsList xs
end

/-- The projection list `apply_proj` builds over a child for the parent's expressions `roots`:
for every entry of the child's schema, its produced column if the parents' column set names it,
and — since `fix:` 5c889c5 — the entry itself if it is a computed expression that occurs in the
parents' expressions.  (Before the fix only the first part.) -/
def keptColumns (roots : List Tm) (c : Tm) : List Tm :=
  let used := usedColsList roots
  let direct := directSubsList roots
  (schema c).flatMap fun e =>
    (if used.contains (producedOf e) then [producedOf e] else []) ++
    (if !isColOrRef e && direct.contains e then [e] else [])

/-- `apply_proj("(proj [?exprs] (order [?keys] ?child))")`: the child is wrapped in a projection
on the columns of its schema that `?exprs` or `?keys` use. -/
def applyProjOrder (es ks c : Tm) : Tm :=
  .node .proj [es, .node .order [ks, .node .proj [.node .list (keptColumns [es, ks] c), c]]]

/-- The applier as it was before `fix:` 5c889c5 (kept for the regression theorem). -/
def applyProjOrderOld (es ks c : Tm) : Tm :=
  let used := usedCols es ++ usedCols ks
  let kept := (produced c).filter fun col => used.contains col
  .node .proj [es, .node .order [ks, .node .proj [.node .list kept, c]]]

def showVerdict : Verdict → String
  | .ok => "ok"
  | .buildPanic w => "build-panic: " ++ w
  | .runtimeTodo w => "runtime-todo: " ++ w

-- ---------------------------------------------------------------------------------------------
-- reading plan text
-- ---------------------------------------------------------------------------------------------

def hdOfString (s : String) : Hd :=
  if s == "filter" then .filter else if s == "order" then .order else if s == "limit" then .limit
  else if s == "topn" then .topn else if s == "empty" then .empty else if s == "join" then .join
  else if s == "hashjoin" then .hashjoin else if s == "mergejoin" then .mergejoin
  else if s == "apply" then .apply else if s == "scan" then .scan else if s == "values" then .values
  else if s == "proj" then .proj else if s == "agg" then .agg else if s == "window" then .window
  else if s == "hashagg" then .hashagg else if s == "sortagg" then .sortagg else if s == "list" then .list
  else if s == "ref" then .ref else if s == "insert" then .insert else if s == "delete" then .delete
  else if s == "copy_to" then .copyTo else if s == "analyze" then .analyze else if s == "explain" then .explain
  else if s == "index_scan" then .indexScan else if s == "exists" then .exists_ else if s == "in" then .in_
  else if s == "max1row" then .max1row
  else .other (s.hash.toNat)

def natOfDigits (s : String) : Option Nat := if !s.isEmpty && s.all Char.isDigit then s.toNat? else none

/-- `$t.c`, `$s.t.c`, and with a table-occurrence suffix `$t.c(n)` (printed in quotes). -/
def columnOfString (s0 : String) : Option Tm :=
  let s := if s0.startsWith "\"" && s0.endsWith "\"" then ((s0.toSlice.drop 1).dropEnd 1).toString else s0
  if !s.startsWith "$" then none else
  let body := (s.drop 1).toString
  let (core, occ) := match body.splitOn "(" with
    | [c, o] => (c, (((o.toSlice.dropEnd 1).toString).toNat?).getD 0)
    | _ => (body, 0)
  match core.splitOn "." with
  | [t, c] => match t.toNat?, c.toNat? with
    | some a, some b => some (.col (occ * 1000003 + a) b)
    | _, _ => none
  | [sc, t, c] => match sc.toNat?, t.toNat?, c.toNat? with
    | some x, some a, some b => some (.col (occ * 1000003 + x * 1009 + a) b)
    | _, _, _ => none
  | _ => none

def leafOfString (s : String) : Tm :=
  if s == "true" then .leaf .tru
  else if s == "null" then .leaf .null
  else if s == "inner" then .leaf (.jt .inner) else if s == "left_outer" then .leaf (.jt .leftOuter)
  else if s == "right_outer" then .leaf (.jt .rightOuter) else if s == "full_outer" then .leaf (.jt .fullOuter)
  else if s == "semi" then .leaf (.jt .semi) else if s == "anti" then .leaf (.jt .anti)
  else if s == "list" then .node .list []
  else if s == "rowcount" || s == "row_number" then .node (.other (s.hash.toNat)) []
  else match natOfDigits s with
    | some n => .leaf (.num n)
    | none =>
      match columnOfString s with
      | some c => c
      | none =>
        if s.startsWith "$" then
          match (s.drop 1).toString.toNat? with
          | some n => .leaf (.table n)
          | none => .leaf (.other s.hash.toNat)
        else .leaf (.other s.hash.toNat)

mutual
  def ofSexp : Sexp → Tm
    | .atom s => leafOfString s
    | .list [] => .node (.other 0) []
    | .list (.atom h :: args) => .node (hdOfString h) (ofSexpList args)
    | .list (x :: args) => .node (.other 1) (ofSexp x :: ofSexpList args)
  def ofSexpList : List Sexp → List Tm
    | [] => []
    | x :: xs => ofSexp x :: ofSexpList xs
end

end RlModel.Wf
