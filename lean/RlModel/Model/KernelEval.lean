import RlModel.Model.Kernel
/-
L4 (continued): `Evaluator::eval` (src/executor/evaluator.rs) over the kernels of
`Model/Kernel.lean`, the row-wise SQL specification of the same expression language, the
reason tags (= the forced hypotheses of the kernel theorems, decided on the actual inputs of
each node), and the wire syntax shared with harness/src/bin/c14.rs.
-/
namespace RlModel

/-- Constants (`DataValue`, the variants modelled). -/
inductive KVal where
  | null
  | bool (b : Bool)
  | int (w : IW) (v : Int)
  | str (s : String)
  deriving Repr, DecidableEq

/-- The scalar expression language of the evaluator (modelled part). -/
inductive KExpr where
  | col (i : Nat)
  | const (v : KVal)
  | arith (op : ArithOp) (a b : KExpr)
  | cmp (op : CmpOp) (a b : KExpr)
  | and (a b : KExpr)
  | or (a b : KExpr)
  | not (a : KExpr)
  | neg (a : KExpr)
  | isnull (a : KExpr)
  | ite (c t e : KExpr)
  | cast (t : Ty) (a : KExpr)
  | concat (a b : KExpr)
  | like (a : KExpr) (pat : String)
  | substring (s b c : KExpr)
  | replace (a : KExpr) (frm to : String)
  | repeat_ (s n : KExpr)
  deriving Repr

/-- `Constant(v)`: builder of `v.data_type()`, `push_n(cardinality, v)`. -/
def constCol (v : KVal) (n : Nat) : Col :=
  match v with
  | .null => .null n
  | .bool b => .bool (List.replicate n ⟨true, b⟩)
  | .int w x => .int w (List.replicate n ⟨true, x⟩)
  | .str s => .str (List.replicate n ⟨true, s⟩)

/-! ### Reason tags: which forced hypothesis of which kernel theorem fails on these inputs -/

/-- `Evaluator::eval`: result and the reason tags collected at the nodes evaluated. A failing
node stops the evaluation (`?`). -/
def evalK (chunk : List Col) (n : Nat) : KExpr → KOut Col × List String
  | .col i => (match chunk[i]? with | some c => .ok c | none => .panic, [])
  | .const v => (.ok (constCol v n), [])
  | .arith op a b =>
    match evalK chunk n a with
    | (.ok ca, ta) =>
      match evalK chunk n b with
      | (.ok cb, tb) =>
        let tg := []
        (Col.arith op ca cb, ta ++ tb ++ tg)
      | (r, tb) => (r, ta ++ tb)
    | (r, ta) => (r, ta)
  | .cmp op a b =>
    match evalK chunk n a with
    | (.ok ca, ta) =>
      match evalK chunk n b with
      | (.ok cb, tb) =>
        let tg := []
        (Col.cmp op ca cb, ta ++ tb ++ tg)
      | (r, tb) => (r, ta ++ tb)
    | (r, ta) => (r, ta)
  | .and a b =>
    match evalK chunk n a with
    | (.ok ca, ta) =>
      match evalK chunk n b with
      | (.ok cb, tb) =>
        let tg := []
        (Col.and ca cb, ta ++ tb ++ tg)
      | (r, tb) => (r, ta ++ tb)
    | (r, ta) => (r, ta)
  | .or a b =>
    match evalK chunk n a with
    | (.ok ca, ta) =>
      match evalK chunk n b with
      | (.ok cb, tb) =>
        let tg := []
        (Col.or ca cb, ta ++ tb ++ tg)
      | (r, tb) => (r, ta ++ tb)
    | (r, ta) => (r, ta)
  | .not a =>
    match evalK chunk n a with
    | (.ok ca, ta) => (Col.not ca, ta ++ [])
    | (r, ta) => (r, ta)
  | .neg a =>
    match evalK chunk n a with
    | (.ok ca, ta) =>
      let tg := []
      (Col.neg ca, ta ++ tg)
    | (r, ta) => (r, ta)
  | .isnull a =>
    match evalK chunk n a with
    | (.ok ca, ta) => (.ok (Col.isNull ca), ta)
    | (r, ta) => (r, ta)
  | .ite c t e =>
    match evalK chunk n c with
    | (.ok cc, tc) =>
      match evalK chunk n t with
      | (.ok ct, tt) =>
        match evalK chunk n e with
        | (.ok ce, te) =>
          let tg := []
          (Col.select cc ct ce, tc ++ tt ++ te ++ tg)
        | (r, te) => (r, tc ++ tt ++ te)
      | (r, tt) => (r, tc ++ tt)
    | (r, tc) => (r, tc)
  | .cast t a =>
    match evalK chunk n a with
    | (.ok ca, ta) => (Col.cast t ca, ta)
    | (r, ta) => (r, ta)
  | .concat a b =>
    match evalK chunk n a with
    | (.ok ca, ta) =>
      match evalK chunk n b with
      | (.ok cb, tb) =>
        (Col.concat ca cb, ta ++ tb ++ [])
      | (r, tb) => (r, ta ++ tb)
    | (r, ta) => (r, ta)

  | .like a p =>
    match evalK chunk n a with
    | (.ok ca, ta) =>
      (Col.like p ca, ta ++ [])
    | (r, ta) => (r, ta)
  | .substring s b c =>
    match evalK chunk n s with
    | (.ok cs, ts) =>
      match evalK chunk n b with
      | (.ok cb, tb) =>
        match evalK chunk n c with
        | (.ok cc, tc) =>
          (Col.substring cs cb cc, ts ++ tb ++ tc ++
            [])
        | (r, tc) => (r, ts ++ tb ++ tc)
      | (r, tb) => (r, ts ++ tb)
    | (r, ts) => (r, ts)
  | .replace a frm to =>
    match evalK chunk n a with
    | (.ok ca, ta) =>
      (Col.replace frm to ca, ta ++ [])
    | (r, ta) => (r, ta)
  | .repeat_ s k =>
    match evalK chunk n s with
    | (.ok cs, ts) =>
      match evalK chunk n k with
      | (.ok ck, tk) =>
        (Col.repeat_ cs ck, ts ++ tk ++
          [])
      | (r, tk) => (r, ts ++ tk)
    | (r, ts) => (r, ts)

/-! ### The SQL side: columns of SQL values, operators lifted row by row -/

inductive SCol where
  | null (n : Nat)
  | bool (xs : List (Option Bool))
  | int (w : IW) (xs : List (Option Int))
  | str (xs : List (Option String))
  deriving Repr, DecidableEq

def Col.abs : Col → SCol
  | .null n => .null n
  | .bool a => .bool (vals a)
  | .int w a => .int w (vals a)
  | .str a => .str (vals a)

def SCol.ty : SCol → Ty
  | .null _ => .null
  | .bool _ => .bool
  | .int w _ => .int w
  | .str _ => .str

def SCol.len : SCol → Nat
  | .null n => n
  | .bool xs => xs.length
  | .int _ xs => xs.length
  | .str xs => xs.length

def SCol.divisorOk (op : ArithOp) : SCol → Bool
  | .bool _ => !op.safens
  | .str _ => !op.safens
  | _ => true

def rows1 {α γ} (f : Option α → KOut (Option γ)) : List (Option α) → KOut (List (Option γ))
  | x :: xs =>
    match f x with
    | .ok c =>
      match rows1 f xs with
      | .ok r => .ok (c :: r)
      | .err => .err
      | .panic => .panic
    | .err => .err
    | .panic => .panic
  | [] => .ok []

/-- A typed all-NULL column (the SQL value of an operator applied to a NULL-typed operand). -/
def SCol.nulls (t : Ty) (n : Nat) : SCol :=
  match t with
  | .null => .null n
  | .bool => .bool (List.replicate n none)
  | .int w => .int w (List.replicate n none)
  | .str => .str (List.replicate n none)

def constSCol (v : KVal) (n : Nat) : SCol :=
  match v with
  | .null => .null n
  | .bool b => .bool (List.replicate n (some b))
  | .int w x => .int w (List.replicate n (some x))
  | .str s => .str (List.replicate n (some s))

/-- A scalar function of a non-NULL value, NULL-strict. -/
def liftOpt {α γ} (f : α → KOut γ) : Option α → KOut (Option γ)
  | some v => (f v).map some
  | none => .ok none

def specCast (t : Ty) : SCol → KOut SCol
  | .null n => .ok (SCol.nulls t n)
  | .bool xs =>
    match t with
    | .bool => .ok (.bool xs)
    | .int w => .ok (.int w (xs.map (Option.map fun b => if b then 1 else 0)))
    | .str => .ok (.str (xs.map (Option.map fun b => if b then "true" else "false")))
    | .null => .err
  | .int w xs =>
    match t with
    | .bool => .ok (.bool (xs.map (Option.map fun x => x != 0)))
    | .int w' =>
      if w == w' then .ok (.int w xs)
      else if w.rank ≤ w'.rank then .ok (.int w' xs)
      else (rows1 (liftOpt fun x => if w'.fits x then KOut.ok x else KOut.err) xs).map (.int w')
    | .str => .ok (.str (xs.map (Option.map fun x => toString x)))
    | .null => .err
  | .str xs =>
    match t with
    | .str => .ok (.str xs)
    | .int w =>
      (rows1 (liftOpt fun s => match parseIntStr s with
          | some x => if w.fits x then KOut.ok x else KOut.err
          | none => KOut.err) xs).map (.int w)
    | .bool =>
      (rows1 (liftOpt fun s => if s == "true" then KOut.ok true
          else if s == "false" then KOut.ok false else KOut.err) xs).map .bool
    | .null => .err

/-- Column-level arithmetic: an operand of type NULL gives NULL (of type NULL), as `analyze_type`
says; `/` and `%` accept only a numeric or NULL-typed divisor. -/
def specArithCol (op : ArithOp) (ca cb : SCol) : KOut SCol :=
  if !cb.divisorOk op then .err else
  match ca, cb with
  | .int wa xs, .int wb ys => (rows2 (specArith op (wa.max wb)) xs ys).map (.int (wa.max wb))
  | .null k, _ => .ok (.null k)
  | _, .null k => .ok (.null k)
  | _, _ => .err

def specCmpCol (op : CmpOp) (ca cb : SCol) : KOut SCol :=
  match ca, cb with
  | .int _ xs, .int _ ys => (rows2 (fun x y => .ok (specCmp op.onInt x y)) xs ys).map .bool
  | .bool xs, .bool ys =>
    (rows2 (fun x y => .ok (specCmp (fun p q => op.onOrd (boolOrd p q)) x y)) xs ys).map .bool
  | .str xs, .str ys =>
    (rows2 (fun x y => .ok (specCmp (fun p q => op.onOrd (strOrd p q)) x y)) xs ys).map .bool
  -- comparison with the untyped NULL: NULL (BOOLEAN) for every row of the left operand
  | .null k, _ => .ok (.bool (List.replicate k none))
  | ca, .null _ => .ok (.bool (List.replicate ca.len none))
  | _, _ => .err

def specSelRows {α} : List (Option Bool) → List (Option α) → List (Option α) → List (Option α)
  | c :: cs, a :: as, b :: bs => specSelect c a b :: specSelRows cs as bs
  | _, _, _ => []

/-- Row-wise CASE over three columns; columns of different lengths are not a relation. -/
def specSelM {α} (cs : List (Option Bool)) (xs ys : List (Option α)) : KOut (List (Option α)) :=
  if xs.length ≠ ys.length ∨ cs.length ≠ xs.length then .panic else .ok (specSelRows cs xs ys)

def specSubstrRows : List (Option String) → List (Option Int) → List (Option Int) →
    List (Option String)
  | some s :: xs, some b :: ys, some c :: zs => some (substrF s b c) :: specSubstrRows xs ys zs
  | _ :: xs, _ :: ys, _ :: zs => none :: specSubstrRows xs ys zs
  | _, _, _ => []

/-- View of a column as a boolean column: a NULL-typed column is an all-NULL boolean one. -/
def SCol.asBool : SCol → Option (List (Option Bool))
  | .bool xs => some xs
  | .null n => some (List.replicate n none)
  | _ => none

def specAndCol (ca cb : SCol) : KOut SCol :=
  match ca.asBool, cb.asBool with
  | some xs, some ys => (rows2 (fun x y => .ok (specAnd x y)) xs ys).map .bool
  | _, _ => .err

def specOrCol (ca cb : SCol) : KOut SCol :=
  match ca.asBool, cb.asBool with
  | some xs, some ys => (rows2 (fun x y => .ok (specOr x y)) xs ys).map .bool
  | _, _ => .err

/-- CASE: the condition must be BOOLEAN, the branches of one type (two untyped NULLs included). -/
def specIteCol (cc ct ce : SCol) : KOut SCol :=
  match cc with
  | .bool cs =>
    match ct, ce with
    | .int wa xs, .int wb ys => if wa == wb then (specSelM cs xs ys).map (.int wa) else .err
    | .bool xs, .bool ys => (specSelM cs xs ys).map .bool
    | .str xs, .str ys => (specSelM cs xs ys).map .str
    | .null k, .null _ => .ok (.null k)
    | _, _ => .err
  | _ => .err

/-- Searched / simple CASE with several WHEN branches, as `Binder::bind_case` builds it: nested `if`
nodes, the FIRST WHEN outermost, ELSE (or NULL) innermost. (`CASE x WHEN v …`: condition `x = v`.) -/
def caseOf : List (KExpr × KExpr) → KExpr → KExpr
  | [], el => el
  | (c, r) :: rest, el => .ite c r (caseOf rest el)

/-- The desugaring on the scalars of one row. -/
def caseS {α} : List (Option Bool × Option α) → Option α → Option α
  | [], el => el
  | (c, r) :: rest, el => specSelect c r (caseS rest el)

/-- Scalar SQL semantics of CASE read off the SQL text: the result of the first WHEN (in source order)
whose condition is TRUE; ELSE when none is (FALSE and NULL conditions do not select). -/
def firstTrue {α} : List (Option Bool × Option α) → Option α → Option α
  | [], el => el
  | (c, r) :: rest, el => if c = some true then r else firstTrue rest el

/-- SQL semantics of the expression language, row by row (every operator is `rows1/rows2` of a
scalar function of ONE row, so the result at row i depends on row i alone by construction). -/
def specEval (chunk : List SCol) (n : Nat) : KExpr → KOut SCol
  | .col i => match chunk[i]? with | some c => .ok c | none => .panic
  | .const v => .ok (constSCol v n)
  | .arith op a b =>
    match specEval chunk n a with
    | .ok ca =>
      match specEval chunk n b with
      | .ok cb => specArithCol op ca cb
      | r => r
    | r => r
  | .cmp op a b =>
    match specEval chunk n a with
    | .ok ca =>
      match specEval chunk n b with
      | .ok cb => specCmpCol op ca cb
      | r => r
    | r => r
  | .and a b =>
    match specEval chunk n a with
    | .ok ca =>
      match specEval chunk n b with
      | .ok cb => specAndCol ca cb
      | r => r
    | r => r
  | .or a b =>
    match specEval chunk n a with
    | .ok ca =>
      match specEval chunk n b with
      | .ok cb => specOrCol ca cb
      | r => r
    | r => r
  | .not a =>
    match specEval chunk n a with
    | .ok (.bool xs) => .ok (.bool (xs.map specNot))
    | .ok _ => .err     -- NOT of a non-BOOLEAN (also of the untyped NULL) is a type error
    | r => r
  | .neg a =>
    match specEval chunk n a with
    | .ok (.int w xs) => (rows1 (specNeg w) xs).map (.int w)
    | .ok (.null k) => .ok (.null k)    -- minus the untyped NULL is NULL
    | .ok _ => .err
    | r => r
  | .isnull a =>
    match specEval chunk n a with
    | .ok (.null k) => .ok (.bool (List.replicate k (some true)))
    | .ok (.bool xs) => .ok (.bool (xs.map fun x => some x.isNone))
    | .ok (.int _ xs) => .ok (.bool (xs.map fun x => some x.isNone))
    | .ok (.str xs) => .ok (.bool (xs.map fun x => some x.isNone))
    | r => r
  | .ite c t e =>
    match specEval chunk n c with
    | .ok cc =>
      match specEval chunk n t with
      | .ok ct =>
        match specEval chunk n e with
        | .ok ce => specIteCol cc ct ce
        | r => r
      | r => r
    | r => r
  | .cast t a =>
    match specEval chunk n a with
    | .ok ca => specCast t ca
    | r => r
  | .concat a b =>
    match specEval chunk n a with
    | .ok ca =>
      match specEval chunk n b with
      | .ok cb =>
        match ca, cb with
        | .str xs, .str ys =>
          (rows2 (fun x y => match x, y with
            | some p, some q => KOut.ok (some (p ++ q))
            | _, _ => KOut.ok none) xs ys).map .str
        | _, _ => .err
      | r => r
    | r => r

  | .like a p =>
    match specEval chunk n a with
    | .ok (.str xs) => .ok (.bool (xs.map (Option.map fun s => likeSpec p s)))
    | .ok _ => .err
    | r => r
  | .substring s b c =>
    match specEval chunk n s with
    | .ok cs =>
      match specEval chunk n b with
      | .ok cb =>
        match specEval chunk n c with
        | .ok cc =>
          match cs, cb, cc with
          | .str xs, .int .w32 ys, .int .w32 zs => .ok (.str (specSubstrRows xs ys zs))
          | _, _, _ => .err
        | r => r
      | r => r
    | r => r
  | .replace a frm to =>
    match specEval chunk n a with
    | .ok (.str xs) => .ok (.str (xs.map (Option.map fun s => replaceF frm to s)))
    | .ok _ => .err
    | r => r
  | .repeat_ s k =>
    match specEval chunk n s with
    | .ok cs =>
      match specEval chunk n k with
      | .ok ck =>
        match cs, ck with
        | .str xs, .int .w32 ys =>
          (rows2 (fun x y => match x, y with
            | some p, some q => KOut.ok (some (repeatF p q))
            | _, _ => KOut.ok none) xs ys).map .str
        | _, _ => .err
      | r => r
    | r => r

end RlModel
