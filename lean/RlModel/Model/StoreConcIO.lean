/-
Wire format of the schedule traces (C08 C09 C10): parsing the harness' trace lines into `Act`s,
canonical rendering of the model's observable state.  Core Lean only.
-/
import RlModel.Model.Sexp
import RlModel.Model.StoreConc

namespace RlModel
namespace SC

def natOf (s : String) : Nat := s.toNat?.getD 0

def intOf (s : String) : Int := s.toInt?.getD 0

/-- `t7` ↦ 7 -/
def tableOf (s : String) : Nat := natOf (s.drop 1).toString

def parseCmd (d : String) : Option Cmd :=
  match d.splitOn ":" with
  | ["create", t] => some (.create (tableOf t))
  | ["drop", t] => some (.drop (tableOf t))
  | ["ins", t, vs] => some (.insert (tableOf t) ((vs.splitOn "+").filterMap (fun x => if x.isEmpty then none else some (intOf x))))
  | ["del", t, op, c] =>
      let o := match op with
        | "lt" => DelOp.lt | "eq" => DelOp.eq | "ge" => DelOp.ge | "bt" => DelOp.bt | _ => DelOp.all
      some (.delete (tableOf t) o (intOf c))
  | ["sel", t] => some (.select (tableOf t) none)
  | ["selo", t] => some (.select (tableOf t) none)
  | ["seleq", t, c] => some (.select (tableOf t) (some (intOf c)))
  | ["cnt", t] => some (.count (tableOf t))
  | ["read", t, b] => some (.read (tableOf t) (natOf b))
  | ["compact"] => some .compact
  | ["vacuum"] => some .vacuum
  | _ => none

def parseKey (d : String) : Option Key :=
  match d.splitOn "_" with
  | [t, r] => some (natOf t, natOf r)
  | _ => none

def parseAct (a th : Nat) (name detail : String) : Option Act :=
  let t : Tid := (a, th)
  match name with
  | "cfg.big" => some (.config (natOf detail))
  | "cmd.begin" => (parseCmd detail).map (Act.cmdBegin t)
  | "db.bound" => some (.bound t)
  | "vm.pin" => some (.pin t)
  | "vm.unpin" => some (.unpin t (natOf detail))
  | "txn.pinned" =>
      (match detail.splitOn "," with
       | [m, tb, _] =>
           let mode := match m with | "ro" => Mode.ro | "rw" => Mode.rw | "upd" => Mode.upd | _ => Mode.none
           some (.txnPinned t mode (natOf tb))
       | _ => none)
  | "txn.locked" => some (.txnLocked t)
  | "txn.lock.begin" => some (.lockBegin t)
  | "ddl.create.begin" => some (.lockBegin t)
  | "vm.commit.begin" => some (.commitBegin t)
  | "vm.commitA" => some (.commitA t)
  | "vm.append" => some (.append t)
  | "vm.committed" => some (.committed t)
  | "ddl.create.applied" => some (.createApplied t)
  | "ddl.drop.applied" => some (.dropApplied t)
  | "cp.pass.begin" => some (.cpPinned t)
  | "cp.table" => some (.cpTable t (natOf detail))
  | "cp.locked" => some (.cpLocked t (natOf detail))
  | "cp.pass.end" => some (.cpEnd t)
  | "vac.find" => some (.vacFind t)
  | "vac.unlinked" => (parseKey detail).map (Act.vacUnlinked t)
  | "rd.open" => some (.rdOpen t)
  | "rd.batch" => some (.rdBatch t (natOf detail))
  | "scan.batch" => some (.scanBatch t (natOf detail))
  | "cmd.done" => some (.cmdDone t)
  | "panic" => some (.panic t)
  | _ => none

/-! ### rendering -/

def insNat (x : Nat) : List Nat → List Nat
  | [] => [x]
  | y :: r => if x ≤ y then x :: y :: r else y :: insNat x r

def sortNat : List Nat → List Nat
  | [] => []
  | x :: r => insNat x (sortNat r)

def dedupSorted : List Nat → List Nat
  | [] => []
  | [x] => [x]
  | x :: y :: r => if x == y then dedupSorted (y :: r) else x :: dedupSorted (y :: r)

def keyLe (a b : Key) : Bool := a.1 < b.1 || (a.1 == b.1 && a.2 ≤ b.2)

def insKey (x : Key) : List Key → List Key
  | [] => [x]
  | y :: r => if keyLe x y then x :: y :: r else y :: insKey x r

def sortKeysFull : List Key → List Key
  | [] => []
  | x :: r => insKey x (sortKeysFull r)

def insStr (x : String) : List String → List String
  | [] => [x]
  | y :: r => if x ≤ y then x :: y :: r else y :: insStr x r

def sortStr : List String → List String
  | [] => []
  | x :: r => insStr x (sortStr r)

def joinWith (sep : String) : List String → String
  | [] => ""
  | [x] => x
  | x :: r => x ++ sep ++ joinWith sep r

def keyStr (k : Key) : String := toString k.1 ++ "_" ++ toString k.2

def tablesOf (ks : List Key) : List Nat := dedupSorted (sortNat (ks.map (·.1)))

def renderObs (k : K) : String :=
  let es := List.range (k.epoch + 1)
  let pins := es.filterMap (fun e => if k.refcnt e > 0 then some (toString e ++ ":" ++ toString (k.refcnt e)) else none)
  let snap := k.status k.epoch
  let ks := sortKeysFull snap.rs
  let snapS := (tablesOf ks).map (fun t =>
    toString t ++ ":" ++ joinWith "+" ((ks.filter (fun x => x.1 == t)).map (fun x => toString x.2)))
  let dvKeys := sortKeysFull (snap.dvs.map (·.1))
  let dvKeysU := dvKeys.foldr (fun x acc => match acc with | y :: _ => if x == y then acc else x :: acc | [] => [x]) []
  let dvS := dvKeysU.map (fun key =>
    toString key.1 ++ ":" ++ toString key.2 ++ ":" ++
      joinWith "+" ((dedupSorted (sortNat (deadPos snap key))).map toString))
  let pend := es.filterMap (fun e =>
    if (k.pending e).isEmpty then none
    else some (toString e ++ ":" ++ joinWith "+" ((sortKeysFull (k.pending e)).map keyStr)))
  "epoch=" ++ toString k.epoch ++ ";pins=" ++ joinWith "," pins ++ ";snap=" ++ joinWith "," snapS
    ++ ";dvs=" ++ joinWith "," dvS ++ ";pending=" ++ joinWith "," pend
    ++ ";pool=" ++ joinWith "," ((sortKeysFull (poolKeys k)).map keyStr)

def renderDisk (k : K) : String :=
  let s := joinWith "," ((sortKeysFull k.disk).map keyStr)
  if s.isEmpty then "-" else s

def opStr : Op → String
  | .create n => "create:t" ++ toString n
  | .drop t => "drop:" ++ toString t
  | .add k _ => "add:" ++ toString k.1 ++ ":" ++ toString k.2
  | .del k => "del:" ++ toString k.1 ++ ":" ++ toString k.2
  | .addDv k _ _ => "adddv:" ++ toString k.1 ++ ":" ++ toString k.2
  | .delDv k _ => "deldv:" ++ toString k.1 ++ ":" ++ toString k.2

def opsStr (ops : List Op) : String :=
  let s := joinWith "," (sortStr (ops.map opStr))
  if s.isEmpty then "-" else s

def errStr : ErrK → String
  | .bind => "bind" | .duplicate => "duplicate" | .notfound => "notfound" | .io => "io" | .other => "other"

def resStr : Res → String
  | .rows xs => "rows:" ++ joinWith "+" ((sortInt xs).map toString)
  | .err k => "err:" ++ errStr k
  | .ok => "ok"
  | .panic => "panic"

/-- what the model has to say about an event after executing it -/
def renderEv (before after : Sys) (a : Act) : String :=
  match a with
  | .config _ => "cfg.big"
  | .cmdBegin _ _ => "cmd.begin"
  | .bound _ => "db.bound"
  | .pin _ => "vm.pin " ++ toString before.k.epoch
  | .unpin _ e => "vm.unpin " ++ toString e
  | .txnPinned _ _ _ => "txn.pinned"
  | .txnLocked _ => "txn.locked"
  | .lockBegin _ => "lock.begin"
  | .commitBegin th => "vm.commit.begin " ++ opsStr (getTh after th).ops
  | .commitA _ => "vm.commitA " ++ toString before.k.epoch
  | .append _ => "vm.append"
  | .committed _ => "vm.committed"
  | .createApplied _ => "ddl.create.applied"
  | .dropApplied _ => "ddl.drop.applied"
  | .cpPinned _ => "cp.pass.begin"
  | .cpTable _ t => "cp.table " ++ toString t
  | .cpLocked _ t => "cp.locked " ++ toString t
  | .cpEnd _ => "cp.pass.end"
  | .vacFind th =>
      let mine := (after.k.uq.filter (fun q => q.1 == th)).map (fun q => q.2.2)
      let s := joinWith "," ((sortKeysFull mine).map keyStr)
      "vac.find " ++ (if s.isEmpty then "-" else s)
  | .vacUnlinked _ key => "vac.unlinked " ++ keyStr key
  | .rdOpen _ => "rd.open"
  | .rdBatch _ n => "rd.batch " ++ toString n
  | .scanBatch _ n => "scan.batch " ++ toString n
  | .cmdDone _ =>
      (match after.outs.getLast? with
       | some (_, _, r) => "cmd.done " ++ resStr r
       | none => "cmd.done ?")
  | .panic _ => "panic"

/-- final contents of every table of the catalog, from the current snapshot -/
def renderFinal (s : Sys) : String :=
  let names := sortNat (s.catalog.map (·.1))
  joinWith " " (names.map (fun n =>
    match lookupName s n with
    | some tb =>
        (match rowsAt? s.k.pool (s.k.status s.k.epoch) tb with
         | some r => "(t" ++ toString n ++ " " ++ resStr (.rows r) ++ ")"
         | none => "(t" ++ toString n ++ " missing)")
    | none => ""))

/-! ### reopening: replay of the manifest (`SecondaryStorage::bootstrap`) -/

structure Boot where
  names : List (Nat × Nat) := []        -- live (name, table id)
  nextTid : Nat := 0
  rowsets : List Key := []
  dvs : List (Key × Nat) := []

/-- `ok`, `duplicate` (a CreateTable record for an existing name: bootstrap returns an error),
`notfound`, or `panic` (a surviving row-set / delete vector of a table that no longer exists:
`tables.get(..).unwrap()`). -/
def bootReplay (log : List (List Op)) : String :=
  let step := fun (acc : Option Boot × String) (o : Op) =>
    match acc with
    | (none, e) => (none, e)
    | (some b, _) =>
      match o with
      | .create n =>
          if b.names.any (fun x => x.1 == n) then (none, "err:duplicate")
          else (some { b with names := (n, b.nextTid) :: b.names, nextTid := b.nextTid + 1 }, "")
      | .drop t =>
          if b.names.any (fun x => x.2 == t) then (some { b with names := b.names.filter (fun x => x.2 != t) }, "")
          else (none, "err:notfound")
      | .add k _ => (some { b with rowsets := k :: b.rowsets.filter (fun x => x != k) }, "")
      | .del k => (some { b with rowsets := b.rowsets.filter (fun x => x != k) }, "")
      | .addDv k d _ => (some { b with dvs := (k, d) :: b.dvs }, "")
      | .delDv k d => (some { b with dvs := b.dvs.filter (fun x => !(x.1 == k && x.2 == d)) }, "")
  match (log.flatMap id).foldl step (some {}, "") with
  | (none, e) => e
  | (some b, _) =>
      if b.rowsets.all (fun k => b.names.any (fun x => x.2 == k.1))
          && b.dvs.all (fun d => b.names.any (fun x => x.2 == d.1.1)) then "ok" else "panic"

/-- Replays one `(trace ...)` line; the answer has one `(step ...)` per step of the trace. -/
def replaySteps (s : Sys) (steps : List Sexp) (acc : String) : String × Sys × Bool :=
  match steps with
  | [] => (acc, s, true)
  | st :: rest =>
    match st with
    | .list (.atom "step" :: items) =>
      let rec go (s : Sys) (items : List Sexp) (out : String) : String × Sys × Bool :=
        match items with
        | [] => (out, s, true)
        | .list [.atom "ev", .atom a, .atom th, .atom name, .atom detail] :: r =>
            (match parseAct (natOf a) (natOf th) name detail with
             | none => (out ++ " (stuck unparsed " ++ name ++ ")", s, false)
             | some act =>
               match astep s act with
               | none => (out ++ " (stuck disabled " ++ name ++ " " ++ a ++ " " ++ th ++ ")", s, false)
               | some s' => go s' r (out ++ " (ev " ++ renderEv s s' act ++ ")"))
        | _ :: r => go s r out
      let (o, s', ok) := go s items ""
      let line := acc ++ " (step" ++ o ++ " (obs " ++ renderObs s'.k ++ ") (disk " ++ renderDisk s'.k ++ "))"
      if ok then replaySteps s' rest line else (line, s', false)
    | _ => replaySteps s rest acc

def answerTrace (line : String) : String :=
  match Sexp.parse line with
  | some (.list (.atom "trace" :: .atom id :: .list (.atom "steps" :: steps) :: _)) =>
      let (o, s, ok) := replaySteps init steps ""
      "(model " ++ id ++ o ++ " (ok " ++ toString ok ++ ") (final " ++ renderFinal s ++ ") (reopen "
        ++ bootReplay s.k.log ++ "))"
  | _ => "bad-request"

end SC
end RlModel
