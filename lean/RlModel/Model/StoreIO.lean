import RlModel.Model.Store
/-
Request reader / observation printer for the storage-history drivers (drv_c03, drv_c05, drv_c07).
Runs the *same* executable definitions the theorems are about (`step`, `SpecSt.step`,
`MemStore.step`) and prints, per step, what the Rust harness prints for the implementation.
See harness/src/store_common.rs for the request format.
-/
namespace RlModel
namespace StoreIO

def parseNat (s : String) : Nat := s.toNat?.getD 0

def parseCol : Sexp → Option ColDesc
  | .list [.atom n, .atom ty, .atom nn, .atom pk] => some ⟨n, ty, nn == "1", pk == "1"⟩
  | _ => none

def parseRow : Sexp → Option Row
  | .list vs => vs.mapM fun v => match v with
    | .atom a => Val.ofCanon a
    | _ => none
  | _ => none

/-- SQL comparison of two non-NULL values of the same type -/
def cmpOp (op : String) (o : Ordering) : Bool :=
  match op with
  | "lt" => o == .lt | "le" => o != .gt | "eq" => o == .eq
  | "ne" => o != .eq | "gt" => o == .gt | "ge" => o != .lt
  | _ => false

/-- three-valued evaluation of a predicate s-expression on a row -/
def evalPred : Sexp → Row → Option Bool
  | .list [.atom "true"], _ => some true
  | .list [.atom "cmp", .atom i, .atom op, .atom v], r =>
      match r.getD (parseNat i) Val.null, Val.ofCanon v with
      | Val.null, _ => none
      | _, none => none
      | _, some Val.null => none
      | x, some c => some (cmpOp op (Val.cmp x c))
  | .list [.atom "isnull", .atom i], r => some (r.getD (parseNat i) Val.null == Val.null)
  | .list [.atom "not", p], r => not3 (evalPred p r)
  | .list [.atom "and", p, q], r => and3 (evalPred p r) (evalPred q r)
  | .list [.atom "or", p, q], r => or3 (evalPred p r) (evalPred q r)
  | _, _ => none

def splitParts : List Nat → List Row → List (List Row)
  | [], rows => if rows.isEmpty then [] else [rows]
  | [_], rows => [rows]
  | n :: ns, rows => rows.take n :: splitParts ns (rows.drop n)

def isPartsAnn : Sexp → Bool
  | .list (.atom "parts" :: _) => true
  | _ => false

def parseStep : Sexp → Option Op
  | .list (.atom "create" :: _ :: .atom n :: cols) => do
      let cs ← cols.mapM parseCol
      pure (.create ⟨n, cs⟩)
  | .list [.atom "view", _, .atom n] => some (.createView n)
  | .list [.atom "index", _, .atom n, .atom t] => some (.createIndex n t)
  | .list [.atom "drop", _, .atom n] => some (.drop n)
  | .list (.atom "insert" :: _ :: .atom t :: rest) => do
      let rowsx := rest.filter (fun x => !isPartsAnn x)
      let rows ← rowsx.mapM parseRow
      let parts := match rest.find? isPartsAnn with
        | some (.list (_ :: ns)) => splitParts (ns.map fun x => parseNat (x.atom?.getD "0")) rows
        | _ => if rows.isEmpty then [] else [rows]
      pure (.insert t parts)
  | .list [.atom "delete", _, .atom t, p] => some (.delete t fun r => evalPred p r == some true)
  | .list (.atom "compact" :: sels) =>
      let tbl : List (Nat × List Nat) := sels.filterMap fun x => match x with
        | .list (.atom t :: rss) => some (parseNat t, rss.map fun y => parseNat (y.atom?.getD "0"))
        | _ => none
      some (.compact tbl)
  | .list [.atom "vacuum"] => some .vacuum
  | .list [.atom "reopen"] => some .reopen
  | _ => none

/-! printing -/

def xorNat (a b : Nat) : Nat := a ^^^ b

def rowHash (r : Row) : Nat :=
  r.foldl (fun h v =>
    let h := v.canon.toUTF8.toList.foldl (fun h b => (xorNat (h * 1099511) b.toNat) % 1000000007) h
    (xorNat (h * 1099511) 32) % 1000000007) 1469598103

def renderBag (rows : List Row) : String :=
  if rows.length > 48 then
    "#" ++ toString rows.length ++ ":" ++ toString ((rows.foldl (fun s r => (s + rowHash r) % 1000000007) 0))
  else String.join (rows.map rowCanon)

def recText : Rec → String
  | .begin => "B" | .end_ => "E"
  | .createTable d => "C:" ++ d.name
  | .dropTable t => "D:" ++ toString t
  | .addRowSet t r => "AR:" ++ toString t ++ "." ++ toString r
  | .delRowSet t r => "DR:" ++ toString t ++ "." ++ toString r
  | .addDV t r d => "AV:" ++ toString t ++ "." ++ toString r ++ "." ++ toString d
  | .delDV t r d => "DV:" ++ toString t ++ "." ++ toString r ++ "." ++ toString d

def colText (c : ColDesc) : String :=
  c.name ++ "/" ++ c.ty ++ "/" ++ (if c.notNull then "1" else "0") ++ "/" ++ (if c.pk then "1" else "0")

def natsText (l : List Nat) : String := ",".intercalate (l.map toString)

def catText (cat : Catalog) (defOf : Nat → Option TableDef) : String :=
  " ".intercalate (cat.entries.map fun e =>
    match e.kind with
    | .view => toString e.id ++ ":" ++ e.name ++ ":v"
    | .table => toString e.id ++ ":" ++ e.name ++ ":t:" ++
        ",".intercalate (((defOf e.id).map (·.cols)).getD [] |>.map colText))

def tabsText (names : List String) (abs : String → Option (TableDef × List Row)) : String :=
  ";".intercalate (names.map fun n => match abs n with
    | some (_, rows) => n ++ "=" ++ renderBag rows
    | none => n ++ "=absent")

def outText : Out → String
  | .ok n => "ok:" ++ toString n
  | .err _ => "err"
  | .panic _ => "panic"

def observe (names : List String) (s : Store) : String :=
  let phys := names.filterMap (fun n => s.tableId? n) |>.flatMap fun tid =>
    (s.rowsetsOf tid).filterMap fun rs =>
      let v := s.rsVisible tid rs
      if v.isEmpty then none
      else some (toString tid ++ "." ++ toString rs ++ ":" ++ natsText (v.map (·.1)))
  "tabs=" ++ tabsText names s.abs
  ++ "\tman=" ++ " ".intercalate (s.manifest.map recText)
  ++ "\tcat=" ++ catText s.cat (fun id => lookup id s.tables)
  ++ "\trs=" ++ " ".intercalate (s.rowsets.map fun k => toString k.1 ++ "." ++ toString k.2)
  ++ "\tdv=" ++ " ".intercalate (s.dvs.map fun e => toString e.tid ++ "." ++ toString e.rs ++ ":" ++ natsText e.dead)
  ++ "\tphys=" ++ " ".intercalate phys

/-- why the disk model's state differs from the specification (empty when it does not) -/
def reasonTags (names : List String) (st : St) (sp : SpecSt) : List String :=
  match st with
  | .dead why => ["dead:" ++ why]
  | .up s =>
    let lost := names.any fun n => match s.abs n, sp.tables.get n with
      | some (d, rows), some (d', rows') => !(d == d' && rows.length == rows'.length)
      | none, none => false
      | _, _ => true
    let viewLost := sp.views.any fun v => (s.cat.find? v).isNone
    let staleDv := s.dvs.any fun e => !(s.rowsets.contains (e.tid, e.rs)) && s.nextRs ≤ e.rs
    (if lost then ["tables-differ"] else []) ++ (if viewLost then ["view-lost"] else [])
      ++ (if staleDv then ["stale-dv-above-next-rowset-id"] else [])

def isCreate : Rec → Bool
  | .createTable _ => true
  | _ => false

/-- tags that need the state before the step: a row-set created by this step that is already
covered by a delete vector; table ids that the log cannot reproduce (views / indexes took ids) -/
def stepTags (s : Store) (op : Op) (st' : St) : List String :=
  let shift := s.cat.nextId != ((replay s.manifest).filter isCreate).length
  match op, st' with
  | .reopen, .dead _ => if shift then ["id-shift"] else []
  | .reopen, .up s' =>
      if shift && (s'.tables != s.tables || s'.rowsets != s.rowsets) then ["id-shift"] else []
  | _, .up s' =>
      if (s'.rowsets.filter fun k => !s.rowsets.contains k).any fun k => !(s'.dvsOf k.1 k.2).isEmpty
      then ["new-rowset-under-stale-dv"] else []
  | _, _ => []

/-- runs a history on the disk model and the specification; one line per step -/
def runHist (id : String) (names : List String) : List Sexp → Nat → St → SpecSt → List String → List String
  | [], _, _, _, acc => acc.reverse
  | sx :: rest, k, st, sp, acc =>
    let key := "H" ++ id ++ "." ++ toString k
    match parseStep sx with
    | none => runHist id names rest (k + 1) st sp ((key ++ "\tout=bad-request") :: acc)
    | some op =>
      match st with
      | .dead _ => runHist id names rest (k + 1) st sp ((key ++ "\tout=dead") :: acc)
      | .up s =>
        let (st', o) := step st op
        let (sp', so) := sp.step op
        let tags := reasonTags names st' sp' ++ stepTags s op st'
        let line := match st' with
          | .dead _ => key ++ "\tout=panic\ttag=" ++ ",".intercalate tags
          | .up s' => key ++ "\tout=" ++ outText o ++ "\t" ++ observe names s'
              ++ "\tspec=" ++ tabsText names sp'.tables.get ++ "\tspecout=" ++ outText so
              ++ "\ttag=" ++ ",".intercalate tags
        runHist id names rest (k + 1) st' sp' (line :: acc)

def isQueries : Sexp → Bool
  | .list (.atom "queries" :: _) => true
  | _ => false

def answerHist (line : String) : List String :=
  match Sexp.parse line with
  | some (.list (.atom "hist" :: .atom id :: _opts :: .list (.atom "names" :: ns) :: steps)) =>
      runHist id (ns.filterMap Sexp.atom?) (steps.filter fun x => !isQueries x) 0 (.up Store.init) {} []
  | _ => ["bad-request"]

/-- C05: the disk model, the memory model and the specification side by side -/
def runBoth (id : String) (names : List String) :
    List Sexp → Nat → St → MemStore → SpecSt → List String → List String
  | [], _, _, _, _, acc => acc.reverse
  | sx :: rest, k, st, ms, sp, acc =>
    let key := "H" ++ id ++ "." ++ toString k
    match parseStep sx with
    | none => runBoth id names rest (k + 1) st ms sp ((key ++ "\tout=bad-request") :: acc)
    | some op =>
      let (ms', mo) := ms.step op
      let (sp', so) := sp.step op
      let memPart := "\tmout=" ++ outText mo ++ "\tmtabs=" ++ tabsText names ms'.abs
        ++ "\tspec=" ++ tabsText names sp'.tables.get ++ "\tspecout=" ++ outText so
      match st with
      | .dead _ => runBoth id names rest (k + 1) st ms' sp' ((key ++ "\tout=dead" ++ memPart) :: acc)
      | .up s =>
        let (st', o) := step st op
        let tags := reasonTags names st' sp' ++ stepTags s op st'
        let diskPart := match st' with
          | .dead _ => "\tout=panic"
          | .up s' => "\tout=" ++ outText o ++ "\ttabs=" ++ tabsText names s'.abs
        runBoth id names rest (k + 1) st' ms' sp'
          ((key ++ diskPart ++ memPart ++ "\ttag=" ++ ",".intercalate tags) :: acc)

def answerBoth (line : String) : List String :=
  match Sexp.parse line with
  | some (.list (.atom "hist" :: .atom id :: _opts :: .list (.atom "names" :: ns) :: steps)) =>
      runBoth id (ns.filterMap Sexp.atom?) (steps.filter fun x => !isQueries x) 0 (.up Store.init) {} {} []
  | _ => ["bad-request"]

end StoreIO
end RlModel
