import RlModel.Model.Exec
/-
Plan interpreter used by the C02 / C11 drivers: maps RisingLight's plan s-expressions
(`RecExpr: Display`) onto the L2 operators of `Model.Exec` (mode `exec`) or onto the L1 spec
operators of `Model.Rel` (mode `spec`).  It is glue: the theorems are about the operators it
dispatches to.  It reproduces two conventions of `executor/mod.rs`:
* a node refers to its child's output columns BY EXPRESSION IDENTITY
  (`resolve_column_index_on_schema`: outermost sub-expression found in the child's schema
  becomes a column index), schemas as in `rules/schema.rs`;
* `limit null` = `usize::MAX / 2`.
In `exec` mode every physical operator is also compared with its spec on the very input it
received; a difference yields a *reason tag* naming the mechanism.
-/
namespace RlModel

structure Table where
  types : List Ty
  chunks : List Chunk
  /-- `false`: the scan order of the table is not known to the model (on-disk engine: row-sets are
  visited in snapshot order) — order-dependent aggregates above it are then not predicted. -/
  ordered : Bool := true
  /-- `some k`: the scan returns the rows sorted by column `k` (disk engine, PRIMARY KEY column: row-sets are
  merged in key order) whatever the insertion order was. -/
  sortKey : Option Nat := none
  deriving Inhabited

structure POut where
  schema : List Sexp
  types : List Ty
  chunks : List Chunk
  tags : List String := []
  /-- `some msg` when the executor is known to panic / not to exist (`todo!()`). -/
  unsupported : Option String := none
  /-- is the ORDER of the rows a function of the input?  `false` after an operator that emits in
  hash-map iteration order (hashagg, the unmatched tail of a left/full hash join) or after
  `order`/`topn` (`sort_unstable_by`, heap: ties in unknown order). -/
  orderKnown : Bool := true

def sexpIdx (schema : List Sexp) (e : Sexp) : Option Nat :=
  let rec go : List Sexp → Nat → Option Nat
    | [], _ => none
    | s :: ss, i => if s == e then some i else go ss (i + 1)
  go schema 0

def listArgs : Sexp → List Sexp
  | .atom "list" => []
  | .list (.atom "list" :: xs) => xs
  | _ => []

def wider : Ty → Ty → Ty
  | .i64, _ | _, .i64 => .i64
  | .i32, _ | _, .i32 => .i32
  | .i16, .i16 => .i16
  | .null, t | t, .null => t
  | t, _ => t

def parseConst (a : String) : Option (Val × Ty) :=
  if a == "null" then some (.null, .null)
  else if a == "true" then some (.bool true, .bool)
  else if a == "false" then some (.bool false, .bool)
  else if a.startsWith "'" then some (.str ((a.drop 1).dropEnd 1).toString, .str)
  else match a.toInt? with
    | some n => if -2147483648 ≤ n ∧ n ≤ 2147483647 then some (.i32 n, .i32) else some (.i64 n, .i64)
    | none => none

def tyOfName (s : String) : Ty :=
  if s == "INT" || s == "INTEGER" then .i32
  else if s == "BIGINT" then .i64
  else if s == "SMALLINT" then .i16
  else if s == "BOOLEAN" || s == "BOOL" then .bool
  else .str

def isAggHead (h : String) : Bool :=
  h == "sum" || h == "count" || h == "min" || h == "max" || h == "count-distinct" || h == "first" || h == "last"

/-- static type of an expression over a schema. -/
def typeOfE : Nat → List Sexp → List Ty → Sexp → Ty
  | 0, _, _, _ => .null
  | fuel + 1, sch, tys, e =>
    match sexpIdx sch e with
    | some i => tys.getD i .null
    | none =>
      match e with
      | .atom a =>
        if a == "rowcount" then .i32
        else if a.startsWith "#" then tys.getD ((a.drop 1).toString.toNat?.getD 0) .null
        else match parseConst a with
          | some (_, t) => t
          | none => .null
      | .list [.atom h, x] =>
        if h == "ref" || h == "desc" || h == "-" then typeOfE fuel sch tys x
        else if h == "count" || h == "count-distinct" then .i32
        else if h == "sum" || h == "min" || h == "max" || h == "first" || h == "last" then typeOfE fuel sch tys x
        else .bool
      | .list [.atom h, x, y] =>
        if h == "+" || h == "-" || h == "*" || h == "/" || h == "%" then wider (typeOfE fuel sch tys x) (typeOfE fuel sch tys y)
        else if h == "cast" then (match x with | .atom t => tyOfName t | _ => .null)
        else .bool
      | _ => .null

def arith (f : Int → Int → Int) (a b : Val) : Val :=
  match a, b with
  | .null, _ | _, .null => .null
  | .i64 x, y => match y.int? with | some y => .i64 (f x y) | none => .null
  | x, .i64 y => match x.int? with | some x => .i64 (f x y) | none => .null
  | .i32 x, y => match y.int? with | some y => .i32 (f x y) | none => .null
  | x, .i32 y => match x.int? with | some x => .i32 (f x y) | none => .null
  | .i16 x, .i16 y => .i16 (f x y)
  | _, _ => .null

def castVal (t : Ty) (v : Val) : Val :=
  match v with
  | .null => .null
  | _ => match t, v.int? with
    | .i16, some n => .i16 n
    | .i32, some n => .i32 n
    | .i64, some n => .i64 n
    | _, _ => v

/-- row-wise expression evaluation (evaluator.rs `eval`), column references resolved against
`sch` outermost-first. -/
def evalE : Nat → List Sexp → Row → Sexp → Val
  | 0, _, _, _ => .null
  | fuel + 1, sch, row, e =>
    match sexpIdx sch e with
    | some i => row.getD i .null
    | none =>
      match e with
      | .atom a =>
        if a.startsWith "#" then row.getD ((a.drop 1).toString.toNat?.getD 0) .null
        else match parseConst a with
          | some (v, _) => v
          | none => .null
      | .list [.atom h, x] =>
        let vx := evalE fuel sch row x
        if h == "ref" || h == "desc" || isAggHead h then vx
        else if h == "not" then Val.ofTruth (not3 vx.truth)
        else if h == "isnull" then .bool vx.isNull
        else if h == "-" then arith (fun a _ => -a) vx (.i32 0)
        else .null
      | .list [.atom h, x, y] =>
        if h == "cast" then
          (match x with | .atom t => castVal (tyOfName t) (evalE fuel sch row y) | _ => .null)
        else if h == "in" then
          -- `x IN (v1, …, vn)` (evaluator.rs `In([expr, list])`): `x = v1 OR … OR x = vn`, three-valued
          (match y with
           | .list (.atom "list" :: vs) =>
             Val.ofTruth (vs.foldl (fun acc v => or3 acc (sqlEq (evalE fuel sch row x) (evalE fuel sch row v))) (some false))
           | _ => .null)
        else
        let vx := evalE fuel sch row x
        let vy := evalE fuel sch row y
        if h == "+" then arith (· + ·) vx vy
        else if h == "-" then arith (· - ·) vx vy
        else if h == "*" then arith (· * ·) vx vy
        else if h == "=" then Val.ofTruth (sqlEq vx vy)
        else if h == "<>" then Val.ofTruth (sqlNe vx vy)
        else if h == "<" then Val.ofTruth (sqlLt vx vy)
        else if h == "<=" then Val.ofTruth (sqlLe vx vy)
        else if h == ">" then Val.ofTruth (sqlGt vx vy)
        else if h == ">=" then Val.ofTruth (sqlGe vx vy)
        else if h == "and" then Val.ofTruth (and3 vx.truth vy.truth)
        else if h == "or" then Val.ofTruth (or3 vx.truth vy.truth)
        else .null
      | _ => .null

/-- raw slot of the array an expression evaluates to, for the row (`binary_op` computes on the
raw slots of every row, NULL or not; a stored NULL holds 0). Only the integer operators that
can feed `sum` are tracked; anything else falls back to value-or-0. -/
def evalRawE : Nat → List Sexp → Row → Sexp → Int
  | 0, _, _, _ => 0
  | fuel + 1, sch, row, e =>
    match sexpIdx sch e with
    | some i => rawOfVal (row.getD i .null)
    | none =>
      match e with
      | .list [.atom h, x, y] =>
        if h == "+" then evalRawE fuel sch row x + evalRawE fuel sch row y
        else if h == "-" then evalRawE fuel sch row x - evalRawE fuel sch row y
        else if h == "*" then evalRawE fuel sch row x * evalRawE fuel sch row y
        else rawOfVal (evalE (fuel + 1) sch row e)
      | .list [.atom "-", x] => - evalRawE fuel sch row x
      | _ => rawOfVal (evalE (fuel + 1) sch row e)

def exprFuel : Nat := 64

def mkFn (sch : List Sexp) (e : Sexp) : Row → Val := fun r => evalE exprFuel sch r e
def mkPred (sch : List Sexp) (e : Sexp) : Pred := fun r => (evalE exprFuel sch r e).truth

def aggKindOf : Sexp → Option (AggKind × Sexp)
  | .atom "rowcount" => some (.rowCount, .atom "null")
  | .list [.atom h, x] =>
    if h == "sum" then some (.sum, x) else if h == "count" then some (.count, x)
    else if h == "min" then some (.min, x) else if h == "max" then some (.max, x)
    else if h == "count-distinct" then some (.countDistinct, x)
    else if h == "first" then some (.first, x) else if h == "last" then some (.last, x)
    else none
  | _ => none

def mkAggs (sch : List Sexp) (tys : List Ty) (es : List Sexp) : Option (List XAgg) :=
  es.mapM (fun e => (aggKindOf e).map (fun (k, x) =>
    ({ kind := k, arg := mkFn sch x, ty := typeOfE exprFuel sch tys x,
       raw := fun r => evalRawE exprFuel sch r x } : XAgg)))

def mkOrderKeys (sch : List Sexp) (es : List Sexp) : List OrderKey :=
  es.map (fun e => match e with
    | .list [.atom "desc", x] => { key := mkFn sch x, desc := true }
    | x => { key := mkFn sch x, desc := false })

def joinTypeOf : Sexp → Option JoinType
  | .atom "inner" => some .inner
  | .atom "left_outer" => some .leftOuter
  | .atom "right_outer" => some .rightOuter
  | .atom "full_outer" => some .fullOuter
  | .atom "semi" => some .semi
  | .atom "anti" => some .anti
  | _ => none

def natOf (s : Sexp) : Option Nat :=
  match s with
  | .atom a => if a == "null" then some noLimit else a.toNat?
  | _ => none

/-- canonical sorted rendering of a bag (for comparing L2 against L1 inside the model). -/
def bagKey (rows : List Row) : List String := (rows.map rowCanon).mergeSort (fun a b => compare a b != .gt)

def sameBag (a b : List Row) : Bool := bagKey a == bagKey b

def tableIdOf (a : String) : Option Nat := (a.drop 1).toString.toNat?

def colIdOf (a : String) : Option Nat :=
  match (a.drop 1).toString.splitOn "." with
  | [_, c] => c.toNat?
  | _ => none

def column (rows : List Row) (i : Nat) : List Val := rows.map (fun r => r.getD i .null)

/-- reason tags for an equi-join whose L2 result differs from the spec.  (NULL keys and keys of
different integer widths no longer are mechanisms: since the two `fix:` commits the executors never
match the former and compare the latter by value, like the spec.) -/
def joinTags (name : String) (sorted : Bool) : List String :=
  if !sorted then [name ++ ":unsorted-input"] else [name ++ ":other"]

def aggTag (path : String) (k : AggKind) (nonNullSeen rawDiffers : Bool) : String :=
  match k with
  | .sum => if path == "chunk" then
              (if rawDiffers then "agg:sum/chunk-path/raw-under-null"
               else if nonNullSeen then "agg:sum/chunk-path/other" else "agg:scalar-sum-empty")
            else "agg:sum/row-path/null-after-value"
  | .countDistinct => "agg:count-distinct-null"
  | .first => "agg:first/" ++ path ++ "-path"
  | .last => "agg:last/" ++ path ++ "-path"
  | .count => "agg:count/" ++ path ++ "-path"
  | .min => "agg:min/" ++ path ++ "-path"
  | .max => "agg:max/" ++ path ++ "-path"
  | .rowCount => "agg:rowcount/" ++ path ++ "-path"

/-- compares the aggregate columns of L2 and L1 outputs (rows aligned by sorting on the key
prefix) and names the aggregate kinds that differ. -/
def aggTags (path : String) (nKeys : Nat) (aggs : List XAgg) (X : List Row) (l2 l1 : List Row) : List String :=
  if sameBag l2 l1 then [] else
  if l2.length != l1.length then ["agg:" ++ path ++ "-path/group-count"] else
  let s2 := sortBy (fun a b => rowCmp (a.take nKeys) (b.take nKeys)) l2
  let s1 := sortBy (fun a b => rowCmp (a.take nKeys) (b.take nKeys)) l1
  let idx := List.range aggs.length
  (idx.zip aggs).filterMap (fun (i, a) =>
    if column s2 (nKeys + i) == column s1 (nKeys + i) then none
    else some (aggTag path a.kind ((X.map a.arg).any (fun v => !v.isNull))
                 (sumInts (X.map a.raw) != sumInts (intsOf (X.map a.arg)))))

/-- Is the value the ROW path computes for this aggregate independent of the order of the rows
inside a group?  (`order` sorts with `sort_unstable_by`: the order of ties is unknown.)  Names
the mechanism that makes it order dependent. -/
def orderSensitive (ks : List (Row → Val)) (aggs : List XAgg) (X : List Row) : List String :=
  let groups := (dedup (X.map (keyOf ks))).map (fun k => groupRows ks k X)
  dedup (aggs.filterMap (fun a =>
    let cols := groups.map (fun g => g.map a.arg)
    match a.kind with
    | .first => if cols.any (fun c => (dedup (nonNull c)).length > 1)
                then some "order-sensitive:agg:first/row-path" else none
    | .last => if cols.any (fun c => (dedup c).length > 1)
               then some "order-sensitive:agg:last/row-path" else none
    | _ => none))

def isSortedBy (ks : List (Row → Val)) (X : List Row) : Bool :=
  let keys := X.map (keyOf ks)
  (keys.zip (keys.drop 1)).all (fun (a, b) => rowCmp a b != .gt)

/-- The four readings of a correlated scalar aggregate subquery (`applyagg` node of the generator's
logical plans).  `sql` is the spec (`applyScalarAgg` / `applyGroupAgg`); the other three are what the
decorrelating rules `pushdown-apply-scalar-agg` / `-group-agg` make of it, mechanism by mechanism:
`countbug`: an outer row without partner is aggregated over its NULL-padded left-outer-join row
(COUNT(*) = 1; `m` of them when the row occurs `m` times and is collapsed); `collapse`: the outer row is the GROUP BY key, so `m` identical outer rows become one
output row whose aggregate sees every partner `m` times; `both` = the decorrelated plan. -/
def applyAggRows (mode : String) (gb : Bool) (kind : AggKind) (arg : Row → Val) (corr : Pred) (nR : Nat)
    (L R : List Row) : List Row :=
  let value (l : Row) (mult : Nat) (padded : Bool) : Val :=
    let ms := (matchesOf corr l R).map (l ++ ·)
    if ms.isEmpty then
      (if gb then .null else if padded then aggVal kind ((List.replicate mult (l ++ nulls nR)).map arg) else aggVal kind [])
    else aggVal kind (((List.replicate mult ms).flatten).map arg)
  let padded := mode == "countbug" || mode == "both"
  if mode == "collapse" || mode == "both" then
    (dedup L).map (fun l => l ++ [value l (L.filter (· == l)).length padded])
  else L.map (fun l => l ++ [value l 1 padded])

/-- The interpreter.  `spec = true`: L1 operators on the flattened input (one output chunk). -/
def runPlan (tables : List Table) (spec : Bool) : Nat → Sexp → Except String POut
  | 0, _ => .error "fuel"
  | fuel + 1, p =>
    match p with
    | .list [.atom "scan", .atom t, cols, .atom "true"] =>
      match tableIdOf t with
      | none => .error "bad table"
      | some tid =>
        match tables[tid]? with
        | none => .error "no such table"
        | some tb =>
          let cs := listArgs cols
          let idx := cs.map (fun c => match c with | .atom a => (colIdOf a).getD 0 | _ => 0)
          .ok { schema := cs, types := idx.map (fun i => tb.types.getD i .null),
                chunks := (let src : List Chunk := match tb.sortKey with
                    | some k => [sortStable (fun (a b : Row) => Val.cmp (a.getD k .null) (b.getD k .null)) (flat tb.chunks)]
                    | none => tb.chunks
                  src.map (fun (c : Chunk) => c.map (fun (r : Row) => idx.map (fun i => r.getD i .null)))),
                orderKnown := tb.ordered || tb.sortKey.isSome }
    | .list [.atom "proj", es, c] =>
      match runPlan tables spec fuel c with
      | .error e => .error e
      | .ok o =>
        let exprs := listArgs es
        let fs := exprs.map (mkFn o.schema)
        .ok { o with schema := exprs, types := exprs.map (typeOfE exprFuel o.schema o.types),
                     chunks := if spec then [projRel fs (flat o.chunks)] else projExec fs o.chunks }
    | .list [.atom "filter", e, c] =>
      match runPlan tables spec fuel c with
      | .error e => .error e
      | .ok o =>
        let pr := mkPred o.schema e
        .ok { o with chunks := if spec then [filterRel pr (flat o.chunks)] else filterExec pr o.chunks }
    | .list [.atom "order", ks, c] =>
      match runPlan tables spec fuel c with
      | .error e => .error e
      | .ok o =>
        let keys := mkOrderKeys o.schema (listArgs ks)
        .ok { o with chunks := if spec then [orderRel keys (flat o.chunks)] else orderExec keys o.chunks, orderKnown := false }
    | .list [.atom "limit", n, off, c] =>
      match runPlan tables spec fuel c, natOf n, natOf off with
      | .ok o, some n, some off =>
        .ok { o with chunks := if spec then [limitRel (some n) off (flat o.chunks)] else limitExec n off o.chunks }
      | .error e, _, _ => .error e
      | _, _, _ => .error "bad limit"
    | .list [.atom "topn", n, off, ks, c] =>
      match runPlan tables spec fuel c, natOf n, natOf off with
      | .ok o, some n, some off =>
        let keys := mkOrderKeys o.schema (listArgs ks)
        .ok { o with chunks := if spec then [topNRel (some n) off keys (flat o.chunks)] else topNExec n off keys o.chunks, orderKnown := false }
      | .error e, _, _ => .error e
      | _, _, _ => .error "bad topn"
    | .list [.atom "join", jt, on, l, r] =>
      match runPlan tables spec fuel l, runPlan tables spec fuel r, joinTypeOf jt with
      | .ok lo, .ok ro, some t =>
        let sch := lo.schema ++ ro.schema
        let pr := mkPred sch on
        let nL := lo.schema.length
        let nR := ro.schema.length
        let semiLike := t == .semi || t == .anti
        let outSch := if semiLike then lo.schema else sch
        let outTys := if semiLike then lo.types else lo.types ++ ro.types
        let specRows := joinRel t pr nL nR (flat lo.chunks) (flat ro.chunks)
        let base : POut := { schema := outSch, types := outTys, chunks := [specRows],
                             tags := lo.tags ++ ro.tags, unsupported := lo.unsupported <|> ro.unsupported,
                             orderKnown := lo.orderKnown && ro.orderKnown }
        if spec then .ok base
        else match t with
          | .inner => .ok { base with chunks := nlJoin false pr nR lo.chunks ro.chunks }
          | .leftOuter => .ok { base with chunks := nlJoin true pr nR lo.chunks ro.chunks }
          | .semi => .ok { base with chunks := nlSemiJoin false pr lo.chunks ro.chunks }
          | .anti => .ok { base with chunks := nlSemiJoin true pr lo.chunks ro.chunks }
          | .rightOuter => .ok { base with chunks := nlJoinG false true pr nL nR lo.chunks ro.chunks }
          | .fullOuter => .ok { base with chunks := nlJoinG true true pr nL nR lo.chunks ro.chunks }
      | .error e, _, _ => .error e
      | _, .error e, _ => .error e
      | _, _, _ => .error "bad join"
    | .list [.atom "applyagg", .atom mode, .atom gbs, ag, corr, l, r] =>
      -- logical plans only (both modes read it with the L1 definitions)
      match runPlan tables spec fuel l, runPlan tables spec fuel r, aggKindOf ag with
      | .ok lo, .ok ro, some (kind, argE) =>
        let sch := lo.schema ++ ro.schema
        let L := flat lo.chunks
        let R := flat ro.chunks
        let rows := applyAggRows mode (gbs == "1") kind (mkFn sch argE) (mkPred sch corr) ro.schema.length L R
        .ok { schema := lo.schema ++ [ag], types := lo.types ++ [typeOfE exprFuel sch (lo.types ++ ro.types) ag],
              chunks := [rows], tags := lo.tags ++ ro.tags, unsupported := lo.unsupported <|> ro.unsupported }
      | .error e, _, _ => .error e
      | _, .error e, _ => .error e
      | _, _, _ => .error "bad applyagg"
    | .list [.atom h, jt, cond, lks, rks, l, r] =>
      if h != "hashjoin" && h != "mergejoin" then .error ("unknown node " ++ h) else
      match runPlan tables spec fuel l, runPlan tables spec fuel r, joinTypeOf jt with
      | .ok lo, .ok ro, some t =>
        let sch := lo.schema ++ ro.schema
        let nL := lo.schema.length
        let nR := ro.schema.length
        let lk := (listArgs lks).map (mkFn lo.schema)
        let rk := (listArgs rks).map (mkFn ro.schema)
        let resid : Pred := mkPred sch cond
        let hasResid := cond != .atom "true"
        let semiLike := t == .semi || t == .anti
        let outSch := if semiLike then lo.schema else sch
        let outTys := if semiLike then lo.types else lo.types ++ ro.types
        let L := flat lo.chunks
        let R := flat ro.chunks
        let specRows := joinRel t (equiOn nL lk rk resid) nL nR L R
        let base : POut := { schema := outSch, types := outTys, chunks := [specRows],
                             tags := lo.tags ++ ro.tags, unsupported := lo.unsupported <|> ro.unsupported,
                             orderKnown := lo.orderKnown && ro.orderKnown &&
                               (h == "mergejoin" || !(t == .leftOuter || t == .fullOuter)) }
        if spec then .ok base
        else
          let merge := h == "mergejoin"
          if (merge && semiLike) then .ok { base with chunks := [], unsupported := some "mergejoin semi/anti: invalid join type" }
          else if (hasResid && !semiLike) then .ok { base with chunks := [], unsupported := some "hash/merge join with residual condition: assertion" }
          else
          let out :=
            if merge then mergeJoinW t lk rk nL nR lo.chunks ro.chunks
            else if semiLike then
              (if hasResid then hashSemiJoin2W (t == .anti) lk rk resid lo.chunks ro.chunks
               else hashSemiJoinW (t == .anti) lk rk lo.chunks ro.chunks)
            else hashJoinW t lk rk nL nR lo.chunks ro.chunks
          let sorted := !merge || (isSortedBy (wk lk) L && isSortedBy (wk rk) R)
          let tg := if sameBag (flat out) specRows then [] else joinTags h sorted
          .ok { base with chunks := out, tags := base.tags ++ tg }
      | .error e, _, _ => .error e
      | _, .error e, _ => .error e
      | _, _, _ => .error "bad join"
    | .list [.atom "agg", as, c] =>
      match runPlan tables spec fuel c with
      | .error e => .error e
      | .ok o =>
        match mkAggs o.schema o.types (listArgs as) with
        | none => .error "bad aggregate"
        | some aggs =>
          let X := flat o.chunks
          let specRows := scalarAgg (aggs.map XAgg.toCall) X
          let outTys := (listArgs as).map (typeOfE exprFuel o.schema o.types)
          if spec then .ok { o with schema := listArgs as, types := outTys, chunks := [specRows] }
          else
            let out := simpleAgg aggs o.chunks
            .ok { o with schema := listArgs as, types := outTys, chunks := out,
                         tags := o.tags ++ aggTags "chunk" 0 aggs X (flat out) specRows }
    | .list [.atom h, ks, as, c] =>
      if h != "hashagg" && h != "sortagg" then .error ("unknown node " ++ h) else
      match runPlan tables spec fuel c with
      | .error e => .error e
      | .ok o =>
        match mkAggs o.schema o.types (listArgs as) with
        | none => .error "bad aggregate"
        | some aggs =>
          let keys := (listArgs ks).map (mkFn o.schema)
          let X := flat o.chunks
          let specRows := groupAgg keys (aggs.map XAgg.toCall) X
          let outSch := listArgs ks ++ listArgs as
          let outTys := outSch.map (typeOfE exprFuel o.schema o.types)
          if spec then .ok { o with schema := outSch, types := outTys, chunks := [specRows] }
          else
            let out := if h == "hashagg" then hashAgg keys aggs o.chunks else sortAgg keys aggs o.chunks
            let grouped := h == "hashagg" || (dedup (X.map (keyOf keys))).length == (groupByKeys keys X).length || keys.isEmpty
            let tg := (if !grouped && !sameBag (flat out) specRows then ["sortagg:unsorted-input"]
                      else aggTags "row" keys.length aggs X (flat out) specRows) ++
                      (if !o.orderKnown then orderSensitive keys aggs X else [])
            .ok { o with schema := outSch, types := outTys, chunks := out, tags := o.tags ++ tg,
                         orderKnown := h == "sortagg" && o.orderKnown }
    | .list [.atom "empty", c] =>
      match runPlan tables spec fuel c with
      | .error e => .error e
      | .ok o => .ok { o with chunks := [] }
    | _ => .error "unsupported plan node"

def planFuel : Nat := 64

end RlModel
