import RlModel.Model.Val
import RlModel.Model.Heap
import RlModel.Gen.RowSetStop
/-
Model of what ORDER BY / LIMIT / OFFSET and key-range scans do on the secondary (disk) engine
(properties C12 and C13).  Everything here is executable and core-Lean only; the drivers
`drv_c12` / `drv_c13` run exactly these definitions, the theorems of `Thm/C12.lean` and
`Thm/C13.lean` are about exactly these definitions.

Source map
  * `keyCmp`            executor/order.rs `cmp`, executor/top_n.rs `cmp` (DataValue::cmp per key, desc = reverse)
  * `sortL`             the order executor (sort of all rows; modelled stable, ties are never compared)
  * `topnExec`          executor/top_n.rs (bounded heap = keep the N smallest), incl. the eager
                        `with_capacity_by(offset+limit)` allocation that overflows for an absent LIMIT
  * `limitChunks`       executor/limit.rs (chunk-wise start/end arithmetic)
  * `memtableFlush`     storage/secondary/rowset/mem_rowset.rs (BTreeMultiMap keyed by the `is_primary` columns)
  * `concatScan`        concat_iterator.rs + transaction.rs scan_inner (ScanOptions::default(): no is_sorted)
  * `mergeK`            merge_iterator.rs (k-way merge by repeatedly extracting the least head)
  * `analyzeRange`      planner/rules/range.rs analyze_range; `keyRangeOfFilter` = the builder's re-analysis in executor/mod.rs
  * `startWalk`         rowset/disk_rowset.rs start_rowid (block index of COLUMN 0, first keys decoded as i32)
  * `scanBatches`       rowset/rowset_iterator.rs next_batch_inner (mask from the FIRST SCANNED column, `end` flag)
  * `analyzeOrder`      planner/rules/order.rs analyze_order; `isOrderBy` the condition of the three order rules
-/
namespace RlModel

/-- Outcome of running a piece of the implementation: a value, or a panic inside an executor
task (which `Database::run` turns into an `Ok` result with no rows). -/
inductive Out (α : Type) where
  | ok (a : α)
  | panic (site : String)
  deriving Repr, DecidableEq

namespace Out
def map {α β} (f : α → β) : Out α → Out β
  | ok a => ok (f a)
  | panic s => panic s
def bind {α β} (x : Out α) (f : α → Out β) : Out β :=
  match x with
  | ok a => f a
  | panic s => panic s
end Out

/-! ## Order keys, comparison, sort -/

structure OrdKey where
  col : Nat
  desc : Bool
  deriving Repr, DecidableEq

def Row.at (r : Row) (i : Nat) : Val := r.getD i Val.null

/-- `cmp(row1,row2,orders)` of order.rs / top_n.rs. -/
def keyCmp : List OrdKey → Row → Row → Ordering
  | [], _, _ => .eq
  | k :: ks, r1, r2 =>
    match Val.cmp (Row.at r1 k.col) (Row.at r2 k.col) with
    | .eq => keyCmp ks r1 r2
    | o => if k.desc then o.swap else o

/-- Left-to-right insertion sort (`insertBy` puts `x` after every element that is not greater):
stable. -/
def sortL {α} (cmp : α → α → Ordering) (xs : List α) : List α :=
  xs.foldl (fun acc x => insertBy cmp x acc) []

/-- `a` may come before `b`. -/
def leBy {α} (cmp : α → α → Ordering) (a b : α) : Prop := cmp a b ≠ .gt

def SortedBy {α} (cmp : α → α → Ordering) (l : List α) : Prop := l.Pairwise (leBy cmp)

instance {α} (cmp : α → α → Ordering) : DecidableRel (leBy cmp) :=
  fun a b => inferInstanceAs (Decidable (cmp a b ≠ .gt))

instance {α} (cmp : α → α → Ordering) (l : List α) : Decidable (SortedBy cmp l) :=
  inferInstanceAs (Decidable (l.Pairwise (leBy cmp)))

/-- executable sortedness test (adjacent pairs) -/
def isSortedBy {α} (cmp : α → α → Ordering) : List α → Bool
  | [] => true
  | [_] => true
  | a :: b :: rest => cmp a b != .gt && isSortedBy cmp (b :: rest)

/-! ## LIMIT / OFFSET / top-N -/

/-- Specification: rows m+1..m+n (all remaining rows when LIMIT is absent). -/
def limitRows {α} (n : Option Nat) (m : Nat) (xs : List α) : List α :=
  match n with
  | none => xs.drop m
  | some n => (xs.drop m).take n

/-- `usize::MAX / 2` on a 64-bit target: what the builder substitutes for an absent LIMIT. -/
def usizeHalf : Nat := 9223372036854775807

/-- executor/limit.rs on a stream of chunks; `processed` = rows seen so far. -/
def limitChunks {α} (limit offset : Nat) : Nat → List (List α) → List (List α)
  | _, [] => []
  | processed, b :: bs =>
    if limit = 0 then []
    else
      let card := b.length
      let start := max processed offset - processed
      let stop := min (processed + card) (offset + limit) - processed
      let processed' := processed + card
      if start ≥ stop then limitChunks limit offset processed' bs
      else
        let out := (b.drop start).take (stop - start)
        if processed' ≥ offset + limit then [out]
        else out :: limitChunks limit offset processed' bs

def limitExec {α} (n : Option Nat) (m : Nat) (chunks : List (List α)) : List α :=
  (limitChunks (n.getD usizeHalf) m 0 chunks).flatten

/-- The bounded heap of top_n.rs, modelled as the sorted list of the `cap` least rows seen. -/
def topnState {α} (cmp : α → α → Ordering) (cap : Nat) (xs : List α) : List α :=
  xs.foldl (fun acc x => (insertBy cmp x acc).take cap) []

/-- top_n.rs: the heap is bounded by `offset.saturating_add(limit)` rows and is NOT pre-allocated
(fix ec313d4: before it, `BinaryHeap::with_capacity_by(offset + limit)` overflowed the capacity
computation for an absent LIMIT = `usize::MAX/2` and the executor task panicked). In the model the
bound is an unbounded `Nat`; saturation only matters beyond `usize::MAX` rows. -/
def topnExec {α} (cmp : α → α → Ordering) (n : Option Nat) (m : Nat) (xs : List α) : Out (List α) :=
  let lim := n.getD usizeHalf
  let cap := m + lim
  Out.ok (((topnState cmp cap xs).drop m).take lim)

/-- top_n.rs with the REAL bounded binary heap (`Model/Heap.lean`): push every row, pop the
greatest when the heap exceeds offset+limit, `into_sorted_vec`, skip/take. -/
def topnHeapExec {α} (cmp : α → α → Ordering) (n : Option Nat) (m : Nat) (xs : List α) : Out (List α) :=
  let lim := n.getD usizeHalf
  let cap := m + lim
  let k := topnHeapState cmp cap xs
  Out.ok ((((heapDrain (fun a b => cmp b a) k.length k).reverse).drop m).take lim)

/-! ## Row-sets, memtable, concat and merge scans -/

/-- One on-disk row-set: rows in stored order, deleted positions (union of its delete vectors),
and per table column the row counts of its blocks (observed on the implementation). -/
structure RowSet where
  id : Nat
  rows : List Row
  dead : List Nat
  blocks : List (List Nat)
  deriving Repr

/-- rows paired with their liveness -/
def RowSet.tagged (rs : RowSet) : List (Row × Bool) :=
  rs.rows.zipIdx.map fun (r, i) => (r, !rs.dead.contains i)

def liveRows (l : List (Row × Bool)) : List Row := (l.filter (·.2)).map (·.1)

def RowSet.visible (rs : RowSet) : List Row := liveRows rs.tagged

/-- ascending keys on the given columns -/
def ascKeys (cols : List Nat) : List OrdKey := cols.map fun c => ⟨c, false⟩

/-- mem_rowset.rs: with sort-key columns (`is_primary`) the B-tree memtable flushes rows in key
order (equal keys in insertion order); without, the column memtable keeps insertion order. -/
def memtableFlush (pk : List Nat) (rows : List Row) : List Row :=
  if pk.isEmpty then rows else sortL (keyCmp (ascKeys pk)) rows

/-- ConcatIterator over the row-sets in snapshot order. -/
def concatScan (l : List RowSet) : List Row := l.flatMap RowSet.visible

/-- Least head among the lists: returns it and the lists with it removed. -/
def extractMin {α} (cmp : α → α → Ordering) : List (List α) → Option (α × List (List α))
  | [] => none
  | [] :: ls => extractMin cmp ls
  | (x :: xs) :: ls =>
    match extractMin cmp ls with
    | none => some (x, [xs])
    | some (y, ls') =>
      if cmp y x == .lt then some (y, (x :: xs) :: ls') else some (x, xs :: ls)

/-- k-way merge (MergeIterator): repeatedly emit the least head. -/
def mergeK {α} (cmp : α → α → Ordering) : Nat → List (List α) → List α
  | 0, _ => []
  | fuel + 1, ls =>
    match extractMin cmp ls with
    | none => []
    | some (x, ls') => x :: mergeK cmp fuel ls'

def totalLen {α} (ls : List (List α)) : Nat := (ls.map List.length).sum

def mergeScan (pk : List Nat) (l : List RowSet) : List Row :=
  let ls := l.map RowSet.visible
  mergeK (keyCmp (ascKeys pk)) (totalLen ls) ls

/-- compactor.rs compact_table with every row-set selected (sizes far below target_rowset_size):
nothing happens for <= 1 row-set; otherwise the row-sets, in id order, delete vectors applied, are
merged by the sort key (or concatenated without one) into ONE new row-set with the next id; an
empty result creates no row-set. -/
def compactAll (pk : List Nat) (nextId : Nat) (l : List RowSet) : List RowSet × Nat :=
  if l.length ≤ 1 then (l, nextId)
  else
    let ls := l.map RowSet.visible
    let rows := if pk.isEmpty then ls.flatten else mergeK (keyCmp (ascKeys pk)) (totalLen ls) ls
    if rows.isEmpty then ([], nextId)
    else ([{ id := nextId, rows := rows, dead := [], blocks := [] }], nextId + 1)

/-! ## Key ranges (storage/mod.rs KeyRange) and the range analysis -/

inductive Bnd where
  | unb
  | incl (v : Val)
  | excl (v : Val)
  deriving Repr, DecidableEq

structure KeyRange where
  lo : Bnd
  hi : Bnd
  deriving Repr, DecidableEq

/-- `array.get(idx) >= key` / `> key` of rowset_iterator.rs: derive(PartialOrd) of DataValue. -/
def lowerOk : Bnd → Val → Bool
  | .unb, _ => true
  | .incl k, v => Val.cmp v k != .lt
  | .excl k, v => Val.cmp v k == .gt

/-- the first position at which the upper bound is violated: `> key` (Included) / `>= key` (Excluded) -/
def upperBad : Bnd → Val → Bool
  | .unb, _ => false
  | .incl k, v => Val.cmp v k == .gt
  | .excl k, v => Val.cmp v k != .lt

def inRange (r : KeyRange) (v : Val) : Bool := lowerOk r.lo v && !upperBad r.hi v

inductive CmpOp where
  | eq | gt | ge | lt | le
  deriving Repr, DecidableEq

inductive Expr where
  | col (c : Nat)
  | const (v : Val)
  | cmp (op : CmpOp) (a b : Expr)
  | and (a b : Expr)
  | other (s : String)
  deriving Repr, BEq, Inhabited

def CmpOp.flip : CmpOp → CmpOp
  | .eq => .eq | .gt => .lt | .ge => .le | .lt => .gt | .le => .ge

def rangeOf (op : CmpOp) (v : Val) : KeyRange :=
  match op with
  | .eq => ⟨.incl v, .incl v⟩
  | .gt => ⟨.excl v, .unb⟩
  | .ge => ⟨.incl v, .unb⟩
  | .lt => ⟨.unb, .excl v⟩
  | .le => ⟨.unb, .incl v⟩

def mergeBnd : Bnd → Bnd → Option Bnd
  | .unb, s => some s
  | s, .unb => some s
  | _, _ => none

/-- range.rs analyze_range: `(column, KeyRange)` for `k op v`, `v op k` (normalised), and AND of
two ranges on the same column that do not both bound the same side. -/
def analyzeRange : Expr → Option (Nat × KeyRange)
  | .cmp op (.const v) (.col k) => some (k, rangeOf op.flip v)
  | .cmp op (.col k) (.const v) => some (k, rangeOf op v)
  | .and a b =>
    match analyzeRange a, analyzeRange b with
    | some (ka, ra), some (kb, rb) =>
      if ka = kb then
        match mergeBnd ra.lo rb.lo, mergeBnd ra.hi rb.hi with
        | some lo, some hi => some (ka, ⟨lo, hi⟩)
        | _, _ => none
      else none
    | _, _ => none
  | _ => none

/-- executor/mod.rs, Scan arm: the filter slot is re-analysed, the column is DROPPED, and a
fully unbounded range means no filter. -/
def keyRangeOfFilter (f : Expr) : Option KeyRange :=
  match analyzeRange f with
  | some (_, r) => if r.lo == .unb && r.hi == .unb then none else some r
  | none => none

/-! ## SQL comparison of the filter executor (three-valued) -/

def sqlCmp (a b : Val) : Option Ordering :=
  match a, b with
  | .null, _ => none
  | _, .null => none
  | .str x, .str y => some (Val.compareStr x y)
  | .bool x, .bool y => some (Val.compareBool x y)
  | x, y =>
    match x.int?, y.int? with
    | some i, some j => some (compare i j)
    | _, _ => none

def CmpOp.holds : CmpOp → Ordering → Bool
  | .eq, o => o == .eq
  | .gt, o => o == .gt
  | .ge, o => o != .lt
  | .lt, o => o == .lt
  | .le, o => o != .gt

/-- value of an expression on a (table-width) row; `none` = NULL/unknown or unsupported -/
def evalPred : Expr → Row → Option Bool
  | .const (.bool b), _ => some b
  | .const _, _ => none
  | .col c, r => match Row.at r c with | .bool b => some b | _ => none
  | .cmp op a b, r =>
    let va := match a with | .col c => some (Row.at r c) | .const v => some v | _ => none
    let vb := match b with | .col c => some (Row.at r c) | .const v => some v | _ => none
    match va, vb with
    | some x, some y => (sqlCmp x y).map op.holds
    | _, _ => none
  | .and a b, r => and3 (evalPred a r) (evalPred b r)
  | .other _, _ => none

def Expr.supported : Expr → Bool
  | .const _ => true
  | .col _ => true
  | .cmp _ (.col _) (.const _) => true
  | .cmp _ (.const _) (.col _) => true
  | .cmp _ (.col _) (.col _) => true
  | .cmp _ (.const _) (.const _) => true
  | .cmp _ _ _ => false
  | .and a b => a.supported && b.supported
  | .other _ => false

def keepRow (f : Expr) (r : Row) : Bool := evalPred f r == some true

/-- what a key range MEANS (SQL comparison: integers by value whatever their width, NULL never
in range) - as opposed to `inRange`, what the row-set iterator computes with `DataValue::cmp`. -/
def sqlLower (lo : Bnd) (v : Val) : Bool :=
  match lo with
  | .unb => true
  | .incl k => (sqlCmp v k).map (CmpOp.holds .ge) == some true
  | .excl k => (sqlCmp v k).map (CmpOp.holds .gt) == some true

def sqlUpper (hi : Bnd) (v : Val) : Bool :=
  match hi with
  | .unb => true
  | .incl k => (sqlCmp v k).map (CmpOp.holds .le) == some true
  | .excl k => (sqlCmp v k).map (CmpOp.holds .lt) == some true

def sqlInRange (r : KeyRange) (v : Val) : Bool := sqlLower r.lo v && sqlUpper r.hi v

/-! ## start_rowid and the row-set iterator -/

/-- little-endian i32 read of the first 4 bytes -/
def i32OfBytes : List UInt8 → Option Int
  | b0 :: b1 :: b2 :: b3 :: _ =>
    let u := b0.toNat + 256 * b1.toNat + 65536 * b2.toNat + 16777216 * b3.toNat
    some (if u ≥ 2147483648 then (u : Int) - 4294967296 else (u : Int))
  | _ => none

def leBytes (width : Nat) (v : Int) : List UInt8 :=
  let m : Nat := 256 ^ width
  let u : Nat := (v % (m : Int)).toNat
  (List.range width).map fun i => UInt8.ofNat ((u / 256 ^ i) % 256)

/-- `first_key` bytes recorded in the block index for the first value of a block, decoded the way
start_rowid does (`PrimitiveFixedWidthEncode::decode` as i32); `none` = the decode panics
(NULL first key = empty bytes, fewer than 4 bytes). -/
def firstKeyI32 : Val → Option Int
  | .i32 v => i32OfBytes (leBytes 4 v)
  | .i64 v => i32OfBytes (leBytes 8 v)
  | .i16 v => i32OfBytes (leBytes 2 v)
  | .str s => i32OfBytes s.toUTF8.toList
  | .bool b => i32OfBytes [if b then 1 else 0]
  | .null => none

/-- block start row ids from block row counts -/
def blockStarts : List Nat → List Nat
  | cs => (cs.foldl (fun (acc : List Nat × Nat) c => (acc.1 ++ [acc.2], acc.2 + c)) ([], 0)).1

/-- the loop of start_rowid over `(first_rowid, first_val)`; `none` first_val = fewer than 4 bytes
recorded (NULL / short / no first key: `record_first_key = false`): since fix 17cc00b the walk
stops there (it used to panic in the i32 decode).
Since fix 68084af the walk stops at the first block whose first key is >= the begin key (it was
`>`: rows equal to an Included begin key at the end of the previous block were skipped). -/
def startWalk (begin : Int) : List (Nat × Option Int) → Nat → Out Nat
  | [], pre => .ok pre
  | (rid, some fv) :: rest, pre => if fv ≥ begin then .ok pre else startWalk begin rest rid
  | (_, none) :: _, pre => .ok pre

/-- disk_rowset.rs start_rowid: no begin key → 0; Int32 begin key → walk over COLUMN 0's block
index; any other begin-key type → panic. -/
def startRowid (rs : RowSet) (r : Option KeyRange) : Out Nat :=
  let beginKey : Option Val := match r with
    | some ⟨.incl k, _⟩ => some k
    | some ⟨.excl k, _⟩ => some k
    | _ => none
  match beginKey with
  | none => .ok 0
  | some (.i32 b) =>
    let starts := blockStarts (rs.blocks.getD 0 [])
    startWalk b (starts.map fun s => (s, firstKeyI32 (Row.at (rs.rows.getD s []) 0))) 0
  | some _ => .panic "start_rowid:key-type"

/-- Positions (absolute) at which a new batch must start: block starts of every scanned column. -/
def cutPoints (rs : RowSet) (cols : List Nat) : List Nat :=
  cols.flatMap fun c => blockStarts (rs.blocks.getD c [])

/-- Split `xs` (whose first element has absolute position `pos`) into batches: a batch ends at
the next block start of any scanned column, or after 2048 rows. -/
def splitBatches {α} (cuts : List Nat) : Nat → Nat → List α → List (List α)
  | 0, _, _ => []
  | fuel + 1, pos, xs =>
    if xs.isEmpty then []
    else
      let nexts := cuts.filter (· > pos)
      let nextCut := nexts.foldl min (pos + 2048)
      let n := nextCut - pos
      xs.take n :: splitBatches cuts fuel (pos + n) (xs.drop n)

/-- `(0..len).position(|idx| p(array.get(idx))).unwrap_or(len)` -/
def firstIdx {α} (p : α → Bool) (l : List α) : Nat := (l.takeWhile fun x => !p x).length

/-- the rows at positions `lo ≤ i < hi` of a batch (the bitmap `(start..end).contains(i)`) -/
def sliceRange {α} (lo hi : Nat) (b : List α) : List α := (b.take hi).drop lo

/-- rowset_iterator.rs next_batch_inner over successive batches of (row, live) pairs.
`fc` = the FIRST column of the scan list (the range mask is computed from it whatever the key).
The condition that ends the scan after a batch (`if end_row_id == 0 { self.end = true }`) is
RE-EXTRACTED from the source on every run: `Gen/RowSetStop.lean`. -/
def scanBatches (fc : Nat) (r : Option KeyRange) : List (List (Row × Bool)) → List Row
  | [] => []
  | b :: bs =>
    if b.all (fun x => !x.2) then scanBatches fc r bs      -- all rows deleted: skipped
    else
      match r with
      | none => liveRows b ++ scanBatches fc r bs
      | some rg =>
        let lo := firstIdx (fun x => lowerOk rg.lo (Row.at x.1 fc)) b
        let hi := firstIdx (fun x => upperBad rg.hi (Row.at x.1 fc)) b
        let out := liveRows (sliceRange lo hi b)
        if Gen.rangeStop lo hi b.length then out else out ++ scanBatches fc r bs

/-! ### The write history of a table -/

/-- SQL `c = v` of the DELETE predicate (NULL never equal) -/
def sqlEqB (a b : Val) : Bool := sqlCmp a b == some .eq

/-- `DELETE FROM t WHERE c = v1 OR c = v2`: a delete vector marks the matching positions -/
def applyDelete (c : Nat) (v1 v2 : Val) (rs : RowSet) : RowSet :=
  let hit := rs.rows.zipIdx.filterMap fun (r, i) =>
    if sqlEqB (Row.at r c) v1 || sqlEqB (Row.at r c) v2 then some i else none
  { rs with dead := rs.dead ++ hit.filter (fun i => !rs.dead.contains i) }

/-- a key-range DELETE marks exactly the visible rows whose key is in the range (what the statement
means; that the DELETE's scan - columns + row handler + pushed KeyRange - finds exactly these rows
is the range-scan property itself) -/
def applyDeleteRange (c : Nat) (r : KeyRange) (rs : RowSet) : RowSet :=
  let hit := rs.rows.zipIdx.filterMap fun (row, i) => if sqlInRange r (Row.at row c) then some i else none
  { rs with dead := rs.dead ++ hit.filter (fun i => !rs.dead.contains i) }

/-- the row-handler column of a scan (`StorageColumnRef::RowHandler`, what a DELETE's scan carries):
one more column, at index `w`, whose value for stored row `i` of row-set `id` is
`SecondaryRowHandler(id, i).as_i64()`, from the seek position up to the row-set's TOTAL row count -/
def withHandler (w : Nat) (rs : RowSet) : RowSet :=
  { rs with rows := rs.rows.zipIdx.map fun (row, i) =>
      ((List.range w).map fun c => Row.at row c) ++ [Val.i64 ((rs.id : Int) * 4294967296 + (i : Int))] }

inductive StoreOp where
  /-- one INSERT statement = one memtable = one row-set -/
  | ins (rows : List Row)
  | del (c : Nat) (v1 v2 : Val)
  /-- one pass of the compactor -/
  | compact
  /-- `DELETE FROM t WHERE <key range on column c>` -/
  | delRange (c : Nat) (r : KeyRange)

/-- one write on the stored layout (live row-sets in id order, next row-set id) -/
def applyStoreOp (pk : List Nat) : List RowSet × Nat → StoreOp → List RowSet × Nat
  | (l, n), .ins rows => (l ++ [{ id := n, rows := memtableFlush pk rows, dead := [], blocks := [] }], n + 1)
  | (l, n), .del c v1 v2 => (l.map (applyDelete c v1 v2), n)
  | (l, n), .compact => compactAll pk n l
  | (l, n), .delRange c r => (l.map (applyDeleteRange c r), n)

def replayStore (pk : List Nat) (ops : List StoreOp) : List RowSet × Nat := ops.foldl (applyStoreOp pk) ([], 0)

/-! Hypotheses under which the range scan of one row-set is exact (each is forced by the code;
`Thm/C13.lean` refutes the statement with any one of them dropped). -/

/-- an INT value (payload within i32) -/
def isI32Val : Val → Bool
  | .i32 v => decide (-2147483648 ≤ v) && decide (v < 2147483648)
  | _ => false

/-- every stored key is an INT -/
def keysI32 (rs : RowSet) (k : Nat) : Bool := rs.rows.all fun row => isI32Val (Row.at row k)

def bndI32 : Bnd → Bool
  | .unb => true
  | .incl v => isI32Val v
  | .excl v => isI32Val v

/-- the block index of column 0 only refers to stored rows -/
def blocksOk (rs : RowSet) : Bool := (blockStarts (rs.blocks.getD 0 [])).all fun s => decide (s < rs.rows.length)

/-- no block of column 0 starts with the Included begin key while an earlier row has that key too -/
def boundaryOk (rs : RowSet) (k : Nat) (r : KeyRange) : Bool :=
  match r.lo with
  | .incl b => (blockStarts (rs.blocks.getD 0 [])).all fun s =>
      decide (Row.at (rs.rows.getD s []) k ≠ b) || (rs.rows.take s).all fun row => decide (Row.at row k ≠ b)
  | _ => true

/-- One row-set read by RowSetIterator: seek to start_rowid, then batches. -/
def scanRowSet (rs : RowSet) (cols : List Nat) (r : Option KeyRange) : Out (List Row) :=
  (startRowid rs r).map fun s =>
    let tagged := rs.tagged.drop s
    scanBatches (cols.headD 0) r (splitBatches (cutPoints rs cols) (tagged.length + 1) s tagged)

/-- transaction.rs scan_inner with default options: every row-set in snapshot order, concatenated. -/
def scanTable : List RowSet → List Nat → Option KeyRange → Out (List Row)
  | [], _, _ => .ok []
  | rs :: rest, cols, r =>
    (scanRowSet rs cols r).bind fun a => (scanTable rest cols r).map fun b => a ++ b

/-- `scanBatches` keeping the chunk structure (one chunk per batch that is not skipped): what
a MergeIterator's child iterator delivers -/
def scanBatchesC (fc : Nat) (r : Option KeyRange) : List (List (Row × Bool)) → List (List Row)
  | [] => []
  | b :: bs =>
    if b.all (fun x => !x.2) then scanBatchesC fc r bs
    else
      match r with
      | none => liveRows b :: scanBatchesC fc r bs
      | some rg =>
        let lo := firstIdx (fun x => lowerOk rg.lo (Row.at x.1 fc)) b
        let hi := firstIdx (fun x => upperBad rg.hi (Row.at x.1 fc)) b
        let out := liveRows (sliceRange lo hi b)
        if Gen.rangeStop lo hi b.length then [out] else out :: scanBatchesC fc r bs

def scanRowSetC (rs : RowSet) (cols : List Nat) (r : Option KeyRange) : Out (List (List Row)) :=
  (startRowid rs r).map fun s =>
    let tagged := rs.tagged.drop s
    scanBatchesC (cols.headD 0) r (splitBatches (cutPoints rs cols) (tagged.length + 1) s tagged)

def collectOut {α} : List (Out α) → Out (List α)
  | [] => .ok []
  | x :: xs => x.bind fun a => (collectOut xs).map fun b => a :: b

/-- executor/table_scan.rs since fix d36c2ac: for a table with sort-key (`is_primary`) columns on
the secondary storage the executor appends the missing sort-key columns to the scan list and asks
for `ScanOptions::with_sorted(true)`: one row-set is read as is, several are merged by
MergeIterator on the sort key (the real heap of `Model/Heap.lean`); the extra columns are dropped
from the output (rows stay table-width in the model). Unkeyed tables: ConcatIterator as before. -/
def tableScan (primary : List Nat) (lay : List RowSet) (cols : List Nat) (r : Option KeyRange) : Out (List Row) :=
  if primary.isEmpty || cols.isEmpty then scanTable lay cols r
  else
    let cols' := cols ++ primary.filter fun k => !cols.contains k
    (collectOut (lay.map fun rs => scanRowSetC rs cols' r)).map fun streams =>
      match streams with
      | [s] => s.flatten
      | _ => mergeHeap (keyCmp (ascKeys primary)) streams

/-! ## Plans (the subset of the plan language the checks generate) -/

inductive Plan where
  | scan (cols : List Nat) (filter : Expr)
  | filter (c : Expr) (p : Plan)
  | proj (cols : List Nat) (p : Plan)
  | order (ks : List OrdKey) (p : Plan)
  | limit (n : Option Nat) (m : Nat) (p : Plan)
  | topn (n : Option Nat) (m : Nat) (ks : List OrdKey) (p : Plan)
  /-- `(empty child)`: what `filter false` is rewritten to; returns no rows -/
  | empty (p : Plan)
  deriving Repr

structure TableMeta where
  /-- columns with `ColumnDesc.is_primary` (set by the column-level PRIMARY KEY syntax only) -/
  primary : List Nat
  /-- `StorageImpl::table_is_sorted_by_primary_key` (true for the disk engine) -/
  sortedByPk : Bool
  /-- columns declared INT (`DataType::Int32`) -/
  intCols : List Nat := []
  deriving Repr

/-- order.rs analyze_order -/
def analyzeOrder (t : TableMeta) : Plan → List OrdKey
  | .scan cols _ =>
    if t.sortedByPk then
      match cols.find? (fun c => t.primary.contains c) with
      | some c => [⟨c, false⟩]
      | none => []
    else []
  | .order ks _ => ks
  | .topn _ _ ks _ => ks
  | .proj _ p => analyzeOrder t p
  | .filter _ p => analyzeOrder t p
  | .limit _ _ p => analyzeOrder t p
  | .empty _ => []

/- range.rs `is_primary_key_range` (condition of the `filter-scan` rules): `rangeGuard` is GENERATED from
   the source on every run, see Gen/RangeGuard.lean (which imports this file). -/

/-- `is_orderby(keys, plan)`: the plan's order key list starts with `keys`. -/
def isOrderBy (t : TableMeta) (ks : List OrdKey) (p : Plan) : Bool :=
  ks.isPrefixOf (analyzeOrder t p)

/-- Output columns (by identity) of a plan. -/
def outCols : Plan → List Nat
  | .scan cols _ => cols
  | .proj cols _ => cols
  | .filter _ p => outCols p
  | .order _ p => outCols p
  | .limit _ _ p => outCols p
  | .topn _ _ _ p => outCols p
  | .empty p => outCols p

/-- What the executors compute.  Rows stay table-width (columns are referred to by identity);
`outCols` is applied at the end. -/
def execPlan (t : TableMeta) (lay : List RowSet) : Plan → Out (List Row)
  | .scan cols f =>
    -- executor/mod.rs Scan arm since fix a546337: a scan filter that is neither `true` nor a key
    -- range is evaluated by a FilterExecutor on top of the scan (it used to be ignored)
    let kr := keyRangeOfFilter f
    let rows := tableScan t.primary lay cols kr
    match f with
    | .const (.bool true) => rows
    | _ => if kr.isNone then rows.map fun rs => rs.filter (keepRow f) else rows
  | .filter c p => (execPlan t lay p).map fun rows => rows.filter (keepRow c)
  | .proj _ p => execPlan t lay p
  | .order ks p => (execPlan t lay p).map fun rows => sortL (keyCmp ks) rows
  | .limit n m p => (execPlan t lay p).map fun rows => limitExec n m [rows]
  | .topn n m ks p => (execPlan t lay p).bind fun rows => topnExec (keyCmp ks) n m rows
  | .empty _ => .ok []

/-- What the query means: scans return the table's visible rows (as a bag; the order is the
concatenation order), a scan filter is a plain predicate, ORDER BY sorts, LIMIT/OFFSET slice. -/
def specPlan (lay : List RowSet) : Plan → List Row
  | .scan _ f => (concatScan lay).filter fun r => match f with
      | .const (.bool true) => true
      | _ => keepRow f r
  | .filter c p => (specPlan lay p).filter (keepRow c)
  | .proj _ p => specPlan lay p
  | .order ks p => sortL (keyCmp ks) (specPlan lay p)
  | .limit n m p => limitRows n m (specPlan lay p)
  | .topn n m ks p => limitRows n m (sortL (keyCmp ks) (specPlan lay p))
  | .empty _ => []

/-- keys of the outermost sort of a plan (what the result order is defined by) -/
def sortKeysOf : Plan → List OrdKey
  | .scan _ _ => []
  | .order ks _ => ks
  | .topn _ _ ks _ => ks
  | .filter _ p => sortKeysOf p
  | .proj _ p => sortKeysOf p
  | .limit _ _ p => sortKeysOf p
  | .empty _ => []

def hasLimit : Plan → Bool
  | .scan _ _ => false
  | .order _ p => hasLimit p
  | .topn _ _ _ _ => true
  | .filter _ p => hasLimit p
  | .proj _ p => hasLimit p
  | .limit n m p => (n.isSome || m != 0) || hasLimit p
  | .empty _ => false

def Plan.supported : Plan → Bool
  | .scan _ f => f.supported
  | .filter c p => c.supported && p.supported
  | .proj _ p => p.supported
  | .order _ p => p.supported
  | .limit _ _ p => p.supported
  | .topn _ _ _ p => p.supported
  | .empty p => p.supported

/-- the scan leaf -/
def scanOf : Plan → List Nat × Expr
  | .scan cols f => (cols, f)
  | .filter _ p => scanOf p
  | .proj _ p => scanOf p
  | .order _ p => scanOf p
  | .limit _ _ p => scanOf p
  | .topn _ _ _ p => scanOf p
  | .empty _ => ([], .const (.bool true))

def hasSort : Plan → Bool
  | .scan _ _ => false
  | .order ks p => !ks.isEmpty || hasSort p
  | .topn _ _ _ _ => true
  | .filter _ p => hasSort p
  | .proj _ p => hasSort p
  | .limit _ _ p => hasSort p
  | .empty _ => true

def topnAbsentLimit : Plan → Bool
  | .scan _ _ => false
  | .order _ p => topnAbsentLimit p
  | .topn n _ _ p => n.isNone || topnAbsentLimit p
  | .filter _ p => topnAbsentLimit p
  | .proj _ p => topnAbsentLimit p
  | .limit _ _ p => topnAbsentLimit p
  | .empty _ => false

end RlModel
