/-
S-expressions: the wire format shared with the Rust harness (`rlverif::Sexp`) and the
concrete syntax of RisingLight plans (`RecExpr: Display + FromStr`).

Atoms are maximal runs of characters other than whitespace and parentheses; an atom starting
with `'` extends to the matching closing `'` (RisingLight prints string constants that way).
Import-free on purpose: the drivers link as `lean_exe`.
-/
namespace RlModel

inductive Sexp where
  | atom (s : String)
  | list (xs : List Sexp)
  deriving Repr, Inhabited, BEq

namespace Sexp

private def isWs (c : Char) : Bool := c == ' ' || c == '\t' || c == '\n' || c == '\r'

/-- Tokens: `(`, `)`, or an atom. -/
inductive Tok where
  | lp | rp | atom (s : String)
  deriving Repr, BEq

/-- Tokenizer over a character list (structural on the list).  An atom starting with `'` or
`"` extends to the matching closing quote (RisingLight prints string constants as `'…'`; egg
quotes atoms that contain parentheses, e.g. `"$0.1(1)"`, with `"`). -/
def tokenize : List Char → List Char → Option Char → List Tok → List Tok
  -- args: input, current atom (reversed), open quote character, acc (reversed)
  | [], cur, _, acc =>
      (if cur.isEmpty then acc else Tok.atom (String.ofList cur.reverse) :: acc).reverse
  | c :: cs, cur, some q, acc =>
      if c == q then tokenize cs [] none (Tok.atom (String.ofList (c :: cur).reverse) :: acc)
      else tokenize cs (c :: cur) (some q) acc
  | c :: cs, cur, none, acc =>
      if c == '(' then
        tokenize cs [] none (Tok.lp :: (if cur.isEmpty then acc else Tok.atom (String.ofList cur.reverse) :: acc))
      else if c == ')' then
        tokenize cs [] none (Tok.rp :: (if cur.isEmpty then acc else Tok.atom (String.ofList cur.reverse) :: acc))
      else if isWs c then
        tokenize cs [] none (if cur.isEmpty then acc else Tok.atom (String.ofList cur.reverse) :: acc)
      else if (c == '\'' || c == '"') && cur.isEmpty then tokenize cs [c] (some c) acc
      else tokenize cs (c :: cur) none acc

/-- Parser with an explicit stack of open lists (reversed element lists). -/
def parseToks : List Tok → List (List Sexp) → Option Sexp → Option Sexp
  | [], [], r => r
  | [], _ :: _, _ => none
  | Tok.lp :: ts, stack, none => parseToks ts ([] :: stack) none
  | Tok.lp :: _, _, some _ => none
  | Tok.rp :: ts, cur :: stack, none =>
      let v := Sexp.list cur.reverse
      match stack with
      | [] => parseToks ts [] (some v)
      | p :: rest => parseToks ts ((v :: p) :: rest) none
  | Tok.rp :: _, _, _ => none
  | Tok.atom a :: ts, stack, none =>
      match stack with
      | [] => parseToks ts [] (some (Sexp.atom a))
      | p :: rest => parseToks ts ((Sexp.atom a :: p) :: rest) none
  | Tok.atom _ :: _, _, some _ => none

def parse (s : String) : Option Sexp :=
  parseToks (tokenize s.toList [] none []) [] none

mutual
  def toStr : Sexp → String
    | atom s => s
    | list xs => "(" ++ listToStr xs ++ ")"
  def listToStr : List Sexp → String
    | [] => ""
    | [x] => toStr x
    | x :: xs => toStr x ++ " " ++ listToStr xs
end

instance : ToString Sexp := ⟨toStr⟩

def atom? : Sexp → Option String
  | atom s => some s
  | _ => none

def list? : Sexp → Option (List Sexp)
  | list xs => some xs
  | _ => none

/-- `(head a b c)` ↦ `some ("head", [a,b,c])`. -/
def app? : Sexp → Option (String × List Sexp)
  | list (atom h :: args) => some (h, args)
  | _ => none

end Sexp

/-- Hex helpers for the canonical value text (`s:<hex of utf-8>`). -/
def hexDigit (n : Nat) : Char :=
  if n < 10 then Char.ofNat (48 + n) else Char.ofNat (87 + n)

def hexOfBytes (bs : List UInt8) : String :=
  String.ofList (bs.flatMap fun b => [hexDigit (b.toNat / 16), hexDigit (b.toNat % 16)])

def hexVal (c : Char) : Option Nat :=
  if '0' ≤ c ∧ c ≤ '9' then some (c.toNat - 48)
  else if 'a' ≤ c ∧ c ≤ 'f' then some (c.toNat - 87)
  else if 'A' ≤ c ∧ c ≤ 'F' then some (c.toNat - 55)
  else none

def bytesOfHex : List Char → Option (List UInt8)
  | [] => some []
  | [_] => none
  | a :: b :: rest => do
      let x ← hexVal a
      let y ← hexVal b
      let r ← bytesOfHex rest
      pure (UInt8.ofNat (x * 16 + y) :: r)

end RlModel
