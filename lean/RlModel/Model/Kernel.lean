import RlModel.Model.Sexp
/-
L4: the vectorised kernels of `src/array/ops.rs` (+ `primitive_array.rs clear_null`,
`executor/evaluator.rs Evaluator::eval`) as executable functions.

An array is a list of slots `(valid, raw)`: the raw value exists for EVERY slot, also under a
NULL (`PrimitiveArray {valid: BitVec, data: Box<[T]>}`).  Kernels compute on the raw value of
every slot and patch validity by bitmap algebra, exactly like the code:

  binary_op  : raw = f(ra, rb) for all slots;   valid = va & vb
  unary_op   : raw = f(ra)     for all slots;   valid = va
  try_unary_op : iterates `a.iter()` (Option): f only on valid slots, NULL slot -> builder default
  clear_null : raw &= valid
  select_op  : c = s_raw & sv; raw = if c then a_raw else b_raw; valid = (c & av) | (!c & bv)
  and        : c = binary_op(&&); valid |= (!ra & va) | (!rb & vb)
  or         : c = binary_op(||); valid |= (ra & va) | (rb & vb); clear_null   (since /repo 0494ff0)
  div, rem   : safen_dividend(b) then binary_op(/ or %)   (rem safened since /repo f444b3f)

Integer raw values are `Int`s constrained to the width of the array (`IW`). Since /repo 5b4435f
integer `+ - * / %` and unary `-` go through `try_binary_op` / `try_unary_op`: computed on valid
slots only, `checked_*`, overflow = `Err` (before: on every raw slot, panicking in debug).

Representation invariant assumed by the model: an array IS its list of slots, i.e. the validity
`BitVec` is word-aligned at bit 0 (head offset 0) and has one bit per raw slot. The word-wise
`BitVecExt::{and, or, not_then_and}` and `clear_null` rely on it; every constructor in src/array
(builders, `collect`, `from_data` with a fresh bitmap, `filter`, `slice`) must establish it. The
model has no notion of a head offset; the correspondence run therefore also feeds the kernels
arrays obtained by `slice(off..off+n)` with `off % 64 ≠ 0` and expressions above LIMIT/OFFSET
(requests `ks` / `el`).

Core Lean only (the driver links as `lean_exe`).
-/
namespace RlModel

/-- Outcome of a kernel call: a value, `Err(ConvertError)`, or a panic of the calling task. -/
inductive KOut (α : Type) where
  | ok (a : α)
  | err
  | panic
  deriving Repr, DecidableEq

namespace KOut
def bind {α β} (x : KOut α) (f : α → KOut β) : KOut β :=
  match x with
  | ok a => f a
  | err => err
  | panic => panic
def map {α β} (f : α → β) (x : KOut α) : KOut β :=
  match x with
  | ok a => ok (f a)
  | err => err
  | panic => panic
def isOk {α} : KOut α → Bool
  | ok _ => true
  | _ => false
end KOut

/-- Integer widths of `Int16 / Int32 / Int64` arrays. -/
inductive IW where
  | w16 | w32 | w64
  deriving Repr, DecidableEq

namespace IW
def lo : IW → Int
  | w16 => -32768
  | w32 => -2147483648
  | w64 => -9223372036854775808
def hi : IW → Int
  | w16 => 32767
  | w32 => 2147483647
  | w64 => 9223372036854775807
def fits (w : IW) (x : Int) : Bool := decide (w.lo ≤ x) && decide (x ≤ w.hi)
def rank : IW → Nat
  | w16 => 0 | w32 => 1 | w64 => 2
/-- The promoted width of the `arith!` / `cmp!` macro arms (`(*a as i32) op *b`, …). -/
def max (a b : IW) : IW := if a.rank ≤ b.rank then b else a
def name : IW → String
  | w16 => "i16" | w32 => "i32" | w64 => "i64"
end IW

/-- One array slot: validity bit and the raw value that is stored whatever the validity. -/
structure Slot (α : Type) where
  valid : Bool
  raw : α
  deriving Repr, DecidableEq

abbrev Arr (α : Type) := List (Slot α)

/-- The SQL value of a slot: `Array::get`. -/
def Slot.val {α} (s : Slot α) : Option α := if s.valid then some s.raw else none

/-- Abstraction function: the SQL column an array denotes. -/
def vals {α} (a : Arr α) : List (Option α) := a.map Slot.val
def valids {α} (a : Arr α) : List Bool := a.map (·.valid)
def raws {α} (a : Arr α) : List α := a.map (·.raw)

/-- `ArrayFromDataExt::from_data(data_iter, valid)`. -/
def fromData {α} : List α → List Bool → Arr α
  | r :: rs, v :: vs => ⟨v, r⟩ :: fromData rs vs
  | _, _ => []

/-! Bitmap algebra (`BitVecExt`): per-bit; the word-level implementation is tied by the
length sweep of the correspondence run. -/
def bvAnd : List Bool → List Bool → List Bool
  | a :: as, b :: bs => (a && b) :: bvAnd as bs
  | _, _ => []
def bvOr : List Bool → List Bool → List Bool
  | a :: as, b :: bs => (a || b) :: bvOr as bs
  | _, _ => []
def bvNotThenAnd : List Bool → List Bool → List Bool
  | a :: as, b :: bs => (!a && b) :: bvNotThenAnd as bs
  | _, _ => []

/-- `a.raw_iter().zip(b.raw_iter()).map(f)` collected; the first fault wins. -/
def zipRawM {α β γ} (f : α → β → KOut γ) : List α → List β → KOut (List γ)
  | x :: xs, y :: ys =>
    match f x y with
    | .ok c =>
      match zipRawM f xs ys with
      | .ok r => .ok (c :: r)
      | .err => .err
      | .panic => .panic
    | .err => .err
    | .panic => .panic
  | _, _ => .ok []

def mapRawM {α γ} (f : α → KOut γ) : List α → KOut (List γ)
  | x :: xs =>
    match f x with
    | .ok c =>
      match mapRawM f xs with
      | .ok r => .ok (c :: r)
      | .err => .err
      | .panic => .panic
    | .err => .err
    | .panic => .panic
  | [] => .ok []

/-- `binary_op(a, b, f)`: `assert_eq!(a.len(), b.len())`, f on the raw value of EVERY slot. -/
def binaryOp {α β γ} (f : α → β → KOut γ) (a : Arr α) (b : Arr β) : KOut (Arr γ) :=
  if a.length ≠ b.length then .panic
  else match zipRawM f (raws a) (raws b) with
    | .ok r => .ok (fromData r (bvAnd (valids a) (valids b)))
    | .err => .err
    | .panic => .panic

/-- `unary_op(a, f)`. -/
def unaryOp {α γ} (f : α → KOut γ) (a : Arr α) : KOut (Arr γ) :=
  match mapRawM f (raws a) with
  | .ok r => .ok (fromData r (valids a))
  | .err => .err
  | .panic => .panic

/-- `try_unary_op(a, f)`: goes through `a.iter()` and a builder: NULL slots are skipped and get
the builder's default raw value. -/
def tryUnaryOp {α γ} (dflt : γ) (f : α → KOut γ) : Arr α → KOut (Arr γ)
  | s :: ss =>
    if s.valid then
      match f s.raw with
      | .ok c =>
        match tryUnaryOp dflt f ss with
        | .ok r => .ok (⟨true, c⟩ :: r)
        | .err => .err
        | .panic => .panic
      | .err => .err
      | .panic => .panic
    else
      match tryUnaryOp dflt f ss with
      | .ok r => .ok (⟨false, dflt⟩ :: r)
      | .err => .err
      | .panic => .panic
  | [] => .ok []

/-- `clear_null`: `*d &= v`. -/
def clearNull (a : Arr Bool) : Arr Bool := a.map fun s => ⟨s.valid, s.raw && s.valid⟩

/-- `valid |= mask` on an already built array (`get_valid_bitmap_mut().or(&mask)`). -/
def orValid {α} : Arr α → List Bool → Arr α
  | s :: ss, m :: ms => ⟨s.valid || m, s.raw⟩ :: orValid ss ms
  | ss, [] => ss
  | [], _ => []

/-- `select_op(s, a, b)` (after repository commit `fix: CASE/select …`): `cond = s_raw & s_valid`
(the condition is TRUE); `raw = if cond then a_raw else b_raw`,
`valid = (cond & av) | (!cond & bv)`. Only `a.len() == b.len()` is asserted by the code; the
evaluator always passes three arrays of the chunk's cardinality, other shapes are outside the
model. -/
def selectOp {α} (s : Arr Bool) (a b : Arr α) : KOut (Arr α) :=
  if a.length ≠ b.length ∨ s.length ≠ a.length then .panic
  else
    let cond := bvAnd (raws s) (valids s)
    let raw := (List.zip (List.zip (raws a) (raws b)) cond).map
      fun p => if p.2 then p.1.1 else p.1.2
    let valid := bvOr (bvAnd cond (valids a)) (bvNotThenAnd cond (valids b))
    .ok (fromData raw valid)

/-! ### Integer arithmetic of the debug profile -/

/-- Checked integer arithmetic (since /repo 5b4435f): a result outside the type is
`Err(ConvertError::IntegerOverflow)`. -/
def chk (w : IW) (x : Int) : KOut Int := if w.fits x then .ok x else .err
def addW (w : IW) (x y : Int) : KOut Int := chk w (x + y)
def subW (w : IW) (x y : Int) : KOut Int := chk w (x - y)
def mulW (w : IW) (x y : Int) : KOut Int := chk w (x * y)
def negW (w : IW) (x : Int) : KOut Int := chk w (-x)
/-- `checked_div`: `None` (→ error) on a zero divisor and on `MIN / -1`. Truncating division. -/
def divW (w : IW) (x y : Int) : KOut Int := if y = 0 then .err else chk w (Int.tdiv x y)
/-- `checked_rem_total`: `checked_rem(..).unwrap_or(0)`: `MIN % -1` is 0 (and so would be a zero
divisor, which the safening never lets through). Sign follows the dividend. -/
def remW (_w : IW) (x y : Int) : KOut Int := if y = 0 then .ok 0 else .ok (Int.tmod x y)

inductive ArithOp where
  | add | sub | mul | div | rem
  deriving Repr, DecidableEq

inductive CmpOp where
  | eq | ne | gt | lt | ge | le
  deriving Repr, DecidableEq

def ArithOp.raw (op : ArithOp) (w : IW) : Int → Int → KOut Int :=
  match op with
  | .add => addW w | .sub => subW w | .mul => mulW w | .div => divW w | .rem => remW w

def CmpOp.onInt (op : CmpOp) (x y : Int) : Bool :=
  match op with
  | .eq => x == y | .ne => x != y | .gt => decide (x > y) | .lt => decide (x < y)
  | .ge => decide (x ≥ y) | .le => decide (x ≤ y)

def CmpOp.onOrd (op : CmpOp) (o : Ordering) : Bool :=
  match op, o with
  | .eq, .eq => true | .eq, _ => false
  | .ne, .eq => false | .ne, _ => true
  | .gt, .gt => true | .gt, _ => false
  | .lt, .lt => true | .lt, _ => false
  | .ge, .lt => false | .ge, _ => true
  | .le, .gt => false | .le, _ => true

def boolOrd : Bool → Bool → Ordering
  | false, true => .lt
  | true, false => .gt
  | _, _ => .eq

def bytesOrd : List UInt8 → List UInt8 → Ordering
  | [], [] => .eq
  | [], _ :: _ => .lt
  | _ :: _, [] => .gt
  | a :: as, b :: bs => if a < b then .lt else if b < a then .gt else bytesOrd as bs

def strOrd (a b : String) : Ordering := bytesOrd a.toUTF8.toList b.toUTF8.toList

/-- `safen_dividend(array, valid)`: a zero divisor becomes NULL with raw 1; every other raw
value (also under NULL) stays. -/
def safenDividend (b : Arr Int) : Arr Int :=
  b.map fun s => ⟨s.valid && s.raw != 0, if s.raw == 0 then 1 else s.raw⟩

/-! ### Typed arrays (`ArrayImpl`, the variants modelled) -/

inductive Col where
  | null (n : Nat)
  | bool (a : Arr Bool)
  | int (w : IW) (a : Arr Int)
  | str (a : Arr String)
  deriving Repr, DecidableEq

def Col.len : Col → Nat
  | .null n => n
  | .bool a => a.length
  | .int _ a => a.length
  | .str a => a.length

/-- A slot-wise binary kernel: the recursive shape every binary kernel is shown to have. -/
def zipSlotM {α β γ} (f : Slot α → Slot β → KOut (Slot γ)) : Arr α → Arr β → KOut (Arr γ)
  | x :: xs, y :: ys =>
    match f x y with
    | .ok c =>
      match zipSlotM f xs ys with
      | .ok r => .ok (c :: r)
      | .err => .err
      | .panic => .panic
    | .err => .err
    | .panic => .panic
  | [], [] => .ok []
  | _, _ => .panic

/-- The loop body of `try_binary_op` (since /repo 5b4435f): `f` only where both slots are valid;
any other slot becomes NULL with the builder's default raw value. -/
def trySlot {α β γ} (d : γ) (f : α → β → KOut γ) (s : Slot α) (t : Slot β) : KOut (Slot γ) :=
  if s.valid && t.valid then (f s.raw t.raw).map fun c => ⟨true, c⟩ else .ok ⟨false, d⟩

/-- `try_binary_op(a, b, f)`: `assert_eq!(a.len(), b.len())`, then a builder loop over
`a.iter().zip(b.iter())`; the first `Err` ends it. -/
def tryBinaryOp {α β γ} (d : γ) (f : α → β → KOut γ) (a : Arr α) (b : Arr β) : KOut (Arr γ) :=
  if a.length ≠ b.length then .panic else zipSlotM (trySlot d f) a b

/-- `div` and (since /repo f444b3f) `rem` pass the divisor through `safen_dividend`. -/
def ArithOp.safens : ArithOp → Bool
  | .div | .rem => true
  | _ => false

/-- Integer arm of `arith!` at promoted width `w`; `div` / `rem` go through `safen_dividend`. -/
def arithK (op : ArithOp) (w : IW) (a b : Arr Int) : KOut (Arr Int) :=
  tryBinaryOp 0 (op.raw w) a (if op.safens then safenDividend b else b)

/-- One arm of `cmp!`: `clear_null(binary_op(a, b, f))`. -/
def cmpK {α} (f : α → α → Bool) (a b : Arr α) : KOut (Arr Bool) :=
  (binaryOp (fun x y => KOut.ok (f x y)) a b).map clearNull

/-- `div` / `rem` first pass the divisor through `safen_dividend`, which knows numeric arrays and
(since /repo 26c93c7) the NULL-typed array only. -/
def Col.divisorOk (op : ArithOp) : Col → Bool
  | .bool _ => !op.safens
  | .str _ => !op.safens
  | _ => true

/-- `arith!` arms for the integer variants; an operand of type NULL (the untyped NULL constant) gives
the NULL-typed array (since /repo 26c93c7: `(Null, _) => self.clone()`, `(_, Null) => other.clone()`);
everything else `Err(NoBinaryOp)`. -/
def Col.arith (op : ArithOp) (ca cb : Col) : KOut Col :=
  if !Col.divisorOk op cb then .err else
  match ca, cb with
  | .int wa a, .int wb b => (arithK op (wa.max wb) a b).map (.int (wa.max wb))
  | .null k, _ => .ok (.null k)
  | _, .null k => .ok (.null k)
  | _, _ => .err

/-- `cmp!` arms. -/
def Col.cmp (op : CmpOp) : Col → Col → KOut Col
  | .int _ a, .int _ b => (cmpK op.onInt a b).map .bool
  | .bool a, .bool b => (cmpK (fun x y => op.onOrd (boolOrd x y)) a b).map .bool
  | .str a, .str b => (cmpK (fun x y => op.onOrd (strOrd x y)) a b).map .bool
  -- since /repo 26c93c7: comparing with the untyped NULL constant: `self.len()` NULLs (built by
  -- a builder: raw false), whatever the other operand's type
  | .null k, cb => .ok (.bool (List.replicate (Col.null k).len ⟨false, false⟩))
  | ca, .null _ => .ok (.bool (List.replicate ca.len ⟨false, false⟩))
  | _, _ => .err

/-- `ArrayImpl::and`. -/
def andK (a b : Arr Bool) : KOut (Arr Bool) :=
  match binaryOp (fun x y => KOut.ok (x && y)) a b with
  | .ok c =>
    let aFalse := bvNotThenAnd (raws a) (valids a)
    let bFalse := bvNotThenAnd (raws b) (valids b)
    .ok (orValid (orValid c aFalse) bFalse)
  | .err => .err
  | .panic => .panic

/-- `ArrayImpl::or` (since /repo 0494ff0): `c = binary_op(||)`; `valid |= (ra & va) | (rb & vb)`;
`clear_null`. -/
def orK (a b : Arr Bool) : KOut (Arr Bool) :=
  match binaryOp (fun x y => KOut.ok (x || y)) a b with
  | .ok c =>
    let aTrue := bvAnd (raws a) (valids a)
    let bTrue := bvAnd (raws b) (valids b)
    .ok (clearNull (orValid (orValid c aTrue) bTrue))
  | .err => .err
  | .panic => .panic

/-- `ArrayImpl::not`. -/
def notK (a : Arr Bool) : Arr Bool :=
  clearNull (a.map fun s => ⟨s.valid, !s.raw⟩)

/-- `null_as_bool` (since /repo 26c93c7): the untyped NULL constant as an operand of AND / OR is a
BOOLEAN array of NULLs. -/
def Col.asBoolArr : Col → Option (Arr Bool)
  | .bool a => some a
  | .null k => some (List.replicate k ⟨false, false⟩)
  | _ => none

def Col.and (ca cb : Col) : KOut Col :=
  match ca.asBoolArr, cb.asBoolArr with
  | some a, some b => (andK a b).map .bool
  | _, _ => .err
def Col.or (ca cb : Col) : KOut Col :=
  match ca.asBoolArr, cb.asBoolArr with
  | some a, some b => (orK a b).map .bool
  | _, _ => .err
def Col.not : Col → KOut Col
  | .bool a => .ok (.bool (notK a))
  | _ => .err

/-- `ArrayImpl::neg` (integer arms; Int16 since /repo 942aa9d). -/
def Col.neg : Col → KOut Col
  | .int w a =>
    match tryUnaryOp 0 (negW w) a with
    | .ok c => .ok (.int w c)
    | .err => .err
    | .panic => .panic
  -- the untyped NULL constant (`x * -1` / `0 - x` are rewritten to `-x`): `self.clone()`
  | .null k => .ok (.null k)
  | _ => .err

/-- `ArrayImpl::select`: integer arms; Bool (with `clear_null`) and String arms since /repo
1187390. -/
def Col.select : Col → Col → Col → KOut Col
  | .bool s, .int wa a, .int wb b =>
    if wa == wb then
      match selectOp s a b with
      | .ok c => .ok (.int wa c)
      | .err => .err
      | .panic => .panic
    else .err
  | .bool s, .bool a, .bool b =>
    match selectOp s a b with
    | .ok c => .ok (.bool (clearNull c))
    | .err => .err
    | .panic => .panic
  | .bool s, .str a, .str b =>
    match selectOp s a b with
    | .ok c => .ok (.str c)
    | .err => .err
    | .panic => .panic
  | .bool _, .null k, .null _ => .ok (.null k)   -- since /repo 26c93c7: `true_array.clone()`
  | _, _, _ => .err

/-- `IsNull` in the evaluator: `valid.iter().map(|v| !v).collect()` (all slots valid). -/
def Col.isNull : Col → Col
  | .null n => .bool (List.replicate n ⟨true, true⟩)
  | .bool a => .bool (a.map fun s => ⟨true, !s.valid⟩)
  | .int _ a => .bool (a.map fun s => ⟨true, !s.valid⟩)
  | .str a => .bool (a.map fun s => ⟨true, !s.valid⟩)

/-- Target types of `cast` that are modelled. -/
inductive Ty where
  | null | bool | int (w : IW) | str
  deriving Repr, DecidableEq

def Col.ty : Col → Ty
  | .null _ => .null
  | .bool _ => .bool
  | .int w _ => .int w
  | .str _ => .str

/-- Builder default under a NULL (`unwrap_or_default`). -/
def nullArr {α} (d : α) (n : Nat) : Arr α := List.replicate n ⟨false, d⟩

def nullCol (t : Ty) (n : Nat) : Col :=
  match t with
  | .null => .null n
  | .bool => .bool (nullArr false n)
  | .int w => .int w (nullArr 0 n)
  | .str => .str (nullArr "" n)

/-- `Display` of an integer / `parse::<iN>()` for the string casts. -/
def parseIntStr (s : String) : Option Int :=
  match s.toList with
  | [] => none
  | c :: cs =>
    let digits := if c == '+' || c == '-' then cs else c :: cs
    if digits.isEmpty || !digits.all Char.isDigit then none
    else
      let n : Nat := digits.foldl (fun acc d => acc * 10 + (d.toNat - 48)) 0
      some (if c == '-' then - (Int.ofNat n) else Int.ofNat n)

/-- `ArrayImpl::cast` for the modelled variants. Widening and int→bool / bool→int are
`unary_op` (raw computed under NULL too); narrowing and parsing are `try_unary_op`
(NULL slots skipped, failure = `Err`); int/bool→string goes through `iter()` + builder. -/
def Col.cast (t : Ty) : Col → KOut Col
  | .null n => .ok (nullCol t n)
  | .bool a =>
    match t with
    | .bool => .ok (.bool a)
    | .int w => .ok (.int w (a.map fun s => ⟨s.valid, if s.raw then 1 else 0⟩))
    | .str => .ok (.str (a.map fun s => ⟨s.valid, if s.raw then "true" else "false"⟩))
    | .null => .err
  | .int w a =>
    match t with
    | .bool => .ok (.bool (a.map fun s => ⟨s.valid, s.raw != 0⟩))
    | .int w' =>
      if w == w' then .ok (.int w a)
      else if w.rank ≤ w'.rank then .ok (.int w' a)
      else
        match tryUnaryOp 0 (fun x => if w'.fits x then KOut.ok x else KOut.err) a with
        | .ok c => .ok (.int w' c)
        | .err => .err
        | .panic => .panic
    | .str => .ok (.str (a.map fun s => if s.valid then ⟨true, toString s.raw⟩ else ⟨false, ""⟩))
    | .null => .err
  | .str a =>
    match t with
    | .str => .ok (.str a)
    | .int w =>
      match tryUnaryOp 0 (fun s => match parseIntStr s with
          | some x => if w.fits x then KOut.ok x else KOut.err
          | none => KOut.err) a with
      | .ok c => .ok (.int w c)
      | .err => .err
      | .panic => .panic
    | .bool =>
      match tryUnaryOp false (fun s => if s == "true" then KOut.ok true
          else if s == "false" then KOut.ok false else KOut.err) a with
      | .ok c => .ok (.bool c)
      | .err => .err
      | .panic => .panic
    | .null => .err

/-- `ArrayImpl::concat`. -/
def Col.concat : Col → Col → KOut Col
  | .str a, .str b =>
    match binaryOp (fun x y => KOut.ok (x ++ y)) a b with
    | .ok c => .ok (.str c)
    | .err => .err
    | .panic => .panic
  | _, _ => .err

/-! ### String kernels: LIKE, substring, replace, repeat -/

/-- Tokens of a LIKE pattern after `like_to_regex`. -/
inductive LTok where
  | lit (c : Char)
  | one        -- one character
  | star       -- any run of characters
  deriving Repr, DecidableEq

/-- Matcher. `nl = true`: `one`/`star` match every character (SQL); `nl = false`: they do not
match a line feed (the `regex` crate's `.` without the `s` flag). -/
def matchT (nl : Bool) : List LTok → List Char → Bool
  | [], [] => true
  | [], _ :: _ => false
  | .lit c :: ts, x :: xs => c == x && matchT nl ts xs
  | .one :: ts, x :: xs => (nl || x != '\n') && matchT nl ts xs
  | .star :: ts, [] => matchT nl ts []
  | .star :: ts, x :: xs => matchT nl ts (x :: xs) || ((nl || x != '\n') && matchT nl (.star :: ts) xs)
  | .lit _ :: _, [] => false
  | .one :: _, [] => false
termination_by ts xs => ts.length + xs.length

/-- SQL LIKE: `%` any run, `_` one character, everything else literally. -/
def likeSpecToks (p : List Char) : List LTok :=
  p.map fun c => if c == '%' then .star else if c == '_' then .one else .lit c

/-- What `like_to_regex` + the regex engine make of the pattern (since /repo 1ee6bdb): `(?s)`,
`%` → `.*`, `_` → `.`, every other character escaped, i.e. a literal — the same token list as
SQL LIKE, and `.` matches line feeds too. The escaped pattern is always a valid regex. -/
def likeImplToks (p : List Char) : List LTok :=
  p.map fun c => if c == '%' then .star else if c == '_' then .one else .lit c

def likeImpl (p s : String) : Bool := matchT true (likeImplToks p.toList) s.toList
def likeSpec (p s : String) : Bool := matchT true (likeSpecToks p.toList) s.toList

/-- `ArrayImpl::like`: `clear_null(unary_op(a, |s| regex.is_match(s)))`. -/
def likeK (p : String) (a : Arr String) : KOut (Arr Bool) :=
  .ok (clearNull (a.map fun s => ⟨s.valid, likeImpl p s.raw⟩))

def satI32 (x : Int) : Int :=
  if x < -2147483648 then -2147483648 else if x > 2147483647 then 2147483647 else x

/-- The closure of `ArrayImpl::substring`. -/
def substrF (s : String) (b c : Int) : String :=
  let chars : Int := s.length
  let start0 := if b ≥ 0 then b - 1 else chars + b
  let end0 := satI32 (start0 + c)
  let (start, end_) := if start0 > end0 then (end0, start0) else (start0, end0)
  let skip := if start > 0 then start else 0
  let take := if end_ - skip > 0 then end_ - skip else 0
  String.ofList ((s.toList.drop skip.toNat).take take.toNat)

/-- `ternary_op`: goes through `iter()` and a builder (NULL-strict, default raw under NULL,
zips to the shortest input). -/
def ternaryOp {α β γ δ} (d : δ) (f : α → β → γ → δ) : Arr α → Arr β → Arr γ → Arr δ
  | a :: as, b :: bs, c :: cs =>
    (if a.valid && b.valid && c.valid then ⟨true, f a.raw b.raw c.raw⟩ else ⟨false, d⟩)
      :: ternaryOp d f as bs cs
  | _, _, _ => []

def replaceGo (frm to : List Char) : Nat → List Char → List Char
  | 0, s => s
  | _, [] => []
  | fuel + 1, c :: cs =>
    if frm.isPrefixOf (c :: cs) then to ++ replaceGo frm to fuel ((c :: cs).drop frm.length)
    else c :: replaceGo frm to fuel cs

/-- `str::replace(from, to)`. -/
def replaceF (frm to s : String) : String :=
  if frm.isEmpty then String.ofList (to.toList ++ s.toList.flatMap fun c => c :: to.toList)
  else String.ofList (replaceGo frm.toList to.toList (s.length + 1) s.toList)

/-- The closure of `ArrayImpl::repeat`: `for _ in 0..n { res += a }`. -/
def repeatF (s : String) (n : Int) : String :=
  String.ofList ((List.replicate n.toNat s.toList).flatten)

def Col.like (p : String) : Col → KOut Col
  | .str a => (likeK p a).map .bool
  | _ => .err

def Col.substring : Col → Col → Col → KOut Col
  | .str a, .int .w32 b, .int .w32 c => .ok (.str (ternaryOp "" substrF a b c))
  | _, _, _ => .err

/-- `unary_op(a, |s| s.replace(from, to))` (raw computed under NULL too; cannot fault). -/
def Col.replace (frm to : String) : Col → KOut Col
  | .str a => .ok (.str (a.map fun s => ⟨s.valid, replaceF frm to s.raw⟩))
  | _ => .err

/-- `binary_op(a, b, repeat)`: computed on the raw values of EVERY slot. -/
def Col.repeat_ : Col → Col → KOut Col
  | .str a, .int .w32 b =>
    match binaryOp (fun s n => KOut.ok (repeatF s n)) a b with
    | .ok c => .ok (.str c)
    | .err => .err
    | .panic => .panic
  | _, _ => .err

/-! ### The invariant the bool kernels rely on -/

/-- Raw bit is `false` under every NULL slot. -/
def RawFalseUnderNull (a : Arr Bool) : Prop := ∀ s ∈ a, s.valid = false → s.raw = false

def rawFalseUnderNullB (a : Arr Bool) : Bool := a.all fun s => s.valid || !s.raw

/-! ### SQL scalar semantics (the specification side) -/

/-- Scalar SQL arithmetic on one row: NULL-strict; `x / 0` and `x % 0` are NULL; a result
outside the width is an ERROR (never a wrapped value, never a crash). -/
def specArith (op : ArithOp) (w : IW) (x y : Option Int) : KOut (Option Int) :=
  match x, y with
  | some a, some b =>
    match op with
    | .add => if w.fits (a + b) then .ok (some (a + b)) else .err
    | .sub => if w.fits (a - b) then .ok (some (a - b)) else .err
    | .mul => if w.fits (a * b) then .ok (some (a * b)) else .err
    | .div => if b = 0 then .ok none
              else if w.fits (Int.tdiv a b) then .ok (some (Int.tdiv a b)) else .err
    | .rem => if b = 0 then .ok none else .ok (some (Int.tmod a b))
  | _, _ => .ok none

def specCmp {α} (f : α → α → Bool) (x y : Option α) : Option Bool :=
  match x, y with
  | some a, some b => some (f a b)
  | _, _ => none

def specAnd : Option Bool → Option Bool → Option Bool
  | some false, _ => some false
  | _, some false => some false
  | some true, some true => some true
  | _, _ => none

def specOr : Option Bool → Option Bool → Option Bool
  | some true, _ => some true
  | _, some true => some true
  | some false, some false => some false
  | _, _ => none

def specNot : Option Bool → Option Bool
  | some b => some (!b)
  | none => none

/-- `CASE WHEN c THEN a ELSE b END`. -/
def specSelect {α} (c : Option Bool) (a b : Option α) : Option α :=
  match c with
  | some true => a
  | _ => b

def specNeg (w : IW) : Option Int → KOut (Option Int)
  | some a => if w.fits (-a) then .ok (some (-a)) else .err
  | none => .ok none

/-- Row-wise lifting of a scalar function over two columns (the spec of a binary kernel). -/
def rows2 {α β γ} (f : Option α → Option β → KOut (Option γ)) :
    List (Option α) → List (Option β) → KOut (List (Option γ))
  | x :: xs, y :: ys =>
    match f x y with
    | .ok c =>
      match rows2 f xs ys with
      | .ok r => .ok (c :: r)
      | .err => .err
      | .panic => .panic
    | .err => .err
    | .panic => .panic
  | [], [] => .ok []
  | _, _ => .panic

end RlModel
