import RlModel.Model.Scan
/-
Order behaviour of the plan operators that `analyze_order` (src/planner/rules/order.rs) makes a
claim about (C12).  Each operator is a function from its children's output rows (in order) to its
own output rows, describing the ORDER in which the executor emits rows:

  * rows are global-width (`Row`): every column of every table of the query has its own index, a
    scan fills its table's columns and leaves the others NULL, a join overlays the right row's
    columns (`mg l r`) - so a NULL-padded row of an outer join is the unpadded row itself;
  * `opOrder`/`opTopN`/`opLimit`/`opFilter`   executors of C12 (`Model/Scan.lean`);
  * `opSortAgg`    sort_agg.rs: one output row per run of consecutive rows with equal group keys
                   (represented, for the order keys, by the first row of the run);
  * `opMergeJoin`  merge_join.rs on inputs sorted by the join keys: key groups in ascending order,
                   a matched pair of groups left-row-major (`for l in lgroup: for r in rgroup`),
                   unmatched groups padded in place (left/right/full outer);
  * `opHashJoin`   hash_join.rs: probe phase in the order of the RIGHT input (per right row its
                   matching left rows, or the padded right row for right/full outer), then, for
                   left/full outer, the unmatched LEFT rows appended at the end.
That the executors compute these relations is C02/C11's subject; C12 uses them for order only.
The claims themselves are regenerated from the source: `Gen/OrderArms.lean`.
-/
namespace RlModel

inductive JT where
  | inner | leftOuter | rightOuter | fullOuter | semi | anti
  deriving DecidableEq, Repr

def opOrder (ks : List OrdKey) (rows : List Row) : List Row := sortL (keyCmp ks) rows
def opTopN (n : Option Nat) (m : Nat) (ks : List OrdKey) (rows : List Row) : List Row := limitRows n m (sortL (keyCmp ks) rows)
def opLimit (n : Option Nat) (m : Nat) (rows : List Row) : List Row := limitRows n m rows
def opFilter (p : Row → Bool) (rows : List Row) : List Row := rows.filter p
/-- projection and window functions add / drop columns, never rows, and keep their order -/
def opProj (rows : List Row) : List Row := rows
def opWindow (rows : List Row) : List Row := rows

/-- first element of every run of consecutive equivalent elements -/
def runHeads {α} (eqv : α → α → Bool) : Option α → List α → List α
  | _, [] => []
  | none, a :: t => a :: runHeads eqv (some a) t
  | some p, a :: t => if eqv p a then runHeads eqv (some p) t else a :: runHeads eqv (some a) t

def sameKeys (cols : List Nat) (a b : Row) : Bool := cols.all fun c => decide (Row.at a c = Row.at b c)

def opSortAgg (keys : List Nat) (rows : List Row) : List Row := runHeads (sameKeys keys) none rows

/-- runs of consecutive equivalent elements -/
def runs {α} (eqv : α → α → Bool) : List α → List (List α)
  | [] => []
  | a :: t =>
    match runs eqv t with
    | [] => [[a]]
    | [] :: gs => [a] :: gs
    | (b :: g) :: gs => if eqv a b then (a :: b :: g) :: gs else [a] :: (b :: g) :: gs

/-- join keys match: `lkey == rkey && !has_null_key(lkey)` (DataValue equality, NULL never matches) -/
def keysMatch (lk rk : List Nat) (l r : Row) : Bool :=
  (lk.zip rk).all fun (a, b) => !(Row.at l a).isNull && decide (Row.at l a = Row.at r b)

/-- overlay of a right row on a left row: the columns in `own` come from the right row -/
def mergeRow (width : Nat) (own : List Nat) (l r : Row) : Row :=
  (List.range width).map fun i => if own.contains i then Row.at r i else Row.at l i

/-- what a merge join emits for one key group `g` of its right input: the cross product with the
matching left rows, left-row-major; an unmatched group padded (right outer) or dropped (inner) -/
def mjBlock (pad : Bool) (mg : Row → Row → Row) (lk rk : List Nat) (L : List Row) (g : List Row) : List Row :=
  match L.filter (fun l => keysMatch lk rk l (g.headD [])) with
  | [] => if pad then g else []
  | ls => ls.flatMap fun l => g.map (mg l)

/-- merge_join.rs (inputs sorted by the join keys), `mg` = overlay of a matched pair -/
def opMergeJoin (t : JT) (mg : Row → Row → Row) (lk rk : List Nat) (L R : List Row) : List Row :=
  match t with
  | .leftOuter =>
    L.flatMap fun l =>
      match R.filter (keysMatch lk rk l) with
      | [] => [l]
      | ms => ms.map (mg l)
  | .inner => (runs (sameKeys rk) R).flatMap (mjBlock false mg lk rk L)
  | .rightOuter => (runs (sameKeys rk) R).flatMap (mjBlock true mg lk rk L)
  | _ =>
    -- full outer: key groups of both sides interleaved; no order is claimed for it, the
    -- interleaving is not modelled (matched / left-padded rows left-major, then right-padded)
    (L.flatMap fun l =>
      match R.filter (keysMatch lk rk l) with
      | [] => [l]
      | ms => ms.map (mg l)) ++ R.filter fun r => !(L.any fun l => keysMatch lk rk l r)

/-- hash_join.rs -/
def opHashJoin (t : JT) (mg : Row → Row → Row) (lk rk : List Nat) (L R : List Row) : List Row :=
  (R.flatMap fun r =>
    match L.filter (fun l => keysMatch lk rk l r) with
    | [] => if t = .rightOuter ∨ t = .fullOuter then [r] else []
    | ls => ls.map fun l => mg l r) ++
  (if t = .leftOuter ∨ t = .fullOuter then L.filter fun l => !(R.any fun r => keysMatch lk rk l r) else [])

end RlModel
