import RlModel.Model.Scan
/-
Line protocol shared by `drv_c12` and `drv_c13` (one request line = one case, one answer line).

request  (case ID (table NCOLS (primary c ...)) (ops OP ...) (snap rsid ...) (blocks (b rsid (n ...) ...) ...)
               (queries (q BOUND OPT) ...) (scans (s (cols c ...) RANGE SORTED) ...))
  OP     (ins (v ...) ...)            one INSERT statement = one row-set (tiny target_rowset_size)
         (del c v1 v2)                DELETE FROM t WHERE c = v1 OR c = v2
  plans  RisingLight plan s-expressions with constants in canonical value text, columns `$T.c`
  RANGE  none | (range LO HI), LO/HI = unb | (incl v) | (excl v)
answer   (lay (rs id (rowid v ...) ...) ...) (ans ...) ... (sc ...) ...
-/
namespace RlModel
namespace ScanDriver

def colOfAtom (s : String) : Option Nat :=
  if s.startsWith "$" then
    match (s.splitOn ".").getLast? with
    | some t => t.toNat?
    | none => none
  else none

def cmpOpOf : String → Option CmpOp
  | "=" => some .eq | ">" => some .gt | ">=" => some .ge | "<" => some .lt | "<=" => some .le
  | _ => none

partial def exprOf : Sexp → Expr
  | .atom a =>
    match colOfAtom a with
    | some c => .col c
    | none => match Val.ofCanon a with
      | some v => .const v
      | none => .other a
  | .list [.atom "and", a, b] => .and (exprOf a) (exprOf b)
  | .list [.atom "-", a] =>
    -- unary minus on an integer literal (the binder keeps `-2` as `(- 2)`; constant folding gives -2)
    match exprOf a with
    | .const (.i32 v) => .const (.i32 (-v))
    | .const (.i64 v) => .const (.i64 (-v))
    | _ => .other "neg"
  | .list [.atom op, a, b] =>
    match cmpOpOf op with
    | some o => .cmp o (exprOf a) (exprOf b)
    | none => .other op
  | s => .other (toString s)

def listItems : Sexp → Option (List Sexp)
  | .atom "list" => some []
  | .list (.atom "list" :: xs) => some xs
  | _ => none

def colsOf (s : Sexp) : Option (List Nat) := do
  let xs ← listItems s
  xs.mapM fun x => match x with
    | .atom a => colOfAtom a
    | _ => none

def keysOf (s : Sexp) : Option (List OrdKey) := do
  let xs ← listItems s
  xs.mapM fun x => match x with
    | .atom a => (colOfAtom a).map fun c => ⟨c, false⟩
    | .list [.atom "desc", .atom a] => (colOfAtom a).map fun c => ⟨c, true⟩
    | _ => none

/-- `null` ↦ absent, integer constant ↦ value -/
def limitOf : Sexp → Option (Option Nat)
  | .atom "null" => some none
  | .atom a => match Val.ofCanon a with
    | some v => match v.int? with
      | some i => if i ≥ 0 then some (some i.toNat) else none
      | none => none
    | none => none
  | _ => none

partial def planOf : Sexp → Option Plan
  | .list [.atom "scan", _, cols, f] => do
    let cs ← colsOf cols
    pure (.scan cs (exprOf f))
  | .list [.atom "filter", c, p] => do
    let p' ← planOf p
    pure (.filter (exprOf c) p')
  | .list [.atom "proj", es, p] => do
    let cs ← colsOf es
    let p' ← planOf p
    pure (.proj cs p')
  | .list [.atom "order", ks, p] => do
    let k ← keysOf ks
    let p' ← planOf p
    pure (.order k p')
  | .list [.atom "limit", n, m, p] => do
    let n' ← limitOf n
    let m' ← limitOf m
    let p' ← planOf p
    pure (.limit n' (m'.getD 0) p')
  | .list [.atom "empty", p] => do
    let p' ← planOf p
    pure (.empty p')
  | .list [.atom "topn", n, m, ks, p] => do
    let n' ← limitOf n
    let m' ← limitOf m
    let k ← keysOf ks
    let p' ← planOf p
    pure (.topn n' (m'.getD 0) k p')
  | _ => none

def valsOf (xs : List Sexp) : Option Row :=
  xs.mapM fun x => match x with
    | .atom a => Val.ofCanon a
    | _ => none

def natsOf (xs : List Sexp) : List Nat :=
  xs.filterMap fun x => match x with
    | .atom a => a.toNat?
    | _ => none

def bndOf : Sexp → Option Bnd
  | .atom "unb" => some .unb
  | .list [.atom "incl", .atom v] => (Val.ofCanon v).map .incl
  | .list [.atom "excl", .atom v] => (Val.ofCanon v).map .excl
  | _ => none

/-- the write history as `StoreOp`s (the model's `replayStore` is what the theorems are about) -/
def storeOpsOf (ops : List Sexp) : List StoreOp :=
  ops.filterMap fun op => match op with
    | .list (.atom "ins" :: rows) =>
      some (.ins (rows.filterMap fun r => match r with
        | .list vs => valsOf vs
        | _ => none))
    | .list [.atom "del", .atom c, .atom v1, .atom v2] =>
      match c.toNat?, Val.ofCanon v1, Val.ofCanon v2 with
      | some c', some a, some b => some (.del c' a b)
      | _, _, _ => none
    | .list [.atom "compact"] => some .compact
    | .list [.atom "delr", .atom c, lo, hi] =>
      match c.toNat?, bndOf lo, bndOf hi with
      | some c', some l, some h => some (.delRange c' ⟨l, h⟩)
      | _, _, _ => none
    | _ => none

def field (name : String) (xs : List Sexp) : Option (List Sexp) :=
  xs.findSome? fun x => match x with
    | .list (.atom h :: args) => if h == name then some args else none
    | _ => none

def showRow (r : Row) : String := "(" ++ " ".intercalate (r.map Val.canon) ++ ")"

def project (cols : List Nat) (r : Row) : Row := cols.map fun c => Row.at r c

def showRows (ks : List OrdKey) (cols : List Nat) (rows : List Row) : String :=
  " ".intercalate (rows.map fun r => "(" ++ showRow (project (ks.map (·.col)) r) ++ " " ++ showRow (project cols r) ++ ")")

def showOut (ks : List OrdKey) (cols : List Nat) : Out (List Row) → String
  | .ok rows => "(ok " ++ showRows ks cols rows ++ ")"
  | .panic s => "(panic " ++ s ++ ")"

def showLayout (lay : List RowSet) : String :=
  "(lay " ++ " ".intercalate (lay.map fun rs =>
    "(rs " ++ toString rs.id ++ " " ++ " ".intercalate ((rs.rows.zipIdx.filter fun (_, i) => !rs.dead.contains i).map fun (r, i) =>
      "(" ++ toString i ++ " " ++ " ".intercalate (r.map Val.canon) ++ ")") ++ ")") ++ ")"

def isI32 : Val → Bool
  | .i32 _ => true
  | _ => false

def bndVal : Bnd → Option Val
  | .unb => none
  | .incl v => some v
  | .excl v => some v

/-- the boundary hypothesis of `rowset_range_scan_exact` fails in some row-set -/
def dupAcrossBlocks (lay : List RowSet) (k : Nat) (r : KeyRange) : Bool :=
  -- relative to the KEY column's block index (for k ≠ 0 the mechanism is latent: it shows once
  -- start_rowid is repaired to read the key column)
  lay.any fun rs => !boundaryOk { rs with blocks := rs.blocks.set 0 (rs.blocks.getD k []) } k r

/-- Mechanisms of the implementation that can make `exec` differ from `spec` and are present in
this request (the check maps them to known-finding signatures). -/
def tagsOf (t : TableMeta) (lay : List RowSet) (bound opt : Plan) : List String :=
  let (cols, f) := scanOf opt
  -- (`order:pk-order-multi-rowset` is repaired: fix d36c2ac, keyed tables are read through the merging iterator)
  let t1 : List String := []
  -- (`topn:absent-limit` is repaired: fix ec313d4)
  let t2 : List String := []
  let t3 := match analyzeRange f, keyRangeOfFilter f with
    | some (k, _), some r =>
      let vals := (bndVal r.lo).toList ++ (bndVal r.hi).toList
      let keyVals := (concatScan lay).map fun row => Row.at row k
      (if vals.any Val.isNull then ["range:null-bound"] else []) ++
      (if !(vals.all fun v => isI32 v || v.isNull) || !(keyVals.all isI32) then ["range:key-type-not-i32"] else []) ++
      (if cols.head? != some k then ["range:key-not-first-scanned"] else []) ++
      (if k != 0 then ["range:key-not-col0"] else []) ++
      (if !t.primary.contains k then ["range:key-not-primary"] else []) ++
      (if dupAcrossBlocks lay k r then ["range:dup-keys-across-blocks"] else [])
    | _, _ => []
  -- a scan filter that is neither `true` nor a key range is silently ignored by the builder
  let t4 := match f with
    | .const (.bool true) => []
    | _ => if (keyRangeOfFilter f).isNone then ["range:scan-filter-not-range"] else []
  t1 ++ t2 ++ t4 ++ t3

/-! ### Counterfactual attribution

A mechanism tag is only *attributed* to a disagreement between `exec` and `spec` when repairing
exactly that mechanism (in the model) makes the disagreement disappear.  `Fixes` switches the
individual repairs on; `attribute` searches the smallest set of repairs of PRESENT mechanisms
after which the counterfactual execution equals the specification. -/

structure Fixes where
  maskKey : Bool := false     -- range:key-not-first-scanned: mask from the key column
  startKey : Bool := false    -- range:key-not-col0: start row from the key column's block index
  lenient : Bool := false     -- range:dup-keys-across-blocks: start at the last block whose first key is < begin
  typed : Bool := false       -- range:key-type-not-i32: bounds cast to the key's type, no start-row skipping for non-INT keys
  keepFilter : Bool := false  -- range:scan-filter-not-range: a non-range scan filter stays a filter
  merge : Bool := false       -- order:pk-order-multi-rowset: row-sets merged by the sort key
  topnCap : Bool := false     -- topn:absent-limit: no eager allocation

def castLike (like v : Val) : Val :=
  match v.int? with
  | some i => match like with
    | .i16 _ => .i16 i
    | .i32 _ => .i32 i
    | .i64 _ => .i64 i
    | _ => v
  | none => v

def castBnd (like : Val) : Bnd → Bnd
  | .unb => .unb
  | .incl v => .incl (castLike like v)
  | .excl v => .excl (castLike like v)

def swapCols (a b : Nat) (row : Row) : Row :=
  (row.set a (Row.at row b)).set b (Row.at row a)

def scanRowSetCF (fx : Fixes) (k : Nat) (rs : RowSet) (cols : List Nat) (r : KeyRange) : Out (List Row) :=
  let like := Row.at (rs.rows.headD []) k
  let r1 : KeyRange := if fx.typed then ⟨castBnd like r.lo, castBnd like r.hi⟩ else r
  let rsS : RowSet := if fx.startKey then
      { rs with rows := rs.rows.map (swapCols 0 k),
                blocks := (rs.blocks.set 0 (rs.blocks.getD k [])) }
    else rs
  let rStart : KeyRange := if fx.lenient then
      match r1.lo with
      | .incl (.i32 b) => ⟨.incl (.i32 (b - 1)), r1.hi⟩
      | _ => r1
    else r1
  let kc := if fx.startKey then 0 else 0
  let nonInt := !(keysI32 rsS kc) || !(bndI32 rStart.lo)
  let start : Out Nat := if fx.typed && nonInt then .ok 0 else startRowid rsS (some rStart)
  let fc := if fx.maskKey then k else cols.headD 0
  start.map fun s =>
    let tagged := rs.tagged.drop s
    scanBatches fc (some r1) (splitBatches (cutPoints rs cols) (tagged.length + 1) s tagged)

def execPlanCF (fx : Fixes) (t : TableMeta) (lay : List RowSet) : Plan → Out (List Row)
  | .scan cols f =>
    let per : Out (List (List Row)) := match analyzeRange f, keyRangeOfFilter f with
      | some (k, _), some r => collectOut (lay.map fun rs => scanRowSetCF fx k rs cols r)
      | _, _ => .ok (lay.map RowSet.visible)
    let rows : Out (List Row) := per.map fun ls =>
      if !t.primary.isEmpty then mergeK (keyCmp (ascKeys t.primary)) (totalLen ls) ls else ls.flatten
    rows.map fun rs =>
      match f with
      | .const (.bool true) => rs
      | _ => if fx.keepFilter && (keyRangeOfFilter f).isNone then rs.filter (keepRow f) else rs
  | .filter c p => (execPlanCF fx t lay p).map fun rows => rows.filter (keepRow c)
  | .proj _ p => execPlanCF fx t lay p
  | .order ks p => (execPlanCF fx t lay p).map fun rows => sortL (keyCmp ks) rows
  | .limit n m p => (execPlanCF fx t lay p).map fun rows => limitExec n m [rows]
  | .topn n m ks p => (execPlanCF fx t lay p).bind fun rows =>
      topnExec (keyCmp ks) n m rows
  | .empty _ => .ok []

def fixOf (fx : Fixes) : String → Fixes
  | "range:key-not-first-scanned" => { fx with maskKey := true }
  | "range:key-not-col0" => { fx with startKey := true }
  | "range:dup-keys-across-blocks" => { fx with lenient := true }
  | "range:key-type-not-i32" => { fx with typed := true }
  | "range:scan-filter-not-range" => { fx with keepFilter := true }
  | "order:pk-order-multi-rowset" => { fx with merge := true }
  | "topn:absent-limit" => { fx with topnCap := true }
  | _ => fx

def sublistsUpTo {α} : Nat → List α → List (List α)
  | _, [] => [[]]
  | n, x :: xs =>
    let without := sublistsUpTo n xs
    let withx := (sublistsUpTo n xs).map (x :: ·)
    without ++ withx.filter (·.length ≤ n)

/-- same result as the specification: same key sequence and same bag of projected rows -/
def sameResult (ks : List OrdKey) (cols : List Nat) (a b : List Row) : Bool :=
  let keyOf := fun r => (project (ks.map (·.col)) r).map Val.canon
  let rowOf := fun r => " ".intercalate ((project cols r).map Val.canon)
  a.map keyOf == b.map keyOf &&
    sortBy (fun (x y : String) => compare x y) (a.map rowOf) == sortBy (fun (x y : String) => compare x y) (b.map rowOf)

/-- smallest set of present mechanisms whose repair makes exec = spec (`none`: no such set) -/
def attributeTags (t : TableMeta) (lay : List RowSet) (ks : List OrdKey) (cols : List Nat) (opt : Plan)
    (spec : List Row) (tags : List String) : Option (List String) :=
  let cands := (sublistsUpTo 3 tags).filter (!·.isEmpty)
  let sorted := sortBy (fun (a b : List String) => compare a.length b.length) cands
  sorted.find? fun sub =>
    match execPlanCF (sub.foldl fixOf {}) t lay opt with
    | .ok rows => sameResult ks cols rows spec
    | .panic _ => false

def answerQuery (t : TableMeta) (lay : List RowSet) (q : Sexp) : String :=
  match q with
  | .list [.atom "q", b, o] =>
    match planOf b, planOf o with
    | some bp, some op =>
      if !(bp.supported && op.supported) then "(ans unsupported)"
      else
        let ks := sortKeysOf bp
        let spec := specPlan lay bp
        let exec := execPlan t lay op
        let execB := execPlan t lay bp
        "(ans ok (keys " ++ toString ks.length ++ ") (limited " ++ toString (hasLimit bp) ++ ") (exec " ++ showOut ks (outCols op) exec ++
          ") (execb " ++ showOut ks (outCols bp) execB ++ ") (spec " ++ showOut ks (outCols bp) (.ok spec) ++
          ") (sorted " ++ toString (hasSort op) ++ ") (pushed " ++ toString (keyRangeOfFilter (scanOf op).2).isSome ++
          ") (tags " ++ " ".intercalate (tagsOf t lay bp op) ++
          ") (attr " ++ (match attributeTags t lay ks (outCols op) op spec (tagsOf t lay bp op) with
            | some sub => " ".intercalate sub
            | none => "none") ++ "))"
    | _, _ => "(ans unsupported)"
  | _ => "(ans bad-request)"

/-- storage-level request: `Transaction::scan(cols, filter, sorted)` -/
def answerScan (t : TableMeta) (ncols : Nat) (lay0 : List RowSet) (s0 : Sexp) : String :=
  -- a scan list with the row-handler column: the handler is column `ncols` of the extended rows
  let (s, h) : Sexp × Nat := match s0 with
    | .list [a, b, c, d, .atom hh] => (.list [a, b, c, d], (hh.toNat?).getD 0)
    | x => (x, 0)
  let lay := if h == 0 then lay0 else lay0.map (withHandler ncols)
  match s with
  | .list [.atom "s", .list (.atom "cols" :: cs), rg, .atom sorted] =>
    let cols := if h == 1 then natsOf cs ++ [ncols] else if h == 2 then ncols :: natsOf cs else natsOf cs
    let range : Option (Option KeyRange) := match rg with
      | .atom "none" => some none
      | .list [.atom "range", lo, hi] => match bndOf lo, bndOf hi with
        | some l, some h => some (some ⟨l, h⟩)
        | _, _ => none
      | _ => none
    match range with
    | none => "(sc bad-request)"
    | some r =>
      let exec : Out (List Row) :=
        if sorted == "true" && lay.length != 1 && !t.primary.isEmpty then
          -- MergeIterator over the per-row-set iterators (each already range filtered)
          -- the real heap (Model/Heap.lean), child iterators as chunk lists: tie order included
          (collectOut (lay.map fun rs => scanRowSetC rs cols r)).map fun streams =>
            mergeHeap (keyCmp (ascKeys t.primary)) (streams.map fun st => st.filter (!·.isEmpty))
        else scanTable lay cols r
      let full := concatScan lay
      let fc := cols.headD 0
      let kc := t.primary.headD fc
      let spec := match r with
        | none => full
        | some rg => full.filter fun row => sqlInRange rg (Row.at row kc)
      let tags : List String := match r, t.primary.head? with
        | some rg, some k =>
          let vals := (bndVal rg.lo).toList ++ (bndVal rg.hi).toList
          let keyVals := full.map fun row => Row.at row k
          (if vals.any Val.isNull then ["range:null-bound"] else []) ++
          (if !(vals.all fun v => isI32 v || v.isNull) || !(keyVals.all isI32) then ["range:key-type-not-i32"] else []) ++
          (if cols.head? != some k then ["range:key-not-first-scanned"] else []) ++
          (if k != 0 then ["range:key-not-col0"] else []) ++
          (if dupAcrossBlocks lay k rg then ["range:dup-keys-across-blocks"] else [])
        | some _, none => ["range:no-sort-key"]
        | none, _ => []
      let attr : Option (List String) := match r, t.primary.head? with
        | some rg, some k =>
          let cands := sortBy (fun (a b : List String) => compare a.length b.length) ((sublistsUpTo 3 tags).filter (!·.isEmpty))
          cands.find? fun sub =>
            match collectOut (lay.map fun rs => scanRowSetCF (sub.foldl fixOf {}) k rs cols rg) with
            | .ok ls => sameResult [] cols ls.flatten spec
            | .panic _ => false
        | _, _ => none
      "(sc (exec " ++ showOut (ascKeys t.primary) cols exec ++ ") (spec " ++ showOut (ascKeys t.primary) cols (.ok spec) ++
        ") (tags " ++ " ".intercalate tags ++ ") (attr " ++ (match attr with
            | some sub => " ".intercalate sub
            | none => "none") ++ "))"
  | _ => "(sc bad-request)"

/-! ### Small-domain search on the model (used by the checks to look for a concrete input on
which the PROPERTY fails; every hit is replayed on the implementation) -/

/-- sorted key lists over {0,1,2} of length 1..n -/
def sortedKeyLists : Nat → List (List Int)
  | 0 => []
  | n + 1 =>
    let shorter := sortedKeyLists n
    let exact := (shorter.filter (·.length == n)) ++ (if n == 0 then [[]] else [])
    shorter ++ (exact.flatMap fun l => ([0, 1, 2] : List Int).filterMap fun v =>
      if l.all (· ≤ v) then some (l ++ [v]) else none)

def mkRowSet (ncols k : Nat) (id : Nat) (keys : List Int) (flat : Bool := false) : RowSet :=
  let rows := keys.zipIdx.map fun (v, i) =>
    (List.range ncols).map fun c => if c == k then Val.i32 v else Val.i32 (if flat then 0 else 7 - (i : Int) - 3 * (id : Int))
  let counts := (List.range ((keys.length + 1) / 2)).map fun b => if 2 * b + 2 ≤ keys.length then 2 else 1
  { id := id, rows := rows, dead := [], blocks := (List.range ncols).map fun _ => counts }

def layoutsUpTo (ncols k : Nat) (flat : Bool := false) : List (List RowSet) :=
  let big := (sortedKeyLists 4).filter (!·.isEmpty)
  let small := (sortedKeyLists 2).filter (!·.isEmpty)
  (big.map fun a => [mkRowSet ncols k 0 a flat]) ++
  (big.flatMap fun a => big.map fun b => [mkRowSet ncols k 0 a flat, mkRowSet ncols k 1 b flat]) ++
  (small.flatMap fun a => small.flatMap fun b => small.map fun c => [mkRowSet ncols k 0 a flat, mkRowSet ncols k 1 b flat, mkRowSet ncols k 2 c flat])

def allBnds : List Bnd :=
  [.unb] ++ ([0, 1, 2] : List Int).flatMap fun v => [.incl (.i32 v), .excl (.i32 v)]

def showBnd : Bnd → String
  | .unb => "unb"
  | .incl v => "(incl " ++ v.canon ++ ")"
  | .excl v => "(excl " ++ v.canon ++ ")"

def showLay (k : Nat) (lay : List RowSet) : String :=
  " ".intercalate (lay.map fun rs => "(" ++ " ".intercalate (rs.rows.map fun r => "(" ++ " ".intercalate (r.map Val.canon) ++ ")") ++ ")")

structure Hit where
  attr : String
  size : Nat
  text : String

def addHit (hits : List Hit) (h : Hit) : List Hit :=
  match hits.find? (·.attr == h.attr) with
  | some old => if h.size < old.size then h :: hits.filter (·.attr != h.attr) else hits
  | none => h :: hits

/-- C13: every table shape (1-2 columns, key anywhere), scan list, layout and range of the small
domain; the property is `scan(cols, r) = filter(scan(cols), r on the key)` -/
def searchC13 : List Hit × Nat × Nat := Id.run do
  let mut hits : List Hit := []
  let mut n := 0
  let mut bad := 0
  -- storage precondition (what the planner's `rangeGuard` admits): key = column 0 = first scanned
  for (ncols, k, cols, flat) in ([(1, 0, [0], false), (2, 0, [0, 1], false), (2, 0, [0, 1], true), (2, 0, [0], false)] : List (Nat × Nat × List Nat × Bool)) do
    for lay in layoutsUpTo ncols k flat do
      let full := concatScan lay
      for lo in allBnds do
        for hi in allBnds do
          let rg : KeyRange := ⟨lo, hi⟩
          n := n + 1
          let spec := full.filter fun row => sqlInRange rg (Row.at row k)
          let exec := scanTable lay cols (some rg)
          let ok := match exec with
            | .ok rows => sameResult [] cols rows spec
            | .panic _ => sameResult [] cols [] spec
          if !ok then
            bad := bad + 1
            let tags := (if cols.head? != some k then ["range:key-not-first-scanned"] else []) ++
              (if k != 0 then ["range:key-not-col0"] else []) ++
              (if dupAcrossBlocks lay k rg then ["range:dup-keys-across-blocks"] else [])
            let cands := sortBy (fun (a b : List String) => compare a.length b.length) ((sublistsUpTo 3 tags).filter (!·.isEmpty))
            let attr := cands.find? fun sub =>
              match collectOut (lay.map fun rs => scanRowSetCF (sub.foldl fixOf {}) k rs cols rg) with
              | .ok ls => sameResult [] cols ls.flatten spec
              | .panic _ => false
            let a := match attr with
              | some sub => " ".intercalate sub
              | none => "none"
            let size := full.length + lay.length + ncols
            hits := addHit hits ⟨a, size, "(found c13 (attr " ++ a ++ ") (ncols " ++ toString ncols ++ ") (key " ++ toString k ++
              ") (cols " ++ " ".intercalate (cols.map toString) ++ ") (range " ++ showBnd lo ++ " " ++ showBnd hi ++ ") (rowsets " ++ showLay k lay ++ "))"⟩
  return (hits, n, bad)

def permsOf {α} : List α → List (List α)
  | [] => [[]]
  | [a] => [[a]]
  | [a, b] => [[a, b], [b, a]]
  | [a, b, c] => [[a, b, c], [a, c, b], [b, a, c], [b, c, a], [c, a, b], [c, b, a]]
  | l => [l]

/-- C12: `SELECT key FROM t ORDER BY key [DESC] [LIMIT n] [OFFSET m]` over every small layout of
keyed and unkeyed one/two-column tables, planned the way the optimizer does (`limit-order-topn`
first, then `useless-order` when `is_orderby`); the property is "sorted permutation, then slice" -/
def searchC12 : List Hit × Nat × Nat := Id.run do
  let mut hits : List Hit := []
  let mut n := 0
  let mut bad := 0
  for (ncols, k, keyed) in ([(1, 0, true), (1, 0, false), (2, 1, true), (2, 0, true)] : List (Nat × Nat × Bool)) do
    let t : TableMeta := { primary := if keyed then [k] else [], sortedByPk := true }
    for lay0 in layoutsUpTo ncols k do
      -- unkeyed tables keep insertion order: reverse the rows so that row-sets are not sorted
      let lay := if keyed then lay0 else lay0.map fun rs => { rs with rows := rs.rows.reverse }
      for desc in [false, true] do
        for (lim, off) in ([(none, 0), (some 1, 0), (none, 1), (some 2, 1)] : List (Option Nat × Nat)) do
          n := n + 1
          let ks : List OrdKey := [⟨k, desc⟩]
          let scanAll : Plan := .scan (List.range ncols) (.const (.bool true))
          let bound : Plan := .limit lim off (.proj [k] (.order ks scanAll))
          let scanK : Plan := .scan [k] (.const (.bool true))
          let opt : Plan :=
            if lim.isSome || off != 0 then .topn lim off ks scanK
            else if isOrderBy t ks scanK then scanK else .order ks scanK
          let spec := specPlan lay bound
          -- the snapshot iterates its row-sets in hash-set order: a robust witness must fail for
          -- EVERY order of the row-sets (a panicking executor task = a statement with no rows)
          let okFor := fun (l : List RowSet) => match execPlan t l opt with
            | .ok rows => sameResult ks [k] rows spec
            | .panic _ => sameResult ks [k] [] spec
          let ok := (permsOf lay).any okFor
          if !ok then
            bad := bad + 1
            let tags := tagsOf t lay bound opt
            let a := match attributeTags t lay ks [k] opt spec tags with
              | some sub => " ".intercalate sub
              | none => "none"
            let size := (concatScan lay).length + lay.length + ncols
            hits := addHit hits ⟨a, size, "(found c12 (attr " ++ a ++ ") (ncols " ++ toString ncols ++ ") (key " ++ toString k ++
              ") (keyed " ++ toString keyed ++ ") (desc " ++ toString desc ++ ") (limit " ++ (match lim with | some x => toString x | none => "none") ++
              ") (offset " ++ toString off ++ ") (rowsets " ++ showLay k lay ++ "))"⟩
  return (hits, n, bad)

def searchAnswer (which : String) : String :=
  let (hits, n, bad) := if which == "c13" then searchC13 else searchC12
  "(search " ++ which ++ " (enumerated " ++ toString n ++ ") (failing " ++ toString bad ++ ") " ++ " ".intercalate (hits.map (·.text)) ++ ")"

def attachBlocks (blocks : List Sexp) (rs : RowSet) : RowSet :=
  let mine := blocks.findSome? fun b => match b with
    | .list (.atom "b" :: .atom id :: cols) => if id.toNat? == some rs.id then some cols else none
    | _ => none
  match mine with
  | some cols => { rs with blocks := cols.map fun c => match c with
      | .list xs => natsOf xs
      | _ => [] }
  | none => rs

def answer (line : String) : String :=
  match Sexp.parse line with
  | some (.list [.atom "search", .atom which]) => searchAnswer which
  | some (.list (.atom "case" :: .atom id :: rest)) =>
    match field "table" rest, field "ops" rest, field "snap" rest, field "queries" rest with
    | some tb, some ops, some snap, some qs =>
      let primary := match field "primary" tb with
        | some xs => natsOf xs
        | none => []
      let intCols := match field "int" tb with
        | some xs => natsOf xs
        | none => []
      let t : TableMeta := { primary := primary, sortedByPk := true, intCols := intCols }
      let ncolsT : Nat := match tb with
        | .atom n :: _ => n.toNat?.getD 0
        | _ => 0
      let all := (replayStore primary (storeOpsOf ops)).1.map (attachBlocks ((field "blocks" rest).getD []))
      let lay := (natsOf snap).filterMap fun i => all.find? (·.id == i)
      let scans := (field "scans" rest).getD []
      "(case " ++ id ++ " " ++ showLayout lay ++ " " ++ " ".intercalate (qs.map (answerQuery t lay)) ++
        " " ++ " ".intercalate (scans.map (answerScan t ncolsT lay)) ++ ")"
    | _, _, _, _ => "(case " ++ id ++ " bad-request)"
  | _ => "bad-request"

partial def loop (h : IO.FS.Stream) : IO Unit := do
  let line ← h.getLine
  if line.isEmpty then return ()
  if line.trimAscii.toString.isEmpty then loop h
  else
    IO.println (answer line)
    loop h

end ScanDriver
end RlModel
