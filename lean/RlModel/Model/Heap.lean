import RlModel.Gen.MergeHeap
/-
Array-embedded binary heaps as RisingLight uses them (C12):
  * `MergeIterator` (src/storage/secondary/merge_iterator.rs): its own min-heap over
    `(iter_id, row_idx)` with `add_pending_data` (push + sift up while the parent is Greater),
    `replace_pending_data` (overwrite the root, sift down: pick the right child only when the left is
    Greater, stop when the element is Less or Equal to the selected child) and `pop_pending_data`
    (move the last element to the root, sift down).
  * `TopNExecutor` (src/executor/top_n.rs): `binary_heap_plus::BinaryHeap` with the comparator of
    the ORDER BY keys (a max-heap: the root is the greatest kept row, popped when the heap exceeds
    offset+limit), then `into_sorted_vec`.
Index arithmetic is exactly the code's: parent (i-1)/2, children 2i+1, 2i+2.  Core Lean only.
-/
namespace RlModel

variable {β : Type}

/-- swap positions i and j (no-op when out of range) -/
def swapAt (h : List β) (i j : Nat) : List β :=
  match h[i]?, h[j]? with
  | some a, some b => (h.set i b).set j a
  | _, _ => h

/-- `add_pending_data`'s loop: while the parent is Greater than the element, swap them. -/
def siftUp (cmp : β → β → Ordering) (h : List β) (i : Nat) : List β :=
  if hi : i = 0 then h
  else
    match h[(i - 1) / 2]?, h[i]? with
    | some a, some b => if cmp a b == .gt then siftUp cmp (swapAt h ((i - 1) / 2) i) ((i - 1) / 2) else h
    | _, _ => h
termination_by i
decreasing_by omega

/-- the child to compare with: the left one, the right one only when the left is Greater -/
def selChild (cmp : β → β → Ordering) (h : List β) (i : Nat) (l : β) : Nat :=
  match h[2 * i + 2]? with
  | some r => if cmp l r == .gt then 2 * i + 2 else 2 * i + 1
  | none => 2 * i + 1

/-- `replace_pending_data`'s loop from position `i`. -/
def siftDown (cmp : β → β → Ordering) : Nat → List β → Nat → List β
  | 0, h, _ => h
  | fuel + 1, h, i =>
    match h[i]?, h[2 * i + 1]? with
    | some x, some l =>
      let sel : Nat := selChild cmp h i l
      match h[sel]? with
      | some c => if cmp x c == .gt then siftDown cmp fuel (swapAt h i sel) sel else h
      | none => h
    | _, _ => h

def heapPush (cmp : β → β → Ordering) (h : List β) (x : β) : List β := siftUp cmp (h ++ [x]) h.length

/-- overwrite the root and restore the heap (`replace_pending_data`) -/
def heapReplaceRoot (cmp : β → β → Ordering) (h : List β) (x : β) : List β := siftDown cmp h.length (h.set 0 x) 0

/-- `pop_pending_data`: remove the root; the last element takes its place and sifts down -/
def heapPop (cmp : β → β → Ordering) (h : List β) : Option (β × List β) :=
  match h with
  | [] => none
  | r :: _ =>
    match h.getLast? with
    | none => none
    | some last =>
      let h' := h.dropLast
      if h'.isEmpty then some (last, []) else some (r, heapReplaceRoot cmp h' last)

/-! ## MergeIterator -/

/-- `replace_pending_data`'s loop with the loop bounds and child indices exactly as they are
written in the source: `Gen/MergeHeap.lean` is regenerated from merge_iterator.rs on every run.
(`siftDown` above is the reference formulation the invariant proofs are about; theorem
`merge_heap_bounds` + `siftDownSrc_eq` tie the two.) -/
def selChildSrc (cmp : β → β → Ordering) (h : List β) (i : Nat) (l : β) : Nat :=
  if Gen.mergeRightOk (Gen.mergeRightIdx i) h.length then
    match h[Gen.mergeRightIdx i]? with
    | some r => if cmp l r == .gt then Gen.mergeRightIdx i else Gen.mergeLeftIdx i
    | none => Gen.mergeLeftIdx i
  else Gen.mergeLeftIdx i

def siftDownSrc (cmp : β → β → Ordering) : Nat → List β → Nat → List β
  | 0, h, _ => h
  | fuel + 1, h, i =>
    let len := h.length
    let left := Gen.mergeLeftIdx i
    if Gen.mergeLeftStop left len then h
    else
      match h[i]?, h[left]? with
      | some x, some l =>
        let sel : Nat := selChildSrc cmp h i l
        match h[sel]? with
        | some c => if cmp x c == .gt then siftDownSrc cmp fuel (swapAt h i sel) sel else h
        | none => h
      | _, _ => h

/-- `replace_pending_data` -/
def mergeReplaceRoot (cmp : β → β → Ordering) (h : List β) (x : β) : List β := siftDownSrc cmp h.length (h.set 0 x) 0

/-- `pop_pending_data` -/
def mergePop (cmp : β → β → Ordering) (h : List β) : Option (β × List β) :=
  match h with
  | [] => none
  | r :: _ =>
    match h.getLast? with
    | none => none
    | some last =>
      let h' := h.dropLast
      if h'.isEmpty then some (last, []) else some (r, mergeReplaceRoot cmp h' last)

/-- One child iterator as the heap sees it: the row currently in the heap, the rest of the
buffered chunk, the chunks not yet fetched. -/
structure MEntry (α : Type) where
  id : Nat
  v : α
  buf : List α
  rest : List (List α)
  deriving DecidableEq, Repr

def MEntry.items {α} (e : MEntry α) : List α := e.v :: e.buf ++ e.rest.flatten

/-- `request_fill_buffer` + `next_visible_item(idx, None)`: the next chunk with a visible row -/
def loadEntry {α} (id : Nat) : List (List α) → Option (MEntry α)
  | [] => none
  | [] :: cs => loadEntry id cs
  | (y :: ys) :: cs => some ⟨id, y, ys, cs⟩

def entryCmp {α} (cmp : α → α → Ordering) (a b : MEntry α) : Ordering := cmp a.v b.v

/-- the first `next_batch`: every child iterator is asked for a chunk, in index order -/
def mergeInit {α} (cmp : α → α → Ordering) : Nat → List (List (List α)) → List (MEntry α) → List (MEntry α)
  | _, [], h => h
  | i, s :: ss, h =>
    match loadEntry i s with
    | some e => mergeInit cmp (i + 1) ss (heapPush (entryCmp cmp) h e)
    | none => mergeInit cmp (i + 1) ss h

/-- one row of `next_batch`'s loop: emit the root; if its chunk has another visible row the root
is replaced and sifted down, otherwise the root is popped and (at the start of the next call,
before anything else touches the heap) its iterator's next chunk is pushed -/
def mergeStep {α} (cmp : α → α → Ordering) (h : List (MEntry α)) : Option (α × List (MEntry α)) :=
  match h with
  | [] => none
  | e :: _ =>
    match e.buf with
    | x :: xs => some (e.v, mergeReplaceRoot (entryCmp cmp) h { e with v := x, buf := xs })
    | [] =>
      match mergePop (entryCmp cmp) h with
      | none => none
      | some (_, h') =>
        match loadEntry e.id e.rest with
        | some e' => some (e.v, heapPush (entryCmp cmp) h' e')
        | none => some (e.v, h')

def mergeHeapLoop {α} (cmp : α → α → Ordering) : Nat → List (MEntry α) → List α
  | 0, _ => []
  | fuel + 1, h =>
    match mergeStep cmp h with
    | none => []
    | some (x, h') => x :: mergeHeapLoop cmp fuel h'

/-- MergeIterator over child iterators given as lists of chunks -/
def mergeHeap {α} (cmp : α → α → Ordering) (streams : List (List (List α))) : List α :=
  mergeHeapLoop cmp ((streams.map fun s => s.flatten.length).sum) (mergeInit cmp 0 streams [])

/-! ## TopN -/

/-- the bounded max-heap of top_n.rs: push, then pop the greatest when over capacity -/
def topnHeapState {α} (cmp : α → α → Ordering) (cap : Nat) (xs : List α) : List α :=
  xs.foldl (fun h x =>
    let h1 := heapPush (fun a b => cmp b a) h x
    if h1.length > cap then
      match heapPop (fun a b => cmp b a) h1 with
      | some (_, h2) => h2
      | none => h1
    else h1) []

/-- `into_sorted_vec`: pop the greatest repeatedly, filling the result from the back -/
def heapDrain {α} (cmp : α → α → Ordering) : Nat → List α → List α
  | 0, _ => []
  | fuel + 1, h =>
    match heapPop cmp h with
    | none => []
    | some (r, h') => r :: heapDrain cmp fuel h'

end RlModel
