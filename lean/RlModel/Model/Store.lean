import RlModel.Model.Val
/-
L8 (sequential): model of RisingLight's secondary (on-disk) storage engine as a state machine,
plus the in-memory engine and the common specification (a map table-name ↦ schema × bag of rows).

Modelled code (src/storage/secondary): manifest.rs (records, `replay` with Begin/End bracketing,
`append`), version_manager.rs (`Snapshot` add/delete, `commit_changes`, `rewrite_changes`,
`find_vacuum`/`do_vacuum`), storage.rs (`bootstrap`: replay + id re-derivation through the
id-allocating catalog + directory vacuum + open row-sets/DVs + manifest rewrite), transaction.rs
(`append_inner`/`flush_rowset`/`commit_inner`: one row-set per flush, one DV per touched row-set,
one manifest txn), compactor.rs (`compact_table`), delete_vector.rs (`apply_to`), row_handler.rs,
rowset/mem_rowset.rs (sorted memtable for keyed tables), executor/{insert,delete,drop}.rs,
catalog/schema.rs (ONE `next_id` counter shared by tables, views and indexes), and
src/storage/memory (list of chunks + set of deleted global row indices).

Sets / maps of the implementation (`HashSet`, `HashMap`) are duplicate-free lists here; the
*same* list functions (`setInsert`, `setRemove`) are used for the snapshot and for bootstrap's
`rowsets_to_open` / `dvs_to_open`, as both are hash sets in the code.  Iteration order of those
sets is never observable in what the checks compare.

Core Lean only (drivers link as `lean_exe`).  Concurrency (pins, epochs) is Model/StoreConc.lean,
crash points Model/StoreCrash.lean; this file is the sequential semantics they refine.
-/
namespace RlModel

/-! ### Schemas -/

structure ColDesc where
  name : String
  ty : String          -- display text of the DataType (`INT`, `BIGINT`, `STRING`, `BOOLEAN`, …)
  notNull : Bool
  pk : Bool            -- `ColumnDesc.is_primary` (column-level PRIMARY KEY): the sort key
  deriving DecidableEq, Repr, Inhabited

/-- `CreateTableEntry` (schema id is always 1 = `postgres` in the modelled fragment). -/
structure TableDef where
  name : String
  cols : List ColDesc
  deriving DecidableEq, Repr, Inhabited

def sortKeyFrom : Nat → List ColDesc → List Nat
  | _, [] => []
  | i, c :: cs => if c.pk then i :: sortKeyFrom (i + 1) cs else sortKeyFrom (i + 1) cs

/-- `find_sort_key_id`: indices of the columns flagged primary. -/
def TableDef.sortKey (d : TableDef) : List Nat := sortKeyFrom 0 d.cols

/-! ### Keys, sorting, merging -/

def keyOf (k : List Nat) (r : Row) : Row := k.map fun i => r.getD i Val.null

/-- `Vec<ComparableDataValue>` order on the key projection. -/
def keyLe (k : List Nat) (a b : Row) : Bool := rowCmp (keyOf k a) (keyOf k b) != .gt

/-- stable insertion: `x` goes before the first element that is not smaller than it … -/
def insertStable (le : Row → Row → Bool) (x : Row) : List Row → List Row
  | [] => [x]
  | y :: ys => if le x y then x :: y :: ys else y :: insertStable le x ys

/-- … so that equal keys keep insertion order (what `BTreeMultiMap` does). -/
def sortStable (le : Row → Row → Bool) : List Row → List Row
  | [] => []
  | x :: xs => insertStable le x (sortStable le xs)

def merge2 (le : Row → Row → Bool) : List Row → List Row → List Row
  | [], ys => ys
  | xs, [] => xs
  | x :: xs, y :: ys =>
      if le x y then x :: merge2 le xs (y :: ys) else y :: merge2 le (x :: xs) ys
termination_by xs ys => xs.length + ys.length

/-- k-way merge of the compactor's `MergeIterator` (order among equal keys is not specified by
the implementation and never compared). -/
def mergeAll (le : Row → Row → Bool) : List (List Row) → List Row
  | [] => []
  | xs :: rest => merge2 le xs (mergeAll le rest)

inductive SortedBy (le : Row → Row → Bool) : List Row → Prop
  | nil : SortedBy le []
  | single (a) : SortedBy le [a]
  | cons (a b l) : le a b = true → SortedBy le (b :: l) → SortedBy le (a :: b :: l)

/-! ### Row handlers (row_handler.rs) -/

/-- two's-complement reading of a 64-bit pattern as `i64`. -/
def wrapI64 (n : Nat) : Int :=
  let m := n % 2 ^ 64
  if m < 2 ^ 63 then Int.ofNat m else Int.ofNat m - 2 ^ 64

/-- `From<SecondaryRowHandler> for i64`: `((rowset_id as i64) << 32) | (row_id as i64)` for two
`u32`s (the shift wraps into the sign bit for `rowset_id ≥ 2^31`). -/
def encodeHandler (rs row : Nat) : Int := wrapI64 (rs * 2 ^ 32 + row)

/-- `From<i64> for SecondaryRowHandler`; `none` = the `assert!(data >= 0)` fires. -/
def decodeHandler (h : Int) : Option (Nat × Nat) :=
  if h < 0 then none else some (h.toNat / 2 ^ 32 % 2 ^ 32, h.toNat % 2 ^ 32)

/-! ### Delete vectors (delete_vector.rs) -/

def insertNat (x : Nat) : List Nat → List Nat
  | [] => [x]
  | y :: ys => if x < y then x :: y :: ys else if x = y then y :: ys else y :: insertNat x ys

/-- `sort_unstable(); dedup()` -/
def sortDedup : List Nat → List Nat
  | [] => []
  | x :: xs => insertNat x (sortDedup xs)

/-- the loop of `apply_to` after `partition_point`: `it` is the remaining sorted ids. -/
def applyLoop : List Nat → Nat → List Bool → List Bool
  | _, _, [] => []
  | [], _, bits => bits
  | d :: ds, row, b :: bits =>
      if d = row then false :: applyLoop ds (row + 1) bits else b :: applyLoop (d :: ds) (row + 1) bits

/-- `DeleteVector::apply_to(data, offset_row_id)` -/
def dvApplyTo (deletes : List Nat) (off : Nat) (bits : List Bool) : List Bool :=
  applyLoop (deletes.dropWhile (· < off)) off bits

/-- `StorageChunk::construct(visibility_map, arrays)` seen row-wise: keep the rows whose bit is set -/
def pickBits : Nat → List Row → List Bool → List (Nat × Row)
  | i, r :: rs, b :: bs => if b then (i, r) :: pickBits (i + 1) rs bs else pickBits (i + 1) rs bs
  | _, _, _ => []

/-- one `next_batch_inner` of `RowSetIterator` w.r.t. visibility: all DVs applied to an all-true
bitmap of the batch, rows selected. -/
def batchVisible (dvs : List (List Nat)) (off : Nat) (batch : List Row) : List (Nat × Row) :=
  pickBits off batch (dvs.foldl (fun bm dv => dvApplyTo dv off bm) (batch.map fun _ => true))

/-- scan of one row-set cut into batches of the given sizes (any sizes: block boundaries,
`ROWSET_MAX_OUTPUT`, `expected_size`); a trailing remainder is one more batch. -/
def scanBatches (dvs : List (List Nat)) : Nat → List Nat → List Row → List (Nat × Row)
  | off, _, [] => batchVisible dvs off []
  | off, [], rows => batchVisible dvs off rows
  | off, n :: ns, rows =>
      if n = 0 then batchVisible dvs off rows
      else batchVisible dvs off (rows.take n) ++ scanBatches dvs (off + n) ns (rows.drop n)
termination_by _ ns _ => ns.length

/-- Specification of a row-set scan: positions and rows not deleted by any DV. -/
def visFrom (dead : Nat → Bool) : Nat → List Row → List (Nat × Row)
  | _, [] => []
  | i, r :: rs => if dead i then visFrom dead (i + 1) rs else (i, r) :: visFrom dead (i + 1) rs

def deadIn (dvs : List (List Nat)) (i : Nat) : Bool := dvs.any fun dv => dv.contains i

/-! ### Manifest (manifest.rs) -/

inductive Rec where
  | begin | end_
  | createTable (d : TableDef)
  | dropTable (tid : Nat)
  | addRowSet (tid rs : Nat)
  | delRowSet (tid rs : Nat)
  | addDV (tid rs dv : Nat)
  | delDV (tid rs dv : Nat)
  deriving DecidableEq, Repr, Inhabited

structure RState where
  inTxn : Bool := false
  buf : List Rec := []
  ops : List Rec := []
  deriving Repr

/-- one iteration of the loop in `Manifest::replay` (note: `Begin` does not clear `buffered_ops`) -/
def RState.step (s : RState) : Rec → RState
  | .begin => { s with inTxn := true }
  | .end_ => { inTxn := false, buf := [], ops := s.ops ++ s.buf }
  | r => if s.inTxn then { s with buf := s.buf ++ [r] } else s

def replay (m : List Rec) : List Rec := (m.foldl RState.step {}).ops

/-- `Manifest::append` -/
def txn (recs : List Rec) : List Rec := Rec.begin :: recs ++ [Rec.end_]

/-! ### Catalog (catalog/schema.rs): one id counter for tables, views, indexes -/

inductive Kind | table | view
  deriving DecidableEq, Repr, Inhabited

structure CatEntry where
  id : Nat
  name : String
  kind : Kind
  deriving DecidableEq, Repr, Inhabited

structure Catalog where
  nextId : Nat := 0
  entries : List CatEntry := []        -- `tables` + `table_idxs` (tables and views)
  indexes : List (Nat × String) := []  -- `indexes`
  deriving DecidableEq, Repr, Inhabited

def Catalog.find? (c : Catalog) (n : String) : Option CatEntry := c.entries.find? (·.name == n)

def Catalog.add (c : Catalog) (n : String) (k : Kind) : Option (Nat × Catalog) :=
  if (c.find? n).isSome then none
  else some (c.nextId, { c with nextId := c.nextId + 1, entries := c.entries ++ [⟨c.nextId, n, k⟩] })

def Catalog.addIndex (c : Catalog) (n : String) : Option (Nat × Catalog) :=
  if c.indexes.any (·.2 == n) then none
  else some (c.nextId, { c with nextId := c.nextId + 1, indexes := c.indexes ++ [(c.nextId, n)] })

def Catalog.remove (c : Catalog) (id : Nat) : Catalog :=
  { c with entries := c.entries.filter (·.id != id) }

/-! ### Sets as duplicate-free lists -/

def setInsert {α} [BEq α] (x : α) (l : List α) : List α := if l.contains x then l else l ++ [x]
def setRemove {α} [BEq α] (x : α) (l : List α) : List α := l.filter (· != x)

def lookup {α β} [BEq α] (k : α) : List (α × β) → Option β
  | [] => none
  | (a, b) :: l => if a == k then some b else lookup k l

/-! ### The disk engine state -/

/-- a DV of the snapshot together with its pool object (the in-memory sorted id list) -/
structure DvE where
  tid : Nat
  rs : Nat
  dv : Nat
  dead : List Nat
  deriving DecidableEq, Repr, Inhabited

def DvE.key (e : DvE) : Nat × Nat × Nat := (e.tid, e.rs, e.dv)

structure Store where
  cat : Catalog := {}
  tables : List (Nat × TableDef) := []            -- `SecondaryStorage::tables`
  rowsets : List (Nat × Nat) := []                -- current `Snapshot::rowsets` (tid, rsid)
  dvs : List DvE := []                            -- current `Snapshot::dvs` + pool
  pending : List (Nat × Nat) := []                -- `rowset_deletion_to_apply` (all epochs)
  nextRs : Nat := 0
  nextDv : Nat := 0
  manifest : List Rec := []                       -- manifest.json
  dirs : List ((Nat × Nat) × List Row) := []      -- row-set directories `<tid>_<rsid>` on disk
  dvFiles : List ((Nat × Nat × Nat) × List Nat) := []  -- `dv/<tid>_<rsid>_<dvid>.dv`
  deriving Repr, Inhabited

/-- statement outcome -/
inductive Out where
  | ok (n : Nat)           -- DDL: 1; INSERT / DELETE: affected rows
  | err (why : String)     -- statement rejected, state unchanged
  | panic (why : String)   -- a modelled unwrap/assert/expect site fires
  deriving DecidableEq, Repr, Inhabited

/-! #### reading -/

def Store.tableId? (s : Store) (n : String) : Option Nat :=
  match s.cat.find? n with
  | some e => if e.kind == .table then some e.id else none
  | none => none

def Store.rowsetsOf (s : Store) (tid : Nat) : List Nat :=
  (s.rowsets.filter (·.1 == tid)).map (·.2)

def Store.dvsOf (s : Store) (tid rs : Nat) : List (List Nat) :=
  (s.dvs.filter fun e => e.tid == tid && e.rs == rs).map (·.dead)

def Store.dirRows (s : Store) (tid rs : Nat) : List Row := (lookup (tid, rs) s.dirs).getD []

/-- visible (position, row) pairs of a row-set in the current snapshot -/
def Store.rsVisible (s : Store) (tid rs : Nat) : List (Nat × Row) :=
  visFrom (deadIn (s.dvsOf tid rs)) 0 (s.dirRows tid rs)

/-- full scan of a table (row-set order = list order; real order is hash order) -/
def Store.scan (s : Store) (tid : Nat) : List Row :=
  (s.rowsetsOf tid).flatMap fun rs => (s.rsVisible tid rs).map (·.2)

/-- `abs`: table name ↦ definition and rows (a bag: compare up to `List.Perm`) -/
def Store.abs (s : Store) (n : String) : Option (TableDef × List Row) :=
  match s.tableId? n with
  | some tid => match lookup tid s.tables with
    | some d => some (d, s.scan tid)
    | none => none
  | none => none

/-! #### writing -/

/-- what a non-nullable column encoding gives back for a NULL that was written into it (the
non-nullable block builders have no validity bitmap and push the type's default) -/
def defaultOf (ty : String) : Val :=
  if ty == "INT" then .i32 0
  else if ty == "BIGINT" then .i64 0
  else if ty == "SMALLINT" then .i16 0
  else if ty == "BOOLEAN" then .bool false
  else if ty == "STRING" then .str ""
  else .null

def storeRow : List ColDesc → Row → Row
  | c :: cs, v :: vs => (if c.notNull && v == Val.null then defaultOf c.ty else v) :: storeRow cs vs
  | _, vs => vs

/-- `InsertExecutor`'s constraint check (repository commit 652f6b6): no NULL for a NOT NULL / PRIMARY
KEY column -/
def noNullIn : List ColDesc → Row → Bool
  | c :: cs, v :: vs => !(c.notNull && v == Val.null) && noNullIn cs vs
  | _, _ => true

/-- the whole statement is rejected when one row violates it -/
def rowsOk (d : TableDef) (rows : List Row) : Bool := rows.all (noNullIn d.cols)

/-- the data chunk a mem-rowset flushes: rows in arrival order, or key order for keyed tables -/
def memFlush (d : TableDef) (rows : List Row) : List Row :=
  let rows := rows.map (storeRow d.cols)
  if d.sortKey.isEmpty then rows else sortStable (keyLe d.sortKey) rows

def Store.commit (s : Store) (recs : List Rec) : Store :=
  { s with manifest := s.manifest ++ txn recs }

/-- `create_table_inner` (after the binder's existence check) -/
def Store.createTable (s : Store) (d : TableDef) : Store × Out :=
  match s.cat.add d.name .table with
  | none => (s, .err "exists")
  | some (id, cat) =>
    ({ (s.commit [.createTable d]) with cat := cat, tables := s.tables ++ [(id, d)] }, .ok 1)

def Store.createView (s : Store) (n : String) : Store × Out :=
  match s.cat.add n .view with
  | none => (s, .err "exists")
  | some (_, cat) => ({ s with cat := cat }, .ok 1)

def Store.createIndex (s : Store) (n : String) (table : String) : Store × Out :=
  match s.tableId? table with
  | none => (s, .err "no-table")
  | some _ => match s.cat.addIndex n with
    | none => (s, .err "exists")
    | some (_, cat) => ({ s with cat := cat }, .ok 1)

/-- `DropExecutor` + `drop_table_inner` -/
def Store.drop (s : Store) (n : String) : Store × Out :=
  match s.cat.find? n with
  | none => (s, .err "no-table")
  | some e =>
    if e.kind == .view then ({ s with cat := s.cat.remove e.id }, .ok 1)
    else
      let tid := e.id
      let rss := s.rowsetsOf tid
      let recs := Rec.dropTable tid :: rss.flatMap fun rs =>
        Rec.delRowSet tid rs ::
          ((s.dvs.filter fun x => x.tid == tid && x.rs == rs).map fun x => Rec.delDV tid rs x.dv)
      ({ (s.commit recs) with
          cat := s.cat.remove tid
          tables := s.tables.filter (·.1 != tid)
          rowsets := s.rowsets.filter (·.1 != tid)
          dvs := s.dvs.filter fun x => !(x.tid == tid && rss.contains x.rs)
          pending := s.pending ++ rss.map fun rs => (tid, rs) }, .ok 1)

/-- flushes one mem-rowset per part: fresh id, directory, files -/
def flushDirs (d : TableDef) (tid : Nat) : List (List Row) → Nat → List ((Nat × Nat) × List Row)
  | [], _ => []
  | p :: ps, next => ((tid, next), memFlush d p) :: flushDirs d tid ps (next + 1)

/-- `InsertExecutor` + `append_inner`/`flush_rowset`/`commit_inner`; `parts` = how the executor's
chunks ended up in mem-rowsets (ANY partition; the implementation's depends on chunk sizes and
`target_rowset_size`) -/
def Store.insert (s : Store) (n : String) (parts : List (List Row)) : Store × Out :=
  match s.tableId? n with
  | none => (s, .err "no-table")
  | some tid => match lookup tid s.tables with
    | none => (s, .err "no-table")
    | some d =>
      if !rowsOk d parts.flatten then (s, .err "not-null") else
      let nd := flushDirs d tid parts s.nextRs
      ({ (s.commit (nd.map fun x => Rec.addRowSet tid x.1.2)) with
          nextRs := s.nextRs + parts.length, dirs := s.dirs ++ nd
          rowsets := s.rowsets ++ nd.map (·.1) }, .ok (parts.map List.length).sum)

/-- DVs written by `commit_inner` for the buffered handlers, one per touched row-set -/
def mkDvs (tid : Nat) : List (Nat × List Nat) → Nat → List DvE
  | [], _ => []
  | (rs, ids) :: rest, next =>
      if ids.isEmpty then mkDvs tid rest next
      else ⟨tid, rs, next, sortDedup ids⟩ :: mkDvs tid rest (next + 1)

/-- `DeleteExecutor` over `filter(scan with row handler)` + `commit_inner` -/
def Store.delete (s : Store) (n : String) (p : Row → Bool) : Store × Out :=
  match s.tableId? n with
  | none => (s, .err "no-table")
  | some tid =>
    let hits := (s.rowsetsOf tid).map fun rs =>
      (rs, ((s.rsVisible tid rs).filter fun x => p x.2).map (·.1))
    let newDvs := mkDvs tid hits s.nextDv
    ({ (s.commit (newDvs.map fun e => Rec.addDV tid e.rs e.dv)) with
        nextDv := s.nextDv + newDvs.length
        dvs := s.dvs ++ newDvs
        dvFiles := s.dvFiles ++ newDvs.map fun e => (e.key, e.dead) },
     .ok (hits.map (·.2.length)).sum)

def insertNatSorted (x : Nat) : List Nat → List Nat
  | [] => [x]
  | y :: ys => if x ≤ y then x :: y :: ys else y :: insertNatSorted x ys

def sortNat : List Nat → List Nat
  | [] => []
  | x :: xs => insertNatSorted x (sortNat xs)

/-- `DeleteDV` records of a compaction: the delete vectors of the row-sets it removes (per row-set
in id order, DV ids ascending) -/
def compactDvDels (s : Store) (tid : Nat) (selected : List Nat) : List Rec :=
  selected.flatMap fun rs =>
    (sortNat ((s.dvs.filter fun e => e.tid == tid && e.rs == rs).map (·.dv))).map fun dv => Rec.delDV tid rs dv

/-- `compact_table` for one table; `sel` = the row-set ids the size-based greedy selection picked
(ANY subset: the real choice depends on file sizes and hash order).  One commit:
`AddRowSet?, DeleteRowSet*, DeleteDV*` - the delete vectors of the removed row-sets go with them. -/
def Store.compactTable (s : Store) (tid : Nat) (d : TableDef) (sel : List Nat) : Store :=
  let selected := sortNat ((s.rowsetsOf tid).filter sel.contains)
  if selected.length ≤ 1 then s
  else
    let inputs := selected.map fun rs => (s.rsVisible tid rs).map (·.2)
    let rows := if d.sortKey.isEmpty then inputs.flatten else mergeAll (keyLe d.sortKey) inputs
    let dels := (selected.map fun rs => Rec.delRowSet tid rs) ++ compactDvDels s tid selected
    let keep := s.rowsets.filter fun x => !(x.1 == tid && selected.contains x.2)
    let keepDv := s.dvs.filter fun e => !(e.tid == tid && selected.contains e.rs)
    let pend := s.pending ++ selected.map fun rs => (tid, rs)
    if rows.isEmpty then
      { (s.commit dels) with rowsets := keep, dvs := keepDv, pending := pend }
    else
      { (s.commit (Rec.addRowSet tid s.nextRs :: dels)) with
          nextRs := s.nextRs + 1
          dirs := s.dirs ++ [((tid, s.nextRs), rows)]
          rowsets := keep ++ [(tid, s.nextRs)]
          dvs := keepDv
          pending := pend }

/-- one pass of `Compactor::run`: tables are visited in hash-map order, each with its own commit;
`plan` = the visiting order together with each table's selection (tables that are not listed
are not compacted, which is what an empty selection does as well) -/
def Store.compact (s : Store) (plan : List (Nat × List Nat)) : Store :=
  plan.foldl (fun st (tid, sel) => match lookup tid st.tables with
    | some d => st.compactTable tid d sel
    | none => st) s

/-- `do_vacuum` with nothing pinned -/
def Store.vacuum (s : Store) : Store :=
  { s with dirs := s.dirs.filter (fun x => !s.pending.contains x.1), pending := [] }

/-! #### bootstrap (storage.rs) -/

structure Boot where
  cat : Catalog := {}
  tables : List (Nat × TableDef) := []
  rsOpen : List (Nat × Nat) := []
  dvOpen : List (Nat × Nat × Nat) := []
  nextRs : Nat := 0
  nextDv : Nat := 0
  tableOps : List Rec := []
  failed : Option String := none
  deriving Repr, Inhabited

/-- the `for op in manifest_ops` loop -/
def Boot.step (b : Boot) (r : Rec) : Boot :=
  if b.failed.isSome then b else
  match r with
  | .createTable d => match b.cat.add d.name .table with
    | none => { b with failed := some "duplicated-table" }
    | some (id, cat) => { b with cat := cat, tables := b.tables ++ [(id, d)], tableOps := b.tableOps ++ [r] }
  | .dropTable tid =>
    if (lookup tid b.tables).isSome then
      { b with cat := b.cat.remove tid, tables := b.tables.filter (·.1 != tid), tableOps := b.tableOps ++ [r] }
    else { b with failed := some "drop-not-found" }
  | .addRowSet tid rs => { b with nextRs := max b.nextRs (rs + 1), rsOpen := setInsert (tid, rs) b.rsOpen }
  | .delRowSet tid rs => { b with rsOpen := setRemove (tid, rs) b.rsOpen }
  | .addDV tid rs dv => { b with nextDv := max b.nextDv (dv + 1), dvOpen := setInsert (tid, rs, dv) b.dvOpen }
  | .delDV tid rs dv => { b with dvOpen := setRemove (tid, rs, dv) b.dvOpen }
  | .begin | .end_ => b

def bootFold (ops : List Rec) : Boot := ops.foldl Boot.step {}

/-- result of opening a database directory -/
inductive Opened where
  | ok (s : Store)
  | fail (why : String)     -- `open` returns Err or panics: database unopenable
  deriving Repr, Inhabited

def openDvs (dvFiles : List ((Nat × Nat × Nat) × List Nat)) : List (Nat × Nat × Nat) → Option (List DvE)
  | [] => some []
  | k :: ks => match lookup k dvFiles, openDvs dvFiles ks with
    | some dead, some rest => some (⟨k.1, k.2.1, k.2.2, sortDedup dead⟩ :: rest)
    | _, _ => none

/-- `SecondaryStorage::bootstrap` on the directory left by `s` (only `manifest`, `dirs`, `dvFiles`
of `s` are read: everything else is rebuilt) -/
def Store.reopen (s : Store) : Opened :=
  let b := bootFold (replay s.manifest)
  match b.failed with
  | some why => .fail why
  | none =>
    -- directory vacuum
    let dirs := s.dirs.filter fun x => b.rsOpen.contains x.1
    -- open row-sets: `tables.get(&entry.table_id).unwrap()`, then the files
    if b.rsOpen.any (fun k => (lookup k.1 b.tables).isNone) then .fail "rowset-of-unknown-table"
    else if b.rsOpen.any (fun k => (lookup k dirs).isNone) then .fail "rowset-dir-missing"
    else if b.dvOpen.any (fun k => (lookup k.1 b.tables).isNone) then .fail "dv-of-unknown-table"
    else match openDvs s.dvFiles b.dvOpen with
      | none => .fail "dv-file-missing"
      | some dvs =>
        .ok { cat := b.cat, tables := b.tables, rowsets := b.rsOpen, dvs := dvs, pending := []
              nextRs := b.nextRs, nextDv := b.nextDv
              manifest := txn (b.rsOpen.map (fun k => Rec.addRowSet k.1 k.2)
                          ++ b.dvOpen.map (fun k => Rec.addDV k.1 k.2.1 k.2.2) ++ b.tableOps)
              dirs := dirs
              -- boot-time vacuum of `dv/`: files of DVs that the replayed log does not name are removed
              dvFiles := s.dvFiles.filter fun x => b.dvOpen.contains x.1 }

/-- a fresh database directory: `bootstrap` of nothing -/
def Store.init : Store := { manifest := txn [] }

/-! ### Histories -/

inductive Op where
  | create (d : TableDef)
  | createView (n : String)
  | createIndex (n : String) (table : String)
  | drop (n : String)
  | insert (n : String) (parts : List (List Row))
  | delete (n : String) (p : Row → Bool)
  | compact (plan : List (Nat × List Nat))
  | vacuum
  | reopen

/-- state of a run: a live store, or a directory that can no longer be opened -/
inductive St where
  | up (s : Store)
  | dead (why : String)
  deriving Inhabited

def stepUp (s : Store) : Op → St × Out
  | .create d => let (s', o) := s.createTable d; (.up s', o)
  | .createView n => let (s', o) := s.createView n; (.up s', o)
  | .createIndex n t => let (s', o) := s.createIndex n t; (.up s', o)
  | .drop n => let (s', o) := s.drop n; (.up s', o)
  | .insert n parts => let (s', o) := s.insert n parts; (.up s', o)
  | .delete n p => let (s', o) := s.delete n p; (.up s', o)
  | .compact plan => (.up (s.compact plan), .ok 0)
  | .vacuum => (.up s.vacuum, .ok 0)
  | .reopen => match s.reopen with
    | .ok s' => (.up s', .ok 0)
    | .fail why => (.dead why, .panic why)

def step : St → Op → St × Out
  | .up s, op => stepUp s op
  | .dead why, _ => (.dead why, .panic why)

def run : St → List Op → St
  | st, [] => st
  | st, op :: ops => run (step st op).1 ops

/-! ### Specification: a map from table names to definition and rows -/

abbrev Spec := List (String × TableDef × List Row)

def Spec.get (sp : Spec) (n : String) : Option (TableDef × List Row) := lookup n sp

def Spec.set (sp : Spec) (n : String) (v : TableDef × List Row) : Spec :=
  (n, v) :: sp.filter (·.1 != n)

/-- `views` = names taken by views (they block CREATE TABLE of the same name) -/
structure SpecSt where
  tables : Spec := []
  views : List String := []
  indexes : List String := []
  deriving Inhabited

def SpecSt.step (sp : SpecSt) : Op → SpecSt × Out
  | .create d =>
      if (sp.tables.get d.name).isSome || sp.views.contains d.name then (sp, .err "exists")
      else ({ sp with tables := sp.tables.set d.name (d, []) }, .ok 1)
  | .createView n =>
      if (sp.tables.get n).isSome || sp.views.contains n then (sp, .err "exists")
      else ({ sp with views := sp.views ++ [n] }, .ok 1)
  | .createIndex n t =>
      if (sp.tables.get t).isNone then (sp, .err "no-table")
      else if sp.indexes.contains n then (sp, .err "exists")
      else ({ sp with indexes := sp.indexes ++ [n] }, .ok 1)
  | .drop n =>
      if sp.views.contains n then ({ sp with views := sp.views.filter (· != n) }, .ok 1)
      else if (sp.tables.get n).isSome then ({ sp with tables := sp.tables.filter (·.1 != n) }, .ok 1)
      else (sp, .err "no-table")
  | .insert n parts => match sp.tables.get n with
      | none => (sp, .err "no-table")
      | some (d, rows) =>
        if !rowsOk d parts.flatten then (sp, .err "not-null")
        else ({ sp with tables := sp.tables.set n (d, rows ++ parts.flatten) }, .ok parts.flatten.length)
  | .delete n p => match sp.tables.get n with
      | none => (sp, .err "no-table")
      | some (d, rows) =>
        ({ sp with tables := sp.tables.set n (d, rows.filter fun r => !p r) }, .ok (rows.filter p).length)
  | .compact _ => (sp, .ok 0)
  | .vacuum => (sp, .ok 0)
  | .reopen => (sp, .ok 0)

def SpecSt.run : SpecSt → List Op → SpecSt
  | sp, [] => sp
  | sp, op :: ops => SpecSt.run (sp.step op).1 ops

/-! ### The in-memory engine (src/storage/memory) -/

structure MemTable where
  defn : TableDef
  chunks : List (List Row) := []     -- `InMemoryTableInner::chunks`
  deleted : List Nat := []           -- `deleted_rows` (global row indices)
  deriving Repr, Inhabited

structure MemStore where
  cat : Catalog := {}
  tables : List (Nat × MemTable) := []
  deriving Repr, Inhabited

def MemTable.scanH (t : MemTable) : List (Nat × Row) :=
  visFrom (fun i => t.deleted.contains i) 0 t.chunks.flatten

def MemTable.scan (t : MemTable) : List Row := t.scanH.map (·.2)

/-- `InMemoryTransaction::commit` of an INSERT: the buffered chunks are appended -/
def MemTable.insert (t : MemTable) (parts : List (List Row)) : MemTable := { t with chunks := t.chunks ++ parts }

/-- `DeleteExecutor` on the memory engine: handlers = global row indices of the visible rows that
satisfy the predicate; commit adds them to `deleted_rows` -/
def MemTable.delete (t : MemTable) (p : Row → Bool) : MemTable × Nat :=
  let hs := (t.scanH.filter fun x => p x.2).map (·.1)
  ({ t with deleted := t.deleted ++ hs }, hs.length)

def MemStore.tableId? (s : MemStore) (n : String) : Option Nat :=
  match s.cat.find? n with
  | some e => if e.kind == .table then some e.id else none
  | none => none

def MemStore.abs (s : MemStore) (n : String) : Option (TableDef × List Row) :=
  match s.tableId? n with
  | some tid => match lookup tid s.tables with
    | some t => some (t.defn, t.scan)
    | none => none
  | none => none

def MemStore.setTable (s : MemStore) (tid : Nat) (t : MemTable) : MemStore :=
  { s with tables := s.tables.map fun x => if x.1 == tid then (tid, t) else x }

def MemStore.step (s : MemStore) : Op → MemStore × Out
  | .create d => match s.cat.add d.name .table with
    | none => (s, .err "exists")
    | some (id, cat) => ({ cat := cat, tables := s.tables ++ [(id, { defn := d })] }, .ok 1)
  | .createView n => match s.cat.add n .view with
    | none => (s, .err "exists")
    | some (_, cat) => ({ s with cat := cat }, .ok 1)
  | .createIndex n t => match s.tableId? t with
    | none => (s, .err "no-table")
    | some _ => match s.cat.addIndex n with
      | none => (s, .err "exists")
      | some (_, cat) => ({ s with cat := cat }, .ok 1)
  | .drop n => match s.cat.find? n with
    | none => (s, .err "no-table")
    | some e => ({ cat := s.cat.remove e.id, tables := s.tables.filter (·.1 != e.id) }, .ok 1)
  | .insert n parts => match s.tableId? n with
    | none => (s, .err "no-table")
    | some tid => match lookup tid s.tables with
      | none => (s, .err "no-table")
      | some t =>
        if !rowsOk t.defn parts.flatten then (s, .err "not-null")
        else (s.setTable tid (t.insert parts), .ok parts.flatten.length)
  | .delete n p => match s.tableId? n with
    | none => (s, .err "no-table")
    | some tid => match lookup tid s.tables with
      | none => (s, .err "no-table")
      | some t => (s.setTable tid (t.delete p).1, .ok (t.delete p).2)
  | .compact _ => (s, .ok 0)
  | .vacuum => (s, .ok 0)
  | .reopen => (s, .ok 0)   -- not meaningful for the memory engine; never generated for it

def MemStore.run : MemStore → List Op → MemStore
  | s, [] => s
  | s, op :: ops => MemStore.run (s.step op).1 ops

end RlModel
