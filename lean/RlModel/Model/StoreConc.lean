/-
Small-step model of RisingLight's secondary storage under concurrency (properties C08 C09 C10).

One `Act` per *atomic segment* of the implementation: the code between two consecutive yield
points (lock acquisitions / `.await`s) of
  src/storage/secondary/{version_manager,transaction,compactor,manifest,transaction_manager}.rs,
  src/db.rs, src/executor/{delete,create_table,drop}.rs.
An `Act` is named after the point that ends the segment (the H2 hook the harness observes).

The state is split in two:
  * `K`   — the kernel: everything the safety invariant talks about (epochs, snapshots, pool,
            reference counts, deferred deletions, directory, id generator, the manifest lock with
            the in-flight commit, and the *tagged* per-thread resources: pins, unlink queues,
            reserved row-set ids);
  * the rest of `Sys` — table locks, catalog, and the threads' program state (which command,
            which table the binder resolved, buffered handlers, results).
Every `Act` changes `K` only through one of the kernel operations `kPin kUnpin kReserve kCommitA
kCommitAPanic kAppend kCommitB kFind kUnlink`, so an invariant of the kernel operations is an
invariant of every schedule.

Core Lean only (the driver links this file).
-/
namespace RlModel
namespace SC

/-- (table id, row-set id) -/
abbrev Key := Nat × Nat
/-- thread = (actor, index within the actor; 0 = the actor's own task) -/
abbrev Tid := Nat × Nat

/-- `version_manager.rs Snapshot`: row-set ids and delete vectors (id + deleted positions). -/
structure Snap where
  rs  : List Key := []
  dvs : List (Key × Nat × List Nat) := []
deriving Repr, BEq, Inhabited

/-- `EpochOp` -/
inductive Op where
  | create (name : Nat)
  | drop (t : Nat)
  | add (k : Key) (rows : List Int)
  | del (k : Key)
  | addDv (k : Key) (dv : Nat) (pos : List Nat)
  | delDv (k : Key) (dv : Nat)
deriving Repr, BEq, Inhabited

def addKeys : List Op → List Key
  | [] => []
  | .add k _ :: r => k :: addKeys r
  | _ :: r => addKeys r

def delKeys : List Op → List Key
  | [] => []
  | .del k :: r => k :: delKeys r
  | _ :: r => delKeys r

/-- row-sets that new delete vectors of a changeset refer to -/
def dvKeys : List Op → List Key
  | [] => []
  | .addDv k _ _ :: r => k :: dvKeys r
  | _ :: r => dvKeys r

/-- One arm of the `match op` in `commit_changes_with_custom_manifest`.  Since /repo's fix of
`Snapshot::delete_rowset` / `delete_dv` a `DeleteRowSet` / `DeleteDV` for something that is
already gone is a no-op (before, the `unwrap` on the missing table entry panicked), so every arm
succeeds; the `Option` is kept for the shape of `applyOps` (`none` = phase A panics). -/
def applyOp (s : Snap) : Op → Option Snap
  | .create _ => some s
  | .drop _ => some s
  | .add k _ => some { s with rs := k :: s.rs }
  | .del k => some { s with rs := s.rs.filter (fun x => x != k) }
  | .addDv k d p => some { s with dvs := (k, d, p) :: s.dvs }
  | .delDv k d => some { s with dvs := s.dvs.filter (fun x => !(x.1 == k && x.2.1 == d)) }

def applyOps (s : Snap) : List Op → Option Snap
  | [] => some s
  | o :: r => match applyOp s o with
    | some s' => applyOps s' r
    | none => none

/-- pool insertions done by phase A before a panic at the first failing op -/
def addsBeforePanic (s : Snap) : List Op → List (Key × List Int)
  | [] => []
  | o :: r => match applyOp s o with
    | some s' => (match o with | .add k rows => [(k, rows)] | _ => []) ++ addsBeforePanic s' r
    | none => []

def poolAdds : List Op → List (Key × List Int)
  | [] => []
  | .add k rows :: r => (k, rows) :: poolAdds r
  | _ :: r => poolAdds r

structure Inflight where
  base : Nat
  snap : Snap
  dels : List Key
  recs : List Op
deriving Repr, Inhabited

/-- Kernel state (`VersionManagerInner` + manifest lock + directory + id generator + tagged
per-thread resources). -/
structure K where
  epoch   : Nat := 1
  status  : Nat → Snap := fun _ => {}
  pool    : List (Key × List Int) := []
  refcnt  : Nat → Nat := fun _ => 0
  pending : Nat → List Key := fun _ => []
  disk    : List Key := []
  nextRid : Nat := 0
  nextDv  : Nat := 0
  /-- manifest lock holder with the result of phase A (published by phase B) -/
  infl    : Option (Tid × Inflight) := none
  /-- live pins: (holder, epoch) -/
  pins    : List (Tid × Nat) := []
  /-- deletions a vacuum pass took out of `pending` and has not unlinked yet: (holder, epoch of
  the deletion, row-set) -/
  uq      : List (Tid × Nat × Key) := []
  /-- row-set ids handed out by `generate_rowset_id` whose row-set is not committed yet -/
  resv    : List (Tid × Key) := []
  /-- manifest: committed transactions -/
  log     : List (List Op) := []
deriving Inhabited

def poolKeys (k : K) : List Key := k.pool.map (·.1)

/-- `VersionManager::pin` -/
def kPin (k : K) (th : Tid) : K :=
  { k with pins := (th, k.epoch) :: k.pins,
           refcnt := fun e => if e = k.epoch then k.refcnt e + 1 else k.refcnt e }

/-- `Version::drop` -/
def kUnpin (k : K) (th : Tid) (e : Nat) : K :=
  { k with pins := k.pins.erase (th, e),
           refcnt := fun x => if x = e then k.refcnt x - 1 else k.refcnt x }

/-- `generate_rowset_id` + `create_dir` -/
def kReserve (k : K) (th : Tid) (t : Nat) : K :=
  { k with nextRid := k.nextRid + 1, resv := (th, (t, k.nextRid)) :: k.resv,
           disk := (t, k.nextRid) :: k.disk }

/-- what the model insists on before phase A: added row-sets were reserved by this thread,
deleted ones — and the ones new delete vectors refer to — are known, committed ids -/
def opsOk (k : K) (th : Tid) (ops : List Op) : Bool :=
  ((addKeys ops).all (fun key => k.resv.contains (th, key))
  && (delKeys ops).all (fun key => decide (key.2 < k.nextRid) && !(k.resv.map (·.2)).contains key))
  && (dvKeys ops).all (fun key => decide (key.2 < k.nextRid) && !(k.resv.map (·.2)).contains key)

/-- phase A of `commit_changes` (manifest lock taken, inner lock held) -/
def kCommitA (k : K) (th : Tid) (ops : List Op) : Option K :=
  if k.infl.isSome then none
  else if !opsOk k th ops then none
  else match applyOps (k.status k.epoch) ops with
    | none => none
    | some snap' =>
      some { k with pool := poolAdds ops ++ k.pool,
                    resv := k.resv.filter (fun r => !(addKeys ops).contains r.2),
                    infl := some (th, { base := k.epoch, snap := snap', dels := delKeys ops, recs := ops }) }

/-- phase A panicking in `Snapshot::delete_rowset`: the pool keeps what was inserted before -/
def kCommitAPanic (k : K) (th : Tid) (ops : List Op) : Option K :=
  if k.infl.isSome then none
  else if !opsOk k th ops then none
  else match applyOps (k.status k.epoch) ops with
    | some _ => none
    | none =>
      some { k with pool := addsBeforePanic (k.status k.epoch) ops ++ k.pool,
                    resv := k.resv.filter (fun r => !((addsBeforePanic (k.status k.epoch) ops).map (·.1)).contains r.2) }

/-- phase B: `assert_eq!(inner.epoch, current_epoch)`, publish, record deletions, unlock -/
def kCommitB (k : K) (th : Tid) : Option K :=
  match k.infl with
  | none => none
  | some (h, f) =>
    if h = th ∧ f.base = k.epoch then
      some { k with epoch := k.epoch + 1,
                    status := fun e => if e = k.epoch + 1 then f.snap else k.status e,
                    pending := fun e => if e = k.epoch + 1 then f.dels else k.pending e,
                    infl := none,
                    log := k.log ++ [f.recs] }
    else none

/-- smallest epoch `≤ n` with a positive reference count (`ref_cnt.keys().min()`) -/
def minPin (rc : Nat → Nat) : Nat → Option Nat
  | 0 => if 0 < rc 0 then some 0 else none
  | n + 1 => match minPin rc n with
    | some m => some m
    | none => if 0 < rc (n + 1) then some (n + 1) else none

def vacuumEpoch (k : K) : Nat := (minPin k.refcnt k.epoch).getD k.epoch

def takenUpTo (pending : Nat → List Key) : Nat → List (Nat × Key)
  | 0 => (pending 0).map (fun key => (0, key))
  | n + 1 => takenUpTo pending n ++ (pending (n + 1)).map (fun key => (n + 1, key))

/-- `find_vacuum` -/
def kFind (k : K) (th : Tid) : K :=
  let v := vacuumEpoch k
  let taken := takenUpTo k.pending v
  { k with pending := fun e => if e ≤ v then [] else k.pending e,
           uq := taken.map (fun p => (th, p.1, p.2)) ++ k.uq,
           pool := k.pool.filter (fun p => !(taken.map (·.2)).contains p.1) }

/-- one `remove_dir_all` of `do_vacuum` -/
def kUnlink (k : K) (th : Tid) (e : Nat) (key : Key) : K :=
  { k with uq := k.uq.erase (th, e, key), disk := k.disk.filter (fun x => x != key) }

/-- a vacuum pass that failed gives up on the rest of its list -/
def kAbandon (k : K) (th : Tid) : K :=
  { k with uq := k.uq.filter (fun q => !(q.1 == th)) }

/-- `generate_dv_id` × n -/
def kAllocDv (k : K) (n : Nat) : K := { k with nextDv := k.nextDv + n }

/-! ### Reading a snapshot -/

def lookupPool (pool : List (Key × List Int)) (key : Key) : Option (List Int) :=
  match pool.find? (fun p => p.1 == key) with
  | some p => some p.2
  | none => none

def deadPos (s : Snap) (key : Key) : List Nat :=
  (s.dvs.filter (fun x => x.1 == key)).flatMap (fun x => x.2.2)

/-- rows with their positions, skipping deleted positions -/
def liveFrom (i : Nat) (dead : List Nat) : List Int → List (Nat × Int)
  | [] => []
  | v :: r => if dead.contains i then liveFrom (i + 1) dead r else (i, v) :: liveFrom (i + 1) dead r

def tableKeys (s : Snap) (t : Nat) : List Key := s.rs.filter (fun x => x.1 == t)

/-- `(row-set, position, value)` of every visible row of table `t`; `none` = a row-set of the
snapshot is missing from the pool (`get_rowset(..).unwrap()` panics). -/
def scan? (pool : List (Key × List Int)) (s : Snap) : List Key → Option (List (Key × Nat × Int))
  | [] => some []
  | key :: r =>
    match lookupPool pool key, scan? pool s r with
    | some rows, some rest => some ((liveFrom 0 (deadPos s key) rows).map (fun p => (key, p.1, p.2)) ++ rest)
    | _, _ => none

def rowsAt? (pool : List (Key × List Int)) (s : Snap) (t : Nat) : Option (List Int) :=
  match scan? pool s (tableKeys s t) with
  | some l => some (l.map (fun x => x.2.2))
  | none => none

/-! ### Commands, threads, system -/

inductive DelOp where | lt | eq | ge | all | bt
deriving Repr, BEq, DecidableEq, Inhabited

def DelOp.holds : DelOp → Int → Int → Bool
  | .lt, c, v => v < c
  | .eq, c, v => v == c
  | .ge, c, v => v ≥ c
  | .all, _, _ => true
  | .bt, c, v => c ≤ v && v ≤ c + 2

inductive Cmd where
  | create (t : Nat) | drop (t : Nat) | insert (t : Nat) (vs : List Int)
  | delete (t : Nat) (op : DelOp) (c : Int) | select (t : Nat) (key : Option Int) | count (t : Nat)
  | read (t : Nat) (batch : Nat) | compact | vacuum
deriving Repr, BEq, Inhabited

inductive ErrK where | bind | duplicate | notfound | io | other
deriving Repr, BEq, DecidableEq, Inhabited

inductive Res where
  | rows (xs : List Int) | err (k : ErrK) | ok | panic
deriving Repr, BEq, Inhabited

inductive Mode where | none | ro | rw | upd
deriving Repr, BEq, DecidableEq, Inhabited

/-- program state of a thread (nothing the kernel invariant depends on) -/
structure Th where
  cmd    : Option Cmd := none
  /-- table id the binder resolved (thread 0) -/
  btab   : Option Nat := none
  isBound : Bool := false
  mode   : Mode := .none
  tab    : Nat := 0
  /-- epoch of the most recent pin of this thread -/
  snapE  : Nat := 0
  ops    : List Op := []
  begun  : Bool := false
  committed : Bool := false
  /-- (thread 0) row handlers produced by the scan of a DELETE -/
  mail   : Option (List (Key × Nat)) := none
  /-- (thread 0) epoch the update transaction of a DELETE pinned (under the table lock) -/
  delE   : Option Nat := none
  res    : Option Res := none
  /-- reader: rows visible at pin time (ghost), rows fetched so far -/
  expect : Option (List Int) := none
  fetched : Nat := 0
  /-- compactor: tables still to visit, table being visited, lock obtained, planned output -/
  cpTodo : List Nat := []
  cpCur  : Option Nat := none
  cpGot  : Bool := false
  cpPlan : Option (List Key × List Int) := none
deriving Repr, Inhabited

structure Sys where
  k       : K := {}
  tlocks  : List (Nat × Tid) := []
  /-- holder of the CREATE TABLE lock (`SecondaryStorage::ddl_lock`) -/
  ddlLock : Option Tid := none
  catalog : List (Nat × Nat) := []      -- (name, table id)
  tables  : List Nat := []
  /-- ids of the tables that have a primary key: their row-sets are stored sorted by key, and a
  compaction MERGES them (the clause relied on: "the compacted row-set of a keyed table is sorted
  by key"; the merging heap itself is C12's generated model) -/
  keyed   : List Nat := []
  /-- `some n`: the storage runs with a tiny `target_rowset_size`; row-sets with ≥ n rows are
  never selected by a compaction pass -/
  bigRows : Option Nat := none
  nextTid : Nat := 0
  ths     : List (Tid × Th) := []
  outs    : List (Tid × Cmd × Res) := []
deriving Inhabited

def getTh (s : Sys) (th : Tid) : Th :=
  match s.ths.find? (fun p => p.1 == th) with
  | some p => p.2
  | none => {}

def setTh (s : Sys) (th : Tid) (t : Th) : Sys :=
  { s with ths := (th, t) :: s.ths.filter (fun p => !(p.1 == th)) }

def parent (th : Tid) : Tid := (th.1, 0)

def lookupName (s : Sys) (n : Nat) : Option Nat :=
  match s.catalog.find? (fun p => p.1 == n) with
  | some p => some p.2
  | none => none

def insertSorted (k : Key) : List Key → List Key
  | [] => [k]
  | x :: r => if k.2 ≤ x.2 then k :: x :: r else x :: insertSorted k r

def sortKeys : List Key → List Key
  | [] => []
  | x :: r => insertSorted x (sortKeys r)

def dedupKeys : List Key → List Key
  | [] => []
  | x :: r => if r.contains x then dedupKeys r else x :: dedupKeys r

def insInt (x : Int) : List Int → List Int
  | [] => [x]
  | y :: r => if x ≤ y then x :: y :: r else y :: insInt x r

def sortInt : List Int → List Int
  | [] => []
  | x :: r => insInt x (sortInt r)

/-- by convention of the harness tables named `t50`.. are created with `v` as PRIMARY KEY -/
def keyedName (n : Nat) : Bool := decide (50 ≤ n)

/-- handlers of a DELETE: visible rows of the scan's snapshot satisfying the predicate -/
def handlers? (k : K) (e : Nat) (t : Nat) (op : DelOp) (c : Int) : Option (List (Key × Nat)) :=
  match scan? k.pool (k.status e) (tableKeys (k.status e) t) with
  | some l => some ((l.filter (fun x => op.holds c x.2.2)).map (fun x => (x.1, x.2.1)))
  | none => none

/-- `delete_split_map`: one delete vector per touched row-set (ids in row-set order) -/
def dvOps (dv0 : Nat) (hs : List (Key × Nat)) : List Key → List Op
  | [] => []
  | key :: r => .addDv key dv0 ((hs.filter (fun h => h.1 == key)).map (·.2)) :: dvOps (dv0 + 1) hs r

/-- `drop_table_inner`: changeset built from the pinned snapshot -/
def dropOps (s : Snap) (t : Nat) : List Op :=
  .drop t :: (tableKeys s t).flatMap (fun key =>
    .del key :: (s.dvs.filter (fun x => x.1 == key)).map (fun x => Op.delDv key x.2.1))

/-- `compact_table` (since /repo 5071ff5): `DeleteDV` for every delete vector the PINNED snapshot
has on a selected row-set -/
def dvDels (s : Snap) (sel : List Key) : List Op :=
  sel.flatMap (fun key => (s.dvs.filter (fun x => x.1 == key)).map (fun x => Op.delDv key x.2.1))

/-- `compact_table`: selection (all row-sets of the table in the pinned snapshot, by id) and the
merged live rows; `none` when fewer than two row-sets are selected -/
def compactPlan? (k : K) (e : Nat) (t : Nat) : Option (Option (List Key × List Int)) :=
  let sel := sortKeys (tableKeys (k.status e) t)
  if sel.length ≤ 1 then some none
  else match scan? k.pool (k.status e) sel with
    | some l => some (some (sel, l.map (fun x => x.2.2)))
    | none => none

/-- `compact_table` with a small `target_rowset_size`: a row-set with `big` or more rows never
fits the size budget and is left alone; the others are selected (the workloads keep their total
size within the budget, so the hash order in which the code visits them does not matter) -/
def compactPlanSub? (k : K) (e : Nat) (t : Nat) (big : Nat) : Option (Option (List Key × List Int)) :=
  let small := (tableKeys (k.status e) t).filter (fun key =>
    match lookupPool k.pool key with
    | some rows => decide (rows.length < big)
    | none => true)
  let sel := sortKeys small
  if sel.length ≤ 1 then some none
  else match scan? k.pool (k.status e) sel with
    | some l => some (some (sel, l.map (fun x => x.2.2)))
    | none => none

inductive Act where
  | config (big : Nat)
  | cmdBegin (th : Tid) (c : Cmd)
  | bound (th : Tid)
  | pin (th : Tid)
  | unpin (th : Tid) (e : Nat)
  | txnPinned (th : Tid) (m : Mode) (t : Nat)
  | txnLocked (th : Tid)
  | lockBegin (th : Tid)
  | scanBatch (th : Tid) (n : Nat)
  | commitBegin (th : Tid)
  | commitA (th : Tid)
  | append (th : Tid)
  | committed (th : Tid)
  | createApplied (th : Tid)
  | dropApplied (th : Tid)
  | cpPinned (th : Tid)
  | cpTable (th : Tid) (t : Nat)
  | cpLocked (th : Tid) (t : Nat)
  | cpEnd (th : Tid)
  | vacFind (th : Tid)
  | vacUnlinked (th : Tid) (key : Key)
  | rdOpen (th : Tid)
  | rdBatch (th : Tid) (n : Nat)
  | cmdDone (th : Tid)
  | panic (th : Tid)
deriving Repr, Inhabited

def heldBy (s : Sys) (t : Nat) : Option Tid :=
  match s.tlocks.find? (fun p => p.1 == t) with
  | some p => some p.2
  | none => none

def unlockAll (s : Sys) (th : Tid) : Sys :=
  { s with tlocks := s.tlocks.filter (fun p => !(p.2 == th)) }

def unlockActor (s : Sys) (a : Nat) : Sys :=
  { s with tlocks := s.tlocks.filter (fun p => !(p.2.1 == a)),
           ddlLock := match s.ddlLock with
             | some h => if h.1 == a then none else some h
             | none => none }

/-- The compactor moved on from table `cpCur`: what happened there must be what the model
expects (lock busy ⇒ skipped; plan ⇒ committed). -/
def cpSettled (s : Sys) (th : Tid) : Bool :=
  let t := getTh s th
  match t.cpCur with
  | none => true
  | some tb =>
    if t.cpGot then
      -- a planned compaction commits, unless the table was dropped meanwhile (then
      -- `commit_changes` refuses its changeset and the pass moves on)
      (match t.cpPlan with
       | some _ => t.committed || (t.begun && !s.tables.contains tb)
       | none => true)
    else (heldBy s tb).isSome

/-- `commit_inner` (since the DELETE fix): a row handler of a row-set that is not in the update
transaction's snapshot any more (a compaction replaced it after the scan), or of a row that is already deleted in that snapshot (a
concurrent DELETE committed after the scan), makes the DELETE fail -/
def handlersGone (snap : Snap) (hs : List (Key × Nat)) : Bool :=
  hs.any (fun h => !snap.rs.contains h.1 || (deadPos snap h.1).contains h.2)

/-- result of a finished command -/
def resultOf (s : Sys) (th : Tid) (t : Th) : Option Res :=
  match t.cmd with
  | none => none
  | some c =>
    match t.res with
    | some r => some r
    | none =>
      match c with
      | .compact => some .ok
      | .vacuum =>
          -- `remove_dir_all` of a directory that is already gone (a row-set deleted twice)
          -- fails the pass; which entry comes first is hash order
          let mine := s.k.uq.filter (fun q => q.1 == th)
          if mine.isEmpty then some .ok
          else if mine.any (fun q => !s.k.disk.contains q.2.2) then some (.err .io)
          else none
      | .read n _ => if (lookupName s n).isNone then some (.err .notfound) else none
      | .create n =>
          if !t.isBound then (if (lookupName s n).isSome then some (.err .duplicate) else none)
          else (if (lookupName s n).isSome then some (.err .duplicate) else none)
      | .drop n =>
          if !t.isBound then (if (lookupName s n).isNone then some (.err .bind) else none)
          else (match t.btab with
                | some tb => if s.tables.contains tb then none else some (.err .notfound)
                | none => none)
      | .delete n _ _ =>
          if !t.isBound then (if (lookupName s n).isNone then some (.err .bind) else none)
          else (match t.btab with
                | some tb =>
                    if !s.tables.contains tb then some (.err .notfound)
                    else (match t.mail, t.delE with
                          | some hs, some e =>
                              if handlersGone (s.k.status e) hs then some (.err .notfound) else none
                          | _, _ => none)
                | none => none)
      | .insert n _ | .select n _ | .count n =>
          if !t.isBound then (if (lookupName s n).isNone then some (.err .bind) else none)
          else (match t.btab with
                | some tb => if s.tables.contains tb then none else some (.err .notfound)
                | none => none)

def withK (s : Sys) (k : K) : Sys := { s with k := k }

def stepCmdBegin (s : Sys) (th : Tid) (c : Cmd) : Option Sys :=
    if th.2 != 0 then none
    else some (setTh s th { cmd := some c })

def stepBound (s : Sys) (th : Tid) : Option Sys :=
    let t := getTh s th
    match t.cmd with
    | some (.create n) =>
        if (lookupName s n).isSome then none else some (setTh s th { t with isBound := true })
    | some (.drop n) | some (.insert n _) | some (.delete n _ _) | some (.select n _) | some (.count n) =>
        (match lookupName s n with
         | some tb => some (setTh s th { t with isBound := true, btab := some tb })
         | none => none)
    | _ => none

def stepPin (s : Sys) (th : Tid) : Option Sys :=
    let t := getTh s th
    some (setTh (withK s (kPin s.k th)) th { t with snapE := s.k.epoch })

def stepUnpin (s : Sys) (th : Tid) (e : Nat) : Option Sys :=
    if !s.k.pins.contains (th, e) then none
    else
      let t := getTh s th
      let s0 := withK s (kUnpin s.k th e)
      -- an operator thread's transaction ends here: its table lock (DELETE) goes with it
      let s1 := if th.2 == 0 then s0 else unlockAll s0 th
      if th.2 == 0 then
        -- reader command: the scan ends here
        (match t.cmd, t.mode with
         | some (.read _ _), .ro =>
             (match rowsAt? s.k.pool (s.k.status e) t.tab with
              | some r => some (setTh s1 th { t with res := some (.rows r), mode := .none })
              | none => none)
         | _, _ => some s1)
      else if t.mode == .ro then
        -- the scan thread of a statement finishes: its output goes to the statement
        let p := getTh s (parent th)
        (match p.cmd with
         | some (.select _ f) =>
             (match rowsAt? s.k.pool (s.k.status e) t.tab with
              | some r =>
                  let r' := match f with | some c => r.filter (fun v => v == c) | none => r
                  some (setTh s1 (parent th) { p with res := some (.rows r') })
              | none => none)
         | some (.count _) =>
             (match rowsAt? s.k.pool (s.k.status e) t.tab with
              | some r => some (setTh s1 (parent th) { p with res := some (.rows [r.length]) })
              | none => none)
         | some (.delete _ op c) =>
             (match handlers? s.k e t.tab op c with
              | some hs => some (setTh s1 (parent th) { p with mail := some hs })
              | none => none)
         | _ => none)
      else some s1

def stepTxnPinned (s : Sys) (th : Tid) (m : Mode) (tb : Nat) : Option Sys :=
    let t := getTh s th
    if th.2 == 0 then
      (match t.cmd with
       | some (.read n _) =>
           if lookupName s n != some tb || m != .ro then none
           else (match rowsAt? s.k.pool (s.k.status s.k.epoch) tb with
                 | some r => some (setTh s th { t with mode := .ro, tab := tb, expect := some r })
                 | none => none)
       | some _ => some s          -- statistics read of `Database::run`
       | none => none)
    else
      let p := getTh s (parent th)
      if p.btab != some tb then none
      else
        let okMode := match p.cmd, m with
          | some (.insert _ _), .rw => true
          | some (.delete _ _ _), .ro => true
          | some (.delete _ _ _), .upd => true
          | some (.select _ _), .ro => true
          | some (.count _), .ro => true
          | _, _ => false
        if !okMode then none
        else if m == .upd then
          -- an update txn took the table's deletion lock before it pinned
          if (heldBy s tb).isSome then none
          else
            let s1 := { s with tlocks := (tb, th) :: s.tlocks }
            some (setTh (setTh s1 th { t with mode := m, tab := tb }) (parent th) { p with delE := some t.snapE })
        else some (setTh s th { t with mode := m, tab := tb })

def stepTxnLocked (s : Sys) (th : Tid) : Option Sys :=
    let t := getTh s th
    if t.mode != .upd || heldBy s t.tab != some th then none
    else some s

/-- `scan.batch`: `TableScanExecutor` fetched a batch.  The executor's read transaction — and with
it the version pin — lives from before the scan is opened until the stream ends, so a batch is
only ever fetched while the scan thread holds a pin (that is the hypothesis of
`reader_sees_start_snapshot`, here an observed event). -/
def stepScanBatch (s : Sys) (th : Tid) (_n : Nat) : Option Sys :=
    if (getTh s th).mode == .ro && s.k.pins.any (fun p => p.1 == th) then some s else none

/-- `txn.lock.begin`: an update txn is about to await the table lock (nothing shared changes) -/
def stepLockBegin (s : Sys) (_th : Tid) : Option Sys :=
    some s

def stepCommitBegin (s : Sys) (th : Tid) : Option Sys :=
    let t := getTh s th
    if t.begun then none
    else if th.2 == 0 then
      -- compactor
      (match t.cmd, t.cpCur, t.cpPlan with
       | some .compact, some tb, some (sel, rows) =>
           if !t.cpGot then none
           else if rows.isEmpty then
             let ops := sel.map Op.del ++ dvDels (s.k.status t.snapE) sel
             some (setTh s th { t with begun := true, ops := ops })
           else
             let ops := .add (tb, s.k.nextRid) rows :: (sel.map Op.del ++ dvDels (s.k.status t.snapE) sel)
             some (setTh (withK s (kReserve s.k th tb)) th { t with begun := true, ops := ops })
       | _, _, _ => none)
    else
      let p := getTh s (parent th)
      (match p.cmd, t.mode with
       | some (.insert _ vs), .rw =>
           some (setTh (withK s (kReserve s.k th t.tab)) th
             { t with begun := true,
                      ops := [.add (t.tab, s.k.nextRid) (if s.keyed.contains t.tab then sortInt vs else vs)] })
       | some (.delete _ _ _), .upd =>
           (match p.mail with
            | some hs =>
                if heldBy s t.tab != some th || handlersGone (s.k.status t.snapE) hs then none
                else
                  let keys := sortKeys (dedupKeys (hs.map (·.1)))
                  some (setTh (withK s (kAllocDv s.k keys.length)) th
                    { t with begun := true, ops := dvOps s.k.nextDv hs keys })
            | none => none)
       | some (.create n), .none =>
           -- under the DDL lock: the name is checked again before anything is logged
           if !p.isBound || s.ddlLock.isSome || (lookupName s n).isSome then none
           else some (setTh { s with ddlLock := some th } th { t with begun := true, ops := [.create n] })
       | some (.drop _), .none =>
           -- DROP TABLE took the table's deletion lock before it pinned
           (match p.btab with
            | some tb =>
                if (heldBy s tb).isSome then none
                else some (setTh { s with tlocks := (tb, th) :: s.tlocks } th
                  { t with begun := true, ops := dropOps (s.k.status t.snapE) tb })
            | none => none)
       | _, _ => none)

def stepCommitA (s : Sys) (th : Tid) : Option Sys :=
    let t := getTh s th
    -- `commit_changes` refuses RowSets / DVs for a table that DROP TABLE has marked as dropped
    -- (the table leaves `tables` in the same segment in which it is marked)
    if !t.begun || t.committed
        || (addKeys t.ops ++ dvKeys t.ops).any (fun key => !s.tables.contains key.1) then none
    else (match kCommitA s.k th t.ops with
          | some k' => some (withK s k')
          | none => none)

def stepPanic (s : Sys) (th : Tid) : Option Sys :=
  let t := getTh s th
  -- (a statement bound to a table that was dropped meanwhile no longer panics in
  -- `Builder::new`: it fails with "table not found", see `resultOf`)
  if !t.begun || t.committed then none
  else (match kCommitAPanic s.k th t.ops with
        | some k' =>
            let s1 := unlockAll (withK s k') th
            let p := getTh s1 (parent th)
            let r := if th.2 == 0 then Res.panic else Res.rows []
            some (setTh s1 (parent th) { p with res := some r })
        | none => none)

def stepAppend (s : Sys) (_th : Tid) : Option Sys :=
  some s

def stepCommitted (s : Sys) (th : Tid) : Option Sys :=
    let t := getTh s th
    (match kCommitB s.k th with
     | none => none
     | some k' =>
       let s1 := setTh (withK s k') th { t with committed := true }
       if th.2 == 0 then some s1
       else
         let p := getTh s1 (parent th)
         (match p.cmd with
          | some (.insert _ vs) => some (setTh s1 (parent th) { p with res := some (.rows [vs.length]) })
          | some (.delete _ _ _) =>
              some (setTh s1 (parent th) { p with res := some (.rows [(p.mail.getD []).length]) })
          | some (.drop _) => some (setTh s1 (parent th) { p with res := some (.rows [1]) })
          | _ => some s1))

def stepCreateApplied (s : Sys) (th : Tid) : Option Sys :=
    let p := getTh s (parent th)
    (match p.cmd with
     | some (.create n) =>
         if (lookupName s n).isSome || !(getTh s th).committed then none
         else
           let kd := if keyedName n then s.nextTid :: s.keyed else s.keyed
           let s1 := { s with catalog := (n, s.nextTid) :: s.catalog, tables := s.nextTid :: s.tables,
                              keyed := kd, nextTid := s.nextTid + 1 }
           some (setTh s1 (parent th) { p with res := some (.rows [1]) })
     | _ => none)

def stepDropApplied (s : Sys) (th : Tid) : Option Sys :=
    let p := getTh s (parent th)
    (match p.cmd, p.btab with
     | some (.drop _), some tb =>
         if !s.tables.contains tb then none
         else some { s with tables := s.tables.filter (fun x => x != tb),
                            catalog := s.catalog.filter (fun x => x.2 != tb) }
     | _, _ => none)

def stepCpPinned (s : Sys) (th : Tid) : Option Sys :=
    let t := getTh s th
    (match t.cmd with
     | some .compact => some (setTh s th { t with cpTodo := s.tables })
     | _ => none)

def stepCpTable (s : Sys) (th : Tid) (tb : Nat) : Option Sys :=
    let t := getTh s th
    if !t.cpTodo.contains tb || !cpSettled s th then none
    else
      let s1 := unlockAll s th
      some (setTh s1 th { t with cpTodo := t.cpTodo.filter (fun x => x != tb), cpCur := some tb,
                                 cpGot := false, cpPlan := none, begun := false, committed := false,
                                 ops := [] })

def stepCpLocked (s : Sys) (th : Tid) (tb : Nat) : Option Sys :=
    let t := getTh s th
    if t.cpCur != some tb || t.cpGot || (heldBy s tb).isSome then none
    else (match (match s.bigRows with
                 | some big => compactPlanSub? s.k t.snapE tb big
                 | none => compactPlan? s.k t.snapE tb) with
          | some plan =>
              -- a keyed table is compacted by a MERGE: the new row-set is sorted by key
              let plan' := if s.keyed.contains tb then plan.map (fun p => (p.1, sortInt p.2)) else plan
              some (setTh { s with tlocks := (tb, th) :: s.tlocks } th { t with cpGot := true, cpPlan := plan' })
          | none => none)

def stepCpEnd (s : Sys) (th : Tid) : Option Sys :=
    let t := getTh s th
    if !t.cpTodo.isEmpty || !cpSettled s th then none
    else some (setTh (unlockAll s th) th { t with cpCur := none, cpGot := false, cpPlan := none })

def stepVacFind (s : Sys) (th : Tid) : Option Sys :=
    (match (getTh s th).cmd with
     | some .vacuum => some (withK s (kFind s.k th))
     | _ => none)

def stepVacUnlinked (s : Sys) (th : Tid) (key : Key) : Option Sys :=
    (match s.k.uq.find? (fun q => q.1 == th && q.2.2 == key) with
     | some q =>
         if s.k.disk.contains key then some (withK s (kUnlink s.k th q.2.1 key)) else none
     | none => none)

def stepRdOpen (s : Sys) (th : Tid) : Option Sys :=
    let t := getTh s th
    -- opening the iterators: every row-set of the pinned snapshot must be in the pool
    (match t.cmd, rowsAt? s.k.pool (s.k.status t.snapE) t.tab with
     | some (.read _ _), some _ => some s
     | _, _ => none)

def stepRdBatch (s : Sys) (th : Tid) (n : Nat) : Option Sys :=
    let t := getTh s th
    (match t.cmd, rowsAt? s.k.pool (s.k.status t.snapE) t.tab with
     | some (.read _ _), some r =>
         if t.fetched + n ≤ r.length then some (setTh s th { t with fetched := t.fetched + n }) else none
     | _, _ => none)

def stepCmdDone (s : Sys) (th : Tid) : Option Sys :=
    let t := getTh s th
    (match t.cmd, resultOf s th t with
     | some c, some r =>
         let s1 := unlockActor (withK s (kAbandon s.k th)) th.1
         some (setTh { s1 with outs := s.outs ++ [(th, c, r)] } th {})
     | _, _ => none)

/-- One atomic segment. `none` = the segment is not enabled in this state (for a trace produced
by the implementation: model and implementation disagree). -/
def astep (s : Sys) : Act → Option Sys
  | .config big => some { s with bigRows := some big }
  | .cmdBegin th c => stepCmdBegin s th c
  | .bound th => stepBound s th
  | .pin th => stepPin s th
  | .unpin th e => stepUnpin s th e
  | .txnPinned th m tb => stepTxnPinned s th m tb
  | .txnLocked th => stepTxnLocked s th
  | .lockBegin th => stepLockBegin s th
  | .scanBatch th n => stepScanBatch s th n
  | .commitBegin th => stepCommitBegin s th
  | .commitA th => stepCommitA s th
  | .panic th => stepPanic s th
  | .append th => stepAppend s th
  | .committed th => stepCommitted s th
  | .createApplied th => stepCreateApplied s th
  | .dropApplied th => stepDropApplied s th
  | .cpPinned th => stepCpPinned s th
  | .cpTable th tb => stepCpTable s th tb
  | .cpLocked th tb => stepCpLocked s th tb
  | .cpEnd th => stepCpEnd s th
  | .vacFind th => stepVacFind s th
  | .vacUnlinked th key => stepVacUnlinked s th key
  | .rdOpen th => stepRdOpen s th
  | .rdBatch th n => stepRdBatch s th n
  | .cmdDone th => stepCmdDone s th

def run (s : Sys) : List Act → Option Sys
  | [] => some s
  | a :: r => match astep s a with
    | some s' => run s' r
    | none => none

/-- state of a freshly opened empty database (bootstrap commits once: epoch 1) -/
def init : Sys := {}

end SC
end RlModel
