/-
L9 — operator tasks, broadcast channels and fault propagation (property C15).

Modelled code: `Builder::spawn`, `StreamSubscriber::subscribe` (src/executor/mod.rs), the
`#[for_await] for chunk in child { … chunk? … }` loops of every executor (src/executor/*.rs),
`Database::run`'s `try_collect` (src/db.rs), `InsertExecutor` / `DeleteExecutor`
(buffer in a storage transaction, `commit` after the child stream ended; a `?` drops = aborts it).

Two layers:

* **channel** (`Chan`, bottom of the file): the `async_broadcast` channel exactly as `spawn` uses it:
  created with one *active* receiver, producer task spawned, the receiver is `deactivate`d, every
  consumer later gets `activate_cloned`.  Messages carry a count of receivers still to read them;
  a receiver that goes away takes its share of every queued message with it.
* **traces** (`Tr`, `Phase`, `Plan`): what a task sends before its channel closes is a list of
  chunks followed by at most one `Err` (a `try_stream` ends after its first error); what the
  parent's `for_await` loop does with it.  Faults (hook H4, `exec.chunk`) sit in the task's output
  loop: at item index `k` the task either sends `Err` and stops (`error`) or panics (`panic`: caught by
  `forward_panic`, which sends `Err(operator panicked)`; before that repair the channel just closed).

Core Lean only.
-/
namespace RlModel
namespace Strm

/-- What a task sent before its channel closed: chunks, then `some e` if the last item was
`Err e`, `none` if the channel just closed (normal end **or** the task died). -/
structure Tr (α : Type) where
  chunks : List α
  fin : Option Nat
  deriving Repr, BEq, DecidableEq

inductive FaultKind where
  | error | panic
  deriving Repr, BEq, DecidableEq

/-- Fault at the `k`-th item (0-based; the trailing `Err` item, if any, counts as an item). -/
structure Fault where
  k : Nat
  kind : FaultKind
  deriving Repr, BEq, DecidableEq

/-- Number of items the output loop of `spawn` sees. -/
def Tr.items {α : Type} (t : Tr α) : Nat := t.chunks.length + (if t.fin.isSome then 1 else 0)

/-- The output loop of `Builder::spawn` with hook H4: `t` is what the operator's stream yields. -/
def applyFault {α : Type} (ft : Option Fault) (t : Tr α) : Tr α :=
  match ft with
  | none => t
  | some f =>
    if f.k < t.items then
      match f.kind with
      | .error => ⟨t.chunks.take f.k, some 0⟩      -- item k replaced by Err, then the task returns
      -- the task panics: `forward_panic` (since /repo "fix: a panic inside an operator task …")
      -- catches it and sends `Err(operator panicked)` before the channel closes.  (Before that
      -- fix this was `⟨t.chunks.take f.k, none⟩`: the channel just closed.)
      | .panic => ⟨t.chunks.take f.k, some 2⟩
    else t

/-- One `#[for_await] for chunk in child { … }` loop over one child.
`stopBefore`: a `break` taken before the polled item is looked at (`if self.limit == 0 { break }`);
`onChunk`: the loop body after `chunk?` (new state, chunks yielded) or the operator's own error;
`stopAfter`: a `break` at the end of the body. -/
structure Phase (σ α : Type) where
  stopBefore : σ → Bool
  onChunk : σ → α → Except Nat (σ × List α)
  stopAfter : σ → Bool

/-- Runs a loop over a child's trace `(cs, fin)`: yielded chunks and either the state after the
loop or the error raised by `?`. -/
def Phase.run {σ α : Type} (ph : Phase σ α) (fin : Option Nat) : σ → List α → List α × Except Nat σ
  | s, [] =>
    match fin with
    | none => ([], .ok s)
    | some e => if ph.stopBefore s then ([], .ok s) else ([], .error e)
  | s, c :: cs =>
    if ph.stopBefore s then ([], .ok s)
    else match ph.onChunk s c with
      | .error e => ([], .error e)
      | .ok (s', outs) =>
        if ph.stopAfter s' then (outs, .ok s')
        else
          let r := ph.run fin s' cs
          (outs ++ r.1, r.2)

/-- The code after the loop(s): yields the rest or fails. -/
def finish {σ α : Type} (onEnd : σ → Except Nat (List α)) (outs : List α) : Except Nat σ → Tr α
  | .error e => ⟨outs, some e⟩
  | .ok s =>
    match onEnd s with
    | .ok more => ⟨outs ++ more, none⟩
    | .error e => ⟨outs, some e⟩

/-- Executor with one child. -/
structure Op1 (α : Type) where
  σ : Type
  init : σ
  ph : Phase σ α
  onEnd : σ → Except Nat (List α)

/-- Executor with two children, read one after the other (build, then probe). -/
structure Op2 (α : Type) where
  σ : Type
  init : σ
  phL : Phase σ α
  phR : Phase σ α
  onEnd : σ → Except Nat (List α)

def Op1.exec {α : Type} (o : Op1 α) (t : Tr α) : Tr α :=
  let r := o.ph.run t.fin o.init t.chunks
  finish o.onEnd r.1 r.2

/-- The second loop and the tail of a two-child executor, given the result `a` of the first loop. -/
def Op2.cont {α : Type} (o : Op2 α) (r : Tr α) (a : List α × Except Nat o.σ) : Tr α :=
  match a.2 with
  | .error e => ⟨a.1, some e⟩
  | .ok s => finish o.onEnd (a.1 ++ (o.phR.run r.fin s r.chunks).1) (o.phR.run r.fin s r.chunks).2

def Op2.exec {α : Type} (o : Op2 α) (l r : Tr α) : Tr α :=
  o.cont r (o.phL.run l.fin o.init l.chunks)

/-- Executor with two children pulled in an order that depends on its state (`MergeJoinExecutor`:
`left_groups.next().await.transpose()?` / `right_groups.next().await.transpose()?` inside one
loop).  `want s`: which side the loop polls next (`true` = left), `none`: the loop is over.
`onItem s side (some c)`: that side delivered chunk `c`; `onItem s side none`: it has ended. -/
structure OpM (α : Type) where
  σ : Type
  init : σ
  want : σ → Option Bool
  onItem : σ → Bool → Option α → Except Nat (σ × List α)
  onEnd : σ → Except Nat (List α)

/-- Chunks yielded so far in front of the rest of a trace. -/
def Tr.prepend {α : Type} (outs : List α) (t : Tr α) : Tr α := ⟨outs ++ t.chunks, t.fin⟩

/-- The interleaved loop; `l`, `r` are what is left of the two input traces; an `Err` item polled
from either side is re-raised by `?` at whatever position it has. `fuel` bounds the number of polls
(a property of the plan node, the same in every run). -/
def OpM.go {α : Type} (o : OpM α) : Nat → o.σ → Tr α → Tr α → Tr α
  | 0, s, _, _ => finish o.onEnd [] (.ok s)
  | n + 1, s, l, r =>
    match o.want s with
    | none => finish o.onEnd [] (.ok s)
    | some side =>
      let inp := if side then l else r
      match inp.chunks with
      | c :: cs =>
        match o.onItem s side (some c) with
        | .error e => ⟨[], some e⟩
        | .ok (s', outs) =>
          (o.go n s' (if side then ⟨cs, l.fin⟩ else l) (if side then r else ⟨cs, r.fin⟩)).prepend outs
      | [] =>
        match inp.fin with
        | some e => ⟨[], some e⟩
        | none =>
          match o.onItem s side none with
          | .error e => ⟨[], some e⟩
          | .ok (s', outs) => (o.go n s' l r).prepend outs

def OpM.exec {α : Type} (o : OpM α) (fuel : Nat) (l r : Tr α) : Tr α := o.go fuel o.init l r

/-- An executor that yields only inside its loop (`filter`, `proj`, `limit`, `window`): nothing
after the loop, and the tail never fails. -/
def Op1.Streaming {α : Type} (o : Op1 α) : Prop := ∀ s, o.onEnd s = .ok []

/-- A plan: every node is one spawned task; `ft` is the fault armed at that node (at most one
node carries one in the property's quantifier; the theorems allow any number). -/
inductive Plan (α : Type) : Type 1 where
  | leaf (ft : Option Fault) (out : Tr α)
  | unary (ft : Option Fault) (o : Op1 α) (child : Plan α)
  | binary (ft : Option Fault) (o : Op2 α) (l r : Plan α)
  | mjoin (ft : Option Fault) (o : OpM α) (fuel : Nat) (l r : Plan α)

/-- What the task of the root of `p` sends. -/
def Plan.tr {α : Type} : Plan α → Tr α
  | .leaf ft out => applyFault ft out
  | .unary ft o c => applyFault ft (o.exec c.tr)
  | .binary ft o l r => applyFault ft (o.exec l.tr r.tr)
  | .mjoin ft o fuel l r => applyFault ft (o.exec fuel l.tr r.tr)

/-- The same plan with every fault disarmed. -/
def Plan.clean {α : Type} : Plan α → Plan α
  | .leaf _ out => .leaf none out
  | .unary _ o c => .unary none o c.clean
  | .binary _ o l r => .binary none o l.clean r.clean
  | .mjoin _ o fuel l r => .mjoin none o fuel l.clean r.clean

/-- Plans that are a chain of streaming executors over one source. -/
def Plan.StreamChain {α : Type} : Plan α → Prop
  | .leaf _ _ => True
  | .unary _ o c => o.Streaming ∧ c.StreamChain
  | .binary _ _ _ _ => False
  | .mjoin _ _ _ _ _ => False

/-- `try_collect` in `Database::run`. -/
def collect {α : Type} (t : Tr α) : Except Nat (List α) :=
  match t.fin with
  | some e => .error e
  | none => .ok t.chunks

def Plan.run {α : Type} (p : Plan α) : Except Nat (List α) := collect p.tr

/-- A loop that never `break`s (every executor but `limit`). -/
def Phase.NoStop {σ α : Type} (ph : Phase σ α) : Prop :=
  (∀ s, ph.stopBefore s = false) ∧ (∀ s, ph.stopAfter s = false)

/-- A fault (of either kind) that fires at some node, with every task between it and the root
unfaulted and reading its children to the end. -/
def Plan.ErrHit {α : Type} : Plan α → Prop
  | .leaf ft out => ∃ k kd, ft = some ⟨k, kd⟩ ∧ k < out.items
  | .unary ft o c =>
      (∃ k kd, ft = some ⟨k, kd⟩ ∧ k < (o.exec c.tr).items) ∨
      (ft = none ∧ o.ph.NoStop ∧ c.ErrHit)
  | .binary ft o l r =>
      (∃ k kd, ft = some ⟨k, kd⟩ ∧ k < (o.exec l.tr r.tr).items) ∨
      (ft = none ∧ o.phL.NoStop ∧ o.phR.NoStop ∧ (l.ErrHit ∨ r.ErrHit))
  | .mjoin ft o fuel l r => ∃ k kd, ft = some ⟨k, kd⟩ ∧ k < (o.exec fuel l.tr r.tr).items

/-! ### DML statements: `InsertExecutor` / `DeleteExecutor` -/

/-- `check c = some e`: appending / deleting chunk `c` fails by itself (cast error, storage
error); `count` builds the one-row result chunk. -/
structure Dml (α : Type) where
  check : α → Option Nat
  count : List α → α

/-- The DML loop: buffer every chunk in the transaction, never `break`. -/
def Dml.phase {α : Type} (d : Dml α) : Phase (List α) α where
  stopBefore := fun _ => false
  onChunk := fun s c => match d.check c with
    | some e => .error e
    | none => .ok (s ++ [c], [])
  stopAfter := fun _ => false

inductive Stmt (α : Type) : Type 1 where
  | query (p : Plan α)
  | dml (ft : Option Fault) (d : Dml α) (child : Plan α)

structure Result (α : Type) where
  /-- what `Database::run` returns -/
  out : Except Nat (List α)
  /-- `some cs`: the transaction committed with exactly the chunks `cs` applied -/
  committed : Option (List α)

/-- `txn.commit()` is reached iff the loop ended without `?` raising. The task's own fault sits in
its output loop, i.e. *after* the commit. -/
def Stmt.run {α : Type} : Stmt α → Result α
  | .query p => ⟨p.run, none⟩
  | .dml ft d child =>
    let t := child.tr
    let r := d.phase.run t.fin [] t.chunks
    match r.2 with
    | .error e => ⟨collect (applyFault ft ⟨[], some e⟩), none⟩
    | .ok s => ⟨collect (applyFault ft ⟨[d.count s], none⟩), some s⟩

def Stmt.clean {α : Type} : Stmt α → Stmt α
  | .query p => .query p.clean
  | .dml _ d c => .dml none d c.clean

/-! ### the storage write transaction behind INSERT / COPY (`SecondaryTransaction`)

`append_inner` buffers chunks in a memtable; when the buffered size reaches `target_rowset_size`
the memtable is rolled over: flushed to a row-set on disk (`flush_rowset`) and kept in
`to_be_committed_rowsets`.  Only `commit` hands the row-sets to the version manager (one manifest
transaction); dropping the transaction publishes nothing. -/

structure WTxn (α : Type) where
  /-- row-sets of the published version (what every reader sees) -/
  visible : List (List α)
  /-- the memtable -/
  mem : List α
  /-- `to_be_committed_rowsets`: rolled-over row-sets, on disk, not published -/
  pending : List (List α)
  /-- `total_size` -/
  size : Nat
  deriving Repr, DecidableEq

def WTxn.start {α : Type} (visible : List (List α)) : WTxn α := ⟨visible, [], [], 0⟩

/-- `append_inner` with `target_rowset_size = limit`; `sz c = 0` is a chunk without rows (ignored). -/
def WTxn.append {α : Type} (limit : Nat) (sz : α → Nat) (t : WTxn α) (c : α) : WTxn α :=
  if sz c = 0 then t
  else if t.size + sz c ≥ limit then { t with mem := [], pending := t.pending ++ [t.mem ++ [c]], size := 0 }
  else { t with mem := t.mem ++ [c], size := t.size + sz c }

def WTxn.appendAll {α : Type} (limit : Nat) (sz : α → Nat) (t : WTxn α) (cs : List α) : WTxn α :=
  cs.foldl (WTxn.append limit sz) t

/-- `commit_inner`: flush the memtable, publish every row-set of the transaction at once. -/
def WTxn.commit {α : Type} (t : WTxn α) : List (List α) :=
  t.visible ++ t.pending ++ (if t.mem.isEmpty then [] else [t.mem])

/-- The transaction is dropped (`?` in the executor, a panic, an explicit abort). -/
def WTxn.abort {α : Type} (t : WTxn α) : List (List α) := t.visible

/-- Row-set directories the transaction has created so far (`create_dir` per started row-set). -/
def WTxn.started {α : Type} (t : WTxn α) : Nat := t.pending.length + (if t.mem.isEmpty then 0 else 1)

/-! ### Concrete operators used by the correspondence driver

Chunks are tokens: which node produced it, its index in that node's fault-free output, its row
count, and whether the content is the fault-free content (`exact`) or unknown because some
operator below computed on a silently truncated input. -/

structure Ck where
  node : Nat
  idx : Nat
  card : Nat
  exact : Bool
  deriving Repr, BEq, DecidableEq

/-- `filter`, `proj`: one output chunk per input chunk; `outs` = fault-free output row counts;
`failAt = some j`: the operator itself fails on its `j`-th input chunk. -/
def streamOp (id : Nat) (outs : List Nat) (failAt : Option Nat) : Op1 Ck where
  σ := Nat
  init := 0
  ph := {
    stopBefore := fun _ => false
    onChunk := fun i c =>
      if failAt = some i then .error 1
      else .ok (i + 1, [⟨id, i, (outs[i]?).getD 0, c.exact && c.idx == i⟩])
    stopAfter := fun _ => false }
  onEnd := fun _ => .ok []

/-- Blocking operators (`agg`, `hashagg`, `sortagg`, `order`, `topn`, `window`): consume
everything, then emit.  With the complete fault-free input (`nIn` exact chunks) the output is the
fault-free output, otherwise one chunk of unknown content. -/
def blockOp (id : Nat) (nIn : Nat) (outs : List Nat) (failEnd : Bool) : Op1 Ck where
  σ := Nat × Bool
  init := (0, true)
  ph := {
    stopBefore := fun _ => false
    onChunk := fun s c => .ok ((s.1 + 1, s.2 && c.exact && c.idx == s.1), [])
    stopAfter := fun _ => false }
  onEnd := fun s =>
    if s.1 == nIn && s.2 then
      (if failEnd then .error 1 else .ok ((List.range outs.length).map fun i => ⟨id, i, (outs[i]?).getD 0, true⟩))
    else .ok [⟨id, 0, 0, false⟩]

/-- `LimitExecutor::execute` (src/executor/limit.rs), on row counts.  State: rows processed,
number of chunks emitted, and whether every chunk seen so far had known content. -/
def limitOp (id : Nat) (limit offset : Nat) : Op1 Ck where
  σ := Nat × Nat × Bool
  init := (0, 0, true)
  ph := {
    stopBefore := fun _ => limit == 0
    onChunk := fun s c =>
      let processed := s.1
      let start := max processed offset - processed
      let stop := min (processed + c.card) (offset + limit) - processed
      let ex := s.2.2 && c.exact
      if start ≥ stop then .ok ((processed + c.card, s.2.1, ex), [])
      else .ok ((processed + c.card, s.2.1 + 1, ex), [⟨id, s.2.1, stop - start, ex⟩])
    -- an input of unknown content has an unknown row count: the model then only says
    -- "reads on" (the outcome class does not depend on it: unknown content only arises from a
    -- silent truncation, which carries no error)
    stopAfter := fun s => s.2.2 && s.1 ≥ offset + limit }
  onEnd := fun _ => .ok []

/-- Joins (`join`, `hashjoin`, `mergejoin`): read both children completely. -/
def joinOp (id : Nat) (nL nR : Nat) (outs : List Nat) : Op2 Ck where
  σ := (Nat × Bool) × (Nat × Bool)
  init := ((0, true), (0, true))
  phL := {
    stopBefore := fun _ => false
    onChunk := fun s c => .ok (((s.1.1 + 1, s.1.2 && c.exact && c.idx == s.1.1), s.2), [])
    stopAfter := fun _ => false }
  phR := {
    stopBefore := fun _ => false
    onChunk := fun s c => .ok ((s.1, (s.2.1 + 1, s.2.2 && c.exact && c.idx == s.2.1)), [])
    stopAfter := fun _ => false }
  onEnd := fun s =>
    if s.1.1 == nL && s.1.2 && s.2.1 == nR && s.2.2 then
      .ok ((List.range outs.length).map fun i => ⟨id, i, (outs[i]?).getD 0, true⟩)
    else .ok [⟨id, 0, 0, false⟩]

/-- `MergeJoinExecutor` over tokens: alternately polls the side that has not ended (left first),
stops when both have ended; with both fault-free inputs complete it emits the fault-free output,
otherwise one chunk of unknown content.  State: (left chunks seen, all exact, ended), same for right. -/
def mergeJoinOp (id : Nat) (nL nR : Nat) (outs : List Nat) : OpM Ck where
  σ := (Nat × Bool × Bool) × (Nat × Bool × Bool) × Bool
  init := ((0, true, false), (0, true, false), true)
  want := fun s =>
    if !s.1.2.2 && (s.2.2 || s.2.1.2.2) then some true
    else if !s.2.1.2.2 then some false
    else if !s.1.2.2 then some true else none
  onItem := fun s side item =>
    match side, item with
    | true, some c => .ok (((s.1.1 + 1, s.1.2.1 && c.exact && c.idx == s.1.1, false), s.2.1, false), [])
    | true, none => .ok (((s.1.1, s.1.2.1, true), s.2.1, false), [])
    | false, some c => .ok ((s.1, (s.2.1.1 + 1, s.2.1.2.1 && c.exact && c.idx == s.2.1.1, false), true), [])
    | false, none => .ok ((s.1, (s.2.1.1, s.2.1.2.1, true), true), [])
  onEnd := fun s =>
    if s.1.1 == nL && s.1.2.1 && s.2.1.1 == nR && s.2.1.2.1 then
      .ok ((List.range outs.length).map fun i => ⟨id, i, (outs[i]?).getD 0, true⟩)
    else .ok [⟨id, 0, 0, false⟩]

/-- The writer of `COPY … TO` (`CopyToFileExecutor` + its blocking writer thread): every chunk is
written (`writeErr = some j`: the write of chunk `j` fails), then the writer **finishes** — flushes
what is still buffered (`flushErr = some e`: that flush fails) — and only then the row count is
reported. -/
def copyToOp (id : Nat) (writeErr : Option Nat) (flushErr : Option Nat) : Op1 Ck where
  σ := Nat × Nat
  init := (0, 0)
  ph := {
    stopBefore := fun _ => false
    onChunk := fun s c => if writeErr = some s.1 then .error 3 else .ok ((s.1 + 1, s.2 + c.card), [])
    stopAfter := fun _ => false }
  onEnd := fun s => match flushErr with
    | some e => .error e
    | none => .ok [⟨id, s.2, 1, true⟩]

/-- INSERT / DELETE over token chunks: never fails by itself in the generated cases. -/
def dmlCk (id : Nat) : Dml Ck where
  check := fun _ => none
  -- the one-row result chunk; its content (the row count) is kept in `idx`
  count := fun cs => ⟨id, cs.foldl (fun a c => a + c.card) 0, 1, cs.all (·.exact)⟩

/-! ## The broadcast channel as `Builder::spawn` uses it

`async_broadcast::broadcast(16)` returns a sender and one active receiver; `spawn` starts the
producer task, then turns that receiver into an `InactiveReceiver` (`rx.deactivate()`); each
`subscribe` calls `activate_cloned`.  A queued message stores how many active receivers still
have to read it and is dropped when that number reaches 0.  `Receiver::drop` (which `deactivate`
runs) reads-and-discards everything still queued for that receiver.  With no active receiver and
an inactive one the sender waits (`await_active`, the default). -/

structure Chan (α : Type) where
  cap : Nat
  /-- queued messages, oldest first, with the number of receivers that still have to read them -/
  queue : List (α × Nat)
  /-- absolute position of the head of the queue -/
  head : Nat
  /-- active receivers: absolute position of the next message each will read -/
  active : List Nat
  inactive : Nat
  closed : Bool
  deriving Repr

inductive ChanAct (α : Type) where
  | send (m : α)          -- producer: `tx.broadcast(m)` (blocked when full or nobody active)
  | deactivate            -- `rx.deactivate()` of the first active receiver
  | activate              -- `inactive.activate_cloned()`
  | recv                  -- first active receiver: `rx.recv()` when a message is available
  | close                 -- sender dropped
  deriving Repr

/-- Drops fully-read messages at the head. -/
def Chan.gc {α : Type} (c : Chan α) : Chan α :=
  let dropped := (c.queue.takeWhile fun m => m.2 == 0).length
  { c with queue := c.queue.drop dropped, head := c.head + dropped }

/-- One action; `none` when it is not enabled (the caller would block / it is meaningless).
The third component is what a `recv` returned. -/
def Chan.step {α : Type} (c : Chan α) : ChanAct α → Option (Chan α × Option α)
  | .send m =>
    if c.closed || c.active.isEmpty || c.queue.length ≥ c.cap then none
    else some ({ c with queue := c.queue ++ [(m, c.active.length)] }, none)
  | .deactivate =>
    match c.active with
    | [] => none
    | pos :: rest =>
      -- the receiver goes away: every message at or after `pos` loses one pending reader
      let i := pos - c.head
      let q := c.queue.take i ++ (c.queue.drop i).map fun m => (m.1, m.2 - 1)
      some (Chan.gc { c with queue := q, active := rest, inactive := c.inactive + 1 }, none)
  | .activate =>
    if c.inactive == 0 then none
    else some ({ c with active := c.active ++ [c.head + c.queue.length] }, none)
  | .recv =>
    match c.active with
    | [] => none
    | pos :: rest =>
      match c.queue[pos - c.head]? with
      | none => none
      | some m =>
        let q := c.queue.set (pos - c.head) (m.1, m.2 - 1)
        some (Chan.gc { c with queue := q, active := (pos + 1) :: rest }, some m.1)
  | .close => some ({ c with closed := true }, none)

/-- `broadcast(cap)`: one active receiver, nothing queued. -/
def Chan.new {α : Type} (cap : Nat) : Chan α :=
  { cap := cap, queue := [], head := 0, active := [0], inactive := 0, closed := false }

/-- Runs a schedule, skipping actions that are not enabled; returns the final channel, the
messages accepted from the producer and the messages delivered to the (single) consumer. -/
def Chan.runSched {α : Type} : Chan α → List (ChanAct α) → List α → List α → Chan α × List α × List α
  | c, [], sent, got => (c, sent, got)
  | c, a :: as, sent, got =>
    match c.step a with
    | none => Chan.runSched c as sent got
    | some (c', r) =>
      let sent' := match a with | .send m => sent ++ [m] | _ => sent
      let got' := match r with | some m => got ++ [m] | none => got
      Chan.runSched c' as sent' got'

end Strm
end RlModel
