/-
Persistence-step model of the secondary storage engine (property C04).

Modelled code: `Manifest::{append, replay}` (manifest.rs), `SecondaryStorage::bootstrap`
(storage.rs), `VersionManager::rewrite_changes` (version_manager.rs),
`SecondaryTransaction::{append_inner, flush_rowset, commit_inner}` (transaction.rs),
`RowsetWriter::{create_dir, pipe_to_file}` (rowset_writer.rs), `drop_table_inner`.

Every statement is a list of `PStep`s in the order the code performs them; a crash keeps the
first `k` steps and a byte prefix of step `k+1`.  File-system model: writes to one file are
prefix-atomic, directory operations and `rename` are atomic, `fsync` is the identity (OS
reordering of un-synced writes is NOT modelled).

Manifest bytes are abstracted to records plus a `torn` flag: serde_json's stream deserializer
accepts a file cut exactly between two records and fails with `EOF while parsing …` on any other
proper prefix of a record (records are a JSON string `"Begin"`/`"End"` or one JSON object, no
whitespace in between), which is what `cutAt` computes from the record byte lengths.

Core Lean only.
-/
namespace RlModel
namespace Crash

inductive Rec where
  | begin | fin
  | createTable (name : String) (ncols : Nat)
  | dropTable (t : Nat)
  | addRowSet (t r : Nat)
  | deleteRowSet (t r : Nat)
  | addDV (t r d : Nat)
  | deleteDV (t r d : Nat)
  deriving Repr, DecidableEq, BEq, Inhabited

/-- A row-set directory `<t>_<r>`: the rows it will hold once all its files are written. -/
structure RowsetDir where
  t : Nat
  r : Nat
  rows : List (List Int)
  filesDone : Nat
  filesTotal : Nat
  partialFile : Bool
  deriving Repr, DecidableEq, BEq

def RowsetDir.complete (x : RowsetDir) : Bool := x.filesDone == x.filesTotal && !x.partialFile

/-- A delete-vector file `dv/<t>_<r>_<d>.dv`. -/
structure DvFile where
  t : Nat
  r : Nat
  d : Nat
  dels : List Nat
  complete : Bool
  deriving Repr, DecidableEq, BEq

structure Disk where
  /-- 0: nothing, 1: db directory, 2: + `dv/`, 3: + `manifest.json` exists -/
  boot : Nat
  recs : List Rec
  /-- a partial record at the end of `manifest.json` -/
  torn : Bool
  /-- `manifest.tmp.json` (records, torn) -/
  tmp : Option (List Rec × Bool)
  rowsets : List RowsetDir
  dvfiles : List DvFile
  /-- what `manifest.json` held before the last `rename` of the tmp file over it.  The code never
  fsyncs the directory after that rename, so a file system may still lose it (`loseRename`). -/
  shadow : Option (List Rec) := none
  deriving Repr, DecidableEq, BEq

def Disk.empty : Disk := ⟨0, [], false, none, [], [], none⟩

inductive PStep where
  | mkdirDb | mkdirDv | createManifest
  | mkdir (t r : Nat) (rows : List (List Int)) (nfiles : Nat)
  | writeFile (t r : Nat) (idx : Nat)
  | writeDv (t r d : Nat) (dels : List Nat)
  | appendManifest (recs : List Rec)
  | createTmp | appendTmp (recs : List Rec) | renameTmp
  | rmdir (t r : Nat)
  /-- boot-time unlink of a delete-vector file the manifest does not name (/repo 36211f7) -/
  | rmdv (t r d : Nat)
  /-- fsync of the database directory after the rename (/repo 96ec538): the rename is durable -/
  | syncDir
  deriving Repr, DecidableEq, BEq

/-- How far a write got.  `full`: the step completed.  For record files: `recs c torn` = `c`
complete records and possibly a partial one; for data files: `part` = created, not complete. -/
inductive Progress where
  | full
  | part
  | recs (c : Nat) (torn : Bool)
  deriving Repr, DecidableEq, BEq

/-- Cuts an append of records with byte lengths `lens` after `j` bytes. -/
def cutAt : List Nat → Nat → Nat × Bool
  | [], _ => (0, false)
  | l :: ls, j =>
    if j = 0 then (0, false)
    else if j < l then (0, true)
    else let r := cutAt ls (j - l); (r.1 + 1, r.2)

def updRowset (f : RowsetDir → RowsetDir) (t r : Nat) : List RowsetDir → List RowsetDir
  | [] => []
  | x :: xs => if x.t = t ∧ x.r = r then f x :: xs else x :: updRowset f t r xs

def Disk.apply (d : Disk) (s : PStep) (p : Progress) : Disk :=
  match s with
  | .mkdirDb => { d with boot := max d.boot 1 }
  | .mkdirDv => { d with boot := max d.boot 2 }
  | .createManifest => { d with boot := max d.boot 3 }
  | .mkdir t r rows n => { d with rowsets := d.rowsets ++ [⟨t, r, rows, 0, n, false⟩] }
  | .writeFile t r _ =>
    match p with
    | .full => { d with rowsets := updRowset (fun x => { x with filesDone := x.filesDone + 1 }) t r d.rowsets }
    | _ => { d with rowsets := updRowset (fun x => { x with partialFile := true }) t r d.rowsets }
  | .writeDv t r dv dels =>
    { d with dvfiles := d.dvfiles ++ [⟨t, r, dv, dels, p == .full⟩] }
  | .appendManifest rs =>
    match p with
    | .recs c torn => { d with recs := d.recs ++ rs.take c, torn := torn }
    | _ => { d with recs := d.recs ++ rs }
  | .createTmp => { d with tmp := some ([], false) }
  | .appendTmp rs =>
    match p with
    | .recs c torn => { d with tmp := some (rs.take c, torn) }
    | _ => { d with tmp := some (rs, false) }
  | .renameTmp =>
    match d.tmp with
    | some (rs, torn) => { d with recs := rs, torn := torn, tmp := none, shadow := some d.recs }
    | none => d
  | .rmdir t r => { d with rowsets := d.rowsets.filter fun x => !(x.t == t && x.r == r) }
  | .rmdv t r dv => { d with dvfiles := d.dvfiles.filter fun x => !(x.t == t && x.r == r && x.d == dv) }
  | .syncDir => { d with shadow := none }

def Disk.applyAll (d : Disk) (steps : List PStep) : Disk := steps.foldl (fun d s => d.apply s .full) d

/-- `crash d steps k p`: the first `k` steps completed, step `k+1` got as far as `p`
(`none` = not started). -/
def crash (d : Disk) (steps : List PStep) (k : Nat) (p : Option Progress) : Disk :=
  let d' := d.applyAll (steps.take k)
  match steps[k]?, p with
  | some s, some p => d'.apply s p
  | _, _ => d'

/-! ### `Manifest::replay` -/

structure ReplaySt where
  inTxn : Bool
  buf : List Rec
  acc : List Rec
  deriving Repr, DecidableEq

def replayStep (st : ReplaySt) : Rec → ReplaySt
  | .begin => { st with inTxn := true }                      -- (the buffer is NOT cleared)
  | .fin => ⟨false, [], st.acc ++ st.buf⟩
  | r => if st.inTxn then { st with buf := st.buf ++ [r] } else st

def replayFrom (st : ReplaySt) (rs : List Rec) : ReplaySt := rs.foldl replayStep st
def replay (rs : List Rec) : List Rec := (replayFrom ⟨false, [], []⟩ rs).acc

/-! ### `bootstrap`: applying the replayed operations -/

structure TableInfo where
  name : String
  id : Nat
  ncols : Nat
  deriving Repr, DecidableEq, BEq

structure View where
  tables : List TableInfo
  nTables : Nat
  /-- CreateTable / DropTable entries in log order (the rewrite keeps them) -/
  tableLog : List Rec
  rowsets : List (Nat × Nat)
  dvs : List (Nat × Nat × Nat)
  nextR : Nat
  nextD : Nat
  deriving Repr, DecidableEq, BEq

def View.empty : View := ⟨[], 0, [], [], [], 0, 0⟩

def View.applyRec (v : View) : Rec → Except String View
  | .createTable name ncols =>
    if v.tables.any (·.name == name) then .error "duplicated-table"
    else .ok { v with tables := v.tables ++ [⟨name, v.nTables, ncols⟩], nTables := v.nTables + 1,
                       tableLog := v.tableLog ++ [.createTable name ncols] }
  | .dropTable t =>
    if v.tables.any (·.id == t) then
      .ok { v with tables := v.tables.filter (·.id != t), tableLog := v.tableLog ++ [.dropTable t] }
    else .error "table-not-found"
  | .addRowSet t r =>
    .ok { v with rowsets := (v.rowsets.filter (· != (t, r))) ++ [(t, r)], nextR := max v.nextR (r + 1) }
  | .deleteRowSet t r => .ok { v with rowsets := v.rowsets.filter (· != (t, r)) }
  | .addDV t r d =>
    .ok { v with dvs := (v.dvs.filter (· != (t, r, d))) ++ [(t, r, d)], nextD := max v.nextD (d + 1) }
  | .deleteDV t r d => .ok { v with dvs := v.dvs.filter (· != (t, r, d)) }
  | .begin => .ok v
  | .fin => .ok v

def View.applyRecs : View → List Rec → Except String View
  | v, [] => .ok v
  | v, r :: rs => match v.applyRec r with
    | .ok v' => v'.applyRecs rs
    | .error e => .error e

def findRowset (d : Disk) (t r : Nat) : Option RowsetDir := d.rowsets.find? fun x => x.t == t && x.r == r
def findDv (d : Disk) (t r dv : Nat) : Option DvFile := d.dvfiles.find? fun x => x.t == t && x.r == r && x.d == dv

/-- `DiskRowset::open` / `DeleteVector::open` of everything the manifest references. -/
def filesOk (d : Disk) (v : View) : Bool :=
  v.rowsets.all (fun (t, r) => v.tables.any (·.id == t) && (match findRowset d t r with | some x => x.complete | none => false)) &&
  v.dvs.all (fun (t, r, dv) => v.tables.any (·.id == t) && (match findDv d t r dv with | some x => x.complete | none => false))

/-- What `bootstrap` loads from a directory, or why `open` fails. -/
def view (d : Disk) : Except String View :=
  -- (since /repo bceddd9 an incomplete record at the end of the file is ignored: `d.torn` plays no
  -- role; before, `if d.torn then .error "json-eof"`)
  match View.empty.applyRecs (replay d.recs) with
    | .error e => .error e
    | .ok v =>
      if filesOk d v then .ok v
      else if v.dvs.any (fun x => !v.tables.any (·.id == x.1)) then .error "dv-of-dropped-table"
      else .error "missing-or-short-file"

/-- Insertion sort of naturals / keys (core only). -/
def insertBy {α : Type} (lt : α → α → Bool) (a : α) : List α → List α
  | [] => [a]
  | b :: bs => if lt a b then a :: b :: bs else b :: insertBy lt a bs
def sortBy {α : Type} (lt : α → α → Bool) (l : List α) : List α := l.foldr (insertBy lt) []

def rowsetsOf (v : View) (t : Nat) : List Nat :=
  sortBy (· < ·) ((v.rowsets.filter (·.1 == t)).map (·.2))

def deletedIn (d : Disk) (v : View) (t r : Nat) : List Nat :=
  (v.dvs.filter fun x => x.1 == t && x.2.1 == r).flatMap fun x =>
    match findDv d t r x.2.2 with | some f => f.dels | none => []

/-- Live rows of a row-set with their positions. -/
def liveRows (d : Disk) (v : View) (t r : Nat) : List (Nat × List Int) :=
  match findRowset d t r with
  | none => []
  | some x =>
    let dead := deletedIn d v t r
    ((List.range x.rows.length).zip x.rows).filter fun p => !dead.contains p.1

/-- Abstraction: table name ↦ rows (tables and row-sets in log order; compared as bags by the
check). -/
def abs (d : Disk) (v : View) : List (String × List (List Int)) :=
  v.tables.map fun ti =>
    (ti.name, (v.rowsets.filter (·.1 == ti.id)).flatMap fun x => (liveRows d v x.1 x.2).map (·.2))

/-! ### persistence steps of recovery and of statements -/

def rewriteRecs (v : View) : List Rec :=
  [Rec.begin] ++ v.rowsets.map (fun x => Rec.addRowSet x.1 x.2) ++
    v.dvs.map (fun x => Rec.addDV x.1 x.2.1 x.2.2) ++ v.tableLog ++ [Rec.fin]

def orphans (d : Disk) (v : View) : List RowsetDir := d.rowsets.filter fun x => !v.rowsets.contains (x.t, x.r)
def orphanDvs (d : Disk) (v : View) : List DvFile := d.dvfiles.filter fun x => !v.dvs.contains (x.t, x.r, x.d)

def recoverSteps (d : Disk) (v : View) : List PStep :=
  (if d.boot < 1 then [PStep.mkdirDb] else []) ++ (if d.boot < 2 then [PStep.mkdirDv] else []) ++
  (if d.boot < 3 then [PStep.createManifest] else []) ++
  (orphans d v).map (fun x => PStep.rmdir x.t x.r) ++
  (orphanDvs d v).map (fun x => PStep.rmdv x.t x.r x.d) ++
  [PStep.createTmp, PStep.appendTmp (rewriteRecs v), PStep.renameTmp, PStep.syncDir]

structure State where
  disk : Disk
  mem : View
  /-- row-set directories logically deleted, waiting for the vacuum task (in memory only) -/
  pending : List (Nat × Nat) := []
  deriving Repr, DecidableEq, BEq

/-- `SecondaryStorage::open`. -/
def recover (d : Disk) : Except String State :=
  match view d with
  | .error e => .error e
  | .ok v => .ok ⟨d.applyAll (recoverSteps d v), v, []⟩

inductive Cmp where | ge | lt | eq | all
  deriving Repr, DecidableEq, BEq

def Cmp.test (c : Cmp) (k : Int) (row : List Int) : Bool :=
  match c, row.head? with
  | .all, _ => true
  | _, none => false
  | .ge, some a => a ≥ k
  | .lt, some a => a < k
  | .eq, some a => a == k

inductive Op where
  | create (name : String) (ncols : Nat)
  | drop (name : String)
  | insert (name : String) (rows : List (List Int))
  | delete (name : String) (c : Cmp) (k : Int)
  | reopen
  /-- one compactor pass over table `name` (`Compactor::compact_table`) -/
  | compact (name : String)
  /-- one vacuum pass (`VersionManager::do_vacuum`) -/
  | vacuum
  deriving Repr, DecidableEq, BEq

def tableOf (v : View) (name : String) : Option TableInfo := v.tables.find? (·.name == name)

/-- DV files a DELETE writes: one per touched row-set (ascending row-set id; the code uses hash
map order — ids are compared up to that by the check), ids from `nextD`. -/
def deleteDvs (d : Disk) (v : View) (t : Nat) (c : Cmp) (k : Int) : List (Nat × Nat × List Nat) :=
  let touched := (rowsetsOf v t).filterMap fun r =>
    let pos := ((liveRows d v t r).filter fun p => c.test k p.2).map (·.1)
    if pos.isEmpty then none else some (r, pos)
  (List.range touched.length).zip touched |>.map fun (i, (r, pos)) => (r, v.nextD + i, pos)

/-- Rows a compaction of table `t` writes: the live rows of its row-sets in row-set id order. -/
def mergedRows (d : Disk) (v : View) (t : Nat) : List (List Int) :=
  (rowsetsOf v t).flatMap fun r => (liveRows d v t r).map (·.2)

/-- The manifest transaction of a statement (between `Begin` and `End`). -/
def txnOf (s : State) : Op → Option (List Rec)
  | .create name ncols => if (tableOf s.mem name).isSome then none else some [.createTable name ncols]
  | .drop name =>
    (tableOf s.mem name).map fun ti =>
      [Rec.dropTable ti.id] ++ (rowsetsOf s.mem ti.id).flatMap fun r =>
        [Rec.deleteRowSet ti.id r] ++
          ((s.mem.dvs.filter fun x => x.1 == ti.id && x.2.1 == r).map fun x => Rec.deleteDV ti.id r x.2.2)
  | .insert name rows =>
    (tableOf s.mem name).map fun ti => if rows.isEmpty then [] else [Rec.addRowSet ti.id s.mem.nextR]
  | .delete name c k =>
    (tableOf s.mem name).map fun ti => (deleteDvs s.disk s.mem ti.id c k).map fun x => Rec.addDV ti.id x.1 x.2.1
  | .reopen => none
  | .vacuum => none
  | .compact name =>
    match tableOf s.mem name with
    | none => none
    | some ti =>
      let live := rowsetsOf s.mem ti.id
      if live.length ≤ 1 then none
      else
        some ((if (mergedRows s.disk s.mem ti.id).isEmpty then [] else [Rec.addRowSet ti.id s.mem.nextR]) ++
          (live.map fun r => Rec.deleteRowSet ti.id r) ++
          -- (/repo 5071ff5) the delete vectors of the removed row-sets are deleted with them
          live.flatMap fun r =>
            (s.mem.dvs.filter fun x => x.1 == ti.id && x.2.1 == r).map fun x => Rec.deleteDV ti.id r x.2.2)

/-- Steps that only create files nothing references yet (write-ahead part of a statement). -/
def dataSteps (s : State) : Op → List PStep
  | .insert name rows =>
    match tableOf s.mem name with
    | none => []
    | some ti =>
      if rows.isEmpty then []
      else [PStep.mkdir ti.id s.mem.nextR rows (2 * ti.ncols)] ++
        (List.range (2 * ti.ncols)).map fun i => PStep.writeFile ti.id s.mem.nextR i
  | .delete name c k =>
    match tableOf s.mem name with
    | none => []
    | some ti => (deleteDvs s.disk s.mem ti.id c k).map fun x => PStep.writeDv ti.id x.1 x.2.1 x.2.2
  | .compact name =>
    match tableOf s.mem name with
    | none => []
    | some ti =>
      let rows := mergedRows s.disk s.mem ti.id
      if (rowsetsOf s.mem ti.id).length ≤ 1 || rows.isEmpty then []
      else [PStep.mkdir ti.id s.mem.nextR rows (2 * ti.ncols)] ++
        (List.range (2 * ti.ncols)).map fun i => PStep.writeFile ti.id s.mem.nextR i
  | _ => []

def psteps (s : State) (op : Op) : List PStep :=
  match op with
  | .reopen => recoverSteps s.disk s.mem
  | .vacuum => s.pending.map fun x => PStep.rmdir x.1 x.2
  | _ =>
    match txnOf s op with
    | none => []
    | some es => dataSteps s op ++ [PStep.appendManifest ([Rec.begin] ++ es ++ [Rec.fin])]

/-- One acknowledged statement. -/
def step (s : State) (op : Op) : State :=
  match op with
  | .reopen => match recover s.disk with | .ok s' => s' | .error _ => s
  | .vacuum => { s with disk := s.disk.applyAll (psteps s op), pending := [] }
  | _ =>
    match txnOf s op with
    | none => s
    | some es =>
      match s.mem.applyRecs es with
      | .ok v =>
        -- every DeleteRowSet entry of the transaction is queued for the vacuum
        let dels := es.filterMap fun e => match e with | .deleteRowSet t r => some (t, r) | _ => none
        ⟨s.disk.applyAll (psteps s op), v, s.pending ++ dels⟩
      | .error _ => s

def run (s : State) (ops : List Op) : State := ops.foldl step s

/-- Whether a step can be performed (`create_dir` / `create_new` fail on an existing path). -/
def enabled (d : Disk) : PStep → Bool
  | .mkdir t r _ _ => (findRowset d t r).isNone
  | .writeDv t r dv _ => (findDv d t r dv).isNone
  | _ => true

def allEnabled (d : Disk) (steps : List PStep) : Bool :=
  (List.range steps.length).all fun i =>
    match steps[i]? with
    | some s => enabled (d.applyAll (steps.take i)) s
    | none => true

/-- The file system drops the un-fsynced `rename`: `manifest.json` is again the old file, the
file that had been renamed over it (with everything appended to it since) is `manifest.tmp.json`. -/
def loseRename (d : Disk) : Disk :=
  match d.shadow with
  | some old => { d with recs := old, torn := false, tmp := some (d.recs, d.torn), shadow := none }
  | none => d

end Crash
end RlModel
