import RlModel.Model.KernelEval
/-
Constant folding: `eval_constant` of src/planner/rules/expr.rs (the `constant` component of
`ExprAnalysis`, computed bottom-up for every node added to the e-graph).

  Constant(v)                     -> Some(v)
  binary op (arith, cmp, ||): both children known: NULL if either is NULL (short-cut); AND / OR:
                                  three-valued logic when an operand is NULL (since /repo 543c949),
                                  else the ArrayImpl kernel on two one-element arrays, `.ok()?`
  unary op (neg, not)             : the same with one child
  IsNull(a)                       -> Bool(a is NULL)
  Cast(ty, a)                     : unknown if `a` is NULL and ty is not NULL; else `a.cast(ty).ok()`
  everything else modelled        -> unknown

A panic of a kernel (overflow, `% 0`) inside the analysis is a panic of whoever builds the e-graph.
-/
namespace RlModel

/-- `ArrayImpl::get(0)` on the modelled variants. -/
def Col.get0 : Col → KVal
  | .null _ => .null
  | .bool (s :: _) => if s.valid then .bool s.raw else .null
  | .int w (s :: _) => if s.valid then .int w s.raw else .null
  | .str (s :: _) => if s.valid then .str s.raw else .null
  | _ => .null

def KVal.isNull : KVal → Bool
  | .null => true
  | _ => false

/-- Sequencing of the children's analyses: a panic anywhere wins. -/
def foldBin (ra rb : KOut (Option KVal)) (K : Col → Col → KOut Col)
    (sc : KVal → KVal → KVal := fun _ _ => .null) : KOut (Option KVal) :=
  match ra with
  | .ok oa =>
    match rb with
    | .ok ob =>
      match oa, ob with
      | some va, some vb =>
        if va.isNull || vb.isNull then .ok (some (sc va vb))
        else match K (constCol va 1) (constCol vb 1) with
          | .ok c => .ok (some c.get0)
          | .err => .ok none
          | .panic => .panic
      | _, _ => .ok none
    | .err => .err
    | .panic => .panic
  | .err => .err
  | .panic => .panic

def foldUn (ra : KOut (Option KVal)) (K : Col → KOut Col) : KOut (Option KVal) :=
  match ra with
  | .ok (some va) =>
    if va.isNull then .ok (some .null)
    else match K (constCol va 1) with
      | .ok c => .ok (some c.get0)
      | .err => .ok none
      | .panic => .panic
  | .ok none => .ok none
  | .err => .err
  | .panic => .panic

/-- The value of AND / OR when an operand is NULL (since /repo 543c949: three-valued logic; every
other binary operator is NULL-strict). -/
def logicShortcut (isAnd : Bool) (va vb : KVal) : KVal :=
  if isAnd then (if va = .bool false ∨ vb = .bool false then .bool false else .null)
  else (if va = .bool true ∨ vb = .bool true then .bool true else .null)

/-- A node `eval_constant` does not fold: unknown, unless a child's analysis panicked. -/
def foldNone (rs : List (KOut (Option KVal))) : KOut (Option KVal) :=
  if rs.any (fun r => match r with | .panic => true | _ => false) then .panic else .ok none

def foldC : KExpr → KOut (Option KVal)
  | .col _ => .ok none
  | .const v => .ok (some v)
  | .arith op a b => foldBin (foldC a) (foldC b) (Col.arith op)
  | .cmp op a b => foldBin (foldC a) (foldC b) (Col.cmp op)
  | .and a b => foldBin (foldC a) (foldC b) Col.and (logicShortcut true)
  | .or a b => foldBin (foldC a) (foldC b) Col.or (logicShortcut false)
  | .concat a b => foldBin (foldC a) (foldC b) Col.concat
  | .neg a => foldUn (foldC a) Col.neg
  | .not a => foldUn (foldC a) Col.not
  | .isnull a =>
    match foldC a with
    | .ok (some v) => .ok (some (.bool v.isNull))
    | r => r
  | .cast t a =>
    match foldC a with
    | .ok (some v) =>
      if v.isNull && t != .null then .ok none
      else match Col.cast t (constCol v 1) with
        | .ok c => .ok (some c.get0)
        | .err => .ok none
        | .panic => .panic
    | r => r
  | .ite c t e => foldNone [foldC c, foldC t, foldC e]
  | .like a _ => foldNone [foldC a]
  | .substring s b c => foldNone [foldC s, foldC b, foldC c]
  | .replace a _ _ => foldNone [foldC a]
  | .repeat_ s k => foldNone [foldC s, foldC k]

/-- Subexpressions that `eval_constant` folds to the UNTYPED NULL constant although they are not
the NULL literal (`1 / 0`, `1 = NULL`, …): the enclosing node then sees an operand of type NULL
(C16: `sqltype:fold-null-loses-type`), which CASE conditions and the kernels do not accept. -/
def foldNullSubexprs : KExpr → Bool
  | .const _ => false
  | .col _ => false
  | e@(.arith _ a b) | e@(.cmp _ a b) | e@(.and a b) | e@(.or a b) | e@(.concat a b)
  | e@(.repeat_ a b) =>
    (foldC e == .ok (some .null)) || foldNullSubexprs a || foldNullSubexprs b
  | e@(.neg a) | e@(.not a) | e@(.isnull a) | e@(.cast _ a) | e@(.like a _) | e@(.replace a _ _) =>
    (foldC e == .ok (some .null)) || foldNullSubexprs a
  | .ite c t e => foldNullSubexprs c || foldNullSubexprs t || foldNullSubexprs e
  | .substring a b c => foldNullSubexprs a || foldNullSubexprs b || foldNullSubexprs c

end RlModel
