import RlModel.Model.Crc
/-
L7 (C06): byte-exact model of RisingLight's secondary-storage column format
(`src/storage/secondary/{block/*,column/*,encode.rs,index.rs}`).

An *item* is the byte string the type's encoder produces (`PrimitiveFixedWidthEncode::encode`,
`BlobEncode::to_byte_slice`); a *cell* is `Option item` (`none` = NULL).  The typed layer
(`i32 ↦ 4 little-endian bytes`, `Date ↦ 4 big-endian bytes`, …) is `Enc.Typed` below.

Builders are modelled as the state machines they are (fields = the Rust fields), so that
`should_finish` / `estimated_size` — which decide where blocks are cut — are computed from the
same state as in the code.  Core Lean only.
-/
namespace RlModel

abbrev Cell := Option Bytes

/-! ## Varint (`rle_block_builder.rs encode_32 / decode_u32_slice`) -/

/-- `encode_32` (fuel 5 suffices for u32). -/
def encodeVarint : Nat → Nat → Bytes
  | 0, _ => []
  | fuel + 1, v =>
    if v < 0x80 then [UInt8.ofNat v]
    else UInt8.ofNat (v % 128 + 128) :: encodeVarint fuel (v / 128)

def encode32 (v : Nat) : Bytes := encodeVarint 5 v

/-- `decode_u32_slice`: (value, bytes consumed); `none` = `Err("invalid varint")`.
Reading past the slice (`get_unchecked`) is modelled as byte 0. -/
def decodeU32Slice (bs : Bytes) : Option (Nat × Nat) :=
  let b (i : Nat) : Nat := (bs.getD i 0).toNat
  if b 0 < 0x80 then some (b 0, 1)
  else if b 1 < 0x80 then some (b 0 - 0x80 + b 1 * 2 ^ 7, 2)
  else if b 2 < 0x80 then some (b 0 - 0x80 + (b 1 - 0x80) * 2 ^ 7 + b 2 * 2 ^ 14, 3)
  else if b 3 < 0x80 then
    some (b 0 - 0x80 + (b 1 - 0x80) * 2 ^ 7 + (b 2 - 0x80) * 2 ^ 14 + b 3 * 2 ^ 21, 4)
  else if b 4 < 0x0f then
    some (b 0 - 0x80 + (b 1 - 0x80) * 2 ^ 7 + (b 2 - 0x80) * 2 ^ 14 + (b 3 - 0x80) * 2 ^ 21
          + b 4 * 2 ^ 28, 5)
  else none

/-- `decode_u32`: all varints of a buffer (fuel = number of bytes). -/
def decodeVarints : Nat → Bytes → Option (List Nat)
  | 0, _ => some []
  | fuel + 1, bs =>
    if bs.isEmpty then some []
    else match decodeU32Slice bs with
      | none => none
      | some (v, adv) => (decodeVarints fuel (bs.drop adv)).map (v :: ·)

/-! ## Plain (non-nullable) block builders -/

/-- Which plain builder: `PlainPrimitiveBlockBuilder<T>` of width `w`, `PlainCharBlockBuilder`
of char width `w`, `PlainBlobBlockBuilder`. -/
inductive Kind
  | fixed (w : Nat)
  | char (w : Nat)
  | blob
  deriving Repr, DecidableEq, Inhabited

def zeros (n : Nat) : Bytes := List.replicate n 0

structure Plain where
  kind : Kind
  target : Nat
  data : Bytes := []
  /-- blob only: end offsets -/
  offs : List Nat := []
  deriving Repr, Inhabited

namespace Plain

def appendValue (p : Plain) (item : Bytes) : Plain :=
  match p.kind with
  | .fixed _ => { p with data := p.data ++ item }
  | .char w => { p with data := p.data ++ item ++ zeros (w - item.length) }
  | .blob => { p with data := p.data ++ item, offs := p.offs ++ [(p.data ++ item).length] }

def appendDefault (p : Plain) : Plain :=
  match p.kind with
  | .fixed w => { p with data := p.data ++ zeros w }
  | .char w => { p with data := p.data ++ zeros w }
  | .blob => { p with offs := p.offs ++ [p.data.length] }

def append (p : Plain) : Cell → Plain
  | some item => p.appendValue item
  | none => p.appendDefault

def estimatedSize (p : Plain) : Nat :=
  match p.kind with
  | .blob => p.data.length + p.offs.length * 4
  | _ => p.data.length

def estimatedSizeWithNext (p : Plain) (next : Cell) : Nat :=
  match p.kind with
  | .fixed w => p.estimatedSize + w
  | .char w => p.estimatedSize + w
  | .blob => p.estimatedSize + (next.map List.length).getD 0 + 4

/-- NB: looks at the data bytes, not at the item count (blob blocks of empty/NULL items). -/
def isEmpty (p : Plain) : Bool := p.data.isEmpty

def shouldFinish (p : Plain) (next : Cell) : Bool :=
  !p.isEmpty && decide (p.estimatedSizeWithNext next > p.target)

def finish (p : Plain) : Bytes :=
  match p.kind with
  | .blob => p.offs.flatMap (leBytes 4) ++ p.data
  | _ => p.data

end Plain

/-! ## Nullable wrapper (`NullableBlockBuilder`) and the common sub-builder -/

/-- `bitvec::BitVec<u8, Lsb0>::as_raw_slice`: bit `i` is bit `i % 8` of byte `i / 8`. -/
def packByte (bs : List Bool) : UInt8 :=
  UInt8.ofNat ((bs.take 8).foldr (fun b acc => acc * 2 + b.toNat) 0)

def packBitsN : Nat → List Bool → Bytes
  | 0, _ => []
  | n + 1, bs => packByte bs :: packBitsN n (bs.drop 8)

def packBits (bs : List Bool) : Bytes := packBitsN ((bs.length + 7) / 8) bs

def unpackBits (bs : Bytes) : List Bool :=
  bs.flatMap byteBits

/-- A plain builder, or a `NullableBlockBuilder` around it (same `target_size`). -/
structure Sub where
  nullable : Bool
  inner : Plain
  bitmap : List Bool := []
  deriving Repr, Inhabited

namespace Sub

def new (nullable : Bool) (kind : Kind) (target : Nat) : Sub :=
  { nullable, inner := { kind, target } }

def append (s : Sub) (c : Cell) : Sub :=
  if s.nullable then { s with inner := s.inner.append c, bitmap := s.bitmap ++ [c.isSome] }
  else { s with inner := s.inner.append c }

def estimatedSize (s : Sub) : Nat :=
  if s.nullable then s.inner.estimatedSize + (s.bitmap.length + 7) / 8 else s.inner.estimatedSize

def shouldFinish (s : Sub) (next : Cell) : Bool :=
  if s.nullable then
    s.inner.shouldFinish next
      || (!s.inner.isEmpty && decide (s.inner.estimatedSizeWithNext next + 1 > s.inner.target))
  else s.inner.shouldFinish next

def finish (s : Sub) : Bytes :=
  if s.nullable then
    let bm := packBits s.bitmap
    s.inner.finish ++ bm ++ leBytes 4 bm.length
  else s.inner.finish

end Sub

/-! ## RLE (`RleBlockBuilder`) -/

def U32_MAX : Nat := 4294967295

/-- Item equality used for run detection / dictionary lookup. `bytes`: equality of the encoded
item (exact for every type but F64); `f64`: `OrderedFloat<f64>`'s `Eq` (all NaNs equal,
`-0.0 == 0.0`). -/
inductive EqKind | bytes | f64
  deriving Repr, DecidableEq, Inhabited

def f64IsNaN (bits : Nat) : Bool :=
  (bits / 2 ^ 52) % 2048 == 2047 && bits % 2 ^ 52 != 0

def f64IsZero (bits : Nat) : Bool := bits % 2 ^ 63 == 0

def itemEq (k : EqKind) (a b : Bytes) : Bool :=
  match k with
  | .bytes => a == b
  | .f64 =>
    let x := natOfLE a
    let y := natOfLE b
    if f64IsNaN x then f64IsNaN y
    else if f64IsNaN y then false
    else x == y || (f64IsZero x && f64IsZero y)

def cellEq (k : EqKind) : Cell → Cell → Bool
  | none, none => true
  | some a, some b => itemEq k a b
  | _, _ => false

structure Rle where
  eq : EqKind
  sub : Sub
  counts : List Nat := []
  prev : Cell := none
  cur : Nat := 0
  deriving Repr, Inhabited

namespace Rle

def append (r : Rle) (c : Cell) : Rle :=
  if r.cur == 0 then { r with prev := c, sub := r.sub.append c, cur := 1 }
  else if !cellEq r.eq c r.prev || r.cur == U32_MAX then
    { r with prev := c, sub := r.sub.append c, counts := r.counts ++ [r.cur], cur := 1 }
  else { r with cur := r.cur + 1 }

def estimatedSize (r : Rle) : Nat :=
  r.sub.estimatedSize + r.counts.length * 2 + 4 + (if r.cur != 0 then 2 else 0)

def shouldFinish (r : Rle) (next : Cell) : Bool := r.sub.shouldFinish next

def finish (r : Rle) : Bytes :=
  if r.cur == 0 then []
  else
    let counts := r.counts ++ [r.cur]
    let vs := counts.flatMap encode32
    leBytes 4 counts.length ++ leBytes 4 vs.length ++ vs ++ r.sub.finish

end Rle

/-! ## Dictionary (`DictBlockBuilder`) -/

/-- `DICT_NULL_VALUE_KEY = i32::MIN`, as the unsigned 32-bit pattern. -/
def DICT_NULL_KEY : Nat := 0x80000000

structure Dict where
  eq : EqKind
  data : Sub
  rle : Rle
  /-- distinct values in insertion order; value `i` has key `i32::MIN + 1 + i` -/
  dict : List Bytes := []
  deriving Repr, Inhabited

namespace Dict

def new (eq : EqKind) (data : Sub) : Dict :=
  -- the key builder's target size is the (empty) data builder's estimated size
  { eq, data, rle := { eq := .bytes, sub := Sub.new false (.fixed 4) data.estimatedSize } }

def lookup (eq : EqKind) (item : Bytes) : List Bytes → Nat → Option Nat
  | [], _ => none
  | d :: ds, i => if itemEq eq item d then some i else lookup eq item ds (i + 1)

def keyBytes (k : Nat) : Bytes := leBytes 4 k

def append (d : Dict) : Cell → Dict
  | none => { d with rle := d.rle.append (some (keyBytes DICT_NULL_KEY)) }
  | some item =>
    match lookup d.eq item d.dict 0 with
    | some i => { d with rle := d.rle.append (some (keyBytes (DICT_NULL_KEY + 1 + i))) }
    | none =>
      { d with
        data := d.data.append (some item)
        dict := d.dict ++ [item]
        rle := d.rle.append (some (keyBytes (DICT_NULL_KEY + 1 + d.dict.length))) }

def estimatedSize (d : Dict) : Nat := 8 + d.rle.estimatedSize + d.data.estimatedSize

def shouldFinish (d : Dict) (next : Cell) : Bool :=
  d.data.shouldFinish next || d.rle.shouldFinish (some (keyBytes DICT_NULL_KEY))

def finish (d : Dict) : Bytes :=
  let rleBlock := d.rle.finish
  beBytes 8 rleBlock.length ++ beBytes 4 d.dict.length ++ rleBlock ++ d.data.finish

end Dict

/-! ## Block builders of a column -/

inductive EncType | plain | rle | dict
  deriving Repr, DecidableEq, Inhabited

structure ColOpts where
  kind : Kind
  eq : EqKind := .bytes
  nullable : Bool
  enc : EncType
  /-- `target_block_size` (the builders get `target_block_size - 16`) -/
  blockSize : Nat
  ck : CkType := .none
  deriving Repr, Inhabited

inductive BB
  | plain (s : Sub)
  | rle (r : Rle)
  | dict (d : Dict)
  deriving Repr, Inhabited

namespace BB

def new (o : ColOpts) : BB :=
  let sub := Sub.new o.nullable o.kind (o.blockSize - 16)
  match o.enc with
  | .plain => .plain sub
  | .rle => .rle { eq := o.eq, sub }
  | .dict => .dict (Dict.new o.eq sub)

def append : BB → Cell → BB
  | .plain s, c => .plain (s.append c)
  | .rle r, c => .rle (r.append c)
  | .dict d, c => .dict (d.append c)

def shouldFinish : BB → Cell → Bool
  | .plain s, c => s.shouldFinish c
  | .rle r, c => r.shouldFinish c
  | .dict d, c => d.shouldFinish c

def finish : BB → Bytes
  | .plain s => s.finish
  | .rle r => r.finish
  | .dict d => d.finish

end BB

/-- `BlockType` code (rowset.proto) chosen by the column builders. -/
def blockTypeCode (o : ColOpts) : Nat :=
  match o.kind, o.nullable, o.enc with
  | .char _, false, .plain => 4   -- PlainFixedChar
  | .char _, true, .plain => 13   -- PlainNullableFixedChar
  | .char _, false, .rle => 7     -- RleFixedChar
  | .char _, true, .rle => 15     -- RleNullableFixedChar
  | .char _, false, .dict => 11   -- DictFixedChar
  | .char _, true, .dict => 17    -- DictNullableFixedChar
  | _, false, .plain => 0         -- Plain
  | _, true, .plain => 3          -- PlainNullable
  | _, false, .rle => 1           -- RunLength
  | _, true, .rle => 6            -- RleNullable
  | _, false, .dict => 9          -- Dictionary
  | _, true, .dict => 10          -- DictNullable

/-- The varchar (`CharColumnBuilder` with `char_width = None`) block types differ from the
blob/primitive ones. -/
def blockTypeCodeVarchar (o : ColOpts) : Nat :=
  match o.nullable, o.enc with
  | false, .plain => 5   -- PlainVarchar
  | true, .plain => 14   -- PlainNullableVarchar
  | false, .rle => 8     -- RleVarchar
  | true, .rle => 16     -- RleNullableVarchar
  | false, .dict => 12   -- DictVarchar
  | true, .dict => 18    -- DictNullableVarchar

/-! ## Block cutting (`append_one_by_one` + `finish_builder`) -/

/-- Encoded payload of one block holding exactly `cells`. -/
def encodeBlock (o : ColOpts) (cells : List Cell) : Bytes :=
  (cells.foldl BB.append (BB.new o)).finish

/-- The chunks the column builder cuts `xs` into.  `bb` is the current builder, `cur` the cells
it holds.  A fresh builder never asks to finish (`shouldFinish_new`), so after a cut the pending
item is appended to the new builder unconditionally, as in the code. -/
def cutAux (o : ColOpts) : BB → List Cell → List Cell → List (List Cell)
  | _, cur, [] => if cur.isEmpty then [] else [cur]
  | bb, cur, c :: rest =>
    if !cur.isEmpty && bb.shouldFinish c then cur :: cutAux o ((BB.new o).append c) [c] rest
    else cutAux o (bb.append c) (cur ++ [c]) rest

def cut (o : ColOpts) (xs : List Cell) : List (List Cell) := cutAux o (BB.new o) [] xs

/-- One block index entry (`BlockIndex`), statistics and first key omitted. -/
structure IndexEntry where
  offset : Nat
  length : Nat
  firstRowid : Nat
  rowCount : Nat
  deriving Repr, DecidableEq, Inhabited

/-- `.col` bytes and index of the column: each chunk sealed with its trailer, entries recording
offset / length / first row id / row count. -/
def assemble (o : ColOpts) (btype : Nat) : List (List Cell) → Nat → Nat → Bytes × List IndexEntry
  | [], _, _ => ([], [])
  | chunk :: rest, off, row =>
    let blk := sealBlock o.ck btype (encodeBlock o chunk)
    let (d, ix) := assemble o btype rest (off + blk.length) (row + chunk.length)
    (blk ++ d, { offset := off, length := blk.length, firstRowid := row, rowCount := chunk.length } :: ix)

def buildColumn (o : ColOpts) (btype : Nat) (xs : List Cell) : Bytes × List IndexEntry :=
  assemble o btype (cut o xs) 0 0

/-! ## Block decoders (what a fresh block iterator yields) -/

def chunksN (w : Nat) : Nat → Bytes → List Bytes
  | 0, _ => []
  | n + 1, bs => bs.take w :: chunksN w n (bs.drop w)

/-- `n` u32-LE offsets. -/
def readOffsets : Nat → Bytes → List Nat
  | 0, _ => []
  | n + 1, bs => natOfLE (bs.take 4) :: readOffsets n (bs.drop 4)

def sliceByOffsets (data : Bytes) : Nat → List Nat → List Bytes
  | _, [] => []
  | from_, to :: rest => (data.drop from_).take (to - from_) :: sliceByOffsets data to rest

/-- Items of a plain block with `n` rows. -/
def decodePlain (k : Kind) (n : Nat) (bs : Bytes) : List Bytes :=
  match k with
  | .fixed w => chunksN w n bs
  | .char w => (chunksN w n bs).map (fun c => c.takeWhile (· != 0))
  | .blob => sliceByOffsets (bs.drop (4 * n)) 0 (readOffsets n bs)

/-- `decode_nullable_block` + per-row validity. -/
def decodeSub (nullable : Bool) (k : Kind) (n : Nat) (bs : Bytes) : List Cell :=
  if nullable then
    let len := bs.length
    let bl := natOfLE (bs.drop (len - 4))
    let bitmap := unpackBits ((bs.drop (len - 4 - bl)).take bl)
    let items := decodePlain k n (bs.take (len - 4 - bl))
    (items.zip bitmap).map (fun (it, v) => if v then some it else none)
  else (decodePlain k n bs).map some

def expandRuns : List Nat → List Cell → List Cell
  | c :: cs, h :: hs => List.replicate c h ++ expandRuns cs hs
  | _, _ => []

/-- `decode_rle_block` + `RleBlockIterator`. `none`: the varints do not decode (`unwrap` panics). -/
def decodeRle (nullable : Bool) (k : Kind) (bs : Bytes) : Option (List Cell) :=
  let num := natOfLE (bs.take 4)
  let rlen := natOfLE ((bs.drop 4).take 4)
  match decodeVarints rlen ((bs.drop 8).take rlen) with
  | none => none
  | some counts => some (expandRuns counts (decodeSub nullable k num (bs.drop (8 + rlen))))

/-- `decode_dict_block` + `DictBlockIterator`. -/
def decodeDict (nullable : Bool) (k : Kind) (bs : Bytes) : Option (List Cell) :=
  let rlen := natOfBE (bs.take 8)
  let dnum := natOfBE ((bs.drop 8).take 4)
  let rleBlock := (bs.drop 12).take rlen
  let dictItems := decodeSub nullable k dnum (bs.drop (12 + rlen))
  match decodeRle false (.fixed 4) rleBlock with
  | none => none
  | some keys =>
    some (keys.map fun kc =>
      match kc with
      | none => none
      | some kb =>
        let key := natOfLE kb
        if key == DICT_NULL_KEY then none
        else (dictItems.getD (key - (DICT_NULL_KEY + 1)) none))

/-- All cells of a block of `n` rows. -/
def decodeBlock (o : ColOpts) (n : Nat) (bs : Bytes) : Option (List Cell) :=
  match o.enc with
  | .plain => some (decodeSub o.nullable o.kind n bs)
  | .rle => decodeRle o.nullable o.kind bs
  | .dict => decodeDict o.nullable o.kind bs

/-! ## Array builder and block iterators

`ArrayBuilder`: raw data and validity kept separately; `NullableBlockIterator::next_batch`
lets the inner iterator push the raw items as valid and then rewrites the validity of the rows it
just produced (`replace_bitmap`: the last `bits.length` validity bits; earlier rows keep theirs —
/repo fix of `iter:nullable-batch-crosses-block`; before it the WHOLE bitmap was replaced, see
`ArrB.replaceWholeBitmap`). -/

structure ArrB where
  data : List Bytes := []
  valid : List Bool := []
  deriving Repr, Inhabited

/-- `Array::len` is the validity length; `get i` reads `data[i]` under `valid[i]`. -/
def ArrB.finish (b : ArrB) : List Cell :=
  (b.valid.zip b.data).map fun (v, d) => if v then some d else none

/-- `ArrayBuilder::replace_bitmap`: the validity of the last `bits.length` items. -/
def ArrB.replaceBitmap (b : ArrB) (bits : List Bool) : ArrB :=
  { b with valid := b.valid.take (b.valid.length - bits.length) ++ bits }

/-- `replace_bitmap` as it was before the repair (regression statements only). -/
def ArrB.replaceWholeBitmap (b : ArrB) (bits : List Bool) : ArrB := { b with valid := bits }

def defaultItem : Kind → Bytes
  | .fixed w => zeros w
  | _ => []

/-- A block iterator at the logical row `pos` of a decoded block.  `rawNullable`: the iterator
is a top-level `NullableBlockIterator` (block types PlainNullable*), which uses
`replace_bitmap`; RLE / dictionary iterators push cell by cell. -/
structure BIter where
  cells : List Cell
  pos : Nat
  rawNullable : Bool
  dflt : Bytes
  deriving Repr, Inhabited

namespace BIter

def remaining (it : BIter) : Nat := it.cells.length - it.pos

def skip (it : BIter) (cnt : Nat) : BIter := { it with pos := it.pos + cnt }

/-- `next_batch(expected_size, builder)` → (iterator, builder, count). -/
def nextBatch (it : BIter) (expected : Option Nat) (b : ArrB) : BIter × ArrB × Nat :=
  let avail := it.cells.length - it.pos
  let k := match expected with
    | some e => min e avail
    | none => avail
  let got := (it.cells.drop it.pos).take k
  let raw := got.map (fun c => c.getD it.dflt)
  let bits := got.map Option.isSome
  let b' : ArrB :=
    if it.rawNullable then
      -- inner `next_batch_non_null` pushes `Some(item)` k times, then `replace_bitmap(bits)`
      ({ data := b.data ++ raw, valid := b.valid ++ List.replicate got.length true } : ArrB).replaceBitmap bits
    else { data := b.data ++ raw, valid := b.valid ++ bits }
  ({ it with pos := it.pos + k }, b', k)

/-- the same with the pre-repair `replace_bitmap` (whole bitmap replaced) -/
def nextBatchPre (it : BIter) (expected : Option Nat) (b : ArrB) : BIter × ArrB × Nat :=
  let avail := it.cells.length - it.pos
  let k := match expected with
    | some e => min e avail
    | none => avail
  let got := (it.cells.drop it.pos).take k
  let raw := got.map (fun c => c.getD it.dflt)
  let bits := got.map Option.isSome
  let b' : ArrB :=
    if it.rawNullable then
      ({ data := b.data ++ raw, valid := b.valid ++ List.replicate got.length true } : ArrB).replaceWholeBitmap bits
    else { data := b.data ++ raw, valid := b.valid ++ bits }
  ({ it with pos := it.pos + k }, b', k)

end BIter

/-! ## Column iterator (`ConcreteColumnIterator`) -/

structure BlockInfo where
  firstRowid : Nat
  rowCount : Nat
  cells : List Cell
  rawNullable : Bool
  deriving Repr, Inhabited

structure ColIter where
  blocks : List BlockInfo
  dflt : Bytes
  blockId : Nat
  it : BIter
  rowId : Nat
  finished : Bool := false
  fake : Bool := false
  deriving Repr, Inhabited

inductive IterOut
  | batch (rowId : Nat) (cells : List Cell)
  | none
  | hint (n : Nat) (finished : Bool)
  | rowId (n : Nat)
  | skipped (n : Nat)
  deriving Repr, Inhabited, DecidableEq

namespace ColIter

def blk (c : ColIter) (i : Nat) : BlockInfo := c.blocks.getD i default

/-- `get_iterator_for(.., start_pos)`: iterator of block `i`, skipped to `start`. -/
def iterFor (blocks : List BlockInfo) (dflt : Bytes) (i start : Nat) : BIter :=
  let b := blocks.getD i default
  { cells := b.cells, pos := start - b.firstRowid, rawNullable := b.rawNullable, dflt }

/-- `block_of_row`: partition point of `first_rowid ≤ row`, minus one. -/
def blockOfRow (blocks : List BlockInfo) (row : Nat) : Nat :=
  (blocks.takeWhile (fun b => b.firstRowid ≤ row)).length - 1

def new (blocks : List BlockInfo) (dflt : Bytes) (start : Nat) : ColIter :=
  let i := blockOfRow blocks start
  { blocks, dflt, blockId := i, it := iterFor blocks dflt i start, rowId := start }

/-- The block loop of `next_batch_inner` (fuel = number of blocks left). -/
def nextLoop : Nat → ColIter → Option Nat → ArrB → Nat → ColIter × ArrB × Nat
  | 0, c, _, b, total => (c, b, total)
  | fuel + 1, c, expected, b, total =>
    let (it', b', cnt) := c.it.nextBatch (expected.map (· - total)) b
    let total' := total + cnt
    let c1 := { c with it := it', rowId := c.rowId + cnt }
    let done : Bool := match expected with
      | some e => decide (total' ≥ e)
      | Option.none => total' != 0
    if done then (c1, b', total')
    else
      let c2 := { c1 with blockId := c1.blockId + 1 }
      if c2.blockId ≥ c2.blocks.length then ({ c2 with finished := true }, b', total')
      else nextLoop fuel { c2 with it := iterFor c2.blocks c2.dflt c2.blockId c2.rowId } expected b' total'

def nextBatch (c : ColIter) (expected : Option Nat) : ColIter × IterOut :=
  if c.finished then (c, .none)
  else
    let first := c.rowId
    let c0 := if c.fake then { c with fake := false, it := iterFor c.blocks c.dflt c.blockId c.rowId } else c
    let (c', b, total) := nextLoop (c0.blocks.length + 1) c0 expected {} 0
    if total == 0 then (c', .none) else (c', .batch first b.finish)

def fetchHint (c : ColIter) : Nat × Bool :=
  if c.finished then (0, true)
  else
    let b := c.blk c.blockId
    let hint := b.rowCount - (c.rowId - b.firstRowid)
    if hint == 0 then
      (if c.blockId + 1 < c.blocks.length then (c.blk (c.blockId + 1)).rowCount else 0, false)
    else (hint, false)

/-- `incre_block_id`. -/
def increBlock (c : ColIter) : ColIter × Bool :=
  let c' := { c with blockId := c.blockId + 1 }
  if c'.blockId ≥ c'.blocks.length then ({ c' with finished := true }, true) else (c', false)

/-- fake-iterator branch of `skip_inner`. -/
def skipFake : Nat → ColIter → Nat → ColIter
  | 0, c, _ => c
  | fuel + 1, c, reached =>
    if c.rowId > reached then
      let (c', fin) := c.increBlock
      if fin then c' else skipFake fuel c' (reached + (c'.blk c'.blockId).rowCount)
    else c

/-- the `while cnt > 0` loop of `skip_inner`; returns `none` when the column is exhausted. -/
def skipBlocks : Nat → ColIter → Nat → ColIter × Bool
  | 0, c, _ => (c, false)
  | fuel + 1, c, cnt =>
    if cnt > 0 then
      let rc := (c.blk c.blockId).rowCount
      if cnt ≥ rc then
        let (c', fin) := c.increBlock
        if fin then (c', true) else skipBlocks fuel c' (cnt - rc)
      else (c, false)
    else (c, false)

def skip (c : ColIter) (cnt : Nat) : ColIter :=
  if c.finished then c
  else
    let c := { c with rowId := c.rowId + cnt }
    if c.fake then
      let b := c.blk c.blockId
      skipFake (c.blocks.length + 1) c (b.firstRowid + b.rowCount)
    else
      let rem := c.it.remaining
      if cnt ≥ rem then
        let (c1, fin) := c.increBlock
        if fin then c1
        else
          let (c2, fin2) := skipBlocks (c1.blocks.length + 1) c1 (cnt - rem)
          if fin2 then c2 else { c2 with fake := true }
      else { c with it := c.it.skip cnt }

end ColIter

/-! ## Read programs -/

inductive IterOp
  | next (expected : Option Nat)
  /-- `next_batch(Some(min k hint))` (hint 0 ↦ k): the `RowSetIterator` discipline -/
  | nextHinted (k : Nat)
  | skip (cnt : Nat)
  | skipHinted (cnt : Nat)
  | hint
  | rowId
  deriving Repr, Inhabited

def hinted (c : ColIter) (k : Nat) : Nat :=
  let h := c.fetchHint.1
  if h == 0 then k else min k h

def ColIter.step (c : ColIter) : IterOp → ColIter × Option IterOut
  | .next e => let (c', o) := c.nextBatch e; (c', some o)
  | .nextHinted k => let (c', o) := c.nextBatch (some (hinted c k)); (c', some o)
  | .skip n => (c.skip n, none)
  | .skipHinted n => let k := hinted c n; (c.skip k, some (.skipped k))
  | .hint => let (h, f) := c.fetchHint; (c, some (.hint h f))
  | .rowId => (c, some (.rowId c.rowId))

def runOps (c : ColIter) : List IterOp → List IterOut
  | [] => []
  | op :: ops =>
    let (c', o) := c.step op
    match o with
    | some out => out :: runOps c' ops
    | none => runOps c' ops

/-- Decoded blocks of a built column (`none`: some block does not decode). -/
def blockInfos (o : ColOpts) (data : Bytes) : List IndexEntry → Option (List BlockInfo)
  | [] => some []
  | e :: es =>
    match openBlock (o.ck == .crc32) ((data.drop e.offset).take e.length) with
    | .error _ => none
    | .ok (_, payload) =>
      match decodeBlock o e.rowCount payload, blockInfos o data es with
      | some cells, some rest =>
        some ({ firstRowid := e.firstRowid, rowCount := e.rowCount, cells,
                rawNullable := o.nullable && o.enc == .plain } :: rest)
      | _, _ => none

end RlModel
