/-
Typed scalar semantics used by the expression rewrite rules of `src/planner/rules/expr.rs`
(C01): the row-level meaning of the operators of `define_language! Expr` those rules mention,
as RisingLight's evaluator computes them (`src/executor/evaluator.rs`, `src/array/ops.rs`).

A value of sort τ is `Option τ` (`none` = SQL NULL), τ ∈ {Int, Bool, String}:
* NULL propagates through arithmetic and comparison; `and`/`or`/`not` are three-valued;
* integer division and remainder truncate towards zero; a zero divisor yields NULL;
* `if c t e` takes `t` exactly when `c` is TRUE;
* integers are unbounded: rule soundness is claimed modulo overflow, which is C14's subject;
* strings are ordered by code point (= the UTF-8 byte order Rust uses).

The translator (`translator/gen_rules.py`) infers the sort of every pattern variable from the
operator positions it occurs in and emits, for each rule and each sort instantiation, the two
sides as Lean functions over these operators (`Gen/Rules.lean`).  Import-free.
-/
namespace RlModel.X

def nAdd : Option Int → Option Int → Option Int
  | some x, some y => some (x + y)
  | _, _ => none

def nSub : Option Int → Option Int → Option Int
  | some x, some y => some (x - y)
  | _, _ => none

def nMul : Option Int → Option Int → Option Int
  | some x, some y => some (x * y)
  | _, _ => none

/-- `/`: truncating; division by zero yields NULL (`safen_dividend` + `clear_null`). -/
def nDiv : Option Int → Option Int → Option Int
  | some x, some y => if y = 0 then none else some (Int.tdiv x y)
  | _, _ => none

def nMod : Option Int → Option Int → Option Int
  | some x, some y => if y = 0 then none else some (Int.tmod x y)
  | _, _ => none

def nNeg : Option Int → Option Int
  | some x => some (-x)
  | none => none

def and3 : Option Bool → Option Bool → Option Bool
  | some false, _ => some false
  | _, some false => some false
  | some true, some true => some true
  | _, _ => none

def or3 : Option Bool → Option Bool → Option Bool
  | some true, _ => some true
  | _, some true => some true
  | some false, some false => some false
  | _, _ => none

def not3 : Option Bool → Option Bool
  | some b => some (!b)
  | none => none

@[simp] theorem and3_some_some (a b : Bool) : and3 (some a) (some b) = some (a && b) := by
  cases a <;> cases b <;> rfl
@[simp] theorem and3_none_some (b : Bool) : and3 none (some b) = if b then none else some false := by
  cases b <;> rfl
@[simp] theorem and3_some_none (a : Bool) : and3 (some a) none = if a then none else some false := by
  cases a <;> rfl
@[simp] theorem and3_none_none : and3 none none = none := rfl
@[simp] theorem or3_some_some (a b : Bool) : or3 (some a) (some b) = some (a || b) := by
  cases a <;> cases b <;> rfl
@[simp] theorem or3_none_some (b : Bool) : or3 none (some b) = if b then some true else none := by
  cases b <;> rfl
@[simp] theorem or3_some_none (a : Bool) : or3 (some a) none = if a then some true else none := by
  cases a <;> rfl
@[simp] theorem or3_none_none : or3 none none = none := rfl
@[simp] theorem not3_some (a : Bool) : not3 (some a) = some (!a) := rfl
@[simp] theorem not3_none : not3 none = none := rfl

def eqO {α} [DecidableEq α] : Option α → Option α → Option Bool
  | some x, some y => some (decide (x = y))
  | _, _ => none

def neO {α} [DecidableEq α] (a b : Option α) : Option Bool := not3 (eqO a b)

def ltO {α} [LT α] [DecidableLT α] : Option α → Option α → Option Bool
  | some x, some y => some (decide (x < y))
  | _, _ => none

def gtO {α} [LT α] [DecidableLT α] (a b : Option α) : Option Bool := ltO b a
def leO {α} [LT α] [DecidableLT α] (a b : Option α) : Option Bool := not3 (ltO b a)
def geO {α} [LT α] [DecidableLT α] (a b : Option α) : Option Bool := not3 (ltO a b)

/-- `(if c t e)`: `t` iff `c` is TRUE. -/
def ite3 {α} (c : Option Bool) (t e : α) : α := if c = some true then t else e

def isNull3 {α} (a : Option α) : Option Bool := some a.isNone

/-- `is_not_zero`: `!DataValue::is_zero()` on a constant; `Null` is *not* zero. -/
def notZeroN : Option Int → Bool
  | some x => x != 0
  | none => true

def notZeroB : Option Bool → Bool
  | some x => x
  | none => true

def notZeroS : Option String → Bool := fun _ => true

/-- `value_cmp(v1, v2, f)`: both constants have the same `DataValue` discriminant and
`f(DataValue::cmp)` holds; two `Null` constants compare equal. -/
def condGe {α} [LT α] [DecidableLT α] : Option α → Option α → Bool
  | none, none => true
  | some x, some y => !(decide (x < y))
  | _, _ => false

def condGt {α} [LT α] [DecidableLT α] : Option α → Option α → Bool
  | some x, some y => decide (y < x)
  | _, _ => false

def condLe {α} [LT α] [DecidableLT α] : Option α → Option α → Bool
  | none, none => true
  | some x, some y => !(decide (y < x))
  | _, _ => false

def condLt {α} [LT α] [DecidableLT α] : Option α → Option α → Bool
  | some x, some y => decide (x < y)
  | _, _ => false

-- search domains (used only to FIND a failing input once a proof obligation breaks)
def domN : List (Option Int) := [none, some 0, some 1, some (-1), some 2, some 3, some (-2)]
def domB : List (Option Bool) := [none, some true, some false]
def domS : List (Option String) := [none, some "", some "a", some "b"]

def showN : Option Int → String
  | none => "null"
  | some x => "n:" ++ toString x
def showB : Option Bool → String
  | none => "null"
  | some true => "b:true"
  | some false => "b:false"
def showS : Option String → String
  | none => "null"
  | some s => "s:" ++ s

def readN (t : String) : Option (Option Int) :=
  if t == "null" then some none else if t.startsWith "n:" then ((t.drop 2).toString.toInt?).map some else none
def readB (t : String) : Option (Option Bool) :=
  if t == "null" then some none else if t == "b:true" then some (some true) else if t == "b:false" then some (some false) else none
def readS (t : String) : Option (Option String) :=
  if t == "null" then some none else if t.startsWith "s:" then some (some (t.drop 2).toString) else none

end RlModel.X
