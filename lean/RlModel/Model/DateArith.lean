/-!
C14 — DATE ± INTERVAL (src/types/date.rs `impl Add<Interval> for Date`, `get_month_days`;
src/types/interval.rs `years()` / `months()` / `days()`), written as the code computes it:

* a DATE is a day number (days since 1970-01-01); the civil date comes from chrono
  (`NaiveDate::from_num_days_from_ce_opt`, modelled by `civilFromDays` — the standard proleptic
  Gregorian conversion; its agreement with chrono is checked by the correspondence run, not proved);
* the days of the interval are added to the day number first;
* then `years() = months / 12` and `months() = months % 12` (Rust: truncated toward zero) are added
  to year and month, with ONE carry (`month > 12` / `month <= 0`), the `assert!` on the month, the
  day clamped to the length of the RESULTING month of the RESULTING year.

`addMonthsSpec` is what SQL prescribes: the month index `12 * year + (month - 1)` moves by the
interval's months (floor arithmetic), the day is clamped to the target month's length.
-/
namespace RlModel.DateArith

/-- `is_leap_year` (date.rs): `year % 4 == 0 && (year % 100 != 0 || year % 400 == 0)`, Rust `%`. -/
def isLeap (y : Int) : Bool := Int.tmod y 4 == 0 && (Int.tmod y 100 != 0 || Int.tmod y 400 == 0)

/-- `get_month_days`: the tables `LEAP_DAYS` / `NORMAL_DAYS` (index 0 unused). -/
def monthDays (y m : Int) : Int :=
  if m == 2 then (if isLeap y then 29 else 28)
  else if m == 4 || m == 6 || m == 9 || m == 11 then 30
  else if 1 ≤ m && m ≤ 12 then 31 else 0

/-- Day number (days since 1970-01-01) of a civil date, proleptic Gregorian calendar. -/
def daysFromCivil (y m d : Int) : Int :=
  let y' := if m ≤ 2 then y - 1 else y
  let era := y' / 400
  let yoe := y' - era * 400
  let mp := if m > 2 then m - 3 else m + 9
  let doy := (153 * mp + 2) / 5 + d - 1
  let doe := yoe * 365 + yoe / 4 - yoe / 100 + doy
  era * 146097 + doe - 719468

/-- Civil date of a day number. -/
def civilFromDays (z0 : Int) : Int × Int × Int :=
  let z := z0 + 719468
  let era := z / 146097
  let doe := z - era * 146097
  let yoe := (doe - doe / 1460 + doe / 36524 - doe / 146096) / 365
  let y := yoe + era * 400
  let doy := doe - (365 * yoe + yoe / 4 - yoe / 100)
  let mp := (5 * doy + 2) / 153
  let d := doy - (153 * mp + 2) / 5 + 1
  let m := if mp < 10 then mp + 3 else mp - 9
  (if m ≤ 2 then y + 1 else y, m, d)

/-- The year / month / day the code passes to `NaiveDate::from_ymd_opt`, or `none` where the
`assert!((1..=12).contains(&month))` fails. -/
def addMonthsCivil (y m d months : Int) : Option (Int × Int × Int) :=
  let mo := m + Int.tmod months 12
  let yr := y + Int.tdiv months 12
  let (mo, yr) := if mo > 12 then (mo - 12, yr + 1) else if mo ≤ 0 then (mo + 12, yr - 1) else (mo, yr)
  if 1 ≤ mo ∧ mo ≤ 12 then some (yr, mo, min d (monthDays yr mo)) else none

/-- SQL: move the month index by `months`, clamp the day to the target month. -/
def addMonthsSpec (y m d months : Int) : Int × Int × Int :=
  let t := 12 * y + (m - 1) + months
  let ty := t / 12
  let tm := t % 12 + 1
  (ty, tm, min d (monthDays ty tm))

/-- `Date + Interval` on day numbers: `none` = the process panics (`assert!` / `unwrap`). -/
def addInterval (date months days : Int) : Option Int :=
  let (y, m, d) := civilFromDays (date + days)
  match addMonthsCivil y m d months with
  | some (yr, mo, dd) => if 1 ≤ dd ∧ dd ≤ monthDays yr mo then some (daysFromCivil yr mo dd) else none
  | none => none

/-- `Date - Interval` = `Date + (-Interval)`. -/
def subInterval (date months days : Int) : Option Int := addInterval date (-months) (-days)

end RlModel.DateArith
