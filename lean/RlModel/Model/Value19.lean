import RlModel.Model.Sexp
/-
C19 model, part 1: the whole `DataValue` of src/types/value.rs with the relations Rust derives
for it — `PartialEq/Eq`, `PartialOrd/Ord` (variant rank first, then payload) and `Hash` (the byte
stream `derive(Hash)` feeds to a `Hasher`) — including the hand-written instances of the payload
types that are NOT structural:

* `F64 = OrderedFloat<f64>` (ordered-float 4.5): NaN is the greatest value and equal to every
  NaN, `-0.0 == 0.0`; `Hash` hashes canonical bits (`raw_double_bits`);
* `rust_decimal::Decimal` (1.36): numeric comparison (`1.0 == 1.00`), `Hash` of the normalised
  value;
* `Interval {months, days, ms}`: derived, field-lexicographic;
* `str`, `[u8]`, `[F64]`: lexicographic, a proper prefix is smaller.

Also the SQL comparison kernels of src/array/ops.rs (`cmp!` arms).

Core Lean only (the driver links as `lean_exe`).  Strings are modelled by their UTF-8 bytes,
floats by their bit pattern.
-/
namespace RlModel
namespace V19

/-- three-way comparison of integers: what `Ord::cmp` is on every primitive payload. -/
def icmp (a b : Int) : Ordering := if a < b then .lt else if a = b then .eq else .gt

/-- Lexicographic order of slices / `str` / derived `Ord` on a struct (fields in order). -/
def lexCmp : List Int → List Int → Ordering
  | [], [] => .eq
  | [], _ :: _ => .lt
  | _ :: _, [] => .gt
  | a :: as, b :: bs =>
    match icmp a b with
    | .eq => lexCmp as bs
    | o => o

/-- `rust_decimal::Decimal`: sign, 96-bit mantissa, scale 0..28. -/
structure Dec where
  neg : Bool
  m : Nat
  scale : Fin 29
  deriving DecidableEq, Repr, Inhabited

/-- The numeric value scaled to 28 fractional digits: `±m · 10^(28-scale)`.
`cmp_impl` of rust_decimal compares exactly this (rescaling the operand of smaller scale). -/
def Dec.key (d : Dec) : Int :=
  let v : Int := (d.m * 10 ^ (28 - d.scale.val) : Nat)
  if d.neg then -v else v

inductive DV where
  | null
  | bool (b : Bool)
  | i16 (v : Int)
  | i32 (v : Int)
  | i64 (v : Int)
  | f64 (bits : UInt64)
  | str (s : List UInt8)
  | blob (b : List UInt8)
  | dec (d : Dec)
  | date (d : Int)
  | ts (us : Int)
  | tstz (us : Int)
  | interval (months days ms : Int)
  | vec (xs : List UInt64)
  deriving DecidableEq, Repr, Inhabited

namespace DV

/-- Variant rank = declaration order of `enum DataValue`; `Gen.ValueOrder` (regenerated from the
source on every run) must agree (`Thm.C19.rank_matches_source`). -/
def rank : DV → Nat
  | null => 0 | bool _ => 1 | i16 _ => 2 | i32 _ => 3 | i64 _ => 4 | f64 _ => 5 | str _ => 6
  | blob _ => 7 | dec _ => 8 | date _ => 9 | ts _ => 10 | tstz _ => 11 | interval .. => 12
  | vec _ => 13

/-- Constructor names in rank order, as written in the Rust source. -/
def variantNames : List String :=
  ["Null", "Bool", "Int16", "Int32", "Int64", "Float64", "String", "Blob", "Decimal", "Date",
   "Timestamp", "TimestampTz", "Interval", "Vector"]

def variantName : DV → String
  | null => "Null" | bool _ => "Bool" | i16 _ => "Int16" | i32 _ => "Int32" | i64 _ => "Int64"
  | f64 _ => "Float64" | str _ => "String" | blob _ => "Blob" | dec _ => "Decimal"
  | date _ => "Date" | ts _ => "Timestamp" | tstz _ => "TimestampTz"
  | interval .. => "Interval" | vec _ => "Vector"

end DV

def b2i (b : Bool) : Int := if b then 1 else 0

def bytesKey (bs : List UInt8) : List Int := bs.map fun b => (b.toNat : Int)

/-! ### OrderedFloat<f64> -/

def two63 : Nat := 9223372036854775808
def infBits : Nat := 0x7ff0000000000000

/-- magnitude bits (sign removed) -/
def fmag (b : UInt64) : Nat := b.toNat % two63
def fneg (b : UInt64) : Bool := decide (two63 ≤ b.toNat)
def fIsNaN (b : UInt64) : Bool := decide (infBits < fmag b)
def fIsZero (b : UInt64) : Bool := decide (fmag b = 0)

/-- Order key of an `OrderedFloat<f64>`: monotone in the IEEE order on non-NaN values, `±0 ↦ 0`,
every NaN ↦ `2^63` (above `+inf`). `Ord for OrderedFloat` and `PartialEq` are `icmp`/`=` on it. -/
def fkey (b : UInt64) : Int :=
  if fIsNaN b then (two63 : Int)
  else if fneg b then -(fmag b : Int) else (fmag b : Int)

/-- `raw_double_bits` of ordered-float (via `integer_decode`): fraction bits (subnormals lose
their top bit), `(e - 1075) mod 2^11` in the exponent field, sign bit SET for positive. -/
def rawDoubleBits (b : UInt64) : Nat :=
  let n := b.toNat
  let frac := n % 4503599627370496          -- 2^52
  let e := (n / 4503599627370496) % 2048
  let man := if e = 0 then (frac * 2) % 4503599627370496 else frac
  let ex := (e + 973) % 2048
  let s := if fneg b then 0 else 1
  man + ex * 4503599627370496 + s * two63

/-- The `u64` that `Hash for OrderedFloat` feeds to the hasher. -/
def fHashBits (b : UInt64) : Nat :=
  if fIsNaN b then 0x7ff8000000000000
  else if fIsZero b then rawDoubleBits 0
  else rawDoubleBits b

/-! ### rust_decimal -/

/-- `Decimal::normalize`: strip trailing zeros of the mantissa while the scale is positive. -/
def normLoop : Nat → Nat → Nat → Nat × Nat
  | 0, m, s => (m, s)
  | fuel + 1, m, s => if s = 0 then (m, 0) else if m % 10 = 0 then normLoop fuel (m / 10) (s - 1) else (m, s)

/-- (mantissa, scale, negative) after `normalize` (zero becomes `+0` with scale 0). -/
def Dec.normalize (d : Dec) : Nat × Nat × Bool :=
  if d.m = 0 then (0, 0, false)
  else let r := normLoop d.scale.val d.m d.scale.val; (r.1, r.2, d.neg)

/-! ### little-endian byte streams (what the default `Hasher::write_*` methods emit) -/

def leBytes : Nat → Nat → List UInt8
  | 0, _ => []
  | k + 1, n => UInt8.ofNat (n % 256) :: leBytes k (n / 256)

/-- two's complement of `v` in `8*k` bits -/
def leInt (k : Nat) (v : Int) : List UInt8 := leBytes k (v % (256 ^ k : Nat)).toNat

namespace DV

/-- `derive(Ord)`: variant rank, then payload. -/
def cmp : DV → DV → Ordering
  | null, null => .eq
  | bool a, bool b => icmp (b2i a) (b2i b)
  | i16 a, i16 b => icmp a b
  | i32 a, i32 b => icmp a b
  | i64 a, i64 b => icmp a b
  | f64 a, f64 b => icmp (fkey a) (fkey b)
  | str a, str b => lexCmp (bytesKey a) (bytesKey b)
  | blob a, blob b => lexCmp (bytesKey a) (bytesKey b)
  | dec a, dec b => icmp a.key b.key
  | date a, date b => icmp a b
  | ts a, ts b => icmp a b
  | tstz a, tstz b => icmp a b
  | interval m d s, interval m' d' s' => lexCmp [m, d, s] [m', d', s']
  | vec a, vec b => lexCmp (a.map fkey) (b.map fkey)
  | a, b => icmp a.rank b.rank

/-- `derive(PartialEq)`: same variant and equal payload, with the payload types' own `==`. -/
def eq : DV → DV → Bool
  | null, null => true
  | bool a, bool b => a == b
  | i16 a, i16 b => a == b
  | i32 a, i32 b => a == b
  | i64 a, i64 b => a == b
  | f64 a, f64 b => fkey a == fkey b
  | str a, str b => a == b
  | blob a, blob b => a == b
  | dec a, dec b => a.key == b.key
  | date a, date b => a == b
  | ts a, ts b => a == b
  | tstz a, tstz b => a == b
  | interval m d s, interval m' d' s' => m == m' && d == d' && s == s'
  | vec a, vec b => a.map fkey == b.map fkey
  | _, _ => false

/-- The byte stream `derive(Hash)` writes: discriminant as `isize`, then the payload's stream. -/
def hashKey (v : DV) : List UInt8 :=
  leBytes 8 v.rank ++
  match v with
  | null => []
  | bool b => [if b then 1 else 0]
  | i16 x => leInt 2 x
  | i32 x => leInt 4 x
  | i64 x => leInt 8 x
  | f64 b => leBytes 8 (fHashBits b)
  | str s => s ++ [0xff]
  | blob b => leBytes 8 b.length ++ b
  | dec d =>
    let (m, s, neg) := d.normalize
    leBytes 4 (m % 4294967296) ++ leBytes 4 (m / 4294967296 % 4294967296) ++
    leBytes 4 (m / 18446744073709551616 % 4294967296) ++
    leBytes 4 (s * 65536 + (if neg then 2147483648 else 0))
  | date d => leInt 4 d
  | ts t => leInt 8 t
  | tstz t => leInt 8 t
  | interval m d s => leInt 4 m ++ leInt 4 d ++ leInt 4 s
  | vec xs => leBytes 8 xs.length ++ xs.flatMap fun b => leBytes 8 (fHashBits b)

/-- The order key: `cmp a b = lexCmp (key a) (key b)` (`Lemmas.Value19.cmp_eq_lex`). -/
def key : DV → List Int
  | null => [0]
  | bool b => [1, b2i b]
  | i16 v => [2, v]
  | i32 v => [3, v]
  | i64 v => [4, v]
  | f64 b => [5, fkey b]
  | str s => 6 :: bytesKey s
  | blob s => 7 :: bytesKey s
  | dec d => [8, d.key]
  | date v => [9, v]
  | ts v => [10, v]
  | tstz v => [11, v]
  | interval m d s => [12, m, d, s]
  | vec xs => 13 :: xs.map fkey

def isNull : DV → Bool
  | null => true
  | _ => false

end DV

/-! ### SQL comparison kernels (`cmp!` in src/array/ops.rs)

`none` = the kernel has no arm for this pair of array types (`NoBinaryOp` error). The result for
a NULL operand is NULL (`clear_null`); NULLs are handled by the caller here (`sqlCmpOp`). -/

inductive CmpOp | eq | ne | gt | lt | ge | le
  deriving DecidableEq, Repr

def CmpOp.ofOrd : CmpOp → Ordering → Bool
  | .eq, o => o == .eq
  | .ne, o => o != .eq
  | .gt, o => o == .gt
  | .lt, o => o == .lt
  | .ge, o => o != .lt
  | .le, o => o != .gt

/-- the three-way comparison the kernel arm for the two (non-null) operands computes -/
def kernelOrd : DV → DV → Option Ordering
  | .bool a, .bool b => some (icmp (b2i a) (b2i b))
  | .i16 a, .i16 b | .i16 a, .i32 b | .i32 a, .i16 b | .i32 a, .i32 b
  | .i16 a, .i64 b | .i32 a, .i64 b | .i64 a, .i16 b | .i64 a, .i32 b | .i64 a, .i64 b =>
      some (icmp a b)
  | .f64 a, .f64 b => some (icmp (fkey a) (fkey b))
  | .dec a, .dec b => some (icmp a.key b.key)
  | .str a, .str b => some (lexCmp (bytesKey a) (bytesKey b))
  | .date a, .date b => some (icmp a b)
  | _, _ => none

/-- SQL comparison of two cells of typed columns; a cell is `none` when NULL (the kernel computes
on the raw slot and `clear_null` then masks the result: the answer is NULL).
Outer `none` = no such kernel, inner `none` = SQL NULL. `ta`/`tb` are any non-null values of the
columns' types (they select the kernel arm). -/
def sqlCmpOp (op : CmpOp) (ta tb : DV) (a b : Option DV) : Option (Option Bool) :=
  match kernelOrd ta tb with
  | none => none
  | some _ =>
    match a, b with
    | some x, some y => (kernelOrd x y).map fun o => some (op.ofOrd o)
    | _, _ => some none

end V19
end RlModel
