import RlModel.Model.Rel
/-
L2 — the ALGORITHMS the executors implement, transcribed from
  /repo/src/executor/{nested_loop_join,hash_join,merge_join,hash_agg,sort_agg,simple_agg,
                      order,top_n,limit,evaluator}.rs  and  src/array/data_chunk_builder.rs.

A stream is a `List Chunk`, a chunk a `List Row`.  Expressions are already resolved to
functions of the (concatenated) input row; the vectorised evaluator is row-wise for everything
used here (C14 is about the kernels themselves).

What is kept from the code on purpose (this is where it differs from the L1 spec):
* hash tables are keyed by `DataValue`'s derived `Eq`: structural equality of `Val`
  (`NULL == NULL`, `Int32 1 ≠ Int64 1`); they are modelled as association lists in
  first-insertion order (the iteration order of the real map is never observed: bags).
  Since the `fix:` commit "join keys compare by value" the key vectors are built through
  `join_key` (`joinKey`: integers of every width → 64 bits): `hashJoin`, `hashSemiJoin`,
  `hashSemiJoin2`, `mergeJoin` are the executors GIVEN their key vectors, the executors themselves
  are `hashJoinW`, `hashSemiJoinW`, `hashSemiJoin2W`, `mergeJoinW` (the same on widened keys);
* the nested-loop join evaluates the condition on the cross product `right × left` in windows
  of 1024 rows, remembers the bitmap and finds unmatched left rows by index arithmetic;
* merge join groups *adjacent* equal keys (`group_by_keys`) and walks the two group streams;
* aggregation has two accumulation paths: `evalAgg` (simple_agg: one call per chunk, built
  from the array kernels `sum/count/min_/max_/first/last`) and `aggAppend` (hash_agg,
  sort_agg: one call per row);
* top-N keeps a bounded heap; order sorts everything.
-/
namespace RlModel

abbrev Chunk := List Row

/-- all rows of a stream, in order. -/
def flat (cs : List Chunk) : List Row := cs.flatten

/-- The maximum chunk length produced by an executor (`PROCESSING_WINDOW_SIZE`). -/
def windowSize : Nat := 1024

/-! ## DataChunkBuilder -/

/-- `push_row` for every row of the first argument, starting with `cur` already buffered;
a chunk is emitted whenever `size == capacity`, the remainder by the final `take()`. -/
def builderRun (cap : Nat) : List Row → List Row → List Chunk
  | [], cur => if cur.isEmpty then [] else [cur]
  | r :: rs, cur =>
    if (cur ++ [r]).length == cap then (cur ++ [r]) :: builderRun cap rs []
    else builderRun cap rs (cur ++ [r])

/-- rows pushed through a fresh builder of capacity 1024. -/
def emit (rows : List Row) : List Chunk := builderRun windowSize rows []

/-! ## nested-loop join (inner / left outer; right / full are `todo!()` in the code) -/

/-- the cross product in the order the executor builds it: right row outermost. -/
def crossRL (L R : List Row) : List Row := R.flatMap (fun r => L.map (· ++ r))

/-- The bitmap pass of the left-outer join: left row number `i` is matched iff some
`filter[i + nLrows * j]`, `j < nRrows`, is TRUE. -/
def nlMatched (bits : List (Option Bool)) (nLrows nRrows i : Nat) : Bool :=
  (List.range nRrows).any (fun j => holds (bits.getD (i + nLrows * j) none))

def nlUnmatched (bits : List (Option Bool)) (nR : Nat) (L : List Row) (nRrows : Nat) : List Row :=
  ((List.range L.length).zip L).filterMap (fun (i, l) =>
    if nlMatched bits L.length nRrows i then none else some (l ++ nulls nR))

/-- `NestedLoopJoinExecutor::execute` for `inner` (`outer = false`) and `left_outer` (= `nlJoinG outer false`,
`nlJoinG_eq_nlJoin`). -/
def nlJoin (outer : Bool) (on : Pred) (nR : Nat) (Ls Rs : List Chunk) : List Chunk :=
  let L := flat Ls
  let R := flat Rs
  let cross := crossRL L R
  let windows := emit cross
  let bits := (flat windows).map on
  let out1 := windows.map (fun w => w.filter (fun row => holds (on row)))
  if outer then out1 ++ emit (nlUnmatched bits nR L R.length) else out1

/-- The bitmap pass of the right-outer join (since /repo 7d07810): right row number `j` is matched iff
some `filter[j * nLrows + i]`, `i < nLrows`, is TRUE. -/
def nlMatchedR (bits : List (Option Bool)) (nLrows j : Nat) : Bool :=
  (List.range nLrows).any (fun i => holds (bits.getD (j * nLrows + i) none))

def nlUnmatchedR (bits : List (Option Bool)) (nL : Nat) (nLrows : Nat) (R : List Row) : List Row :=
  ((List.range R.length).zip R).filterMap (fun (j, r) =>
    if nlMatchedR bits nLrows j then none else some (nulls nL ++ r))

/-- `NestedLoopJoinExecutor::execute`, all four types: the filtered windows of the cross product, then
(left / full) the unmatched left rows in left order, then (right / full) the unmatched right rows in
right order, the last two through the same chunk builder. -/
def nlJoinG (padLeft padRight : Bool) (on : Pred) (nL nR : Nat) (Ls Rs : List Chunk) : List Chunk :=
  let L := flat Ls
  let R := flat Rs
  let windows := emit (crossRL L R)
  let bits := (flat windows).map on
  windows.map (fun w => w.filter (fun row => holds (on row))) ++
    emit ((if padLeft then nlUnmatched bits nR L R.length else []) ++
          (if padRight then nlUnmatchedR bits nL L.length R else []))

/-- `NestedLoopSemiJoinExecutor::execute`. -/
def nlSemiJoin (anti : Bool) (on : Pred) (Ls Rs : List Chunk) : List Chunk :=
  emit ((flat Ls).filter (fun l =>
    (Rs.any (fun rc => rc.any (fun r => holds (on (l ++ r))))) != anti))

/-! ## hash join -/

/-- entry of the build-side table: key, rows in insertion order, matched flag. -/
structure HEntry where
  key : List Val
  rows : List Row
  matched : Bool := false
  deriving Repr

/-- `hash_map.entry(keys).or_default().rows.push(row)`. -/
def hmInsert (k : List Val) (row : Row) : List HEntry → List HEntry
  | [] => [{ key := k, rows := [row] }]
  | e :: es => if e.key == k then { e with rows := e.rows ++ [row] } :: es else e :: hmInsert k row es

def hmBuild (lk : List (Row → Val)) (L : List Row) : List HEntry :=
  L.foldl (fun m l => hmInsert (keyOf lk l) l m) []

def hmLookup (k : List Val) : List HEntry → Option HEntry
  | [] => none
  | e :: es => if e.key == k then some e else hmLookup k es

def hmMark (k : List Val) : List HEntry → List HEntry
  | [] => []
  | e :: es => if e.key == k then { e with matched := true } :: es else e :: hmMark k es

/-- `has_null_key`: a join key containing a NULL never equals any key. -/
def hasNullKey (k : List Val) : Bool := k.any Val.isNull

/-- probe phase: returns the table with matched flags and the emitted rows.  A probe row whose key
contains a NULL is unmatched by definition (no lookup). -/
def hjProbe (padRight : Bool) (rk : List (Row → Val)) (nL : Nat) :
    List Row → List HEntry → List HEntry × List Row
  | [], m => (m, [])
  | r :: rs, m =>
    let k := keyOf rk r
    match (if hasNullKey k then none else hmLookup k m) with
    | some e =>
      let (m', out) := hjProbe padRight rk nL rs (hmMark k m)
      (m', e.rows.map (· ++ r) ++ out)
    | none =>
      let (m', out) := hjProbe padRight rk nL rs m
      (m', (if padRight then [nulls nL ++ r] else []) ++ out)

/-- `HashJoinExecutor<T>::execute` for T ∈ {inner, left_outer, right_outer, full_outer}. -/
def hashJoin (t : JoinType) (lk rk : List (Row → Val)) (nL nR : Nat) (Ls Rs : List Chunk) : List Chunk :=
  let padRight := t == .rightOuter || t == .fullOuter
  let padLeft := t == .leftOuter || t == .fullOuter
  -- left rows with a NULL in the key can not match: they enter the table only for the joins that
  -- must still emit them padded
  let m := hmBuild lk (if padLeft then flat Ls else (flat Ls).filter (fun l => !hasNullKey (keyOf lk l)))
  let (m', out) := hjProbe padRight rk nL (flat Rs) m
  let rest := if padLeft then
      (m'.filter (fun e => !e.matched)).flatMap (fun e => e.rows.map (· ++ nulls nR))
    else []
  emit (out ++ rest)

/-- `HashSemiJoinExecutor::execute`: the key SET of the right side, one output chunk per
left chunk. -/
def hashSemiJoin (anti : Bool) (lk rk : List (Row → Val)) (Ls Rs : List Chunk) : List Chunk :=
  let keys := ((flat Rs).map (keyOf rk)).filter (fun k => !hasNullKey k)
  Ls.map (fun c => c.filter (fun l => (!hasNullKey (keyOf lk l) && keys.contains (keyOf lk l)) != anti))

/-- `HashSemiJoinExecutor2::execute`: right rows grouped by key, residual condition evaluated
on `left row × group`. -/
def hashSemiJoin2 (anti : Bool) (lk rk : List (Row → Val)) (cond : Pred) (Ls Rs : List Chunk) : List Chunk :=
  let R := (flat Rs).filter (fun r => !hasNullKey (keyOf rk r))
  Ls.map (fun c => c.filter (fun l =>
    ((if hasNullKey (keyOf lk l) then [] else R.filter (fun r => keyOf rk r == keyOf lk l)).any
      (fun r => holds (cond (l ++ r)))) != anti))

/-! ## merge join -/

abbrev KGroup := List Val × List Row

/-- `group_by_keys`: state = (current_key, output_rows); a group is yielded when the key
changes and at the end — but only if the key is not the empty vector. -/
def gbkLoop (ks : List (Row → Val)) : List Row → List Val → List Row → List KGroup
  | [], cur, acc => if cur.isEmpty then [] else [(cur, acc)]
  | r :: rs, cur, acc =>
    let k := keyOf ks r
    if k != cur then
      (if cur.isEmpty then [] else [(cur, acc)]) ++ gbkLoop ks rs k [r]
    else gbkLoop ks rs cur (acc ++ [r])

def groupByKeys (ks : List (Row → Val)) (X : List Row) : List KGroup := gbkLoop ks X [] []

def crossLR (ls rs : List Row) : List Row := ls.flatMap (fun l => rs.map (l ++ ·))

/-- the `loop { match (&left_group, &right_group) … }` of `MergeJoinExecutor` (fuel = number of
iterations). `Vec<DataValue>` is compared with the derived lexicographic order (`rowCmp`). -/
def mergeLoop (padLeft padRight : Bool) (nL nR : Nat) : Nat → List KGroup → List KGroup → List Row
  | 0, _, _ => []
  | fuel + 1, (lk, lrows) :: ls, (rk, rrows) :: rs =>
    if lk == rk && !hasNullKey lk then crossLR lrows rrows ++ mergeLoop padLeft padRight nL nR fuel ls rs
    else if rowCmp lk rk == .lt || (lk == rk && hasNullKey lk) then
      (if padLeft then lrows.map (· ++ nulls nR) else []) ++
        mergeLoop padLeft padRight nL nR fuel ls ((rk, rrows) :: rs)
    else if rowCmp lk rk == .gt then
      (if padRight then rrows.map (nulls nL ++ ·) else []) ++
        mergeLoop padLeft padRight nL nR fuel ((lk, lrows) :: ls) rs
    else []
  | fuel + 1, (_, lrows) :: ls, [] =>
    (if padLeft then lrows.map (· ++ nulls nR) else []) ++ mergeLoop padLeft padRight nL nR fuel ls []
  | fuel + 1, [], (_, rrows) :: rs =>
    (if padRight then rrows.map (nulls nL ++ ·) else []) ++ mergeLoop padLeft padRight nL nR fuel [] rs
  | _ + 1, [], [] => []

def mergeJoin (t : JoinType) (lk rk : List (Row → Val)) (nL nR : Nat) (Ls Rs : List Chunk) : List Chunk :=
  let padRight := t == .rightOuter || t == .fullOuter
  let padLeft := t == .leftOuter || t == .fullOuter
  let lg := groupByKeys lk (flat Ls)
  let rg := groupByKeys rk (flat Rs)
  -- every iteration consumes a group: |lg| + |rg| + 1 iterations are enough
  emit (mergeLoop padLeft padRight nL nR (lg.length + rg.length + 1) lg rg)

/-! ## aggregation: states and the two accumulation paths -/

/-- static type of an aggregate argument: which array variant the column has (needed because
`ArrayImpl::sum` of an empty or all-NULL array is a typed zero). -/
inductive Ty where
  | bool | i16 | i32 | i64 | str | null
  deriving Repr, BEq, DecidableEq, Inhabited

inductive AggState where
  | value (v : Val)
  | distinct (vs : List Val)
  deriving Repr, BEq

/-- `DataValue + DataValue` (value.rs `impl_arith_for_datavalue`): NULL if either is NULL, defined
for `Int32+Int32` and `Int64+Int64` (everything else panics in the code; `none`). -/
def plusVal : Val → Val → Option Val
  | .null, _ => some .null
  | _, .null => some .null
  | .i32 a, .i32 b => some (.i32 (a + b))
  | .i64 a, .i64 b => some (.i64 (a + b))
  | _, _ => none

/-- `Ext::add`: NULL is the identity of the running aggregate
(`if self.is_null() { other } else if other.is_null() { self } else { self + other }`); a panic of
`+` (mixed types) is `.null` here. -/
def addExt (s v : Val) : Val := if s.isNull then v else if v.isNull then s else (plusVal s v).getD .null

/-- `Ext::or`. -/
def orExt (s v : Val) : Val := if s.isNull then v else s

def initAgg : AggKind → AggState
  | .countDistinct => .distinct []
  | .rowCount | .count => .value (.i32 0)
  | _ => .value .null

def setInsert (v : Val) (vs : List Val) : List Val := if vs.contains v then vs else vs ++ [v]

/-- COUNT(DISTINCT) value set: NULL is not inserted. -/
def setInsertNN (v : Val) (vs : List Val) : List Val := if v.isNull then vs else setInsert v vs

/-- `Evaluator::agg_append` — the ROW path (hash_agg, sort_agg). -/
def aggAppend (k : AggKind) (st : AggState) (v : Val) : AggState :=
  match st with
  | .value s => .value (match k with
    | .rowCount => addExt s (.i32 1)
    | .count => addExt s (.i32 (if v.isNull then 0 else 1))
    | .sum => addExt s v
    | .min => minVal s v
    | .max => maxVal s v
    | .first => orExt s v
    | .last => v
    | .countDistinct => s)
  | .distinct vs => .distinct (setInsertNN v vs)

/-- array kernels used by the CHUNK path (`ArrayImpl::{sum,count,min_,max_,first,last}`).
`sum` adds the NON-NULL slots (`nonnull_iter().sum()`) and is NULL when there is none; the raw slots
under NULLs (`raws`, still carried by `evalAgg` for the record) are no longer read. -/
def zeroOf : Ty → Val
  | .i16 => .i16 0 | .i32 => .i32 0 | .i64 => .i64 0 | _ => .null

def arrCount (col : List Val) : Nat := (nonNull col).length
def arrSum (ty : Ty) (col : List Val) : Val :=
  if arrCount col == 0 then .null else (zeroOf ty).withInt (sumInts (intsOf col))
def arrMin (col : List Val) : Val := (nonNull col).foldl minVal .null
def arrMax (col : List Val) : Val := (nonNull col).foldl maxVal .null
def arrFirst (col : List Val) : Val := col.head?.getD .null
def arrLast (col : List Val) : Val := col.getLast?.getD .null

/-- `Evaluator::eval_agg` — the CHUNK path (simple_agg): `col` is the argument column of one
chunk (values), `raws` its raw slots. -/
def evalAgg (k : AggKind) (ty : Ty) (st : AggState) (col : List Val) (_raws : List Int) : AggState :=
  match st with
  | .value s => .value (match k with
    | .rowCount => addExt s (.i32 col.length)
    | .count => addExt s (.i32 (arrCount col))
    | .sum => addExt s (arrSum ty col)
    | .min => minVal s (arrMin col)
    | .max => maxVal s (arrMax col)
    | .first => orExt s (arrFirst col)
    | .last => orExt (arrLast col) s
    | .countDistinct => s)
  | .distinct vs => .distinct (col.foldl (fun acc v => setInsertNN v acc) vs)

def AggState.result : AggState → Val
  | .value v => v
  | .distinct vs => .i32 vs.length

/-- raw slot of a value of a stored column: the payload, 0 under NULL. -/
def rawOfVal (v : Val) : Int := v.int?.getD 0

/-- an aggregate call with the static type of its argument. -/
structure XAgg where
  kind : AggKind
  arg : Row → Val
  ty : Ty := .i32
  /-- raw slot content of the argument array for this row (see `arrSum`). -/
  raw : Row → Int := fun r => rawOfVal (arg r)

def XAgg.toCall (a : XAgg) : AggCall := { kind := a.kind, arg := a.arg }

def initStates (aggs : List XAgg) : List AggState := aggs.map (fun a => initAgg a.kind)

/-- `agg_list_append`: one row into every state. -/
def appendRow (aggs : List XAgg) (sts : List AggState) (r : Row) : List AggState :=
  (aggs.zip sts).map (fun (a, s) => aggAppend a.kind s (a.arg r))

/-- `eval_agg_list`: one chunk into every state. -/
def evalChunk (aggs : List XAgg) (sts : List AggState) (c : Chunk) : List AggState :=
  (aggs.zip sts).map (fun (a, s) => evalAgg a.kind a.ty s (c.map a.arg) (c.map a.raw))

/-- value the ROW path computes for one aggregate over the argument values of a group. -/
def rowPathVal (k : AggKind) (vs : List Val) : Val := (vs.foldl (aggAppend k) (initAgg k)).result

/-- value the CHUNK path computes for one aggregate over a stream of argument columns
(`raws` = raw slots, see `arrSum`). -/
def chunkPathVal (k : AggKind) (ty : Ty) (cols : List (List Val × List Int)) : Val :=
  (cols.foldl (fun st c => evalAgg k ty st c.1 c.2) (initAgg k)).result

/-- `SimpleAggExecutor::execute`: chunk path, exactly one output row. -/
def simpleAgg (aggs : List XAgg) (Xs : List Chunk) : List Chunk :=
  [[(Xs.foldl (evalChunk aggs) (initStates aggs)).map AggState.result]]

/-- hash table of `HashAggExecutor`: association list key ↦ states. -/
def haInsert (aggs : List XAgg) (k : List Val) (r : Row) : List (List Val × List AggState) → List (List Val × List AggState)
  | [] => [(k, appendRow aggs (initStates aggs) r)]
  | (k', s) :: es => if k' == k then (k', appendRow aggs s r) :: es else (k', s) :: haInsert aggs k r es

/-- `HashAggExecutor::execute`: row path. -/
def hashAgg (ks : List (Row → Val)) (aggs : List XAgg) (Xs : List Chunk) : List Chunk :=
  let tbl := (flat Xs).foldl (fun m r => haInsert aggs (keyOf ks r) r m) []
  emit (tbl.map (fun (k, s) => k ++ s.map AggState.result))

/-- `SortAggExecutor::execute`: row path, a new group whenever the key differs from the last. -/
def saLoop (ks : List (Row → Val)) (aggs : List XAgg) :
    List Row → Option (List Val) → List AggState → List Row
  | [], none, _ => []
  | [], some k, sts => [k ++ sts.map AggState.result]
  | r :: rs, last, sts =>
    let k := keyOf ks r
    if last == some k then saLoop ks aggs rs last (appendRow aggs sts r)
    else
      (match last with
        | some k0 => [k0 ++ sts.map AggState.result]
        | none => []) ++ saLoop ks aggs rs (some k) (appendRow aggs (initStates aggs) r)

def sortAgg (ks : List (Row → Val)) (aggs : List XAgg) (Xs : List Chunk) : List Chunk :=
  emit (saLoop ks aggs (flat Xs) none (initStates aggs))

/-! ## order, top-N, limit -/

/-- `OrderExecutor`: collects everything, sorts by the keys (the real `sort_unstable_by` may
permute ties; the model uses the stable sort — only the key projection is compared). -/
def orderExec (ks : List OrderKey) (Xs : List Chunk) : List Chunk :=
  emit (sortStable (orderCmp ks) (flat Xs))

/-- bounded heap of `TopNExecutor`: push, then pop a greatest element when over capacity.
Kept sorted; the popped element is the last one (which greatest element a real heap pops among
ties is not observable on the keys). -/
def heapPush (cmp : Row → Row → Ordering) (cap : Nat) (h : List Row) (r : Row) : List Row :=
  (insertStable cmp r h).take cap

def topNExec (n off : Nat) (ks : List OrderKey) (Xs : List Chunk) : List Chunk :=
  let h := (flat Xs).foldl (heapPush (orderCmp ks) (off + n)) []
  emit ((h.drop off).take n)

/-- `LimitExecutor::execute`, chunk by chunk with the `processed` counter. -/
def limitLoop (n off : Nat) : List Chunk → Nat → List Chunk
  | [], _ => []
  | c :: cs, processed =>
    if n == 0 then []
    else
      let card := c.length
      let start := max processed off - processed
      let stop := min (processed + card) (off + n) - processed
      let processed' := processed + card
      let out := if start ≥ stop then [] else [(c.drop start).take (stop - start)]
      if start < stop && processed' ≥ off + n then out
      else out ++ limitLoop n off cs processed'

def limitExec (n off : Nat) (Xs : List Chunk) : List Chunk := limitLoop n off Xs 0

/-- `usize::MAX / 2`: what `limit null` becomes. -/
def noLimit : Nat := 9223372036854775807

/-- filter and projection executors (chunk-wise). -/
def filterExec (p : Pred) (Xs : List Chunk) : List Chunk := Xs.map (fun c => c.filter (fun r => holds (p r)))
def projExec (fs : List (Row → Val)) (Xs : List Chunk) : List Chunk := Xs.map (fun c => c.map (fun r => fs.map (· r)))

/-- re-chunking of a stream at `n` rows per chunk (`n = 0`: a single chunk). -/
def rechunk (n : Nat) (Xs : List Chunk) : List Chunk :=
  if n == 0 then [flat Xs] else builderRun n (flat Xs) []

/-- key equality as the hash / merge join executors decide it on the key vectors they are given:
structural equality (`DataValue`'s derived `Eq`) of NULL-free key vectors. -/
def jkEq (a b : List Val) : Bool := !hasNullKey a && !hasNullKey b && a == b

/-- The hypothesis of the hash / merge join theorems about the executors' bodies: on the rows at hand,
structural key equality coincides with SQL equality of the keys (what the join condition means).  NULL
keys satisfy it by themselves (never equal on either side); what is left is that NULL-free keys that
are SQL-equal are structurally equal — it fails for RAW keys of different integer widths (`Int32 1`
vs `Int64 1`), and it holds for every data once the keys are widened (`widen_keys_comparable`). -/
def KeysComparable (lk rk : List (Row → Val)) (L R : List Row) : Prop :=
  ∀ l ∈ L, ∀ r ∈ R, jkEq (keyOf lk l) (keyOf rk r) = holds (keysEq3 (keyOf lk l) (keyOf rk r))

/-! ## join keys compare by value (`join_key`, hash_join.rs)

`keys.values().map(join_key).collect()` at every site that builds a key vector (hash join build and
probe, hash semi / anti join with and without residual condition, `group_by_keys` of the merge
join): an integer of any width becomes `Int64`, every other value is unchanged. -/

def joinKey : Val → Val
  | .i16 v => .i64 v
  | .i32 v => .i64 v
  | v => v

/-- the key expressions followed by `join_key`. -/
def wk (ks : List (Row → Val)) : List (Row → Val) := ks.map (fun f r => joinKey (f r))

/-- `HashJoinExecutor<T>::execute`. -/
def hashJoinW (t : JoinType) (lk rk : List (Row → Val)) (nL nR : Nat) (Ls Rs : List Chunk) : List Chunk :=
  hashJoin t (wk lk) (wk rk) nL nR Ls Rs

/-- `HashSemiJoinExecutor::execute`. -/
def hashSemiJoinW (anti : Bool) (lk rk : List (Row → Val)) (Ls Rs : List Chunk) : List Chunk :=
  hashSemiJoin anti (wk lk) (wk rk) Ls Rs

/-- `HashSemiJoinExecutor2::execute`. -/
def hashSemiJoin2W (anti : Bool) (lk rk : List (Row → Val)) (cond : Pred) (Ls Rs : List Chunk) : List Chunk :=
  hashSemiJoin2 anti (wk lk) (wk rk) cond Ls Rs

/-- `MergeJoinExecutor<T>::execute`. -/
def mergeJoinW (t : JoinType) (lk rk : List (Row → Val)) (nL nR : Nat) (Ls Rs : List Chunk) : List Chunk :=
  mergeJoin t (wk lk) (wk rk) nL nR Ls Rs

end RlModel
