import RlModel.Model.Value19
/-
C19 model, part 2 (L10): `Display` / `FromStr` per SQL type, as RisingLight uses them for
`to_string`, `ArrayImpl::get_to_string` (CSV export), `ArrayBuilderImpl::push_str` (CSV import)
and cast-from-string.  Text is a list of UTF-8 bytes.

* integers / bool: `core::fmt` and `str::parse` (optional sign, ASCII digits, range check);
* blob: `BlobRef::fmt` / `Blob::from_str` of src/types/blob.rs (including its char-boundary panic);
* date: chrono `%Y-%m-%d` formatting/parsing over the proleptic Gregorian calendar, the day
  count ↔ civil date conversion done with the days-from-civil / civil-from-days algorithms;
* timestamp: µs → ms (truncating) → `NaiveDateTime` Display (fraction printed when non-zero),
  parsed with `%Y-%m-%d %H:%M:%S` (no fraction accepted);
* interval: years/months/days/hours/minutes/seconds with truncating division, sub-second dropped.

Outcome `Out`: `ok v`, `err` (a `Result::Err`, any message), `panic` (the Rust code panics).
-/
namespace RlModel
namespace V19

abbrev Bytes := List UInt8

inductive Out (α : Type) where
  | ok (v : α)
  | err
  | panic
  deriving Repr, DecidableEq

def strBytes (s : String) : Bytes := s.toUTF8.toList

/-! ### decimal digits -/

def isDigit (b : UInt8) : Bool := 48 ≤ b.toNat && b.toNat ≤ 57
def digitVal (b : UInt8) : Nat := b.toNat - 48
def digitByte (d : Nat) : UInt8 := UInt8.ofNat (48 + d)

/-- little-endian decimal digits of `n` (at least one), fuel ≥ number of digits -/
def digitsLE : Nat → Nat → Bytes
  | 0, n => [digitByte (n % 10)]
  | f + 1, n => if n < 10 then [digitByte n] else digitByte (n % 10) :: digitsLE f (n / 10)

/-- `format!("{}", n)` for a natural number -/
def natDigits (n : Nat) : Bytes := (digitsLE n n).reverse

/-- value of a little-endian digit string -/
def valLE : Bytes → Nat
  | [] => 0
  | b :: bs => digitVal b + 10 * valLE bs

/-- value of a digit string (most significant first) -/
def parseNat (ds : Bytes) : Nat := valLE ds.reverse

/-- left-pad with `0` to width `w` (`{:0w}`) -/
def padZero (w : Nat) (ds : Bytes) : Bytes := List.replicate (w - ds.length) 48 ++ ds

/-- `format!("{}", v)` for a signed integer -/
def intDigits (v : Int) : Bytes :=
  if v < 0 then 45 :: natDigits v.natAbs else natDigits v.natAbs

/-- split off the longest prefix of at most `max` digits -/
def takeDigits : Nat → Bytes → Bytes × Bytes
  | 0, s => ([], s)
  | _ + 1, [] => ([], [])
  | k + 1, b :: bs =>
    if isDigit b then let r := takeDigits k bs; (b :: r.1, r.2) else ([], b :: bs)

def allDigits (s : Bytes) : Bool := s.all isDigit

/-- `str::parse::<iN>()`: optional `+`/`-`, at least one ASCII digit, nothing else, in range. -/
def parseIntRange (lo hi : Int) (s : Bytes) : Out Int :=
  match s with
  | [] => .err
  | b :: r =>
    let neg : Bool := b = 45
    let ds : Bytes := if b = 45 ∨ b = 43 then r else b :: r
    if ds.isEmpty || !allDigits ds then .err
    else
      let v : Int := if neg then -(parseNat ds : Int) else (parseNat ds : Int)
      if lo ≤ v ∧ v ≤ hi then .ok v else .err

def i16Lo : Int := -32768
def i16Hi : Int := 32767
def i32Lo : Int := -2147483648
def i32Hi : Int := 2147483647
def i64Lo : Int := -9223372036854775808
def i64Hi : Int := 9223372036854775807

/-! ### bool -/

def displayBool (b : Bool) : Bytes := if b then [116, 114, 117, 101] else [102, 97, 108, 115, 101]

def parseBool (s : Bytes) : Out Bool :=
  if s = [116, 114, 117, 101] then .ok true
  else if s = [102, 97, 108, 115, 101] then .ok false
  else .err

/-! ### blob (src/types/blob.rs) -/

def hexUpper (n : Nat) : UInt8 := if n < 10 then UInt8.ofNat (48 + n) else UInt8.ofNat (55 + n)

/-- `BlobRef::fmt`: `\` ↦ `\\`, `'` ↦ `''`, printable ASCII as is, the rest `\xNN` (upper case) -/
def displayBlob : Bytes → Bytes
  | [] => []
  | b :: bs =>
    (if b = 92 then [92, 92]
     else if b = 39 then [39, 39]
     else if 32 ≤ b.toNat ∧ b.toNat ≤ 126 then [b]
     else [92, 120, hexUpper (b.toNat / 16), hexUpper (b.toNat % 16)]) ++ displayBlob bs

def hexDigitVal (b : UInt8) : Option Nat :=
  let n := b.toNat
  if 48 ≤ n ∧ n ≤ 57 then some (n - 48)
  else if 65 ≤ n ∧ n ≤ 70 then some (n - 55)
  else if 97 ≤ n ∧ n ≤ 102 then some (n - 87)
  else none

/-- number of bytes of the UTF-8 sequence introduced by lead byte `b` (1 for ASCII) -/
def utf8Len (b : UInt8) : Nat :=
  let n := b.toNat
  if n < 128 then 1 else if n < 224 then 2 else if n < 240 then 3 else 4

/-- `u8::from_str_radix(s, 16)` on a 2-byte string: optional `+` then hex digits -/
def parseHex2 (a b : UInt8) : Option Nat :=
  if a = 43 then hexDigitVal b
  else match hexDigitVal a, hexDigitVal b with
    | some x, some y => some (x * 16 + y)
    | _, _ => none

/-- `Blob::from_str` (the input is valid UTF-8).  `\x` must be followed by two bytes that are
parsed as hex; slicing those two bytes panics when they end inside a multi-byte character;
any other non-ASCII character is `InvalidChar`. -/
def parseBlob : Nat → Bytes → Out Bytes
  | 0, _ => .ok []
  | _ + 1, [] => .ok []
  | f + 1, 92 :: 120 :: rest =>
    match rest with
    | a :: b :: rest' =>
      -- `ss.get(..2)` must end on a char boundary (`InvalidChar` otherwise)
      if utf8Len a = 1 ∧ utf8Len b ≠ 1 then .err
      else if utf8Len a > 2 then .err
      else match parseHex2 a b with
        | none => .err
        | some v => match parseBlob f rest' with
          | .ok r => .ok (UInt8.ofNat v :: r)
          | e => e
    | _ => .err
  -- the inverse of Display's `\\` and `''`
  | f + 1, 92 :: 92 :: rest =>
    match parseBlob f rest with
    | .ok r => .ok (92 :: r)
    | e => e
  | f + 1, 39 :: 39 :: rest =>
    match parseBlob f rest with
    | .ok r => .ok (39 :: r)
    | e => e
  | f + 1, b :: rest =>
    if utf8Len b ≠ 1 then .err
    else match parseBlob f rest with
      | .ok r => .ok (b :: r)
      | e => e

def parseBlobText (s : Bytes) : Out Bytes := parseBlob (s.length + 1) s

/-! ### civil calendar (proleptic Gregorian), days counted from 1970-01-01 -/

def isLeap (y : Int) : Bool := y % 4 = 0 && (y % 100 ≠ 0 || y % 400 = 0)

def daysInMonth (y : Int) (m : Int) : Int :=
  if m = 2 then (if isLeap y then 29 else 28)
  else if m = 4 ∨ m = 6 ∨ m = 9 ∨ m = 11 then 30 else 31

def validYmd (y m d : Int) : Bool := 1 ≤ m && m ≤ 12 && 1 ≤ d && d ≤ daysInMonth y m

/-- days since 1970-01-01 of the civil date y-m-d -/
def daysFromCivil (y m d : Int) : Int :=
  let y' := if m ≤ 2 then y - 1 else y
  let era := y' / 400
  let yoe := y' - era * 400
  let mp := if m > 2 then m - 3 else m + 9
  let doy := (153 * mp + 2) / 5 + d - 1
  let doe := yoe * 365 + yoe / 4 - yoe / 100 + doy
  era * 146097 + doe - 719468

/-- (era, day of era ∈ [0, 146096]) of a day count; eras are 400 years starting 0000-03-01 -/
def splitEra (z : Int) : Int × Int :=
  let era := (z + 719468) / 146097
  (era, z + 719468 - era * 146097)

/-- day of era ↦ (year of era ∈ [0,399], day of the March-based year ∈ [0,365]):
century (the 4th "century" is the single last day), 4-year cycle, year. -/
def yearOfEra (doe : Int) : Int × Int :=
  let c := if doe / 36524 ≥ 4 then 3 else doe / 36524
  let doc := doe - c * 36524
  let q := doc / 1461
  let doq := doc - q * 1461
  let yq := if doq / 365 ≥ 4 then 3 else doq / 365
  (c * 100 + q * 4 + yq, doq - yq * 365)

/-- day of the March-based year ↦ (civil month 1..12, day of month) -/
def monthDay (doy : Int) : Int × Int :=
  let mp := (5 * doy + 2) / 153
  (if mp < 10 then mp + 3 else mp - 9, doy - (153 * mp + 2) / 5 + 1)

/-- civil date (y, m, d) of a day count -/
def civilFromDays (z : Int) : Int × Int × Int :=
  let ed := splitEra z
  let yd := yearOfEra ed.2
  let md := monthDay yd.2
  (ed.1 * 400 + yd.1 + (if md.1 ≤ 2 then 1 else 0), md.1, md.2)

/-- chrono's `NaiveDate` range: years -262143 ..= 262142 -/
def chronoMinYear : Int := -262143
def chronoMaxYear : Int := 262142
def chronoMinDays : Int := -96465292   -- -262143-01-01
def chronoMaxDays : Int := 95026236    -- +262142-12-31

def dateInRange (d : Int) : Bool := chronoMinDays ≤ d && d ≤ chronoMaxDays

/-- chrono `%Y`: 4 digits zero padded for 0..=9999, otherwise an explicit sign -/
def fmtYear (y : Int) : Bytes :=
  if 0 ≤ y ∧ y ≤ 9999 then padZero 4 (natDigits y.natAbs)
  else (if y < 0 then 45 else 43) :: padZero 4 (natDigits y.natAbs)

def fmt2 (v : Int) : Bytes := padZero 2 (natDigits v.natAbs)

def fmtYmd (y m d : Int) : Bytes := fmtYear y ++ [45] ++ fmt2 m ++ [45] ++ fmt2 d

/-- `<date out of range: N days>` -/
def dateFallback (d : Int) : Bytes :=
  [60, 100, 97, 116, 101, 32, 111, 117, 116, 32, 111, 102, 32, 114, 97, 110, 103, 101, 58, 32] ++
    intDigits d ++ [32, 100, 97, 121, 115, 62]

/-- `Date::fmt`: `checked_add(UNIX_EPOCH_DAYS)` and `NaiveDate::from_num_days_from_ce_opt`, then
`%Y-%m-%d`; a day count chrono cannot represent prints as a fallback text (it used to panic). -/
def displayDate (d : Int) : Out Bytes :=
  if dateInRange d then
    let (y, m, dd) := civilFromDays d
    .ok (fmtYmd y m dd)
  else .ok (dateFallback d)

def isWs (b : UInt8) : Bool := b = 32 || (9 ≤ b.toNat && b.toNat ≤ 13)

def skipWs : Bytes → Bytes
  | [] => []
  | b :: bs => if isWs b then skipWs bs else b :: bs

/-- chrono numeric item `%Y`: leading white space skipped, optional sign; unsigned: 1..4
digits, signed: any number of digits. Returns the year and the rest. -/
def scanYear (s : Bytes) : Option (Int × Bytes) :=
  match skipWs s with
  | [] => none
  | b :: r =>
    if b = 45 then
      let p := takeDigits r.length r
      if p.1.isEmpty then none else some (-(parseNat p.1 : Int), p.2)
    else if b = 43 then
      let p := takeDigits r.length r
      if p.1.isEmpty then none else some ((parseNat p.1 : Int), p.2)
    else
      let p := takeDigits 4 (b :: r)
      if p.1.isEmpty then none else some ((parseNat p.1 : Int), p.2)

/-- chrono numeric item of width ≤ 2 (`%m %d %H %M %S`): white space skipped, 1..2 digits -/
def scan2 (s : Bytes) : Option (Int × Bytes) :=
  let p := takeDigits 2 (skipWs s)
  if p.1.isEmpty then none else some ((parseNat p.1 : Int), p.2)

def expectByte (b : UInt8) : Bytes → Option Bytes
  | c :: r => if c = b then some r else none
  | [] => none

/-- `%Y-%m-%d` prefix: (y, m, d, rest), no validation yet -/
def scanYmd (s : Bytes) : Option (Int × Int × Int × Bytes) :=
  (scanYear s).bind fun yr =>
  (expectByte 45 yr.2).bind fun r2 =>
  (scan2 r2).bind fun mr =>
  (expectByte 45 mr.2).bind fun r4 =>
  (scan2 r4).bind fun dr =>
  some (yr.1, mr.1, dr.1, dr.2)

/-- `NaiveDate::parse_from_str(s, "%Y-%m-%d")` then days since 1970-01-01 -/
def parseDate (s : Bytes) : Out Int :=
  match scanYmd s with
  | some (y, m, d, []) =>
    if chronoMinYear ≤ y ∧ y ≤ chronoMaxYear ∧ validYmd y m d then .ok (daysFromCivil y m d) else .err
  | _ => .err

/-! ### timestamp (src/types/timestamp.rs): µs, offset by 30 years; printed through chrono -/

def thirtyYearsUs : Int := 946684800000000

/-- `NaiveTime` Display fraction of a µs count: nothing, `.mmm` or `.uuuuuu` (chrono prints 3, 6
or 9 digits, whichever is exact) -/
def fmtFracUs (fr : Int) : Bytes :=
  if fr = 0 then []
  else if fr % 1000 = 0 then 46 :: padZero 3 (natDigits (fr / 1000).natAbs)
  else 46 :: padZero 6 (natDigits fr.natAbs)

def fmtHms (secOfDay : Int) : Bytes :=
  fmt2 (secOfDay / 3600) ++ [58] ++ fmt2 (secOfDay / 60 % 60) ++ [58] ++ fmt2 (secOfDay % 60)

/-- `<timestamp out of range: N us>` -/
def tsFallback (us : Int) : Bytes :=
  [60, 116, 105, 109, 101, 115, 116, 97, 109, 112, 32, 111, 117, 116, 32, 111, 102, 32, 114, 97,
   110, 103, 101, 58, 32] ++ intDigits us ++ [32, 117, 115, 62]

/-- `to_naive_utc`: the i64 subtraction does not overflow and `from_timestamp_micros` can
represent the instant (floor division into seconds, then days) -/
def tsPrintable (us : Int) : Bool :=
  !(decide (us - thirtyYearsUs < i64Lo)) && dateInRange ((us - thirtyYearsUs) / 86400000000)

/-- `Timestamp::fmt` (after the fix of the sub-second / BC-year findings): µs − 30 y, split by
FLOOR division into day, second of day and µs fraction; unrepresentable values print a fallback
text; `naive_sys_fmt`: years < 0 as `<-year printed like %Y> … BC`, otherwise chrono's
`NaiveDateTime` Display; the fraction is printed in both forms. -/
def displayTimestamp (us : Int) : Out Bytes :=
  if !tsPrintable us then .ok (tsFallback us)
  else
    let u := us - thirtyYearsUs
    let secs := u / 1000000
    let c := civilFromDays (secs / 86400)
    let time := fmtHms (secs % 86400) ++ fmtFracUs (u % 1000000)
    if c.1 < 0 then
      .ok (fmtYmd (-c.1) c.2.1 c.2.2 ++ [32] ++ time ++ [32, 66, 67])
    else
      .ok (fmtYmd c.1 c.2.1 c.2.2 ++ [32] ++ time)

/-- `TimestampTz::fmt` with the (only) system offset `+00:00` (no suffix on the fallback text) -/
def displayTimestampTz (us : Int) : Out Bytes :=
  if tsPrintable us then
    match displayTimestamp us with
    | .ok t => .ok (t ++ [32, 43, 48, 48, 58, 48, 48])
    | e => e
  else .ok (tsFallback us)

/-- `%Y-%m-%d %H:%M:%S` prefix → (y, m, d, H, M, S, rest) -/
def scanYmdHms (s : Bytes) : Option (Int × Int × Int × Int × Int × Int × Bytes) :=
  (scanYmd s).bind fun a =>
  (scan2 a.2.2.2).bind fun h =>   -- the space of the format matches ≥ 0 white space, which the
                                  -- numeric item skips itself
  (expectByte 58 h.2).bind fun r2 =>
  (scan2 r2).bind fun mi =>
  (expectByte 58 mi.2).bind fun r3 =>
  (scan2 r3).bind fun se =>
  some (a.1, a.2.1, a.2.2.1, h.1, mi.1, se.1, se.2)

def timestampOfCivil (y m d h mi se : Int) : Int :=
  (daysFromCivil y m d * 86400 + h * 3600 + mi * 60 + se) * 1000000 + thirtyYearsUs

/-- `%z`: sign (`+`, `-` or U+2212), two digits, any number of `:`/white space, two digits < 60;
returns the offset in seconds -/
def scanOffset (s : Bytes) : Option (Int × Bytes) :=
  let sr : Option (Int × Bytes) := match s with
    | 43 :: r => some (1, r)
    | 45 :: r => some (-1, r)
    | 226 :: 136 :: 146 :: r => some (-1, r)
    | _ => none
  match sr with
  | none => none
  | some (sg, r) =>
    match r with
    | a :: b :: r2 =>
      if isDigit a && isDigit b then
        let hh : Int := (parseNat [a, b] : Nat)
        let r3 := r2.dropWhile fun c => c = 58 || isWs c
        match r3 with
        | c :: d :: r4 =>
          if isDigit c && isDigit d then
            let mm : Int := (parseNat [c, d] : Nat)
            if mm < 60 then some (sg * (hh * 3600 + mm * 60), r4) else none
          else none
        | _ => none
      else none
    | _ => none

/-- literal `AD` / `BC` -/
def scanEra : Bytes → Option (Bool × Bytes)
  | 65 :: 68 :: r => some (false, r)
  | 66 :: 67 :: r => some (true, r)
  | _ => none

/-- what may follow `%Y-%m-%d %H:%M:%S` in the eight accepted formats:
nothing, an era, an offset, era + offset in either order (white space between items is free).
`none` = no format matches. Result: (is BC, offset seconds). -/
def parseTsSuffix (s0 : Bytes) : Option (Bool × Option Int) :=
  let s := skipWs s0
  if s0 = [] then some (false, none)
  else match scanEra s with
  | some (bc, r) =>
    if r = [] then some (bc, none)
    else match scanOffset (skipWs r) with
      | some (off, r2) => if r2 = [] then some (bc, some off) else none
      | none => none
  | none =>
    match scanOffset s with
    | some (off, r) =>
      if r = [] then some (false, some off)
      else match scanEra (skipWs r) with
        | some (bc, r2) => if r2 = [] then some (bc, some off) else none
        | none => none
    | none => none

/-- the general tail of `from_str`: `tz = false` is `Timestamp` (the offset is parsed and ignored),
`tz = true` is `TimestampTz` (offset must be below 24 h; it is subtracted before the BC year
mirroring, as `naive_utc_to_timestamp(&dt.naive_utc(), is_bc)` does). -/
def finishTimestamp (tz : Bool) (y m d h mi se fr : Int) (bc : Bool) (off : Option Int) : Out Int :=
  let off' : Int := if tz then off.getD 0 else 0
  if tz ∧ ¬ (-86400 < off' ∧ off' < 86400) then .err
  else if off' = 0 then
    let y' := if bc then -y else y
    if bc ∧ ¬ (chronoMinYear ≤ y' ∧ validYmd y' m d) then .err
    else .ok (timestampOfCivil y' m d h mi se + fr)
  else
    let total := daysFromCivil y m d * 86400 + h * 3600 + mi * 60 + se - off'
    let c := civilFromDays (total / 86400)
    let y' := if bc then -c.1 else c.1
    if bc ∧ ¬ (chronoMinYear ≤ y' ∧ validYmd y' c.2.1 c.2.2) then .err
    else .ok ((daysFromCivil y' c.2.1 c.2.2 * 86400 + total % 86400) * 1000000 + thirtyYearsUs + fr)

/-- chrono `%.f`: nothing, or `.` followed by 1..9 digits (nanoseconds, right padded; further
digits are skipped).  Returns the µs (nanoseconds truncated) and the rest; `none` = error. -/
def scanFrac : Bytes → Option (Int × Bytes)
  | 46 :: r =>
    let p := takeDigits 9 r
    if p.1.isEmpty then none
    else some (((parseNat p.1 * 10 ^ (9 - p.1.length) / 1000 : Nat) : Int), p.2.dropWhile isDigit)
  | s => some (0, s)

/-- `Timestamp::from_str`: `%Y-%m-%d %H:%M:%S%.f`, then nothing / `AD` / `BC` / `%z` offset (ignored)
in the eight accepted arrangements.  `none` = outside the model (leap second `:60`). -/
def parseTimestamp (s : Bytes) : Option (Out Int) :=
  match scanYmdHms s with
  | some (y, m, d, h, mi, se, rest0) =>
    match scanFrac rest0 with
    | none => some .err
    | some (fr, rest) =>
      if ¬ (chronoMinYear ≤ y ∧ y ≤ chronoMaxYear ∧ validYmd y m d ∧ h ≤ 23 ∧ mi ≤ 59 ∧ se ≤ 60) then some .err
      else if se = 60 then none
      else match parseTsSuffix rest with
        | none => some .err
        | some (bc, off) => some (finishTimestamp false y m d h mi se fr bc off)
  | none => some .err     -- every accepted format starts with `%Y-%m-%d %H:%M:%S`

/-- `TimestampTz::from_str` (system offset +00:00) -/
def parseTimestampTz (s : Bytes) : Option (Out Int) :=
  match scanYmdHms s with
  | some (y, m, d, h, mi, se, rest0) =>
    match scanFrac rest0 with
    | none => some .err
    | some (fr, rest) =>
      if ¬ (chronoMinYear ≤ y ∧ y ≤ chronoMaxYear ∧ validYmd y m d ∧ h ≤ 23 ∧ mi ≤ 59 ∧ se ≤ 60) then some .err
      else if se = 60 then none
      else match parseTsSuffix rest with
        | none => some .err
        | some (bc, off) => some (finishTimestamp true y m d h mi se fr bc off)
  | none => some .err

/-! ### interval (src/types/interval.rs) -/

/-- the six printed fields: years, months, days, hours, minutes, seconds (Rust `/` and `%`
truncate toward zero) -/
def intervalFields (months days ms : Int) : List Int :=
  [Int.tdiv months 12, Int.tmod months 12, days,
   Int.tdiv (Int.tdiv (Int.tdiv ms 1000) 60) 60,
   Int.tmod (Int.tdiv (Int.tdiv ms 1000) 60) 60,
   Int.tmod (Int.tdiv ms 1000) 60,
   Int.tmod ms 1000]       -- milliseconds (printed since fix 2c03e9c)

def unitNames : List Bytes :=
  [[121, 101, 97, 114], [109, 111, 110, 116, 104], [100, 97, 121], [104, 111, 117, 114],
   [109, 105, 110, 117, 116, 101], [115, 101, 99, 111, 110, 100],
   [109, 105, 108, 108, 105, 115, 101, 99, 111, 110, 100]]

/-- tokens `<n> <unit>[s]` of the non-zero fields -/
def intervalTokens : List Int → List Bytes → List Bytes
  | v :: vs, u :: us =>
    (if v = 0 then [] else [intDigits v, if v = 1 ∨ v = -1 then u else u ++ [115]]) ++
      intervalTokens vs us
  | _, _ => []

def joinSp : List Bytes → Bytes
  | [] => []
  | [t] => t
  | t :: ts => t ++ 32 :: joinSp ts

/-- `Interval::fmt` -/
def displayInterval (months days ms : Int) : Bytes :=
  joinSp (intervalTokens (intervalFields months days ms) unitNames)

def isAsciiWs (b : UInt8) : Bool := b = 32 || b = 9 || b = 10 || b = 12 || b = 13

/-- `split_ascii_whitespace` after `replace('_', " ")` -/
def tokenize : Bytes → Bytes → List Bytes
  | [], cur => if cur.isEmpty then [] else [cur.reverse]
  | b :: bs, cur =>
    if isAsciiWs b || b = 95 then
      (if cur.isEmpty then tokenize bs [] else cur.reverse :: tokenize bs [])
    else tokenize bs (b :: cur)

def unitIndex (t : Bytes) : Option Nat :=
  if t = [121, 101, 97, 114] ∨ t = [121, 101, 97, 114, 115] then some 0
  else if t = [109, 111, 110, 116, 104] ∨ t = [109, 111, 110, 116, 104, 115] then some 1
  else if t = [100, 97, 121] ∨ t = [100, 97, 121, 115] then some 2
  else if t = [104, 111, 117, 114] ∨ t = [104, 111, 117, 114, 115] then some 3
  else if t = [109, 105, 110, 117, 116, 101] ∨ t = [109, 105, 110, 117, 116, 101, 115] then some 4
  else if t = [115, 101, 99, 111, 110, 100] ∨ t = [115, 101, 99, 111, 110, 100, 115] then some 5
  else if t = [109, 105, 108, 108, 105, 115, 101, 99, 111, 110, 100] ∨
      t = [109, 105, 108, 108, 105, 115, 101, 99, 111, 110, 100, 115] then some 6
  else none

/-- the token loop of `Interval::from_str`: fields, pending number -/
def intervalLoop : List Bytes → List Int → Option Int → Out (List Int)
  | [], fs, _ => .ok fs
  | t :: ts, fs, some v =>
    match unitIndex t with
    | some i => intervalLoop ts (fs.set i v) none
    | none => .err
  | t :: ts, fs, none =>
    match parseIntRange i32Lo i32Hi t with
    | .ok v => intervalLoop ts fs (some v)
    | _ => .err

def inI32 (v : Int) : Bool := i32Lo ≤ v && v ≤ i32Hi

/-- `Interval::from_str`; the final i32 arithmetic panics on overflow (debug build) -/
def parseInterval (s : Bytes) : Out (Int × Int × Int) :=
  match intervalLoop (tokenize s []) [0, 0, 0, 0, 0, 0, 0] none with
  | .ok [y, mo, d, h, mi, se, ml] =>
    if inI32 (y * 12) && inI32 (y * 12 + mo) && inI32 (h * 60) && inI32 (h * 60 + mi) &&
       inI32 ((h * 60 + mi) * 60) && inI32 ((h * 60 + mi) * 60 + se) &&
       inI32 (((h * 60 + mi) * 60 + se) * 1000) && inI32 (((h * 60 + mi) * 60 + se) * 1000 + ml)
    then .ok (y * 12 + mo, d, ((h * 60 + mi) * 60 + se) * 1000 + ml)
    else .panic
  | .ok _ => .err
  | .err => .err
  | .panic => .panic

/-! ### f64 (subset): integer-valued doubles below 2^53, ±0, ±inf, NaN

Rust prints the shortest decimal that round-trips, without exponent; for an integer-valued double
below 2^53 that is the integer itself. Everything else is outside the modelled subset (`none`). -/

def two52 : Nat := 4503599627370496

/-- (negative, magnitude) when the double is an integer below 2^53 -/
def f64Int? (b : UInt64) : Option (Bool × Nat) :=
  let n := b.toNat
  let neg := decide (two63 ≤ n)
  let e := (n / two52) % 2048
  let frac := n % two52
  if e = 0 ∧ frac = 0 then some (neg, 0)
  else if 1023 ≤ e ∧ e ≤ 1075 then
    let sh := 1075 - e
    let mant := two52 + frac
    if mant % 2 ^ sh = 0 then some (neg, mant / 2 ^ sh) else none
  else none

def displayF64? (b : UInt64) : Option Bytes :=
  if fIsNaN b then some [78, 97, 78]                         -- NaN
  else if fmag b = infBits then some (if fneg b then [45, 105, 110, 102] else [105, 110, 102])
  else match f64Int? b with
    | some (neg, n) => some (if neg then 45 :: natDigits n else natDigits n)
    | none => none

/-- bits of the double equal to the natural number `n` (0 < n < 2^53) -/
def f64OfNat (n : Nat) : Nat :=
  if n = 0 then 0
  else
    let e := Nat.log2 n
    (e + 1023) * two52 + (n * 2 ^ (52 - e) - two52)

/-- `f64::from_str` on the subset: `NaN`, `inf`, `infinity` (any case, optional sign) and
integer digit strings below 2^53 -/
def parseF64? (s : Bytes) : Option (Out UInt64) :=
  let (neg, r) : Bool × Bytes := match s with
    | 45 :: r => (true, r)
    | 43 :: r => (false, r)
    | r => (false, r)
  let lower := r.map fun c => if 65 ≤ c.toNat ∧ c.toNat ≤ 90 then c + 32 else c
  let sign : Nat := if neg then two63 else 0
  if lower = [110, 97, 110] then some (.ok (UInt64.ofNat (sign + 0x7ff8000000000000)))
  else if lower = [105, 110, 102] ∨ lower = [105, 110, 102, 105, 110, 105, 116, 121] then
    some (.ok (UInt64.ofNat (sign + infBits)))
  else if r.isEmpty then some .err
  else if allDigits r then
    let n := parseNat r
    if n < 2 ^ 53 then some (.ok (UInt64.ofNat (sign + f64OfNat n))) else none
  else none

end V19
end RlModel
