import RlModel.Lemmas.StoreInv
/-! Name-level refinement: along guarded histories INCLUDING CREATE / DROP TABLE the disk model's
`abs` agrees with the specification `SpecSt` (a map from table names to definition and rows). -/
namespace RlModel

def AbsEq : Option (TableDef × List Row) → Option (TableDef × List Row) → Prop
  | none, none => True
  | some a, some b => a.1 = b.1 ∧ a.2.Perm b.2
  | _, _ => False

structure Sim (s : Store) (sp : SpecSt) : Prop where
  abs : ∀ n, AbsEq (s.abs n) (sp.tables.get n)
  noViews : sp.views = []
  allTables : ∀ e ∈ s.cat.entries, e.kind = .table

theorem abs_eq (s : Store) (n : String) :
    s.abs n = match s.tableId? n with
      | some t => (lookup t s.tables).map fun d => (d, s.scan t)
      | none => none := by
  unfold Store.abs
  cases s.tableId? n with
  | none => rfl
  | some t => simp only; cases lookup t s.tables <;> rfl

theorem entry_of_id {s : Store} (inv : Inv s) {e e' : CatEntry} (he : e ∈ s.cat.entries) (he' : e' ∈ s.cat.entries)
    (h : e.id = e'.id) : e = e' := by
  have hnd := inv.idsNodup
  have key : ∀ (l : List CatEntry), (l.map (·.id)).Nodup → e ∈ l → e' ∈ l → e = e' := by
    intro l
    induction l with
    | nil => intro _ h1; simp at h1
    | cons x l ih =>
      intro hn h1 h2
      simp only [List.map_cons, List.nodup_cons] at hn
      cases h1 with
      | head =>
        cases h2 with
        | head => rfl
        | tail _ h2 => exact absurd (List.mem_map.mpr ⟨e', h2, h.symm⟩) hn.1
      | tail _ h1 =>
        cases h2 with
        | head => exact absurd (List.mem_map.mpr ⟨e, h1, h⟩) hn.1
        | tail _ h2 => exact ih hn.2 h1 h2
  exact key _ hnd he he'

theorem tableId?_inj {s : Store} (inv : Inv s) {n n' : String} {t : Nat} (h : s.tableId? n = some t)
    (h' : s.tableId? n' = some t) : n = n' := by
  obtain ⟨e, he, hid, hn, _⟩ := tableId?_mem s n t h
  obtain ⟨e', he', hid', hn', _⟩ := tableId?_mem s n' t h'
  have := entry_of_id inv he he' (hid.trans hid'.symm)
  rw [← hn, ← hn', this]

/-! specification maps -/

theorem get_set (sp : Spec) (n n' : String) (v : TableDef × List Row) :
    (sp.set n v).get n' = if n' = n then some v else sp.get n' := by
  simp only [Spec.get, Spec.set, lookup]
  by_cases h : n' = n
  · subst h; simp
  · have : (n == n') = false := by simpa using fun x => h x.symm
    simp only [this, Bool.false_eq_true, if_false, h]
    exact lookup_filter (fun a => a != n) n' (by simpa using h) sp

theorem get_filter (sp : Spec) (n n' : String) :
    Spec.get (sp.filter (·.1 != n)) n' = if n' = n then none else sp.get n' := by
  simp only [Spec.get]
  by_cases h : n' = n
  · subst h
    simp only [if_true]
    apply lookup_none_of_forall
    intro x hx
    have := (List.mem_filter.mp hx).2
    simpa using this
  · simp only [h, if_false]
    exact lookup_filter (fun a => a != n) n' (by simpa using h) sp

/-- statements that leave catalog and tables alone and every table's bag unchanged keep `Sim` -/
theorem Sim.of_scan {s s' : Store} {sp : SpecSt} (sim : Sim s sp) (hc : s'.cat = s.cat) (ht : s'.tables = s.tables)
    (hs : ∀ t, (s'.scan t).Perm (s.scan t)) : Sim s' sp := by
  refine ⟨fun n => ?_, sim.noViews, by rw [hc]; exact sim.allTables⟩
  have := sim.abs n
  rw [abs_eq] at this ⊢
  have hid : s'.tableId? n = s.tableId? n := by simp [Store.tableId?, hc]
  rw [hid, ht]
  cases h1 : s.tableId? n with
  | none => simpa [h1] using this
  | some t =>
    simp only [h1] at this ⊢
    cases h2 : lookup t s.tables with
    | none => simpa [h2] using this
    | some d =>
      simp only [h2, Option.map_some] at this ⊢
      cases h3 : sp.tables.get n with
      | none => simp [h3, AbsEq] at this
      | some v =>
        simp only [h3, AbsEq] at this ⊢
        exact ⟨this.1, (hs t).trans this.2⟩

/-- a change to ONE table `tid` (named `n`) of a store with unchanged catalog -/
theorem Sim.of_table {s s' : Store} {sp : SpecSt} (inv : Inv s) (sim : Sim s sp) (hc : s'.cat = s.cat) (ht : s'.tables = s.tables)
    (n : String) (tid : Nat) (d : TableDef) (rows : List Row) (newRows : List Row)
    (h1 : s.tableId? n = some tid) (h2 : lookup tid s.tables = some d) (h3 : sp.tables.get n = some (d, rows))
    (hs : (s'.scan tid).Perm newRows) (ho : ∀ t, t ≠ tid → s'.scan t = s.scan t) :
    Sim s' { sp with tables := sp.tables.set n (d, newRows) } := by
  refine ⟨fun n' => ?_, sim.noViews, by rw [hc]; exact sim.allTables⟩
  have hid : ∀ m, s'.tableId? m = s.tableId? m := fun m => by simp [Store.tableId?, hc]
  simp only [get_set]
  by_cases hn : n' = n
  · subst hn
    rw [abs_eq, hid, h1, ht]
    simp only [h2, Option.map_some, if_true, AbsEq]
    exact ⟨trivial, hs⟩
  · simp only [hn, if_false]
    have := sim.abs n'
    rw [abs_eq] at this ⊢
    rw [hid, ht]
    cases h4 : s.tableId? n' with
    | none => simpa [h4] using this
    | some t =>
      have hne : t ≠ tid := fun h => hn (tableId?_inj inv (h ▸ h4) h1)
      simp only [h4] at this ⊢
      rw [ho t hne]
      exact this

theorem absEq_none_left {b : Option (TableDef × List Row)} (h : AbsEq none b) : b = none := by
  cases b with
  | none => rfl
  | some v => simp [AbsEq] at h

theorem absEq_some_left {a : TableDef × List Row} {b : Option (TableDef × List Row)} (h : AbsEq (some a) b) :
    ∃ rows, b = some (a.1, rows) ∧ a.2.Perm rows := by
  cases b with
  | none => simp [AbsEq] at h
  | some v => exact ⟨v.2, by rw [h.1], h.2⟩

theorem find?_filter_some {α} (p q : α → Bool) : ∀ (l : List α) (e : α), l.find? p = some e → q e = true →
    (l.filter q).find? p = some e
  | [], _, h, _ => by simp at h
  | x :: l, e, h, hq => by
    rw [List.find?_cons] at h
    rw [List.filter_cons]
    cases hp : p x with
    | true =>
      simp only [hp] at h
      cases h
      simp [hq, hp]
    | false =>
      simp only [hp] at h
      split
      · rw [List.find?_cons, hp]; exact find?_filter_some p q l e h hq
      · exact find?_filter_some p q l e h hq

theorem find?_filter_none {α} (p q : α → Bool) (l : List α) (h : l.find? p = none) : (l.filter q).find? p = none := by
  rw [List.find?_eq_none] at h ⊢
  intro x hx; exact h x (List.mem_filter.mp hx).1

/-- statements of the view-free fragment (views are catalog-only and do not survive a reopen: the
name-level refinement is stated without them; `hist_inv` covers them) -/
def Op.noView : Op → Bool
  | .createView _ | .createIndex _ _ => false
  | _ => true

/-- **one statement of the view-free fragment: same outcome as the specification, and `abs` keeps
agreeing** -/
theorem step_sim (s : Store) (inv : Inv s) (sp : SpecSt) (sim : Sim s sp) (op : Op) (hv : op.noView = true) :
    ∃ s', stepUp s op = (.up s', (sp.step op).2) ∧ Sim s' (sp.step op).1 := by
  cases op with
  | createView n => simp [Op.noView] at hv
  | createIndex n t => simp [Op.noView] at hv
  | compact plan =>
    obtain ⟨_, c1, t1, p1⟩ := compact_scan plan s inv.wf
    exact ⟨_, rfl, sim.of_scan c1 t1 p1⟩
  | vacuum =>
    obtain ⟨_, c1, t1, p1⟩ := vacuum_scan s inv.wf
    exact ⟨_, rfl, sim.of_scan c1 t1 (fun t => List.Perm.of_eq (p1 t))⟩
  | reopen =>
    obtain ⟨s', r1, _, habs, c1, _, _, _⟩ := reopen_inv s inv
    refine ⟨s', by simp [stepUp, r1, SpecSt.step], ⟨fun n => by rw [habs n]; exact sim.abs n, sim.noViews, ?_⟩⟩
    intro e he
    rw [c1] at he
    exact sim.allTables e (List.mem_filter.mp he).1
  | insert n parts =>
    have ha := sim.abs n
    rw [abs_eq] at ha
    cases h1 : s.tableId? n with
    | none =>
      simp only [h1] at ha
      have hg := absEq_none_left ha
      exact ⟨s, by simp [stepUp, Store.insert, h1, SpecSt.step, hg], by simpa [SpecSt.step, hg] using sim⟩
    | some tid =>
      obtain ⟨e0, he0, hid, _, hk0⟩ := tableId?_mem s n tid h1
      have hsome := inv.catTab e0 he0 hk0
      rw [hid] at hsome
      cases h2 : lookup tid s.tables with
      | none => simp [h2] at hsome
      | some d =>
        simp only [h1, h2, Option.map_some] at ha
        obtain ⟨rows, hg, hperm⟩ := absEq_some_left ha
        cases hok : rowsOk d parts.flatten with
        | false =>
          exact ⟨s, by simp [stepUp, insert_rejected s n parts tid d h1 h2 hok, SpecSt.step, hg, hok],
            by simpa [SpecSt.step, hg, hok] using sim⟩
        | true =>
          obtain ⟨_, c1, t1, o1, p1, p2⟩ := insert_scan s inv.wf n parts tid d h1 h2 hok
          refine ⟨(s.insert n parts).1, by simp only [stepUp, SpecSt.step, hg, hok, Bool.not_true, Bool.false_eq_true, if_false]; rw [← o1], ?_⟩
          simp only [SpecSt.step, hg, hok, Bool.not_true, Bool.false_eq_true, if_false]
          exact Sim.of_table inv sim c1 t1 n tid d rows _ h1 h2 hg (p1.trans (hperm.append_right _)) p2
  | delete n p =>
    have ha := sim.abs n
    rw [abs_eq] at ha
    cases h1 : s.tableId? n with
    | none =>
      simp only [h1] at ha
      have hg := absEq_none_left ha
      exact ⟨s, by simp [stepUp, Store.delete, h1, SpecSt.step, hg], by simpa [SpecSt.step, hg] using sim⟩
    | some tid =>
      obtain ⟨e0, he0, hid, _, hk0⟩ := tableId?_mem s n tid h1
      have hsome := inv.catTab e0 he0 hk0
      rw [hid] at hsome
      cases h2 : lookup tid s.tables with
      | none => simp [h2] at hsome
      | some d =>
        simp only [h1, h2, Option.map_some] at ha
        obtain ⟨rows, hg, hperm⟩ := absEq_some_left ha
        obtain ⟨_, c1, t1, o1, p1, p2⟩ := delete_scan s inv.wf n p tid h1
        have hlen : ((s.scan tid).filter p).length = (rows.filter p).length := (hperm.filter p).length_eq
        refine ⟨_, by simp only [stepUp, SpecSt.step, hg]; rw [← hlen, ← o1], ?_⟩
        simp only [SpecSt.step, hg]
        exact Sim.of_table inv sim c1 t1 n tid d rows _ h1 h2 hg (by rw [p1]; exact hperm.filter _) p2
  | create d =>
    have ha := sim.abs d.name
    rw [abs_eq] at ha
    cases hadd : s.cat.add d.name .table with
    | none =>
      -- the name is taken: by a table, since there are no views
      have hf : (s.cat.find? d.name).isSome := by
        unfold Catalog.add at hadd
        split at hadd
        · assumption
        · simp at hadd
      cases hfe : s.cat.find? d.name with
      | none => simp [hfe] at hf
      | some e =>
        have he : e ∈ s.cat.entries := List.mem_of_find?_eq_some hfe
        have hk := sim.allTables e he
        have h1 : s.tableId? d.name = some e.id := by simp [Store.tableId?, hfe, hk]
        have hsome := inv.catTab e he hk
        cases h2 : lookup e.id s.tables with
        | none => simp [h2] at hsome
        | some d0 =>
          simp only [h1, h2, Option.map_some] at ha
          obtain ⟨rows, hg, _⟩ := absEq_some_left ha
          exact ⟨s, by simp [stepUp, Store.createTable, hadd, SpecSt.step, hg], by simpa [SpecSt.step, hg] using sim⟩
    | some r =>
      obtain ⟨id, c'⟩ := r
      obtain ⟨a1, a2, a3⟩ := add_spec _ _ _ _ _ hadd
      subst a2
      obtain ⟨f1, f2, f3, f4, _, _, _, f8, _, _, f11⟩ := createTable_fields s d _ c' hadd
      have h1 : s.tableId? d.name = none := by simp [Store.tableId?, a1]
      simp only [h1] at ha
      have hg := absEq_none_left ha
      have hnew : lookup s.cat.nextId s.tables = none :=
        lookup_none_of_forall _ _ (fun x hx heq => by have := inv.tabIds x hx; omega)
      refine ⟨(s.createTable d).1, by simp only [stepUp, SpecSt.step, hg, sim.noViews]; simp [f11], ?_⟩
      simp only [SpecSt.step, hg, sim.noViews]
      simp only [Option.isSome_none, List.contains_nil, Bool.or_self, Bool.false_eq_true, if_false]
      refine ⟨fun n' => ?_, rfl, fun e he => by
        rw [f1, a3] at he
        rcases List.mem_append.mp he with he | he
        · exact sim.allTables e he
        · simp at he; subst he; rfl⟩
      rw [get_set, abs_eq]
      have hfind : ∀ m, (s.createTable d).1.cat.find? m =
          if m = d.name then some ⟨s.cat.nextId, d.name, .table⟩ else s.cat.find? m := by
        intro m
        rw [f1, a3]
        simp only [Catalog.find?, List.find?_append]
        by_cases hm : m = d.name
        · subst hm
          have : s.cat.entries.find? (fun x => x.name == d.name) = none := a1
          simp [this]
        · simp only [hm, if_false]
          cases hc : s.cat.entries.find? (fun x => x.name == m) with
          | some e => simp
          | none =>
            have : (d.name == m) = false := by simpa using fun x => hm x.symm
            simp [this]
      by_cases hn : n' = d.name
      · subst hn
        have hid : (s.createTable d).1.tableId? d.name = some s.cat.nextId := by
          simp [Store.tableId?, hfind]
        rw [hid, f2]
        have hl : lookup s.cat.nextId (s.tables ++ [(s.cat.nextId, d)]) = some d := by
          rw [lookup_append, hnew]; simp [lookup]
        have hsc : (s.createTable d).1.scan s.cat.nextId = [] := by
          have : (s.createTable d).1.rowsetsOf s.cat.nextId = [] := by
            simp only [Store.rowsetsOf, f3, List.map_eq_nil_iff, List.filter_eq_nil_iff]
            intro k hk hkeq
            have h5 := inv.rsTables k hk
            have : k.1 = s.cat.nextId := by simpa using hkeq
            rw [this, hnew] at h5; simp at h5
          simp [Store.scan, this]
        simp only [hl, Option.map_some, if_true, AbsEq, hsc]
        exact ⟨trivial, List.Perm.refl _⟩
      · simp only [hn, if_false]
        have hid : (s.createTable d).1.tableId? n' = s.tableId? n' := by
          simp [Store.tableId?, hfind, hn]
        have hb := sim.abs n'
        rw [abs_eq] at hb
        rw [hid]
        cases h4 : s.tableId? n' with
        | none => simpa [h4] using hb
        | some t =>
          obtain ⟨e1, he1, hid1, _, hk1⟩ := tableId?_mem s n' t h4
          have hs1 := inv.catTab e1 he1 hk1
          rw [hid1] at hs1
          simp only [h4] at hb ⊢
          rw [f2, lookup_append_isSome _ _ _ hs1]
          have hsc : (s.createTable d).1.scan t = s.scan t :=
            scan_congr _ _ t (by simp [Store.rowsetsOf, f3]) f4 (fun rs _ => by rw [f8])
          rw [hsc]; exact hb
  | drop n =>
    have ha := sim.abs n
    rw [abs_eq] at ha
    cases hf : s.cat.find? n with
    | none =>
      have h1 : s.tableId? n = none := by simp [Store.tableId?, hf]
      simp only [h1] at ha
      have hg := absEq_none_left ha
      exact ⟨s, by simp [stepUp, Store.drop, hf, SpecSt.step, hg, sim.noViews],
        by simpa [SpecSt.step, hg, sim.noViews] using sim⟩
    | some e0 =>
      have he0 : e0 ∈ s.cat.entries := List.mem_of_find?_eq_some hf
      have hk := sim.allTables e0 he0
      have hname : e0.name = n := by have := List.find?_some hf; simpa using this
      obtain ⟨f1, f2, f3, f4, _, _, _, f8, _, _, f11⟩ := drop_fields s n e0 hf hk
      have h1 : s.tableId? n = some e0.id := by simp [Store.tableId?, hf, hk]
      have hsome := inv.catTab e0 he0 hk
      cases h2 : lookup e0.id s.tables with
      | none => simp [h2] at hsome
      | some d0 =>
        simp only [h1, h2, Option.map_some] at ha
        obtain ⟨rows, hg, _⟩ := absEq_some_left ha
        refine ⟨(s.drop n).1, by simp only [stepUp, SpecSt.step, hg, sim.noViews]; simp [f11], ?_⟩
        simp only [SpecSt.step, hg, sim.noViews]
        simp only [List.contains_nil, Bool.false_eq_true, if_false, Option.isSome_some, if_true]
        refine ⟨fun n' => ?_, rfl, fun e he => by
          rw [f1] at he
          exact sim.allTables e (List.mem_filter.mp he).1⟩
        rw [get_filter, abs_eq]
        by_cases hn : n' = n
        · subst hn
          simp only [if_true]
          have : (s.drop n').1.tableId? n' = none := by
            simp only [Store.tableId?, f1, Catalog.find?, Catalog.remove]
            have : (s.cat.entries.filter fun x => x.id != e0.id).find? (fun x => x.name == n') = none := by
              rw [List.find?_eq_none]
              intro x hx
              have hxm := List.mem_filter.mp hx
              intro hxn
              have hxn' : x.name = e0.name := by rw [hname]; simpa using hxn
              -- same name ⇒ same entry (names are unique) ⇒ same id, which the filter removed
              have hnd := inv.namesNodup
              have key : ∀ (l : List CatEntry), (l.map (·.name)).Nodup → x ∈ l → e0 ∈ l → x = e0 := by
                intro l
                induction l with
                | nil => intro _ h; simp at h
                | cons y l ih =>
                  intro hnn h1' h2'
                  simp only [List.map_cons, List.nodup_cons] at hnn
                  cases h1' with
                  | head =>
                    cases h2' with
                    | head => rfl
                    | tail _ h2' => exact absurd (List.mem_map.mpr ⟨e0, h2', hxn'.symm⟩) hnn.1
                  | tail _ h1' =>
                    cases h2' with
                    | head => exact absurd (List.mem_map.mpr ⟨x, h1', hxn'⟩) hnn.1
                    | tail _ h2' => exact ih hnn.2 h1' h2'
              have := key _ hnd hxm.1 he0
              rw [this] at hxm
              simp at hxm
            simp [this]
          rw [this]; trivial
        · simp only [hn, if_false]
          have hb := sim.abs n'
          rw [abs_eq] at hb
          cases h4 : s.tableId? n' with
          | none =>
            have : (s.drop n).1.tableId? n' = none := by
              simp only [Store.tableId?, Catalog.find?] at h4 ⊢
              rw [f1]
              simp only [Catalog.remove]
              cases hc : s.cat.entries.find? (fun x => x.name == n') with
              | none => rw [find?_filter_none _ _ _ hc]
              | some e =>
                simp only [hc] at h4
                have := sim.allTables e (List.mem_of_find?_eq_some hc)
                simp [this] at h4
            rw [this]; simpa [h4] using hb
          | some t =>
            have hne : t ≠ e0.id := fun h => hn (tableId?_inj inv (h ▸ h4) h1)
            have hid : (s.drop n).1.tableId? n' = some t := by
              obtain ⟨e1, he1, hid1, hn1, hk1⟩ := tableId?_mem s n' t h4
              simp only [Store.tableId?, Catalog.find?] at h4 ⊢
              rw [f1]
              simp only [Catalog.remove]
              cases hc : s.cat.entries.find? (fun x => x.name == n') with
              | none => simp [hc] at h4
              | some e =>
                simp only [hc] at h4
                have hke := sim.allTables e (List.mem_of_find?_eq_some hc)
                simp only [hke, BEq.rfl, if_true, Option.some.injEq] at h4
                rw [find?_filter_some _ (fun x => x.id != e0.id) _ e hc (by simp [h4, hne])]
                simp [hke, h4]
            simp only [h4] at hb
            have hl : lookup t (List.filter (fun x => x.fst != e0.id) s.tables) = lookup t s.tables :=
              lookup_filter (fun a => a != e0.id) t (by simpa using hne) s.tables
            rw [hid, f2]
            simp only [hl]
            have hsc : (s.drop n).1.scan t = s.scan t := by
              unfold Store.scan
              have hro : (s.drop n).1.rowsetsOf t = s.rowsetsOf t := by
                simp only [Store.rowsetsOf, f3, List.filter_filter]
                congr 1
                apply List.filter_congr
                intro k _
                by_cases hk1 : k.1 = t
                · simp [hk1, hne]
                · simp [hk1]
              rw [hro]
              apply flatMap_congr'
              intro rs _
              have hdv : (s.drop n).1.dvsOf t rs = s.dvsOf t rs := by
                simp only [Store.dvsOf, f4, List.filter_filter]
                congr 1
                apply List.filter_congr
                intro x _
                by_cases hx1 : x.tid = t
                · simp [hx1, hne]
                · simp [hx1]
              simp only [Store.rsVisible, hdv, Store.dirRows, f8]
            rw [hsc]; exact hb

/-! ### the counters stay aligned along the view-free fragment

`Guard` asks CREATE TABLE for `replay's id counter = live id counter`.  Only CREATE VIEW / CREATE
INDEX move the live counter alone, so along histories without them the guard holds by itself. -/

/-- the id a replay of the log would hand out next is the id the live catalog hands out next -/
def Aligned (s : Store) : Prop := (bootFold (replay s.manifest)).cat.nextId = s.cat.nextId

/-- records that are neither transaction marks nor `CreateTable` -/
def Rec.plain : Rec → Bool
  | .begin | .end_ | .createTable _ => false
  | _ => true

theorem Rec.plain_notMark {r : Rec} (h : r.plain = true) : r.isMark = false := by
  cases r <;> simp_all [Rec.plain, Rec.isMark]

theorem Boot.step_nextId (b : Boot) (r : Rec) (h : r.plain = true) : (b.step r).cat.nextId = b.cat.nextId := by
  unfold Boot.step
  split
  · rfl
  · cases r with
    | createTable d => simp [Rec.plain] at h
    | dropTable tid => simp only; split <;> simp [Catalog.remove]
    | _ => rfl

theorem foldl_nextId : ∀ (recs : List Rec) (b : Boot), (∀ r ∈ recs, r.plain = true) →
    (recs.foldl Boot.step b).cat.nextId = b.cat.nextId
  | [], _, _ => rfl
  | r :: recs, b, h => by
    rw [List.foldl_cons, foldl_nextId recs _ (fun x hx => h x (List.mem_cons_of_mem _ hx)),
      Boot.step_nextId b r (h r List.mem_cons_self)]

/-- `s'` = `s` after at most one committed transaction of plain records, same live id counter -/
def Ext (s s' : Store) : Prop :=
  s'.cat.nextId = s.cat.nextId ∧
    (s'.manifest = s.manifest ∨ ∃ recs, s'.manifest = s.manifest ++ txn recs ∧ ∀ r ∈ recs, r.plain = true)

theorem Ext.aligned {s s' : Store} (e : Ext s s') (hc : Closed s.manifest) (al : Aligned s) : Aligned s' := by
  unfold Aligned at *
  obtain ⟨h1, h2 | ⟨recs, h2, h3⟩⟩ := e
  · rw [h1, h2]; exact al
  · rw [h1, h2, (sync_commit s.manifest recs hc (fun r hr => Rec.plain_notMark (h3 r hr))).2, foldl_nextId recs _ h3]
    exact al

theorem isDel_plain {r : Rec} (h : r.isDel = true) : r.plain = true := by
  cases r <;> simp_all [Rec.isDel, Rec.plain]

theorem compactTable_ext_aux (s : Store) (tid : Nat) (d : TableDef) (sel : List Nat) (selected : List Nat)
    (rows : List Row)
    (hsel : sortNat ((s.rowsetsOf tid).filter sel.contains) = selected)
    (hrows : (if d.sortKey.isEmpty then (selected.map fun rs => (s.rsVisible tid rs).map (·.2)).flatten
      else mergeAll (keyLe d.sortKey) (selected.map fun rs => (s.rsVisible tid rs).map (·.2))) = rows) :
    Ext s (s.compactTable tid d sel) := by
  rw [compactTable_eq s tid d sel selected rows hsel hrows]
  split
  · exact ⟨rfl, Or.inl rfl⟩
  · split
    · exact ⟨rfl, Or.inr ⟨_, rfl, fun r hr => isDel_plain (compactDels_isDel s tid _ r hr)⟩⟩
    · refine ⟨rfl, Or.inr ⟨_, rfl, fun r hr => ?_⟩⟩
      rcases List.mem_cons.mp hr with rfl | hr
      · rfl
      · exact isDel_plain (compactDels_isDel s tid _ r hr)

theorem compactTable_ext (s : Store) (tid : Nat) (d : TableDef) (sel : List Nat) : Ext s (s.compactTable tid d sel) :=
  compactTable_ext_aux s tid d sel _ _ rfl rfl

theorem compact_aligned : ∀ (plan : List (Nat × List Nat)) (s : Store), Inv s → Aligned s → Aligned (s.compact plan)
  | [], _, _, al => al
  | (tid, sel) :: plan, s, inv, al => by
    simp only [Store.compact, List.foldl_cons]
    cases hl : lookup tid s.tables with
    | none => exact compact_aligned plan s inv al
    | some d =>
      exact compact_aligned plan _ (compactTable_inv s inv tid d sel hl)
        ((compactTable_ext s tid d sel).aligned inv.sync.closed al)

/-- **one statement of the view-free fragment keeps the counters aligned** -/
theorem step_aligned (s : Store) (inv : Inv s) (al : Aligned s) (op : Op) (hv : op.noView = true) :
    ∀ s', (stepUp s op).1 = .up s' → Aligned s' := by
  intro s' hs
  cases op with
  | createView n => simp [Op.noView] at hv
  | createIndex n t => simp [Op.noView] at hv
  | create d =>
    cases ha : s.cat.add d.name .table with
    | none =>
      have : s' = s := by simpa [stepUp, Store.createTable, ha] using hs.symm
      rw [this]; exact al
    | some r =>
      obtain ⟨id, c'⟩ := r
      have inv' := createTable_inv s inv d id c' ha al
      obtain ⟨_, _, a3⟩ := add_spec _ _ _ _ _ ha
      obtain ⟨f1, _, _, _, _, _, _, _, _, f10, _⟩ := createTable_fields s d id c' ha
      have : s' = (s.createTable d).1 := by simpa [stepUp] using hs.symm
      rw [this]
      have hok := inv'.sync.ok
      unfold Aligned
      rw [f10, (sync_commit s.manifest [Rec.createTable d] inv.sync.closed (by intro r hr; simp at hr; subst hr; rfl)).2] at hok ⊢
      rw [f1, a3]
      simp only [List.foldl_cons, List.foldl_nil] at hok ⊢
      have hb := inv.sync.ok
      unfold Boot.step at hok ⊢
      simp only [hb, Option.isSome_none, Bool.false_eq_true, if_false] at hok ⊢
      cases hadd : (bootFold (replay s.manifest)).cat.add d.name .table with
      | none => simp [hadd] at hok
      | some r2 =>
        obtain ⟨id2, c2⟩ := r2
        obtain ⟨_, _, b3⟩ := add_spec _ _ _ _ _ hadd
        simp only [b3]
        show _ + 1 = _ + 1
        rw [al]
  | drop n =>
    cases hf : s.cat.find? n with
    | none =>
      have : s' = s := by simpa [stepUp, Store.drop, hf] using hs.symm
      rw [this]; exact al
    | some e0 =>
      have : s' = (s.drop n).1 := by simpa [stepUp] using hs.symm
      rw [this]
      cases hk : e0.kind with
      | table =>
        obtain ⟨f1, _, _, _, _, _, _, _, _, f10, _⟩ := drop_fields s n e0 hf hk
        refine Ext.aligned ⟨by rw [f1]; rfl, Or.inr ⟨_, f10, fun r hr => ?_⟩⟩ inv.sync.closed al
        rcases List.mem_cons.mp hr with rfl | hr
        · rfl
        · simp only [dropRecs, List.mem_flatMap, List.mem_cons, List.mem_map] at hr
          obtain ⟨rs, _, h | ⟨x, _, hx⟩⟩ := hr
          · subst h; rfl
          · subst hx; rfl
      | view =>
        exact Ext.aligned ⟨by simp [Store.drop, hf, hk, Catalog.remove], Or.inl (by simp [Store.drop, hf, hk])⟩ inv.sync.closed al
  | insert n parts =>
    cases h1 : s.tableId? n with
    | none =>
      have : s' = s := by simpa [stepUp, Store.insert, h1] using hs.symm
      rw [this]; exact al
    | some tid =>
      cases h2 : lookup tid s.tables with
      | none =>
        have : s' = s := by simpa [stepUp, Store.insert, h1, h2] using hs.symm
        rw [this]; exact al
      | some d =>
        cases hok : rowsOk d parts.flatten with
        | false =>
          have : s' = s := by simpa [stepUp, insert_rejected s n parts tid d h1 h2 hok] using hs.symm
          rw [this]; exact al
        | true =>
          have : s' = (s.insert n parts).1 := by simpa [stepUp] using hs.symm
          rw [this]
          obtain ⟨f1, _, _, _, _, _, _, f8⟩ := insert_fields s n parts tid d h1 h2 hok
          refine Ext.aligned ⟨by rw [f1], Or.inr ⟨_, f8, fun r hr => ?_⟩⟩ inv.sync.closed al
          obtain ⟨x, _, rfl⟩ := List.mem_map.mp hr; rfl
  | delete n p =>
    cases h1 : s.tableId? n with
    | none =>
      have : s' = s := by simpa [stepUp, Store.delete, h1] using hs.symm
      rw [this]; exact al
    | some tid =>
      have : s' = (s.delete n p).1 := by simpa [stepUp] using hs.symm
      rw [this]
      obtain ⟨f1, _⟩ := delete_fields s n p tid h1
      obtain ⟨_, _, f3⟩ := delete_fields2 s n p tid h1
      refine Ext.aligned ⟨by rw [f1], Or.inr ⟨_, f3, fun r hr => ?_⟩⟩ inv.sync.closed al
      obtain ⟨x, _, rfl⟩ := List.mem_map.mp hr; rfl
  | compact plan =>
    have : s' = s.compact plan := by simpa [stepUp] using hs.symm
    rw [this]; exact compact_aligned plan s inv al
  | vacuum =>
    have : s' = s.vacuum := by simpa [stepUp] using hs.symm
    rw [this]; exact al
  | reopen =>
    obtain ⟨s1, r1, _, _, _, _, _, hal⟩ := reopen_inv s inv
    have : s' = s1 := by simpa [stepUp, r1] using hs.symm
    rw [this]; exact hal

/-- **along the view-free fragment the guard is free**: from an aligned state satisfying the
invariant, every history without CREATE VIEW / CREATE INDEX is a `GoodHist` -/
theorem goodHist_of_noView : ∀ (h : List Op) (s : Store), Inv s → Aligned s → h.all Op.noView = true → GoodHist s h
  | [], _, _, _, _ => trivial
  | op :: ops, s, inv, al, hv => by
    simp only [List.all_cons, Bool.and_eq_true] at hv
    have g : Guard s op := by
      cases op <;> first | exact al | trivial
    refine ⟨g, ?_⟩
    obtain ⟨s1, e1, inv1⟩ := step_inv s inv op g
    rw [e1]
    exact goodHist_of_noView ops s1 inv1 (step_aligned s inv al op hv.1 s1 e1) hv.2

theorem aligned_init : Aligned Store.init := by unfold Aligned; decide

/-- **history_refines_spec**: along every guarded history of the view-free fragment — CREATE / DROP
TABLE (also of the same name again), INSERT (any partition), DELETE, compaction (any plan), vacuum,
shutdown+reopen — every statement has the specification's outcome (DELETE's count included) and
every table name maps to the specification's definition and bag of rows. -/
theorem hist_sim : ∀ (h : List Op) (s : Store) (sp : SpecSt), Inv s → Sim s sp → GoodHist s h →
    h.all Op.noView = true →
    ∃ s', run (.up s) h = .up s' ∧ Inv s' ∧ Sim s' (sp.run h)
  | [], s, _, inv, sim, _, _ => ⟨s, rfl, inv, sim⟩
  | op :: ops, s, sp, inv, sim, g, hv => by
    simp only [List.all_cons, Bool.and_eq_true] at hv
    obtain ⟨s1, e1, sim1⟩ := step_sim s inv sp sim op hv.1
    obtain ⟨s1', e1', inv1⟩ := step_inv s inv op g.1
    have hs : s1' = s1 := by
      have := congrArg Prod.fst e1
      rw [e1'] at this
      cases this; rfl
    subst hs
    have g2 := g.2
    rw [e1'] at g2
    obtain ⟨s2, e2, inv2, sim2⟩ := hist_sim ops s1' (sp.step op).1 inv1 sim1 g2 hv.2
    exact ⟨s2, by simp only [run, step, e1']; exact e2, inv2, sim2⟩

/-- `hist_sim` with the guard discharged: in the view-free fragment alignment is kept, not assumed -/
theorem hist_sim_noView (h : List Op) (s : Store) (sp : SpecSt) (inv : Inv s) (al : Aligned s) (sim : Sim s sp)
    (hv : h.all Op.noView = true) :
    ∃ s', run (.up s) h = .up s' ∧ Inv s' ∧ Sim s' (sp.run h) :=
  hist_sim h s sp inv sim (goodHist_of_noView h s inv al hv) hv

theorem sim_init : Sim Store.init {} := ⟨fun n => by simp [Store.abs, Store.tableId?, Catalog.find?, Store.init, Spec.get, lookup, AbsEq], rfl,
  fun e he => by simp [Store.init] at he⟩

end RlModel
