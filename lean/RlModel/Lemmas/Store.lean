import RlModel.Model.Store
/-! Helper lemmas about the L8 sequential storage model (Model/Store.lean). -/
namespace RlModel

/-! ### `visFrom`: the specification of a row-set scan -/

theorem visFrom_congr {f g : Nat → Bool} : ∀ (rows : List Row) (off : Nat),
    (∀ i, off ≤ i → f i = g i) → visFrom f off rows = visFrom g off rows
  | [], _, _ => rfl
  | r :: rs, off, h => by
    have ih := visFrom_congr rs (off + 1) (fun i hi => h i (by omega))
    simp [visFrom, h off (Nat.le_refl _), ih]

theorem visFrom_ge {dead : Nat → Bool} : ∀ (rows : List Row) (off : Nat) (x : Nat × Row),
    x ∈ visFrom dead off rows → off ≤ x.1
  | [], _, _, h => by simp [visFrom] at h
  | r :: rs, off, x, h => by
    simp only [visFrom] at h
    split at h
    · have := visFrom_ge rs (off + 1) x h; omega
    · cases h with
      | head => simp
      | tail _ h => have := visFrom_ge rs (off + 1) x h; omega

theorem visFrom_false : ∀ (rows : List Row) (off : Nat),
    (visFrom (fun _ => false) off rows).map (·.2) = rows
  | [], _ => rfl
  | r :: rs, off => by simp [visFrom, visFrom_false rs (off + 1)]

theorem visFrom_append {dead : Nat → Bool} : ∀ (a b : List Row) (off : Nat),
    visFrom dead off (a ++ b) = visFrom dead off a ++ visFrom dead (off + a.length) b
  | [], b, off => by simp [visFrom]
  | r :: rs, b, off => by
    have ih := visFrom_append (dead := dead) rs b (off + 1)
    simp only [List.cons_append, visFrom, List.length_cons]
    rw [ih, show off + 1 + rs.length = off + (rs.length + 1) by omega]
    split <;> simp

/-- positions hit by a DELETE with predicate `p` in one row-set -/
def hitsOf (dead : Nat → Bool) (p : Row → Bool) (off : Nat) (rows : List Row) : List Nat :=
  ((visFrom dead off rows).filter fun x => p x.2).map (·.1)

theorem hitsOf_ge {dead p} (rows : List Row) (off i : Nat) (h : i ∈ hitsOf dead p off rows) : off ≤ i := by
  simp only [hitsOf, List.mem_map, List.mem_filter] at h
  obtain ⟨x, ⟨hx, _⟩, rfl⟩ := h
  exact visFrom_ge rows off x hx

/-- Adding a delete vector holding exactly the hit positions filters the visible rows. -/
theorem visFrom_delete {dead : Nat → Bool} {p : Row → Bool} : ∀ (rows : List Row) (off : Nat),
    visFrom (fun i => dead i || (hitsOf dead p off rows).contains i) off rows
      = (visFrom dead off rows).filter fun x => !p x.2
  | [], _ => rfl
  | r :: rs, off => by
    have ih := visFrom_delete (dead := dead) (p := p) rs (off + 1)
    have hnot : (hitsOf dead p (off + 1) rs).contains off = false := by
      cases hc : (hitsOf dead p (off + 1) rs).contains off with
      | false => rfl
      | true =>
        have := hitsOf_ge rs (off + 1) off (by simpa using hc)
        omega
    cases hd : dead off with
    | true =>
      have e : hitsOf dead p off (r :: rs) = hitsOf dead p (off + 1) rs := by simp [hitsOf, visFrom, hd]
      simp only [visFrom, hd, Bool.true_or, if_true]
      rw [e]; exact ih
    | false =>
      cases hp : p r with
      | true =>
        have e : hitsOf dead p off (r :: rs) = off :: hitsOf dead p (off + 1) rs := by
          simp [hitsOf, visFrom, hd, hp]
        simp only [visFrom, hd, e, Bool.false_or, List.contains_cons, BEq.rfl, Bool.true_or, if_true,
          Bool.false_eq_true, if_false, List.filter_cons, hp, Bool.not_true]
        rw [← ih]
        apply visFrom_congr
        intro i hi
        have : (i == off) = false := by simp; omega
        simp [this]
      | false =>
        have e : hitsOf dead p off (r :: rs) = hitsOf dead p (off + 1) rs := by
          simp [hitsOf, visFrom, hd, hp]
        simp only [visFrom, hd, e, Bool.false_or, hnot, Bool.false_eq_true, if_false,
          List.filter_cons, hp, Bool.not_false, if_true]
        rw [ih]

theorem hitsOf_length {dead p} (rows : List Row) (off : Nat) :
    (hitsOf dead p off rows).length = (((visFrom dead off rows).map (·.2)).filter p).length := by
  simp [hitsOf, List.filter_map, Function.comp_def]

/-! ### `sortDedup` keeps membership and yields a strictly increasing list -/

theorem mem_insertNat (x y : Nat) : ∀ l : List Nat, y ∈ insertNat x l ↔ y = x ∨ y ∈ l
  | [] => by simp [insertNat]
  | z :: zs => by
    simp only [insertNat]
    split
    · simp
    · split
      · subst_vars; simp
      · simp [mem_insertNat x y zs]; constructor <;> (intro h; rcases h with h | h | h <;> simp [h])

theorem mem_sortDedup (y : Nat) : ∀ l : List Nat, y ∈ sortDedup l ↔ y ∈ l
  | [] => by simp [sortDedup]
  | x :: xs => by simp [sortDedup, mem_insertNat, mem_sortDedup y xs]

theorem contains_sortDedup (l : List Nat) (y : Nat) : (sortDedup l).contains y = l.contains y := by
  rw [Bool.eq_iff_iff]; simp [mem_sortDedup]

theorem pairwise_insertNat (x : Nat) : ∀ l : List Nat, l.Pairwise (· < ·) → (insertNat x l).Pairwise (· < ·)
  | [], _ => by simp [insertNat]
  | z :: zs, h => by
    simp only [insertNat]
    have hz := List.pairwise_cons.mp h
    split
    · refine List.pairwise_cons.mpr ⟨?_, h⟩
      intro a ha
      cases ha with
      | head => assumption
      | tail _ ha => have := hz.1 a ha; omega
    · split
      · exact h
      · refine List.pairwise_cons.mpr ⟨?_, pairwise_insertNat x zs hz.2⟩
        intro a ha
        rcases (mem_insertNat x a zs).mp ha with rfl | ha
        · omega
        · exact hz.1 a ha

theorem pairwise_sortDedup : ∀ l : List Nat, (sortDedup l).Pairwise (· < ·)
  | [] => by simp [sortDedup]
  | x :: xs => pairwise_insertNat x _ (pairwise_sortDedup xs)

/-! ### `DeleteVector::apply_to` -/

/-- specification of a visibility bitmap: bit `j` of a batch starting at row `i` survives iff it
was set and row `i + j` is not dead -/
def maskFrom (dead : Nat → Bool) : Nat → List Bool → List Bool
  | _, [] => []
  | i, b :: bs => (b && !dead i) :: maskFrom dead (i + 1) bs

theorem maskFrom_congr {f g : Nat → Bool} : ∀ (bits : List Bool) (off : Nat),
    (∀ i, off ≤ i → f i = g i) → maskFrom f off bits = maskFrom g off bits
  | [], _, _ => rfl
  | b :: bs, off, h => by
    simp [maskFrom, h off (Nat.le_refl _), maskFrom_congr bs (off + 1) (fun i hi => h i (by omega))]

theorem maskFrom_false : ∀ (bits : List Bool) (off : Nat), maskFrom (fun _ => false) off bits = bits
  | [], _ => rfl
  | b :: bs, off => by simp [maskFrom, maskFrom_false bs (off + 1)]

theorem maskFrom_maskFrom (f g : Nat → Bool) : ∀ (bits : List Bool) (off : Nat),
    maskFrom f off (maskFrom g off bits) = maskFrom (fun i => g i || f i) off bits
  | [], _ => rfl
  | b :: bs, off => by simp [maskFrom, maskFrom_maskFrom f g bs (off + 1), Bool.and_assoc]

/-- the merge loop of `apply_to` on a strictly increasing id list that starts at or after `row` -/
theorem applyLoop_spec : ∀ (bits : List Bool) (ds : List Nat) (row : Nat),
    ds.Pairwise (· < ·) → (∀ d ∈ ds, row ≤ d) →
    applyLoop ds row bits = maskFrom (fun i => ds.contains i) row bits
  | [], ds, row, _, _ => by cases ds <;> simp [applyLoop, maskFrom]
  | b :: bs, [], row, _, _ => by
    simp only [applyLoop]
    have : (fun i => ([] : List Nat).contains i) = fun _ => false := by funext i; simp
    rw [this, maskFrom_false]
  | b :: bs, d :: ds, row, hp, hge => by
    have hpc := List.pairwise_cons.mp hp
    simp only [applyLoop]
    split
    · rename_i hdr
      subst hdr
      have ih := applyLoop_spec bs ds (d + 1) hpc.2 (fun x hx => by have := hpc.1 x hx; omega)
      simp only [maskFrom, List.contains_cons, BEq.rfl, Bool.true_or, Bool.not_true, Bool.and_false, ih]
      congr 1
      apply maskFrom_congr
      intro i hi
      have : (i == d) = false := by simp; omega
      simp [this]
    · rename_i hdr
      have hrow : row < d := by have := hge d (by simp); omega
      have ih := applyLoop_spec bs (d :: ds) (row + 1) hp (fun x hx => by
        cases hx with
        | head => omega
        | tail _ hx => have := hpc.1 x hx; omega)
      have hnot : (d :: ds).contains row = false := by
        cases hc : (d :: ds).contains row with
        | false => rfl
        | true =>
          have hm : row ∈ d :: ds := by simpa using hc
          cases hm with
          | head => omega
          | tail _ hx => have := hpc.1 row hx; omega
      simp only [maskFrom, hnot, Bool.not_false, Bool.and_true, ih]

theorem dropWhile_lt_spec (off : Nat) : ∀ ds : List Nat, ds.Pairwise (· < ·) →
    (ds.dropWhile (· < off)).Pairwise (· < ·) ∧ (∀ d ∈ ds.dropWhile (· < off), off ≤ d) ∧
    (∀ i, off ≤ i → (ds.dropWhile (· < off)).contains i = ds.contains i)
  | [], _ => by simp
  | d :: ds, hp => by
    have hpc := List.pairwise_cons.mp hp
    by_cases h : d < off
    · have ih := dropWhile_lt_spec off ds hpc.2
      simp only [List.dropWhile_cons, h, decide_true, if_true]
      refine ⟨ih.1, ih.2.1, ?_⟩
      intro i hi
      rw [ih.2.2 i hi]
      have : (i == d) = false := by simp; omega
      rw [List.contains_cons, this, Bool.false_or]
    · simp only [List.dropWhile_cons, h, decide_false, Bool.false_eq_true, if_false]
      refine ⟨hp, ?_, fun _ _ => trivial⟩
      intro x hx
      cases hx with
      | head => omega
      | tail _ hx => have := hpc.1 x hx; omega

/-- **`apply_to` is exact**: for a sorted, duplicate-free DV, any offset and any bitmap length,
bit `j` stays set iff it was set and row `off + j` is not in the DV. -/
theorem dvApplyTo_spec (dv : List Nat) (hp : dv.Pairwise (· < ·)) (off : Nat) (bits : List Bool) :
    dvApplyTo dv off bits = maskFrom (fun i => dv.contains i) off bits := by
  have h := dropWhile_lt_spec off dv hp
  rw [dvApplyTo, applyLoop_spec bits _ off h.1 h.2.1]
  exact maskFrom_congr bits off h.2.2

theorem foldl_dvApplyTo (off : Nat) : ∀ (dvs : List (List Nat)) (bits : List Bool) (f : Nat → Bool),
    (∀ dv ∈ dvs, dv.Pairwise (· < ·)) →
    dvs.foldl (fun bm dv => dvApplyTo dv off bm) (maskFrom f off bits)
      = maskFrom (fun i => f i || deadIn dvs i) off bits
  | [], bits, f, _ => by simp [deadIn]
  | dv :: dvs, bits, f, h => by
    simp only [List.foldl_cons]
    rw [dvApplyTo_spec dv (h dv (by simp)), maskFrom_maskFrom,
      foldl_dvApplyTo off dvs bits _ (fun d hd => h d (by simp [hd]))]
    apply maskFrom_congr
    intro i _
    simp [deadIn, Bool.or_assoc]

theorem pickBits_maskFrom (dead : Nat → Bool) : ∀ (rows : List Row) (off : Nat),
    pickBits off rows (maskFrom dead off (rows.map fun _ => true)) = visFrom dead off rows
  | [], _ => by simp [pickBits, visFrom]
  | r :: rs, off => by
    simp only [List.map_cons, maskFrom, pickBits, visFrom, Bool.true_and, pickBits_maskFrom dead rs (off + 1)]
    cases dead off <;> simp

/-- one batch of a row-set scan shows exactly the rows no DV deletes -/
theorem batchVisible_spec (dvs : List (List Nat)) (h : ∀ dv ∈ dvs, dv.Pairwise (· < ·)) (off : Nat)
    (batch : List Row) : batchVisible dvs off batch = visFrom (deadIn dvs) off batch := by
  have e : (batch.map fun _ => true) = maskFrom (fun _ => false) off (batch.map fun _ => true) := by
    rw [maskFrom_false]
  rw [batchVisible, e, foldl_dvApplyTo off dvs _ _ h]
  simp only [Bool.false_or]
  exact pickBits_maskFrom _ batch off

/-- **any batching of a row-set scan** (block boundaries, `ROWSET_MAX_OUTPUT`, `expected_size`)
returns the rows not deleted by any DV, with their positions -/
theorem scanBatches_spec (dvs : List (List Nat)) (h : ∀ dv ∈ dvs, dv.Pairwise (· < ·)) :
    ∀ (sizes : List Nat) (off : Nat) (rows : List Row),
    scanBatches dvs off sizes rows = visFrom (deadIn dvs) off rows
  | sizes, off, [] => by cases sizes <;> simp [scanBatches, batchVisible_spec dvs h]
  | [], off, r :: rs => by simp [scanBatches, batchVisible_spec dvs h]
  | n :: ns, off, r :: rs => by
    rw [scanBatches]
    · split
      · exact batchVisible_spec dvs h _ _
      · rw [batchVisible_spec dvs h, scanBatches_spec dvs h ns]
        conv => rhs; rw [← List.take_append_drop n (r :: rs)]
        rw [visFrom_append]
        by_cases hl : n ≤ (r :: rs).length
        · rw [List.length_take, Nat.min_eq_left hl]
        · have : List.drop n (r :: rs) = [] := List.drop_eq_nil_of_le (by omega)
          simp [this, visFrom]
    · simp

/-! ### sorting and merging (memtable flush, compaction) -/

theorem insertNatSorted_perm (x : Nat) : ∀ l : List Nat, (insertNatSorted x l).Perm (x :: l)
  | [] => by simp [insertNatSorted]
  | y :: ys => by
    simp only [insertNatSorted]
    split
    · exact List.Perm.refl _
    · exact ((insertNatSorted_perm x ys).cons y).trans (List.Perm.swap x y ys)

theorem sortNat_perm : ∀ l : List Nat, (sortNat l).Perm l
  | [] => by simp [sortNat]
  | x :: xs => (insertNatSorted_perm x _).trans ((sortNat_perm xs).cons x)

theorem insertStable_perm (le : Row → Row → Bool) (x : Row) : ∀ l : List Row, (insertStable le x l).Perm (x :: l)
  | [] => by simp [insertStable]
  | y :: ys => by
    simp only [insertStable]
    split
    · exact List.Perm.refl _
    · exact ((insertStable_perm le x ys).cons y).trans (List.Perm.swap x y ys)

theorem sortStable_perm (le : Row → Row → Bool) : ∀ l : List Row, (sortStable le l).Perm l
  | [] => by simp [sortStable]
  | x :: xs => (insertStable_perm le x _).trans ((sortStable_perm le xs).cons x)

theorem merge2_perm (le : Row → Row → Bool) : ∀ (a b : List Row), (merge2 le a b).Perm (a ++ b)
  | [], b => by simp [merge2]
  | x :: xs, [] => by simp [merge2]
  | x :: xs, y :: ys => by
    rw [merge2]
    split
    · exact (merge2_perm le xs (y :: ys)).cons x
    · have ih := merge2_perm le (x :: xs) ys
      refine (ih.cons y).trans ?_
      exact (List.perm_middle (a := y) (l₁ := x :: xs) (l₂ := ys)).symm
termination_by a b => a.length + b.length

theorem mergeAll_perm (le : Row → Row → Bool) : ∀ ls : List (List Row), (mergeAll le ls).Perm ls.flatten
  | [] => by simp [mergeAll]
  | l :: ls => by
    simp only [mergeAll, List.flatten_cons]
    exact (merge2_perm le l _).trans ((mergeAll_perm le ls).append_left l)

/-- a total preorder given as a boolean relation -/
structure TotalPreorder (le : Row → Row → Bool) : Prop where
  total : ∀ a b, le a b = true ∨ le b a = true
  trans : ∀ a b c, le a b = true → le b c = true → le a c = true

theorem SortedBy.tail {le} {a : Row} {l : List Row} (h : SortedBy le (a :: l)) : SortedBy le l := by
  cases h with
  | single => exact .nil
  | cons _ _ _ _ h => exact h

theorem SortedBy.cons_of {le} {a : Row} : ∀ {l : List Row}, SortedBy le l → (∀ b, l.head? = some b → le a b = true) →
    SortedBy le (a :: l)
  | [], _, _ => .single a
  | b :: l, h, hb => .cons a b l (hb b rfl) h

theorem merge2_head (le : Row → Row → Bool) (a b : List Row) (z : Row)
    (h : (merge2 le a b).head? = some z) : a.head? = some z ∨ b.head? = some z := by
  cases a with
  | nil => right; simpa [merge2] using h
  | cons x xs =>
    cases b with
    | nil => left; simpa [merge2] using h
    | cons y ys =>
      rw [merge2] at h
      split at h
      · left; simpa using h
      · right; simpa using h

theorem merge2_sorted {le : Row → Row → Bool} (tp : TotalPreorder le) :
    ∀ (a b : List Row), SortedBy le a → SortedBy le b → SortedBy le (merge2 le a b)
  | [], b, _, hb => by simpa [merge2] using hb
  | x :: xs, [], ha, _ => by simpa [merge2] using ha
  | x :: xs, y :: ys, ha, hb => by
    rw [merge2]
    split
    · rename_i hxy
      refine SortedBy.cons_of (merge2_sorted tp xs (y :: ys) ha.tail hb) ?_
      intro z hz
      rcases merge2_head le xs (y :: ys) z hz with h | h
      · cases xs with
        | nil => simp at h
        | cons x' xs' =>
          simp at h; subst h
          cases ha with
          | cons _ _ _ hle _ => exact hle
      · simp at h; subst h; exact hxy
    · rename_i hxy
      have hyx : le y x = true := by
        rcases tp.total x y with h | h
        · exact absurd h hxy
        · exact h
      refine SortedBy.cons_of (merge2_sorted tp (x :: xs) ys ha hb.tail) ?_
      intro z hz
      rcases merge2_head le (x :: xs) ys z hz with h | h
      · simp at h; subst h; exact hyx
      · cases ys with
        | nil => simp at h
        | cons y' ys' =>
          simp at h; subst h
          cases hb with
          | cons _ _ _ hle _ => exact hle
termination_by a b => a.length + b.length

theorem mergeAll_sorted {le : Row → Row → Bool} (tp : TotalPreorder le) :
    ∀ ls : List (List Row), (∀ l ∈ ls, SortedBy le l) → SortedBy le (mergeAll le ls)
  | [], _ => .nil
  | l :: ls, h => merge2_sorted tp l _ (h l (by simp)) (mergeAll_sorted tp ls fun l' hl' => h l' (by simp [hl']))

theorem insertStable_sorted {le : Row → Row → Bool} (tp : TotalPreorder le) (x : Row) :
    ∀ l : List Row, SortedBy le l → SortedBy le (insertStable le x l)
  | [], _ => .single x
  | y :: ys, h => by
    simp only [insertStable]
    split
    · rename_i hxy; exact .cons x y ys hxy h
    · rename_i hxy
      have hyx : le y x = true := by
        rcases tp.total x y with h' | h'
        · exact absurd h' hxy
        · exact h'
      refine SortedBy.cons_of (insertStable_sorted tp x ys h.tail) ?_
      intro z hz
      cases ys with
      | nil => simp [insertStable] at hz; subst hz; exact hyx
      | cons y' ys' =>
        simp only [insertStable] at hz
        split at hz
        · simp at hz; subst hz; exact hyx
        · simp at hz; subst hz
          cases h with
          | cons _ _ _ hle _ => exact hle

/-- the memtable of a keyed table flushes a key-sorted row-set -/
theorem sortStable_sorted {le : Row → Row → Bool} (tp : TotalPreorder le) :
    ∀ l : List Row, SortedBy le (sortStable le l)
  | [] => .nil
  | x :: xs => insertStable_sorted tp x _ (sortStable_sorted tp xs)

/-- filtering (a DV hiding rows) keeps a sorted list sorted -/
theorem SortedBy.filter {le : Row → Row → Bool} (tp : TotalPreorder le) (q : Row → Bool) :
    ∀ l : List Row, SortedBy le l → SortedBy le (l.filter q)
  | [], _ => by simpa using SortedBy.nil
  | [a], _ => by
    simp only [List.filter]
    split
    · exact .single a
    · exact .nil
  | a :: b :: l, h => by
    have ih := SortedBy.filter tp q (b :: l) h.tail
    rw [List.filter_cons]
    split
    · refine SortedBy.cons_of ih ?_
      intro z hz
      -- z is some element of b :: l, all of which are ≥ a
      have hall : ∀ (l : List Row) (a : Row), SortedBy le (a :: l) → ∀ z ∈ l, le a z = true := by
        intro l
        induction l with
        | nil => intro _ _ z hz; simp at hz
        | cons b l ihl =>
          intro a hs z hz
          cases hs with
          | cons _ _ _ hab hbl =>
            cases hz with
            | head => exact hab
            | tail _ hz => exact tp.trans a b z hab (ihl b hbl z hz)
      have hzmem : z ∈ (b :: l).filter q := List.mem_of_mem_head? hz
      exact hall (b :: l) a h z (List.mem_filter.mp hzmem).1
    · exact ih

end RlModel
