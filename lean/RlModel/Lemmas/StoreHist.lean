import RlModel.Lemmas.StoreStep
/-! Histories of data statements over a fixed catalog: the disk model holds exactly the rows
inserted and not since deleted. -/
namespace RlModel

def resolve (c : Catalog) (n : String) : Option Nat :=
  match c.find? n with
  | some e => if e.kind == .table then some e.id else none
  | none => none

theorem tableId?_eq (s : Store) (n : String) : s.tableId? n = resolve s.cat n := rfl

def Op.isData : Op → Bool
  | .insert _ _ | .delete _ _ | .compact _ | .vacuum => true
  | _ => false

/-- what the specification says table `tid` holds after the statements (a plain list: rows
appended by INSERT, filtered by DELETE; compaction and vacuum do nothing) -/
def tidSpec (c : Catalog) (tbl : List (Nat × TableDef)) (tid : Nat) : List Op → List Row → List Row
  | [], rows => rows
  | .insert n parts :: ops, rows =>
      tidSpec c tbl tid ops (if resolve c n = some tid ∧ (lookup tid tbl).isSome then rows ++ parts.flatten else rows)
  | .delete n p :: ops, rows =>
      tidSpec c tbl tid ops (if resolve c n = some tid then rows.filter (fun r => !p r) else rows)
  | _ :: ops, rows => tidSpec c tbl tid ops rows

theorem tidSpec_perm (c : Catalog) (tbl : List (Nat × TableDef)) (tid : Nat) : ∀ (ops : List Op) (a b : List Row),
    a.Perm b → (tidSpec c tbl tid ops a).Perm (tidSpec c tbl tid ops b)
  | [], _, _, h => h
  | op :: ops, a, b, h => by
    cases op with
    | insert n parts =>
      simp only [tidSpec]
      apply tidSpec_perm
      split
      · exact h.append_right _
      · exact h
    | delete n p =>
      simp only [tidSpec]
      apply tidSpec_perm
      split
      · exact h.filter _
      · exact h
    | _ => simp only [tidSpec]; exact tidSpec_perm c tbl tid ops a b h

/-- every INSERT of the history puts no NULL into a NOT NULL column (the forced hypothesis: the
non-nullable encodings store the type's default instead) -/
def RowsFit (c : Catalog) (tbl : List (Nat × TableDef)) : List Op → Prop
  | [] => True
  | .insert n parts :: ops =>
      (∀ tid d, resolve c n = some tid → lookup tid tbl = some d → ∀ r ∈ parts.flatten, storeRow d.cols r = r)
        ∧ RowsFit c tbl ops
  | _ :: ops => RowsFit c tbl ops

theorem map_id_of_forall {α} (f : α → α) : ∀ l : List α, (∀ x ∈ l, f x = x) → l.map f = l
  | [], _ => rfl
  | x :: l, h => by simp [h x (by simp), map_id_of_forall f l (fun y hy => h y (by simp [hy]))]

/-- **Theorem S for data statements**: after any history of INSERT (any partition into row-sets) /
DELETE / compaction passes (any selections) / vacuum passes over a fixed catalog, every table
scans to a permutation of exactly the rows inserted and not since deleted. -/
theorem data_history_exact : ∀ (h : List Op) (s : Store), Wf s → (∀ op ∈ h, op.isData = true) →
    RowsFit s.cat s.tables h →
    ∃ s', run (.up s) h = .up s' ∧ Wf s' ∧ s'.cat = s.cat ∧ s'.tables = s.tables ∧
      ∀ tid, (s'.scan tid).Perm (tidSpec s.cat s.tables tid h (s.scan tid))
  | [], s, wf, _, _ => ⟨s, rfl, wf, rfl, rfl, fun _ => List.Perm.refl _⟩
  | op :: ops, s, wf, hd, hfit => by
    have hd' : ∀ o ∈ ops, o.isData = true := fun o ho => hd o (by simp [ho])
    cases op with
    | insert n parts =>
      obtain ⟨hf1, hf2⟩ := hfit
      cases h1 : s.tableId? n with
      | none =>
        have hstep : step (.up s) (.insert n parts) = (.up s, .err "no-table") := by
          simp [step, stepUp, Store.insert, h1]
        obtain ⟨s', r1, r2, r3, r4, r5⟩ := data_history_exact ops s wf hd' hf2
        refine ⟨s', by simp [run, hstep, r1], r2, r3, r4, ?_⟩
        intro tid
        have : ¬ (resolve s.cat n = some tid ∧ (lookup tid s.tables).isSome = true) := by
          rw [← tableId?_eq, h1]; simp
        simp only [tidSpec, this, if_false]
        exact r5 tid
      | some t =>
        cases h2 : lookup t s.tables with
        | none =>
          have hstep : step (.up s) (.insert n parts) = (.up s, .err "no-table") := by
            simp [step, stepUp, Store.insert, h1, h2]
          obtain ⟨s', r1, r2, r3, r4, r5⟩ := data_history_exact ops s wf hd' hf2
          refine ⟨s', by simp [run, hstep, r1], r2, r3, r4, ?_⟩
          intro tid
          have : ¬ (resolve s.cat n = some tid ∧ (lookup tid s.tables).isSome = true) := by
            rw [← tableId?_eq, h1]
            rintro ⟨e, h⟩
            have : t = tid := by simpa using e
            subst this; simp [h2] at h
          simp only [tidSpec, this, if_false]
          exact r5 tid
        | some d =>
          obtain ⟨w1, c1, t1, _, p1, p2⟩ := insert_scan s wf n parts t d h1 h2
          have hfit' : RowsFit (s.insert n parts).1.cat (s.insert n parts).1.tables ops := by rw [c1, t1]; exact hf2
          obtain ⟨s', r1, r2, r3, r4, r5⟩ := data_history_exact ops _ w1 hd' hfit'
          refine ⟨s', by simp only [run, step, stepUp]; exact r1, r2, r3.trans c1, r4.trans t1, ?_⟩
          intro tid
          rw [c1, t1] at r5
          refine (r5 tid).trans (tidSpec_perm _ _ _ ops _ _ ?_)
          by_cases ht : tid = t
          · subst ht
            have hc : resolve s.cat n = some tid ∧ (lookup tid s.tables).isSome = true := by
              rw [← tableId?_eq, h1, h2]; simp
            simp only [hc, and_self, if_true]
            have hmap : parts.flatten.map (storeRow d.cols) = parts.flatten :=
              map_id_of_forall _ _ (hf1 tid d hc.1 h2)
            rw [hmap] at p1
            exact p1
          · have hc : ¬ (resolve s.cat n = some tid ∧ (lookup tid s.tables).isSome = true) := by
              rw [← tableId?_eq, h1]
              rintro ⟨e, _⟩
              exact ht (by simpa using e.symm)
            simp only [hc, if_false]
            rw [p2 tid ht]
    | delete n p =>
      cases h1 : s.tableId? n with
      | none =>
        have hstep : step (.up s) (.delete n p) = (.up s, .err "no-table") := by
          simp [step, stepUp, Store.delete, h1]
        obtain ⟨s', r1, r2, r3, r4, r5⟩ := data_history_exact ops s wf hd' hfit
        refine ⟨s', by simp [run, hstep, r1], r2, r3, r4, ?_⟩
        intro tid
        have : ¬ (resolve s.cat n = some tid) := by rw [← tableId?_eq, h1]; simp
        simp only [tidSpec, this, if_false]
        exact r5 tid
      | some t =>
        obtain ⟨w1, c1, t1, _, p1, p2⟩ := delete_scan s wf n p t h1
        have hfit' : RowsFit (s.delete n p).1.cat (s.delete n p).1.tables ops := by rw [c1, t1]; exact hfit
        obtain ⟨s', r1, r2, r3, r4, r5⟩ := data_history_exact ops _ w1 hd' hfit'
        refine ⟨s', by simp only [run, step, stepUp]; exact r1, r2, r3.trans c1, r4.trans t1, ?_⟩
        intro tid
        rw [c1, t1] at r5
        refine (r5 tid).trans (tidSpec_perm _ _ _ ops _ _ ?_)
        by_cases ht : tid = t
        · subst ht
          have hc : resolve s.cat n = some tid := by rw [← tableId?_eq, h1]
          simp only [hc, if_true]
          rw [p1]
        · have hc : ¬ (resolve s.cat n = some tid) := by
            rw [← tableId?_eq, h1]; intro e; exact ht (by simpa using e.symm)
          simp only [hc, if_false]
          rw [p2 tid ht]
    | compact plan =>
      obtain ⟨w1, c1, t1, p1⟩ := compact_scan plan s wf
      have hfit' : RowsFit (s.compact plan).cat (s.compact plan).tables ops := by rw [c1, t1]; exact hfit
      obtain ⟨s', r1, r2, r3, r4, r5⟩ := data_history_exact ops _ w1 hd' hfit'
      refine ⟨s', by simp only [run, step, stepUp]; exact r1, r2, r3.trans c1, r4.trans t1, ?_⟩
      intro tid
      rw [c1, t1] at r5
      exact (r5 tid).trans (tidSpec_perm _ _ _ ops _ _ (p1 tid))
    | vacuum =>
      obtain ⟨w1, c1, t1, p1⟩ := vacuum_scan s wf
      have hfit' : RowsFit s.vacuum.cat s.vacuum.tables ops := by rw [c1, t1]; exact hfit
      obtain ⟨s', r1, r2, r3, r4, r5⟩ := data_history_exact ops _ w1 hd' hfit'
      refine ⟨s', by simp only [run, step, stepUp]; exact r1, r2, r3.trans c1, r4.trans t1, ?_⟩
      intro tid
      rw [c1, t1] at r5
      simp only [tidSpec]
      rw [← p1 tid]
      exact r5 tid
    | create d => have := hd (.create d) (by simp); simp [Op.isData] at this
    | createView n => have := hd (.createView n) (by simp); simp [Op.isData] at this
    | createIndex n t => have := hd (.createIndex n t) (by simp); simp [Op.isData] at this
    | drop n => have := hd (.drop n) (by simp); simp [Op.isData] at this
    | reopen => have := hd .reopen (by simp); simp [Op.isData] at this

end RlModel
