import RlModel.Lemmas.StoreStep
/-! Histories of data statements over a fixed catalog: the disk model holds exactly the rows
inserted and not since deleted. -/
namespace RlModel

def resolve (c : Catalog) (n : String) : Option Nat :=
  match c.find? n with
  | some e => if e.kind == .table then some e.id else none
  | none => none

theorem tableId?_eq (s : Store) (n : String) : s.tableId? n = resolve s.cat n := rfl

def Op.isData : Op → Bool
  | .insert _ _ | .delete _ _ | .compact _ | .vacuum => true
  | _ => false

/-- rows an INSERT adds to table `tid`: its rows if the statement names that table and passes the
NOT NULL check, nothing otherwise (a rejected statement changes nothing) -/
def insAdds (c : Catalog) (tbl : List (Nat × TableDef)) (tid : Nat) (n : String) (parts : List (List Row)) : List Row :=
  if resolve c n = some tid then
    match lookup tid tbl with
    | some d => if rowsOk d parts.flatten then parts.flatten else []
    | none => []
  else []

/-- what the specification says table `tid` holds after the statements (a plain list: rows
appended by INSERT, filtered by DELETE; compaction and vacuum do nothing) -/
def tidSpec (c : Catalog) (tbl : List (Nat × TableDef)) (tid : Nat) : List Op → List Row → List Row
  | [], rows => rows
  | .insert n parts :: ops, rows => tidSpec c tbl tid ops (rows ++ insAdds c tbl tid n parts)
  | .delete n p :: ops, rows =>
      tidSpec c tbl tid ops (if resolve c n = some tid then rows.filter (fun r => !p r) else rows)
  | _ :: ops, rows => tidSpec c tbl tid ops rows

theorem tidSpec_perm (c : Catalog) (tbl : List (Nat × TableDef)) (tid : Nat) : ∀ (ops : List Op) (a b : List Row),
    a.Perm b → (tidSpec c tbl tid ops a).Perm (tidSpec c tbl tid ops b)
  | [], _, _, h => h
  | op :: ops, a, b, h => by
    cases op with
    | insert n parts =>
      simp only [tidSpec]
      exact tidSpec_perm c tbl tid ops _ _ (h.append_right _)
    | delete n p =>
      simp only [tidSpec]
      apply tidSpec_perm
      split
      · exact h.filter _
      · exact h
    | _ => simp only [tidSpec]; exact tidSpec_perm c tbl tid ops a b h

theorem map_id_of_forall {α} (f : α → α) : ∀ l : List α, (∀ x ∈ l, f x = x) → l.map f = l
  | [], _ => rfl
  | x :: l, h => by simp [h x (by simp), map_id_of_forall f l (fun y hy => h y (by simp [hy]))]

/-- **Theorem S for data statements**: after any history of INSERT (any partition into row-sets;
rejected as a whole when it would put NULL into a NOT NULL column) / DELETE / compaction passes
(any selections) / vacuum passes over a fixed catalog, every table scans to a permutation of
exactly the rows inserted and not since deleted. -/
theorem data_history_exact : ∀ (h : List Op) (s : Store), Wf s → (∀ op ∈ h, op.isData = true) →
    ∃ s', run (.up s) h = .up s' ∧ Wf s' ∧ s'.cat = s.cat ∧ s'.tables = s.tables ∧
      ∀ tid, (s'.scan tid).Perm (tidSpec s.cat s.tables tid h (s.scan tid))
  | [], s, wf, _ => ⟨s, rfl, wf, rfl, rfl, fun _ => List.Perm.refl _⟩
  | op :: ops, s, wf, hd => by
    have hd' : ∀ o ∈ ops, o.isData = true := fun o ho => hd o (by simp [ho])
    -- a statement that changes nothing
    have hsame : ∀ (o : Out), step (.up s) op = (.up s, o) → (∀ tid, tidSpec s.cat s.tables tid (op :: ops) (s.scan tid)
        = tidSpec s.cat s.tables tid ops (s.scan tid)) →
        ∃ s', run (.up s) (op :: ops) = .up s' ∧ Wf s' ∧ s'.cat = s.cat ∧ s'.tables = s.tables ∧
          ∀ tid, (s'.scan tid).Perm (tidSpec s.cat s.tables tid (op :: ops) (s.scan tid)) := by
      intro o hstep hspec
      obtain ⟨s', r1, r2, r3, r4, r5⟩ := data_history_exact ops s wf hd'
      exact ⟨s', by simp [run, hstep, r1], r2, r3, r4, fun tid => by rw [hspec tid]; exact r5 tid⟩
    -- a statement that changes the store, catalog and tables staying put
    have hmove : ∀ (s1 : Store), (step (.up s) op).1 = .up s1 → Wf s1 → s1.cat = s.cat → s1.tables = s.tables →
        (∀ tid, (s1.scan tid).Perm (tidSpec s.cat s.tables tid [op] (s.scan tid))) →
        ∃ s', run (.up s) (op :: ops) = .up s' ∧ Wf s' ∧ s'.cat = s.cat ∧ s'.tables = s.tables ∧
          ∀ tid, (s'.scan tid).Perm (tidSpec s.cat s.tables tid (op :: ops) (s.scan tid)) := by
      intro s1 hstep w1 c1 t1 hp
      obtain ⟨s', r1, r2, r3, r4, r5⟩ := data_history_exact ops s1 w1 hd'
      refine ⟨s', by simp only [run, hstep]; exact r1, r2, r3.trans c1, r4.trans t1, ?_⟩
      intro tid
      rw [c1, t1] at r5
      have hcons : tidSpec s.cat s.tables tid (op :: ops) (s.scan tid)
          = tidSpec s.cat s.tables tid ops (tidSpec s.cat s.tables tid [op] (s.scan tid)) := by
        cases op <;> simp [tidSpec]
      rw [hcons]
      exact (r5 tid).trans (tidSpec_perm _ _ _ ops _ _ (hp tid))
    cases op with
    | insert n parts =>
      cases h1 : s.tableId? n with
      | none =>
        apply hsame (.err "no-table") (by simp [step, stepUp, Store.insert, h1])
        intro tid
        simp [tidSpec, insAdds, ← tableId?_eq, h1]
      | some t =>
        cases h2 : lookup t s.tables with
        | none =>
          apply hsame (.err "no-table") (by simp [step, stepUp, Store.insert, h1, h2])
          intro tid
          simp only [tidSpec, insAdds, ← tableId?_eq, h1]
          by_cases ht : t = tid
          · subst ht; simp [h2]
          · simp [ht]
        | some d =>
          cases hok : rowsOk d parts.flatten with
          | false =>
            apply hsame (.err "not-null") (by simp [step, stepUp, insert_rejected s n parts t d h1 h2 hok])
            intro tid
            simp only [tidSpec, insAdds, ← tableId?_eq, h1]
            by_cases ht : t = tid
            · subst ht; simp [h2, hok]
            · simp [ht]
          | true =>
            obtain ⟨w1, c1, t1, _, p1, p2⟩ := insert_scan s wf n parts t d h1 h2 hok
            apply hmove (s.insert n parts).1 rfl w1 c1 t1
            intro tid
            simp only [tidSpec, insAdds, ← tableId?_eq, h1]
            by_cases ht : t = tid
            · subst ht; simp only [if_true, h2, hok]; exact p1
            · have : ¬ (some t = some tid) := by simpa using ht
              simp only [this, if_false, List.append_nil]
              rw [p2 tid (fun h => ht h.symm)]
    | delete n p =>
      cases h1 : s.tableId? n with
      | none =>
        apply hsame (.err "no-table") (by simp [step, stepUp, Store.delete, h1])
        intro tid
        simp [tidSpec, ← tableId?_eq, h1]
      | some t =>
        obtain ⟨w1, c1, t1, _, p1, p2⟩ := delete_scan s wf n p t h1
        apply hmove (s.delete n p).1 rfl w1 c1 t1
        intro tid
        simp only [tidSpec, ← tableId?_eq, h1]
        by_cases ht : t = tid
        · subst ht; simp only [if_true]; rw [p1]
        · have : ¬ (some t = some tid) := by simpa using ht
          simp only [this, if_false]
          rw [p2 tid (fun h => ht h.symm)]
    | compact plan =>
      obtain ⟨w1, c1, t1, p1⟩ := compact_scan plan s wf
      exact hmove (s.compact plan) rfl w1 c1 t1 (fun tid => by simp only [tidSpec]; exact p1 tid)
    | vacuum =>
      obtain ⟨w1, c1, t1, p1⟩ := vacuum_scan s wf
      exact hmove s.vacuum rfl w1 c1 t1 (fun tid => by simp only [tidSpec]; rw [p1 tid])
    | create d => have := hd (.create d) (by simp); simp [Op.isData] at this
    | createView n => have := hd (.createView n) (by simp); simp [Op.isData] at this
    | createIndex n t => have := hd (.createIndex n t) (by simp); simp [Op.isData] at this
    | drop n => have := hd (.drop n) (by simp); simp [Op.isData] at this
    | reopen => have := hd .reopen (by simp); simp [Op.isData] at this

end RlModel
