import RlModel.Model.Heap
import RlModel.Lemmas.Scan
/-! Heap invariant of the array-embedded binary heaps of `Model/Heap.lean` (C12): the sift
procedures preserve the heap property and the multiset, the root is a least element. -/
namespace RlModel

variable {β : Type}

def Child (p c : Nat) : Prop := c = 2 * p + 1 ∨ c = 2 * p + 2

/-- every parent may come before its children -/
def HeapOk (cmp : β → β → Ordering) (h : List β) : Prop :=
  ∀ p c a b, Child p c → h[p]? = some a → h[c]? = some b → leBy cmp a b

theorem lt_of_getElem?_some {h : List β} {i : Nat} {a : β} (hh : h[i]? = some a) : i < h.length := by
  by_cases hi : i < h.length
  · exact hi
  · rw [List.getElem?_eq_none (by omega)] at hh; cases hh

theorem swapAt_left (h : List β) (i j : Nat) (hi : i < h.length) (hj : j < h.length) (hij : i ≠ j) :
    (swapAt h i j)[i]? = h[j]? := by
  unfold swapAt
  rw [List.getElem?_eq_getElem hi, List.getElem?_eq_getElem hj]
  simp only
  rw [List.getElem?_set_ne (by omega), List.getElem?_set_self (by simpa using hi)]

theorem swapAt_right (h : List β) (i j : Nat) (hi : i < h.length) (hj : j < h.length) :
    (swapAt h i j)[j]? = h[i]? := by
  unfold swapAt
  rw [List.getElem?_eq_getElem hi, List.getElem?_eq_getElem hj]
  simp only
  rw [List.getElem?_set_self (by simpa using hj)]

theorem swapAt_other (h : List β) (i j k : Nat) (hki : k ≠ i) (hkj : k ≠ j) :
    (swapAt h i j)[k]? = h[k]? := by
  unfold swapAt
  split
  · rw [List.getElem?_set_ne (by omega), List.getElem?_set_ne (by omega)]
  · rfl

theorem swapAt_length (h : List β) (i j : Nat) : (swapAt h i j).length = h.length := by
  unfold swapAt; split <;> simp

theorem swapAt_perm [DecidableEq β] (h : List β) (i j : Nat) : (swapAt h i j).Perm h := by
  unfold swapAt
  split
  next a b ha hb =>
    have hi := lt_of_getElem?_some ha
    have hj := lt_of_getElem?_some hb
    have hai : h[i] = a := by rw [List.getElem?_eq_getElem hi] at ha; exact Option.some.inj ha
    have hbj : h[j] = b := by rw [List.getElem?_eq_getElem hj] at hb; exact Option.some.inj hb
    apply List.perm_iff_count.2
    intro x
    have hj' : j < (h.set i b).length := by simpa using hj
    rw [List.count_set hj', List.count_set hi, hai]
    have hget : (h.set i b)[j] = if i = j then b else b := by
      by_cases hij : i = j
      · subst hij; simp
      · rw [List.getElem_set_ne hij]; simp [hbj]
    rw [hget]
    have hge : (if (a == x) = true then 1 else 0) ≤ List.count x h := by
      split
      next hax =>
        have : a = x := by simpa using hax
        subst this
        exact List.count_pos_iff.2 (hai ▸ List.getElem_mem hi)
      · omega
    simp only [ite_self]
    omega
  · exact List.Perm.refl _

/-! ### sift up -/

/-- heap property everywhere except between `i` and its parent; the grandparent already
dominates the children of `i` -/
def UpInv (cmp : β → β → Ordering) (h : List β) (i : Nat) : Prop :=
  (∀ p c a b, Child p c → c ≠ i → h[p]? = some a → h[c]? = some b → leBy cmp a b) ∧
  (∀ g c a b, Child g i → Child i c → h[g]? = some a → h[c]? = some b → leBy cmp a b)

theorem le_of_gt {cmp : β → β → Ordering} (L : CmpLaws cmp) {a b : β} (h : cmp a b = .gt) : leBy cmp b a := by
  unfold leBy; rw [(L.gt_iff a b).1 h]; simp

theorem le_refl' {cmp : β → β → Ordering} (L : CmpLaws cmp) (a : β) : leBy cmp a a := by
  unfold leBy
  have := L.swap a a
  cases h : cmp a a <;> simp_all [Ordering.swap]

theorem siftUp_heap {cmp : β → β → Ordering} (L : CmpLaws cmp) :
    ∀ (i : Nat) (h : List β), UpInv cmp h i → HeapOk cmp (siftUp cmp h i) := by
  intro i
  induction i using Nat.strongRecOn with
  | _ i ih =>
    intro h hinv
    obtain ⟨h1, h2⟩ := hinv
    rw [siftUp]
    split
    next hi0 =>
      intro p c a b hc ha hb
      exact h1 p c a b hc (by rcases hc with rfl | rfl <;> omega) ha hb
    next hi0 =>
      split
      next a b hpa hib =>
        have hilen := lt_of_getElem?_some hib
        have hplen := lt_of_getElem?_some hpa
        have hpi : (i - 1) / 2 ≠ i := by omega
        have hchild : Child ((i - 1) / 2) i := by unfold Child; omega
        split
        next hgt =>
          have hgt' : cmp a b = .gt := by simpa using hgt
          have hba : leBy cmp b a := le_of_gt L hgt'
          apply ih ((i - 1) / 2) (by omega)
          refine ⟨?_, ?_⟩
          · intro q c x y hqc hcp hx hy
            by_cases hci : c = i
            · subst hci
              have hq : q = (c - 1) / 2 := by rcases hqc with h | h <;> omega
              subst hq
              rw [swapAt_left h _ _ hplen hilen hpi, hib] at hx
              rw [swapAt_right h _ _ hplen hilen, hpa] at hy
              cases hx; cases hy; exact hba
            · rw [swapAt_other h _ _ c hcp hci] at hy
              by_cases hqp : q = (i - 1) / 2
              · subst hqp
                rw [swapAt_left h _ _ hplen hilen hpi, hib] at hx
                cases hx
                exact L.le_trans hba (h1 _ c a y hqc hci hpa hy)
              · by_cases hqi : q = i
                · subst hqi
                  rw [swapAt_right h _ _ hplen hilen, hpa] at hx
                  cases hx
                  exact h2 _ c a y hchild hqc hpa hy
                · rw [swapAt_other h _ _ q hqp hqi] at hx
                  exact h1 q c x y hqc hci hx hy
          · intro g c x y hgp hpc hx hy
            have hgp' : g ≠ (i - 1) / 2 := by rcases hgp with h | h <;> omega
            have hgi : g ≠ i := by rcases hgp with h | h <;> omega
            rw [swapAt_other h _ _ g hgp' hgi] at hx
            have hxa : leBy cmp x a := h1 g _ x a hgp hpi hx hpa
            by_cases hci : c = i
            · subst hci
              rw [swapAt_right h _ _ hplen hilen, hpa] at hy
              cases hy; exact hxa
            · have hcp : c ≠ (i - 1) / 2 := by rcases hpc with h | h <;> omega
              rw [swapAt_other h _ _ c hcp hci] at hy
              exact L.le_trans hxa (h1 _ c a y hpc hci hpa hy)
        next hngt =>
          have hle : leBy cmp a b := by unfold leBy; simpa using hngt
          intro p c x y hc hx hy
          by_cases hci : c = i
          · subst hci
            have hq : p = (c - 1) / 2 := by rcases hc with h | h <;> omega
            subst hq
            rw [hpa] at hx; rw [hib] at hy
            cases hx; cases hy; exact hle
          · exact h1 p c x y hc hci hx hy
      next hnone =>
        intro p c x y hc hx hy
        by_cases hci : c = i
        · subst hci
          have hq : p = (c - 1) / 2 := by rcases hc with h | h <;> omega
          subst hq
          exact absurd hy (by intro hy'; exact hnone x y hx hy')
        · exact h1 p c x y hc hci hx hy

theorem siftUp_perm [DecidableEq β] (cmp : β → β → Ordering) : ∀ (i : Nat) (h : List β), (siftUp cmp h i).Perm h := by
  intro i
  induction i using Nat.strongRecOn with
  | _ i ih =>
    intro h
    rw [siftUp]
    split
    · exact List.Perm.refl _
    · split
      · split
        · exact (ih _ (by omega) _).trans (swapAt_perm h _ _)
        · exact List.Perm.refl _
      · exact List.Perm.refl _

theorem heapPush_heap {cmp : β → β → Ordering} (L : CmpLaws cmp) (h : List β) (x : β) (hh : HeapOk cmp h) :
    HeapOk cmp (heapPush cmp h x) := by
  unfold heapPush
  apply siftUp_heap L
  refine ⟨?_, ?_⟩
  · intro p c a b hc hne ha hb
    have hclt : c < (h ++ [x]).length := lt_of_getElem?_some hb
    have hc' : c < h.length := by simp at hclt; omega
    have hp' : p < h.length := by rcases hc with h | h <;> omega
    rw [List.getElem?_append_left hp'] at ha
    rw [List.getElem?_append_left hc'] at hb
    exact hh p c a b hc ha hb
  · intro g c a b _ hic _ hb
    have hclt : c < (h ++ [x]).length := lt_of_getElem?_some hb
    simp at hclt
    rcases hic with h | h <;> omega

theorem heapPush_perm [DecidableEq β] (cmp : β → β → Ordering) (h : List β) (x : β) :
    (heapPush cmp h x).Perm (x :: h) := by
  unfold heapPush
  exact (siftUp_perm cmp _ _).trans (List.perm_append_singleton x h)

/-! ### sift down -/

/-- heap property everywhere except between `i` and its children; the parent of `i` already
dominates the children of `i` -/
def DownInv (cmp : β → β → Ordering) (h : List β) (i : Nat) : Prop :=
  (∀ p c a b, Child p c → p ≠ i → h[p]? = some a → h[c]? = some b → leBy cmp a b) ∧
  (∀ g c a b, Child g i → Child i c → h[g]? = some a → h[c]? = some b → leBy cmp a b)

theorem siftDown_heap {cmp : β → β → Ordering} (L : CmpLaws cmp) :
    ∀ (fuel : Nat) (h : List β) (i : Nat), h.length ≤ i + fuel → DownInv cmp h i → HeapOk cmp (siftDown cmp fuel h i) := by
  intro fuel
  induction fuel with
  | zero =>
    intro h i hlen hinv
    simp only [siftDown]
    intro p c a b hc ha hb
    have := lt_of_getElem?_some ha
    exact hinv.1 p c a b hc (by omega) ha hb
  | succ n ih =>
    intro h i hlen hinv
    obtain ⟨h1, h2⟩ := hinv
    simp only [siftDown]
    split
    next x l hx hl =>
      have hilen := lt_of_getElem?_some hx
      -- the selected child: the lesser one
      have hsel : ∃ sel c, Child i sel ∧ h[sel]? = some c ∧ (∀ o y, Child i o → h[o]? = some y → leBy cmp c y) ∧
          selChild cmp h i l = sel := by
        unfold selChild
        cases hr : h[2 * i + 2]? with
        | none =>
          refine ⟨2 * i + 1, l, Or.inl rfl, hl, ?_, rfl⟩
          intro o y ho hy
          rcases ho with rfl | rfl
          · rw [hl] at hy; cases hy; exact le_refl' L _
          · rw [hr] at hy; cases hy
        | some r =>
          by_cases hgt : cmp l r = .gt
          · refine ⟨2 * i + 2, r, Or.inr rfl, hr, ?_, by simp [hgt]⟩
            intro o y ho hy
            rcases ho with rfl | rfl
            · rw [hl] at hy; cases hy; exact le_of_gt L hgt
            · rw [hr] at hy; cases hy; exact le_refl' L _
          · refine ⟨2 * i + 1, l, Or.inl rfl, hl, ?_, by simp [hgt]⟩
            intro o y ho hy
            rcases ho with rfl | rfl
            · rw [hl] at hy; cases hy; exact le_refl' L _
            · rw [hr] at hy; cases hy; exact hgt
      obtain ⟨sel, c, hcs, hc, hmin, hseleq⟩ := hsel
      rw [hseleq]
      simp only [hc]
      have hsellen := lt_of_getElem?_some hc
      have hisel : i ≠ sel := by rcases hcs with h | h <;> omega
      split
      next hgt =>
        have hgt' : cmp x c = .gt := by simpa using hgt
        have hcx : leBy cmp c x := le_of_gt L hgt'
        apply ih
        · rw [swapAt_length]; rcases hcs with h | h <;> omega
        · refine ⟨?_, ?_⟩
          · intro p k a b hpk hps ha hb
            by_cases hpi : p = i
            · subst hpi
              rw [swapAt_left h _ _ hilen hsellen hisel, hc] at ha
              cases ha
              by_cases hks : k = sel
              · subst hks
                rw [swapAt_right h _ _ hilen hsellen, hx] at hb
                cases hb; exact hcx
              · have hkp : k ≠ p := by rcases hpk with h | h <;> omega
                rw [swapAt_other h _ _ k hkp hks] at hb
                exact hmin k b hpk hb
            · rw [swapAt_other h _ _ p hpi hps] at ha
              by_cases hki : k = i
              · subst hki
                rw [swapAt_left h _ _ hilen hsellen hisel, hc] at hb
                cases hb
                exact h2 p sel a c hpk hcs ha hc
              · have hks : k ≠ sel := by
                  intro hks; subst hks
                  rcases hpk with h | h <;> rcases hcs with h' | h' <;> omega
                rw [swapAt_other h _ _ k hki hks] at hb
                exact h1 p k a b hpk hpi ha hb
          · intro g k a b hgs hsk ha hb
            have hgi : g = i := by rcases hgs with h | h <;> rcases hcs with h' | h' <;> omega
            subst hgi
            rw [swapAt_left h _ _ hilen hsellen hisel, hc] at ha
            cases ha
            have hkg : k ≠ g := by rcases hsk with h | h <;> rcases hcs with h' | h' <;> omega
            have hks : k ≠ sel := by rcases hsk with h | h <;> omega
            rw [swapAt_other h _ _ k hkg hks] at hb
            exact h1 sel k c b hsk (fun e => hisel e.symm) hc hb
      next hngt =>
        have hxc : leBy cmp x c := by unfold leBy; simpa using hngt
        intro p k a b hpk ha hb
        by_cases hpi : p = i
        · subst hpi
          rw [hx] at ha; cases ha
          exact L.le_trans hxc (hmin k b hpk hb)
        · exact h1 p k a b hpk hpi ha hb
    next hnone =>
      -- no element at i or no left child: nothing below i
      intro p k a b hpk ha hb
      by_cases hpi : p = i
      · subst hpi
        have hklen := lt_of_getElem?_some hb
        have hl : ∃ l, h[2 * p + 1]? = some l := by
          have : 2 * p + 1 < h.length := by rcases hpk with h | h <;> omega
          exact ⟨h[2 * p + 1], List.getElem?_eq_getElem this⟩
        obtain ⟨l, hl⟩ := hl
        exact absurd hl (by intro hl'; exact hnone a l ha hl')
      · exact h1 p k a b hpk hpi ha hb

theorem siftDown_perm [DecidableEq β] (cmp : β → β → Ordering) :
    ∀ (fuel : Nat) (h : List β) (i : Nat), (siftDown cmp fuel h i).Perm h := by
  intro fuel
  induction fuel with
  | zero => intro h i; exact List.Perm.refl _
  | succ n ih =>
    intro h i
    simp only [siftDown]
    split
    · split
      · split
        · exact (ih _ _).trans (swapAt_perm h _ _)
        · exact List.Perm.refl _
      · exact List.Perm.refl _
    · exact List.Perm.refl _

theorem heapReplaceRoot_heap {cmp : β → β → Ordering} (L : CmpLaws cmp) (h : List β) (x : β) (hh : HeapOk cmp h) :
    HeapOk cmp (heapReplaceRoot cmp h x) := by
  unfold heapReplaceRoot
  apply siftDown_heap L
  · simp
  · refine ⟨?_, ?_⟩
    · intro p c a b hc hp ha hb
      have hc0 : c ≠ 0 := by rcases hc with h | h <;> omega
      rw [List.getElem?_set_ne (by omega)] at ha
      rw [List.getElem?_set_ne (by omega)] at hb
      exact hh p c a b hc ha hb
    · intro g c a b hg
      rcases hg with h | h <;> omega

/-- the root of a heap may come before every element -/
theorem heap_root_le {cmp : β → β → Ordering} (L : CmpLaws cmp) (h : List β) (hh : HeapOk cmp h) (r : β) (hr : h[0]? = some r) :
    ∀ (k : Nat) (y : β), h[k]? = some y → leBy cmp r y := by
  intro k
  induction k using Nat.strongRecOn with
  | _ k ih =>
    intro y hy
    by_cases hk : k = 0
    · subst hk; rw [hr] at hy; cases hy; exact le_refl' L _
    · have hklen := lt_of_getElem?_some hy
      have hp : (k - 1) / 2 < h.length := by omega
      have hz : h[(k - 1) / 2]? = some h[(k - 1) / 2] := List.getElem?_eq_getElem hp
      exact L.le_trans (ih _ (by omega) _ hz) (hh _ k _ y (by unfold Child; omega) hz hy)

theorem heap_root_le_mem {cmp : β → β → Ordering} (L : CmpLaws cmp) (r : β) (t : List β) (hh : HeapOk cmp (r :: t)) :
    ∀ y ∈ r :: t, leBy cmp r y := by
  intro y hy
  obtain ⟨k, hk, hky⟩ := List.getElem_of_mem hy
  exact heap_root_le L (r :: t) hh r rfl k y (by rw [List.getElem?_eq_getElem hk, hky])

theorem heapOk_dropLast {cmp : β → β → Ordering} (h : List β) (hh : HeapOk cmp h) : HeapOk cmp h.dropLast := by
  intro p c a b hc ha hb
  have hp := lt_of_getElem?_some ha
  have hcl := lt_of_getElem?_some hb
  simp only [List.length_dropLast] at hp hcl
  rw [List.getElem?_dropLast] at ha hb
  simp only [hp, hcl, if_true] at ha hb
  exact hh p c a b hc ha hb

/-! ### pop / replace: multiset -/

theorem heapReplaceRoot_perm [DecidableEq β] (cmp : β → β → Ordering) (r : β) (t : List β) (x : β) :
    (heapReplaceRoot cmp (r :: t) x).Perm (x :: t) := by
  unfold heapReplaceRoot
  exact siftDown_perm cmp _ _ _

theorem dropLast_getLast? (l : List β) (hne : l ≠ []) : ∃ last, l.getLast? = some last ∧ l.dropLast ++ [last] = l := by
  induction l with
  | nil => exact absurd rfl hne
  | cons a l ih =>
    cases l with
    | nil => exact ⟨a, rfl, rfl⟩
    | cons b l' =>
      obtain ⟨last, h1, h2⟩ := ih (by simp)
      refine ⟨last, ?_, ?_⟩
      · rw [List.getLast?_cons_cons]; exact h1
      · simp only [List.dropLast_cons₂, List.cons_append]
        rw [h2]

theorem heapPop_spec [DecidableEq β] {cmp : β → β → Ordering} (L : CmpLaws cmp) (r : β) (t : List β)
    (hh : HeapOk cmp (r :: t)) :
    ∃ h', heapPop cmp (r :: t) = some (r, h') ∧ (r :: h').Perm (r :: t) ∧ HeapOk cmp h' := by
  obtain ⟨last, hl1, hl2⟩ := dropLast_getLast? (r :: t) (by simp)
  unfold heapPop
  simp only [hl1]
  cases t with
  | nil =>
    simp at hl1
    subst hl1
    exact ⟨[], by simp, List.Perm.refl _, by intro p c a b _ ha; simp at ha⟩
  | cons y ys =>
    have hd : (r :: y :: ys).dropLast = r :: (y :: ys).dropLast := by simp
    have hemp : ((r :: y :: ys).dropLast).isEmpty = false := by rw [hd]; rfl
    simp only [hemp]
    refine ⟨_, rfl, ?_, ?_⟩
    · rw [hd]
      rw [hd] at hl2
      refine (List.Perm.cons r (heapReplaceRoot_perm cmp r _ _)).trans ?_
      have h1 : (r :: last :: (y :: ys).dropLast).Perm (r :: ((y :: ys).dropLast ++ [last])) :=
        List.Perm.cons r (List.perm_append_singleton _ _).symm
      refine h1.trans ?_
      rw [← List.cons_append, hl2]
    · exact heapReplaceRoot_heap L _ _ (heapOk_dropLast _ hh)

/-! ### the source's loop bounds are the heap bounds -/

/-- what `Gen/MergeHeap.lean` (regenerated from merge_iterator.rs) has to say for the sift-down to be
a sift-down of a binary heap of `len` elements -/
def MergeBoundsExact : Prop :=
  (∀ i, Gen.mergeLeftIdx i = 2 * i + 1) ∧ (∀ i, Gen.mergeRightIdx i = 2 * i + 2) ∧
  (∀ a n, 0 < n → Gen.mergeLeftStop a n = decide (n ≤ a)) ∧ (∀ a n, 0 < n → Gen.mergeRightOk a n = decide (a < n))

theorem selChildSrc_eq (hb : MergeBoundsExact) (cmp : β → β → Ordering) (h : List β) (i : Nat) (l : β) :
    selChildSrc cmp h i l = selChild cmp h i l := by
  obtain ⟨hl, hr, _, hro⟩ := hb
  unfold selChildSrc selChild
  by_cases hlen : h.length = 0
  · have hnil : h = [] := List.eq_nil_of_length_eq_zero hlen
    subst hnil
    simp only [hl, hr, List.getElem?_nil]
    split <;> rfl
  simp only [hl, hr, hro _ _ (Nat.pos_of_ne_zero hlen)]
  by_cases hr2 : 2 * i + 2 < h.length
  · simp only [hr2, decide_true, if_true]
  · have : h[2 * i + 2]? = none := List.getElem?_eq_none (by omega)
    simp [hr2, this]

theorem siftDownSrc_eq (hb : MergeBoundsExact) (cmp : β → β → Ordering) :
    ∀ (fuel : Nat) (h : List β) (i : Nat), siftDownSrc cmp fuel h i = siftDown cmp fuel h i := by
  have hsel := selChildSrc_eq hb cmp
  obtain ⟨hl, hr, hls, hro⟩ := hb
  intro fuel
  induction fuel with
  | zero => intro h i; rfl
  | succ n ih =>
    intro h i
    by_cases hlen : h.length = 0
    · have hnil : h = [] := List.eq_nil_of_length_eq_zero hlen
      subst hnil
      simp only [siftDownSrc, siftDown, List.getElem?_nil]
      split <;> rfl
    simp only [siftDownSrc, siftDown, hl, hls _ _ (Nat.pos_of_ne_zero hlen), hsel]
    by_cases hstop : h.length ≤ 2 * i + 1
    · have hnone : h[2 * i + 1]? = none := List.getElem?_eq_none hstop
      simp only [hstop, decide_true, if_true, hnone]
      cases h[i]? <;> rfl
    · simp only [hstop, decide_false, Bool.false_eq_true, if_false]
      cases hx : h[i]? with
      | none => rfl
      | some x =>
        cases hlv : h[2 * i + 1]? with
        | none => rfl
        | some l =>
          simp only
          cases hc : h[selChild cmp h i l]? with
          | none => rfl
          | some c =>
            simp only
            split
            · exact ih _ _
            · rfl

theorem mergeReplaceRoot_eq (hb : MergeBoundsExact) (cmp : β → β → Ordering) (h : List β) (x : β) :
    mergeReplaceRoot cmp h x = heapReplaceRoot cmp h x := by
  unfold mergeReplaceRoot heapReplaceRoot
  exact siftDownSrc_eq hb cmp _ _ _

theorem mergePop_eq (hb : MergeBoundsExact) (cmp : β → β → Ordering) (h : List β) :
    mergePop cmp h = heapPop cmp h := by
  unfold mergePop heapPop
  cases h with
  | nil => rfl
  | cons r t =>
    simp only
    cases (r :: t).getLast? with
    | none => rfl
    | some last => simp only [mergeReplaceRoot_eq hb]

/-! ### MergeIterator -/

section MergeHeap
variable {α : Type} [DecidableEq α]

def remaining (h : List (MEntry α)) : List α := h.flatMap MEntry.items

def MergeInv (cmp : α → α → Ordering) (h : List (MEntry α)) : Prop :=
  HeapOk (entryCmp cmp) h ∧ ∀ e ∈ h, SortedBy cmp e.items

theorem entryCmp_laws {cmp : α → α → Ordering} (L : CmpLaws cmp) : CmpLaws (entryCmp cmp) :=
  L.on (fun e : MEntry α => e.v)

theorem remaining_perm {h h' : List (MEntry α)} (hp : h.Perm h') : (remaining h).Perm (remaining h') :=
  List.Perm.flatMap_right _ hp

theorem loadEntry_items (id : Nat) (cs : List (List α)) :
    (match loadEntry id cs with | some e => e.items | none => []) = cs.flatten := by
  induction cs with
  | nil => rfl
  | cons c cs ih =>
    cases c with
    | nil => simpa [loadEntry] using ih
    | cons y ys => simp [loadEntry, MEntry.items]

theorem head_le_of_sorted {cmp : α → α → Ordering} (L : CmpLaws cmp) (e : MEntry α) (hs : SortedBy cmp e.items) :
    ∀ y ∈ e.items, leBy cmp e.v y := by
  intro y hy
  unfold MEntry.items at hy hs
  rcases List.mem_cons.1 hy with rfl | hy
  · exact le_refl' L _
  · unfold SortedBy at hs
    exact (List.pairwise_cons.1 hs).1 y hy

theorem mergeStep_spec (hb : MergeBoundsExact) {cmp : α → α → Ordering} (L : CmpLaws cmp) (h : List (MEntry α)) (hinv : MergeInv cmp h)
    (x : α) (h' : List (MEntry α)) (hstep : mergeStep cmp h = some (x, h')) :
    MergeInv cmp h' ∧ (x :: remaining h').Perm (remaining h) ∧ ∀ y ∈ remaining h, leBy cmp x y := by
  have LE := entryCmp_laws L
  obtain ⟨hheap, hsorted⟩ := hinv
  cases h with
  | nil => simp [mergeStep] at hstep
  | cons e t =>
    have hes := hsorted e (by simp)
    -- the root's row may come before everything that remains
    have hmin : ∀ y ∈ remaining (e :: t), leBy cmp e.v y := by
      intro y hy
      obtain ⟨e2, he2, hy2⟩ := List.mem_flatMap.1 hy
      have h1 : leBy cmp e.v e2.v := heap_root_le_mem LE e t hheap e2 he2
      exact L.le_trans h1 (head_le_of_sorted L e2 (hsorted e2 he2) y hy2)
    simp only [mergeStep, mergeReplaceRoot_eq hb, mergePop_eq hb] at hstep
    cases hbuf : e.buf with
    | cons b bs =>
      simp only [hbuf, Option.some.injEq, Prod.mk.injEq] at hstep
      obtain ⟨rfl, rfl⟩ := hstep
      have hperm := heapReplaceRoot_perm (entryCmp cmp) e t { e with v := b, buf := bs }
      refine ⟨⟨heapReplaceRoot_heap LE _ _ hheap, ?_⟩, ?_, hmin⟩
      · intro e2 he2
        rcases List.mem_cons.1 (hperm.mem_iff.1 he2) with rfl | he2
        · unfold MEntry.items at hes ⊢
          rw [hbuf] at hes
          unfold SortedBy at hes ⊢
          exact (List.pairwise_cons.1 hes).2
        · exact hsorted e2 (by simp [he2])
      · refine (List.Perm.cons _ (remaining_perm hperm)).trans ?_
        simp [remaining, MEntry.items, hbuf]
    | nil =>
      simp only [hbuf] at hstep
      obtain ⟨h2, hpop, hpperm, hpheap⟩ := heapPop_spec LE e t hheap
      simp only [hpop] at hstep
      have hitems : e.items = e.v :: e.rest.flatten := by simp [MEntry.items, hbuf]
      have hrem : (remaining (e :: t)).Perm (e.v :: (e.rest.flatten ++ remaining h2)) := by
        refine (remaining_perm hpperm.symm).trans ?_
        simp [remaining, hitems]
      have hh2sorted : ∀ e2 ∈ h2, SortedBy cmp e2.items := fun e2 he2 =>
        hsorted e2 (hpperm.mem_iff.1 (by simp [he2]))
      have hload := loadEntry_items e.id e.rest
      cases hl : loadEntry e.id e.rest with
      | none =>
        simp only [hl, Option.some.injEq, Prod.mk.injEq] at hstep
        obtain ⟨rfl, rfl⟩ := hstep
        rw [hl] at hload
        refine ⟨⟨hpheap, hh2sorted⟩, ?_, hmin⟩
        rw [← hload] at hrem
        simpa using hrem.symm
      | some e' =>
        simp only [hl, Option.some.injEq, Prod.mk.injEq] at hstep
        obtain ⟨rfl, rfl⟩ := hstep
        rw [hl] at hload
        have hpush := heapPush_perm (entryCmp cmp) h2 e'
        refine ⟨⟨heapPush_heap LE _ _ hpheap, ?_⟩, ?_, hmin⟩
        · intro e2 he2
          rcases List.mem_cons.1 (hpush.mem_iff.1 he2) with rfl | he2
          · simp only at hload
            rw [hload]
            rw [hitems] at hes
            unfold SortedBy at hes ⊢
            exact (List.pairwise_cons.1 hes).2
          · exact hh2sorted e2 he2
        · refine (List.Perm.cons _ (remaining_perm hpush)).trans ?_
          refine List.Perm.trans ?_ hrem.symm
          simp only at hload
          simp [remaining, hload]

theorem mergeHeapLoop_spec (hb : MergeBoundsExact) {cmp : α → α → Ordering} (L : CmpLaws cmp) :
    ∀ (fuel : Nat) (h : List (MEntry α)), MergeInv cmp h → (remaining h).length ≤ fuel →
      SortedBy cmp (mergeHeapLoop cmp fuel h) ∧ (mergeHeapLoop cmp fuel h).Perm (remaining h) := by
  intro fuel
  induction fuel with
  | zero =>
    intro h _ hlen
    have : remaining h = [] := List.eq_nil_of_length_eq_zero (by omega)
    simp [mergeHeapLoop, this, SortedBy]
  | succ n ih =>
    intro h hinv hlen
    simp only [mergeHeapLoop]
    cases hstep : mergeStep cmp h with
    | none =>
      -- only the empty heap has no step
      cases h with
      | nil => simp [remaining, SortedBy]
      | cons e t =>
        exfalso
        simp only [mergeStep, mergeReplaceRoot_eq hb, mergePop_eq hb] at hstep
        cases hbuf : e.buf with
        | cons b bs => simp [hbuf] at hstep
        | nil =>
          obtain ⟨h2, hpop, _, _⟩ := heapPop_spec (entryCmp_laws L) e t hinv.1
          simp only [hbuf, hpop] at hstep
          cases hl : loadEntry e.id e.rest <;> simp [hl] at hstep
    | some p =>
      obtain ⟨x, h'⟩ := p
      obtain ⟨hinv', hperm, hmin⟩ := mergeStep_spec hb L h hinv x h' hstep
      have hlen' : (remaining h').length ≤ n := by
        have := hperm.length_eq
        rw [List.length_cons] at this
        omega
      obtain ⟨hs, hp⟩ := ih h' hinv' hlen'
      refine ⟨?_, (List.Perm.cons x hp).trans hperm⟩
      unfold SortedBy
      rw [List.pairwise_cons]
      refine ⟨?_, hs⟩
      intro y hy
      exact hmin y (hperm.mem_iff.1 (by simp [hp.mem_iff.1 hy]))

theorem mergeInit_spec {cmp : α → α → Ordering} (L : CmpLaws cmp) :
    ∀ (streams : List (List (List α))) (i : Nat) (h : List (MEntry α)), MergeInv cmp h →
      (∀ s ∈ streams, SortedBy cmp s.flatten) →
      MergeInv cmp (mergeInit cmp i streams h) ∧
        (remaining (mergeInit cmp i streams h)).Perm (remaining h ++ (streams.map List.flatten).flatten) := by
  intro streams
  induction streams with
  | nil => intro i h hinv _; simp [mergeInit, hinv]
  | cons s ss ih =>
    intro i h hinv hs
    simp only [mergeInit]
    have hload := loadEntry_items i s
    cases hl : loadEntry i s with
    | none =>
      rw [hl] at hload
      simp only
      obtain ⟨h1, h2⟩ := ih (i + 1) h hinv (fun s' hs' => hs s' (by simp [hs']))
      refine ⟨h1, ?_⟩
      simp only [List.map_cons, List.flatten_cons, ← hload, List.nil_append]
      exact h2
    | some e =>
      rw [hl] at hload
      simp only at hload
      have hpush := heapPush_perm (entryCmp cmp) h e
      have hinv' : MergeInv cmp (heapPush (entryCmp cmp) h e) := by
        refine ⟨heapPush_heap (entryCmp_laws L) _ _ hinv.1, ?_⟩
        intro e2 he2
        rcases List.mem_cons.1 (hpush.mem_iff.1 he2) with rfl | he2
        · rw [hload]; exact hs s (by simp)
        · exact hinv.2 e2 he2
      obtain ⟨h1, h2⟩ := ih (i + 1) _ hinv' (fun s' hs' => hs s' (by simp [hs']))
      refine ⟨h1, h2.trans ?_⟩
      simp only [List.map_cons, List.flatten_cons]
      have : (remaining (heapPush (entryCmp cmp) h e)).Perm (remaining h ++ s.flatten) := by
        refine (remaining_perm hpush).trans ?_
        simp only [remaining, List.flatMap_cons, hload]
        exact List.perm_append_comm
      refine (List.Perm.append_right _ this).trans ?_
      simp

end MergeHeap

/-! ### TopN: bounded max-heap -/

section TopNHeap
variable {α : Type} [DecidableEq α]

/-- the reversed comparison (a max-heap is a min-heap for it) -/
def rcmp (cmp : α → α → Ordering) : α → α → Ordering := fun a b => cmp b a

theorem rcmp_laws {cmp : α → α → Ordering} (L : CmpLaws cmp) : CmpLaws (rcmp cmp) := by
  have h := L.rev
  have e : (fun a b => (cmp a b).swap) = rcmp cmp := by
    funext a b; exact L.swap a b
  rw [e] at h; exact h

/-- one row through the bounded heap -/
def topnStep (cmp : α → α → Ordering) (cap : Nat) (h : List α) (x : α) : List α :=
  let h1 := heapPush (rcmp cmp) h x
  if h1.length > cap then
    match heapPop (rcmp cmp) h1 with
    | some (_, h2) => h2
    | none => h1
  else h1

theorem topnHeapState_eq (cmp : α → α → Ordering) (cap : Nat) (xs : List α) :
    topnHeapState cmp cap xs = xs.foldl (topnStep cmp cap) [] := rfl

/-- kept rows `K` (a max-heap of at most `cap` rows), dropped rows `D`: together the rows seen,
every kept row may come before every dropped row, and nothing is dropped before the heap is full -/
structure TopNInv (cmp : α → α → Ordering) (cap : Nat) (seen K D : List α) : Prop where
  heap : HeapOk (rcmp cmp) K
  perm : (K ++ D).Perm seen
  le : ∀ k ∈ K, ∀ d ∈ D, leBy cmp k d
  size : K.length ≤ cap
  full : D ≠ [] → K.length = cap

theorem topnStep_inv {cmp : α → α → Ordering} (L : CmpLaws cmp) (cap : Nat) (seen K D : List α) (x : α)
    (hinv : TopNInv cmp cap seen K D) :
    ∃ D', TopNInv cmp cap (seen ++ [x]) (topnStep cmp cap K x) D' := by
  have LR := rcmp_laws L
  have hpushp := heapPush_perm (rcmp cmp) K x
  have hpushh := heapPush_heap LR K x hinv.heap
  have hlen1 : (heapPush (rcmp cmp) K x).length = K.length + 1 := by
    rw [hpushp.length_eq]; simp
  unfold topnStep
  simp only
  by_cases hover : (heapPush (rcmp cmp) K x).length > cap
  · simp only [hover, if_true]
    cases hK1 : heapPush (rcmp cmp) K x with
    | nil => rw [hK1] at hlen1; simp at hlen1
    | cons r t =>
      rw [hK1] at hpushh hpushp
      obtain ⟨K2, hpop, hpperm, hpheap⟩ := heapPop_spec LR r t hpushh
      simp only [hpop]
      -- r is a greatest element of x :: K
      have hmax : ∀ y ∈ r :: t, leBy cmp y r := by
        intro y hy
        have := heap_root_le_mem LR r t hpushh y hy
        unfold leBy rcmp at this
        exact this
      have hKlen : K.length = cap := by
        have := hinv.size
        rw [hK1] at hover hlen1
        simp at hover hlen1
        omega
      refine ⟨r :: D, ⟨hpheap, ?_, ?_, ?_, ?_⟩⟩
      · -- K2 ++ r :: D ~ seen ++ [x]
        have h1 : (K2 ++ r :: D).Perm ((r :: K2) ++ D) := by
          simpa using (List.perm_middle (l₁ := K2) (a := r) (l₂ := D))
        refine h1.trans ?_
        refine (List.Perm.append_right D (hpperm.trans hpushp)).trans ?_
        have h2 : ((x :: K) ++ D).Perm (K ++ D ++ [x]) := by
          simpa using (List.perm_append_singleton x (K ++ D)).symm
        exact h2.trans (List.Perm.append_right [x] hinv.perm)
      · intro k hk d hd
        have hkin : k ∈ r :: t := hpperm.mem_iff.1 (by simp [hk])
        have hkr : leBy cmp k r := hmax k hkin
        rcases List.mem_cons.1 hd with rfl | hd
        · exact hkr
        · -- r itself is x or an old kept row
          have hrin : r ∈ x :: K := hpushp.mem_iff.1 (by simp)
          rcases List.mem_cons.1 hrin with hrx | hrK
          · -- r = x: the kept rows are the old ones
            subst hrx
            have hK2 : K2.Perm K := (List.Perm.cons_inv (hpperm.trans hpushp))
            exact hinv.le k (hK2.mem_iff.1 hk) d hd
          · exact L.le_trans hkr (hinv.le r hrK d hd)
      · have := hpperm.length_eq
        rw [hK1] at hlen1
        simp at this hlen1
        omega
      · intro _
        have := hpperm.length_eq
        rw [hK1] at hlen1
        simp at this hlen1
        omega
  · simp only [hover, if_false]
    have hDnil : D = [] := by
      by_cases hD : D = []
      · exact hD
      · have := hinv.full hD; omega
    subst hDnil
    refine ⟨[], ⟨hpushh, ?_, ?_, by omega, by intro h; exact absurd rfl h⟩⟩
    · have := hinv.perm
      simp only [List.append_nil] at this ⊢
      exact hpushp.trans ((List.perm_append_singleton x K).symm.trans (List.Perm.append_right [x] this))
    · intro k _ d hd; simp at hd

theorem topnHeapState_inv {cmp : α → α → Ordering} (L : CmpLaws cmp) (cap : Nat) (xs : List α) :
    ∃ D, TopNInv cmp cap xs (topnHeapState cmp cap xs) D := by
  rw [topnHeapState_eq]
  -- generalise over the rows already seen
  suffices H : ∀ (ys seen K D : List α), TopNInv cmp cap seen K D →
      ∃ D', TopNInv cmp cap (seen ++ ys) (ys.foldl (topnStep cmp cap) K) D' by
    have h0 : TopNInv cmp cap ([] : List α) [] [] :=
      ⟨by intro p c a b _ ha; simp at ha, List.Perm.refl _, by intro k hk; simp at hk, by simp, by intro h; exact absurd rfl h⟩
    simpa using H xs [] [] [] h0
  intro ys
  induction ys with
  | nil => intro seen K D h; exact ⟨D, by simpa using h⟩
  | cons y ys ih =>
    intro seen K D h
    obtain ⟨D1, h1⟩ := topnStep_inv L cap seen K D y h
    obtain ⟨D2, h2⟩ := ih (seen ++ [y]) _ D1 h1
    exact ⟨D2, by simpa using h2⟩

/-- draining a max-heap yields its rows from the greatest down -/
theorem heapDrain_spec {cmp : α → α → Ordering} (L : CmpLaws cmp) :
    ∀ (fuel : Nat) (h : List α), HeapOk (rcmp cmp) h → h.length ≤ fuel →
      (heapDrain (rcmp cmp) fuel h).Perm h ∧ SortedBy cmp (heapDrain (rcmp cmp) fuel h).reverse := by
  have LR := rcmp_laws L
  intro fuel
  induction fuel with
  | zero =>
    intro h _ hlen
    have : h = [] := List.eq_nil_of_length_eq_zero (by omega)
    subst this; simp [heapDrain, SortedBy]
  | succ n ih =>
    intro h hh hlen
    cases h with
    | nil => simp [heapDrain, heapPop, SortedBy]
    | cons r t =>
      obtain ⟨h2, hpop, hpperm, hpheap⟩ := heapPop_spec LR r t hh
      simp only [heapDrain, hpop]
      have hl2 : h2.length ≤ n := by
        have := hpperm.length_eq; simp at this hlen; omega
      obtain ⟨ihp, ihs⟩ := ih h2 hpheap hl2
      refine ⟨(List.Perm.cons r ihp).trans hpperm, ?_⟩
      simp only [List.reverse_cons]
      unfold SortedBy at ihs ⊢
      rw [List.pairwise_append]
      refine ⟨ihs, by simp, ?_⟩
      intro y hy z hz
      have hzr : z = r := by simpa using hz
      rw [hzr]
      have hy2 : y ∈ h2 := ihp.mem_iff.1 (List.mem_reverse.1 hy)
      have hyin : y ∈ r :: t := hpperm.mem_iff.1 (List.mem_cons_of_mem r hy2)
      have := heap_root_le_mem LR r t hh y hyin
      unfold leBy rcmp at this
      exact this

end TopNHeap

end RlModel
