import RlModel.Model.Csv
/-! Lemmas for C20: the reader automaton inverts the writer. -/
namespace RlModel
namespace Csv
open V19

/-- the options under which the codec is proved to round-trip: any ESCAPE is fine since c296646 -/
structure Opts.Good (o : Opts) : Prop where
  dq : o.delim ≠ o.quote
  dterm : isTerm o.delim = false
  qterm : isTerm o.quote = false

theorem runSt_append (o : Opts) (s : St) (xs ys : Bytes) :
    runSt o s (xs ++ ys) = runSt o (runSt o s xs) ys := by
  simp [runSt, List.foldl_append]

theorem runSt_cons (o : Opts) (s : St) (x : UInt8) (xs : Bytes) :
    runSt o s (x :: xs) = runSt o (step o s x) xs := rfl

theorem runSt_nil (o : Opts) (s : St) : runSt o s [] = s := rfl

theorem not_special {o : Opts} {b : UInt8} (h : isSpecial o b = false) :
    b ≠ o.delim ∧ b ≠ o.quote ∧ isTerm b = false := by
  simp only [isSpecial, Bool.or_eq_false_iff, beq_eq_false_iff_ne, ne_eq] at h
  refine ⟨h.1.1.1.1, h.1.1.1.2, ?_⟩
  simp [isTerm, h.1.1.2, h.1.2]

/-- unquoted body: plain bytes are copied -/
theorem run_inField (o : Opts) : ∀ (f acc : Bytes) (cur : List Bytes) (out : List (List Bytes)),
    needsQuote o f = false →
    runSt o ⟨.inField, acc, cur, out⟩ f = ⟨.inField, f.reverse ++ acc, cur, out⟩
  | [], acc, cur, out, _ => by simp [runSt]
  | b :: f, acc, cur, out, h => by
    simp only [needsQuote, List.any_cons, Bool.or_eq_false_iff] at h
    have hb := not_special h.1
    rw [runSt_cons]
    have : step o ⟨.inField, acc, cur, out⟩ b = ⟨.inField, b :: acc, cur, out⟩ := by
      simp [step, hb.1, hb.2.2]
    rw [this, run_inField o f (b :: acc) cur out (by simpa [needsQuote] using h.2)]
    simp

theorem wesc_cases (o : Opts) :
    (o.wesc = none ∧ (o.escape = none ∨ o.escape = some o.quote)) ∨
    (∃ e, o.wesc = some e ∧ o.escape = some e ∧ e ≠ o.quote) := by
  unfold Opts.wesc
  cases h : o.escape with
  | none => left; simp
  | some e =>
    by_cases he : e = o.quote
    · left; simp [he]
    · right; exact ⟨e, by simp [he], rfl, he⟩

/-- quoted body: doubled quotes collapse / escaped bytes are un-escaped, everything else is copied -/
theorem run_inQuoted (o : Opts) :
    ∀ (f acc : Bytes) (cur : List Bytes) (out : List (List Bytes)),
    runSt o ⟨.inQuoted, acc, cur, out⟩ (quoteBody o f) = ⟨.inQuoted, f.reverse ++ acc, cur, out⟩
  | [], acc, cur, out => by simp [runSt, quoteBody]
  | b :: f, acc, cur, out => by
    have ih := run_inQuoted o f (b :: acc) cur out
    have fin : (⟨.inQuoted, f.reverse ++ b :: acc, cur, out⟩ : St) =
        ⟨.inQuoted, (b :: f).reverse ++ acc, cur, out⟩ := by simp
    unfold quoteBody
    rcases wesc_cases o with ⟨hw, hesc⟩ | ⟨e, hw, hesc, hne⟩
    · simp only [hw]
      by_cases hq : b = o.quote
      · rw [if_pos hq, runSt_cons, runSt_cons]
        have h1 : step o ⟨.inQuoted, acc, cur, out⟩ b = ⟨.quoteInQuoted, acc, cur, out⟩ := by
          simp [step, hq]
        have h2 : step o ⟨.quoteInQuoted, acc, cur, out⟩ b = ⟨.inQuoted, b :: acc, cur, out⟩ := by
          simp [step, hq]
        rw [h1, h2, ih, fin]
      · rw [if_neg hq, runSt_cons]
        have h1 : step o ⟨.inQuoted, acc, cur, out⟩ b = ⟨.inQuoted, b :: acc, cur, out⟩ := by
          rcases hesc with hesc | hesc
          · simp [step, hq, hesc]
          · have : ¬ (o.quote = b) := fun h => hq h.symm
            simp [step, hq, hesc, this]
        rw [h1, ih, fin]
    · simp only [hw]
      have hne' : ¬ (o.quote = e) := fun h => hne h.symm
      by_cases hq : b = o.quote ∨ b = e
      · rw [if_pos hq, runSt_cons, runSt_cons]
        have h1 : step o ⟨.inQuoted, acc, cur, out⟩ e = ⟨.escInQuoted, acc, cur, out⟩ := by
          simp [step, hne, hesc]
        have h2 : step o ⟨.escInQuoted, acc, cur, out⟩ b = ⟨.inQuoted, b :: acc, cur, out⟩ := by
          simp [step]
        rw [h1, h2, ih, fin]
      · rw [if_neg hq, runSt_cons]
        have hq1 : ¬ b = o.quote := fun h => hq (Or.inl h)
        have hq2 : ¬ e = b := fun h => hq (Or.inr h.symm)
        have h1 : step o ⟨.inQuoted, acc, cur, out⟩ b = ⟨.inQuoted, b :: acc, cur, out⟩ := by
          simp [step, hq1, hesc, hq2]
        rw [h1, ih, fin]

/-- the reader state after the text of field `f`, started in `StartField` -/
def afterField (o : Opts) (f : Bytes) (cur : List Bytes) (out : List (List Bytes)) : St :=
  if needsQuote o f then ⟨.quoteInQuoted, f.reverse, cur, out⟩
  else if f.isEmpty then ⟨.startField, [], cur, out⟩
  else ⟨.inField, f.reverse, cur, out⟩

theorem run_field (o : Opts) (g : o.Good) (f : Bytes) (cur : List Bytes) (out : List (List Bytes)) :
    runSt o ⟨.startField, [], cur, out⟩ (writeField o f) = afterField o f cur out := by
  unfold writeField afterField
  by_cases hn : needsQuote o f = true
  · simp only [hn, if_true]
    rw [List.cons_append, runSt_cons]
    have h1 : step o ⟨.startField, [], cur, out⟩ o.quote = ⟨.inQuoted, [], cur, out⟩ := by
      simp [step, stepStartField]
    rw [h1, runSt_append, run_inQuoted o f [] cur out, runSt_cons, runSt_nil]
    simp [step]
  · have hn' : needsQuote o f = false := by simpa using hn
    simp only [hn', Bool.false_eq_true, if_false]
    cases f with
    | nil => simp [runSt]
    | cons b f =>
      simp only [needsQuote, List.any_cons, Bool.or_eq_false_iff] at hn'
      have hb := not_special hn'.1
      rw [runSt_cons]
      have h1 : step o ⟨.startField, [], cur, out⟩ b = ⟨.inField, [b], cur, out⟩ := by
        simp [step, stepStartField, hb.1, hb.2.1, hb.2.2]
      rw [h1, run_inField o f [b] cur out (by simpa [needsQuote] using hn'.2)]
      simp

theorem step_afterField_delim (o : Opts) (g : o.Good) (f : Bytes) (cur : List Bytes)
    (out : List (List Bytes)) :
    step o (afterField o f cur out) o.delim = ⟨.startField, [], f :: cur, out⟩ := by
  have hdq := g.dq
  unfold afterField
  split
  · simp [step, hdq, endField]
  · split
    · rename_i h; simp at h; subst h
      simp [step, stepStartField, hdq, endField]
    · simp [step, endField]

theorem step_afterField_nl (o : Opts) (g : o.Good) (f : Bytes) (cur : List Bytes)
    (out : List (List Bytes)) :
    step o (afterField o f cur out) 10 = ⟨.startRecord, [], [], (f :: cur).reverse :: out⟩ := by
  have hq : (10 : UInt8) ≠ o.quote := by
    intro h; have := g.qterm; rw [← h] at this; simp [isTerm] at this
  have hd : (10 : UInt8) ≠ o.delim := by
    intro h; have := g.dterm; rw [← h] at this; simp [isTerm] at this
  have ht : isTerm 10 = true := by decide
  unfold afterField
  split
  · simp [step, hq, hd, ht, endRecord]
  · split
    · rename_i h; simp at h; subst h
      simp [step, stepStartField, hq, hd, ht, endRecord]
    · simp [step, hd, ht, endRecord]

/-- a whole record, started in `StartField` -/
theorem run_fields (o : Opts) (g : o.Good) : ∀ (fs : List Bytes) (cur : List Bytes)
    (out : List (List Bytes)), fs ≠ [] →
    runSt o ⟨.startField, [], cur, out⟩ (writeFields o fs ++ [10]) =
      ⟨.startRecord, [], [], (fs.reverse ++ cur).reverse :: out⟩
  | [], _, _, h => absurd rfl h
  | [f], cur, out, _ => by
    simp only [writeFields]
    rw [runSt_append, run_field o g, runSt_cons, runSt_nil, step_afterField_nl o g]
    simp
  | f :: f2 :: fs, cur, out, _ => by
    simp only [writeFields]
    rw [List.append_assoc, runSt_append, run_field o g, List.cons_append, runSt_cons,
      step_afterField_delim o g, run_fields o g (f2 :: fs) (f :: cur) out (by simp)]
    simp

theorem step_startRecord_eq (o : Opts) (out : List (List Bytes)) (c : UInt8) (h : isTerm c = false) :
    step o ⟨.startRecord, [], [], out⟩ c = step o ⟨.startField, [], [], out⟩ c := by
  simp only [step, stepStartRecord, h, Bool.false_eq_true, if_false]
  unfold stepStartField endField endRecord
  split
  · rfl
  · split
    · rfl
    · split <;> rfl

theorem head_writeField (o : Opts) (g : o.Good) (f : Bytes) (b : UInt8) (t : Bytes)
    (h : writeField o f = b :: t) : isTerm b = false := by
  unfold writeField at h
  by_cases hn : needsQuote o f = true
  · simp only [hn, if_true, List.cons_append, List.cons.injEq] at h
    rw [← h.1]; exact g.qterm
  · have hn' : needsQuote o f = false := by simpa using hn
    simp only [hn', Bool.false_eq_true, if_false] at h
    subst h
    simp only [needsQuote, List.any_cons, Bool.or_eq_false_iff] at hn'
    exact (not_special hn'.1).2.2

theorem head_writeFields (o : Opts) (g : o.Good) : ∀ (fs : List Bytes) (b : UInt8) (t : Bytes),
    writeFields o fs = b :: t → isTerm b = false
  | [], _, _, h => by simp [writeFields] at h
  | [f], b, t, h => head_writeField o g f b t (by simpa [writeFields] using h)
  | f :: f2 :: fs, b, t, h => by
    simp only [writeFields] at h
    cases hw : writeField o f with
    | nil =>
      rw [hw] at h
      simp only [List.nil_append, List.cons.injEq] at h
      rw [← h.1]; exact g.dterm
    | cons b' t' =>
      rw [hw] at h
      simp only [List.cons_append, List.cons.injEq] at h
      rw [← h.1]; exact head_writeField o g f b' t' hw

theorem writeFields_nil (o : Opts) : ∀ (fs : List Bytes), fs ≠ [] → writeFields o fs = [] → fs = [[]]
  | [], h, _ => absurd rfl h
  | [f], _, h => by
    simp only [writeFields, writeField] at h
    by_cases hn : needsQuote o f = true
    · simp [hn] at h
    · simp [hn] at h; rw [h]
  | f :: f2 :: fs, _, h => by simp [writeFields] at h

/-- one record, started in `StartRecord` -/
theorem run_record (o : Opts) (g : o.Good) (r : List Bytes) (out : List (List Bytes)) (hr : r ≠ []) :
    runSt o ⟨.startRecord, [], [], out⟩ (writeRecord o r) = ⟨.startRecord, [], [], r :: out⟩ := by
  unfold writeRecord
  cases hb : writeFields o r with
  | nil =>
    have := writeFields_nil o r hr hb
    subst this
    have hq1 : isTerm o.quote = false := g.qterm
    have hq : (10 : UInt8) ≠ o.quote := by
      intro h; have := g.qterm; rw [← h] at this; simp [isTerm] at this
    have hd : (10 : UInt8) ≠ o.delim := by
      intro h; have := g.dterm; rw [← h] at this; simp [isTerm] at this
    have ht : isTerm 10 = true := by decide
    simp [runSt, step, stepStartRecord, stepStartField, hq1, hq, hd, ht, endRecord]
  | cons b t =>
    have hterm := head_writeFields o g r b t hb
    simp only [List.isEmpty_cons, Bool.false_eq_true, if_false]
    rw [List.cons_append, runSt_cons, step_startRecord_eq o out b hterm, ← runSt_cons,
      ← List.cons_append, ← hb, run_fields o g r [] out hr]
    simp

theorem run_csv (o : Opts) (g : o.Good) : ∀ (rows : List (List Bytes)) (out : List (List Bytes)),
    (∀ r ∈ rows, r ≠ []) →
    runSt o ⟨.startRecord, [], [], out⟩ (writeCsv o rows) = ⟨.startRecord, [], [], rows.reverse ++ out⟩
  | [], out, _ => by simp [writeCsv, runSt]
  | r :: rows, out, h => by
    simp only [writeCsv]
    rw [runSt_append, run_record o g r out (h r (by simp)),
      run_csv o g rows (r :: out) (fun x hx => h x (by simp [hx]))]
    simp

theorem readRecords_writeCsv (o : Opts) (g : o.Good) (rows : List (List Bytes))
    (h : ∀ r ∈ rows, r ≠ []) : readRecords o (writeCsv o rows) = rows := by
  unfold readRecords St.init
  rw [run_csv o g rows [] h]
  simp [finish]

end Csv
end RlModel
