/-
Kernel invariant of the small-step storage model and its preservation by every kernel
operation (used by Thm/C08 C09 C10).
-/
import RlModel.Model.StoreConc

namespace RlModel
namespace SC

/-! ### changesets -/

theorem applyOp_mem {s s' : Snap} {o : Op} (h : applyOp s o = some s') {key : Key}
    (hk : key ∈ s'.rs) : key ∈ s.rs ∨ key ∈ addKeys [o] := by
  cases o <;> simp only [applyOp] at h
  · cases h; exact Or.inl hk
  · cases h; exact Or.inl hk
  · cases h
    simp only [List.mem_cons] at hk
    rcases hk with rfl | hk
    · right; simp [addKeys]
    · exact Or.inl hk
  · cases h
    exact Or.inl (List.mem_filter.mp hk).1
  · cases h; exact Or.inl hk
  · cases h; exact Or.inl hk

theorem addKeys_cons (o : Op) (r : List Op) : addKeys (o :: r) = addKeys [o] ++ addKeys r := by
  cases o <;> simp [addKeys]

theorem delKeys_cons (o : Op) (r : List Op) : delKeys (o :: r) = delKeys [o] ++ delKeys r := by
  cases o <;> simp [delKeys]

/-- L1: what phase A leaves in the snapshot was there before or was added by the changeset -/
theorem applyOps_mem : ∀ (ops : List Op) {s s' : Snap}, applyOps s ops = some s' →
    ∀ {key : Key}, key ∈ s'.rs → key ∈ s.rs ∨ key ∈ addKeys ops
  | [], s, s', h, key, hk => by
      simp only [applyOps] at h; cases h; exact Or.inl hk
  | o :: r, s, s', h, key, hk => by
      simp only [applyOps] at h
      split at h
      · rename_i s1 h1
        rcases applyOps_mem r h hk with h2 | h2
        · rcases applyOp_mem h1 h2 with h3 | h3
          · exact Or.inl h3
          · right; rw [addKeys_cons]; exact List.mem_append_left _ h3
        · right; rw [addKeys_cons]; exact List.mem_append_right _ h2
      · cases h

/-- L2: a deleted row-set that the changeset does not add is gone afterwards -/
theorem applyOps_del : ∀ (ops : List Op) {s s' : Snap}, applyOps s ops = some s' →
    ∀ {key : Key}, key ∈ delKeys ops → key ∉ addKeys ops → key ∉ s'.rs
  | [], _, _, _, key, hd, _ => by simp [delKeys] at hd
  | o :: r, s, s', h, key, hd, hna => by
      simp only [applyOps] at h
      split at h
      · rename_i s1 h1
        rw [delKeys_cons] at hd
        rw [addKeys_cons] at hna
        have hna1 : key ∉ addKeys [o] := fun x => hna (List.mem_append_left _ x)
        have hna2 : key ∉ addKeys r := fun x => hna (List.mem_append_right _ x)
        rcases List.mem_append.mp hd with hd1 | hd2
        · -- this op deletes key
          cases o <;> simp [delKeys] at hd1
          subst hd1
          simp only [applyOp] at h1
          cases h1
          intro hk
          rcases applyOps_mem r h hk with h2 | h2
          · have := (List.mem_filter.mp h2).2
            simp at this
          · exact hna2 h2
        · exact applyOps_del r h hd2 hna2
      · cases h

theorem poolAdds_keys (ops : List Op) : (poolAdds ops).map (·.1) = addKeys ops := by
  induction ops with
  | nil => rfl
  | cons o r ih => cases o <;> simp only [poolAdds, addKeys, List.map_cons, ih]

theorem addsBeforePanic_keys : ∀ (ops : List Op) (s : Snap) {key : Key},
    key ∈ (addsBeforePanic s ops).map (·.1) → key ∈ addKeys ops
  | [], _, key, h => by simp [addsBeforePanic] at h
  | o :: r, s, key, h => by
      simp only [addsBeforePanic] at h
      split at h
      · rename_i s1 _
        rw [addKeys_cons]
        simp only [List.map_append, List.mem_append] at h
        rcases h with h | h
        · apply List.mem_append_left
          cases o <;> simp [addKeys] at h ⊢
          exact h
        · exact List.mem_append_right _ (addsBeforePanic_keys r s1 h)
      · simp at h

/-! ### reference counts -/

theorem count_map_erase {α β : Type} [BEq α] [LawfulBEq α] [BEq β] [LawfulBEq β] (f : α → β) :
    ∀ (l : List α) (a : α), a ∈ l → ∀ x : β,
      ((l.erase a).map f).count x = (l.map f).count x - (if x == f a then 1 else 0)
  | [], a, h, _ => by cases h
  | b :: l, a, h, x => by
      by_cases hb : b = a
      · subst hb
        simp only [List.erase_cons_head, List.map_cons, List.count_cons]
        by_cases hx : x = f b
        · subst hx; simp
        · have h1 : (f b == x) = false := beq_false_of_ne (fun h => hx h.symm)
          have h2 : (x == f b) = false := beq_false_of_ne hx
          simp [h1, h2]
      · have ha : a ∈ l := by
          rcases List.mem_cons.mp h with h | h
          · exact absurd h.symm hb
          · exact h
        rw [List.erase_cons_tail (by simpa using hb)]
        simp only [List.map_cons, List.count_cons]
        rw [count_map_erase f l a ha x]
        by_cases hx : x = f a
        · subst hx
          have hpos : 0 < (l.map f).count (f a) := List.count_pos_iff.mpr (List.mem_map_of_mem ha)
          simp only [beq_self_eq_true, if_true]
          split <;> omega
        · have h2 : (x == f a) = false := beq_false_of_ne hx
          simp [h2]

theorem minPin_some {rc : Nat → Nat} : ∀ {n m : Nat}, minPin rc n = some m → 0 < rc m ∧ m ≤ n
  | 0, m, h => by
      simp only [minPin] at h
      split at h
      · cases h; exact ⟨by assumption, Nat.le_refl _⟩
      · cases h
  | n + 1, m, h => by
      simp only [minPin] at h
      split at h
      · rename_i m' h'
        cases h
        have := minPin_some h'
        exact ⟨this.1, Nat.le_succ_of_le this.2⟩
      · split at h
        · cases h; exact ⟨by assumption, Nat.le_refl _⟩
        · cases h

theorem minPin_le {rc : Nat → Nat} : ∀ {n e : Nat}, e ≤ n → 0 < rc e →
    ∃ m, minPin rc n = some m ∧ m ≤ e
  | 0, e, hle, hp => by
      have : e = 0 := by omega
      subst this
      exact ⟨0, by simp [minPin, hp], Nat.le_refl _⟩
  | n + 1, e, hle, hp => by
      simp only [minPin]
      by_cases he : e ≤ n
      · obtain ⟨m, hm, hme⟩ := minPin_le he hp
        exact ⟨m, by simp [hm], hme⟩
      · have : e = n + 1 := by omega
        subst this
        cases hmp : minPin rc n with
        | some m =>
            have := (minPin_some hmp).2
            exact ⟨m, by simp, by omega⟩
        | none => exact ⟨n + 1, by simp [hp], Nat.le_refl _⟩

theorem mem_takenUpTo {pending : Nat → List Key} : ∀ {v : Nat} {p : Nat × Key},
    p ∈ takenUpTo pending v ↔ p.1 ≤ v ∧ p.2 ∈ pending p.1
  | 0, p => by
      simp only [takenUpTo, List.mem_map]
      constructor
      · rintro ⟨key, hk, rfl⟩; exact ⟨Nat.le_refl _, hk⟩
      · rintro ⟨h1, h2⟩
        have : p.1 = 0 := by omega
        refine ⟨p.2, ?_, ?_⟩
        · rw [this] at h2; exact h2
        · rw [← this]
  | v + 1, p => by
      simp only [takenUpTo, List.mem_append, List.mem_map]
      rw [mem_takenUpTo (v := v)]
      constructor
      · rintro (⟨h1, h2⟩ | ⟨key, hk, rfl⟩)
        · exact ⟨by omega, h2⟩
        · exact ⟨Nat.le_refl _, hk⟩
      · rintro ⟨h1, h2⟩
        by_cases h : p.1 ≤ v
        · exact Or.inl ⟨h, h2⟩
        · have : p.1 = v + 1 := by omega
          right
          refine ⟨p.2, ?_, ?_⟩
          · rw [this] at h2; exact h2
          · rw [← this]

/-! ### the invariant -/

structure KInv (k : K) : Prop where
  /-- reference counts = live pins -/
  refcnt_ok : ∀ e, k.refcnt e = (k.pins.map (·.2)).count e
  pins_le : ∀ p ∈ k.pins, p.2 ≤ k.epoch
  /-- every row-set of a pinned snapshot (and of the current one) is in the pool and on disk -/
  present : ∀ e, e ≤ k.epoch → (0 < k.refcnt e ∨ e = k.epoch) →
      ∀ key ∈ (k.status e).rs, key ∈ poolKeys k ∧ key ∈ k.disk
  /-- a deferred deletion recorded at epoch `ed` is absent from every snapshot from `ed` on -/
  pend_dead : ∀ ed key, key ∈ k.pending ed →
      ed ≤ k.epoch ∧ ∀ e, ed ≤ e → e ≤ k.epoch → key ∉ (k.status e).rs
  uq_dead : ∀ q ∈ k.uq, q.2.1 ≤ k.epoch ∧ ∀ e, q.2.1 ≤ e → e ≤ k.epoch → q.2.2 ∉ (k.status e).rs
  /-- what a vacuum pass is about to unlink was deleted no later than every live pin -/
  uq_min : ∀ q ∈ k.uq, ∀ p ∈ k.pins, q.2.1 ≤ p.2
  known_status : ∀ e, e ≤ k.epoch → ∀ key ∈ (k.status e).rs, key.2 < k.nextRid
  known_pool : ∀ key ∈ poolKeys k, key.2 < k.nextRid
  known_pend : ∀ ed key, key ∈ k.pending ed → key.2 < k.nextRid
  known_uq : ∀ q ∈ k.uq, q.2.2.2 < k.nextRid
  known_resv : ∀ r ∈ k.resv, r.2.2 < k.nextRid
  resv_nodup : (k.resv.map (·.2)).Nodup
  resv_status : ∀ r ∈ k.resv, ∀ e, e ≤ k.epoch → r.2 ∉ (k.status e).rs
  resv_pend : ∀ r ∈ k.resv, ∀ ed, r.2 ∉ k.pending ed
  resv_uq : ∀ r ∈ k.resv, ∀ q ∈ k.uq, q.2.2 ≠ r.2
  resv_pool : ∀ r ∈ k.resv, r.2 ∉ poolKeys k
  resv_disk : ∀ r ∈ k.resv, r.2 ∈ k.disk
  /-- between phase A and phase B -/
  infl_ok : ∀ h f, k.infl = some (h, f) →
      f.base = k.epoch
      ∧ (∀ key ∈ f.snap.rs, key ∈ poolKeys k ∧ key ∈ k.disk ∧ key.2 < k.nextRid)
      ∧ (∀ ed key, key ∈ k.pending ed → key ∉ f.snap.rs)
      ∧ (∀ q ∈ k.uq, q.2.2 ∉ f.snap.rs)
      ∧ (∀ key ∈ f.dels, key ∉ f.snap.rs ∧ key.2 < k.nextRid)
      ∧ (∀ r ∈ k.resv, r.2 ∉ f.snap.rs ∧ r.2 ∉ f.dels)

/-- tries every field of `h` as it is (fields the operation does not touch) -/
macro "same_fields" h:ident : tactic =>
  `(tactic| first
    | exact ($h).refcnt_ok | exact ($h).pins_le | exact ($h).present | exact ($h).pend_dead
    | exact ($h).uq_dead | exact ($h).uq_min | exact ($h).known_status | exact ($h).known_pool
    | exact ($h).known_pend | exact ($h).known_uq | exact ($h).known_resv | exact ($h).resv_nodup
    | exact ($h).resv_status | exact ($h).resv_pend | exact ($h).resv_uq | exact ($h).resv_pool
    | exact ($h).resv_disk | exact ($h).infl_ok | skip)

theorem pinned_of_refcnt {k : K} (h : KInv k) {e : Nat} (hp : 0 < k.refcnt e) :
    ∃ p ∈ k.pins, p.2 = e := by
  rw [h.refcnt_ok e] at hp
  have := List.count_pos_iff.mp hp
  obtain ⟨p, hp1, hp2⟩ := List.mem_map.mp this
  exact ⟨p, hp1, hp2⟩

theorem refcnt_of_pinned {k : K} (h : KInv k) {p : Tid × Nat} (hp : p ∈ k.pins) :
    0 < k.refcnt p.2 := by
  rw [h.refcnt_ok]
  exact List.count_pos_iff.mpr (List.mem_map_of_mem hp)

theorem kinv_init : KInv ({} : K) where
  refcnt_ok := fun _ => rfl
  pins_le := fun _ hp => nomatch hp
  present := fun _ _ _ _ hk => nomatch hk
  pend_dead := fun _ _ hk => nomatch hk
  uq_dead := fun _ hq => nomatch hq
  uq_min := fun _ hq => nomatch hq
  known_status := fun _ _ _ hk => nomatch hk
  known_pool := fun _ hk => nomatch hk
  known_pend := fun _ _ hk => nomatch hk
  known_uq := fun _ hq => nomatch hq
  known_resv := fun _ hr => nomatch hr
  resv_nodup := List.nodup_nil
  resv_status := fun _ hr => nomatch hr
  resv_pend := fun _ hr => nomatch hr
  resv_uq := fun _ hr => nomatch hr
  resv_pool := fun _ hr => nomatch hr
  resv_disk := fun _ hr => nomatch hr
  infl_ok := fun _ _ hf => nomatch hf

theorem kinv_pin {k : K} (h : KInv k) (th : Tid) : KInv (kPin k th) := by
  constructor
  all_goals same_fields h
  case refcnt_ok =>
    intro e
    simp only [kPin, List.map_cons, List.count_cons]
    by_cases he : e = k.epoch
    · rw [if_pos he, h.refcnt_ok e]
      subst he
      simp
    · rw [if_neg he, h.refcnt_ok e]
      have : (k.epoch == e) = false := beq_false_of_ne (fun x => he x.symm)
      simp [this]
  case pins_le =>
    intro p hp
    simp only [kPin, List.mem_cons] at hp
    rcases hp with rfl | hp
    · exact Nat.le_refl _
    · exact h.pins_le p hp
  case present =>
    intro e he hor
    rcases hor with hor | hor
    · simp only [kPin] at hor
      by_cases hee : e = k.epoch
      · exact h.present e he (Or.inr hee)
      · rw [if_neg hee] at hor
        exact h.present e he (Or.inl hor)
    · exact h.present e he (Or.inr hor)
  case uq_min =>
    intro q hq p hp
    simp only [kPin, List.mem_cons] at hp
    rcases hp with rfl | hp
    · exact (h.uq_dead q hq).1
    · exact h.uq_min q hq p hp

theorem kinv_unpin {k : K} (h : KInv k) (th : Tid) (e : Nat) (hm : (th, e) ∈ k.pins) :
    KInv (kUnpin k th e) := by
  constructor
  all_goals same_fields h
  case refcnt_ok =>
    intro x
    simp only [kUnpin]
    rw [count_map_erase (·.2) k.pins (th, e) hm x, ← h.refcnt_ok x]
    by_cases hx : x = e
    · subst hx; simp
    · have h2 : (x == e) = false := beq_false_of_ne hx
      simp [hx, h2]
  case pins_le =>
    intro p hp
    exact h.pins_le p (List.mem_of_mem_erase hp)
  case present =>
    intro e' he hor
    apply h.present e' he
    rcases hor with hor | hor
    · left
      simp only [kUnpin] at hor
      split at hor <;> omega
    · exact Or.inr hor
  case uq_min =>
    intro q hq p hp
    exact h.uq_min q hq p (List.mem_of_mem_erase hp)

theorem kinv_allocDv {k : K} (h : KInv k) (n : Nat) : KInv (kAllocDv k n) := by
  constructor
  all_goals same_fields h

theorem kinv_abandon {k : K} (h : KInv k) (th : Tid) : KInv (kAbandon k th) := by
  constructor
  all_goals same_fields h
  case uq_dead => intro q hq; exact h.uq_dead q (List.mem_filter.mp hq).1
  case uq_min => intro q hq; exact h.uq_min q (List.mem_filter.mp hq).1
  case known_uq => intro q hq; exact h.known_uq q (List.mem_filter.mp hq).1
  case resv_uq => intro r hr q hq; exact h.resv_uq r hr q (List.mem_filter.mp hq).1
  case infl_ok =>
    intro hh f hf
    obtain ⟨a, b, c, d, e, g⟩ := h.infl_ok hh f hf
    exact ⟨a, b, c, fun q hq => d q (List.mem_filter.mp hq).1, e, g⟩

theorem kinv_reserve {k : K} (h : KInv k) (th : Tid) (t : Nat) : KInv (kReserve k th t) := by
  have lt1 : ∀ {n : Nat}, n < k.nextRid → n < k.nextRid + 1 := fun hh => Nat.lt_succ_of_lt hh
  constructor
  all_goals same_fields h
  case present =>
    intro e he hor key hk
    obtain ⟨a, b⟩ := h.present e he hor key hk
    exact ⟨a, List.mem_cons_of_mem _ b⟩
  case known_status => intro e he key hk; exact lt1 (h.known_status e he key hk)
  case known_pool => intro key hk; exact lt1 (h.known_pool key hk)
  case known_pend => intro ed key hk; exact lt1 (h.known_pend ed key hk)
  case known_uq => intro q hq; exact lt1 (h.known_uq q hq)
  case known_resv =>
    intro r hr
    simp only [kReserve, List.mem_cons] at hr
    rcases hr with rfl | hr
    · exact Nat.lt_succ_self _
    · exact lt1 (h.known_resv r hr)
  case resv_nodup =>
    simp only [kReserve, List.map_cons]
    refine List.nodup_cons.mpr ⟨?_, h.resv_nodup⟩
    intro hm
    obtain ⟨r, hr, hre⟩ := List.mem_map.mp hm
    have := h.known_resv r hr
    rw [hre] at this
    exact Nat.lt_irrefl _ this
  case resv_status =>
    intro r hr e he hk
    simp only [kReserve, List.mem_cons] at hr
    rcases hr with rfl | hr
    · exact Nat.lt_irrefl _ (h.known_status e he _ hk)
    · exact h.resv_status r hr e he hk
  case resv_pend =>
    intro r hr ed hk
    simp only [kReserve, List.mem_cons] at hr
    rcases hr with rfl | hr
    · exact Nat.lt_irrefl _ (h.known_pend ed _ hk)
    · exact h.resv_pend r hr ed hk
  case resv_uq =>
    intro r hr q hq heq
    simp only [kReserve, List.mem_cons] at hr
    rcases hr with rfl | hr
    · have := h.known_uq q hq
      rw [heq] at this
      exact Nat.lt_irrefl _ this
    · exact h.resv_uq r hr q hq heq
  case resv_pool =>
    intro r hr hk
    simp only [kReserve, List.mem_cons] at hr
    rcases hr with rfl | hr
    · exact Nat.lt_irrefl _ (h.known_pool _ hk)
    · exact h.resv_pool r hr hk
  case resv_disk =>
    intro r hr
    simp only [kReserve, List.mem_cons] at hr
    rcases hr with rfl | hr
    · exact List.mem_cons_self
    · exact List.mem_cons_of_mem _ (h.resv_disk r hr)
  case infl_ok =>
    intro hh f hf
    obtain ⟨a, b, c, d, e, g⟩ := h.infl_ok hh f hf
    refine ⟨a, ?_, c, d, ?_, ?_⟩
    · intro key hk
      obtain ⟨b1, b2, b3⟩ := b key hk
      exact ⟨b1, List.mem_cons_of_mem _ b2, lt1 b3⟩
    · intro key hk
      exact ⟨(e key hk).1, lt1 (e key hk).2⟩
    · intro r hr
      simp only [kReserve, List.mem_cons] at hr
      rcases hr with rfl | hr
      · constructor
        · intro hk; exact Nat.lt_irrefl _ (b _ hk).2.2
        · intro hk; exact Nat.lt_irrefl _ (e _ hk).2
      · exact g r hr

theorem opsOk_add {k : K} {th : Tid} {ops : List Op} (h : opsOk k th ops = true) {key : Key}
    (hk : key ∈ addKeys ops) : (th, key) ∈ k.resv := by
  simp only [opsOk, Bool.and_eq_true, List.all_eq_true] at h
  have := h.1.1 key hk
  simpa using this

theorem opsOk_del {k : K} {th : Tid} {ops : List Op} (h : opsOk k th ops = true) {key : Key}
    (hk : key ∈ delKeys ops) : key.2 < k.nextRid ∧ ∀ r ∈ k.resv, r.2 ≠ key := by
  simp only [opsOk, Bool.and_eq_true, List.all_eq_true] at h
  have := h.1.2 key hk
  simp only [Bool.and_eq_true, decide_eq_true_eq, Bool.not_eq_true', List.contains_eq_mem,
    decide_eq_false_iff_not, List.mem_map, not_exists, not_and] at this
  exact ⟨this.1, fun r hr => this.2 r hr⟩

theorem opsOk_dv {k : K} {th : Tid} {ops : List Op} (h : opsOk k th ops = true) {key : Key}
    (hk : key ∈ dvKeys ops) : key.2 < k.nextRid ∧ ∀ r ∈ k.resv, r.2 ≠ key := by
  simp only [opsOk, Bool.and_eq_true, List.all_eq_true] at h
  have := h.2 key hk
  simp only [Bool.and_eq_true, decide_eq_true_eq, Bool.not_eq_true', List.contains_eq_mem,
    decide_eq_false_iff_not, List.mem_map, not_exists, not_and] at this
  exact ⟨this.1, fun r hr => this.2 r hr⟩

theorem mem_resv_filter {k : K} {ks : List Key} {r : Tid × Key}
    (hr : r ∈ k.resv.filter (fun r => !ks.contains r.2)) : r ∈ k.resv ∧ r.2 ∉ ks := by
  have := List.mem_filter.mp hr
  refine ⟨this.1, ?_⟩
  simpa using this.2

theorem kinv_commitA {k k' : K} (h : KInv k) (th : Tid) (ops : List Op)
    (hc : kCommitA k th ops = some k') : KInv k' := by
  simp only [kCommitA] at hc
  split at hc
  · cases hc
  split at hc
  · cases hc
  rename_i hinfl hok
  have hok : opsOk k th ops = true := by simpa using hok
  split at hc
  · cases hc
  rename_i snap' hsnap
  cases hc
  have hpk : ∀ key, key ∈ poolKeys k → key ∈ (poolAdds ops ++ k.pool).map (·.1) := by
    intro key hk
    simp only [List.map_append, List.mem_append]
    exact Or.inr hk
  constructor
  all_goals same_fields h
  case present =>
    intro e he hor key hk
    obtain ⟨a, b⟩ := h.present e he hor key hk
    exact ⟨hpk key a, b⟩
  case known_pool =>
    intro key hk
    simp only [poolKeys, List.map_append, List.mem_append, poolAdds_keys] at hk
    rcases hk with hk | hk
    · exact h.known_resv _ (opsOk_add hok hk)
    · exact h.known_pool key hk
  case known_resv => intro r hr; exact h.known_resv r (mem_resv_filter hr).1
  case resv_nodup =>
    exact List.Nodup.sublist (List.Sublist.map _ List.filter_sublist) h.resv_nodup
  case resv_status => intro r hr; exact h.resv_status r (mem_resv_filter hr).1
  case resv_pend => intro r hr; exact h.resv_pend r (mem_resv_filter hr).1
  case resv_uq => intro r hr; exact h.resv_uq r (mem_resv_filter hr).1
  case resv_pool =>
    intro r hr hk
    obtain ⟨hr1, hr2⟩ := mem_resv_filter hr
    simp only [poolKeys, List.map_append, List.mem_append, poolAdds_keys] at hk
    rcases hk with hk | hk
    · exact hr2 hk
    · exact h.resv_pool r hr1 hk
  case resv_disk => intro r hr; exact h.resv_disk r (mem_resv_filter hr).1
  case infl_ok =>
    intro hh f hf
    cases hf
    refine ⟨rfl, ?_, ?_, ?_, ?_, ?_⟩
    · intro key hk
      rcases applyOps_mem ops hsnap hk with h1 | h1
      · obtain ⟨a, b⟩ := h.present k.epoch (Nat.le_refl _) (Or.inr rfl) key h1
        exact ⟨hpk key a, b, h.known_status k.epoch (Nat.le_refl _) key h1⟩
      · have hr := opsOk_add hok h1
        refine ⟨?_, h.resv_disk _ hr, h.known_resv _ hr⟩
        simp only [poolKeys, List.map_append, List.mem_append, poolAdds_keys]
        exact Or.inl h1
    · intro ed key hk hm
      rcases applyOps_mem ops hsnap hm with h1 | h1
      · exact (h.pend_dead ed key hk).2 k.epoch (h.pend_dead ed key hk).1 (Nat.le_refl _) h1
      · exact h.resv_pend _ (opsOk_add hok h1) ed hk
    · intro q hq hm
      rcases applyOps_mem ops hsnap hm with h1 | h1
      · exact (h.uq_dead q hq).2 k.epoch (h.uq_dead q hq).1 (Nat.le_refl _) h1
      · exact h.resv_uq _ (opsOk_add hok h1) q hq rfl
    · intro key hk
      refine ⟨?_, (opsOk_del hok hk).1⟩
      apply applyOps_del ops hsnap hk
      intro ha
      exact (opsOk_del hok hk).2 _ (opsOk_add hok ha) rfl
    · intro r hr
      obtain ⟨hr1, hr2⟩ := mem_resv_filter hr
      constructor
      · intro hm
        rcases applyOps_mem ops hsnap hm with h1 | h1
        · exact h.resv_status r hr1 k.epoch (Nat.le_refl _) h1
        · exact hr2 h1
      · intro hd
        exact (opsOk_del hok hd).2 r hr1 rfl

theorem kinv_commitAPanic {k k' : K} (h : KInv k) (th : Tid) (ops : List Op)
    (hc : kCommitAPanic k th ops = some k') : KInv k' := by
  simp only [kCommitAPanic] at hc
  split at hc
  · cases hc
  split at hc
  · cases hc
  rename_i hinfl hok
  have hok : opsOk k th ops = true := by simpa using hok
  have hnone : k.infl = none := by
    cases hi : k.infl with
    | none => rfl
    | some x => simp [hi] at hinfl
  split at hc
  · cases hc
  cases hc
  constructor
  all_goals same_fields h
  case present =>
    intro e he hor key hk
    obtain ⟨a, b⟩ := h.present e he hor key hk
    refine ⟨?_, b⟩
    simp only [poolKeys, List.map_append, List.mem_append]
    exact Or.inr a
  case known_pool =>
    intro key hk
    simp only [poolKeys, List.map_append, List.mem_append] at hk
    rcases hk with hk | hk
    · exact h.known_resv _ (opsOk_add hok (addsBeforePanic_keys ops _ hk))
    · exact h.known_pool key hk
  case known_resv => intro r hr; exact h.known_resv r (mem_resv_filter hr).1
  case resv_nodup =>
    exact List.Nodup.sublist (List.Sublist.map _ List.filter_sublist) h.resv_nodup
  case resv_status => intro r hr; exact h.resv_status r (mem_resv_filter hr).1
  case resv_pend => intro r hr; exact h.resv_pend r (mem_resv_filter hr).1
  case resv_uq => intro r hr; exact h.resv_uq r (mem_resv_filter hr).1
  case resv_pool =>
    intro r hr hk
    obtain ⟨hr1, hr2⟩ := mem_resv_filter hr
    simp only [poolKeys, List.map_append, List.mem_append] at hk
    rcases hk with hk | hk
    · exact hr2 hk
    · exact h.resv_pool r hr1 hk
  case resv_disk => intro r hr; exact h.resv_disk r (mem_resv_filter hr).1
  case infl_ok =>
    intro hh f hf
    simp only [hnone] at hf
    cases hf

theorem kinv_commitB {k k' : K} (h : KInv k) (th : Tid) (hc : kCommitB k th = some k') :
    KInv k' := by
  simp only [kCommitB] at hc
  split at hc
  · cases hc
  rename_i hh f hinfl
  split at hc
  case isFalse => cases hc
  cases hc
  obtain ⟨ibase, isnap, ipend, iuq, idels, iresv⟩ := h.infl_ok hh f hinfl
  constructor
  all_goals same_fields h
  case pins_le => intro p hp; exact Nat.le_succ_of_le (h.pins_le p hp)
  case present =>
    intro e he hor key hk
    by_cases hee : e = k.epoch + 1
    · simp only [hee, if_true] at hk
      exact ⟨(isnap key hk).1, (isnap key hk).2.1⟩
    · simp only [hee, if_false] at hk
      have he' : e ≤ k.epoch := by
        have : e ≤ k.epoch + 1 := he
        omega
      rcases hor with hor | hor
      · exact h.present e he' (Or.inl hor) key hk
      · exact absurd hor hee
  case pend_dead =>
    intro ed key hk
    by_cases hed : ed = k.epoch + 1
    · simp only [hed, if_true] at hk
      refine ⟨by simp [hed], ?_⟩
      intro e he1 he2 hm
      have hee : e = k.epoch + 1 := by
        have : e ≤ k.epoch + 1 := he2
        omega
      simp only [hee, if_true] at hm
      exact (idels key hk).1 hm
    · simp only [hed, if_false] at hk
      obtain ⟨a, b⟩ := h.pend_dead ed key hk
      refine ⟨Nat.le_succ_of_le a, ?_⟩
      intro e he1 he2 hm
      by_cases hee : e = k.epoch + 1
      · simp only [hee, if_true] at hm
        exact ipend ed key hk hm
      · simp only [hee, if_false] at hm
        have : e ≤ k.epoch + 1 := he2
        exact b e he1 (by omega) hm
  case uq_dead =>
    intro q hq
    obtain ⟨a, b⟩ := h.uq_dead q hq
    refine ⟨Nat.le_succ_of_le a, ?_⟩
    intro e he1 he2 hm
    by_cases hee : e = k.epoch + 1
    · simp only [hee, if_true] at hm
      exact iuq q hq hm
    · simp only [hee, if_false] at hm
      have : e ≤ k.epoch + 1 := he2
      exact b e he1 (by omega) hm
  case known_status =>
    intro e he key hk
    by_cases hee : e = k.epoch + 1
    · simp only [hee, if_true] at hk
      exact (isnap key hk).2.2
    · simp only [hee, if_false] at hk
      have : e ≤ k.epoch + 1 := he
      exact h.known_status e (by omega) key hk
  case known_pend =>
    intro ed key hk
    by_cases hed : ed = k.epoch + 1
    · simp only [hed, if_true] at hk
      exact (idels key hk).2
    · simp only [hed, if_false] at hk
      exact h.known_pend ed key hk
  case resv_status =>
    intro r hr e he hm
    by_cases hee : e = k.epoch + 1
    · simp only [hee, if_true] at hm
      exact (iresv r hr).1 hm
    · simp only [hee, if_false] at hm
      have : e ≤ k.epoch + 1 := he
      exact h.resv_status r hr e (by omega) hm
  case resv_pend =>
    intro r hr ed hm
    by_cases hed : ed = k.epoch + 1
    · simp only [hed, if_true] at hm
      exact (iresv r hr).2 hm
    · simp only [hed, if_false] at hm
      exact h.resv_pend r hr ed hm
  case infl_ok =>
    intro hh' f' hf
    cases hf

theorem vacuumEpoch_le {k : K} : vacuumEpoch k ≤ k.epoch := by
  simp only [vacuumEpoch]
  cases hm : minPin k.refcnt k.epoch with
  | none => simp
  | some m => simpa using (minPin_some hm).2

theorem vacuumEpoch_le_pin {k : K} (h : KInv k) {p : Tid × Nat} (hp : p ∈ k.pins) :
    vacuumEpoch k ≤ p.2 := by
  obtain ⟨m, hm, hme⟩ := minPin_le (h.pins_le p hp) (refcnt_of_pinned h hp)
  simp [vacuumEpoch, hm, hme]

theorem kinv_find {k : K} (h : KInv k) (th : Tid) : KInv (kFind k th) := by
  have hv := vacuumEpoch_le (k := k)
  have taken_dead : ∀ {p : Nat × Key}, p ∈ takenUpTo k.pending (vacuumEpoch k) →
      p.1 ≤ vacuumEpoch k ∧ p.2 ∈ k.pending p.1 := fun hp => mem_takenUpTo.mp hp
  have sub_pend : ∀ {ed : Nat} {key : Key},
      key ∈ (if ed ≤ vacuumEpoch k then [] else k.pending ed) → key ∈ k.pending ed := by
    intro ed key hk
    split at hk
    · cases hk
    · exact hk
  have mem_uq : ∀ {q : Tid × Nat × Key},
      q ∈ (takenUpTo k.pending (vacuumEpoch k)).map (fun p => (th, p.1, p.2)) ++ k.uq →
      (q.2.1 ≤ vacuumEpoch k ∧ q.2.2 ∈ k.pending q.2.1) ∨ q ∈ k.uq := by
    intro q hq
    rcases List.mem_append.mp hq with hq | hq
    · obtain ⟨p, hp, rfl⟩ := List.mem_map.mp hq
      exact Or.inl (taken_dead hp)
    · exact Or.inr hq
  have pool_keep : ∀ {key : Key}, key ∈ poolKeys k →
      (∀ ed, ed ≤ vacuumEpoch k → key ∉ k.pending ed) → key ∈ poolKeys (kFind k th) := by
    intro key hk hno
    simp only [poolKeys, List.mem_map] at hk
    obtain ⟨pe, hpe, rfl⟩ := hk
    simp only [poolKeys, kFind, List.mem_map]
    refine ⟨pe, List.mem_filter.mpr ⟨hpe, ?_⟩, rfl⟩
    simp only [Bool.not_eq_true', List.contains_eq_mem, decide_eq_false_iff_not, List.mem_map,
      not_exists, not_and]
    intro p hp heq
    have := taken_dead hp
    rw [heq] at this
    exact hno p.1 this.1 this.2
  have pool_sub : ∀ {key : Key}, key ∈ poolKeys (kFind k th) → key ∈ poolKeys k := by
    intro key hk
    simp only [poolKeys, kFind, List.mem_map] at hk
    obtain ⟨pe, hpe, rfl⟩ := hk
    exact List.mem_map_of_mem (List.mem_filter.mp hpe).1
  constructor
  all_goals same_fields h
  case present =>
    intro e he hor key hk
    obtain ⟨a, b⟩ := h.present e he hor key hk
    refine ⟨pool_keep a ?_, b⟩
    intro ed hed hpd
    have hede : ed ≤ e := by
      rcases hor with hor | hor
      · obtain ⟨p, hp, rfl⟩ := pinned_of_refcnt h hor
        exact Nat.le_trans hed (vacuumEpoch_le_pin h hp)
      · have : e = k.epoch := hor
        omega
    exact (h.pend_dead ed key hpd).2 e hede he hk
  case pend_dead => intro ed key hk; exact h.pend_dead ed key (sub_pend hk)
  case uq_dead =>
    intro q hq
    rcases mem_uq hq with hq | hq
    · exact h.pend_dead _ _ hq.2
    · exact h.uq_dead q hq
  case uq_min =>
    intro q hq p hp
    rcases mem_uq hq with hq | hq
    · exact Nat.le_trans hq.1 (vacuumEpoch_le_pin h hp)
    · exact h.uq_min q hq p hp
  case known_pool => intro key hk; exact h.known_pool key (pool_sub hk)
  case known_pend => intro ed key hk; exact h.known_pend ed key (sub_pend hk)
  case known_uq =>
    intro q hq
    rcases mem_uq hq with hq | hq
    · exact h.known_pend _ _ hq.2
    · exact h.known_uq q hq
  case resv_pend => intro r hr ed hk; exact h.resv_pend r hr ed (sub_pend hk)
  case resv_uq =>
    intro r hr q hq heq
    rcases mem_uq hq with hq | hq
    · rw [heq] at hq
      exact h.resv_pend r hr _ hq.2
    · exact h.resv_uq r hr q hq heq
  case resv_pool => intro r hr hk; exact h.resv_pool r hr (pool_sub hk)
  case infl_ok =>
    intro hh f hf
    obtain ⟨a, b, c, d, e, g⟩ := h.infl_ok hh f hf
    refine ⟨a, ?_, ?_, ?_, e, g⟩
    · intro key hk
      obtain ⟨b1, b2, b3⟩ := b key hk
      exact ⟨pool_keep b1 (fun ed _ hpd => c ed key hpd hk), b2, b3⟩
    · intro ed key hk; exact c ed key (sub_pend hk)
    · intro q hq
      rcases mem_uq hq with hq | hq
      · exact c _ _ hq.2
      · exact d q hq

theorem kinv_unlink {k : K} (h : KInv k) (th : Tid) (ed : Nat) (key : Key)
    (hm : (th, ed, key) ∈ k.uq) : KInv (kUnlink k th ed key) := by
  have disk_keep : ∀ {x : Key}, x ∈ k.disk → x ≠ key → x ∈ k.disk.filter (fun y => y != key) := by
    intro x hx hne
    exact List.mem_filter.mpr ⟨hx, by simpa using hne⟩
  constructor
  all_goals same_fields h
  case present =>
    intro e he hor x hx
    obtain ⟨a, b⟩ := h.present e he hor x hx
    refine ⟨a, disk_keep b ?_⟩
    rintro rfl
    have hede : ed ≤ e := by
      rcases hor with hor | hor
      · obtain ⟨p, hp, rfl⟩ := pinned_of_refcnt h hor
        exact h.uq_min _ hm p hp
      · have h1 := (h.uq_dead _ hm).1
        have : e = k.epoch := hor
        simp only at h1
        omega
    exact (h.uq_dead _ hm).2 e hede he hx
  case uq_dead => intro q hq; exact h.uq_dead q (List.mem_of_mem_erase hq)
  case uq_min => intro q hq; exact h.uq_min q (List.mem_of_mem_erase hq)
  case known_uq => intro q hq; exact h.known_uq q (List.mem_of_mem_erase hq)
  case resv_uq => intro r hr q hq; exact h.resv_uq r hr q (List.mem_of_mem_erase hq)
  case resv_disk =>
    intro r hr
    exact disk_keep (h.resv_disk r hr) (fun heq => h.resv_uq r hr _ hm heq.symm)
  case infl_ok =>
    intro hh f hf
    obtain ⟨a, b, c, d, e, g⟩ := h.infl_ok hh f hf
    refine ⟨a, ?_, c, fun q hq => d q (List.mem_of_mem_erase hq), e, g⟩
    intro x hx
    obtain ⟨b1, b2, b3⟩ := b x hx
    refine ⟨b1, disk_keep b2 ?_, b3⟩
    rintro rfl
    exact d _ hm hx

end SC
end RlModel
