import RlModel.Lemmas.Exec
/-! The hash join executors of Model/Exec.lean (a key containing NULL never matches) related to the
structural machinery of Lemmas/Exec.lean: the same probe on the NULL-free right rows plus the padded
NULL-key right rows; the canonical bag `joinBag` both the hash and the merge join are shown to return. -/
namespace RlModel
open List

theorem hasNull_of_beq {a b : List Val} (h : (a == b) = true) : hasNullKey a = hasNullKey b := by
  rw [eq_of_beq h]

theorem and3_not_true_left (x y : Option Bool) (h : holds x = false) : holds (and3 x y) = false := by
  cases x with
  | none => cases y with
    | none => rfl
    | some b => cases b <;> rfl
  | some a => cases a with
    | true => simp [holds] at h
    | false => cases y with
      | none => rfl
      | some b => cases b <;> rfl

theorem and3_not_true_right (x y : Option Bool) (h : holds y = false) : holds (and3 x y) = false := by
  cases y with
  | none => cases x with
    | none => rfl
    | some b => cases b <;> rfl
  | some a => cases a with
    | true => simp [holds] at h
    | false => cases x with
      | none => rfl
      | some b => cases b <;> rfl

/-- a NULL in either key vector: the SQL comparison of the vectors is not TRUE (any lengths). -/
theorem holds_keysEq3_null (a b : List Val) (h : hasNullKey a = true ∨ hasNullKey b = true) :
    holds (keysEq3 a b) = false := by
  induction a generalizing b with
  | nil =>
    cases b with
    | nil => simp [hasNullKey] at h
    | cons y ys => rfl
  | cons x xs ih =>
    cases b with
    | nil => rfl
    | cons y ys =>
      unfold keysEq3
      simp only [hasNullKey, List.any_cons, Bool.or_eq_true] at h
      by_cases hxy : x.isNull = true ∨ y.isNull = true
      · apply and3_not_true_left
        have : sqlEq x y = none := by
          cases x <;> cases y <;> simp_all [Val.isNull, sqlEq, sqlCmp]
        rw [this]; rfl
      · apply and3_not_true_right
        apply ih
        rcases h with (h1 | h1) | (h1 | h1)
        · exact absurd (Or.inl h1) hxy
        · exact Or.inl (by simpa [hasNullKey] using h1)
        · exact absurd (Or.inr h1) hxy
        · exact Or.inr (by simpa [hasNullKey] using h1)

/-- `KeysComparable` only has to be checked on NULL-free keys. -/
theorem keysComparable_of_null_free (lk rk : List (Row → Val)) (L R : List Row)
    (h : ∀ l ∈ L, ∀ r ∈ R, hasNullKey (keyOf lk l) = false → hasNullKey (keyOf rk r) = false →
      (keyOf lk l == keyOf rk r) = holds (keysEq3 (keyOf lk l) (keyOf rk r))) :
    KeysComparable lk rk L R := by
  intro l hl r hr
  unfold jkEq
  cases h1 : hasNullKey (keyOf lk l)
  · cases h2 : hasNullKey (keyOf rk r)
    · simpa using h l hl r hr h1 h2
    · rw [holds_keysEq3_null _ _ (Or.inr h2)]; simp
  · rw [holds_keysEq3_null _ _ (Or.inl h1)]; simp

/-! ### the probe with the NULL check = the structural probe on the NULL-free right rows -/

def nnKey (ks : List (Row → Val)) (r : Row) : Bool := !hasNullKey (keyOf ks r)

theorem probeN_fst (pr : Bool) (rk : List (Row → Val)) (nL : Nat) (R : List Row) (m : List HEntry) :
    (hjProbe pr rk nL R m).1 = (hjProbeS pr rk nL (R.filter (nnKey rk)) m).1 := by
  induction R generalizing m with
  | nil => rfl
  | cons r rs ih =>
    unfold hjProbe
    by_cases hn : hasNullKey (keyOf rk r)
    · have hf : (r :: rs).filter (nnKey rk) = rs.filter (nnKey rk) := by simp [nnKey, hn]
      simp only [hn, if_true, hf]
      exact ih m
    · have hf : (r :: rs).filter (nnKey rk) = r :: rs.filter (nnKey rk) := by simp [nnKey, hn]
      simp only [hn, Bool.false_eq_true, if_false, hf]
      rw [hjProbeS]
      dsimp only
      cases hmLookup (keyOf rk r) m with
      | none => simp only; exact ih m
      | some e => simp only; exact ih _

theorem probeN_snd (pr : Bool) (rk : List (Row → Val)) (nL : Nat) (R : List Row) (m : List HEntry) :
    ((hjProbe pr rk nL R m).2).Perm
      ((hjProbeS pr rk nL (R.filter (nnKey rk)) m).2 ++
        (if pr then (R.filter (fun r => !nnKey rk r)).map (nulls nL ++ ·) else [])) := by
  induction R generalizing m with
  | nil => cases pr <;> simp [hjProbe, hjProbeS]
  | cons r rs ih =>
    unfold hjProbe
    by_cases hn : hasNullKey (keyOf rk r)
    · have hf : (r :: rs).filter (nnKey rk) = rs.filter (nnKey rk) := by simp [nnKey, hn]
      have hf2 : (r :: rs).filter (fun r => !nnKey rk r) = r :: rs.filter (fun r => !nnKey rk r) := by simp [nnKey, hn]
      simp only [hn, if_true, hf, hf2]
      refine (Perm.append_left _ (ih m)).trans ?_
      cases pr
      · simp
      · simp only [if_true, List.map_cons]
        exact (perm_append_comm_assoc _ _ _).trans (Perm.append_left _ (by simp))
    · have hf : (r :: rs).filter (nnKey rk) = r :: rs.filter (nnKey rk) := by simp [nnKey, hn]
      have hf2 : (r :: rs).filter (fun r => !nnKey rk r) = rs.filter (fun r => !nnKey rk r) := by simp [nnKey, hn]
      simp only [hn, Bool.false_eq_true, if_false, hf, hf2]
      rw [hjProbeS]
      dsimp only
      cases hmLookup (keyOf rk r) m with
      | none =>
        simp only [List.append_assoc]
        exact Perm.append_left _ (ih m)
      | some e =>
        simp only [List.append_assoc]
        exact Perm.append_left _ (ih _)

/-! ### the canonical result bag -/

/-- the executors' match predicate on rows. -/
def jk (lk rk : List (Row → Val)) (l r : Row) : Bool :=
  !hasNullKey (keyOf lk l) && keyOf lk l == keyOf rk r

/-- matching pairs, padded unmatched left rows (`pl`), padded unmatched right rows (`pr`). -/
def joinBag (pl pr : Bool) (lk rk : List (Row → Val)) (nL nR : Nat) (L R : List Row) : List Row :=
  L.flatMap (fun l => (R.filter (jk lk rk l)).map (l ++ ·)) ++
  (if pl then (L.filter (fun l => (R.filter (jk lk rk l)).isEmpty)).map (· ++ nulls nR) else []) ++
  (if pr then (R.filter (fun r => (L.filter (fun l => jk lk rk l r)).isEmpty)).map (nulls nL ++ ·) else [])

theorem jk_eq_nn_and (lk rk : List (Row → Val)) (l r : Row) :
    jk lk rk l r = (nnKey rk r && keyOf lk l == keyOf rk r) := by
  unfold jk nnKey
  cases h : keyOf lk l == keyOf rk r
  · simp
  · rw [hasNull_of_beq h]

theorem jk_false_of_null_right (lk rk : List (Row → Val)) (l r : Row) (h : nnKey rk r = false) :
    jk lk rk l r = false := by
  rw [jk_eq_nn_and, h]; rfl

theorem jk_false_of_null_left (lk rk : List (Row → Val)) (l r : Row) (h : nnKey lk l = false) :
    jk lk rk l r = false := by
  unfold jk; unfold nnKey at h; simp_all

theorem flatMap_filter_of_nil {α β} (p : α → Bool) (F : α → List β) (L : List α)
    (h : ∀ a ∈ L, p a = false → F a = []) : (L.filter p).flatMap F = L.flatMap F := by
  induction L with
  | nil => rfl
  | cons a as ih =>
    simp only [List.filter_cons, List.flatMap_cons]
    cases hp : p a
    · simp only [Bool.false_eq_true, if_false]
      rw [h a List.mem_cons_self hp, List.nil_append]
      exact ih (fun x hx => h x (List.mem_cons_of_mem _ hx))
    · simp only [if_true, List.flatMap_cons]
      rw [ih (fun x hx => h x (List.mem_cons_of_mem _ hx))]

/-- the structural hash join, all four types (this was `hashjoin_perm` before the fix). -/
theorem hashjoinS_perm (t : JoinType) (lk rk : List (Row → Val)) (nL nR : Nat) (Ls Rs : List Chunk) :
    (flat (hashJoinS t lk rk nL nR Ls Rs)).Perm
      ((flat Ls).flatMap (fun l => ((flat Rs).filter (fun r => keyOf lk l == keyOf rk r)).map (l ++ ·)) ++
       (if (t == .leftOuter || t == .fullOuter) then
          ((flat Ls).filter (fun l => ((flat Rs).filter (fun r => keyOf lk l == keyOf rk r)).isEmpty)).map (· ++ nulls nR) else []) ++
       (if (t == .rightOuter || t == .fullOuter) then
          ((flat Rs).filter (fun r => ((flat Ls).filter (fun l => keyOf lk l == keyOf rk r)).isEmpty)).map (nulls nL ++ ·) else [])) := by
  unfold hashJoinS
  generalize hpl : (t == .leftOuter || t == .fullOuter) = pl
  generalize hpr : (t == .rightOuter || t == .fullOuter) = pr
  simp only []
  rw [flat_emit]
  have h1 := probe_out_perm pr lk rk nL (flat Ls) (flat Rs)
  have h2 : (if pl then
        (((hjProbeS pr rk nL (flat Rs) (hmBuild lk (flat Ls))).1).filter (fun e => !e.matched)).flatMap
          (fun e => e.rows.map (· ++ nulls nR)) else []).Perm
      (if pl then ((flat Ls).filter (fun l => ((flat Rs).filter (fun r => keyOf lk l == keyOf rk r)).isEmpty)).map (· ++ nulls nR) else []) := by
    cases pl
    · simp
    · simp only [if_true]; exact hashjoin_rest_perm pr lk rk nL nR (flat Ls) (flat Rs)
  refine (Perm.append h1 h2).trans ?_
  simp only [List.append_assoc]
  exact Perm.append_left _ perm_append_comm

/-- what the hash join returns (all four types, NO hypothesis): the canonical bag. -/
theorem hashjoin_perm (t : JoinType) (lk rk : List (Row → Val)) (nL nR : Nat) (Ls Rs : List Chunk) :
    (flat (hashJoin t lk rk nL nR Ls Rs)).Perm
      (joinBag (t == .leftOuter || t == .fullOuter) (t == .rightOuter || t == .fullOuter) lk rk nL nR (flat Ls) (flat Rs)) := by
  unfold hashJoin
  generalize hpl : (t == .leftOuter || t == .fullOuter) = pl
  generalize hpr : (t == .rightOuter || t == .fullOuter) = pr
  simp only []
  rw [flat_emit]
  generalize hLb : (if pl = true then flat Ls else (flat Ls).filter (fun l => !hasNullKey (keyOf lk l))) = Lb
  -- relate to the structural join on (Lb, NULL-free right rows)
  have hS := hashjoinS_perm t lk rk nL nR [Lb] [(flat Rs).filter (nnKey rk)]
  rw [hpl, hpr] at hS
  have hflat : ∀ X : List Row, flat [X] = X := by intro X; simp [flat]
  simp only [hflat] at hS
  have hleft : (flat (hashJoinS t lk rk nL nR [Lb] [(flat Rs).filter (nnKey rk)]) ++
      (if pr then ((flat Rs).filter (fun r => !nnKey rk r)).map (nulls nL ++ ·) else [])).Perm
      ((hjProbe pr rk nL (flat Rs) (hmBuild lk Lb)).2 ++
        (if pl then (((hjProbe pr rk nL (flat Rs) (hmBuild lk Lb)).1).filter (fun e => !e.matched)).flatMap
          (fun e => e.rows.map (· ++ nulls nR)) else [])) := by
    unfold hashJoinS
    rw [hpl, hpr]
    simp only [hflat]
    rw [flat_emit, probeN_fst]
    refine Perm.trans ?_ (Perm.append_right _ (probeN_snd pr rk nL (flat Rs) (hmBuild lk Lb)).symm)
    simp only [List.append_assoc]
    exact Perm.append_left _ perm_append_comm
  refine hleft.symm.trans ?_
  refine (Perm.append_right _ hS).trans ?_
  -- now pure list reasoning over Lb, Rn
  unfold joinBag
  have hRn : ∀ l, ((flat Rs).filter (nnKey rk)).filter (fun r => keyOf lk l == keyOf rk r) = (flat Rs).filter (jk lk rk l) := by
    intro l
    rw [List.filter_filter]
    apply List.filter_congr
    intro r _
    rw [jk_eq_nn_and, Bool.and_comm]
  have hpart1 : Lb.flatMap (fun l => (((flat Rs).filter (nnKey rk)).filter (fun r => keyOf lk l == keyOf rk r)).map (l ++ ·)) =
      (flat Ls).flatMap (fun l => ((flat Rs).filter (jk lk rk l)).map (l ++ ·)) := by
    simp only [hRn]
    rw [← hLb]
    cases pl
    · simp only [Bool.false_eq_true, if_false]
      apply flatMap_filter_of_nil
      intro l _ hnl
      have : (flat Rs).filter (jk lk rk l) = [] := by
        rw [List.filter_eq_nil_iff]; intro r _
        rw [jk_false_of_null_left lk rk l r (by simpa [nnKey] using hnl)]; simp
      rw [this]; rfl
    · rfl
  have hpart2 : (if pl then (Lb.filter (fun l => (((flat Rs).filter (nnKey rk)).filter (fun r => keyOf lk l == keyOf rk r)).isEmpty)).map (· ++ nulls nR) else []) =
      (if pl then ((flat Ls).filter (fun l => ((flat Rs).filter (jk lk rk l)).isEmpty)).map (· ++ nulls nR) else []) := by
    cases pl
    · rfl
    · simp only [if_true, hRn]; rw [← hLb]; rfl
  have hQ : ∀ r, nnKey rk r = true → (Lb.filter (fun l => keyOf lk l == keyOf rk r)).isEmpty =
      ((flat Ls).filter (fun l => jk lk rk l r)).isEmpty := by
    intro r hr
    have hjk : ∀ l, jk lk rk l r = (nnKey lk l && keyOf lk l == keyOf rk r) := by intro l; rfl
    rw [← hLb]
    cases pl
    · simp only [Bool.false_eq_true, if_false, List.filter_filter]
      congr 1
      apply List.filter_congr
      intro l _
      rw [hjk, Bool.and_comm]; rfl
    · simp only [if_true]
      congr 1
      apply List.filter_congr
      intro l _
      rw [jk_eq_nn_and, hr]; rfl
  have hpart3 : ((if pr then (((flat Rs).filter (nnKey rk)).filter (fun r => (Lb.filter (fun l => keyOf lk l == keyOf rk r)).isEmpty)).map (nulls nL ++ ·) else []) ++
      (if pr then ((flat Rs).filter (fun r => !nnKey rk r)).map (nulls nL ++ ·) else [])).Perm
      (if pr then ((flat Rs).filter (fun r => ((flat Ls).filter (fun l => jk lk rk l r)).isEmpty)).map (nulls nL ++ ·) else []) := by
    cases pr
    · simp
    · simp only [if_true]
      rw [← List.map_append]
      apply Perm.map
      have hsplit := filter_append_perm (nnKey rk) ((flat Rs).filter (fun r => ((flat Ls).filter (fun l => jk lk rk l r)).isEmpty))
      refine Perm.trans (Perm.of_eq ?_) hsplit
      congr 1
      · rw [List.filter_filter, List.filter_filter]
        apply List.filter_congr
        intro r _
        cases hr : nnKey rk r
        · simp
        · simp [hQ r hr]
      · rw [List.filter_filter]
        apply List.filter_congr
        intro r _
        cases hr : nnKey rk r
        · have : ((flat Ls).filter (fun l => jk lk rk l r)).isEmpty = true := by
            rw [List.isEmpty_iff, List.filter_eq_nil_iff]
            intro l _; rw [jk_false_of_null_right lk rk l r hr]; simp
          simp [this]
        · simp
  rw [hpart1, hpart2]
  simp only [List.append_assoc]
  exact Perm.append_left _ (Perm.append_left _ hpart3)

/-! ### the canonical bag is the spec's join under KeysComparable -/

theorem jk_eq_spec (lk rk : List (Row → Val)) (nL : Nat) (L R : List Row)
    (hlen : ∀ l ∈ L, l.length = nL) (hk : KeysComparable lk rk L R) (l : Row) (hl : l ∈ L) (r : Row) (hr : r ∈ R) :
    jk lk rk l r = holds (equiOn nL lk rk (fun _ => some true) (l ++ r)) := by
  rw [equiOn_split nL lk rk l r (hlen l hl), ← hk l hl r hr]
  unfold jk jkEq
  cases h : keyOf lk l == keyOf rk r
  · simp
  · rw [← hasNull_of_beq h]; simp

theorem joinBag_eq_spec (t : JoinType) (ht : t = .inner ∨ t = .leftOuter ∨ t = .rightOuter ∨ t = .fullOuter)
    (lk rk : List (Row → Val)) (nL nR : Nat) (L R : List Row)
    (hlen : ∀ l ∈ L, l.length = nL) (hk : KeysComparable lk rk L R) :
    (joinBag (t == .leftOuter || t == .fullOuter) (t == .rightOuter || t == .fullOuter) lk rk nL nR L R).Perm
      (joinRel t (equiOn nL lk rk (fun _ => some true)) nL nR L R) := by
  have hm : ∀ l ∈ L, R.filter (jk lk rk l) = matchesOf (equiOn nL lk rk (fun _ => some true)) l R := by
    intro l hl
    unfold matchesOf
    apply List.filter_congr
    intro r hr
    exact jk_eq_spec lk rk nL L R hlen hk l hl r hr
  have hinner : L.flatMap (fun l => (R.filter (jk lk rk l)).map (l ++ ·)) =
      innerJoin (equiOn nL lk rk (fun _ => some true)) L R := by
    unfold innerJoin
    apply flatMap_congr'
    intro l hl
    rw [hm l hl]
  have hlun : (L.filter (fun l => (R.filter (jk lk rk l)).isEmpty)).map (· ++ nulls nR) =
      leftUnmatched (equiOn nL lk rk (fun _ => some true)) nR L R := by
    unfold leftUnmatched
    congr 1
    apply List.filter_congr
    intro l hl
    rw [hm l hl]
  have hrun : (R.filter (fun r => (L.filter (fun l => jk lk rk l r)).isEmpty)).map (nulls nL ++ ·) =
      rightUnmatched (equiOn nL lk rk (fun _ => some true)) nL L R := by
    unfold rightUnmatched matchedBy
    congr 1
    apply List.filter_congr
    intro r hr
    rw [filter_isEmpty_eq_not_any]
    congr 1
    apply any_congr'
    intro l hl
    exact jk_eq_spec lk rk nL L R hlen hk l hl r hr
  unfold joinBag
  rw [hinner, hlun, hrun]
  rcases ht with h | h | h | h <;> subst h
  · simp only [show (JoinType.inner == JoinType.leftOuter || JoinType.inner == JoinType.fullOuter) = false from rfl,
      show (JoinType.inner == JoinType.rightOuter || JoinType.inner == JoinType.fullOuter) = false from rfl,
      Bool.false_eq_true, if_false, List.append_nil, joinRel]
    exact Perm.refl _
  · simp only [show (JoinType.leftOuter == JoinType.leftOuter || JoinType.leftOuter == JoinType.fullOuter) = true from rfl,
      show (JoinType.leftOuter == JoinType.rightOuter || JoinType.leftOuter == JoinType.fullOuter) = false from rfl,
      if_true, Bool.false_eq_true, if_false, List.append_nil, joinRel]
    exact (leftJoin_perm_decomp _ nR L R).symm
  · simp only [show (JoinType.rightOuter == JoinType.leftOuter || JoinType.rightOuter == JoinType.fullOuter) = false from rfl,
      show (JoinType.rightOuter == JoinType.rightOuter || JoinType.rightOuter == JoinType.fullOuter) = true from rfl,
      Bool.false_eq_true, if_false, if_true, List.append_nil, joinRel, rightJoin]
    exact Perm.refl _
  · simp only [show (JoinType.fullOuter == JoinType.leftOuter || JoinType.fullOuter == JoinType.fullOuter) = true from rfl,
      show (JoinType.fullOuter == JoinType.rightOuter || JoinType.fullOuter == JoinType.fullOuter) = true from rfl,
      if_true, joinRel, fullJoin]
    exact Perm.append_right _ (leftJoin_perm_decomp _ nR L R).symm

/-- hash join = spec, all four types, under KeysComparable. -/
theorem hash_eq_spec_partial (t : JoinType) (ht : t = .inner ∨ t = .leftOuter ∨ t = .rightOuter ∨ t = .fullOuter)
    (lk rk : List (Row → Val)) (nL nR : Nat) (Ls Rs : List Chunk)
    (hlen : ∀ l ∈ flat Ls, l.length = nL) (hk : KeysComparable lk rk (flat Ls) (flat Rs)) :
    (flat (hashJoin t lk rk nL nR Ls Rs)).Perm
      (joinRel t (equiOn nL lk rk (fun _ => some true)) nL nR (flat Ls) (flat Rs)) :=
  (hashjoin_perm t lk rk nL nR Ls Rs).trans (joinBag_eq_spec t ht lk rk nL nR _ _ hlen hk)

/-! ### hash semi / anti join -/

theorem contains_filter_nn (ks : List (List Val)) (k : List Val) (hk : hasNullKey k = false) :
    (ks.filter (fun k => !hasNullKey k)).contains k = ks.contains k := by
  induction ks with
  | nil => rfl
  | cons x xs ih =>
    rw [List.filter_cons]
    cases hx : hasNullKey x
    · simp only [Bool.not_false, if_true]
      rw [List.contains_cons, List.contains_cons, ih]
    · have hne : (k == x) = false := by
        cases h : k == x
        · rfl
        · rw [hasNull_of_beq h, hx] at hk; cases hk
      simp only [Bool.not_true, Bool.false_eq_true, if_false]
      rw [List.contains_cons, hne, Bool.false_or, ih]

theorem hash_semi_key_N (lk rk : List (Row → Val)) (nL : Nat) (L R : List Row)
    (hlen : ∀ l ∈ L, l.length = nL) (hk : KeysComparable lk rk L R) (l : Row) (hl : l ∈ L) :
    (!hasNullKey (keyOf lk l) && ((R.map (keyOf rk)).filter (fun k => !hasNullKey k)).contains (keyOf lk l)) =
      !(matchesOf (equiOn nL lk rk (fun _ => some true)) l R).isEmpty := by
  rw [matches_isEmpty, Bool.not_not]
  have : R.any (fun r => holds (equiOn nL lk rk (fun _ => some true) (l ++ r))) = R.any (jk lk rk l) := by
    apply any_congr'
    intro r hr
    exact (jk_eq_spec lk rk nL L R hlen hk l hl r hr).symm
  rw [this]
  cases hn : hasNullKey (keyOf lk l)
  · simp only [Bool.not_false, Bool.true_and]
    rw [contains_filter_nn _ _ hn, contains_map_key]
    apply any_congr'
    intro r _
    simp [jk, hn]
  · simp only [Bool.not_true, Bool.false_and]
    symm
    rw [List.any_eq_false]
    intro r _
    simp [jk, hn]

theorem hash_semi_eq_spec_N (anti : Bool) (lk rk : List (Row → Val)) (nL : Nat) (Ls Rs : List Chunk)
    (hlen : ∀ l ∈ flat Ls, l.length = nL) (hk : KeysComparable lk rk (flat Ls) (flat Rs)) :
    flat (hashSemiJoin anti lk rk Ls Rs) =
      (flat Ls).filter (fun l => (!(matchesOf (equiOn nL lk rk (fun _ => some true)) l (flat Rs)).isEmpty) != anti) := by
  unfold hashSemiJoin
  rw [flat_map_filter]
  apply List.filter_congr
  intro l hl
  rw [hash_semi_key_N lk rk nL _ _ hlen hk l hl]

end RlModel
