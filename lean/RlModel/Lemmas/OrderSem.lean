import RlModel.Gen.OrderArms
import RlModel.Lemmas.Scan
/-! Lemmas about the order behaviour of the operators of `Model/OrderSem.lean` (C12). -/
namespace RlModel

theorem leBy_refl_keyCmp (ks : List OrdKey) (a : Row) : leBy (keyCmp ks) a a := by
  have L := keyCmp_laws ks
  unfold leBy
  have := L.swap a a
  cases h : keyCmp ks a a <;> simp_all [Ordering.swap]

/-- two rows that agree on the key columns compare alike -/
theorem keyCmp_congr_left (ks : List OrdKey) (a a' x : Row) (h : ∀ k ∈ ks, Row.at a k.col = Row.at a' k.col) :
    keyCmp ks a x = keyCmp ks a' x := by
  induction ks with
  | nil => rfl
  | cons k ks ih =>
    simp only [keyCmp]
    rw [h k (by simp), ih (fun k' hk' => h k' (by simp [hk']))]

theorem keyCmp_congr_right (ks : List OrdKey) (a a' x : Row) (h : ∀ k ∈ ks, Row.at a k.col = Row.at a' k.col) :
    keyCmp ks x a = keyCmp ks x a' := by
  induction ks with
  | nil => rfl
  | cons k ks ih =>
    simp only [keyCmp]
    rw [h k (by simp), ih (fun k' hk' => h k' (by simp [hk']))]

/-- `y` carries the key columns of `x` -/
def SameKeyCols (ks : List OrdKey) (y x : Row) : Prop := ∀ k ∈ ks, Row.at y k.col = Row.at x k.col

theorem le_of_sameKeyCols (ks : List OrdKey) {x x' y y' : Row} (hy : SameKeyCols ks y x) (hy' : SameKeyCols ks y' x')
    (h : leBy (keyCmp ks) x x') : leBy (keyCmp ks) y y' := by
  unfold leBy at *
  rw [keyCmp_congr_left ks y x y' hy, keyCmp_congr_right ks y' x' x hy']
  exact h

/-- Replacing every row of a sorted list by a block of rows carrying its key columns keeps it sorted. -/
theorem sorted_flatMap_blocks (ks : List OrdKey) (L : List Row) (f : Row → List Row)
    (hL : SortedBy (keyCmp ks) L) (hf : ∀ l ∈ L, ∀ y ∈ f l, SameKeyCols ks y l) :
    SortedBy (keyCmp ks) (L.flatMap f) := by
  unfold SortedBy at *
  rw [List.pairwise_flatMap]
  refine ⟨?_, ?_⟩
  · intro l hl
    -- inside a block all rows carry l's keys
    have : ∀ y ∈ f l, ∀ y' ∈ f l, leBy (keyCmp ks) y y' := by
      intro y hy y' hy'
      exact le_of_sameKeyCols ks (hf l hl y hy) (hf l hl y' hy') (leBy_refl_keyCmp ks l)
    exact List.pairwise_of_forall_mem_list this
  · have hmem : L.Pairwise (fun a b => a ∈ L ∧ b ∈ L ∧ leBy (keyCmp ks) a b) := by
      have h1 : L.Pairwise (fun a b => a ∈ L ∧ b ∈ L) := List.pairwise_of_forall_mem_list (fun _ ha _ hb => ⟨ha, hb⟩)
      exact (h1.and hL).imp (fun ⟨⟨ha, hb⟩, hab⟩ => ⟨ha, hb, hab⟩)
    exact hmem.imp (fun ⟨ha, hb, hab⟩ y hy y' hy' => le_of_sameKeyCols ks (hf _ ha y hy) (hf _ hb y' hy') hab)

theorem runHeads_sublist {α : Type} (eqv : α → α → Bool) (p : Option α) (l : List α) : (runHeads eqv p l).Sublist l := by
  induction l generalizing p with
  | nil => cases p <;> simp [runHeads]
  | cons a t ih =>
    cases p with
    | none => simp only [runHeads]; exact (ih _).cons_cons a
    | some q =>
      simp only [runHeads]
      split
      · exact (ih _).cons a
      · exact (ih _).cons_cons a

theorem runs_flatten {α : Type} (eqv : α → α → Bool) (l : List α) : (runs eqv l).flatten = l := by
  induction l with
  | nil => rfl
  | cons a t ih =>
    simp only [runs]
    split
    next h => rw [h] at ih; simp at ih; simp [← ih]
    next gs h => rw [h] at ih; simp at ih; simp [← ih]
    next b g gs h =>
      rw [h] at ih
      split <;> simp [← ih]

/-- all members of a run of an equivalence relation are equivalent -/
theorem runs_equiv {α : Type} (eqv : α → α → Bool) (hsymm : ∀ a b, eqv a b = true → eqv b a = true)
    (htrans : ∀ a b c, eqv a b = true → eqv b c = true → eqv a c = true) (hrefl : ∀ a, eqv a a = true) (l : List α) :
    ∀ g ∈ runs eqv l, ∀ a ∈ g, ∀ b ∈ g, eqv a b = true := by
  induction l with
  | nil => intro g hg; simp [runs] at hg
  | cons x t ih =>
    intro g hg
    simp only [runs] at hg
    split at hg
    next h => simp at hg; subst hg; intro a ha b hb; simp at ha hb; subst ha hb; exact hrefl _
    next gs h =>
      rcases List.mem_cons.1 hg with rfl | hg'
      · intro a ha b hb; simp at ha hb; subst ha hb; exact hrefl _
      · exact ih g (by rw [h]; simp [hg'])
    next y g0 gs h =>
      split at hg
      next hxy =>
        rcases List.mem_cons.1 hg with rfl | hg'
        · have hrun := ih (y :: g0) (by rw [h]; simp)
          have hx : ∀ b ∈ y :: g0, eqv x b = true := fun b hb => htrans x y b hxy (hrun y (by simp) b hb)
          intro a ha b hb
          rcases List.mem_cons.1 ha with hax | ha' <;> rcases List.mem_cons.1 hb with hbx | hb'
          · rw [hax, hbx]; exact hrefl _
          · rw [hax]; exact hx b hb'
          · rw [hbx]; exact hsymm _ _ (hx a ha')
          · exact hrun a ha' b hb'
        · exact ih g (by rw [h]; simp [hg'])
      next =>
        rcases List.mem_cons.1 hg with rfl | hg'
        · intro a ha b hb; simp at ha hb; subst ha hb; exact hrefl _
        · exact ih g (by rw [h]; exact hg')

theorem sameKeys_equiv (cols : List Nat) :
    (∀ a b, sameKeys cols a b = true → sameKeys cols b a = true) ∧
    (∀ a b c, sameKeys cols a b = true → sameKeys cols b c = true → sameKeys cols a c = true) ∧
    (∀ a, sameKeys cols a a = true) := by
  refine ⟨?_, ?_, ?_⟩
  · intro a b h
    simp only [sameKeys, List.all_eq_true, decide_eq_true_eq] at *
    exact fun c hc => (h c hc).symm
  · intro a b c h1 h2
    simp only [sameKeys, List.all_eq_true, decide_eq_true_eq] at *
    exact fun x hx => (h1 x hx).trans (h2 x hx)
  · intro a
    simp [sameKeys]

theorem valCmp_self (v : Val) : Val.cmp v v = .eq := by
  have := Val.cmp_laws.swap v v
  cases h : Val.cmp v v <;> simp_all [Ordering.swap]

/-- rows that agree on the join key columns are equal under the join keys' (ascending) order -/
theorem keyCmp_eq_of_sameKeys (cols : List Nat) (a b : Row) (h : sameKeys cols a b = true) :
    keyCmp (ascKeys cols) a b = .eq := by
  induction cols with
  | nil => rfl
  | cons c cs ih =>
    simp only [sameKeys, List.all_cons, Bool.and_eq_true, decide_eq_true_eq] at h
    simp only [ascKeys, List.map_cons, keyCmp]
    rw [h.1, valCmp_self]
    exact ih (by simpa [sameKeys] using h.2)

end RlModel
