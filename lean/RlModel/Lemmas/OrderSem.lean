import RlModel.Gen.OrderArms
import RlModel.Lemmas.Scan
/-! Lemmas about the order behaviour of the operators of `Model/OrderSem.lean` (C12). -/
namespace RlModel

theorem leBy_refl_keyCmp (ks : List OrdKey) (a : Row) : leBy (keyCmp ks) a a := by
  have L := keyCmp_laws ks
  unfold leBy
  have := L.swap a a
  cases h : keyCmp ks a a <;> simp_all [Ordering.swap]

/-- two rows that agree on the key columns compare alike -/
theorem keyCmp_congr_left (ks : List OrdKey) (a a' x : Row) (h : ∀ k ∈ ks, Row.at a k.col = Row.at a' k.col) :
    keyCmp ks a x = keyCmp ks a' x := by
  induction ks with
  | nil => rfl
  | cons k ks ih =>
    simp only [keyCmp]
    rw [h k (by simp), ih (fun k' hk' => h k' (by simp [hk']))]

theorem keyCmp_congr_right (ks : List OrdKey) (a a' x : Row) (h : ∀ k ∈ ks, Row.at a k.col = Row.at a' k.col) :
    keyCmp ks x a = keyCmp ks x a' := by
  induction ks with
  | nil => rfl
  | cons k ks ih =>
    simp only [keyCmp]
    rw [h k (by simp), ih (fun k' hk' => h k' (by simp [hk']))]

/-- `y` carries the key columns of `x` -/
def SameKeyCols (ks : List OrdKey) (y x : Row) : Prop := ∀ k ∈ ks, Row.at y k.col = Row.at x k.col

theorem le_of_sameKeyCols (ks : List OrdKey) {x x' y y' : Row} (hy : SameKeyCols ks y x) (hy' : SameKeyCols ks y' x')
    (h : leBy (keyCmp ks) x x') : leBy (keyCmp ks) y y' := by
  unfold leBy at *
  rw [keyCmp_congr_left ks y x y' hy, keyCmp_congr_right ks y' x' x hy']
  exact h

/-- Replacing every row of a sorted list by a block of rows carrying its key columns keeps it sorted. -/
theorem sorted_flatMap_blocks (ks : List OrdKey) (L : List Row) (f : Row → List Row)
    (hL : SortedBy (keyCmp ks) L) (hf : ∀ l ∈ L, ∀ y ∈ f l, SameKeyCols ks y l) :
    SortedBy (keyCmp ks) (L.flatMap f) := by
  unfold SortedBy at *
  rw [List.pairwise_flatMap]
  refine ⟨?_, ?_⟩
  · intro l hl
    -- inside a block all rows carry l's keys
    have : ∀ y ∈ f l, ∀ y' ∈ f l, leBy (keyCmp ks) y y' := by
      intro y hy y' hy'
      exact le_of_sameKeyCols ks (hf l hl y hy) (hf l hl y' hy') (leBy_refl_keyCmp ks l)
    exact List.pairwise_of_forall_mem_list this
  · have hmem : L.Pairwise (fun a b => a ∈ L ∧ b ∈ L ∧ leBy (keyCmp ks) a b) := by
      have h1 : L.Pairwise (fun a b => a ∈ L ∧ b ∈ L) := List.pairwise_of_forall_mem_list (fun _ ha _ hb => ⟨ha, hb⟩)
      exact (h1.and hL).imp (fun ⟨⟨ha, hb⟩, hab⟩ => ⟨ha, hb, hab⟩)
    exact hmem.imp (fun ⟨ha, hb, hab⟩ y hy y' hy' => le_of_sameKeyCols ks (hf _ ha y hy) (hf _ hb y' hy') hab)

theorem runHeads_sublist {α : Type} (eqv : α → α → Bool) (p : Option α) (l : List α) : (runHeads eqv p l).Sublist l := by
  induction l generalizing p with
  | nil => cases p <;> simp [runHeads]
  | cons a t ih =>
    cases p with
    | none => simp only [runHeads]; exact (ih _).cons_cons a
    | some q =>
      simp only [runHeads]
      split
      · exact (ih _).cons a
      · exact (ih _).cons_cons a

theorem runs_flatten {α : Type} (eqv : α → α → Bool) (l : List α) : (runs eqv l).flatten = l := by
  induction l with
  | nil => rfl
  | cons a t ih =>
    simp only [runs]
    split
    next h => rw [h] at ih; simp at ih; simp [← ih]
    next gs h => rw [h] at ih; simp at ih; simp [← ih]
    next b g gs h =>
      rw [h] at ih
      split <;> simp [← ih]

end RlModel
