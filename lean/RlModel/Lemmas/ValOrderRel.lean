import RlModel.Lemmas.ValOrder
import RlModel.Model.Rel
/-! `orderCmp ks` (ORDER BY / top-N comparator of Model/Rel.lean: lexicographic over the keys,
each with its descending flag) is a lawful comparison, for every key list.  The two last theorems
have exactly the shape of the fields of `CmpLaws` in Thm/C02.lean. -/
namespace RlModel
open LawfulCmp

theorem orderCmp_nil : orderCmp [] = fun _ _ => Ordering.eq := by
  funext r s; rfl

theorem orderCmp_cons (k : OrderKey) (ks : List OrderKey) :
    orderCmp (k :: ks) =
      lexCmp2 (dirCmp k.desc (fun r s => Val.cmp (k.key r) (k.key s))) (orderCmp ks) := by
  funext r s
  simp only [orderCmp, List.map_cons, cmpKeyVals, lexCmp2, dirCmp]
  cases Val.cmp (k.key r) (k.key s) <;> cases k.desc <;> rfl

theorem constEq_lawful {α : Type} : LawfulCmp (fun (_ _ : α) => Ordering.eq) :=
  ⟨fun _ _ => rfl, fun _ _ _ h _ => Ordering.noConfusion h, fun _ _ _ _ => rfl⟩

theorem orderCmp_lawful : ∀ ks : List OrderKey, LawfulCmp (orderCmp ks)
  | [] => by rw [orderCmp_nil]; exact constEq_lawful
  | k :: ks => by
    rw [orderCmp_cons]
    exact ((Val.cmp_lawful.on k.key).dir k.desc).lex (orderCmp_lawful ks)

/-- `CmpLaws.total` of Thm/C02 for `orderCmp ks` -/
theorem orderCmp_total (ks : List OrderKey) :
    ∀ a b, orderCmp ks a b ≠ .lt → orderCmp ks b a ≠ .gt :=
  (orderCmp_lawful ks).not_lt_not_gt

/-- `CmpLaws.trans` of Thm/C02 for `orderCmp ks` -/
theorem orderCmp_trans (ks : List OrderKey) :
    ∀ a b c, orderCmp ks a b ≠ .gt → orderCmp ks b c ≠ .gt → orderCmp ks a c ≠ .gt :=
  fun _ _ _ h1 h2 => (orderCmp_lawful ks).le_trans h1 h2

end RlModel
