import RlModel.Lemmas.PlanSem
/-! Grouping lemmas for `pushdown-filter-hashagg` (C01). -/
namespace RlModel.P

/-- Every group is non-empty and all its members have the group's key. -/
def GroupsInv (ks : List VExpr) (gs : List (List PV × List Env)) : Prop :=
  ∀ g ∈ gs, g.2 ≠ [] ∧ ∀ m ∈ g.2, groupKey ks m = g.1

theorem groupInsert_inv (ks : List VExpr) (ρ : Env) (gs : List (List PV × List Env))
    (h : GroupsInv ks gs) : GroupsInv ks (groupInsert ks ρ gs) := by
  induction gs with
  | nil =>
    intro g hg
    simp only [groupInsert, List.mem_singleton] at hg
    subst hg
    exact ⟨by simp, by intro m hm; simp at hm; subst hm; rfl⟩
  | cons g0 gs ih =>
    obtain ⟨k, ms⟩ := g0
    have h0 := h (k, ms) (by simp)
    have hrest : GroupsInv ks gs := fun g hg => h g (by simp [hg])
    by_cases hk : k = groupKey ks ρ
    · simp only [groupInsert, hk, if_true]
      intro g hg
      rcases List.mem_cons.mp hg with rfl | hg'
      · refine ⟨by simp, ?_⟩
        intro m hm
        rcases List.mem_cons.mp hm with rfl | hm'
        · rfl
        · rw [← hk]; exact h0.2 m hm'
      · exact hrest g hg'
    · simp only [groupInsert, hk, if_false]
      intro g hg
      rcases List.mem_cons.mp hg with rfl | hg'
      · exact h0
      · exact ih hrest g hg'

theorem groups_inv (ks : List VExpr) (rows : List Env) : GroupsInv ks (groups ks rows) := by
  induction rows with
  | nil => intro g hg; cases hg
  | cons ρ rest ih => exact groupInsert_inv ks ρ _ ih

/-- Inserting a row whose key passes `P` commutes with keeping the groups that pass `P`. -/
theorem groupInsert_filter_pos (ks : List VExpr) (P : List PV → Bool) (ρ : Env)
    (gs : List (List PV × List Env)) (hp : P (groupKey ks ρ) = true) :
    groupInsert ks ρ (gs.filter fun g => P g.1) = (groupInsert ks ρ gs).filter fun g => P g.1 := by
  induction gs with
  | nil => simp [groupInsert, hp]
  | cons g0 gs ih =>
    obtain ⟨k, ms⟩ := g0
    by_cases hk : k = groupKey ks ρ
    · have hpk : P k = true := by rw [hk]; exact hp
      simp [groupInsert, List.filter_cons, hk, hp]
    · by_cases hpk : P k = true
      · simp [groupInsert, List.filter_cons, hk, hpk, ih]
      · simp [groupInsert, List.filter_cons, hk, hpk, ih]

theorem groupInsert_filter_neg (ks : List VExpr) (P : List PV → Bool) (ρ : Env)
    (gs : List (List PV × List Env)) (hp : P (groupKey ks ρ) = false) :
    (groupInsert ks ρ gs).filter (fun g => P g.1) = gs.filter fun g => P g.1 := by
  induction gs with
  | nil => simp [groupInsert, hp]
  | cons g0 gs ih =>
    obtain ⟨k, ms⟩ := g0
    by_cases hk : k = groupKey ks ρ
    · have hpk : P k = false := by rw [hk]; exact hp
      simp [groupInsert, List.filter_cons, hk, hp]
    · by_cases hpk : P k = true
      · simp [groupInsert, List.filter_cons, hk, hpk, ih]
      · simp [groupInsert, List.filter_cons, hk, hpk, ih]

/-- Grouping the rows that pass a key-determined predicate = keeping the groups whose key passes. -/
theorem groups_filter (ks : List VExpr) (p : Env → Bool) (P : List PV → Bool)
    (hP : ∀ ρ, p ρ = P (groupKey ks ρ)) (rows : List Env) :
    groups ks (rows.filter p) = (groups ks rows).filter fun g => P g.1 := by
  induction rows with
  | nil => rfl
  | cons ρ rest ih =>
    by_cases hp : p ρ = true
    · have hP' : P (groupKey ks ρ) = true := by rw [← hP]; exact hp
      simp only [List.filter_cons, hp, if_true, groups]
      rw [ih, groupInsert_filter_pos ks P ρ _ hP']
    · have hp' : p ρ = false := by simpa using hp
      have hP' : P (groupKey ks ρ) = false := by rw [← hP]; exact hp'
      have hf : (ρ :: rest).filter p = rest.filter p := by simp [List.filter_cons, hp']
      rw [hf, ih]
      simp only [groups]
      rw [groupInsert_filter_neg ks P ρ _ hP']

theorem aggRow_outside (aggs : List Agg) (m : Env) (ms : List Env) (x : Col)
    (hx : (aggs.any fun a => a.col == x) = false) : aggRow aggs (m :: ms) x = m x := by
  unfold aggRow
  have : aggs.find? (fun a => a.col == x) = none := by
    apply List.find?_eq_none.mpr
    intro a ha
    have := List.any_eq_false.mp hx a ha
    simpa using this
  rw [this]

end RlModel.P
