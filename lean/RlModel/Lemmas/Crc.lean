import RlModel.Model.Crc
/-!
Helper lemmas for C18: the CRC-32 register as a linear map over GF(2) (`Nat` with `^^^`),
invertibility of the zero-input step, and the 32-bit window argument.  Core Lean only.
-/
namespace RlModel

theorem xor_eq_zero_imp_eq {a b : Nat} (h : a ^^^ b = 0) : a = b := by
  have : a ^^^ (a ^^^ b) = b := by rw [← Nat.xor_assoc, Nat.xor_self, Nat.zero_xor]
  rw [h, Nat.xor_zero] at this
  exact this

theorem ne_imp_xor_ne_zero {a b : Nat} (h : a ≠ b) : a ^^^ b ≠ 0 :=
  fun h0 => h (xor_eq_zero_imp_eq h0)

theorem CRC_POLY_bit31 : CRC_POLY.testBit 31 = true := by decide

theorem CRC_POLY_lt : CRC_POLY < 2 ^ 32 := by decide

/-- the zero-input step is linear -/
theorem crcStep0_xor (a b : Nat) : crcStep0 (a ^^^ b) = crcStep0 a ^^^ crcStep0 b := by
  simp only [crcStep0, Nat.xor_div_two]
  have hm := @Nat.xor_mod_two_eq_one a b
  by_cases ha : a % 2 = 1 <;> by_cases hb : b % 2 = 1
  · have : ¬ ((a ^^^ b) % 2 = 1) := by rw [hm]; simp [ha, hb]
    simp only [ha, hb, this, ↓reduceIte, Nat.xor_zero]
    rw [Nat.xor_assoc, Nat.xor_comm CRC_POLY, Nat.xor_assoc (b / 2), Nat.xor_self, Nat.xor_zero]
  · have : (a ^^^ b) % 2 = 1 := by rw [hm]; simp [ha, hb]
    simp only [ha, hb, this, ↓reduceIte, Nat.xor_zero]
    rw [Nat.xor_assoc, Nat.xor_assoc, Nat.xor_comm CRC_POLY]
  · have : (a ^^^ b) % 2 = 1 := by rw [hm]; simp [ha, hb]
    simp only [ha, hb, this, ↓reduceIte, Nat.xor_zero]
    rw [Nat.xor_assoc]
  · have : ¬ ((a ^^^ b) % 2 = 1) := by rw [hm]; simp [ha, hb]
    simp only [ha, hb, this, ↓reduceIte, Nat.xor_zero]

theorem crcStep0_zero : crcStep0 0 = 0 := by decide

theorem crcStep0_lt {s : Nat} (h : s < 2 ^ 32) : crcStep0 s < 2 ^ 32 := by
  simp only [crcStep0]
  apply Nat.xor_lt_two_pow
  · omega
  · split
    · exact CRC_POLY_lt
    · decide

/-- xor with the polynomial sets bit 31 when the other operand is below 2^31 -/
theorem xor_poly_ge {a : Nat} (h : a < 2 ^ 31) : a ^^^ CRC_POLY ≥ 2 ^ 31 := by
  apply Nat.ge_two_pow_of_testBit
  rw [Nat.testBit_xor, Nat.testBit_lt_two_pow h, CRC_POLY_bit31]
  rfl

/-- the zero-input step is injective at 0 (it is invertible: the polynomial's top bit is set) -/
theorem crcStep0_ne_zero {s : Nat} (h : s ≠ 0) (hlt : s < 2 ^ 32) : crcStep0 s ≠ 0 := by
  simp only [crcStep0]
  split
  · have := xor_poly_ge (a := s / 2) (by omega)
    omega
  · rw [Nat.xor_zero]; omega

def xorBits : List Bool → List Bool → List Bool
  | a :: as, b :: bs => (a != b) :: xorBits as bs
  | _, _ => []

theorem bool_xor_toNat (a b : Bool) : (a != b).toNat = a.toNat ^^^ b.toNat := by
  cases a <;> cases b <;> rfl

/-- the register is linear in (state, input) -/
theorem crcStep_xor (s t : Nat) (a b : Bool) :
    crcStep (s ^^^ t) (a != b) = crcStep s a ^^^ crcStep t b := by
  simp only [crcStep, bool_xor_toNat, ← crcStep0_xor]
  congr 1
  rw [Nat.xor_assoc, Nat.xor_assoc, ← Nat.xor_assoc t, Nat.xor_comm t, Nat.xor_assoc a.toNat]

theorem crcRun_xor (as bs : List Bool) (h : as.length = bs.length) (s t : Nat) :
    crcRun (s ^^^ t) (xorBits as bs) = crcRun s as ^^^ crcRun t bs := by
  induction as generalizing bs s t with
  | nil => cases bs <;> simp_all [xorBits, crcRun]
  | cons a as ih =>
    cases bs with
    | nil => simp at h
    | cons b bs =>
      simp only [xorBits, crcRun, crcStep_xor]
      exact ih bs (by simpa using h) _ _

theorem crcRun_append (s : Nat) (as bs : List Bool) :
    crcRun s (as ++ bs) = crcRun (crcRun s as) bs := by
  induction as generalizing s with
  | nil => rfl
  | cons a as ih => simp [crcRun, ih]

theorem crcStep_lt {s : Nat} (b : Bool) (h : s < 2 ^ 32) : crcStep s b < 2 ^ 32 := by
  apply crcStep0_lt
  apply Nat.xor_lt_two_pow h
  cases b <;> decide

theorem crcRun_lt (bits : List Bool) {s : Nat} (h : s < 2 ^ 32) : crcRun s bits < 2 ^ 32 := by
  induction bits generalizing s with
  | nil => exact h
  | cons b bs ih => exact ih (crcStep_lt b h)

/-- equal inputs from different states never merge (each step is invertible) -/
theorem crcRun_states_ne (bits : List Bool) {s t : Nat} (hs : s < 2 ^ 32) (ht : t < 2 ^ 32) (h : s ≠ t) :
    crcRun s bits ≠ crcRun t bits := by
  induction bits generalizing s t with
  | nil => exact h
  | cons b bs ih =>
    simp only [crcRun]
    apply ih (crcStep_lt b hs) (crcStep_lt b ht)
    intro heq
    have hx : crcStep (s ^^^ t) (b != b) = 0 := by rw [crcStep_xor, heq, Nat.xor_self]
    have hb : (b != b) = false := by cases b <;> rfl
    rw [hb] at hx
    simp only [crcStep, Bool.toNat_false, Nat.xor_zero] at hx
    exact crcStep0_ne_zero (ne_imp_xor_ne_zero h) (Nat.xor_lt_two_pow hs ht) hx

theorem xor_bit_div_two (s : Nat) (b : Bool) : (s ^^^ b.toNat) / 2 = s / 2 := by
  rw [Nat.xor_div_two]; cases b <;> simp

/-- window argument: a register holding a set bit at position ≥ k survives k more steps with
arbitrary input bits -/
theorem crcRun_window (r : List Bool) (k : Nat) {s : Nat} (hk : k ≤ 31) (hlen : r.length ≤ k)
    (hs : 2 ^ k ≤ s) (hlt : s < 2 ^ 32) : crcRun s r ≠ 0 := by
  induction r generalizing s k with
  | nil =>
    have : 0 < 2 ^ k := Nat.two_pow_pos k
    simp only [crcRun]; omega
  | cons b bs ih =>
    simp only [List.length_cons] at hlen
    obtain ⟨k', rfl⟩ : ∃ k', k = k' + 1 := ⟨k - 1, by omega⟩
    simp only [crcRun]
    apply ih k' (by omega) (by omega) _ (crcStep_lt b hlt)
    simp only [crcStep, crcStep0, xor_bit_div_two]
    have h2 : 2 ^ k' ≤ s / 2 := by
      rw [Nat.pow_succ] at hs; omega
    split
    · have := xor_poly_ge (a := s / 2) (by omega)
      have : 2 ^ k' ≤ 2 ^ 31 := Nat.pow_le_pow_right (by decide) (by omega)
      omega
    · rw [Nat.xor_zero]; exact h2

theorem crcRun_zero_false (n : Nat) : crcRun 0 (List.replicate n false) = 0 := by
  induction n with
  | zero => rfl
  | succ n ih => simp only [List.replicate_succ, crcRun]; exact ih

/-- a non-zero difference pattern of at most 32 bits leaves a non-zero register difference -/
theorem crcRun_zero_burst (d : List Bool) (hlen : d.length ≤ 32) (hne : d ≠ List.replicate d.length false) :
    crcRun 0 d ≠ 0 := by
  induction d with
  | nil => simp at hne
  | cons b bs ih =>
    cases b with
    | false =>
      simp only [crcRun]
      have : crcStep 0 false = 0 := by decide
      rw [this]
      apply ih (by simp at hlen; omega)
      intro h; apply hne; simp only [List.length_cons, List.replicate_succ]; rw [← h]
    | true =>
      simp only [crcRun]
      have : crcStep 0 true = CRC_POLY := by decide
      rw [this]
      exact crcRun_window bs 31 (Nat.le_refl _) (by simp at hlen; omega) (by decide) CRC_POLY_lt

theorem xorBits_ne_false (as bs : List Bool) (h : as.length = bs.length) (hne : as ≠ bs) :
    xorBits as bs ≠ List.replicate (xorBits as bs).length false := by
  induction as generalizing bs with
  | nil => cases bs <;> simp_all
  | cons a as ih =>
    cases bs with
    | nil => simp at h
    | cons b bs =>
      simp only [xorBits, List.length_cons, List.replicate_succ]
      intro heq
      injection heq with h1 h2
      have hab : a = b := by cases a <;> cases b <;> simp_all
      subst hab
      exact ih bs (by simpa using h) (by intro e; exact hne (by rw [e])) h2

theorem xorBits_length (as bs : List Bool) (h : as.length = bs.length) : (xorBits as bs).length = as.length := by
  induction as generalizing bs with
  | nil => cases bs <;> simp_all [xorBits]
  | cons a as ih =>
    cases bs with
    | nil => simp at h
    | cons b bs => simp [xorBits, ih bs (by simpa using h)]

/-- bit-stream form of burst detection, from any common start state -/
theorem crcRun_burst {s : Nat} (hs : s < 2 ^ 32) (p m m' q : List Bool)
    (hlen : m.length = m'.length) (h32 : m.length ≤ 32) (hne : m ≠ m') :
    crcRun s (p ++ m ++ q) ≠ crcRun s (p ++ m' ++ q) := by
  rw [crcRun_append, crcRun_append, crcRun_append, crcRun_append]
  have ht := crcRun_lt p hs
  apply crcRun_states_ne q (crcRun_lt m ht) (crcRun_lt m' ht)
  intro heq
  have hx := crcRun_xor m m' hlen (crcRun s p) (crcRun s p)
  rw [Nat.xor_self, heq, Nat.xor_self] at hx
  exact crcRun_zero_burst (xorBits m m') (by rw [xorBits_length m m' hlen]; exact h32)
    (xorBits_ne_false m m' hlen hne) hx

/-! ### bytes -/

theorem bitsOf_append (a b : Bytes) : bitsOf (a ++ b) = bitsOf a ++ bitsOf b := by
  induction a with
  | nil => rfl
  | cons x xs ih => simp [bitsOf, ih]

theorem bitsOf_length (a : Bytes) : (bitsOf a).length = 8 * a.length := by
  induction a with
  | nil => rfl
  | cons x xs ih => simp [bitsOf, byteBits, ih]; omega

theorem byte_recon (n : Nat) (h : n < 256) :
    n = n % 2 + 2 * (n / 2 % 2) + 4 * (n / 4 % 2) + 8 * (n / 8 % 2) + 16 * (n / 16 % 2)
      + 32 * (n / 32 % 2) + 64 * (n / 64 % 2) + 128 * (n / 128 % 2) := by omega

theorem iff_mod2 (u v : Nat) (h : u % 2 = 1 ↔ v % 2 = 1) : u % 2 = v % 2 := by omega

theorem byteBits_nat_inj (a b : Nat) (ha : a < 256) (hb : b < 256)
    (h0 : a % 2 = 1 ↔ b % 2 = 1) (h1 : a / 2 % 2 = 1 ↔ b / 2 % 2 = 1)
    (h2 : a / 4 % 2 = 1 ↔ b / 4 % 2 = 1) (h3 : a / 8 % 2 = 1 ↔ b / 8 % 2 = 1)
    (h4 : a / 16 % 2 = 1 ↔ b / 16 % 2 = 1) (h5 : a / 32 % 2 = 1 ↔ b / 32 % 2 = 1)
    (h6 : a / 64 % 2 = 1 ↔ b / 64 % 2 = 1) (h7 : a / 128 % 2 = 1 ↔ b / 128 % 2 = 1) : a = b := by
  have e0 : a % 2 = b % 2 := iff_mod2 _ _ h0
  have e1 : a / 2 % 2 = b / 2 % 2 := iff_mod2 _ _ h1
  have e2 : a / 4 % 2 = b / 4 % 2 := iff_mod2 _ _ h2
  have e3 : a / 8 % 2 = b / 8 % 2 := iff_mod2 _ _ h3
  have e4 : a / 16 % 2 = b / 16 % 2 := iff_mod2 _ _ h4
  have e5 : a / 32 % 2 = b / 32 % 2 := iff_mod2 _ _ h5
  have e6 : a / 64 % 2 = b / 64 % 2 := iff_mod2 _ _ h6
  have e7 : a / 128 % 2 = b / 128 % 2 := iff_mod2 _ _ h7
  have ra := byte_recon a ha
  have rb := byte_recon b hb
  rw [ra, rb, e0, e1, e2, e3, e4, e5, e6, e7]

theorem byteBits_inj (x y : UInt8) (h : byteBits x = byteBits y) : x = y := by
  have hx : x.toNat < 256 := x.toNat_lt
  have hy : y.toNat < 256 := y.toNat_lt
  simp only [byteBits, List.cons.injEq, decide_eq_decide, and_true] at h
  obtain ⟨h0, h1, h2, h3, h4, h5, h6, h7⟩ := h
  apply UInt8.toNat_inj.mp
  exact byteBits_nat_inj _ _ hx hy h0 h1 h2 h3 h4 h5 h6 h7

theorem bitsOf_inj (a b : Bytes) (hl : a.length = b.length) (h : bitsOf a = bitsOf b) : a = b := by
  induction a generalizing b with
  | nil => cases b <;> simp_all
  | cons x xs ih =>
    cases b with
    | nil => simp at hl
    | cons y ys =>
      simp only [bitsOf] at h
      have h8 : (byteBits x).length = (byteBits y).length := by simp [byteBits]
      have := List.append_inj h h8
      rw [byteBits_inj x y this.1, ih ys (by simpa using hl) this.2]

theorem crc32_lt (data : Bytes) : crc32 data < 2 ^ 32 := by
  simp only [crc32]
  exact Nat.xor_lt_two_pow (crcRun_lt _ (by decide)) (by decide)


/-! ### trailer -/

theorem natOfLE_leBytes' (w n : Nat) : natOfLE (leBytes w n) = n % 256 ^ w := by
  induction w generalizing n with
  | zero => simp [leBytes, natOfLE, Nat.mod_one]
  | succ w ih =>
    simp only [leBytes, natOfLE, ih]
    rw [show (UInt8.ofNat (n % 256)).toNat = n % 256 by simp [UInt8.toNat_ofNat']]
    rw [Nat.pow_succ, Nat.mul_comm (256 ^ w) 256, Nat.mod_mul]
theorem natOfBE_beBytes (w n : Nat) (h : n < 256 ^ w) : natOfBE (beBytes w n) = n := by
  simp [natOfBE, beBytes, natOfLE_leBytes', Nat.mod_eq_of_lt h]
theorem beBytes_length (w n : Nat) : (beBytes w n).length = w := by
  simp [beBytes]; induction w generalizing n with
  | zero => rfl
  | succ w ih => simp [leBytes, ih]

/-- sealed block with possibly altered body, intact checksum fields -/
theorem openBlock_sealed (body body' : Bytes) (hl : body'.length = body.length) (h4 : 4 ≤ body.length)
    (hne : crc32 body' ≠ crc32 body) :
    openBlock true (body' ++ beBytes 4 CkType.crc32.code ++ beBytes 8 (crc32 body)) = .error .checksum
    ∨ openBlock true (body' ++ beBytes 4 CkType.crc32.code ++ beBytes 8 (crc32 body)) = .error .decode := by
  generalize hb : body' ++ beBytes 4 CkType.crc32.code ++ beBytes 8 (crc32 body) = blk
  have hlen : blk.length = body'.length + 12 := by rw [← hb]; simp [beBytes_length]
  have e_ct : natOfBE ((blk.drop (blk.length - 12)).take 4) = 1 := by
    rw [hlen, ← hb, List.append_assoc, show body'.length + 12 - 12 = body'.length by omega,
      List.drop_left' rfl, List.take_left' (beBytes_length _ _)]
    decide
  have e_ck : natOfBE ((blk.drop (blk.length - 8)).take 8) = crc32 body := by
    rw [hlen, ← hb, show body'.length + 12 - 8 = (body' ++ beBytes 4 CkType.crc32.code).length by simp [beBytes_length],
      List.drop_left' rfl, List.take_of_length_le (by simp [beBytes_length])]
    exact natOfBE_beBytes 8 _ (Nat.lt_of_lt_of_le (crc32_lt body) (by decide))
  have e_body : blk.take (blk.length - BLOCK_META_CHECKSUM_SIZE) = body' := by
    rw [hlen, ← hb, List.append_assoc]
    simp only [BLOCK_META_CHECKSUM_SIZE]
    rw [show body'.length + 12 - 12 = body'.length by omega, List.take_left' rfl]
  simp only [openBlock, openBlockCfg]
  rw [if_neg (by simp only [BLOCK_META_SIZE]; omega)]
  simp only [e_ct, e_ck, e_body]
  split
  · right; rfl
  · left
    simp [CkType.ofCode?, verifyStored, verifyChecksum, buildChecksum, hne]

end RlModel
