import RlModel.Model.Text
/-! Lemmas for the text model: the civil-calendar conversion is a bijection onto valid dates,
decimal printing/parsing round-trips, chrono-style `%Y-%m-%d` scanning inverts formatting. -/
namespace RlModel
namespace V19

/-! ### calendar arithmetic -/

theorem splitEra_spec (z : Int) :
    0 ≤ (splitEra z).2 ∧ (splitEra z).2 ≤ 146096 ∧
    z = (splitEra z).1 * 146097 + (splitEra z).2 - 719468 := by
  simp only [splitEra]; omega

theorem yearOfEra_spec (doe : Int) (h0 : 0 ≤ doe) (h1 : doe ≤ 146096) :
    0 ≤ (yearOfEra doe).1 ∧ (yearOfEra doe).1 ≤ 399 ∧
    0 ≤ (yearOfEra doe).2 ∧ (yearOfEra doe).2 ≤ 365 ∧
    doe = (yearOfEra doe).1 * 365 + (yearOfEra doe).1 / 4 - (yearOfEra doe).1 / 100 + (yearOfEra doe).2 ∧
    ((yearOfEra doe).2 = 365 →
      ((yearOfEra doe).1 + 1) % 4 = 0 ∧
      (((yearOfEra doe).1 + 1) % 100 ≠ 0 ∨ (yearOfEra doe).1 = 399)) := by
  simp only [yearOfEra]
  generalize hc : (if doe / 36524 ≥ 4 then 3 else doe / 36524) = c
  have c0 : 0 ≤ c ∧ c ≤ 3 ∧ c * 36524 ≤ doe ∧
      (doe - c * 36524 ≤ 36523 ∨ (c = 3 ∧ doe - c * 36524 = 36524)) := by
    split at hc <;> omega
  generalize hdoc : doe - c * 36524 = doc at *
  generalize hq : doc / 1461 = q
  have q0 : 0 ≤ q ∧ q ≤ 24 ∧ q * 1461 ≤ doc ∧ doc - q * 1461 ≤ 1460 := by omega
  generalize hdoq : doc - q * 1461 = doq at *
  generalize hyq : (if doq / 365 ≥ 4 then 3 else doq / 365) = yq
  have y0 : 0 ≤ yq ∧ yq ≤ 3 ∧ yq * 365 ≤ doq ∧
      (doq - yq * 365 ≤ 364 ∨ (yq = 3 ∧ doq - yq * 365 = 365)) := by
    split at hyq <;> omega
  have d4 : (c * 100 + q * 4 + yq) / 4 = 25 * c + q := by omega
  have d100 : (c * 100 + q * 4 + yq) / 100 = c := by omega
  rw [d4, d100]
  refine ⟨by omega, by omega, by omega, by omega, by omega, ?_⟩
  intro h365
  have hy3 : yq = 3 := by omega
  have hdq : doq = 1460 := by omega
  subst hy3
  constructor
  · omega
  · by_cases hq24 : q = 24
    · right; omega
    · left; omega

theorem monthDay_spec (doy : Int) (h0 : 0 ≤ doy) (h1 : doy ≤ 365) :
    1 ≤ (monthDay doy).1 ∧ (monthDay doy).1 ≤ 12 ∧ 1 ≤ (monthDay doy).2 ∧
    (153 * (if (monthDay doy).1 > 2 then (monthDay doy).1 - 3 else (monthDay doy).1 + 9) + 2) / 5
      + (monthDay doy).2 - 1 = doy ∧
    ((monthDay doy).1 ≤ 2 ↔ 306 ≤ doy) ∧
    ((monthDay doy).1 = 2 → (monthDay doy).2 ≤ 28 ∨ (doy = 365 ∧ (monthDay doy).2 = 29)) ∧
    (((monthDay doy).1 = 4 ∨ (monthDay doy).1 = 6 ∨ (monthDay doy).1 = 9 ∨ (monthDay doy).1 = 11) →
      (monthDay doy).2 ≤ 30) ∧
    (monthDay doy).2 ≤ 31 := by
  simp only [monthDay]
  have : (5 * doy + 2) / 153 = 0 ∨ (5 * doy + 2) / 153 = 1 ∨ (5 * doy + 2) / 153 = 2 ∨
      (5 * doy + 2) / 153 = 3 ∨ (5 * doy + 2) / 153 = 4 ∨ (5 * doy + 2) / 153 = 5 ∨
      (5 * doy + 2) / 153 = 6 ∨ (5 * doy + 2) / 153 = 7 ∨ (5 * doy + 2) / 153 = 8 ∨
      (5 * doy + 2) / 153 = 9 ∨ (5 * doy + 2) / 153 = 10 ∨ (5 * doy + 2) / 153 = 11 := by omega
  rcases this with h | h | h | h | h | h | h | h | h | h | h | h <;> simp [h] <;> omega

theorem isLeap_iff (y : Int) : isLeap y = true ↔ (y % 4 = 0 ∧ (y % 100 ≠ 0 ∨ y % 400 = 0)) := by
  simp [isLeap]

theorem validYmd_iff (y m d : Int) :
    validYmd y m d = true ↔ (1 ≤ m ∧ m ≤ 12 ∧ 1 ≤ d ∧ d ≤ daysInMonth y m) := by
  simp [validYmd, and_assoc]

/-- `civilFromDays` produces a valid civil date … -/
theorem civilFromDays_valid (z : Int) :
    validYmd (civilFromDays z).1 (civilFromDays z).2.1 (civilFromDays z).2.2 = true := by
  have he := splitEra_spec z
  have hy := yearOfEra_spec (splitEra z).2 he.1 he.2.1
  have hm := monthDay_spec (yearOfEra (splitEra z).2).2 hy.2.2.1 hy.2.2.2.1
  rw [validYmd_iff]
  simp only [civilFromDays]
  generalize (splitEra z).1 = era at *
  generalize (splitEra z).2 = doe at *
  generalize (yearOfEra doe).1 = yoe at *
  generalize (yearOfEra doe).2 = doy at *
  generalize (monthDay doy).1 = m at *
  generalize (monthDay doy).2 = d at *
  refine ⟨by omega, by omega, by omega, ?_⟩
  unfold daysInMonth
  by_cases hm2 : m = 2
  · rw [if_pos hm2]
    rcases hm.2.2.2.2.2.1 hm2 with h28 | ⟨h365, h29⟩
    · split <;> omega
    · have hl := hy.2.2.2.2.2 h365
      have : isLeap (era * 400 + yoe + (if m ≤ 2 then 1 else 0)) = true := by
        rw [isLeap_iff, if_pos (by omega)]
        refine ⟨by omega, ?_⟩
        rcases hl.2 with h | h
        · left; omega
        · right; omega
      rw [if_pos this]; omega
  · rw [if_neg hm2]
    split <;> omega

theorem daysFromCivil_of (era yoe doy m d : Int) (h0 : 0 ≤ yoe) (h1 : yoe ≤ 399)
    (hd : (153 * (if m > 2 then m - 3 else m + 9) + 2) / 5 + d - 1 = doy) :
    daysFromCivil (era * 400 + yoe + (if m ≤ 2 then 1 else 0)) m d =
      era * 146097 + (yoe * 365 + yoe / 4 - yoe / 100 + doy) - 719468 := by
  unfold daysFromCivil
  have hy' : (if m ≤ 2 then era * 400 + yoe + (if m ≤ 2 then 1 else 0) - 1
      else era * 400 + yoe + (if m ≤ 2 then 1 else 0)) = era * 400 + yoe := by
    split <;> omega
  simp only [hy']
  have hera : (era * 400 + yoe) / 400 = era := by omega
  rw [hera]
  have hyoe : era * 400 + yoe - era * 400 = yoe := by omega
  rw [hyoe, ← hd]

/-- … and `daysFromCivil` inverts it: the day count is recovered for every integer. -/
theorem daysFromCivil_civilFromDays (z : Int) :
    daysFromCivil (civilFromDays z).1 (civilFromDays z).2.1 (civilFromDays z).2.2 = z := by
  have he := splitEra_spec z
  have hy := yearOfEra_spec (splitEra z).2 he.1 he.2.1
  have hm := monthDay_spec (yearOfEra (splitEra z).2).2 hy.2.2.1 hy.2.2.2.1
  simp only [civilFromDays]
  rw [daysFromCivil_of _ _ _ _ _ hy.1 hy.2.1 hm.2.2.2.1]
  omega

theorem dateInRange_iff (z : Int) : dateInRange z = true ↔ (-96465292 ≤ z ∧ z ≤ 95026236) := by
  unfold dateInRange
  rw [Bool.and_eq_true, decide_eq_true_eq, decide_eq_true_eq]
  exact Iff.rfl

/-- the year of an in-range day is within chrono's year range -/
theorem civilFromDays_year_range (z : Int) (h : dateInRange z = true) :
    chronoMinYear ≤ (civilFromDays z).1 ∧ (civilFromDays z).1 ≤ chronoMaxYear := by
  have he := splitEra_spec z
  have hy := yearOfEra_spec (splitEra z).2 he.1 he.2.1
  have hm := monthDay_spec (yearOfEra (splitEra z).2).2 hy.2.2.1 hy.2.2.2.1
  rw [dateInRange_iff] at h
  simp only [civilFromDays, chronoMinYear, chronoMaxYear]
  generalize (splitEra z).1 = era at *
  generalize (splitEra z).2 = doe at *
  generalize (yearOfEra doe).1 = yoe at *
  generalize (yearOfEra doe).2 = doy at *
  generalize (monthDay doy).1 = m at *
  have e1 : -656 ≤ era ∧ era ≤ 655 := by omega
  constructor
  · by_cases hx : era = -656
    · subst hx
      -- doe ≥ 146097*656 - 96465292 - 719468... the first day is -262143-01-01
      have : 306 ≤ doy → 256 ≤ yoe := by intro; omega
      split <;> omega
    · split <;> omega
  · by_cases hx : era = 655
    · subst hx
      split <;> omega
    · split <;> omega

/-! ### decimal digits -/

theorem digitByte_toNat (d : Nat) (h : d < 10) : (digitByte d).toNat = 48 + d := by
  unfold digitByte
  rw [UInt8.toNat_ofNat']
  omega

theorem digitVal_digitByte (d : Nat) (h : d < 10) : digitVal (digitByte d) = d := by
  unfold digitVal; rw [digitByte_toNat d h]; omega

theorem isDigit_digitByte (d : Nat) (h : d < 10) : isDigit (digitByte d) = true := by
  unfold isDigit; rw [digitByte_toNat d h]; simp; omega

theorem valLE_digitsLE : ∀ (f n : Nat), n ≤ f → valLE (digitsLE f n) = n
  | 0, n, h => by
    have : n = 0 := by omega
    subst this; simp [digitsLE, valLE, digitVal_digitByte]
  | f + 1, n, h => by
    unfold digitsLE
    by_cases h10 : n < 10
    · simp [h10, valLE, digitVal_digitByte n h10]
    · simp only [h10, if_false, valLE]
      rw [valLE_digitsLE f (n / 10) (by omega), digitVal_digitByte _ (by omega)]
      omega

theorem allDigits_digitsLE : ∀ (f n : Nat), (digitsLE f n).all isDigit = true
  | 0, n => by simp [digitsLE, isDigit_digitByte (n % 10) (by omega)]
  | f + 1, n => by
    unfold digitsLE
    by_cases h10 : n < 10
    · simp [h10, isDigit_digitByte n h10]
    · simp [h10, isDigit_digitByte (n % 10) (by omega), allDigits_digitsLE f (n / 10)]

theorem length_digitsLE_pos (f n : Nat) : 0 < (digitsLE f n).length := by
  cases f <;> unfold digitsLE <;> (try split) <;> simp

theorem length_digitsLE_le : ∀ (f n k : Nat), n ≤ f → n < 10 ^ (k + 1) → (digitsLE f n).length ≤ k + 1
  | 0, n, k, _, _ => by simp [digitsLE]
  | f + 1, n, k, h, hk => by
    unfold digitsLE
    by_cases h10 : n < 10
    · simp [h10]
    · simp only [h10, if_false, List.length_cons]
      cases k with
      | zero => simp at hk; omega
      | succ k =>
        have := length_digitsLE_le f (n / 10) k (by omega)
          (by rw [Nat.pow_succ] at hk; omega)
        omega

theorem parseNat_natDigits (n : Nat) : parseNat (natDigits n) = n := by
  simp [parseNat, natDigits, valLE_digitsLE n n (Nat.le_refl n)]

theorem allDigits_natDigits (n : Nat) : allDigits (natDigits n) = true := by
  simp only [allDigits, natDigits, List.all_reverse]; exact allDigits_digitsLE n n

theorem length_natDigits_pos (n : Nat) : 0 < (natDigits n).length := by
  simp only [natDigits, List.length_reverse]; exact length_digitsLE_pos n n

theorem length_natDigits_le (n k : Nat) (h : n < 10 ^ (k + 1)) : (natDigits n).length ≤ k + 1 := by
  simp only [natDigits, List.length_reverse]; exact length_digitsLE_le n n k (Nat.le_refl n) h

theorem valLE_append (a b : Bytes) : valLE (a ++ b) = valLE a + 10 ^ a.length * valLE b := by
  induction a with
  | nil => simp [valLE]
  | cons x xs ih =>
    simp only [List.cons_append, valLE, ih, List.length_cons, Nat.pow_succ]
    rw [Nat.mul_add, Nat.add_assoc, ← Nat.mul_assoc, Nat.mul_comm 10 (10 ^ xs.length)]

theorem valLE_replicate_zero (k : Nat) : valLE (List.replicate k 48) = 0 := by
  induction k with
  | zero => rfl
  | succ k ih => simp [List.replicate_succ, valLE, ih, digitVal]

theorem parseNat_padZero (w : Nat) (ds : Bytes) : parseNat (padZero w ds) = parseNat ds := by
  simp [parseNat, padZero, valLE_append, valLE_replicate_zero]

theorem allDigits_padZero (w : Nat) (ds : Bytes) (h : allDigits ds = true) :
    allDigits (padZero w ds) = true := by
  simp only [allDigits, padZero, List.all_append, Bool.and_eq_true]
  refine ⟨?_, h⟩
  simp [isDigit]

theorem length_padZero (w : Nat) (ds : Bytes) (h : ds.length ≤ w) : (padZero w ds).length = w := by
  simp [padZero]; omega

theorem length_padZero_ge (w : Nat) (ds : Bytes) : ds.length ≤ (padZero w ds).length := by
  simp [padZero]

/-! ### scanning inverts formatting -/

theorem takeDigits_append : ∀ (k : Nat) (ds rest : Bytes), allDigits ds = true → ds.length ≤ k →
    (ds.length = k ∨ rest = [] ∨ ∃ b r, rest = b :: r ∧ isDigit b = false) →
    takeDigits k (ds ++ rest) = (ds, rest)
  | 0, [], rest, _, _, _ => by simp [takeDigits]
  | k + 1, [], rest, _, _, hr => by
    rcases hr with h | h | ⟨b, r, h, hb⟩
    · simp at h
    · subst h; simp [takeDigits]
    · subst h; simp [takeDigits, hb]
  | 0, _ :: _, _, _, hl, _ => by simp at hl
  | k + 1, d :: ds, rest, hd, hl, hr => by
    simp only [allDigits, List.all_cons, Bool.and_eq_true] at hd
    have ih := takeDigits_append k ds rest hd.2 (by simpa using hl)
      (by rcases hr with h | h | h
          · left; simpa using h
          · right; left; exact h
          · right; right; exact h)
    simp [takeDigits, hd.1, ih]

theorem isWs_of_isDigit {b : UInt8} (h : isDigit b = true) : isWs b = false := by
  simp only [isDigit, Bool.and_eq_true, decide_eq_true_eq] at h
  simp only [isWs, Bool.or_eq_false_iff, Bool.and_eq_false_iff, decide_eq_false_iff_not]
  constructor
  · intro hb; subst hb; simp at h
  · right; omega

theorem skipWs_cons_of_not_ws {b : UInt8} (r : Bytes) (h : isWs b = false) :
    skipWs (b :: r) = b :: r := by simp [skipWs, h]

theorem ne_sign_of_isDigit {b : UInt8} (h : isDigit b = true) : b ≠ 45 ∧ b ≠ 43 := by
  simp only [isDigit, Bool.and_eq_true, decide_eq_true_eq] at h
  constructor <;> (intro hb; subst hb; simp at h)

theorem exists_cons_of_allDigits_pos {ds : Bytes} (hd : allDigits ds = true) (hl : 0 < ds.length) :
    ∃ d0 ds', ds = d0 :: ds' ∧ isDigit d0 = true := by
  cases ds with
  | nil => simp at hl
  | cons d0 ds' =>
    simp only [allDigits, List.all_cons, Bool.and_eq_true] at hd
    exact ⟨d0, ds', rfl, hd.1⟩

theorem isDigit_45 : isDigit 45 = false := by decide
theorem isWs_45 : isWs 45 = false := by decide
theorem isWs_43 : isWs 43 = false := by decide

theorem natAbs_lt_pow4 {y : Int} (h0 : 0 ≤ y) (h1 : y ≤ 9999) : y.natAbs < 10 ^ (3 + 1) := by
  omega

theorem scanYear_fmtYear (y : Int) (r' : Bytes) :
    scanYear (fmtYear y ++ 45 :: r') = some (y, 45 :: r') := by
  have hA := allDigits_padZero 4 _ (allDigits_natDigits y.natAbs)
  have hP := parseNat_padZero 4 (natDigits y.natAbs)
  rw [parseNat_natDigits] at hP
  have hLpos : 0 < (padZero 4 (natDigits y.natAbs)).length :=
    Nat.lt_of_lt_of_le (length_natDigits_pos _) (length_padZero_ge 4 _)
  unfold fmtYear
  by_cases hy : 0 ≤ y ∧ y ≤ 9999
  · rw [if_pos hy]
    have hL := length_padZero 4 _ (length_natDigits_le y.natAbs 3 (natAbs_lt_pow4 hy.1 hy.2))
    generalize padZero 4 (natDigits y.natAbs) = ds at *
    obtain ⟨d0, ds', rfl, hd0⟩ := exists_cons_of_allDigits_pos hA hLpos
    have hne := ne_sign_of_isDigit hd0
    have ht := takeDigits_append 4 (d0 :: ds') (45 :: r') hA (by omega) (Or.inl hL)
    simp only [List.cons_append] at ht
    simp only [scanYear, List.cons_append, skipWs_cons_of_not_ws _ (isWs_of_isDigit hd0), hne.1,
      hne.2, if_false, ht, List.isEmpty_cons, hP]
    simp; omega
  · rw [if_neg hy]
    generalize padZero 4 (natDigits y.natAbs) = ds at *
    have ht := takeDigits_append (ds ++ 45 :: r').length ds (45 :: r') hA (by simp)
      (Or.inr (Or.inr ⟨45, r', rfl, isDigit_45⟩))
    obtain ⟨d0, ds', hds, _⟩ := exists_cons_of_allDigits_pos hA hLpos
    by_cases hneg : y < 0
    · simp only [hneg, if_true, scanYear, List.cons_append, skipWs_cons_of_not_ws _ isWs_45, ht, hP]
      subst hds
      simp; omega
    · have h43 : (43 : UInt8) ≠ 45 := by decide
      simp only [hneg, if_false, scanYear, List.cons_append, skipWs_cons_of_not_ws _ isWs_43, h43,
        if_true, ht, hP]
      subst hds
      simp; omega

theorem natAbs_lt_pow2 {v : Int} (h0 : 0 ≤ v) (h1 : v ≤ 99) : v.natAbs < 10 ^ (1 + 1) := by
  omega

theorem scan2_fmt2 (v : Int) (h0 : 0 ≤ v) (h1 : v ≤ 99) (rest : Bytes) :
    scan2 (fmt2 v ++ rest) = some (v, rest) := by
  have hA := allDigits_padZero 2 _ (allDigits_natDigits v.natAbs)
  have hP := parseNat_padZero 2 (natDigits v.natAbs)
  rw [parseNat_natDigits] at hP
  have hL := length_padZero 2 _ (length_natDigits_le v.natAbs 1 (natAbs_lt_pow2 h0 h1))
  unfold fmt2
  generalize padZero 2 (natDigits v.natAbs) = ds at *
  obtain ⟨d0, ds', rfl, hd0⟩ := exists_cons_of_allDigits_pos hA (by omega)
  have ht := takeDigits_append 2 (d0 :: ds') rest hA (by omega) (Or.inl hL)
  simp only [List.cons_append] at ht
  simp only [scan2, List.cons_append, skipWs_cons_of_not_ws _ (isWs_of_isDigit hd0), ht,
    List.isEmpty_cons, hP]
  simp; omega

theorem scanYmd_fmtYmd (y m d : Int) (hm0 : 0 ≤ m) (hm1 : m ≤ 99) (hd0 : 0 ≤ d) (hd1 : d ≤ 99) :
    scanYmd (fmtYmd y m d) = some (y, m, d, []) := by
  unfold scanYmd fmtYmd
  simp only [List.append_assoc, List.cons_append, List.nil_append]
  rw [scanYear_fmtYear]
  simp only [Option.bind_some, expectByte, if_true]
  rw [scan2_fmt2 m hm0 hm1]
  simp only [Option.bind_some, expectByte, if_true]
  have := scan2_fmt2 d hd0 hd1 []
  rw [List.append_nil] at this
  rw [this]
  rfl

/-! ### integers, blobs -/

theorem parseIntRange_intDigits (lo hi v : Int) (h : lo ≤ v ∧ v ≤ hi) :
    parseIntRange lo hi (intDigits v) = .ok v := by
  have hA := allDigits_natDigits v.natAbs
  have hP := parseNat_natDigits v.natAbs
  have hL := length_natDigits_pos v.natAbs
  unfold intDigits
  generalize natDigits v.natAbs = ds at *
  obtain ⟨d0, ds', rfl, hd0⟩ := exists_cons_of_allDigits_pos hA hL
  have hne := ne_sign_of_isDigit hd0
  by_cases hneg : v < 0
  · simp only [hneg, if_true, parseIntRange, true_or, decide_true, List.isEmpty_cons, hA, hP]
    have : (-((v.natAbs : Nat) : Int)) = v := by omega
    simp [this, h]
  · simp only [hneg, if_false, parseIntRange, hne.1, hne.2, or_self, decide_false, List.isEmpty_cons, hA, hP]
    have : ((v.natAbs : Nat) : Int) = v := by omega
    simp [this, h]

theorem hexUpper_toNat (n : Nat) (h : n < 16) :
    (hexUpper n).toNat = if n < 10 then 48 + n else 55 + n := by
  unfold hexUpper
  split <;> (rw [UInt8.toNat_ofNat']; omega)

theorem hexDigitVal_hexUpper (n : Nat) (h : n < 16) : hexDigitVal (hexUpper n) = some n := by
  have := hexUpper_toNat n h
  unfold hexDigitVal
  simp only [this]
  by_cases h10 : n < 10
  · simp [h10]; omega
  · simp [h10]
    have h1 : ¬ (55 + n ≤ 57) := by omega
    have h2 : 65 ≤ 55 + n ∧ 55 + n ≤ 70 := by omega
    simp [h1, h2]

theorem hexUpper_ne_plus (n : Nat) (h : n < 16) : hexUpper n ≠ 43 := by
  intro hc
  have := hexUpper_toNat n h
  rw [hc] at this
  split at this <;> (simp at this; try omega)

theorem utf8Len_hexUpper (n : Nat) (h : n < 16) : utf8Len (hexUpper n) = 1 := by
  have := hexUpper_toNat n h
  unfold utf8Len
  simp only [this]
  split <;> simp <;> omega

theorem parseHex2_hexUpper (b : UInt8) :
    parseHex2 (hexUpper (b.toNat / 16)) (hexUpper (b.toNat % 16)) = some b.toNat := by
  have hb := b.toNat_lt
  have h1 : b.toNat / 16 < 16 := by omega
  have h2 : b.toNat % 16 < 16 := by omega
  unfold parseHex2
  rw [if_neg (hexUpper_ne_plus _ h1), hexDigitVal_hexUpper _ h1, hexDigitVal_hexUpper _ h2]
  simp; omega

theorem parseBlob_cons_plain (f : Nat) (b : UInt8) (rest : Bytes) (h : b ≠ 92) (h' : b ≠ 39)
    (hu : utf8Len b = 1) :
    parseBlob (f + 1) (b :: rest) = (match parseBlob f rest with | .ok r => .ok (b :: r) | e => e) := by
  rw [parseBlob.eq_def]
  split
  · rename_i heq; simp at heq
  · rename_i heq; simp at heq
  · rename_i heq1 heq2
    simp only [List.cons.injEq] at heq2
    exact absurd heq2.1 h
  · rename_i heq1 heq2
    simp only [List.cons.injEq] at heq2
    exact absurd heq2.1 h
  · rename_i heq1 heq2
    simp only [List.cons.injEq] at heq2
    exact absurd heq2.1 h'
  · rename_i f' b' rest' hx1 hx2 hx3 heq1 heq2
    simp only [List.cons.injEq] at heq2
    obtain ⟨h1, h2⟩ := heq2
    subst h1; subst h2
    injection heq1 with heq1
    subst heq1
    simp [hu]
    cases parseBlob f rest <;> rfl

/-- EVERY blob survives Display + FromStr (after the fix of `Blob::from_str`) -/
theorem parseBlob_displayBlob : ∀ (bs : Bytes) (fuel : Nat), (displayBlob bs).length < fuel →
    parseBlob fuel (displayBlob bs) = .ok bs
  | [], fuel, hf => by
    cases fuel with
    | zero => simp at hf
    | succ f => simp [displayBlob, parseBlob]
  | b :: bs, fuel, hf => by
    cases fuel with
    | zero => simp at hf
    | succ f =>
      unfold displayBlob
      by_cases h92 : b = 92
      · subst h92
        simp only [displayBlob, if_true, List.length_append, List.length_cons, List.length_nil] at hf
        have ih := parseBlob_displayBlob bs f (by omega)
        show parseBlob (f + 1) (92 :: 92 :: displayBlob bs) = .ok (92 :: bs)
        simp only [parseBlob, ih]
      · rw [if_neg h92]
        by_cases h39 : b = 39
        · subst h39
          simp only [displayBlob, if_neg h92, if_true, List.length_append, List.length_cons,
            List.length_nil] at hf
          have ih := parseBlob_displayBlob bs f (by omega)
          show parseBlob (f + 1) (39 :: 39 :: displayBlob bs) = .ok (39 :: bs)
          simp only [parseBlob, ih]
        · rw [if_neg h39]
          by_cases hp : 32 ≤ b.toNat ∧ b.toNat ≤ 126
          · rw [if_pos hp]
            simp only [displayBlob, if_neg h92, if_neg h39, if_pos hp, List.length_append,
              List.length_cons, List.length_nil] at hf
            have ih := parseBlob_displayBlob bs f (by omega)
            have hu : utf8Len b = 1 := by unfold utf8Len; simp; omega
            show parseBlob (f + 1) (b :: displayBlob bs) = .ok (b :: bs)
            rw [parseBlob_cons_plain f b _ h92 h39 hu, ih]
          · rw [if_neg hp]
            simp only [displayBlob, if_neg h92, if_neg h39, if_neg hp, List.length_append,
              List.length_cons, List.length_nil] at hf
            have ih := parseBlob_displayBlob bs f (by omega)
            have hb16 := b.toNat_lt
            show parseBlob (f + 1) (92 :: 120 :: hexUpper (b.toNat / 16) :: hexUpper (b.toNat % 16) :: displayBlob bs) = .ok (b :: bs)
            simp only [parseBlob, utf8Len_hexUpper _ (show b.toNat / 16 < 16 by omega),
              utf8Len_hexUpper _ (show b.toNat % 16 < 16 by omega), parseHex2_hexUpper, ih]
            simp

/-! ### intervals -/

/-- a token: non-empty, no ASCII white space, no `_` -/
def tokOk (t : Bytes) : Bool := !t.isEmpty && t.all fun b => !(isAsciiWs b || b = 95)

theorem tokenize_body : ∀ (t rest cur : Bytes), (t.all fun b => !(isAsciiWs b || b = 95)) = true →
    tokenize (t ++ rest) cur = tokenize rest (t.reverse ++ cur)
  | [], rest, cur, _ => by simp
  | b :: t, rest, cur, h => by
    simp only [List.all_cons, Bool.and_eq_true] at h
    have hb : (isAsciiWs b || decide (b = 95)) = false := by simpa using h.1
    simp only [List.cons_append, tokenize, hb, Bool.false_eq_true, if_false]
    rw [tokenize_body t rest (b :: cur) h.2]
    simp

theorem tokenize_joinSp : ∀ (toks : List Bytes), (toks.all tokOk) = true →
    tokenize (joinSp toks) [] = toks
  | [], _ => by simp [joinSp, tokenize]
  | [t], h => by
    simp only [List.all_cons, List.all_nil, Bool.and_true, tokOk, Bool.and_eq_true] at h
    have := tokenize_body t [] [] h.2
    simp only [List.append_nil] at this
    simp only [joinSp, this, tokenize]
    have hne : t.reverse.isEmpty = false := by
      cases t with
      | nil => simp at h
      | cons => simp
    simp [hne]
  | t :: t2 :: ts, h => by
    have h' := h
    simp only [List.all_cons, Bool.and_eq_true] at h
    have ht := h.1
    simp only [tokOk, Bool.and_eq_true] at ht
    have ih := tokenize_joinSp (t2 :: ts) (by simp only [List.all_cons, Bool.and_eq_true]; exact h.2)
    simp only [joinSp]
    rw [tokenize_body t _ [] ht.2]
    have hne : (t.reverse ++ []).isEmpty = false := by
      cases t with
      | nil => simp at ht
      | cons => simp
    have hsp : (isAsciiWs 32 || decide ((32 : UInt8) = 95)) = true := by decide
    simp only [tokenize, hsp, if_true, hne, Bool.false_eq_true, if_false, ih]
    simp

theorem sep_of_isDigit {b : UInt8} (h : isDigit b = true) : (isAsciiWs b || decide (b = 95)) = false := by
  simp only [isDigit, Bool.and_eq_true, decide_eq_true_eq] at h
  simp only [isAsciiWs, Bool.or_eq_false_iff, decide_eq_false_iff_not]
  refine ⟨⟨⟨⟨⟨?_, ?_⟩, ?_⟩, ?_⟩, ?_⟩, ?_⟩ <;> (intro hb; subst hb; simp at h)

theorem tokOk_intDigits (v : Int) : tokOk (intDigits v) = true := by
  have hA := allDigits_natDigits v.natAbs
  have hL := length_natDigits_pos v.natAbs
  have hall : ((natDigits v.natAbs).all fun b => !(isAsciiWs b || decide (b = 95))) = true := by
    rw [List.all_eq_true]
    intro b hb
    simp only [allDigits, List.all_eq_true] at hA
    rw [sep_of_isDigit (hA b hb)]; rfl
  unfold intDigits tokOk
  split
  · simp only [List.isEmpty_cons, Bool.not_false, Bool.true_and, List.all_cons, Bool.and_eq_true]
    exact ⟨by decide, hall⟩
  · have : (natDigits v.natAbs).isEmpty = false := by
      cases h : natDigits v.natAbs with
      | nil => rw [h] at hL; simp at hL
      | cons => rfl
    rw [this]
    simp only [Bool.not_false, Bool.true_and]
    exact hall

/-- the (at most two) tokens of one field -/
def fieldToks (v : Int) (u : Bytes) : List Bytes :=
  if v = 0 then [] else [intDigits v, if v = 1 ∨ v = -1 then u else u ++ [115]]

theorem intervalTokens_cons (v : Int) (vs : List Int) (u : Bytes) (us : List Bytes) :
    intervalTokens (v :: vs) (u :: us) = fieldToks v u ++ intervalTokens vs us := rfl

def unitAt (i : Nat) : Bytes := unitNames.getD i []

theorem unitIndex_unitAt (i : Nat) (h : i < 7) :
    unitIndex (unitAt i) = some i ∧ unitIndex (unitAt i ++ [115]) = some i ∧
    tokOk (unitAt i) = true ∧ tokOk (unitAt i ++ [115]) = true := by
  have : i = 0 ∨ i = 1 ∨ i = 2 ∨ i = 3 ∨ i = 4 ∨ i = 5 ∨ i = 6 := by omega
  rcases this with h | h | h | h | h | h | h <;> subst h <;> decide

theorem inI32_iff (v : Int) : inI32 v = true ↔ (i32Lo ≤ v ∧ v ≤ i32Hi) := by
  simp [inI32]

theorem loop_field (i : Nat) (hi : i < 7) (v : Int) (hv : inI32 v = true) (fs : List Int)
    (hz : v = 0 → fs.set i v = fs) (rest : List Bytes) :
    intervalLoop (fieldToks v (unitAt i) ++ rest) fs none = intervalLoop rest (fs.set i v) none := by
  unfold fieldToks
  by_cases h0 : v = 0
  · simp only [h0, if_true, List.nil_append]
    rw [← h0, hz h0]
  · simp only [h0, if_false, List.cons_append, List.nil_append]
    have hu := unitIndex_unitAt i hi
    rw [intervalLoop, parseIntRange_intDigits i32Lo i32Hi v ((inI32_iff v).mp hv)]
    simp only
    rw [intervalLoop]
    have hui : unitIndex (if v = 1 ∨ v = -1 then unitAt i else unitAt i ++ [115]) = some i := by
      split
      · exact hu.1
      · exact hu.2.1
    rw [hui]

theorem tokOk_fieldToks (i : Nat) (hi : i < 7) (v : Int) : (fieldToks v (unitAt i)).all tokOk = true := by
  have hu := unitIndex_unitAt i hi
  unfold fieldToks
  split
  · rfl
  · simp only [List.all_cons, List.all_nil, Bool.and_true, Bool.and_eq_true]
    refine ⟨tokOk_intDigits v, ?_⟩
    split
    · exact hu.2.2.1
    · exact hu.2.2.2

theorem tdm (a b : Int) (hb : 0 < b) :
    a.tdiv b * b + a.tmod b = a ∧
    (0 ≤ a → 0 ≤ a.tmod b ∧ a.tmod b < b ∧ 0 ≤ a.tdiv b) ∧
    (a ≤ 0 → -b < a.tmod b ∧ a.tmod b ≤ 0 ∧ a.tdiv b ≤ 0) := by
  refine ⟨Int.tdiv_mul_add_tmod a b, ?_, ?_⟩
  · intro ha
    exact ⟨Int.tmod_nonneg b ha, Int.tmod_lt_of_pos a hb, Int.tdiv_nonneg ha (Int.le_of_lt hb)⟩
  · intro ha
    have hna : 0 ≤ -a := by omega
    have h1 := Int.tmod_nonneg b hna
    have h2 := Int.tmod_lt_of_pos (-a) hb
    have h3 := Int.tdiv_nonneg hna (Int.le_of_lt hb)
    rw [Int.neg_tmod] at h1 h2
    rw [Int.neg_tdiv] at h3
    omega

theorem intervalTokens7 (a b c d e f g : Int) :
    intervalTokens [a, b, c, d, e, f, g] unitNames =
      fieldToks a (unitAt 0) ++ (fieldToks b (unitAt 1) ++ (fieldToks c (unitAt 2) ++
        (fieldToks d (unitAt 3) ++ (fieldToks e (unitAt 4) ++ (fieldToks f (unitAt 5) ++
          (fieldToks g (unitAt 6) ++ [])))))) := rfl

theorem allTokOk_fields (a b c d e f g : Int) :
    (intervalTokens [a, b, c, d, e, f, g] unitNames).all tokOk = true := by
  rw [intervalTokens7]
  simp only [List.all_append, List.all_nil, Bool.and_true,
    tokOk_fieldToks 0 (by decide), tokOk_fieldToks 1 (by decide), tokOk_fieldToks 2 (by decide),
    tokOk_fieldToks 3 (by decide), tokOk_fieldToks 4 (by decide), tokOk_fieldToks 5 (by decide),
    tokOk_fieldToks 6 (by decide), Bool.and_self]

theorem loop_fields (a b c d e f g : Int) (ha : inI32 a = true) (hb : inI32 b = true)
    (hc : inI32 c = true) (hd : inI32 d = true) (he : inI32 e = true) (hf : inI32 f = true)
    (hg : inI32 g = true) :
    intervalLoop (intervalTokens [a, b, c, d, e, f, g] unitNames) [0, 0, 0, 0, 0, 0, 0] none =
      .ok [a, b, c, d, e, f, g] := by
  rw [intervalTokens7]
  rw [loop_field 0 (by decide) a ha _ (by intro h; subst h; rfl),
    loop_field 1 (by decide) b hb _ (by intro h; subst h; rfl),
    loop_field 2 (by decide) c hc _ (by intro h; subst h; rfl),
    loop_field 3 (by decide) d hd _ (by intro h; subst h; rfl),
    loop_field 4 (by decide) e he _ (by intro h; subst h; rfl),
    loop_field 5 (by decide) f hf _ (by intro h; subst h; rfl),
    loop_field 6 (by decide) g hg _ (by intro h; subst h; rfl)]
  rfl

/-- EVERY interval with i32 fields survives Display + FromStr (milliseconds included since 2c03e9c) -/
theorem parseInterval_displayInterval (m d ms : Int) (hm : inI32 m = true) (hd : inI32 d = true)
    (hms : inI32 ms = true) :
    parseInterval (displayInterval m d ms) = .ok (m, d, ms) := by
  rw [inI32_iff] at hm hd hms
  simp only [i32Lo, i32Hi] at hm hd hms
  obtain ⟨m1, m2, m3⟩ := tdm m 12 (by decide)
  obtain ⟨s1, s2, s3⟩ := tdm ms 1000 (by decide)
  obtain ⟨t1, t2, t3⟩ := tdm (ms.tdiv 1000) 60 (by decide)
  obtain ⟨u1, u2, u3⟩ := tdm ((ms.tdiv 1000).tdiv 60) 60 (by decide)
  unfold parseInterval displayInterval intervalFields
  rw [tokenize_joinSp _ (allTokOk_fields _ _ _ _ _ _ _)]
  generalize hy : m.tdiv 12 = y at *
  generalize hmo : m.tmod 12 = mo at *
  generalize hsm : ms.tmod 1000 = sm at *
  generalize hS : ms.tdiv 1000 = S at *
  generalize hse : S.tmod 60 = se at *
  generalize hM : S.tdiv 60 = M at *
  generalize hmi : M.tmod 60 = mi at *
  generalize hh : M.tdiv 60 = h at *
  have bounds : (i32Lo ≤ y ∧ y ≤ i32Hi) ∧ (i32Lo ≤ mo ∧ mo ≤ i32Hi) ∧ (i32Lo ≤ h ∧ h ≤ i32Hi) ∧
      (i32Lo ≤ mi ∧ mi ≤ i32Hi) ∧ (i32Lo ≤ se ∧ se ≤ i32Hi) ∧
      (i32Lo ≤ h * 60 ∧ h * 60 ≤ i32Hi) ∧ (i32Lo ≤ h * 60 + mi ∧ h * 60 + mi ≤ i32Hi) ∧
      (i32Lo ≤ (h * 60 + mi) * 60 ∧ (h * 60 + mi) * 60 ≤ i32Hi) ∧
      (i32Lo ≤ (h * 60 + mi) * 60 + se ∧ (h * 60 + mi) * 60 + se ≤ i32Hi) ∧
      (i32Lo ≤ y * 12 ∧ y * 12 ≤ i32Hi) ∧ (i32Lo ≤ sm ∧ sm ≤ i32Hi) ∧
      (i32Lo ≤ ((h * 60 + mi) * 60 + se) * 1000 ∧ ((h * 60 + mi) * 60 + se) * 1000 ≤ i32Hi) := by
    simp only [i32Lo, i32Hi]
    rcases Int.le_total 0 ms with hp | hp <;> rcases Int.le_total 0 m with hq | hq
    all_goals (
      first
        | (have a1 := s2 hp; have a2 := m2 hq
           have a3 := t2 (by omega); have a4 := u2 (by omega); omega)
        | (have a1 := s2 hp; have a2 := m3 hq
           have a3 := t2 (by omega); have a4 := u2 (by omega); omega)
        | (have a1 := s3 hp; have a2 := m2 hq
           have a3 := t3 (by omega); have a4 := u3 (by omega); omega)
        | (have a1 := s3 hp; have a2 := m3 hq
           have a3 := t3 (by omega); have a4 := u3 (by omega); omega))
  obtain ⟨b1, b2, b3, b4, b5, b6, b7, b8, b9, b10, b11, b12⟩ := bounds
  rw [loop_fields y mo d h mi se sm ((inI32_iff _).mpr b1) ((inI32_iff _).mpr b2)
    ((inI32_iff _).mpr (by simp only [i32Lo, i32Hi]; exact hd)) ((inI32_iff _).mpr b3)
    ((inI32_iff _).mpr b4) ((inI32_iff _).mpr b5) ((inI32_iff _).mpr b11)]
  have e1 : y * 12 + mo = m := by omega
  have e2 : ((h * 60 + mi) * 60 + se) * 1000 + sm = ms := by omega
  have c1 := (inI32_iff _).mpr b10
  have c2 : inI32 m = true := by rw [inI32_iff]; simp only [i32Lo, i32Hi]; exact hm
  have c3 := (inI32_iff _).mpr b6
  have c4 := (inI32_iff _).mpr b7
  have c5 := (inI32_iff _).mpr b8
  have c6 := (inI32_iff _).mpr b9
  have c7 := (inI32_iff _).mpr b12
  have c8 : inI32 ms = true := by
    rw [inI32_iff]; simp only [i32Lo, i32Hi]; exact hms
  simp only [c1, c2, c3, c4, c5, c6, c7, c8, Bool.and_self, if_true, e1, e2]

/-! ### timestamps -/

theorem scanYmd_fmtYmd_rest (y m d : Int) (hm0 : 0 ≤ m) (hm1 : m ≤ 99) (hd0 : 0 ≤ d) (hd1 : d ≤ 99)
    (rest : Bytes) : scanYmd (fmtYmd y m d ++ rest) = some (y, m, d, rest) := by
  unfold scanYmd fmtYmd
  simp only [List.append_assoc, List.cons_append, List.nil_append]
  rw [scanYear_fmtYear]
  simp only [Option.bind_some, expectByte, if_true]
  rw [scan2_fmt2 m hm0 hm1]
  simp only [Option.bind_some, expectByte, if_true]
  rw [scan2_fmt2 d hd0 hd1]
  rfl

theorem scan2_space (s : Bytes) : scan2 (32 :: s) = scan2 s := by
  simp [scan2, skipWs, isWs]

theorem scanHms_fmtHms (sec : Int) (h0 : 0 ≤ sec) (h1 : sec < 86400) (rest : Bytes) :
    ((scan2 (32 :: (fmtHms sec ++ rest))).bind fun h =>
      (expectByte 58 h.2).bind fun r2 =>
      (scan2 r2).bind fun mi =>
      (expectByte 58 mi.2).bind fun r3 =>
      (scan2 r3).bind fun se => some (h.1, mi.1, se.1, se.2)) =
    some (sec / 3600, sec / 60 % 60, sec % 60, rest) := by
  unfold fmtHms
  rw [scan2_space]
  simp only [List.append_assoc, List.cons_append, List.nil_append]
  rw [scan2_fmt2 (sec / 3600) (by omega) (by omega)]
  simp only [Option.bind_some, expectByte, if_true]
  rw [scan2_fmt2 (sec / 60 % 60) (by omega) (by omega)]
  simp only [Option.bind_some, expectByte, if_true]
  rw [scan2_fmt2 (sec % 60) (by omega) (by omega)]
  rfl

theorem scanYmdHms_fmt (y m d sec : Int) (hm0 : 0 ≤ m) (hm1 : m ≤ 99) (hd0 : 0 ≤ d) (hd1 : d ≤ 99)
    (h0 : 0 ≤ sec) (h1 : sec < 86400) (rest : Bytes) :
    scanYmdHms (fmtYmd y m d ++ [32] ++ fmtHms sec ++ rest) =
      some (y, m, d, sec / 3600, sec / 60 % 60, sec % 60, rest) := by
  unfold scanYmdHms
  rw [show fmtYmd y m d ++ [32] ++ fmtHms sec ++ rest = fmtYmd y m d ++ (32 :: (fmtHms sec ++ rest)) by simp]
  rw [scanYmd_fmtYmd_rest y m d hm0 hm1 hd0 hd1]
  simp only [Option.bind_some]
  have := scanHms_fmtHms sec h0 h1 rest
  simp only [Option.bind] at this ⊢
  revert this
  cases scan2 (32 :: (fmtHms sec ++ rest)) with
  | none => simp
  | some hh =>
    simp only
    cases expectByte 58 hh.2 with
    | none => simp
    | some r2 =>
      simp only
      cases scan2 r2 with
      | none => simp
      | some mi =>
        simp only
        cases expectByte 58 mi.2 with
        | none => simp
        | some r3 =>
          simp only
          cases scan2 r3 with
          | none => simp
          | some se =>
            simp only
            intro h
            injection h with h
            simp only [Prod.mk.injEq] at h
            obtain ⟨a, b, c, e⟩ := h
            rw [a, b, c, e]

theorem isLeap_neg (y : Int) : isLeap (-y) = isLeap y := by
  have h4 : ((-y) % 4 = 0) ↔ (y % 4 = 0) := by omega
  have h100 : ((-y) % 100 = 0) ↔ (y % 100 = 0) := by omega
  have h400 : ((-y) % 400 = 0) ↔ (y % 400 = 0) := by omega
  simp only [isLeap, ne_eq, h4, h100, h400]

theorem validYmd_neg (y m d : Int) : validYmd (-y) m d = validYmd y m d := by
  unfold validYmd daysInMonth
  rw [isLeap_neg]

theorem dropWhile_isDigit_tail (tail : Bytes) (ht : tail = [] ∨ ∃ t, tail = 32 :: t) :
    tail.dropWhile isDigit = tail := by
  rcases ht with h | ⟨t, h⟩ <;> subst h
  · rfl
  · have : isDigit 32 = false := by decide
    simp [List.dropWhile, this]

theorem scanFrac_fmtFracUs (fr : Int) (h0 : 0 ≤ fr) (h1 : fr < 1000000) (tail : Bytes)
    (ht : tail = [] ∨ ∃ t, tail = 32 :: t) :
    scanFrac (fmtFracUs fr ++ tail) = some (fr, tail) := by
  have htd : tail = [] ∨ ∃ b r, tail = b :: r ∧ isDigit b = false := by
    rcases ht with h | ⟨t, h⟩
    · left; exact h
    · right; exact ⟨32, t, h, by decide⟩
  unfold fmtFracUs
  by_cases hz : fr = 0
  · subst hz
    simp only [if_true, List.nil_append]
    rcases ht with h | ⟨t, h⟩ <;> subst h <;> rfl
  · rw [if_neg hz]
    by_cases hm : fr % 1000 = 0
    · rw [if_pos hm]
      have hA := allDigits_padZero 3 _ (allDigits_natDigits (fr / 1000).natAbs)
      have hP := parseNat_padZero 3 (natDigits (fr / 1000).natAbs)
      rw [parseNat_natDigits] at hP
      have hL := length_padZero 3 _ (length_natDigits_le (fr / 1000).natAbs 2 (by omega))
      generalize padZero 3 (natDigits (fr / 1000).natAbs) = ds at *
      have ht9 := takeDigits_append 9 ds tail hA (by omega) (Or.inr htd)
      simp only [List.cons_append, scanFrac, ht9, hP, hL, dropWhile_isDigit_tail tail ht]
      have hne : ds.isEmpty = false := by cases ds <;> simp at hL ⊢
      simp only [hne, Bool.false_eq_true, if_false, Option.some.injEq, Prod.mk.injEq, and_true]
      have : ((fr / 1000).natAbs * 10 ^ (9 - 3) / 1000 : Nat) = fr.natAbs := by
        have e : (10 : Nat) ^ (9 - 3) = 1000000 := by decide
        rw [e]; omega
      rw [this]; omega
    · rw [if_neg hm]
      have hA := allDigits_padZero 6 _ (allDigits_natDigits fr.natAbs)
      have hP := parseNat_padZero 6 (natDigits fr.natAbs)
      rw [parseNat_natDigits] at hP
      have hL := length_padZero 6 _ (length_natDigits_le fr.natAbs 5 (by omega))
      generalize padZero 6 (natDigits fr.natAbs) = ds at *
      have ht9 := takeDigits_append 9 ds tail hA (by omega) (Or.inr htd)
      simp only [List.cons_append, scanFrac, ht9, hP, hL, dropWhile_isDigit_tail tail ht]
      have hne : ds.isEmpty = false := by cases ds <;> simp at hL ⊢
      simp only [hne, Bool.false_eq_true, if_false, Option.some.injEq, Prod.mk.injEq, and_true]
      have : (fr.natAbs * 10 ^ (9 - 6) / 1000 : Nat) = fr.natAbs := by
        have e : (10 : Nat) ^ (9 - 6) = 1000 := by decide
        rw [e]; omega
      rw [this]; omega

/-- EVERY printable timestamp (µs precision, AD and BC, signed wide years) survives Display +
FromStr, except in chrono's first year −262143, whose BC mirror +262143 is out of range. -/
theorem parseTimestamp_displayTimestamp (us : Int) (hp : tsPrintable us = true)
    (hy : chronoMinYear < (civilFromDays ((us - thirtyYearsUs) / 86400000000)).1) :
    ∃ t, displayTimestamp us = .ok t ∧ parseTimestamp t = some (.ok us) := by
  have hp' := hp
  simp only [tsPrintable, Bool.and_eq_true, Bool.not_eq_true', decide_eq_false_iff_not] at hp'
  obtain ⟨_, hr⟩ := hp'
  generalize hu : us - thirtyYearsUs = u at *
  have hday : u / 86400000000 = u / 1000000 / 86400 := by omega
  rw [hday] at hr hy
  generalize hk : u / 1000000 = k at *
  have hfr0 : 0 ≤ u % 1000000 := by omega
  have hfr1 : u % 1000000 < 1000000 := by omega
  have hv := civilFromDays_valid (k / 86400)
  have hyr := civilFromDays_year_range (k / 86400) hr
  have hdc := daysFromCivil_civilFromDays (k / 86400)
  have hb := (validYmd_iff _ _ _).mp hv
  have hdim : daysInMonth (civilFromDays (k / 86400)).1 (civilFromDays (k / 86400)).2.1 ≤ 31 := by
    unfold daysInMonth; split <;> (try split) <;> omega
  have hsod0 : 0 ≤ k % 86400 := by omega
  have hsod1 : k % 86400 < 86400 := by omega
  have hback : ((k / 86400) * 86400 + (k % 86400 / 3600) * 3600 + (k % 86400 / 60 % 60) * 60 + k % 86400 % 60) * 1000000
      + thirtyYearsUs + u % 1000000 = us := by
    have : us = u + thirtyYearsUs := by omega
    rw [this]; omega
  unfold displayTimestamp
  simp only [hp, Bool.not_true, Bool.false_eq_true, if_false, hu, hk]
  generalize hc : civilFromDays (k / 86400) = c at *
  obtain ⟨y, m, d⟩ := c
  simp only at hv hyr hdc hb hdim hy ⊢
  have c2 : ¬ (k % 86400 % 60 = 60) := by omega
  by_cases hneg : y < 0
  · simp only [hneg, if_true]
    refine ⟨_, rfl, ?_⟩
    rw [show fmtYmd (-y) m d ++ [32] ++ (fmtHms (k % 86400) ++ fmtFracUs (u % 1000000)) ++ [32, 66, 67] =
        fmtYmd (-y) m d ++ [32] ++ fmtHms (k % 86400) ++ (fmtFracUs (u % 1000000) ++ [32, 66, 67]) by simp]
    unfold parseTimestamp
    rw [scanYmdHms_fmt (-y) m d (k % 86400) (by omega) (by omega) (by omega) (by omega) hsod0 hsod1]
    simp only
    rw [scanFrac_fmtFracUs _ hfr0 hfr1 [32, 66, 67] (Or.inr ⟨_, rfl⟩)]
    have hvn : validYmd (-y) m d = true := by rw [validYmd_neg]; exact hv
    have c1 : chronoMinYear ≤ -y ∧ -y ≤ chronoMaxYear ∧ validYmd (-y) m d = true ∧
        k % 86400 / 3600 ≤ 23 ∧ k % 86400 / 60 % 60 ≤ 59 ∧ k % 86400 % 60 ≤ 60 := by
      simp only [chronoMinYear, chronoMaxYear] at hyr hy ⊢
      refine ⟨by omega, by omega, hvn, by omega, by omega, by omega⟩
    have hsuf : parseTsSuffix [32, 66, 67] = some (true, none) := by decide
    simp only [c1, and_self, not_true_eq_false, if_false, c2, hsuf]
    have c3 : chronoMinYear ≤ - -y ∧ validYmd (- -y) m d = true := by
      rw [Int.neg_neg]; exact ⟨hyr.1, hv⟩
    simp only [finishTimestamp, Bool.false_eq_true, false_and, if_false, if_true,
      Int.neg_neg, timestampOfCivil, hdc, hback]
    have c4 : ¬ (True ∧ ¬ (chronoMinYear ≤ y ∧ validYmd y m d = true)) := by
      intro h; exact h.2 ⟨hyr.1, hv⟩
    rw [if_neg c4]
  · simp only [hneg, if_false]
    refine ⟨_, rfl, ?_⟩
    rw [show fmtYmd y m d ++ [32] ++ (fmtHms (k % 86400) ++ fmtFracUs (u % 1000000)) =
        fmtYmd y m d ++ [32] ++ fmtHms (k % 86400) ++ (fmtFracUs (u % 1000000) ++ []) by simp]
    unfold parseTimestamp
    rw [scanYmdHms_fmt y m d (k % 86400) (by omega) (by omega) (by omega) (by omega) hsod0 hsod1]
    simp only
    rw [scanFrac_fmtFracUs _ hfr0 hfr1 [] (Or.inl rfl)]
    have c1 : chronoMinYear ≤ y ∧ y ≤ chronoMaxYear ∧ validYmd y m d = true ∧
        k % 86400 / 3600 ≤ 23 ∧ k % 86400 / 60 % 60 ≤ 59 ∧ k % 86400 % 60 ≤ 60 :=
      ⟨hyr.1, hyr.2, hv, by omega, by omega, by omega⟩
    have hsuf : parseTsSuffix [] = some (false, none) := by decide
    simp only [c1, and_self, not_true_eq_false, if_false, c2, hsuf]
    simp only [finishTimestamp, Bool.false_eq_true, false_and, if_false, if_true,
      timestampOfCivil, hdc, hback]

end V19
end RlModel
