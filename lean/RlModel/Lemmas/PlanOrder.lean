import RlModel.Lemmas.PlanSem
/-! The ORDER BY comparison of the plan semantics is a strict weak order, and a stable sort
commutes with filtering (C01, rule `pushdown-filter-order`). -/
namespace RlModel.P

theorem String.lt_or_gt_of_ne' {a b : String} (h : a ≠ b) : a < b ∨ b < a := by
  by_cases hab : a < b
  · exact Or.inl hab
  · right
    have hba : b ≤ a := String.not_lt.mp hab
    by_cases hle : a ≤ b
    · exact absurd (String.le_antisymm hle hba) h
    · exact String.not_le.mp hle

theorem pvLt_irrefl (a : PV) : pvLt a a = false := by
  cases a <;> simp [pvLt, pvRank]

theorem pvLt_total {a b : PV} (h : a ≠ b) : pvLt a b = true ∨ pvLt b a = true := by
  cases a <;> cases b <;> simp_all [pvLt, pvRank]
  · rename_i x y; cases x <;> cases y <;> simp_all
  · omega
  · exact String.lt_or_gt_of_ne' h

theorem pvLt_trans {a b c : PV} (h1 : pvLt a b = true) (h2 : pvLt b c = true) : pvLt a c = true := by
  cases a <;> cases b <;> cases c <;> simp_all [pvLt, pvRank]
  · omega
  · exact String.lt_trans h1 h2

theorem pvLt_asymm {a b : PV} (h : pvLt a b = true) : pvLt b a = false := by
  cases hba : pvLt b a with
  | false => rfl
  | true =>
    have := pvLt_trans h hba
    rw [pvLt_irrefl] at this
    cases this

/-- `x < z → x < y ∨ y < z` for the value order. -/
theorem pvLt_negtrans {x z : PV} (y : PV) (h : pvLt x z = true) : pvLt x y = true ∨ pvLt y z = true := by
  by_cases hxy : pvLt x y = true
  · exact Or.inl hxy
  · right
    by_cases hyx : y = x
    · subst hyx; exact h
    · rcases pvLt_total hyx with h' | h'
      · exact pvLt_trans h' h
      · exact absurd h' hxy

def dirLt (desc : Bool) (a b : PV) : Bool := if desc then pvLt b a else pvLt a b

theorem dirLt_total (d : Bool) {a b : PV} (h : a ≠ b) : dirLt d a b = true ∨ dirLt d b a = true := by
  cases d <;> simp only [dirLt]
  · exact pvLt_total h
  · exact (pvLt_total h).symm

theorem dirLt_negtrans (d : Bool) {x z : PV} (y : PV) (h : dirLt d x z = true) :
    dirLt d x y = true ∨ dirLt d y z = true := by
  cases d <;> simp only [dirLt] at *
  · exact pvLt_negtrans y h
  · exact (pvLt_negtrans y h).symm

theorem keysLt_cons (k : Key) (ks : List Key) (ρ σ : Env) :
    keysLt (k :: ks) ρ σ = if k.e ρ = k.e σ then keysLt ks ρ σ else dirLt k.desc (k.e ρ) (k.e σ) := by
  simp only [keysLt, dirLt]

theorem dirLt_asymm (d : Bool) {a b : PV} (h : dirLt d a b = true) : dirLt d b a = false := by
  cases d <;> simp only [dirLt] at * <;> exact pvLt_asymm h

theorem keysLt_asymm (ks : List Key) (a b : Env) (h : keysLt ks a b = true) : keysLt ks b a = false := by
  induction ks with
  | nil => simp [keysLt] at h
  | cons k ks ih =>
    rw [keysLt_cons] at h ⊢
    by_cases hab : k.e a = k.e b
    · rw [if_pos hab] at h; rw [if_pos hab.symm]; exact ih h
    · rw [if_neg hab] at h; rw [if_neg (fun e => hab e.symm)]; exact dirLt_asymm k.desc h

/-- The ORDER BY comparison is negatively transitive (a strict weak order). -/
theorem keysLt_negtrans (ks : List Key) (a b c : Env) (h : keysLt ks a c = true) :
    keysLt ks a b = true ∨ keysLt ks b c = true := by
  induction ks with
  | nil => simp [keysLt] at h
  | cons k ks ih =>
    rw [keysLt_cons] at h
    rw [keysLt_cons k ks a b, keysLt_cons k ks b c]
    by_cases hxz : k.e a = k.e c
    · rw [if_pos hxz] at h
      by_cases hxy : k.e a = k.e b
      · have hyz : k.e b = k.e c := hxy.symm.trans hxz
        rw [if_pos hxy, if_pos hyz]; exact ih h
      · have hyz : ¬ k.e b = k.e c := fun e => hxy (hxz.trans e.symm)
        rw [if_neg hxy, if_neg hyz]
        rw [← hxz]
        exact dirLt_total k.desc hxy
    · rw [if_neg hxz] at h
      by_cases hxy : k.e a = k.e b
      · have hyz : ¬ k.e b = k.e c := fun e => hxz (hxy.trans e)
        rw [if_pos hxy, if_neg hyz]
        right; rw [← hxy]; exact h
      · by_cases hyz : k.e b = k.e c
        · rw [if_neg hxy, if_pos hyz]
          left; rw [hyz]; exact h
        · rw [if_neg hxy, if_neg hyz]
          exact dirLt_negtrans k.desc (k.e b) h

/-- Strict weak order: asymmetric and negatively transitive. -/
structure StrictWeak (lt : Env → Env → Bool) : Prop where
  asymm : ∀ a b, lt a b = true → lt b a = false
  negtrans : ∀ a b c, lt a c = true → lt a b = true ∨ lt b c = true

theorem keysLt_strictWeak (ks : List Key) : StrictWeak (keysLt ks) :=
  ⟨keysLt_asymm ks, keysLt_negtrans ks⟩

theorem insertSorted_front (lt : Env → Env → Bool) (x : Env) (l : List Env)
    (h : ∀ y ∈ l, lt y x = false) : insertSorted lt x l = x :: l := by
  cases l with
  | nil => rfl
  | cons y ys => simp [insertSorted, h y (by simp)]

/-- Sortedness: no later element sorts strictly before an earlier one. -/
def SortedBy (lt : Env → Env → Bool) : List Env → Prop
  | [] => True
  | x :: xs => (∀ y ∈ xs, lt y x = false) ∧ SortedBy lt xs

theorem insertSorted_mem (lt : Env → Env → Bool) (x z : Env) (l : List Env) :
    z ∈ insertSorted lt x l ↔ z = x ∨ z ∈ l := by
  induction l with
  | nil => simp [insertSorted]
  | cons y ys ih =>
    by_cases h : lt y x = true
    · simp only [insertSorted, h, if_true, List.mem_cons, ih]
      constructor
      · rintro (h1 | h1 | h1) <;> simp [h1]
      · rintro (h1 | h1 | h1) <;> simp [h1]
    · simp [insertSorted, h]

theorem insertSorted_sorted (lt : Env → Env → Bool) (hw : StrictWeak lt) (x : Env) (l : List Env)
    (hs : SortedBy lt l) : SortedBy lt (insertSorted lt x l) := by
  induction l with
  | nil => simp [insertSorted, SortedBy]
  | cons y ys ih =>
    obtain ⟨hy, hys⟩ := hs
    by_cases h : lt y x = true
    · simp only [insertSorted, h, if_true, SortedBy]
      refine ⟨?_, ih hys⟩
      intro z hz
      rcases (insertSorted_mem lt x z ys).mp hz with rfl | hz'
      · exact hw.asymm _ _ h
      · exact hy z hz'
    · have h' : lt y x = false := by simpa using h
      simp only [insertSorted, h, SortedBy]
      refine ⟨?_, hy, hys⟩
      intro z hz
      rcases List.mem_cons.mp hz with rfl | hz'
      · exact h'
      · cases hzx : lt z x with
        | false => rfl
        | true =>
          rcases hw.negtrans z y x hzx with h1 | h1
          · rw [hy z hz'] at h1; cases h1
          · rw [h'] at h1; cases h1

theorem sortRows_sorted (lt : Env → Env → Bool) (hw : StrictWeak lt) (xs : List Env) :
    SortedBy lt (sortRows lt xs) := by
  induction xs with
  | nil => trivial
  | cons x xs ih => exact insertSorted_sorted lt hw x _ ih

theorem SortedBy.filter (lt : Env → Env → Bool) (p : Env → Bool) (l : List Env) (hs : SortedBy lt l) :
    SortedBy lt (l.filter p) := by
  induction l with
  | nil => trivial
  | cons y ys ih =>
    obtain ⟨hy, hys⟩ := hs
    by_cases hp : p y = true
    · simp only [List.filter_cons, hp, if_true, SortedBy]
      exact ⟨fun z hz => hy z (List.mem_filter.mp hz).1, ih hys⟩
    · simp only [List.filter_cons, hp]
      exact ih hys

/-- Inserting into a sorted list commutes with filtering. -/
theorem insertSorted_filter (lt : Env → Env → Bool) (hw : StrictWeak lt) (p : Env → Bool) (x : Env)
    (ys : List Env) (hs : SortedBy lt ys) :
    (insertSorted lt x ys).filter p = if p x then insertSorted lt x (ys.filter p) else ys.filter p := by
  induction ys with
  | nil => by_cases hx : p x <;> simp [insertSorted, hx]
  | cons y ys ih =>
    obtain ⟨hy, hys⟩ := hs
    by_cases hlt : lt y x = true
    · simp only [insertSorted, hlt, if_true, List.filter_cons]
      by_cases hpy : p y = true <;> by_cases hx : p x = true <;>
        simp [hpy, hx, ih hys, insertSorted, hlt]
    · have hlt' : lt y x = false := by simpa using hlt
      -- x goes to the front; every element of y :: ys is not strictly before x
      have hall : ∀ z ∈ y :: ys, lt z x = false := by
        intro z hz
        rcases List.mem_cons.mp hz with rfl | hz'
        · exact hlt'
        · cases hzx : lt z x with
          | false => rfl
          | true =>
            rcases hw.negtrans z y x hzx with h1 | h1
            · rw [hy z hz'] at h1; cases h1
            · rw [hlt'] at h1; cases h1
      have hfront : insertSorted lt x ((y :: ys).filter p) = x :: (y :: ys).filter p :=
        insertSorted_front lt x _ (fun z hz => hall z (List.mem_filter.mp hz).1)
      have hins : insertSorted lt x (y :: ys) = x :: y :: ys := by simp [insertSorted, hlt']
      rw [hins]
      by_cases hx : p x = true
      · rw [if_pos hx, hfront]
        simp [List.filter_cons, hx]
      · rw [if_neg hx]
        simp [List.filter_cons, hx]

/-- Filtering commutes with a stable sort by a strict weak order. -/
theorem sortRows_filter (lt : Env → Env → Bool) (hw : StrictWeak lt) (p : Env → Bool) (xs : List Env) :
    (sortRows lt xs).filter p = sortRows lt (xs.filter p) := by
  induction xs with
  | nil => rfl
  | cons x xs ih =>
    simp only [sortRows]
    rw [insertSorted_filter lt hw p x _ (sortRows_sorted lt hw xs), ih]
    by_cases hx : p x = true <;> simp [List.filter_cons, hx, sortRows]

end RlModel.P
