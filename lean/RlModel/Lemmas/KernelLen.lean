import RlModel.Lemmas.KernelEval
/-! Length preservation: every kernel returns an array of the common length of its inputs, and
`evalK` over a well-formed chunk returns arrays of the chunk's cardinality. -/
namespace RlModel

theorem zipSlotM_length {α β γ} (g : Slot α → Slot β → KOut (Slot γ)) (a : Arr α) (b : Arr β)
    (c : Arr γ) (h : zipSlotM g a b = .ok c) : c.length = a.length ∧ a.length = b.length := by
  induction a generalizing b c with
  | nil =>
    cases b with
    | nil => simp [zipSlotM] at h; subst h; simp
    | cons y ys => simp [zipSlotM] at h
  | cons x xs ih =>
    cases b with
    | nil => simp [zipSlotM] at h
    | cons y ys =>
      simp only [zipSlotM] at h
      cases hxy : g x y with
      | ok r =>
        cases hz : zipSlotM g xs ys with
        | ok rs =>
          simp only [hxy, hz] at h
          cases h
          obtain ⟨h1, h2⟩ := ih ys rs hz
          simp [h1, h2]
        | err => simp [hxy, hz] at h
        | panic => simp [hxy, hz] at h
      | err => simp [hxy] at h
      | panic => simp [hxy] at h

theorem binaryOp_length {α β γ} (f : α → β → KOut γ) (a : Arr α) (b : Arr β) (c : Arr γ)
    (h : binaryOp f a b = .ok c) : c.length = a.length ∧ a.length = b.length := by
  by_cases hl : a.length = b.length
  · rw [binaryOp_eq_zipSlotM f a b hl] at h
    exact zipSlotM_length _ a b c h
  · rw [binaryOp_len_ne f a b hl] at h; cases h

theorem fromData_length {α} (r : List α) (v : List Bool) (h : r.length = v.length) :
    (fromData r v).length = r.length := by
  induction r generalizing v with
  | nil => cases v <;> simp [fromData]
  | cons x xs ih =>
    cases v with
    | nil => simp at h
    | cons y ys => simp [fromData, ih ys (by simpa using h)]

theorem mapRawM_length {α γ} (f : α → KOut γ) (xs : List α) (r : List γ)
    (h : mapRawM f xs = .ok r) : r.length = xs.length := by
  induction xs generalizing r with
  | nil => simp [mapRawM] at h; subst h; rfl
  | cons x xs ih =>
    simp only [mapRawM] at h
    cases hx : f x with
    | ok c =>
      cases hm : mapRawM f xs with
      | ok rs => simp [hx, hm] at h; subst h; simp [ih rs hm]
      | err => simp [hx, hm] at h
      | panic => simp [hx, hm] at h
    | err => simp [hx] at h
    | panic => simp [hx] at h

theorem unaryOp_length {α γ} (f : α → KOut γ) (a : Arr α) (c : Arr γ)
    (h : unaryOp f a = .ok c) : c.length = a.length := by
  simp only [unaryOp] at h
  cases hm : mapRawM f (raws a) with
  | ok r =>
    simp [hm] at h; subst h
    have := mapRawM_length f (raws a) r hm
    rw [fromData_length r (valids a) (by simp [this, raws, valids])]
    simp [this, raws]
  | err => simp [hm] at h
  | panic => simp [hm] at h

theorem tryUnaryOp_length {α γ} (d : γ) (f : α → KOut γ) (a : Arr α) (c : Arr γ)
    (h : tryUnaryOp d f a = .ok c) : c.length = a.length := by
  induction a generalizing c with
  | nil => simp [tryUnaryOp] at h; subst h; rfl
  | cons x xs ih =>
    simp only [tryUnaryOp] at h
    split at h
    · cases hf : f x.raw with
      | ok v =>
        cases ht : tryUnaryOp d f xs with
        | ok r => simp [hf, ht] at h; subst h; simp [ih r ht]
        | err => simp [hf, ht] at h
        | panic => simp [hf, ht] at h
      | err => simp [hf] at h
      | panic => simp [hf] at h
    · cases ht : tryUnaryOp d f xs with
      | ok r => simp [ht] at h; subst h; simp [ih r ht]
      | err => simp [ht] at h
      | panic => simp [ht] at h

theorem zip3_length {α} (f : Slot Bool → Slot α → Slot α → Slot α) (s : Arr Bool) (a b : Arr α)
    (h1 : a.length = b.length) (h2 : s.length = a.length) : (zip3 f s a b).length = a.length := by
  induction s generalizing a b with
  | nil => cases a <;> simp_all [zip3]
  | cons s0 ss ih =>
    cases a with
    | nil => simp at h2
    | cons a0 as =>
      cases b with
      | nil => simp at h1
      | cons b0 bs => simp [zip3, ih as bs (by simpa using h1) (by simpa using h2)]

theorem selectOp_length {α} (s : Arr Bool) (a b c : Arr α) (h : selectOp s a b = .ok c) :
    c.length = a.length ∧ a.length = b.length ∧ s.length = a.length := by
  by_cases h1 : a.length = b.length
  · by_cases h2 : s.length = a.length
    · rw [selectOp_eq s a b h1 h2] at h
      cases h
      exact ⟨zip3_length _ s a b h1 h2, h1, h2⟩
    · simp [selectOp, h2] at h
  · simp [selectOp, h1] at h

end RlModel
