import RlModel.Lemmas.KernelEval
/-! Length preservation: every kernel returns an array of the common length of its inputs, and
`evalK` over a well-formed chunk returns arrays of the chunk's cardinality. -/
namespace RlModel

theorem zipSlotM_length {α β γ} (g : Slot α → Slot β → KOut (Slot γ)) (a : Arr α) (b : Arr β)
    (c : Arr γ) (h : zipSlotM g a b = .ok c) : c.length = a.length ∧ a.length = b.length := by
  induction a generalizing b c with
  | nil =>
    cases b with
    | nil => simp [zipSlotM] at h; subst h; simp
    | cons y ys => simp [zipSlotM] at h
  | cons x xs ih =>
    cases b with
    | nil => simp [zipSlotM] at h
    | cons y ys =>
      simp only [zipSlotM] at h
      cases hxy : g x y with
      | ok r =>
        cases hz : zipSlotM g xs ys with
        | ok rs =>
          simp only [hxy, hz] at h
          cases h
          obtain ⟨h1, h2⟩ := ih ys rs hz
          simp [h1, h2]
        | err => simp [hxy, hz] at h
        | panic => simp [hxy, hz] at h
      | err => simp [hxy] at h
      | panic => simp [hxy] at h

theorem binaryOp_length {α β γ} (f : α → β → KOut γ) (a : Arr α) (b : Arr β) (c : Arr γ)
    (h : binaryOp f a b = .ok c) : c.length = a.length ∧ a.length = b.length := by
  by_cases hl : a.length = b.length
  · rw [binaryOp_eq_zipSlotM f a b hl] at h
    exact zipSlotM_length _ a b c h
  · rw [binaryOp_len_ne f a b hl] at h; cases h

theorem tryBinaryOp_length {α β γ} (d : γ) (f : α → β → KOut γ) (a : Arr α) (b : Arr β)
    (c : Arr γ) (h : tryBinaryOp d f a b = .ok c) : c.length = a.length ∧ a.length = b.length := by
  unfold tryBinaryOp at h
  split at h
  · cases h
  · exact zipSlotM_length _ a b c h

theorem fromData_length {α} (r : List α) (v : List Bool) (h : r.length = v.length) :
    (fromData r v).length = r.length := by
  induction r generalizing v with
  | nil => cases v <;> simp [fromData]
  | cons x xs ih =>
    cases v with
    | nil => simp at h
    | cons y ys => simp [fromData, ih ys (by simpa using h)]

theorem mapRawM_length {α γ} (f : α → KOut γ) (xs : List α) (r : List γ)
    (h : mapRawM f xs = .ok r) : r.length = xs.length := by
  induction xs generalizing r with
  | nil => simp [mapRawM] at h; subst h; rfl
  | cons x xs ih =>
    simp only [mapRawM] at h
    cases hx : f x with
    | ok c =>
      cases hm : mapRawM f xs with
      | ok rs => simp [hx, hm] at h; subst h; simp [ih rs hm]
      | err => simp [hx, hm] at h
      | panic => simp [hx, hm] at h
    | err => simp [hx] at h
    | panic => simp [hx] at h

theorem unaryOp_length {α γ} (f : α → KOut γ) (a : Arr α) (c : Arr γ)
    (h : unaryOp f a = .ok c) : c.length = a.length := by
  simp only [unaryOp] at h
  cases hm : mapRawM f (raws a) with
  | ok r =>
    simp [hm] at h; subst h
    have := mapRawM_length f (raws a) r hm
    rw [fromData_length r (valids a) (by simp [this, raws, valids])]
    simp [this, raws]
  | err => simp [hm] at h
  | panic => simp [hm] at h

theorem tryUnaryOp_length {α γ} (d : γ) (f : α → KOut γ) (a : Arr α) (c : Arr γ)
    (h : tryUnaryOp d f a = .ok c) : c.length = a.length := by
  induction a generalizing c with
  | nil => simp [tryUnaryOp] at h; subst h; rfl
  | cons x xs ih =>
    simp only [tryUnaryOp] at h
    split at h
    · cases hf : f x.raw with
      | ok v =>
        cases ht : tryUnaryOp d f xs with
        | ok r => simp [hf, ht] at h; subst h; simp [ih r ht]
        | err => simp [hf, ht] at h
        | panic => simp [hf, ht] at h
      | err => simp [hf] at h
      | panic => simp [hf] at h
    · cases ht : tryUnaryOp d f xs with
      | ok r => simp [ht] at h; subst h; simp [ih r ht]
      | err => simp [ht] at h
      | panic => simp [ht] at h

theorem zip3_length {α} (f : Slot Bool → Slot α → Slot α → Slot α) (s : Arr Bool) (a b : Arr α)
    (h1 : a.length = b.length) (h2 : s.length = a.length) : (zip3 f s a b).length = a.length := by
  induction s generalizing a b with
  | nil => cases a <;> simp_all [zip3]
  | cons s0 ss ih =>
    cases a with
    | nil => simp at h2
    | cons a0 as =>
      cases b with
      | nil => simp at h1
      | cons b0 bs => simp [zip3, ih as bs (by simpa using h1) (by simpa using h2)]

theorem selectOp_length {α} (s : Arr Bool) (a b c : Arr α) (h : selectOp s a b = .ok c) :
    c.length = a.length ∧ a.length = b.length ∧ s.length = a.length := by
  by_cases h1 : a.length = b.length
  · by_cases h2 : s.length = a.length
    · rw [selectOp_eq s a b h1 h2] at h
      cases h
      exact ⟨zip3_length _ s a b h1 h2, h1, h2⟩
    · simp [selectOp, h2] at h
  · simp [selectOp, h1] at h

end RlModel

namespace RlModel

/-- Every column of the chunk has the chunk's cardinality. -/
def ChunkWF (chunk : List Col) (n : Nat) : Prop := ∀ c ∈ chunk, c.len = n

theorem ternaryOp_length {α β γ δ} (d : δ) (f : α → β → γ → δ) (a : Arr α) (b : Arr β) (c : Arr γ)
    (h1 : a.length = b.length) (h2 : b.length = c.length) :
    (ternaryOp d f a b c).length = a.length := by
  induction a generalizing b c with
  | nil => simp [ternaryOp]
  | cons x xs ih =>
    cases b with
    | nil => simp at h1
    | cons y ys =>
      cases c with
      | nil => simp at h2
      | cons z zs => simp [ternaryOp, ih ys zs (by simpa using h1) (by simpa using h2)]

theorem cast_len (t : Ty) (c r : Col) (h : Col.cast t c = .ok r) : r.len = c.len := by
  cases c with
  | null n => simp [Col.cast] at h; subst h; cases t <;> simp [nullCol, Col.len, nullArr]
  | bool a => cases t <;> simp [Col.cast] at h <;> (subst h; simp [Col.len])
  | int w a =>
    cases t with
    | null => simp [Col.cast] at h
    | bool => simp [Col.cast] at h; subst h; simp [Col.len]
    | str => simp [Col.cast] at h; subst h; simp [Col.len]
    | int w' =>
      simp only [Col.cast] at h
      split at h
      · cases h; rfl
      · split at h
        · cases h; rfl
        · cases ht : tryUnaryOp 0 (fun x => if w'.fits x = true then KOut.ok x else KOut.err) a with
          | ok c => simp [ht] at h; subst h; simp [Col.len, tryUnaryOp_length _ _ _ _ ht]
          | err => simp [ht] at h
          | panic => simp [ht] at h
  | str a =>
    cases t with
    | null => simp [Col.cast] at h
    | str => simp [Col.cast] at h; subst h; rfl
    | bool =>
      simp only [Col.cast] at h
      split at h <;> first | cases h | skip
      rename_i c ht
      simp [Col.len, tryUnaryOp_length _ _ _ _ ht]
    | int w =>
      simp only [Col.cast] at h
      split at h <;> first | cases h | skip
      rename_i c ht
      simp [Col.len, tryUnaryOp_length _ _ _ _ ht]

/-- Inversion of `arith!`: the integer arm, or an operand of type NULL. -/
theorem arith_inv (op : ArithOp) (ca cb c : Col) (h : Col.arith op ca cb = .ok c) :
    (∃ wa a wb b r, ca = .int wa a ∧ cb = .int wb b ∧ arithK op (wa.max wb) a b = .ok r ∧
        c = .int (wa.max wb) r) ∨
    (∃ k, ca = .null k ∧ c = .null k) ∨ (∃ k, cb = .null k ∧ c = .null k) := by
  unfold Col.arith at h
  split at h
  · cases h
  · cases ca with
    | int wa a =>
      cases cb with
      | int wb b =>
        simp only at h
        cases hk : arithK op (wa.max wb) a b <;> simp [hk, KOut.map] at h
        subst h
        exact Or.inl ⟨wa, a, wb, b, _, rfl, rfl, hk, rfl⟩
      | null k => simp at h; subst h; exact Or.inr (Or.inr ⟨k, rfl, rfl⟩)
      | bool y => simp at h
      | str y => simp at h
    | null k => cases cb <;> simp at h <;> (subst h; exact Or.inr (Or.inl ⟨k, rfl, rfl⟩))
    | bool x =>
      cases cb <;> simp at h
      subst h; exact Or.inr (Or.inr ⟨_, rfl, rfl⟩)
    | str x =>
      cases cb <;> simp at h
      subst h; exact Or.inr (Or.inr ⟨_, rfl, rfl⟩)

theorem arithK_len (op : ArithOp) (w : IW) (a b r : Arr Int) (hk : arithK op w a b = .ok r) :
    r.length = a.length ∧ a.length = b.length := by
  unfold arithK at hk
  obtain ⟨h1, h2⟩ := tryBinaryOp_length _ _ _ _ _ hk
  cases hd : op.safens <;> simp [hd, safenDividend] at h2 <;> exact ⟨h1, h2⟩

theorem arith_len (op : ArithOp) (ca cb c : Col) (h : Col.arith op ca cb = .ok c) :
    c.len = ca.len ∨ c.len = cb.len := by
  rcases arith_inv op ca cb c h with ⟨wa, a, wb, b, r, rfl, rfl, hk, rfl⟩ | ⟨k, rfl, rfl⟩ | ⟨k, rfl, rfl⟩
  · exact Or.inl (arithK_len op _ a b r hk).1
  · exact Or.inl rfl
  · exact Or.inr rfl

theorem cmpK_len {α} (f : α → α → Bool) (a b : Arr α) (c : Arr Bool) (h : cmpK f a b = .ok c) :
    c.length = a.length ∧ a.length = b.length := by
  rw [cmpK_eq] at h
  exact zipSlotM_length _ a b c h

theorem cmp_len (op : CmpOp) (ca cb c : Col) (h : Col.cmp op ca cb = .ok c) : c.len = ca.len := by
  cases ca <;> cases cb <;> simp only [Col.cmp] at h <;>
    first
    | (cases h; simp [Col.len])
    | cases h
    | skip
  · rename_i a b
    cases hk : cmpK (fun x y => op.onOrd (boolOrd x y)) a b <;> simp [hk, KOut.map] at h
    subst h; exact (cmpK_len _ a b _ hk).1
  · rename_i wa a wb b
    cases hk : cmpK op.onInt a b <;> simp [hk, KOut.map] at h
    subst h; exact (cmpK_len _ a b _ hk).1
  · rename_i a b
    cases hk : cmpK (fun x y => op.onOrd (strOrd x y)) a b <;> simp [hk, KOut.map] at h
    subst h; exact (cmpK_len _ a b _ hk).1

theorem asBoolArr_len (c : Col) (a : Arr Bool) (h : c.asBoolArr = some a) : a.length = c.len := by
  cases c <;> simp [Col.asBoolArr] at h <;> subst h <;> simp [Col.len]

theorem and_inv (ca cb c : Col) (h : Col.and ca cb = .ok c) :
    ∃ a b r, ca.asBoolArr = some a ∧ cb.asBoolArr = some b ∧ andK a b = .ok r ∧ c = .bool r := by
  unfold Col.and at h
  cases ha : ca.asBoolArr <;> cases hb : cb.asBoolArr <;> simp [ha, hb] at h
  rename_i a b
  cases hk : andK a b <;> simp [hk, KOut.map] at h
  subst h
  exact ⟨a, b, _, rfl, rfl, hk, rfl⟩

theorem or_inv (ca cb c : Col) (h : Col.or ca cb = .ok c) :
    ∃ a b r, ca.asBoolArr = some a ∧ cb.asBoolArr = some b ∧ orK a b = .ok r ∧ c = .bool r := by
  unfold Col.or at h
  cases ha : ca.asBoolArr <;> cases hb : cb.asBoolArr <;> simp [ha, hb] at h
  rename_i a b
  cases hk : orK a b <;> simp [hk, KOut.map] at h
  subst h
  exact ⟨a, b, _, rfl, rfl, hk, rfl⟩

theorem and_len (ca cb c : Col) (h : Col.and ca cb = .ok c) : c.len = ca.len ∧ ca.len = cb.len := by
  obtain ⟨a, b, r, ha, hb, hk, rfl⟩ := and_inv ca cb c h
  rw [andK_eq] at hk
  obtain ⟨h1, h2⟩ := zipSlotM_length _ a b _ hk
  rw [← asBoolArr_len ca a ha, ← asBoolArr_len cb b hb]
  exact ⟨h1, h2⟩

theorem or_len (ca cb c : Col) (h : Col.or ca cb = .ok c) : c.len = ca.len ∧ ca.len = cb.len := by
  obtain ⟨a, b, r, ha, hb, hk, rfl⟩ := or_inv ca cb c h
  rw [orK_eq] at hk
  obtain ⟨h1, h2⟩ := zipSlotM_length _ a b _ hk
  rw [← asBoolArr_len ca a ha, ← asBoolArr_len cb b hb]
  exact ⟨h1, h2⟩

theorem not_len (ca c : Col) (h : Col.not ca = .ok c) : c.len = ca.len := by
  cases ca <;> simp [Col.not] at h
  subst h; simp [Col.len, notK, clearNull]

theorem neg_len (ca c : Col) (h : Col.neg ca = .ok c) : c.len = ca.len := by
  cases ca with
  | int w x =>
    simp only [Col.neg] at h
    cases hk : tryUnaryOp 0 (negW w) x <;> simp only [hk] at h <;> cases h
    exact tryUnaryOp_length _ _ _ _ hk
  | null k => simp [Col.neg] at h; subst h; rfl
  | bool x => simp [Col.neg] at h
  | str x => simp [Col.neg] at h

theorem isNull_len (c : Col) : (Col.isNull c).len = c.len := by
  cases c <;> simp [Col.isNull, Col.len]

/-- Inversion of `ArrayImpl::select`: which arm produced the result. -/
theorem select_inv (cc ct ce c : Col) (h : Col.select cc ct ce = .ok c) :
    ∃ s, cc = .bool s ∧
      ((∃ w x y r, ct = .int w x ∧ ce = .int w y ∧ selectOp s x y = .ok r ∧ c = .int w r) ∨
       (∃ x y r, ct = .bool x ∧ ce = .bool y ∧ selectOp s x y = .ok r ∧ c = .bool (clearNull r)) ∨
       (∃ x y r, ct = .str x ∧ ce = .str y ∧ selectOp s x y = .ok r ∧ c = .str r) ∨
       (∃ k k', ct = .null k ∧ ce = .null k' ∧ c = .null k)) := by
  cases cc with
  | bool s =>
    refine ⟨s, rfl, ?_⟩
    cases ct with
    | int wa x =>
      cases ce with
      | int wb y =>
        simp only [Col.select] at h
        split at h
        · rename_i hw
          have hw' : wa = wb := by simpa using hw
          subst hw'
          cases hk : selectOp s x y <;> simp only [hk] at h <;> cases h
          exact Or.inl ⟨wa, x, y, _, rfl, rfl, hk, rfl⟩
        · cases h
      | null k => simp [Col.select] at h
      | bool y => simp [Col.select] at h
      | str y => simp [Col.select] at h
    | bool x =>
      cases ce with
      | bool y =>
        simp only [Col.select] at h
        cases hk : selectOp s x y <;> simp only [hk] at h <;> cases h
        exact Or.inr (Or.inl ⟨x, y, _, rfl, rfl, hk, rfl⟩)
      | null k => simp [Col.select] at h
      | int w y => simp [Col.select] at h
      | str y => simp [Col.select] at h
    | str x =>
      cases ce with
      | str y =>
        simp only [Col.select] at h
        cases hk : selectOp s x y <;> simp only [hk] at h <;> cases h
        exact Or.inr (Or.inr (Or.inl ⟨x, y, _, rfl, rfl, hk, rfl⟩))
      | null k => simp [Col.select] at h
      | int w y => simp [Col.select] at h
      | bool y => simp [Col.select] at h
    | null k =>
      cases ce <;> simp [Col.select] at h
      subst h; exact Or.inr (Or.inr (Or.inr ⟨_, _, rfl, rfl, rfl⟩))
  | null k => cases ct <;> cases ce <;> simp [Col.select] at h
  | int w s => cases ct <;> cases ce <;> simp [Col.select] at h
  | str s => cases ct <;> cases ce <;> simp [Col.select] at h

theorem select_len (cc ct ce c : Col) (h : Col.select cc ct ce = .ok c) : c.len = ct.len := by
  obtain ⟨s, hs, h2⟩ := select_inv cc ct ce c h
  clear h
  subst hs
  rcases h2 with ⟨w, x, y, r, rfl, rfl, hk, rfl⟩ | ⟨x, y, r, rfl, rfl, hk, rfl⟩ |
    ⟨x, y, r, rfl, rfl, hk, rfl⟩ | ⟨k, k', rfl, rfl, rfl⟩
  · exact (selectOp_length s x y r hk).1
  · have := (selectOp_length s x y r hk).1
    simpa [Col.len, clearNull] using this
  · exact (selectOp_length s x y r hk).1
  · rfl

theorem concat_len (ca cb c : Col) (h : Col.concat ca cb = .ok c) :
    c.len = ca.len ∧ ca.len = cb.len := by
  cases ca <;> cases cb <;> simp only [Col.concat] at h <;> try (cases h)
  rename_i a b
  cases hk : binaryOp (fun x y => KOut.ok (x ++ y)) a b <;> simp only [hk] at h <;> cases h
  exact binaryOp_length _ a b _ hk

theorem like_len (p : String) (ca c : Col) (h : Col.like p ca = .ok c) : c.len = ca.len := by
  cases ca <;> simp [Col.like] at h
  rename_i a
  cases hk : likeK p a <;> simp [hk, KOut.map] at h
  subst h
  unfold likeK at hk
  cases hk; simp [Col.len, clearNull]

theorem replace_len (f t : String) (ca c : Col) (h : Col.replace f t ca = .ok c) : c.len = ca.len := by
  cases ca <;> simp [Col.replace] at h
  subst h; simp [Col.len]

theorem repeat_len (ca cb c : Col) (h : Col.repeat_ ca cb = .ok c) :
    c.len = ca.len ∧ ca.len = cb.len := by
  cases ca <;> cases cb <;> simp only [Col.repeat_] at h <;> try (cases h)
  rename_i a w b
  cases w <;> simp only [Col.repeat_] at h <;> try (cases h)
  cases hk : binaryOp (fun s n => KOut.ok (repeatF s n)) a b <;> simp only [hk] at h <;> cases h
  exact binaryOp_length _ a b _ hk

theorem substring_len (cs cb cc c : Col) (h : Col.substring cs cb cc = .ok c)
    (h1 : cs.len = cb.len) (h2 : cb.len = cc.len) : c.len = cs.len := by
  cases cs <;> cases cb <;> cases cc <;> simp only [Col.substring] at h <;> try (cases h)
  rename_i a w1 b w2 c0
  cases w1 <;> cases w2 <;> simp only [Col.substring] at h <;> cases h
  exact ternaryOp_length _ _ a b c0 h1 h2

theorem constCol_len (v : KVal) (n : Nat) : (constCol v n).len = n := by
  cases v <;> simp [constCol, Col.len]


/-- `evalK` over a well-formed chunk returns a column of the chunk's cardinality. -/
theorem evalK_len (chunk : List Col) (n : Nat) (hwf : ChunkWF chunk n) (e : KExpr) :
    ∀ c, (evalK chunk n e).1 = .ok c → c.len = n := by
  induction e with
  | col i =>
    intro c h
    simp only [evalK] at h
    cases hc : chunk[i]? with
    | none => simp [hc] at h
    | some c0 => simp [hc] at h; subst h; exact hwf c0 (List.mem_of_getElem? hc)
  | const v => intro c h; simp only [evalK] at h; cases h; exact constCol_len v n
  | arith op a b iha ihb =>
    intro c h
    simp only [evalK] at h
    rcases ha : evalK chunk n a with ⟨ra, ta⟩
    rw [ha] at h
    cases ra with
    | ok ca =>
      rcases hb : evalK chunk n b with ⟨rb, tb⟩
      rw [hb] at h
      cases rb with
      | ok cb =>
        simp only at h
        rcases arith_len op ca cb c h with hl | hl
        · rw [hl]; exact iha ca (by rw [ha])
        · rw [hl]; exact ihb cb (by rw [hb])
      | err => simp at h
      | panic => simp at h
    | err => simp at h
    | panic => simp at h
  | cmp op a b iha ihb =>
    intro c h
    simp only [evalK] at h
    rcases ha : evalK chunk n a with ⟨ra, ta⟩
    rw [ha] at h
    cases ra with
    | ok ca =>
      rcases hb : evalK chunk n b with ⟨rb, tb⟩
      rw [hb] at h
      cases rb with
      | ok cb => simp only at h; rw [cmp_len op ca cb c h]; exact iha ca (by rw [ha])
      | err => simp at h
      | panic => simp at h
    | err => simp at h
    | panic => simp at h
  | and a b iha ihb =>
    intro c h
    simp only [evalK] at h
    rcases ha : evalK chunk n a with ⟨ra, ta⟩
    rw [ha] at h
    cases ra with
    | ok ca =>
      rcases hb : evalK chunk n b with ⟨rb, tb⟩
      rw [hb] at h
      cases rb with
      | ok cb => simp only at h; rw [(and_len ca cb c h).1]; exact iha ca (by rw [ha])
      | err => simp at h
      | panic => simp at h
    | err => simp at h
    | panic => simp at h
  | or a b iha ihb =>
    intro c h
    simp only [evalK] at h
    rcases ha : evalK chunk n a with ⟨ra, ta⟩
    rw [ha] at h
    cases ra with
    | ok ca =>
      rcases hb : evalK chunk n b with ⟨rb, tb⟩
      rw [hb] at h
      cases rb with
      | ok cb => simp only at h; rw [(or_len ca cb c h).1]; exact iha ca (by rw [ha])
      | err => simp at h
      | panic => simp at h
    | err => simp at h
    | panic => simp at h
  | not a iha =>
    intro c h
    simp only [evalK] at h
    rcases ha : evalK chunk n a with ⟨ra, ta⟩
    rw [ha] at h
    cases ra with
    | ok ca => simp only at h; rw [not_len ca c h]; exact iha ca (by rw [ha])
    | err => simp at h
    | panic => simp at h
  | neg a iha =>
    intro c h
    simp only [evalK] at h
    rcases ha : evalK chunk n a with ⟨ra, ta⟩
    rw [ha] at h
    cases ra with
    | ok ca => simp only at h; rw [neg_len ca c h]; exact iha ca (by rw [ha])
    | err => simp at h
    | panic => simp at h
  | isnull a iha =>
    intro c h
    simp only [evalK] at h
    rcases ha : evalK chunk n a with ⟨ra, ta⟩
    rw [ha] at h
    cases ra with
    | ok ca => simp only at h; cases h; rw [isNull_len ca]; exact iha ca (by rw [ha])
    | err => simp at h
    | panic => simp at h
  | ite cnd t e ihc iht ihe =>
    intro c h
    simp only [evalK] at h
    rcases hc : evalK chunk n cnd with ⟨rc, tc⟩
    rw [hc] at h
    cases rc with
    | ok cc =>
      rcases ht : evalK chunk n t with ⟨rt, tt⟩
      rw [ht] at h
      cases rt with
      | ok ct =>
        rcases he : evalK chunk n e with ⟨re, te⟩
        rw [he] at h
        cases re with
        | ok ce => simp only at h; rw [select_len cc ct ce c h]; exact iht ct (by rw [ht])
        | err => simp at h
        | panic => simp at h
      | err => simp at h
      | panic => simp at h
    | err => simp at h
    | panic => simp at h
  | cast t a iha =>
    intro c h
    simp only [evalK] at h
    rcases ha : evalK chunk n a with ⟨ra, ta⟩
    rw [ha] at h
    cases ra with
    | ok ca => simp only at h; rw [cast_len t ca c h]; exact iha ca (by rw [ha])
    | err => simp at h
    | panic => simp at h
  | concat a b iha ihb =>
    intro c h
    simp only [evalK] at h
    rcases ha : evalK chunk n a with ⟨ra, ta⟩
    rw [ha] at h
    cases ra with
    | ok ca =>
      rcases hb : evalK chunk n b with ⟨rb, tb⟩
      rw [hb] at h
      cases rb with
      | ok cb => simp only at h; rw [(concat_len ca cb c h).1]; exact iha ca (by rw [ha])
      | err => simp at h
      | panic => simp at h
    | err => simp at h
    | panic => simp at h
  | like a p iha =>
    intro c h
    simp only [evalK] at h
    rcases ha : evalK chunk n a with ⟨ra, ta⟩
    rw [ha] at h
    cases ra with
    | ok ca => simp only at h; rw [like_len p ca c h]; exact iha ca (by rw [ha])
    | err => simp at h
    | panic => simp at h
  | substring s b c0 ihs ihb ihc =>
    intro c h
    simp only [evalK] at h
    rcases hs : evalK chunk n s with ⟨rs, ts⟩
    rw [hs] at h
    cases rs with
    | ok cs =>
      rcases hb : evalK chunk n b with ⟨rb, tb⟩
      rw [hb] at h
      cases rb with
      | ok cb =>
        rcases hc0 : evalK chunk n c0 with ⟨rc, tc⟩
        rw [hc0] at h
        cases rc with
        | ok cc =>
          simp only at h
          have l1 := ihs cs (by rw [hs])
          have l2 := ihb cb (by rw [hb])
          have l3 := ihc cc (by rw [hc0])
          rw [substring_len cs cb cc c h (by rw [l1, l2]) (by rw [l2, l3])]; exact l1
        | err => simp at h
        | panic => simp at h
      | err => simp at h
      | panic => simp at h
    | err => simp at h
    | panic => simp at h
  | replace a f t iha =>
    intro c h
    simp only [evalK] at h
    rcases ha : evalK chunk n a with ⟨ra, ta⟩
    rw [ha] at h
    cases ra with
    | ok ca => simp only at h; rw [replace_len f t ca c h]; exact iha ca (by rw [ha])
    | err => simp at h
    | panic => simp at h
  | repeat_ s k ihs ihk =>
    intro c h
    simp only [evalK] at h
    rcases hs : evalK chunk n s with ⟨rs, ts⟩
    rw [hs] at h
    cases rs with
    | ok cs =>
      rcases hk : evalK chunk n k with ⟨rk, tk⟩
      rw [hk] at h
      cases rk with
      | ok ck => simp only at h; rw [(repeat_len cs ck c h).1]; exact ihs cs (by rw [hs])
      | err => simp at h
      | panic => simp at h
    | err => simp at h
    | panic => simp at h

end RlModel
