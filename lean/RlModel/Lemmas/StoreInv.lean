import RlModel.Lemmas.StoreHist
/-! The invariant that every history of acknowledged statements maintains (C03): the manifest
replays to the live state, the files it names exist, the catalog is well formed. -/
namespace RlModel

/-! ### the log replays to the live state -/

structure Sync (s : Store) : Prop where
  closed : Closed s.manifest
  ok : (bootFold (replay s.manifest)).failed = none
  /-- replay rebuilds the TABLE entries, with the same ids; views and indexes are not logged -/
  cat : (bootFold (replay s.manifest)).cat.entries = s.cat.entries.filter (·.kind == .table)
  tables : (bootFold (replay s.manifest)).tables = s.tables
  rs : (bootFold (replay s.manifest)).rsOpen = s.rowsets
  dv : (bootFold (replay s.manifest)).dvOpen = s.dvs.map DvE.key

theorem bootFold_append (a b : List Rec) : bootFold (a ++ b) = b.foldl Boot.step (bootFold a) := by
  simp [bootFold, List.foldl_append]

/-- committing one transaction = folding its records over the bootstrap state -/
theorem sync_commit (m recs : List Rec) (hc : Closed m) (hnm : ∀ r ∈ recs, r.isMark = false) :
    Closed (m ++ txn recs) ∧
      bootFold (replay (m ++ txn recs)) = recs.foldl Boot.step (bootFold (replay m)) := by
  obtain ⟨h1, h2⟩ := replay_append_txn m recs hc hnm
  exact ⟨h2, by rw [h1, bootFold_append]⟩

theorem sync_init : Sync Store.init := by
  refine ⟨closed_init, ?_, ?_, ?_, ?_, ?_⟩ <;> decide

/-! records that only delete -/

def Rec.isDel : Rec → Bool
  | .delRowSet _ _ | .delDV _ _ _ => true
  | _ => false

theorem filter_const_true {α} : ∀ l : List α, l.filter (fun _ => true) = l
  | [] => rfl
  | x :: l => by simp [filter_const_true l]

theorem foldl_dels : ∀ (recs : List Rec) (b : Boot), (∀ r ∈ recs, r.isDel = true) → b.failed = none →
    (recs.foldl Boot.step b).tabPart = b.tabPart ∧
    (recs.foldl Boot.step b).rsOpen = b.rsOpen.filter (fun k => !(recs.contains (Rec.delRowSet k.1 k.2))) ∧
    (recs.foldl Boot.step b).dvOpen = b.dvOpen.filter (fun k => !(recs.contains (Rec.delDV k.1 k.2.1 k.2.2)))
  | [], b, _, _ => by simp [filter_const_true]
  | r :: recs, b, h, hf => by
    have hr := h r (by simp)
    have hrest : ∀ x ∈ recs, x.isDel = true := fun x hx => h x (by simp [hx])
    cases r with
    | delRowSet t rs =>
      have hs : b.step (.delRowSet t rs) = { b with rsOpen := setRemove (t, rs) b.rsOpen } := by
        unfold Boot.step; simp [hf]
      have ih := foldl_dels recs (b.step (.delRowSet t rs)) hrest (by rw [hs]; exact hf)
      rw [List.foldl_cons]
      refine ⟨by rw [ih.1, hs]; rfl, ?_, ?_⟩
      · rw [ih.2.1, hs]
        simp only [setRemove, List.filter_filter]
        apply List.filter_congr
        intro k _
        by_cases hk : k = (t, rs)
        · subst hk; simp
        · have : (Rec.delRowSet k.1 k.2 == Rec.delRowSet t rs) = false := by
            simp; intro h1 h2; exact hk (Prod.ext h1 h2)
          have h1 : (k != (t, rs)) = true := by simpa using hk
          rw [List.contains_cons, this, h1]
          cases recs.contains (Rec.delRowSet k.1 k.2) <;> rfl
      · rw [ih.2.2, hs]
        apply List.filter_congr
        intro k _
        simp [List.contains_cons]
    | delDV t rs dv =>
      have hs : b.step (.delDV t rs dv) = { b with dvOpen := setRemove (t, rs, dv) b.dvOpen } := by
        unfold Boot.step; simp [hf]
      have ih := foldl_dels recs (b.step (.delDV t rs dv)) hrest (by rw [hs]; exact hf)
      rw [List.foldl_cons]
      refine ⟨by rw [ih.1, hs]; rfl, ?_, ?_⟩
      · rw [ih.2.1, hs]
        apply List.filter_congr
        intro k _
        simp [List.contains_cons]
      · rw [ih.2.2, hs]
        simp only [setRemove, List.filter_filter]
        apply List.filter_congr
        intro k _
        by_cases hk : k = (t, rs, dv)
        · subst hk; simp
        · have : (Rec.delDV k.1 k.2.1 k.2.2 == Rec.delDV t rs dv) = false := by
            simp; intro h1 h2 h3; exact hk (Prod.ext h1 (Prod.ext h2 h3))
          have h1 : (k != (t, rs, dv)) = true := by simpa using hk
          rw [List.contains_cons, this, h1]
          cases recs.contains (Rec.delDV k.1 k.2.1 k.2.2) <;> rfl
    | _ => simp [Rec.isDel] at hr

/-! ### the invariant -/

/-- the catalog part of the invariant; `b` = what replaying the manifest rebuilds -/
structure CatInv (s : Store) : Prop where
  /-- replay's id counter is never ahead of the live one (it is behind by the number of views and
  indexes created since the last table creation / reopen) -/
  catNext : (bootFold (replay s.manifest)).cat.nextId ≤ s.cat.nextId
  catIds : ∀ e ∈ s.cat.entries, e.id < s.cat.nextId
  idsNodup : (s.cat.entries.map (·.id)).Nodup
  namesNodup : (s.cat.entries.map (·.name)).Nodup
  catTab : ∀ e ∈ s.cat.entries, e.kind = .table → (lookup e.id s.tables).isSome
  bootIds : ∀ e ∈ (bootFold (replay s.manifest)).cat.entries, e.id < (bootFold (replay s.manifest)).cat.nextId
  bootTabIds : ∀ x ∈ s.tables, x.1 < (bootFold (replay s.manifest)).cat.nextId
  tabIds : ∀ x ∈ s.tables, x.1 < s.cat.nextId

/-- statements that leave the catalog, the table list and the replayed catalog alone -/
theorem CatInv.transfer {s s' : Store} (h : CatInv s) (hc : s'.cat = s.cat) (ht : s'.tables = s.tables)
    (hb : (bootFold (replay s'.manifest)).cat = (bootFold (replay s.manifest)).cat) : CatInv s' := by
  refine ⟨?_, ?_, ?_, ?_, ?_, ?_, ?_, ?_⟩
  · rw [hb, hc]; exact h.catNext
  · rw [hc]; exact h.catIds
  · rw [hc]; exact h.idsNodup
  · rw [hc]; exact h.namesNodup
  · rw [hc, ht]; exact h.catTab
  · rw [hb]; exact h.bootIds
  · rw [hb, ht]; exact h.bootTabIds
  · rw [hc, ht]; exact h.tabIds

structure Inv (s : Store) : Prop where
  wf : Wf s
  sync : Sync s
  dirs : ∀ k ∈ s.rowsets, (lookup k s.dirs).isSome
  dvFiles : ∀ e ∈ s.dvs, ∃ raw, lookup e.key s.dvFiles = some raw ∧ sortDedup raw = e.dead
  dvLive : ∀ e ∈ s.dvs, (e.tid, e.rs) ∈ s.rowsets          -- no DV outlives its row-set
  dvIds : ∀ e ∈ s.dvs, e.dv < s.nextDv
  dvFileIds : ∀ x ∈ s.dvFiles, x.1.2.2 < s.nextDv       -- no DV file carries an id not yet handed out
  cati : CatInv s
  rsTables : ∀ k ∈ s.rowsets, (lookup k.1 s.tables).isSome
  dvTables : ∀ e ∈ s.dvs, (lookup e.tid s.tables).isSome

theorem Inv.catIds {s : Store} (h : Inv s) : ∀ e ∈ s.cat.entries, e.id < s.cat.nextId := h.cati.catIds
theorem Inv.idsNodup {s : Store} (h : Inv s) : (s.cat.entries.map (·.id)).Nodup := h.cati.idsNodup
theorem Inv.namesNodup {s : Store} (h : Inv s) : (s.cat.entries.map (·.name)).Nodup := h.cati.namesNodup
theorem Inv.catTab {s : Store} (h : Inv s) : ∀ e ∈ s.cat.entries, e.kind = .table → (lookup e.id s.tables).isSome :=
  h.cati.catTab
theorem Inv.tabIds {s : Store} (h : Inv s) : ∀ x ∈ s.tables, x.1 < s.cat.nextId := h.cati.tabIds

/-- table names resolve the same whether or not the view entries are there (names are unique) -/
theorem find?_filter_table (entries : List CatEntry) (hn : (entries.map (·.name)).Nodup) (n : String) :
    (match (entries.filter (·.kind == Kind.table)).find? (·.name == n) with
      | some e => if e.kind == Kind.table then some e.id else none
      | none => none) =
    (match entries.find? (·.name == n) with
      | some e => if e.kind == Kind.table then some e.id else none
      | none => none) := by
  induction entries with
  | nil => rfl
  | cons x l ih =>
    simp only [List.map_cons, List.nodup_cons] at hn
    have ihl := ih hn.2
    by_cases hx : (x.name == n) = true
    · -- x is THE entry named n: nothing later has that name
      have hnone : l.find? (·.name == n) = none := by
        rw [List.find?_eq_none]
        intro y hy hyn
        have : y.name = x.name := by simp at hyn hx; rw [hyn, hx]
        exact hn.1 (List.mem_map.mpr ⟨y, hy, this⟩)
      have hnone' : (l.filter (·.kind == Kind.table)).find? (·.name == n) = none := by
        rw [List.find?_eq_none]
        intro y hy
        exact List.find?_eq_none.mp hnone y (List.mem_filter.mp hy).1
      by_cases hk : (x.kind == Kind.table) = true
      · simp [List.filter_cons, hk, List.find?_cons, hx]
      · simp [List.filter_cons, hk, List.find?_cons, hx, hnone']
    · by_cases hk : (x.kind == Kind.table) = true
      · simp only [List.filter_cons, hk, if_true, List.find?_cons, hx]
        exact ihl
      · simp only [List.filter_cons, hk, Bool.false_eq_true, if_false, List.find?_cons, hx]
        exact ihl

theorem tableId?_of_sync {s s' : Store} (h : s'.cat.entries = s.cat.entries.filter (·.kind == .table))
    (hn : (s.cat.entries.map (·.name)).Nodup) (n : String) : s'.tableId? n = s.tableId? n := by
  simp only [Store.tableId?, Catalog.find?, h]
  exact find?_filter_table s.cat.entries hn n

theorem abs_congr' (s s' : Store) (hid : ∀ n, s'.tableId? n = s.tableId? n) (h2 : s'.tables = s.tables)
    (h3 : s'.rowsets = s.rowsets) (h4 : s'.dvs = s.dvs)
    (h5 : ∀ k ∈ s.rowsets, lookup k s'.dirs = lookup k s.dirs) (n : String) : s'.abs n = s.abs n := by
  unfold Store.abs
  rw [hid, h2]
  cases s.tableId? n with
  | none => rfl
  | some tid =>
    simp only
    cases lookup tid s.tables with
    | none => rfl
    | some d =>
      simp only [Option.some.injEq, Prod.mk.injEq, true_and]
      exact scan_congr s s' tid (by simp [Store.rowsetsOf, h3]) h4 (fun rs hrs => h5 _ hrs)

theorem Inv.rowsetsNodup {s : Store} (h : Inv s) : s.rowsets.Nodup := by
  have := (bootFold_fresh (replay s.manifest)).2.2.1
  rwa [h.sync.rs] at this

theorem Inv.dvKeysNodup {s : Store} (h : Inv s) : (s.dvs.map DvE.key).Nodup := by
  have := (bootFold_fresh (replay s.manifest)).2.2.2
  rwa [h.sync.dv] at this

theorem inv_init : Inv Store.init := by
  refine ⟨wf_init, sync_init, ?_, ?_, ?_, ?_, ?_, ⟨?_, ?_, ?_, ?_, ?_, ?_, ?_, ?_⟩, ?_, ?_⟩ <;> first | (simp [Store.init]; done) | decide

theorem lookup_isSome_of_mem {α β} [BEq α] [LawfulBEq α] (k : α) (v : β) : ∀ l : List (α × β), (k, v) ∈ l → (lookup k l).isSome
  | [], h => by simp at h
  | (a, b) :: l, h => by
    simp only [lookup]
    split
    · rfl
    · rename_i hne
      cases h with
      | head => simp at hne
      | tail _ h => exact lookup_isSome_of_mem k v l h

theorem lookup_append_isSome {α β} [BEq α] (k : α) (a b : List (α × β)) (h : (lookup k a).isSome) :
    lookup k (a ++ b) = lookup k a := by
  rw [lookup_append]
  cases hl : lookup k a with
  | none => simp [hl] at h
  | some v => rfl

/-! ### INSERT keeps the invariant -/

theorem flushDirs_keys_nodup (d : TableDef) (tid : Nat) : ∀ (parts : List (List Row)) (next : Nat),
    ((flushDirs d tid parts next).map (·.1)).Nodup
  | [], _ => by simp [flushDirs]
  | p :: ps, next => by
    simp only [flushDirs, List.map_cons, List.nodup_cons]
    refine ⟨?_, flushDirs_keys_nodup d tid ps (next + 1)⟩
    intro h
    obtain ⟨x, hx, hxe⟩ := List.mem_map.mp h
    have := (flushDirs_keys d tid ps (next + 1) x hx).2.1
    rw [hxe] at this; simp at this; omega

theorem insert_fields (s : Store) (n : String) (parts : List (List Row)) (tid : Nat) (d : TableDef)
    (h1 : s.tableId? n = some tid) (h2 : lookup tid s.tables = some d) (hok : rowsOk d parts.flatten = true) :
    let s' := (s.insert n parts).1
    let nd := flushDirs d tid parts s.nextRs
    s'.cat = s.cat ∧ s'.tables = s.tables ∧ s'.dvs = s.dvs ∧ s'.dvFiles = s.dvFiles ∧ s'.nextDv = s.nextDv ∧
    s'.dirs = s.dirs ++ nd ∧ s'.rowsets = s.rowsets ++ nd.map (·.1) ∧
    s'.manifest = s.manifest ++ txn (nd.map fun x => Rec.addRowSet tid x.1.2) := by
  simp only [Store.insert, h1, h2, hok, Store.commit]
  simp

theorem insert_inv (s : Store) (inv : Inv s) (n : String) (parts : List (List Row)) (tid : Nat) (d : TableDef)
    (h1 : s.tableId? n = some tid) (h2 : lookup tid s.tables = some d) (hok : rowsOk d parts.flatten = true) :
    Inv (s.insert n parts).1 := by
  obtain ⟨f1, f2, f3, f4, f5, f6, f7, f8⟩ := insert_fields s n parts tid d h1 h2 hok
  have hkeys := flushDirs_keys d tid parts s.nextRs
  have hwf := (insert_scan s inv.wf n parts tid d h1 h2 hok).1
  -- the log
  have hrecs : ((flushDirs d tid parts s.nextRs).map fun x => Rec.addRowSet tid x.1.2)
      = (((flushDirs d tid parts s.nextRs).map (·.1)).map fun k => Rec.addRowSet k.1 k.2) := by
    rw [List.map_map]
    apply List.map_congr_left
    intro x hx
    simp [(hkeys x hx).1]
  have hnm : ∀ r ∈ ((flushDirs d tid parts s.nextRs).map fun x => Rec.addRowSet tid x.1.2), r.isMark = false := by
    intro r hr; obtain ⟨x, _, rfl⟩ := List.mem_map.mp hr; rfl
  obtain ⟨c1, c2⟩ := sync_commit s.manifest _ inv.sync.closed hnm
  have hA := foldl_addRowSets ((flushDirs d tid parts s.nextRs).map (·.1)) (bootFold (replay s.manifest)) inv.sync.ok
  rw [← hrecs, ← c2, ← f8] at hA
  simp only [Boot.tabPart, Prod.mk.injEq] at hA
  have hnd : (s.rowsets ++ (flushDirs d tid parts s.nextRs).map (·.1)).Nodup := by
    rw [List.nodup_append]
    refine ⟨inv.rowsetsNodup, flushDirs_keys_nodup d tid parts s.nextRs, ?_⟩
    intro a ha b hb hab
    subst hab
    obtain ⟨x, hx, rfl⟩ := List.mem_map.mp hb
    have := inv.wf.rs _ ha
    have := (hkeys x hx).2.1
    omega
  refine ⟨hwf, ⟨by rw [f8]; exact c1, by rw [hA.1.2.2.2]; exact inv.sync.ok, by rw [hA.1.1, f1]; exact inv.sync.cat,
      by rw [hA.1.2.1, f2]; exact inv.sync.tables, ?_, by rw [hA.2.1, f3]; exact inv.sync.dv⟩,
    ?_, ?_, ?_, ?_, ?_, ?_, ?_, ?_⟩
  · rw [hA.2.2.2, inv.sync.rs, f7]
    exact foldl_setInsert_nodup _ _ hnd
  · intro k hk
    rw [f7] at hk; rw [f6]
    rcases List.mem_append.mp hk with hk | hk
    · rw [lookup_append_isSome _ _ _ (inv.dirs k hk)]; exact inv.dirs k hk
    · obtain ⟨x, hx, rfl⟩ := List.mem_map.mp hk
      rw [lookup_append]
      cases lookup x.1 s.dirs with
      | some v => rfl
      | none => exact lookup_isSome_of_mem x.1 x.2 _ (by cases x; exact hx)
  · intro e he; rw [f3] at he; rw [f4]; exact inv.dvFiles e he
  · intro e he; rw [f3] at he; rw [f7]; exact List.mem_append_left _ (inv.dvLive e he)
  · intro e he; rw [f3] at he; rw [f5]; exact inv.dvIds e he
  · rw [f4, f5]; exact inv.dvFileIds
  · exact inv.cati.transfer f1 f2 hA.1.1
  · intro k hk
    rw [f7] at hk; rw [f2]
    rcases List.mem_append.mp hk with hk | hk
    · exact inv.rsTables k hk
    · obtain ⟨x, hx, rfl⟩ := List.mem_map.mp hk
      rw [(hkeys x hx).1, h2]; rfl
  · intro e he; rw [f3] at he; rw [f2]; exact inv.dvTables e he

/-! ### DELETE keeps the invariant -/

theorem tableId?_mem (s : Store) (n : String) (tid : Nat) (h : s.tableId? n = some tid) :
    ∃ e ∈ s.cat.entries, e.id = tid ∧ e.name = n ∧ e.kind = .table := by
  simp only [Store.tableId?, Catalog.find?] at h
  cases hf : s.cat.entries.find? (fun x => x.name == n) with
  | none => simp [hf] at h
  | some e =>
    simp only [hf] at h
    split at h
    · rename_i hk
      refine ⟨e, List.mem_of_find?_eq_some hf, by simpa using h, ?_, by simpa using hk⟩
      have := List.find?_some hf
      simpa using this
    · simp at h

theorem lookup_of_mem_nodup {α β} [BEq α] [LawfulBEq α] (k : α) (v : β) : ∀ l : List (α × β),
    (l.map (·.1)).Nodup → (k, v) ∈ l → lookup k l = some v
  | [], _, h => by simp at h
  | (a, b) :: l, hn, h => by
    simp only [List.map_cons, List.nodup_cons] at hn
    simp only [lookup]
    cases h with
    | head => simp
    | tail _ h =>
      have hne : (a == k) = false := by
        cases hc : a == k with
        | false => rfl
        | true =>
          have : a = k := by simpa using hc
          subst this
          exact absurd (List.mem_map_of_mem (f := (·.1)) h) hn.1
      simp only [hne, Bool.false_eq_true, if_false]
      exact lookup_of_mem_nodup k v l hn.2 h

theorem mkDvs_spec (tid : Nat) : ∀ (hits : List (Nat × List Nat)) (next : Nat),
    (∀ e ∈ mkDvs tid hits next, next ≤ e.dv ∧ e.dv < next + (mkDvs tid hits next).length ∧
        sortDedup e.dead = e.dead) ∧
    ((mkDvs tid hits next).map DvE.key).Nodup
  | [], _ => by simp [mkDvs]
  | (rs, ids) :: rest, next => by
    simp only [mkDvs]
    split
    · exact mkDvs_spec tid rest next
    · obtain ⟨ih1, ih2⟩ := mkDvs_spec tid rest (next + 1)
      refine ⟨?_, ?_⟩
      · intro e he
        cases he with
        | head => exact ⟨Nat.le_refl _, by simp, sortDedup_idem ids⟩
        | tail _ he =>
          obtain ⟨a, b, c⟩ := ih1 e he
          exact ⟨by omega, by simp only [List.length_cons]; omega, c⟩
      · simp only [List.map_cons, List.nodup_cons]
        refine ⟨?_, ih2⟩
        intro hmem
        obtain ⟨e, he, hk⟩ := List.mem_map.mp hmem
        have := (ih1 e he).1
        simp [DvE.key] at hk
        omega

theorem delete_fields2 (s : Store) (n : String) (p : Row → Bool) (tid : Nat) (h1 : s.tableId? n = some tid) :
    let s' := (s.delete n p).1
    let nd := mkDvs tid (delHits s tid p) s.nextDv
    s'.nextDv = s.nextDv + nd.length ∧ s'.dvFiles = s.dvFiles ++ nd.map (fun e => (e.key, e.dead)) ∧
    s'.manifest = s.manifest ++ txn (nd.map fun e => Rec.addDV tid e.rs e.dv) := by
  simp only [Store.delete, h1, Store.commit]
  exact ⟨rfl, rfl, rfl⟩

theorem delete_inv (s : Store) (inv : Inv s) (n : String) (p : Row → Bool) (tid : Nat)
    (h1 : s.tableId? n = some tid) : Inv (s.delete n p).1 := by
  -- the DV files about to be written (`create_new`) do not exist yet: every file on disk has an id
  -- below the generator (bootstrap vacuums `dv/`), the new ones are at or above it
  have hfree : ∀ e ∈ mkDvs tid (delHits s tid p) s.nextDv, lookup e.key s.dvFiles = none := by
    intro e he
    apply lookup_none_of_forall
    intro x hx heq
    have h1' := inv.dvFileIds x hx
    have h2' := ((mkDvs_spec tid (delHits s tid p) s.nextDv).1 e he).1
    rw [heq] at h1'
    simp [DvE.key] at h1'
    omega
  obtain ⟨f1, f2, f3, f4, f5, f6, f7, _⟩ := delete_fields s n p tid h1
  obtain ⟨g1, g2, g3⟩ := delete_fields2 s n p tid h1
  have hwf := (delete_scan s inv.wf n p tid h1).1
  obtain ⟨e0, he0, hid, _, hk0⟩ := tableId?_mem s n tid h1
  have htab : (lookup tid s.tables).isSome := by rw [← hid]; exact inv.catTab e0 he0 hk0
  generalize hnd : mkDvs tid (delHits s tid p) s.nextDv = nd at f7 g1 g2 g3 hfree
  have hmem := mkDvs_mem tid (delHits s tid p) s.nextDv
  obtain ⟨hsp1, hsp2⟩ := mkDvs_spec tid (delHits s tid p) s.nextDv
  rw [hnd] at hmem hsp1 hsp2
  have hrecs : (nd.map fun e => Rec.addDV tid e.rs e.dv) = ((nd.map DvE.key).map fun k => Rec.addDV k.1 k.2.1 k.2.2) := by
    rw [List.map_map]
    apply List.map_congr_left
    intro e he
    simp [DvE.key, (hmem e he).1]
  have hnm : ∀ r ∈ (nd.map fun e => Rec.addDV tid e.rs e.dv), r.isMark = false := by
    intro r hr; obtain ⟨x, _, rfl⟩ := List.mem_map.mp hr; rfl
  obtain ⟨c1, c2⟩ := sync_commit s.manifest _ inv.sync.closed hnm
  have hA := foldl_addDVs (nd.map DvE.key) (bootFold (replay s.manifest)) inv.sync.ok
  rw [← hrecs, ← c2, ← g3] at hA
  simp only [Boot.tabPart, Prod.mk.injEq] at hA
  have hdisj : ∀ a ∈ s.dvs.map DvE.key, ∀ b ∈ nd.map DvE.key, a ≠ b := by
    intro a ha b hb hab
    subst hab
    obtain ⟨x, hx, rfl⟩ := List.mem_map.mp ha
    obtain ⟨y, hy, hk⟩ := List.mem_map.mp hb
    have := inv.dvIds x hx
    have := (hsp1 y hy).1
    simp [DvE.key] at hk
    omega
  have hnodup : (s.dvs.map DvE.key ++ nd.map DvE.key).Nodup := by
    rw [List.nodup_append]; exact ⟨inv.dvKeysNodup, hsp2, hdisj⟩
  have hfilesNodup : ((nd.map fun e => (e.key, e.dead)).map (·.1)).Nodup := by
    rw [List.map_map]; exact hsp2
  refine ⟨hwf, ⟨by rw [g3]; exact c1, by rw [hA.1.2.2.2]; exact inv.sync.ok, by rw [hA.1.1, f1]; exact inv.sync.cat,
      by rw [hA.1.2.1, f2]; exact inv.sync.tables, by rw [hA.2.1, f3]; exact inv.sync.rs, ?_⟩,
    ?_, ?_, ?_, ?_, ?_, ?_, ?_, ?_⟩
  · rw [hA.2.2.2, inv.sync.dv, f7, List.map_append]
    exact foldl_setInsert_nodup _ _ hnodup
  · intro k hk; rw [f3] at hk; rw [f4]; exact inv.dirs k hk
  · intro e he
    rw [f7] at he; rw [g2]
    rcases List.mem_append.mp he with he | he
    · obtain ⟨raw, r1, r2⟩ := inv.dvFiles e he
      exact ⟨raw, by rw [lookup_append_isSome _ _ _ (by simp [r1])]; exact r1, r2⟩
    · refine ⟨e.dead, ?_, (hsp1 e he).2.2⟩
      rw [lookup_append]
      rw [hfree e he]
      exact lookup_of_mem_nodup _ _ _ hfilesNodup (List.mem_map.mpr ⟨e, he, rfl⟩)
  · intro e he
    rw [f7] at he; rw [f3]
    rcases List.mem_append.mp he with he | he
    · exact inv.dvLive e he
    · obtain ⟨_, h, hh, h2⟩ := hmem e he
      obtain ⟨rs, hrs, rfl⟩ := List.mem_map.mp hh
      rw [(hmem e he).1, h2]
      exact mem_rowsetsOf.mp hrs
  · intro e he
    rw [f7] at he; rw [g1]
    rcases List.mem_append.mp he with he | he
    · have := inv.dvIds e he; omega
    · exact (hsp1 e he).2.1
  · intro x hx
    rw [g2] at hx; rw [g1]
    rcases List.mem_append.mp hx with hx | hx
    · have := inv.dvFileIds x hx; omega
    · obtain ⟨e, he, rfl⟩ := List.mem_map.mp hx
      exact (hsp1 e he).2.1
  · exact inv.cati.transfer f1 f2 hA.1.1
  · rw [f3, f2]; exact inv.rsTables
  · intro e he
    rw [f7] at he; rw [f2]
    rcases List.mem_append.mp he with he | he
    · exact inv.dvTables e he
    · rw [(hmem e he).1]; exact htab

/-! ### vacuum and compaction keep the invariant -/

theorem vacuum_inv (s : Store) (inv : Inv s) : Inv s.vacuum := by
  have hwf := (vacuum_scan s inv.wf).1
  refine ⟨hwf, ⟨inv.sync.closed, inv.sync.ok, inv.sync.cat, inv.sync.tables, inv.sync.rs, inv.sync.dv⟩,
    ?_, inv.dvFiles, inv.dvLive, inv.dvIds, inv.dvFileIds, inv.cati.transfer rfl rfl rfl,
    inv.rsTables, inv.dvTables⟩
  intro k hk
  have hnp : s.pending.contains k = false := by
    cases hc : s.pending.contains k with
    | false => rfl
    | true => exact absurd hk (inv.wf.pend _ (by simpa using hc)).1
  have : lookup k s.vacuum.dirs = lookup k s.dirs :=
    lookup_filter (fun a => !s.pending.contains a) k (by rw [hnp]; rfl) s.dirs
  rw [this]; exact inv.dirs k hk

theorem Sync.mk' {s' : Store} {b : Boot} (hb : bootFold (replay s'.manifest) = b) (hc : Closed s'.manifest)
    (ok : b.failed = none) (cat : b.cat.entries = s'.cat.entries.filter (·.kind == Kind.table))
    (tables : b.tables = s'.tables) (rs : b.rsOpen = s'.rowsets)
    (dv : b.dvOpen = s'.dvs.map DvE.key) : Sync s' := by
  subst hb; exact ⟨hc, ok, cat, tables, rs, dv⟩

def compactDels (s : Store) (tid : Nat) (selected : List Nat) : List Rec :=
  (selected.map fun rs => Rec.delRowSet tid rs) ++ compactDvDels s tid selected

theorem compactDels_isDel (s : Store) (tid : Nat) (selected : List Nat) : ∀ r ∈ compactDels s tid selected, r.isDel = true := by
  intro r hr
  simp only [compactDels, compactDvDels, List.mem_append, List.mem_map, List.mem_flatMap] at hr
  rcases hr with ⟨x, _, rfl⟩ | ⟨rs, _, dv, _, rfl⟩ <;> rfl

theorem contains_dels_rs (s : Store) (tid : Nat) (selected : List Nat) (k : Nat × Nat) :
    (compactDels s tid selected).contains (Rec.delRowSet k.1 k.2) = (k.1 == tid && selected.contains k.2) := by
  rw [Bool.eq_iff_iff]
  simp only [compactDels, compactDvDels, List.contains_iff_mem, List.mem_append, List.mem_map, List.mem_flatMap,
    Bool.and_eq_true, beq_iff_eq]
  constructor
  · rintro (⟨rs, hrs, h⟩ | ⟨rs, _, dv, _, h⟩)
    · simp at h; exact ⟨h.1.symm, h.2 ▸ hrs⟩
    · simp at h
  · rintro ⟨h1, h2⟩
    exact Or.inl ⟨k.2, h2, by simp [h1]⟩

theorem contains_dels_dv (s : Store) (tid : Nat) (selected : List Nat) (x : DvE) (hx : x ∈ s.dvs) :
    (compactDels s tid selected).contains (Rec.delDV x.tid x.rs x.dv) = (x.tid == tid && selected.contains x.rs) := by
  rw [Bool.eq_iff_iff]
  simp only [compactDels, compactDvDels, List.contains_iff_mem, List.mem_append, List.mem_map, List.mem_flatMap,
    Bool.and_eq_true, beq_iff_eq]
  constructor
  · rintro (⟨rs, _, h⟩ | ⟨rs, hrs, dv, _, h⟩)
    · simp at h
    · simp at h; exact ⟨h.1.symm, h.2.1 ▸ hrs⟩
  · rintro ⟨h1, h2⟩
    refine Or.inr ⟨x.rs, h2, x.dv, ?_, by simp [h1]⟩
    rw [mem_sortNat]
    exact List.mem_map.mpr ⟨x, List.mem_filter.mpr ⟨hx, by simp [h1]⟩, rfl⟩

theorem compactTable_inv (s : Store) (inv : Inv s) (tid : Nat) (d : TableDef) (sel : List Nat)
    (hd : lookup tid s.tables = some d) : Inv (s.compactTable tid d sel) := by
  have hscan := compactTable_scan s inv.wf tid d sel
  revert hscan
  generalize hsel : sortNat ((s.rowsetsOf tid).filter sel.contains) = selected
  generalize hrows : (if d.sortKey.isEmpty then (selected.map fun rs => (s.rsVisible tid rs).map (·.2)).flatten
      else mergeAll (keyLe d.sortKey) (selected.map fun rs => (s.rsVisible tid rs).map (·.2))) = rows
  rw [compactTable_eq s tid d sel selected rows hsel hrows]
  intro hscan
  have hwf := hscan.1
  have hselmem : ∀ x, x ∈ selected → (tid, x) ∈ s.rowsets := by
    intro x hx
    rw [← hsel, mem_sortNat] at hx
    exact mem_rowsetsOf.mp (List.mem_filter.mp hx).1
  have hdelsDel := compactDels_isDel s tid selected
  have hdelsNm : ∀ r ∈ compactDels s tid selected, r.isMark = false := by
    intro r hr; have := hdelsDel r hr; cases r <;> simp_all [Rec.isDel, Rec.isMark]
  have hkeepSub : ∀ k ∈ (s.rowsets.filter fun x => !(x.1 == tid && selected.contains x.2)), k ∈ s.rowsets :=
    fun k hk => (List.mem_filter.mp hk).1
  have hdvSub : ∀ e ∈ (s.dvs.filter fun e => !(e.tid == tid && selected.contains e.rs)), e ∈ s.dvs :=
    fun e he => (List.mem_filter.mp he).1
  -- a kept DV sits on a kept row-set
  have hdvLive : ∀ e ∈ (s.dvs.filter fun e => !(e.tid == tid && selected.contains e.rs)),
      (e.tid, e.rs) ∈ (s.rowsets.filter fun x => !(x.1 == tid && selected.contains x.2)) := by
    intro e he
    have := List.mem_filter.mp he
    exact List.mem_filter.mpr ⟨inv.dvLive e this.1, this.2⟩
  have hdvSync : ∀ (l : List (Nat × Nat × Nat)), l = s.dvs.map DvE.key →
      l.filter (fun k => !((compactDels s tid selected).contains (Rec.delDV k.1 k.2.1 k.2.2)))
        = (s.dvs.filter fun e => !(e.tid == tid && selected.contains e.rs)).map DvE.key := by
    intro l hl
    subst hl
    rw [List.filter_map]
    congr 1
    apply List.filter_congr
    intro x hx
    simp only [Function.comp, DvE.key]
    rw [contains_dels_dv s tid selected x hx]
  by_cases hlen : selected.length ≤ 1
  · simp only [hlen, if_true]; exact inv
  · simp only [hlen, if_false] at hwf ⊢
    by_cases hemp : rows.isEmpty = true
    · simp only [hemp, if_true] at hwf ⊢
      obtain ⟨c1, c2⟩ := sync_commit s.manifest (compactDels s tid selected) inv.sync.closed hdelsNm
      have hD := foldl_dels _ (bootFold (replay s.manifest)) hdelsDel inv.sync.ok
      simp only [Boot.tabPart, Prod.mk.injEq] at hD
      refine ⟨hwf, Sync.mk' c2 c1 (by rw [hD.1.2.2.2]; exact inv.sync.ok) (by rw [hD.1.1]; exact inv.sync.cat)
          (by rw [hD.1.2.1]; exact inv.sync.tables) ?_ ?_,
        fun k hk => inv.dirs k (hkeepSub k hk), fun e he => inv.dvFiles e (hdvSub e he), hdvLive,
        fun e he => inv.dvIds e (hdvSub e he), inv.dvFileIds,
        inv.cati.transfer rfl rfl (by show (bootFold (replay (s.manifest ++ txn _))).cat = _; exact (congrArg Boot.cat c2).trans hD.1.1), fun k hk => inv.rsTables k (hkeepSub k hk),
        fun e he => inv.dvTables e (hdvSub e he)⟩
      · rw [hD.2.1, inv.sync.rs]
        apply List.filter_congr
        intro k _
        rw [contains_dels_rs]
      · rw [hD.2.2]
        exact hdvSync _ inv.sync.dv
    · have hemp' : rows.isEmpty = false := by simpa using hemp
      simp only [hemp', Bool.false_eq_true, if_false] at hwf ⊢
      have hnm : ∀ r ∈ (Rec.addRowSet tid s.nextRs :: compactDels s tid selected), r.isMark = false := by
        intro r hr
        cases hr with
        | head => rfl
        | tail _ hr => exact hdelsNm r hr
      obtain ⟨c1, c2⟩ := sync_commit s.manifest _ inv.sync.closed hnm
      rw [List.foldl_cons] at c2
      have hs : (bootFold (replay s.manifest)).step (Rec.addRowSet tid s.nextRs) =
          { bootFold (replay s.manifest) with
            nextRs := max (bootFold (replay s.manifest)).nextRs (s.nextRs + 1),
            rsOpen := setInsert (tid, s.nextRs) (bootFold (replay s.manifest)).rsOpen } := by
        unfold Boot.step; simp [inv.sync.ok]
      have hD := foldl_dels (compactDels s tid selected)
        ((bootFold (replay s.manifest)).step (Rec.addRowSet tid s.nextRs)) hdelsDel (by rw [hs]; exact inv.sync.ok)
      rw [hs] at hD
      simp only [Boot.tabPart, Prod.mk.injEq] at hD
      have hfresh : s.rowsets.contains (tid, s.nextRs) = false := by
        cases hc : s.rowsets.contains (tid, s.nextRs) with
        | false => rfl
        | true => have := inv.wf.rs _ (by simpa using hc); simp at this
      rw [hs] at c2
      refine ⟨hwf, Sync.mk' c2 c1 (by rw [hD.1.2.2.2]; exact inv.sync.ok) (by rw [hD.1.1]; exact inv.sync.cat)
          (by rw [hD.1.2.1]; exact inv.sync.tables) ?_ ?_,
        ?_, fun e he => inv.dvFiles e (hdvSub e he), fun e he => List.mem_append_left _ (hdvLive e he),
        fun e he => inv.dvIds e (hdvSub e he), inv.dvFileIds,
        inv.cati.transfer rfl rfl (by show (bootFold (replay (s.manifest ++ txn _))).cat = _; exact (congrArg Boot.cat c2).trans hD.1.1), ?_, fun e he => inv.dvTables e (hdvSub e he)⟩
      · rw [hD.2.1, inv.sync.rs, setInsert, hfresh]
        simp only [Bool.false_eq_true, if_false, List.filter_append]
        congr 1
        · apply List.filter_congr
          intro k _
          rw [contains_dels_rs]
        · have hns : ¬ s.nextRs ∈ selected := fun hc => by
            have := inv.wf.rs _ (hselmem _ hc); simp at this
          have : (compactDels s tid selected).contains (Rec.delRowSet tid s.nextRs) = false := by
            rw [contains_dels_rs (k := (tid, s.nextRs))]
            simp [hns]
          have hnm2 : ¬ Rec.delRowSet tid s.nextRs ∈ compactDels s tid selected := by
            intro hm
            have h2 : (compactDels s tid selected).contains (Rec.delRowSet tid s.nextRs) = true := by simpa using hm
            rw [this] at h2; exact Bool.false_ne_true h2
          simp [List.filter_cons, hnm2]
      · rw [hD.2.2]
        exact hdvSync _ inv.sync.dv
      · intro k hk
        show (lookup k (s.dirs ++ [((tid, s.nextRs), rows)])).isSome
        rw [lookup_append]
        rcases List.mem_append.mp hk with hk | hk
        · have := inv.dirs k (hkeepSub k hk)
          cases hl : lookup k s.dirs with
          | none => simp [hl] at this
          | some v => rfl
        · simp at hk; subst hk
          cases lookup (tid, s.nextRs) s.dirs with
          | some v => rfl
          | none => simp [lookup]
      · intro k hk
        rcases List.mem_append.mp hk with hk | hk
        · exact inv.rsTables k (hkeepSub k hk)
        · simp at hk; subst hk; show (lookup tid s.tables).isSome; rw [hd]; rfl

theorem compact_inv : ∀ (plan : List (Nat × List Nat)) (s : Store), Inv s → Inv (s.compact plan)
  | [], _, inv => inv
  | (tid, sel) :: plan, s, inv => by
    simp only [Store.compact, List.foldl_cons]
    cases hl : lookup tid s.tables with
    | none => exact compact_inv plan s inv
    | some d => exact compact_inv plan _ (compactTable_inv s inv tid d sel hl)

/-! ### CREATE TABLE keeps the invariant -/

theorem add_spec (c : Catalog) (n : String) (k : Kind) (id : Nat) (c' : Catalog) (h : c.add n k = some (id, c')) :
    c.find? n = none ∧ id = c.nextId ∧
      c' = { c with nextId := c.nextId + 1, entries := c.entries ++ [⟨c.nextId, n, k⟩] } := by
  unfold Catalog.add at h
  split at h
  · simp at h
  · rename_i hf
    simp at h
    refine ⟨?_, h.1.symm, h.2.symm⟩
    cases hc : c.find? n with
    | none => rfl
    | some e => simp [hc] at hf

theorem find?_none_names (c : Catalog) (n : String) (h : c.find? n = none) : n ∉ c.entries.map (·.name) := by
  intro hm
  obtain ⟨e, he, rfl⟩ := List.mem_map.mp hm
  simp only [Catalog.find?] at h
  have := List.find?_eq_none.mp h e he
  simp at this

theorem createTable_fields (s : Store) (d : TableDef) (id : Nat) (c' : Catalog) (h : s.cat.add d.name .table = some (id, c')) :
    let s' := (s.createTable d).1
    s'.cat = c' ∧ s'.tables = s.tables ++ [(id, d)] ∧ s'.rowsets = s.rowsets ∧ s'.dvs = s.dvs ∧ s'.pending = s.pending ∧
    s'.nextRs = s.nextRs ∧ s'.nextDv = s.nextDv ∧ s'.dirs = s.dirs ∧ s'.dvFiles = s.dvFiles ∧
    s'.manifest = s.manifest ++ txn [Rec.createTable d] ∧ (s.createTable d).2 = .ok 1 := by
  simp only [Store.createTable, h, Store.commit]
  simp

/-- `halign`: the id the live catalog is about to hand out is the one a replay of the log would hand
out (no view / index has taken an id since the last CREATE TABLE or reopen).  This is the exact
condition: otherwise the logged records of the new table carry an id the replay gives to another. -/
theorem createTable_inv (s : Store) (inv : Inv s) (d : TableDef) (id : Nat) (c' : Catalog)
    (h : s.cat.add d.name .table = some (id, c'))
    (halign : (bootFold (replay s.manifest)).cat.nextId = s.cat.nextId) : Inv (s.createTable d).1 := by
  obtain ⟨f1, f2, f3, f4, f5, f6, f7, f8, f9, f10, _⟩ := createTable_fields s d id c' h
  obtain ⟨a1, a2, a3⟩ := add_spec _ _ _ _ _ h
  subst a2
  have hnm : ∀ r ∈ [Rec.createTable d], r.isMark = false := by intro r hr; simp at hr; subst hr; rfl
  obtain ⟨c1, c2⟩ := sync_commit s.manifest _ inv.sync.closed hnm
  have hbfind : (bootFold (replay s.manifest)).cat.find? d.name = none := by
    simp only [Catalog.find?, inv.sync.cat]
    rw [List.find?_eq_none]
    intro x hx
    have : s.cat.entries.find? (fun e => e.name == d.name) = none := a1
    exact List.find?_eq_none.mp this x (List.mem_filter.mp hx).1
  have hstep : (bootFold (replay s.manifest)).step (Rec.createTable d) =
      { bootFold (replay s.manifest) with
        cat := { (bootFold (replay s.manifest)).cat with
                 nextId := s.cat.nextId + 1
                 entries := (bootFold (replay s.manifest)).cat.entries ++ [⟨s.cat.nextId, d.name, .table⟩] }
        tables := s.tables ++ [(s.cat.nextId, d)]
        tableOps := (bootFold (replay s.manifest)).tableOps ++ [Rec.createTable d] } := by
    unfold Boot.step
    simp only [inv.sync.ok, Option.isSome_none, Bool.false_eq_true, if_false, Catalog.add, hbfind, halign,
      inv.sync.tables]
  simp only [List.foldl_cons, List.foldl_nil, hstep] at c2
  rw [← f10] at c1 c2
  have hlk : ∀ t, (lookup t s.tables).isSome → (lookup t (s.tables ++ [(s.cat.nextId, d)])).isSome := by
    intro t ht; rw [lookup_append_isSome _ _ _ ht]; exact ht
  have hbcat : (bootFold (replay (s.createTable d).1.manifest)).cat =
      { (bootFold (replay s.manifest)).cat with
        nextId := s.cat.nextId + 1
        entries := (bootFold (replay s.manifest)).cat.entries ++ [⟨s.cat.nextId, d.name, .table⟩] } := by
    rw [c2]
  refine ⟨⟨by rw [f8, f6]; exact inv.wf.dirs, by rw [f3, f6]; exact inv.wf.rs, by rw [f4, f6]; exact inv.wf.dv,
      by rw [f5, f3, f6]; exact inv.wf.pend⟩,
    Sync.mk' c2 c1 inv.sync.ok ?_ f2.symm (by rw [f3]; exact inv.sync.rs) (by rw [f4]; exact inv.sync.dv),
    by rw [f3, f8]; exact inv.dirs, by rw [f4, f9]; exact inv.dvFiles, by rw [f4, f3]; exact inv.dvLive,
    by rw [f4, f7]; exact inv.dvIds, by rw [f9, f7]; exact inv.dvFileIds,
    ⟨?_, ?_, ?_, ?_, ?_, ?_, ?_, ?_⟩, ?_, ?_⟩
  · show (bootFold (replay s.manifest)).cat.entries ++ [⟨s.cat.nextId, d.name, .table⟩] = _
    rw [f1, a3, inv.sync.cat]
    simp [List.filter_append]
  · rw [hbcat, f1, a3]; simp
  · rw [f1, a3]
    intro e he
    simp only at he ⊢
    rcases List.mem_append.mp he with he | he
    · have := inv.catIds e he; omega
    · simp at he; subst he; simp
  · rw [f1, a3]
    simp only [List.map_append, List.map_cons, List.map_nil]
    rw [List.nodup_append]
    refine ⟨inv.idsNodup, by simp, ?_⟩
    intro a ha b hb hab
    simp at hb; subst hb; subst hab
    obtain ⟨e, he, hid⟩ := List.mem_map.mp ha
    have := inv.catIds e he
    omega
  · rw [f1, a3]
    simp only [List.map_append, List.map_cons, List.map_nil]
    rw [List.nodup_append]
    refine ⟨inv.namesNodup, by simp, ?_⟩
    intro a ha b hb hab
    simp at hb; subst hb; subst hab
    exact find?_none_names _ _ a1 ha
  · rw [f1, a3, f2]
    intro e he hk
    simp only at he
    rcases List.mem_append.mp he with he | he
    · exact hlk _ (inv.catTab e he hk)
    · simp at he; subst he
      simp only
      rw [lookup_append]
      cases lookup s.cat.nextId s.tables with
      | some v => rfl
      | none => simp [lookup]
  · rw [hbcat]
    intro e he
    simp only at he ⊢
    rcases List.mem_append.mp he with he | he
    · have := inv.cati.bootIds e he; omega
    · simp at he; subst he; simp
  · rw [hbcat, f2]
    intro x hx
    simp only
    rcases List.mem_append.mp hx with hx | hx
    · have := inv.cati.bootTabIds x hx; omega
    · simp at hx; subst hx; simp
  · rw [f1, a3, f2]
    intro x hx
    simp only
    rcases List.mem_append.mp hx with hx | hx
    · have := inv.tabIds x hx; omega
    · simp at hx; subst hx; simp
  · rw [f3, f2]; exact fun k hk => hlk _ (inv.rsTables k hk)
  · rw [f4, f2]; exact fun e he => hlk _ (inv.dvTables e he)

/-! ### DROP TABLE keeps the invariant -/

def dropRecs (s : Store) (tid : Nat) : List Rec :=
  (s.rowsetsOf tid).flatMap fun rs =>
    Rec.delRowSet tid rs :: ((s.dvs.filter fun x => x.tid == tid && x.rs == rs).map fun x => Rec.delDV tid rs x.dv)

theorem drop_fields (s : Store) (n : String) (e0 : CatEntry) (h : s.cat.find? n = some e0) (hk : e0.kind = .table) :
    let s' := (s.drop n).1
    let tid := e0.id
    s'.cat = s.cat.remove tid ∧ s'.tables = s.tables.filter (·.1 != tid) ∧
    s'.rowsets = s.rowsets.filter (·.1 != tid) ∧
    s'.dvs = s.dvs.filter (fun x => !(x.tid == tid && (s.rowsetsOf tid).contains x.rs)) ∧
    s'.pending = s.pending ++ (s.rowsetsOf tid).map (fun rs => (tid, rs)) ∧
    s'.nextRs = s.nextRs ∧ s'.nextDv = s.nextDv ∧ s'.dirs = s.dirs ∧ s'.dvFiles = s.dvFiles ∧
    s'.manifest = s.manifest ++ txn (Rec.dropTable tid :: dropRecs s tid) ∧ (s.drop n).2 = .ok 1 := by
  simp only [Store.drop, h, hk, Store.commit, dropRecs]
  simp

theorem mem_dropRecs_rs (s : Store) (tid a b : Nat) :
    Rec.delRowSet a b ∈ dropRecs s tid ↔ a = tid ∧ b ∈ s.rowsetsOf tid := by
  simp only [dropRecs, List.mem_flatMap, List.mem_cons, List.mem_map]
  constructor
  · rintro ⟨rs, hrs, h | ⟨x, _, hx⟩⟩
    · simp at h; exact ⟨h.1, h.2 ▸ hrs⟩
    · simp at hx
  · rintro ⟨rfl, hb⟩
    exact ⟨b, hb, Or.inl rfl⟩

theorem mem_dropRecs_dv (s : Store) (tid : Nat) (x : DvE) (hx : x ∈ s.dvs) :
    Rec.delDV x.tid x.rs x.dv ∈ dropRecs s tid ↔ x.tid = tid ∧ x.rs ∈ s.rowsetsOf tid := by
  simp only [dropRecs, List.mem_flatMap, List.mem_cons, List.mem_map, List.mem_filter]
  constructor
  · rintro ⟨rs, hrs, h | ⟨y, _, hy⟩⟩
    · simp at h
    · simp at hy; exact ⟨hy.1.symm, hy.2.1 ▸ hrs⟩
  · rintro ⟨h1, h2⟩
    exact ⟨x.rs, h2, Or.inr ⟨x, ⟨hx, by simp [h1]⟩, by simp [h1]⟩⟩

theorem lookup_filter_ne {β} (tid : Nat) : ∀ l : List (Nat × β), lookup tid (l.filter (·.1 != tid)) = none
  | [] => rfl
  | (a, b) :: l => by
    rw [List.filter_cons]
    by_cases h : a = tid
    · subst h; simp [lookup_filter_ne a l]
    · have : (a == tid) = false := by simpa using h
      simp [h, lookup, this, lookup_filter_ne tid l]

theorem drop_inv (s : Store) (inv : Inv s) (n : String) (e0 : CatEntry) (h : s.cat.find? n = some e0)
    (hk : e0.kind = .table) : Inv (s.drop n).1 := by
  have guard : ∀ e ∈ s.dvs, e.tid = e0.id → (e0.id, e.rs) ∈ s.rowsets :=
    fun e he ht => ht ▸ inv.dvLive e he
  have he0 : e0 ∈ s.cat.entries := List.mem_of_find?_eq_some h
  obtain ⟨f1, f2, f3, f4, f5, f6, f7, f8, f9, f10, _⟩ := drop_fields s n e0 h hk
  generalize htid : e0.id = tid at *
  have hrecsDel : ∀ r ∈ dropRecs s tid, r.isDel = true := by
    intro r hr
    simp only [dropRecs, List.mem_flatMap, List.mem_cons, List.mem_map] at hr
    obtain ⟨rs, _, rfl | ⟨x, _, rfl⟩⟩ := hr <;> rfl
  have hnm : ∀ r ∈ (Rec.dropTable tid :: dropRecs s tid), r.isMark = false := by
    intro r hr
    cases hr with
    | head => rfl
    | tail _ hr => have := hrecsDel r hr; cases r <;> simp_all [Rec.isDel, Rec.isMark]
  obtain ⟨c1, c2⟩ := sync_commit s.manifest _ inv.sync.closed hnm
  have htab : (lookup tid s.tables).isSome := by rw [← htid]; exact inv.catTab e0 he0 hk
  have hstep : (bootFold (replay s.manifest)).step (Rec.dropTable tid) =
      { bootFold (replay s.manifest) with
        cat := (bootFold (replay s.manifest)).cat.remove tid
        tables := s.tables.filter (·.1 != tid)
        tableOps := (bootFold (replay s.manifest)).tableOps ++ [Rec.dropTable tid] } := by
    unfold Boot.step
    simp only [inv.sync.ok, Option.isSome_none, Bool.false_eq_true, if_false, inv.sync.tables, htab, if_true]
  rw [List.foldl_cons, hstep] at c2
  have hD := foldl_dels (dropRecs s tid) _ hrecsDel (show ({ bootFold (replay s.manifest) with
        cat := (bootFold (replay s.manifest)).cat.remove tid
        tables := s.tables.filter (·.1 != tid)
        tableOps := (bootFold (replay s.manifest)).tableOps ++ [Rec.dropTable tid] } : Boot).failed = none from inv.sync.ok)
  simp only [Boot.tabPart, Prod.mk.injEq] at hD
  rw [← f10] at c1 c2
  have hkeep : ∀ k ∈ s.rowsets.filter (·.1 != tid), k ∈ s.rowsets ∧ k.1 ≠ tid := by
    intro k hk; have := List.mem_filter.mp hk; exact ⟨this.1, by simpa using this.2⟩
  have hdvkeep : ∀ e ∈ s.dvs.filter (fun x => !(x.tid == tid && (s.rowsetsOf tid).contains x.rs)), e ∈ s.dvs ∧ e.tid ≠ tid := by
    intro e he
    have := List.mem_filter.mp he
    refine ⟨this.1, ?_⟩
    intro ht
    have hg := guard e this.1 ht
    have : (s.rowsetsOf tid).contains e.rs = true := by simpa using mem_rowsetsOf.mpr hg
    have h2 := (List.mem_filter.mp he).2
    rw [ht, this] at h2
    simp at h2
  refine ⟨⟨by rw [f8, f6]; exact inv.wf.dirs, ?_, ?_, ?_⟩,
    Sync.mk' c2 c1 (by rw [hD.1.2.2.2]; exact inv.sync.ok)
      (by rw [hD.1.1, f1]
          simp only [Catalog.remove, inv.sync.cat, List.filter_filter]
          apply List.filter_congr
          intro x _
          exact Bool.and_comm _ _) (by rw [hD.1.2.1, f2]) ?_ ?_,
    ?_, ?_, ?_, ?_, ?_, ⟨?_, ?_, ?_, ?_, ?_, ?_, ?_, ?_⟩, ?_, ?_⟩
  · rw [f3, f6]; exact fun k hk => inv.wf.rs k (hkeep k hk).1
  · rw [f4, f6]; exact fun e he => inv.wf.dv e (hdvkeep e he).1
  · rw [f5, f3, f6]
    intro k hk
    rcases List.mem_append.mp hk with hk | hk
    · have := inv.wf.pend k hk
      exact ⟨fun hm => this.1 (hkeep k hm).1, this.2⟩
    · obtain ⟨rs, hrs, rfl⟩ := List.mem_map.mp hk
      exact ⟨fun hm => (hkeep _ hm).2 rfl, inv.wf.rs _ (mem_rowsetsOf.mp hrs)⟩
  · rw [hD.2.1, f3]
    show List.filter _ (bootFold (replay s.manifest)).rsOpen = _
    rw [inv.sync.rs]
    apply List.filter_congr
    intro k hk
    rw [Bool.eq_iff_iff]
    simp only [Bool.not_eq_true', List.contains_eq_mem, decide_eq_false_iff_not, mem_dropRecs_rs, bne_iff_ne, ne_eq]
    constructor
    · intro h1 h2; exact h1 ⟨h2, mem_rowsetsOf.mpr (by rw [← h2]; exact hk)⟩
    · intro h1 h2; exact h1 h2.1
  · rw [hD.2.2, f4]
    show List.filter _ (bootFold (replay s.manifest)).dvOpen = _
    rw [inv.sync.dv, List.filter_map]
    congr 1
    apply List.filter_congr
    intro x hx
    rw [Bool.eq_iff_iff]
    simp only [Function.comp, DvE.key, Bool.not_eq_true', List.contains_eq_mem, decide_eq_false_iff_not,
      mem_dropRecs_dv s tid x hx, Bool.and_eq_true, beq_iff_eq, decide_eq_true_eq]
    simp
  · rw [f3, f8]; exact fun k hk => inv.dirs k (hkeep k hk).1
  · rw [f4, f9]; exact fun e he => inv.dvFiles e (hdvkeep e he).1
  · rw [f4, f3]
    intro e he
    have hk := hdvkeep e he
    exact List.mem_filter.mpr ⟨inv.dvLive e hk.1, by simpa using hk.2⟩
  · rw [f4, f7]; exact fun e he => inv.dvIds e (hdvkeep e he).1
  · rw [f9, f7]; exact inv.dvFileIds
  · have : (bootFold (replay (s.drop n).1.manifest)).cat.nextId = (bootFold (replay s.manifest)).cat.nextId := by
      rw [c2, hD.1.1]; rfl
    rw [this, f1]; exact inv.cati.catNext
  · rw [f1]; exact fun e he => inv.catIds e (List.mem_filter.mp he).1
  · rw [f1]; exact inv.idsNodup.sublist ((List.filter_sublist).map _)
  · rw [f1]; exact inv.namesNodup.sublist ((List.filter_sublist).map _)
  · rw [f1, f2]
    intro e he hke
    have := List.mem_filter.mp he
    have hne : e.id ≠ tid := by simpa using this.2
    rw [lookup_filter (fun a => a != tid) e.id (by simpa using hne)]
    exact inv.catTab e this.1 hke
  · rw [c2, hD.1.1]
    intro e he
    exact inv.cati.bootIds e (List.mem_filter.mp he).1
  · rw [c2, hD.1.1, f2]
    intro x hx
    exact inv.cati.bootTabIds x (List.mem_filter.mp hx).1
  · rw [f1, f2]; exact fun x hx => inv.tabIds x (List.mem_filter.mp hx).1
  · rw [f3, f2]
    intro k hk
    rw [lookup_filter (fun a => a != tid) k.1 (by simpa using (hkeep k hk).2)]
    exact inv.rsTables k (hkeep k hk).1
  · rw [f4, f2]
    intro e he
    rw [lookup_filter (fun a => a != tid) e.tid (by simpa using (hdvkeep e he).2)]
    exact inv.dvTables e (hdvkeep e he).1

/-! ### reopen keeps the invariant -/

theorem reopen_inv (s : Store) (inv : Inv s) :
    ∃ s', s.reopen = .ok s' ∧ Inv s' ∧ (∀ n, s'.abs n = s.abs n) ∧
      s'.cat.entries = s.cat.entries.filter (·.kind == Kind.table) ∧ s'.tables = s.tables ∧
      (∀ t, s'.scan t = s.scan t) ∧
      (bootFold (replay s'.manifest)).cat.nextId = s'.cat.nextId := by
  have hfresh := bootFold_fresh (replay s.manifest)
  have hdirs : ∀ k ∈ s.rowsets, lookup k (s.dirs.filter fun x => s.rowsets.contains x.1) = lookup k s.dirs :=
    fun k hk => lookup_filter (fun a => s.rowsets.contains a) k (by simpa using hk) s.dirs
  have a1 : (s.rowsets.any fun k => (lookup k.1 s.tables).isNone) = false :=
    any_false_of_forall _ _ fun k hk => by
      have := inv.rsTables k hk
      cases hl : lookup k.1 s.tables <;> simp_all
  have a2 : (s.rowsets.any fun k => (lookup k (s.dirs.filter fun x => s.rowsets.contains x.1)).isNone) = false :=
    any_false_of_forall _ _ fun k hk => by
      rw [hdirs k hk]
      have := inv.dirs k hk
      cases hl : lookup k s.dirs <;> simp_all
  have a3 : ((s.dvs.map DvE.key).any fun k => (lookup k.1 s.tables).isNone) = false :=
    any_false_of_forall _ _ fun k hk => by
      obtain ⟨e, he, rfl⟩ := List.mem_map.mp hk
      have := inv.dvTables e he
      cases hl : lookup e.key.1 s.tables <;> simp_all [DvE.key]
  have hrw := bootFold_rewrite (replay s.manifest) inv.sync.ok
  have hnm := rewriteOps_noMarks (replay s.manifest) inv.sync.ok
  have hrep := replay_txn _ hnm
  have hcl : Closed (txn (rewriteOps (bootFold (replay s.manifest)))) :=
    (replay_append_txn [] _ (by simp [Closed]) hnm).2
  -- every entry the replay rebuilds is a table entry of the live catalog
  have hbmem : ∀ e ∈ (bootFold (replay s.manifest)).cat.entries, e ∈ s.cat.entries ∧ e.kind = .table := by
    intro e he
    rw [inv.sync.cat] at he
    have := List.mem_filter.mp he
    exact ⟨this.1, by simpa using this.2⟩
  have hbfilter : (bootFold (replay s.manifest)).cat.entries.filter (·.kind == Kind.table)
      = (bootFold (replay s.manifest)).cat.entries := by
    rw [List.filter_eq_self]
    intro e he
    simp [(hbmem e he).2]
  have hman : replay (txn (List.map (fun k => Rec.addRowSet k.fst k.snd) s.rowsets ++
      List.map (fun k => Rec.addDV k.fst k.snd.fst k.snd.snd) (List.map DvE.key s.dvs) ++
      (bootFold (replay s.manifest)).tableOps)) = rewriteOps (bootFold (replay s.manifest)) := by
    rw [← inv.sync.rs, ← inv.sync.dv]; exact hrep
  have hcl' : Closed (txn (List.map (fun k => Rec.addRowSet k.fst k.snd) s.rowsets ++
      List.map (fun k => Rec.addDV k.fst k.snd.fst k.snd.snd) (List.map DvE.key s.dvs) ++
      (bootFold (replay s.manifest)).tableOps)) := by
    rw [← inv.sync.rs, ← inv.sync.dv]; exact hcl
  unfold Store.reopen
  simp only [inv.sync.ok, inv.sync.rs, inv.sync.tables, inv.sync.dv, a1, a2, a3, Bool.false_eq_true, if_false,
    openDvs_eq s.dvFiles s.dvs inv.dvFiles]
  refine ⟨_, rfl, ?_, ?_, inv.sync.cat, rfl, ?_, ?_⟩
  · refine ⟨⟨?_, ?_, ?_, by simp⟩,
      Sync.mk' (b := bootFold (rewriteOps (bootFold (replay s.manifest)))) (by show bootFold (replay _) = _; rw [hman]) hcl'
        hrw.2.2.2.1 (by rw [hrw.1]; exact hbfilter.symm) (by rw [hrw.2.1]; exact inv.sync.tables)
        (by rw [hrw.2.2.2.2.1]; exact inv.sync.rs) (by rw [hrw.2.2.2.2.2]; exact inv.sync.dv),
      ?_, ?_, inv.dvLive, ?_, ?_, ⟨?_, ?_, ?_, ?_, ?_, ?_, ?_, ?_⟩, inv.rsTables, inv.dvTables⟩
    · intro x hx
      have := (List.mem_filter.mp hx).2
      exact hfresh.1 x.1 (by rw [inv.sync.rs]; simpa using this)
    · intro k hk; exact hfresh.1 k (by rw [inv.sync.rs]; exact hk)
    · intro e he
      show e.rs < (bootFold (replay s.manifest)).nextRs
      exact hfresh.1 _ (by rw [inv.sync.rs]; exact inv.dvLive e he)
    · intro k hk
      show (lookup k (s.dirs.filter fun x => s.rowsets.contains x.1)).isSome
      rw [hdirs k hk]; exact inv.dirs k hk
    · intro e he
      obtain ⟨raw, h1, h2⟩ := inv.dvFiles e he
      refine ⟨raw, ?_, h2⟩
      show lookup e.key (s.dvFiles.filter fun x => (s.dvs.map DvE.key).contains x.1) = some raw
      rw [lookup_filter (fun a => (s.dvs.map DvE.key).contains a) e.key (by simpa using List.mem_map_of_mem he)]
      exact h1
    · intro e he
      exact hfresh.2.1 e.key (by rw [inv.sync.dv]; exact List.mem_map_of_mem he)
    · intro x hx
      have hx' : x ∈ s.dvFiles.filter fun x => (s.dvs.map DvE.key).contains x.1 := hx
      have := (List.mem_filter.mp hx').2
      exact hfresh.2.1 x.1 (by rw [inv.sync.dv]; simpa using this)
    · show (bootFold (replay (txn _))).cat.nextId ≤ (bootFold (replay s.manifest)).cat.nextId
      rw [hman, hrw.1]; exact Nat.le_refl _
    · exact inv.cati.bootIds
    · show ((bootFold (replay s.manifest)).cat.entries.map _).Nodup
      rw [inv.sync.cat]; exact inv.idsNodup.sublist ((List.filter_sublist).map _)
    · show ((bootFold (replay s.manifest)).cat.entries.map _).Nodup
      rw [inv.sync.cat]; exact inv.namesNodup.sublist ((List.filter_sublist).map _)
    · intro e he hk
      exact inv.catTab e (hbmem e he).1 hk
    · show ∀ e ∈ (bootFold (replay (txn _))).cat.entries, e.id < (bootFold (replay (txn _))).cat.nextId
      rw [hman, hrw.1]; exact inv.cati.bootIds
    · show ∀ x ∈ s.tables, x.1 < (bootFold (replay (txn _))).cat.nextId
      rw [hman, hrw.1]; exact inv.cati.bootTabIds
    · exact inv.cati.bootTabIds
  · intro n
    apply abs_congr'
    · intro m
      exact tableId?_of_sync (s' := ⟨(bootFold (replay s.manifest)).cat, s.tables, s.rowsets, s.dvs, [], 0, 0, [], [], []⟩)
        inv.sync.cat inv.namesNodup m
    · rfl
    · rfl
    · rfl
    · exact hdirs
  · intro t
    apply scan_congr
    · rfl
    · rfl
    · intro rs hrs; exact hdirs _ hrs
  · show (bootFold (replay (txn _))).cat.nextId = (bootFold (replay s.manifest)).cat.nextId
    rw [hman, hrw.1]

/-! ### views and indexes: catalog only, but they take ids from the tables' counter -/

theorem entries_id_inj {l : List CatEntry} (hnd : (l.map (·.id)).Nodup) {e e' : CatEntry} (he : e ∈ l) (he' : e' ∈ l)
    (h : e.id = e'.id) : e = e' := by
  induction l with
  | nil => simp at he
  | cons x l ih =>
    simp only [List.map_cons, List.nodup_cons] at hnd
    cases he with
    | head =>
      cases he' with
      | head => rfl
      | tail _ h2 => exact absurd (List.mem_map.mpr ⟨e', h2, h.symm⟩) hnd.1
    | tail _ h1 =>
      cases he' with
      | head => exact absurd (List.mem_map.mpr ⟨e, h1, h⟩) hnd.1
      | tail _ h2 => exact ih hnd.2 h1 h2

/-- a statement that only changes the catalog: same log, same tables, the table entries of the
catalog unchanged, the id counter not decreased -/
theorem catOnly_inv (s : Store) (inv : Inv s) (c' : Catalog)
    (hent : c'.entries.filter (·.kind == Kind.table) = s.cat.entries.filter (·.kind == Kind.table))
    (hnext : s.cat.nextId ≤ c'.nextId)
    (hids : ∀ e ∈ c'.entries, e.id < c'.nextId) (hidn : (c'.entries.map (·.id)).Nodup)
    (hnn : (c'.entries.map (·.name)).Nodup)
    (htab : ∀ e ∈ c'.entries, e.kind = .table → e ∈ s.cat.entries) : Inv { s with cat := c' } := by
  refine ⟨⟨inv.wf.dirs, inv.wf.rs, inv.wf.dv, inv.wf.pend⟩,
    ⟨inv.sync.closed, inv.sync.ok, by show _ = c'.entries.filter _; rw [hent]; exact inv.sync.cat, inv.sync.tables,
      inv.sync.rs, inv.sync.dv⟩,
    inv.dirs, inv.dvFiles, inv.dvLive, inv.dvIds, inv.dvFileIds,
    ⟨Nat.le_trans inv.cati.catNext hnext, hids, hidn, hnn, fun e he hk => inv.catTab e (htab e he hk) hk,
      inv.cati.bootIds, inv.cati.bootTabIds, fun x hx => Nat.lt_of_lt_of_le (inv.tabIds x hx) hnext⟩,
    inv.rsTables, inv.dvTables⟩

theorem createView_inv (s : Store) (inv : Inv s) (n : String) : Inv (s.createView n).1 := by
  unfold Store.createView
  cases ha : s.cat.add n .view with
  | none => exact inv
  | some r =>
    obtain ⟨id, c'⟩ := r
    obtain ⟨a1, a2, a3⟩ := add_spec _ _ _ _ _ ha
    subst a3
    apply catOnly_inv s inv
    · simp [List.filter_append]
    · simp
    · intro e he
      simp only at he ⊢
      rcases List.mem_append.mp he with he | he
      · have := inv.catIds e he; omega
      · simp at he; subst he; simp
    · simp only [List.map_append, List.map_cons, List.map_nil]
      rw [List.nodup_append]
      refine ⟨inv.idsNodup, by simp, ?_⟩
      intro a ha' b hb hab
      simp at hb; subst hb; subst hab
      obtain ⟨e, he, hid⟩ := List.mem_map.mp ha'
      have := inv.catIds e he
      omega
    · simp only [List.map_append, List.map_cons, List.map_nil]
      rw [List.nodup_append]
      refine ⟨inv.namesNodup, by simp, ?_⟩
      intro a ha' b hb hab
      simp at hb; subst hb; subst hab
      exact find?_none_names _ _ a1 ha'
    · intro e he hk
      simp only at he
      rcases List.mem_append.mp he with he | he
      · exact he
      · simp at he; subst he; simp at hk

theorem createIndex_inv (s : Store) (inv : Inv s) (n t : String) : Inv (s.createIndex n t).1 := by
  unfold Store.createIndex
  cases s.tableId? t with
  | none => exact inv
  | some _ =>
    simp only
    cases ha : s.cat.addIndex n with
    | none => exact inv
    | some r =>
      obtain ⟨id, c'⟩ := r
      unfold Catalog.addIndex at ha
      split at ha
      · simp at ha
      · simp at ha
        obtain ⟨_, rfl⟩ := ha
        apply catOnly_inv s inv
        · rfl
        · simp
        · intro e he; have := inv.catIds e he; simp only; omega
        · exact inv.idsNodup
        · exact inv.namesNodup
        · intro e he _; exact he

theorem dropView_inv (s : Store) (inv : Inv s) (n : String) (e0 : CatEntry) (h : s.cat.find? n = some e0)
    (hk : e0.kind = .view) : Inv (s.drop n).1 := by
  have he0 : e0 ∈ s.cat.entries := List.mem_of_find?_eq_some h
  have : (s.drop n).1 = { s with cat := s.cat.remove e0.id } := by simp [Store.drop, h, hk]
  rw [this]
  apply catOnly_inv s inv
  · simp only [Catalog.remove, List.filter_filter]
    apply List.filter_congr
    intro x hx
    by_cases hxk : x.kind = .table
    · have hne : x.id ≠ e0.id := by
        intro hid
        have := entries_id_inj inv.idsNodup hx he0 hid
        rw [this, hk] at hxk; cases hxk
      simp [hxk, hne]
    · have : (x.kind == Kind.table) = false := by simpa using hxk
      simp [this]
  · exact Nat.le_refl _
  · intro e he; exact inv.catIds e (List.mem_filter.mp he).1
  · exact inv.idsNodup.sublist ((List.filter_sublist).map _)
  · exact inv.namesNodup.sublist ((List.filter_sublist).map _)
  · intro e he _; exact (List.mem_filter.mp he).1

/-! ### histories -/

/-- **The exact guard.**  The only statement that needs one is CREATE TABLE: the id the live catalog
is about to hand out must be the id a replay of the log would hand out, i.e. no view and no index
has taken an id since the last table was created (or since the last reopen, which forgets views and
re-aligns the counters).  Views, indexes, DROP, INSERT, DELETE, compaction, vacuum and reopen are
unrestricted. -/
def Guard (s : Store) : Op → Prop
  | .create _ => (bootFold (replay s.manifest)).cat.nextId = s.cat.nextId
  | _ => True

instance (s : Store) : (op : Op) → Decidable (Guard s op)
  | .create _ => by unfold Guard; infer_instance
  | .createView _ => isTrue trivial
  | .createIndex _ _ => isTrue trivial
  | .delete _ _ => isTrue trivial
  | .compact _ => isTrue trivial
  | .vacuum => isTrue trivial
  | .reopen => isTrue trivial
  | .drop _ => isTrue trivial
  | .insert _ _ => isTrue trivial

def GoodHist : Store → List Op → Prop
  | _, [] => True
  | s, op :: ops => Guard s op ∧ match (stepUp s op).1 with
    | .up s' => GoodHist s' ops
    | .dead _ => True

instance : ∀ (h : List Op) (s : Store), Decidable (GoodHist s h)
  | [], _ => by unfold GoodHist; infer_instance
  | op :: ops, s => by
    unfold GoodHist
    cases hs : (stepUp s op).1 with
    | up s' => simp only; exact @instDecidableAnd _ _ _ (instDecidableGoodHist ops s')
    | dead _ => simp only; infer_instance

/-- one guarded statement keeps the invariant and never kills the database -/
theorem step_inv (s : Store) (inv : Inv s) (op : Op) (g : Guard s op) :
    ∃ s', (stepUp s op).1 = .up s' ∧ Inv s' := by
  cases op with
  | create d =>
    cases ha : s.cat.add d.name .table with
    | none => exact ⟨s, by simp [stepUp, Store.createTable, ha], inv⟩
    | some r => exact ⟨_, rfl, createTable_inv s inv d r.1 r.2 ha g⟩
  | createView n => exact ⟨_, rfl, createView_inv s inv n⟩
  | createIndex n t => exact ⟨_, rfl, createIndex_inv s inv n t⟩
  | drop n =>
    cases hf : s.cat.find? n with
    | none => exact ⟨s, by simp [stepUp, Store.drop, hf], inv⟩
    | some e0 =>
      cases hk : e0.kind with
      | table => exact ⟨_, rfl, drop_inv s inv n e0 hf hk⟩
      | view => exact ⟨_, rfl, dropView_inv s inv n e0 hf hk⟩
  | insert n parts =>
    cases h1 : s.tableId? n with
    | none => exact ⟨s, by simp [stepUp, Store.insert, h1], inv⟩
    | some tid =>
      cases h2 : lookup tid s.tables with
      | none => exact ⟨s, by simp [stepUp, Store.insert, h1, h2], inv⟩
      | some d =>
        cases hok : rowsOk d parts.flatten with
        | false => exact ⟨s, by simp [stepUp, insert_rejected s n parts tid d h1 h2 hok], inv⟩
        | true => exact ⟨_, rfl, insert_inv s inv n parts tid d h1 h2 hok⟩
  | delete n p =>
    cases h1 : s.tableId? n with
    | none => exact ⟨s, by simp [stepUp, Store.delete, h1], inv⟩
    | some tid => exact ⟨_, rfl, delete_inv s inv n p tid h1⟩
  | compact plan => exact ⟨_, rfl, compact_inv plan s inv⟩
  | vacuum => exact ⟨_, rfl, vacuum_inv s inv⟩
  | reopen =>
    obtain ⟨s', h1, h2, _⟩ := reopen_inv s inv
    exact ⟨s', by simp [stepUp, h1], h2⟩

/-- **every guarded history of acknowledged statements (DDL, INSERT, DELETE, compaction, vacuum,
shutdown+reopen, in any order and number) ends in a state satisfying the invariant** -/
theorem hist_inv : ∀ (h : List Op) (s : Store), Inv s → GoodHist s h → ∃ s', run (.up s) h = .up s' ∧ Inv s'
  | [], s, inv, _ => ⟨s, rfl, inv⟩
  | op :: ops, s, inv, g => by
    obtain ⟨s1, e1, inv1⟩ := step_inv s inv op g.1
    have g2 := g.2
    rw [e1] at g2
    obtain ⟨s2, e2, inv2⟩ := hist_inv ops s1 inv1 g2
    exact ⟨s2, by simp only [run, step, e1]; exact e2, inv2⟩

end RlModel
