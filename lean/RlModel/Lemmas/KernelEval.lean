import RlModel.Lemmas.KernelSlots
import RlModel.Model.KernelEval
/-! Lemmas towards the expression-level theorem `eval_pointwise_partial` (Thm/C14.lean). -/
namespace RlModel

theorem vals_map {α β} (a : Arr α) (g : Slot α → Slot β) (h : Option α → Option β)
    (hg : ∀ s, (g s).val = h s.val) : vals (a.map g) = (vals a).map h := by
  induction a with
  | nil => rfl
  | cons x xs ih => simp only [vals, List.map_cons, List.map_map] at ih ⊢; simp [hg x, ← ih]

theorem vals_replicate_valid {α} (n : Nat) (x : α) :
    vals (List.replicate n (⟨true, x⟩ : Slot α)) = List.replicate n (some x) := by
  simp [vals, Slot.val]

theorem vals_nullArr {α} (d : α) (n : Nat) : vals (nullArr d n) = List.replicate n none := by
  simp [vals, nullArr, Slot.val]

/-- `try_unary_op`: NULL-strict lifting of `f`, row by row. -/
theorem tryUnaryOp_vals {α γ} (d : γ) (f : α → KOut γ) (a : Arr α) :
    (tryUnaryOp d f a).map vals = rows1 (liftOpt f) (vals a) := by
  induction a with
  | nil => rfl
  | cons x xs ih =>
    rcases x with ⟨v, r⟩
    cases v
    · simp only [tryUnaryOp, vals, List.map_cons, Slot.val, rows1, liftOpt] at ih ⊢
      rw [← ih]
      cases tryUnaryOp d f xs <;> simp [KOut.map, vals, Slot.val]
    · simp only [tryUnaryOp, vals, List.map_cons, Slot.val, rows1, liftOpt] at ih ⊢
      rw [← ih]
      cases hf : f r <;> cases hz : tryUnaryOp d f xs <;> simp [KOut.map, vals, Slot.val, hf, hz]

/-- `unary_op` when the raw function succeeds on every slot. -/
theorem unaryOp_vals {α γ} (f : α → KOut γ) (g : Option α → KOut (Option γ)) (a : Arr α)
    (hok : ∀ s ∈ a, ∃ c, f s.raw = .ok c)
    (hg : ∀ s ∈ a, ∀ c, f s.raw = .ok c → g s.val = .ok (Slot.val ⟨s.valid, c⟩)) :
    (unaryOp f a).map vals = rows1 g (vals a) := by
  induction a with
  | nil => rfl
  | cons x xs ih =>
    obtain ⟨c, hc⟩ := hok x (by simp)
    have hgx := hg x (by simp) c hc
    have ih' := ih (fun s hs => hok s (by simp [hs])) (fun s hs => hg s (by simp [hs]))
    simp only [unaryOp, raws, valids, List.map_cons, mapRawM, hc, vals, rows1, hgx] at ih' ⊢
    rw [← ih']
    cases mapRawM f (List.map (fun s => s.raw) xs) <;> simp [KOut.map, fromData, vals]

theorem cast_abs (t : Ty) (c : Col) : (Col.cast t c).map Col.abs = specCast t c.abs := by
  cases c with
  | null n =>
    cases t <;> simp [Col.cast, specCast, Col.abs, KOut.map, nullCol, SCol.nulls, vals_nullArr]
  | bool a =>
    cases t with
    | null => rfl
    | bool => rfl
    | int w =>
      simp only [Col.cast, specCast, Col.abs, KOut.map]
      rw [vals_map a _ (Option.map fun b => if b then 1 else 0)]
      intro s; rcases s with ⟨v, r⟩; cases v <;> simp [Slot.val]
    | str =>
      simp only [Col.cast, specCast, Col.abs, KOut.map]
      rw [vals_map a _ (Option.map fun b => if b then "true" else "false")]
      intro s; rcases s with ⟨v, r⟩; cases v <;> simp [Slot.val]
  | int w a =>
    cases t with
    | null => rfl
    | bool =>
      simp only [Col.cast, specCast, Col.abs, KOut.map]
      rw [vals_map a _ (Option.map fun x => x != 0)]
      intro s; rcases s with ⟨v, r⟩; cases v <;> simp [Slot.val]
    | str =>
      simp only [Col.cast, specCast, Col.abs, KOut.map]
      rw [vals_map a _ (Option.map fun x => toString x)]
      intro s; rcases s with ⟨v, r⟩; cases v <;> simp [Slot.val]
    | int w' =>
      simp only [Col.cast, specCast, Col.abs]
      by_cases h1 : w = w'
      · subst h1; simp [KOut.map, Col.abs]
      · have hb : (w == w') = false := by simpa using h1
        simp only [hb, Bool.false_eq_true, if_false]
        by_cases h2 : w.rank ≤ w'.rank
        · simp [h2, KOut.map, Col.abs]
        · simp only [h2, if_false]
          rw [← tryUnaryOp_vals 0]
          cases tryUnaryOp 0 (fun x => if w'.fits x = true then KOut.ok x else KOut.err) a <;>
            simp [KOut.map, Col.abs]
  | str a =>
    cases t with
    | null => rfl
    | str => rfl
    | int w =>
      simp only [Col.cast, specCast, Col.abs]
      rw [← tryUnaryOp_vals 0]
      cases tryUnaryOp 0 (fun s => match parseIntStr s with
          | some x => if w.fits x = true then KOut.ok x else KOut.err
          | none => KOut.err) a <;> simp [KOut.map, Col.abs]
    | bool =>
      simp only [Col.cast, specCast, Col.abs]
      rw [← tryUnaryOp_vals false]
      cases tryUnaryOp false (fun s => if (s == "true") = true then KOut.ok true
          else if (s == "false") = true then KOut.ok false else KOut.err) a <;>
        simp [KOut.map, Col.abs]

theorem rawFalseUnderNull_of_B (a : Arr Bool) (h : rawFalseUnderNullB a = true) :
    RawFalseUnderNull a := by
  intro s hs hv
  simp only [rawFalseUnderNullB, List.all_eq_true] at h
  have := h s hs
  simp [hv] at this
  exact this

theorem isNull_abs (c : Col) :
    (Col.isNull c).abs = match c.abs with
      | .null k => .bool (List.replicate k (some true))
      | .bool xs => .bool (xs.map fun x => some x.isNone)
      | .int _ xs => .bool (xs.map fun x => some x.isNone)
      | .str xs => .bool (xs.map fun x => some x.isNone) := by
  cases c with
  | null n => simp [Col.isNull, Col.abs, vals_replicate_valid]
  | bool a =>
    simp only [Col.isNull, Col.abs]
    rw [vals_map a _ (fun x => some x.isNone)]
    intro s; rcases s with ⟨v, r⟩; cases v <;> simp [Slot.val]
  | int w a =>
    simp only [Col.isNull, Col.abs]
    rw [vals_map a _ (fun x => some x.isNone)]
    intro s; rcases s with ⟨v, r⟩; cases v <;> simp [Slot.val]
  | str a =>
    simp only [Col.isNull, Col.abs]
    rw [vals_map a _ (fun x => some x.isNone)]
    intro s; rcases s with ⟨v, r⟩; cases v <;> simp [Slot.val]

end RlModel
