import RlModel.Lemmas.Exec
/-! Aggregation paths after the `fix:` commits (NULL is the identity of a running SUM; `ArrayImpl::sum`
adds the non-null slots and is NULL when there is none; COUNT(DISTINCT) ignores NULL): SUM and
COUNT(DISTINCT) on both paths are the spec. -/
namespace RlModel
open List

/-- an INT column: every value is NULL or an `Int32`. -/
def I32Col (vs : List Val) : Prop := ∀ v ∈ vs, v = .null ∨ ∃ n, v = .i32 n

/-- the SQL sum of an INT column as a running state. -/
def sumState (xs : List Val) : Val :=
  if (nonNull xs).isEmpty then .null else .i32 (sumInts (intsOf xs))

theorem sumInts_append (xs ys : List Int) : sumInts (xs ++ ys) = sumInts xs + sumInts ys := by
  induction xs with
  | nil => simp [sumInts]
  | cons x xs ih => simp only [List.cons_append, sumInts, ih]; omega

theorem intsOf_append (xs ys : List Val) : intsOf (xs ++ ys) = intsOf xs ++ intsOf ys := by
  unfold intsOf; rw [List.filterMap_append]

theorem nonNull_append (xs ys : List Val) : nonNull (xs ++ ys) = nonNull xs ++ nonNull ys := by
  unfold nonNull; rw [List.filter_append]

theorem intsOf_nonNull' (vs : List Val) : intsOf (nonNull vs) = intsOf vs := by
  unfold intsOf nonNull
  rw [List.filterMap_filter]
  congr 1
  funext v
  cases v <;> rfl

theorem i32col_append {xs ys : List Val} (hx : I32Col xs) (hy : I32Col ys) : I32Col (xs ++ ys) := by
  intro v hv
  rcases List.mem_append.mp hv with h | h
  · exact hx v h
  · exact hy v h

theorem aggSum_eq_sumState (vs : List Val) (h : I32Col vs) : aggSum vs = sumState vs := by
  unfold aggSum sumState
  cases hn : nonNull vs with
  | nil => rfl
  | cons v rest =>
    have hv : v ∈ nonNull vs := by rw [hn]; exact List.mem_cons_self
    have hv' := List.mem_filter.mp hv
    rcases h v hv'.1 with rfl | ⟨n, rfl⟩
    · simp [Val.isNull] at hv'
    · simp only [List.isEmpty_cons, Bool.false_eq_true, if_false, Val.withInt]
      rw [← hn, intsOf_nonNull']

/-- one step of the running SUM state, either path's `add`. -/
theorem addExt_sumState (xs ys : List Val) (hx : I32Col xs) (hy : I32Col ys) :
    addExt (sumState xs) (sumState ys) = sumState (xs ++ ys) := by
  unfold sumState addExt
  rw [nonNull_append, intsOf_append, sumInts_append]
  cases hxn : (nonNull xs).isEmpty <;> cases hyn : (nonNull ys).isEmpty
  · have : (nonNull xs ++ nonNull ys).isEmpty = false := by
      cases h : nonNull xs with
      | nil => rw [h] at hxn; cases hxn
      | cons _ _ => rfl
    simp [this, Val.isNull, plusVal]
  · have : (nonNull xs ++ nonNull ys).isEmpty = false := by
      cases h : nonNull xs with
      | nil => rw [h] at hxn; cases hxn
      | cons _ _ => rfl
    have hy0 : intsOf ys = [] := by
      rw [← intsOf_nonNull', List.isEmpty_iff.mp hyn]; rfl
    simp [this, Val.isNull, hy0, sumInts]
  · have hx0 : nonNull xs = [] := List.isEmpty_iff.mp hxn
    have hxi : intsOf xs = [] := by rw [← intsOf_nonNull', hx0]; rfl
    simp [hx0, hyn, Val.isNull, hxi, sumInts]
  · have hx0 : nonNull xs = [] := List.isEmpty_iff.mp hxn
    have hy0 : nonNull ys = [] := List.isEmpty_iff.mp hyn
    simp [hx0, hy0, Val.isNull]

theorem sumState_single (v : Val) (h : v = .null ∨ ∃ n, v = .i32 n) : sumState [v] = v := by
  rcases h with rfl | ⟨n, rfl⟩
  · rfl
  · simp [sumState, nonNull, Val.isNull, intsOf, Val.int?, sumInts]

theorem foldl_aggAppend_sum (seen vs : List Val) (hs : I32Col seen) (hv : I32Col vs) :
    vs.foldl (aggAppend .sum) (.value (sumState seen)) = .value (sumState (seen ++ vs)) := by
  induction vs generalizing seen with
  | nil => simp
  | cons v vs ih =>
    have hv1 : v = .null ∨ ∃ n, v = .i32 n := hv v List.mem_cons_self
    have hsingle : I32Col [v] := by intro x hx; simp at hx; rw [hx]; exact hv1
    have step : aggAppend .sum (.value (sumState seen)) v = .value (sumState (seen ++ [v])) := by
      simp only [aggAppend]
      rw [← addExt_sumState seen [v] hs hsingle, sumState_single v hv1]
    rw [List.foldl_cons, step, ih (seen ++ [v]) (i32col_append hs hsingle) (fun x hx => hv x (List.mem_cons_of_mem _ hx))]
    simp

/-- ROW path SUM = spec on every INT column (no hypothesis on where the NULLs are). -/
theorem rowpath_sum_eq_spec (vs : List Val) (h : I32Col vs) : rowPathVal .sum vs = aggVal .sum vs := by
  have hs : aggVal .sum vs = aggSum vs := rfl
  rw [hs, aggSum_eq_sumState vs h]
  unfold rowPathVal initAgg
  have := foldl_aggAppend_sum [] vs (by intro v hv; cases hv) h
  simp only [List.nil_append] at this
  have h0 : sumState [] = .null := rfl
  rw [h0] at this
  rw [this]; rfl

theorem arrSum_eq_sumState (col : List Val) : arrSum .i32 col = sumState col := by
  unfold arrSum sumState arrCount
  cases h : nonNull col with
  | nil => rfl
  | cons _ _ => simp [zeroOf, Val.withInt]

theorem foldl_evalAgg_sum (seen : List Val) (cols : List (List Val × List Int)) (hs : I32Col seen)
    (hc : ∀ c ∈ cols, I32Col c.1) :
    cols.foldl (fun st c => evalAgg .sum .i32 st c.1 c.2) (.value (sumState seen)) =
      .value (sumState (seen ++ cols.flatMap (·.1))) := by
  induction cols generalizing seen with
  | nil => simp
  | cons c cs ih =>
    have hc1 := hc c List.mem_cons_self
    have step : evalAgg .sum .i32 (.value (sumState seen)) c.1 c.2 = .value (sumState (seen ++ c.1)) := by
      simp only [evalAgg]
      rw [arrSum_eq_sumState, addExt_sumState seen c.1 hs hc1]
    rw [List.foldl_cons, step, ih (seen ++ c.1) (i32col_append hs hc1) (fun x hx => hc x (List.mem_cons_of_mem _ hx))]
    simp

/-- CHUNK path SUM = spec on every stream of INT chunks (empty chunks, all-NULL chunks included). -/
theorem chunkpath_sum_eq_spec (cols : List (List Val × List Int)) (hc : ∀ c ∈ cols, I32Col c.1) :
    chunkPathVal .sum .i32 cols = aggVal .sum (cols.flatMap (·.1)) := by
  have hall : I32Col (cols.flatMap (·.1)) := by
    intro v hv
    obtain ⟨c, hcm, hvc⟩ := List.mem_flatMap.mp hv
    exact hc c hcm v hvc
  have hs : aggVal .sum (cols.flatMap (·.1)) = aggSum (cols.flatMap (·.1)) := rfl
  rw [hs, aggSum_eq_sumState _ hall]
  unfold chunkPathVal initAgg
  have := foldl_evalAgg_sum [] cols (by intro v hv; cases hv) hc
  simp only [List.nil_append] at this
  have h0 : sumState [] = .null := rfl
  rw [h0] at this
  rw [this]; rfl

/-! COUNT(DISTINCT) -/

theorem foldl_setInsert_dedup (ys xs : List Val) :
    xs.foldl (fun acc v => setInsert v acc) (dedup ys) = dedup (ys ++ xs) := by
  induction xs generalizing ys with
  | nil => simp
  | cons x xs ih =>
    have step : setInsert x (dedup ys) = dedup (ys ++ [x]) := by
      unfold setInsert
      rw [dedup_snoc, contains_dedup]
    rw [List.foldl_cons, step, ih (ys ++ [x])]
    simp

theorem foldl_setInsertNN (acc xs : List Val) :
    xs.foldl (fun acc v => setInsertNN v acc) acc = (nonNull xs).foldl (fun acc v => setInsert v acc) acc := by
  induction xs generalizing acc with
  | nil => rfl
  | cons x xs ih =>
    unfold nonNull
    simp only [List.foldl_cons, List.filter_cons, setInsertNN]
    cases hx : x.isNull
    · simp only [Bool.false_eq_true, if_false, Bool.not_false, if_true, List.foldl_cons]
      exact ih _
    · simp only [if_true, Bool.not_true, Bool.false_eq_true, if_false]
      exact ih _

theorem foldl_aggAppend_distinct (acc vs : List Val) :
    vs.foldl (aggAppend .countDistinct) (.distinct acc) = .distinct (vs.foldl (fun acc v => setInsertNN v acc) acc) := by
  induction vs generalizing acc with
  | nil => rfl
  | cons v vs ih => simp only [List.foldl_cons, aggAppend]; exact ih _

/-- ROW path COUNT(DISTINCT) = spec. -/
theorem rowpath_count_distinct_eq_spec (vs : List Val) : rowPathVal .countDistinct vs = aggVal .countDistinct vs := by
  unfold rowPathVal initAgg
  rw [foldl_aggAppend_distinct, foldl_setInsertNN]
  have := foldl_setInsert_dedup [] (nonNull vs)
  simp only [dedup, List.nil_append] at this
  rw [this]; rfl

theorem foldl_evalAgg_distinct (ty : Ty) (acc : List Val) (cols : List (List Val × List Int)) :
    cols.foldl (fun st c => evalAgg .countDistinct ty st c.1 c.2) (.distinct acc) =
      .distinct ((cols.flatMap (·.1)).foldl (fun acc v => setInsertNN v acc) acc) := by
  induction cols generalizing acc with
  | nil => rfl
  | cons c cs ih =>
    simp only [List.foldl_cons, evalAgg, List.flatMap_cons, List.foldl_append]
    exact ih _

/-- CHUNK path COUNT(DISTINCT) = spec. -/
theorem chunkpath_count_distinct_eq_spec (ty : Ty) (cols : List (List Val × List Int)) :
    chunkPathVal .countDistinct ty cols = aggVal .countDistinct (cols.flatMap (·.1)) := by
  unfold chunkPathVal initAgg
  rw [foldl_evalAgg_distinct, foldl_setInsertNN]
  have := foldl_setInsert_dedup [] (nonNull (cols.flatMap (·.1)))
  simp only [dedup, List.nil_append] at this
  rw [this]; rfl

end RlModel
