import RlModel.Model.PlanSem
/-! Helper lemmas about the shallow relational semantics (C01 plan rules). -/
namespace RlModel.P
open RlModel.X

@[simp] theorem holds_bTrue (ρ : Env) : holds bTrue ρ = true := rfl
@[simp] theorem holds_bFalse (ρ : Env) : holds bFalse ρ = false := rfl

@[simp] theorem holds_bAnd (a b : BExpr) (ρ : Env) : holds (bAnd a b) ρ = (holds a ρ && holds b ρ) := by
  unfold holds bAnd
  cases ha : a ρ with
  | none => cases hb : b ρ with
    | none => rfl
    | some y => cases y <;> rfl
  | some x => cases hb : b ρ with
    | none => cases x <;> rfl
    | some y => cases x <;> cases y <;> rfl

@[simp] theorem holds_bTrue_fn : holds bTrue = fun _ => true := by funext ρ; rfl
@[simp] theorem holds_bFalse_fn : holds bFalse = fun _ => false := by funext ρ; rfl
@[simp] theorem holds_bAnd_fn (a b : BExpr) : holds (bAnd a b) = fun ρ => holds a ρ && holds b ρ := by
  funext ρ; exact holds_bAnd a b ρ

@[simp] theorem filter_const_true {α} (xs : List α) : xs.filter (fun _ => true) = xs := by
  induction xs <;> simp_all

theorem filter_rows (c : BExpr) (r : Rel) : (filter c r).rows = r.rows.filter (holds c) := rfl

/-- Sorting with no keys changes nothing (stable sort, every pair ties). -/
theorem sortRows_const_false (xs : List Env) : sortRows (fun _ _ => false) xs = xs := by
  induction xs with
  | nil => rfl
  | cons x xs ih =>
    simp only [sortRows, ih]
    cases xs <;> simp [insertSorted]

@[simp] theorem keysLt_nil : keysLt [] = fun _ _ => false := by
  funext ρ σ; rfl

theorem insertSorted_perm (lt : Env → Env → Bool) (x : Env) (ys : List Env) :
    (insertSorted lt x ys).Perm (x :: ys) := by
  induction ys with
  | nil => exact List.Perm.refl _
  | cons y ys ih =>
    by_cases hlt : lt y x
    · simp only [insertSorted, hlt, if_true]
      exact (List.Perm.cons y ih).trans (List.Perm.swap x y ys)
    · simp only [insertSorted, hlt]
      exact List.Perm.refl _

theorem sortRows_perm (lt : Env → Env → Bool) (xs : List Env) : (sortRows lt xs).Perm xs := by
  induction xs with
  | nil => exact List.Perm.refl _
  | cons x xs ih => exact (insertSorted_perm lt x _).trans (List.Perm.cons x ih)

theorem merge_indep {α} (c : Env → α) (S : Col → Bool) (h : Indep c S) (l r : Env) :
    c (merge S l r) = c l := by
  apply h
  intro x hx
  simp [merge, hx]

/-- An expression over a join that does not read the left side and reads nothing outside the
two sides depends on the right row only. -/
theorem merge_indep_left {α} (c : Env → α) (SL SR : Col → Bool)
    (hdisj : ∀ x, SL x = true → SR x = false)
    (hw : ReadsWithin c (fun x => SL x || SR x)) (h : Indep c SL) (l r : Env) :
    c (merge SR l r) = c r := by
  have h1 : c (merge SR l r) = c (fun x => if SL x then r x else merge SR l r x) := by
    apply h
    intro x hx
    simp [hx]
  rw [h1]
  apply hw
  intro x hx
  by_cases hl : SL x = true
  · simp [hl]
  · have hr : SR x = true := by
      cases hsl : SL x <;> simp_all
    simp [hl, merge, hr]

end RlModel.P

namespace RlModel.P

theorem matchesL_congr (on on' : BExpr) (S : Col → Bool) (l : Env) (R : List Env)
    (h : ∀ r ∈ R, holds on (merge S l r) = holds on' (merge S l r)) :
    matchesL on S l R = matchesL on' S l R := by
  unfold matchesL
  apply List.filter_congr
  intro ρ hρ
  obtain ⟨r, hr, rfl⟩ := List.mem_map.mp hρ
  exact h r hr

theorem flatMap_congr' {α β} (xs : List α) (f g : α → List β) (h : ∀ x ∈ xs, f x = g x) :
    xs.flatMap f = xs.flatMap g := by
  induction xs with
  | nil => rfl
  | cons x xs ih =>
    simp only [List.flatMap_cons]
    rw [h x (by simp), ih (fun y hy => h y (by simp [hy]))]

/-- The join depends on its condition only through its truth on merged rows of actual data. -/
theorem joinRows_congr (t : JoinType) (on on' : BExpr) (L R : Rel)
    (h : ∀ l ∈ L.rows, ∀ r ∈ R.rows, holds on (merge R.owned l r) = holds on' (merge R.owned l r)) :
    joinRows t on L R = joinRows t on' L R := by
  have hm : ∀ l ∈ L.rows, matchesL on R.owned l R.rows = matchesL on' R.owned l R.rows :=
    fun l hl => matchesL_congr on on' R.owned l R.rows (h l hl)
  have hr : ∀ r ∈ R.rows, (L.rows.map fun l => merge R.owned l r).filter (holds on)
      = (L.rows.map fun l => merge R.owned l r).filter (holds on') := by
    intro r hr
    apply List.filter_congr
    intro ρ hρ
    obtain ⟨l, hl, rfl⟩ := List.mem_map.mp hρ
    exact h l hl r hr
  cases t
  · simp only [joinRows]; exact flatMap_congr' _ _ _ (fun l hl => hm l hl)
  · simp only [joinRows]; exact flatMap_congr' _ _ _ (fun l hl => by rw [hm l hl])
  · simp only [joinRows]; exact flatMap_congr' _ _ _ (fun r hr' => by rw [hr r hr'])
  · simp only [joinRows]
    congr 1
    · exact flatMap_congr' _ _ _ (fun l hl => by rw [hm l hl])
    · congr 1
      apply List.filter_congr
      intro r hr'
      rw [hr r hr']
  · simp only [joinRows]; apply List.filter_congr; intro l hl; rw [hm l hl]
  · simp only [joinRows]; apply List.filter_congr; intro l hl; rw [hm l hl]

theorem join_congr (t : JoinType) (on on' : BExpr) (L R : Rel)
    (h : ∀ l ∈ L.rows, ∀ r ∈ R.rows, holds on (merge R.owned l r) = holds on' (merge R.owned l r)) :
    join t on L R = join t on' L R := by
  unfold join
  rw [joinRows_congr t on on' L R h]

/-- A relation restricted by a predicate, as a join operand. -/
theorem filter_owned (c : BExpr) (r : Rel) : (filter c r).owned = r.owned := rfl
theorem filter_cols (c : BExpr) (r : Rel) : (filter c r).cols = r.cols := rfl

theorem filter_flatMap_const {α β} (xs : List α) (f : α → List β) (p : β → Bool) (q : α → Bool)
    (h : ∀ x ∈ xs, ∀ y ∈ f x, p y = q x) :
    (xs.flatMap f).filter p = (xs.filter q).flatMap f := by
  induction xs with
  | nil => rfl
  | cons x xs ih =>
    have ih' := ih (fun y hy => h y (by simp [hy]))
    simp only [List.flatMap_cons, List.filter_append, ih', List.filter_cons]
    have hx : (f x).filter p = if q x then f x else [] := by
      by_cases hq : q x
      · simp only [hq, if_true]
        apply List.filter_eq_self.mpr
        intro y hy; rw [h x (by simp) y hy]; exact hq
      · simp only [hq]
        apply List.filter_eq_nil_iff.mpr
        intro y hy; rw [h x (by simp) y hy]; simpa using hq
    rw [hx]
    by_cases hq : q x <;> simp [hq]

theorem filter_map_and {α β} (xs : List α) (m : α → β) (p1 p2 : β → Bool) (q : α → Bool)
    (h : ∀ x, p1 (m x) = q x) :
    (xs.map m).filter (fun y => p1 y && p2 y) = ((xs.filter q).map m).filter p2 := by
  induction xs with
  | nil => rfl
  | cons x xs ih =>
    by_cases hq : q x = true
    · by_cases h2 : p2 (m x) = true <;> simp [List.filter_cons, h x, hq, h2, ih]
    · simp [List.filter_cons, h x, hq, ih]

-- hash / merge join keys are read from one input each -------------------------------------------------

/-- An expression that reads within `A ∪ B` and is independent of `B` reads within `A`. -/
theorem readsWithin_of_union_indep {α} (e : Env → α) (A B : Col → Bool)
    (hw : ReadsWithin e (fun x => A x || B x)) (hi : Indep e B) : ReadsWithin e A := by
  intro ρ ρ' h
  have h1 : e ρ = e (fun x => if A x || B x then ρ x else ρ' x) :=
    hw ρ _ (by intro x hx; simp only [hx, if_true])
  have h2 : e (fun x => if A x || B x then ρ x else ρ' x) = e ρ' := by
    apply hi
    intro x hx
    by_cases ha : A x = true
    · simp only [ha, Bool.true_or, if_true]; exact h x ha
    · have : (A x || B x) = false := by simp [ha, hx]
      simp only [this, Bool.false_eq_true, if_false]
  rw [h1, h2]

theorem readsWithin_union_comm {α} (e : Env → α) (A B : Col → Bool)
    (hw : ReadsWithin e (fun x => A x || B x)) : ReadsWithin e (fun x => B x || A x) := by
  intro ρ ρ' h
  exact hw ρ ρ' (fun x hx => h x (by
    have hx' : (A x || B x) = true := hx
    show (B x || A x) = true
    rw [Bool.or_comm]; exact hx'))

/-- An expression that reads within `S` does not notice that the other columns are missing. -/
theorem masked_eq {α} (e : Env → α) (S : Col → Bool) (h : ReadsWithin e S) (ρ : Env) :
    e (maskTo S ρ) = e ρ :=
  h _ _ (by intro x hx; simp [maskTo, hx])

theorem keysOn_of_reads (S : Col → Bool) (ks : List VExpr) (h : ∀ e ∈ ks, ReadsWithin e S) :
    keysOn S ks = ks := by
  unfold keysOn
  conv => rhs; rw [← List.map_id ks]
  apply List.map_congr_left
  intro e he
  funext ρ
  exact masked_eq e S (h e he) ρ

/-- With keys that read their own side only, the hash join is the join on "keys equal and
residual condition". -/
theorem hashjoin_unmasked (t : JoinType) (c : BExpr) (lk rk : List VExpr) (L R : Rel)
    (hl : ∀ e ∈ lk, ReadsWithin e L.owned) (hr : ∀ e ∈ rk, ReadsWithin e R.owned) :
    hashjoin t c lk rk L R
      = join t (fun ρ => some ((keysEq lk rk ρ == some true) && holds c ρ)) L R := by
  unfold hashjoin
  rw [keysOn_of_reads _ lk hl, keysOn_of_reads _ rk hr]

end RlModel.P
