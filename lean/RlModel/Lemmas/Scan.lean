import RlModel.Model.Scan
/-! Helper lemmas for `Thm/C12.lean` and `Thm/C13.lean`: laws of comparison functions, insertion
sort, bounded insertion (top-N), k-way merge. Core Lean only. -/
namespace RlModel

/-- What a comparison must satisfy to be a total preorder with a compatible equivalence. -/
structure CmpLaws {α} (cmp : α → α → Ordering) : Prop where
  swap : ∀ a b, (cmp a b).swap = cmp b a
  trans_lt : ∀ a b c, cmp a b = .lt → cmp b c = .lt → cmp a c = .lt
  eq_cong : ∀ a b c, cmp a b = .eq → cmp a c = cmp b c

namespace CmpLaws
variable {α : Type} {cmp : α → α → Ordering}

theorem gt_iff (h : CmpLaws cmp) (a b : α) : cmp a b = .gt ↔ cmp b a = .lt := by
  have := h.swap a b
  cases hab : cmp a b <;> simp_all [Ordering.swap] <;> (rw [← this]; simp)

theorem lt_iff (h : CmpLaws cmp) (a b : α) : cmp a b = .lt ↔ cmp b a = .gt := by
  have := h.swap a b
  cases hab : cmp a b <;> simp_all [Ordering.swap] <;> (rw [← this]; simp)

theorem eq_iff (h : CmpLaws cmp) (a b : α) : cmp a b = .eq ↔ cmp b a = .eq := by
  have := h.swap a b
  cases hab : cmp a b <;> simp_all [Ordering.swap] <;> (rw [← this]; simp)

theorem eq_cong_right (h : CmpLaws cmp) (a b c : α) (hbc : cmp b c = .eq) : cmp a b = cmp a c := by
  have h1 := h.eq_cong b c a hbc
  have h2 := h.swap a b
  have h3 := h.swap a c
  rw [← h2, ← h3] at h1
  cases hab : cmp a b <;> cases hac : cmp a c <;> simp_all [Ordering.swap]

theorem le_trans (h : CmpLaws cmp) {a b c : α} (hab : leBy cmp a b) (hbc : leBy cmp b c) : leBy cmp a c := by
  unfold leBy at *
  cases h1 : cmp a b with
  | gt => exact absurd h1 hab
  | eq => rw [h.eq_cong a b c h1]; exact hbc
  | lt =>
    cases h2 : cmp b c with
    | gt => exact absurd h2 hbc
    | lt => rw [h.trans_lt a b c h1 h2]; simp
    | eq => rw [← h.eq_cong_right a b c h2, h1]; simp

theorem le_total (h : CmpLaws cmp) (a b : α) : leBy cmp a b ∨ leBy cmp b a := by
  unfold leBy
  cases hab : cmp a b with
  | gt => right; rw [(h.gt_iff a b).1 hab]; simp
  | eq => left; simp
  | lt => left; simp

theorem le_of_not_lt (h : CmpLaws cmp) {a b : α} (hn : cmp a b ≠ .lt) : leBy cmp b a := by
  unfold leBy
  intro hg
  exact hn ((h.gt_iff b a).1 hg)

theorem not_lt_of_le (h : CmpLaws cmp) {a b : α} (hl : leBy cmp b a) : cmp a b ≠ .lt := by
  intro hlt
  exact hl ((h.lt_iff a b).1 hlt)

end CmpLaws

/-! ### insertion -/

section Insert
variable {α : Type} (cmp : α → α → Ordering)

theorem insertBy_perm (x : α) (l : List α) : (insertBy cmp x l).Perm (x :: l) := by
  induction l with
  | nil => simp [insertBy]
  | cons y ys ih =>
    simp only [insertBy]
    split
    · exact List.Perm.refl _
    · exact (List.Perm.cons y ih).trans (List.Perm.swap x y ys)

theorem mem_insertBy {x y : α} {l : List α} : y ∈ insertBy cmp x l ↔ y = x ∨ y ∈ l := by
  rw [(insertBy_perm cmp x l).mem_iff]; simp

theorem insertBy_sorted (h : CmpLaws cmp) (x : α) (l : List α) (hs : SortedBy cmp l) :
    SortedBy cmp (insertBy cmp x l) := by
  induction l with
  | nil => simp [insertBy, SortedBy]
  | cons y ys ih =>
    unfold SortedBy at hs ih ⊢
    simp only [insertBy]
    rw [List.pairwise_cons] at hs
    split
    next hlt =>
      have hxy : cmp x y = .lt := by simpa using hlt
      have lxy : leBy cmp x y := by unfold leBy; rw [hxy]; simp
      rw [List.pairwise_cons]
      refine ⟨?_, List.pairwise_cons.2 hs⟩
      intro z hz
      rcases List.mem_cons.1 hz with rfl | hz
      · exact lxy
      · exact h.le_trans lxy (hs.1 z hz)
    next hnlt =>
      have hxy : cmp x y ≠ .lt := by simpa using hnlt
      rw [List.pairwise_cons]
      refine ⟨?_, ih hs.2⟩
      intro z hz
      rcases (mem_insertBy cmp).1 hz with rfl | hz
      · exact h.le_of_not_lt hxy
      · exact hs.1 z hz

/-- inserting an element that no existing element exceeds puts it at the end -/
theorem insertBy_append_of_ge (h : CmpLaws cmp) (x : α) (l : List α) (hge : ∀ y ∈ l, leBy cmp y x) :
    insertBy cmp x l = l ++ [x] := by
  induction l with
  | nil => rfl
  | cons y ys ih =>
    simp only [insertBy]
    have : cmp x y ≠ .lt := h.not_lt_of_le (hge y (by simp))
    have hb : (cmp x y == .lt) = false := by simpa using this
    rw [hb]
    simp
    exact ih (fun z hz => hge z (by simp [hz]))

/-- the first `n` elements after an insertion only depend on the first `n` elements before -/
theorem take_insertBy_take (x : α) (n : Nat) (l : List α) :
    (insertBy cmp x (l.take n)).take n = (insertBy cmp x l).take n := by
  induction l generalizing n with
  | nil => simp [insertBy]
  | cons y ys ih =>
    cases n with
    | zero => simp
    | succ n =>
      simp only [List.take_succ_cons, insertBy]
      split
      · cases n with
        | zero => simp
        | succ k =>
          simp only [List.take_succ_cons, List.take_take]
          have : min k (k + 1) = k := by omega
          rw [this]
      · simp [ih]

end Insert

/-! ### sortL -/

section SortL
variable {α : Type} (cmp : α → α → Ordering)

theorem foldl_insert_perm (acc l : List α) :
    (l.foldl (fun acc x => insertBy cmp x acc) acc).Perm (acc ++ l) := by
  induction l generalizing acc with
  | nil => simp
  | cons x xs ih =>
    simp only [List.foldl_cons]
    refine (ih _).trans ?_
    have := insertBy_perm cmp x acc
    refine (List.Perm.append_right xs this).trans ?_
    simp
    exact List.perm_middle.symm

theorem sortL_perm (l : List α) : (sortL cmp l).Perm l := by
  simpa [sortL] using foldl_insert_perm cmp [] l

theorem foldl_insert_sorted (h : CmpLaws cmp) (acc l : List α) (hs : SortedBy cmp acc) :
    SortedBy cmp (l.foldl (fun acc x => insertBy cmp x acc) acc) := by
  induction l generalizing acc with
  | nil => simpa
  | cons x xs ih => exact ih _ (insertBy_sorted cmp h x acc hs)

theorem sortL_sorted (h : CmpLaws cmp) (l : List α) : SortedBy cmp (sortL cmp l) :=
  foldl_insert_sorted cmp h [] l (by simp [SortedBy])

theorem foldl_insert_of_sorted (h : CmpLaws cmp) (acc l : List α) (hs : SortedBy cmp (acc ++ l)) :
    l.foldl (fun acc x => insertBy cmp x acc) acc = acc ++ l := by
  induction l generalizing acc with
  | nil => simp
  | cons x xs ih =>
    simp only [List.foldl_cons]
    have hx : insertBy cmp x acc = acc ++ [x] := by
      apply insertBy_append_of_ge cmp h
      intro y hy
      unfold SortedBy at hs
      rw [List.pairwise_append] at hs
      exact hs.2.2 y hy x (by simp)
    rw [hx]
    have : acc ++ [x] ++ xs = acc ++ x :: xs := by simp
    rw [ih (acc ++ [x]) (by rw [this]; exact hs), this]

/-- sorting a sorted list changes nothing (the sort is stable) -/
theorem sortL_of_sorted (h : CmpLaws cmp) (l : List α) (hs : SortedBy cmp l) : sortL cmp l = l := by
  simpa [sortL] using foldl_insert_of_sorted cmp h [] l (by simpa using hs)

/-- bounded insertion = prefix of unbounded insertion -/
theorem foldl_topn (cap : Nat) (acc l : List α) :
    l.foldl (fun acc x => (insertBy cmp x acc).take cap) (acc.take cap)
      = (l.foldl (fun acc x => insertBy cmp x acc) acc).take cap := by
  induction l generalizing acc with
  | nil => simp
  | cons x xs ih =>
    simp only [List.foldl_cons]
    rw [take_insertBy_take cmp x cap acc]
    exact ih _

theorem topnState_eq (cap : Nat) (l : List α) : topnState cmp cap l = (sortL cmp l).take cap := by
  have := foldl_topn cmp cap [] l
  simpa [topnState, sortL] using this

end SortL

end RlModel

namespace RlModel

/-! ### the comparisons of the value model satisfy the laws -/

theorem compareInt_laws : CmpLaws (compare : Int → Int → Ordering) where
  swap := Int.compare_swap
  trans_lt := by
    intro a b c h1 h2
    rw [Int.compare_eq_lt] at *
    omega
  eq_cong := by
    intro a b c h
    rw [Int.compare_eq_eq] at h
    rw [h]

theorem compareNat_laws : CmpLaws (compare : Nat → Nat → Ordering) where
  swap := Nat.compare_swap
  trans_lt := by
    intro a b c h1 h2
    rw [Nat.compare_eq_lt] at *
    omega
  eq_cong := by
    intro a b c h
    rw [Nat.compare_eq_eq] at h
    rw [h]

theorem compareBool_laws : CmpLaws Val.compareBool where
  swap := by intro a b; cases a <;> cases b <;> rfl
  trans_lt := by intro a b c; cases a <;> cases b <;> cases c <;> simp [Val.compareBool]
  eq_cong := by intro a b c; cases a <;> cases b <;> cases c <;> simp [Val.compareBool]

theorem compareBytes_swap (a b : List UInt8) : (Val.compareBytes a b).swap = Val.compareBytes b a := by
  induction a generalizing b with
  | nil => cases b <;> rfl
  | cons x xs ih =>
    cases b with
    | nil => rfl
    | cons y ys =>
      simp only [Val.compareBytes]
      by_cases h1 : x < y
      · have h2 : ¬ y < x := by rw [UInt8.lt_iff_toNat_lt] at *; omega
        simp [h1, h2]
      · by_cases h2 : y < x
        · simp [h1, h2]
        · simp [h1, h2, ih]

theorem compareBytes_laws : CmpLaws Val.compareBytes where
  swap := compareBytes_swap
  trans_lt := by
    intro a
    induction a with
    | nil =>
      intro b c h1 h2
      cases b with
      | nil => simp [Val.compareBytes] at h1
      | cons y ys => cases c with
        | nil => simp [Val.compareBytes] at h2
        | cons z zs => rfl
    | cons x xs ih =>
      intro b c h1 h2
      cases b with
      | nil => simp [Val.compareBytes] at h1
      | cons y ys =>
        cases c with
        | nil => simp [Val.compareBytes] at h2
        | cons z zs =>
          simp only [Val.compareBytes] at *
          by_cases hxy : x < y
          · by_cases hyz : y < z
            · have : x < z := by rw [UInt8.lt_iff_toNat_lt] at *; omega
              simp [this]
            · by_cases hzy : z < y
              · simp [hyz, hzy] at h2
              · have : y = z := by
                  apply UInt8.toNat_inj.1
                  rw [UInt8.lt_iff_toNat_lt] at *; omega
                subst this; simp [hxy]
          · by_cases hyx : y < x
            · simp [hxy, hyx] at h1
            · have : x = y := by
                apply UInt8.toNat_inj.1
                rw [UInt8.lt_iff_toNat_lt] at *; omega
              subst this
              simp only [hxy, if_false] at h1
              by_cases hyz : x < z
              · simp [hyz]
              · by_cases hzy : z < x
                · simp [hyz, hzy] at h2
                · simp only [hyz, hzy, if_false] at h2 ⊢
                  exact ih ys zs h1 h2
  eq_cong := by
    intro a
    induction a with
    | nil =>
      intro b c h
      cases b with
      | nil => rfl
      | cons y ys => simp [Val.compareBytes] at h
    | cons x xs ih =>
      intro b c h
      cases b with
      | nil => simp [Val.compareBytes] at h
      | cons y ys =>
        simp only [Val.compareBytes] at h
        by_cases hxy : x < y
        · simp [hxy] at h
        · by_cases hyx : y < x
          · simp [hxy, hyx] at h
          · have : x = y := by
              apply UInt8.toNat_inj.1
              rw [UInt8.lt_iff_toNat_lt] at *; omega
            subst this
            simp only [hxy, if_false] at h
            cases c with
            | nil => rfl
            | cons z zs =>
              simp only [Val.compareBytes]
              rw [ih ys zs h]

/-- comparing through a projection keeps the laws -/
theorem CmpLaws.on {α β : Type} {cmp : α → α → Ordering} (h : CmpLaws cmp) (f : β → α) :
    CmpLaws (fun a b => cmp (f a) (f b)) where
  swap := fun a b => h.swap (f a) (f b)
  trans_lt := fun a b c => h.trans_lt (f a) (f b) (f c)
  eq_cong := fun a b c => h.eq_cong (f a) (f b) (f c)

theorem compareStr_laws : CmpLaws Val.compareStr :=
  compareBytes_laws.on (fun s : String => s.toUTF8.toList)

theorem Val.cmp_laws : CmpLaws Val.cmp where
  swap := by
    intro a b
    cases a <;> cases b <;>
      first
        | rfl
        | exact compareBool_laws.swap _ _
        | exact compareInt_laws.swap _ _
        | exact compareStr_laws.swap _ _
  trans_lt := by
    intro a b c
    cases a <;> cases b <;> cases c <;>
      first
        | exact compareBool_laws.trans_lt _ _ _
        | exact compareInt_laws.trans_lt _ _ _
        | exact compareStr_laws.trans_lt _ _ _
        | (simp [Val.cmp, Val.rank, Nat.compare_eq_lt]; done)
  eq_cong := by
    intro a b c
    cases a <;> cases b <;> cases c <;>
      first
        | exact compareBool_laws.eq_cong _ _ _
        | exact compareInt_laws.eq_cong _ _ _
        | exact compareStr_laws.eq_cong _ _ _
        | (simp [Val.cmp, Val.rank, Nat.compare_eq_eq]; done)

/-- lexicographic combination -/
def lexCmp {α : Type} (c1 c2 : α → α → Ordering) (a b : α) : Ordering :=
  match c1 a b with
  | .eq => c2 a b
  | o => o

theorem CmpLaws.lex {α : Type} {c1 c2 : α → α → Ordering} (h1 : CmpLaws c1) (h2 : CmpLaws c2) :
    CmpLaws (lexCmp c1 c2) where
  swap := by
    intro a b
    unfold lexCmp
    cases h : c1 a b with
    | eq => rw [(h1.eq_iff a b).1 h]; exact h2.swap a b
    | lt => rw [(h1.lt_iff a b).1 h]; rfl
    | gt => rw [(h1.gt_iff a b).1 h]; rfl
  trans_lt := by
    intro a b c
    unfold lexCmp
    cases hab : c1 a b with
    | gt => simp
    | lt =>
      cases hbc : c1 b c with
      | gt => simp
      | lt => simp [h1.trans_lt a b c hab hbc]
      | eq => rw [← h1.eq_cong_right a b c hbc, hab]; simp
    | eq =>
      rw [h1.eq_cong a b c hab]
      cases hbc : c1 b c with
      | gt => simp
      | lt => simp
      | eq => simpa using h2.trans_lt a b c
  eq_cong := by
    intro a b c
    unfold lexCmp
    cases hab : c1 a b with
    | gt => simp
    | lt => simp
    | eq =>
      intro h
      rw [h1.eq_cong a b c hab]
      cases c1 b c with
      | eq => exact h2.eq_cong a b c h
      | lt => rfl
      | gt => rfl

/-- reversing a comparison keeps the laws (DESC) -/
theorem CmpLaws.rev {α : Type} {cmp : α → α → Ordering} (h : CmpLaws cmp) :
    CmpLaws (fun a b => (cmp a b).swap) where
  swap := by intro a b; rw [h.swap a b, h.swap b a]
  trans_lt := by
    intro a b c h1 h2
    have h1' : cmp b a = .lt := by rw [← h.swap a b]; exact h1
    have h2' : cmp c b = .lt := by rw [← h.swap b c]; exact h2
    have := h.trans_lt c b a h2' h1'
    rw [h.swap a c]; exact this
  eq_cong := by
    intro a b c h1
    have : cmp a b = .eq := by cases hh : cmp a b <;> simp_all [Ordering.swap]
    show (cmp a c).swap = (cmp b c).swap
    rw [h.eq_cong a b c this]

def oneKeyCmp (k : OrdKey) (a b : Row) : Ordering :=
  if k.desc then (Val.cmp (Row.at a k.col) (Row.at b k.col)).swap else Val.cmp (Row.at a k.col) (Row.at b k.col)

theorem oneKeyCmp_laws (k : OrdKey) : CmpLaws (oneKeyCmp k) := by
  have hv := Val.cmp_laws.on (fun r : Row => Row.at r k.col)
  unfold oneKeyCmp
  cases k.desc
  · simpa using hv
  · simpa using hv.rev

theorem keyCmp_cons (k : OrdKey) (ks : List OrdKey) :
    keyCmp (k :: ks) = lexCmp (oneKeyCmp k) (keyCmp ks) := by
  funext a b
  simp only [keyCmp, lexCmp, oneKeyCmp]
  cases Val.cmp (Row.at a k.col) (Row.at b k.col) <;> cases k.desc <;> rfl

theorem keyCmp_laws (ks : List OrdKey) : CmpLaws (keyCmp ks) := by
  induction ks with
  | nil => exact ⟨fun _ _ => rfl, fun _ _ _ h => by simp [keyCmp] at h, fun _ _ _ _ => rfl⟩
  | cons k ks ih => rw [keyCmp_cons]; exact (oneKeyCmp_laws k).lex ih

/-- sorted by a key list ⇒ sorted by any prefix of it -/
theorem keyCmp_prefix_le (ks1 ks2 : List OrdKey) (a b : Row) (h : leBy (keyCmp (ks1 ++ ks2)) a b) :
    leBy (keyCmp ks1) a b := by
  induction ks1 with
  | nil => simp [leBy, keyCmp]
  | cons k ks ih =>
    unfold leBy at *
    simp only [List.cons_append, keyCmp] at *
    cases hc : Val.cmp (Row.at a k.col) (Row.at b k.col) <;> simp_all

end RlModel

namespace RlModel

/-! ### k-way merge -/

section Merge
variable {α : Type} (cmp : α → α → Ordering)

theorem extractMin_none (ls : List (List α)) (h : extractMin cmp ls = none) : ls.flatten = [] := by
  induction ls with
  | nil => rfl
  | cons l ls ih =>
    cases l with
    | nil => simp [extractMin] at h; simpa using ih h
    | cons x xs =>
      simp only [extractMin] at h
      split at h
      · simp at h
      · split at h <;> simp at h

theorem extractMin_perm (ls : List (List α)) (x : α) (ls' : List (List α))
    (h : extractMin cmp ls = some (x, ls')) : (x :: ls'.flatten).Perm ls.flatten := by
  induction ls generalizing x ls' with
  | nil => simp [extractMin] at h
  | cons l ls ih =>
    cases l with
    | nil => simp [extractMin] at h; simpa using ih x ls' h
    | cons y ys =>
      simp only [extractMin] at h
      split at h
      next hn =>
        simp at h
        obtain ⟨rfl, rfl⟩ := h
        simp [extractMin_none cmp ls hn]
      next z lz hz =>
        split at h
        · simp at h
          obtain ⟨rfl, rfl⟩ := h
          have := ih z lz hz
          simp only [List.flatten_cons]
          refine (List.perm_middle (l₁ := y :: ys) (a := z) (l₂ := lz.flatten)).symm.trans ?_
          exact List.Perm.append_left _ this
        · simp at h
          obtain ⟨rfl, rfl⟩ := h
          simp

theorem extractMin_sorted (ls : List (List α)) (x : α) (ls' : List (List α))
    (h : extractMin cmp ls = some (x, ls')) (hs : ∀ l ∈ ls, SortedBy cmp l) : ∀ l ∈ ls', SortedBy cmp l := by
  induction ls generalizing x ls' with
  | nil => simp [extractMin] at h
  | cons l ls ih =>
    cases l with
    | nil => simp [extractMin] at h; exact ih x ls' h (fun l hl => hs l (by simp [hl]))
    | cons y ys =>
      have hy : SortedBy cmp (y :: ys) := hs _ (by simp)
      have hys : SortedBy cmp ys := by unfold SortedBy at *; exact (List.pairwise_cons.1 hy).2
      simp only [extractMin] at h
      split at h
      next hn =>
        simp at h
        obtain ⟨rfl, rfl⟩ := h
        intro l hl; simp at hl; subst hl; exact hys
      next z lz hz =>
        split at h
        · simp at h
          obtain ⟨rfl, rfl⟩ := h
          intro l hl
          rcases List.mem_cons.1 hl with rfl | hl
          · exact hy
          · exact ih z lz hz (fun l hl => hs l (by simp [hl])) l hl
        · simp at h
          obtain ⟨rfl, rfl⟩ := h
          intro l hl
          rcases List.mem_cons.1 hl with rfl | hl
          · exact hys
          · exact hs l (by simp [hl])

theorem extractMin_le (hc : CmpLaws cmp) (ls : List (List α)) (x : α) (ls' : List (List α))
    (h : extractMin cmp ls = some (x, ls')) (hs : ∀ l ∈ ls, SortedBy cmp l) :
    ∀ y ∈ ls.flatten, leBy cmp x y := by
  induction ls generalizing x ls' with
  | nil => simp [extractMin] at h
  | cons l ls ih =>
    cases l with
    | nil => simp [extractMin] at h; simpa using ih x ls' h (fun l hl => hs l (by simp [hl]))
    | cons y ys =>
      have hy : SortedBy cmp (y :: ys) := hs _ (by simp)
      have hyle : ∀ w ∈ y :: ys, leBy cmp y w := by
        intro w hw
        rcases List.mem_cons.1 hw with rfl | hw
        · unfold leBy; rw [hc.eq_cong_right w w w ?_] <;> (first | (have := hc.swap w w; cases hh : cmp w w <;> simp_all [Ordering.swap]))
        · unfold SortedBy at hy; exact (List.pairwise_cons.1 hy).1 w hw
      simp only [extractMin] at h
      split at h
      next hn =>
        simp at h
        obtain ⟨rfl, rfl⟩ := h
        intro w hw
        simp [extractMin_none cmp ls hn] at hw
        exact hyle w (by simpa using hw)
      next z lz hz =>
        have hzmin := ih z lz hz (fun l hl => hs l (by simp [hl]))
        split at h
        next hlt =>
          simp at h
          obtain ⟨h1, h2⟩ := h
          subst h1 h2
          have hzy : cmp z y = .lt := by simpa using hlt
          have lzy : leBy cmp z y := by unfold leBy; rw [hzy]; simp
          intro w hw
          simp only [List.flatten_cons, List.mem_append] at hw
          rcases hw with hw | hw
          · exact hc.le_trans lzy (hyle w hw)
          · exact hzmin w hw
        next hnlt =>
          simp at h
          obtain ⟨h1, h2⟩ := h
          subst h1 h2
          have hzy : cmp z y ≠ .lt := by simpa using hnlt
          have lyz : leBy cmp y z := hc.le_of_not_lt hzy
          intro w hw
          simp only [List.flatten_cons, List.mem_append] at hw
          rcases hw with hw | hw
          · exact hyle w hw
          · exact hc.le_trans lyz (hzmin w hw)

theorem mergeK_perm (fuel : Nat) (ls : List (List α)) (hf : ls.flatten.length ≤ fuel) :
    (mergeK cmp fuel ls).Perm ls.flatten := by
  induction fuel generalizing ls with
  | zero =>
    have : ls.flatten = [] := List.eq_nil_of_length_eq_zero (by omega)
    simp [mergeK, this]
  | succ n ih =>
    simp only [mergeK]
    split
    next hn => simp [extractMin_none cmp ls hn]
    next x ls' hx =>
      have hp := extractMin_perm cmp ls x ls' hx
      have hlen : ls'.flatten.length ≤ n := by
        have := hp.length_eq
        rw [List.length_cons] at this
        omega
      exact (List.Perm.cons x (ih ls' hlen)).trans hp

theorem mergeK_sorted (hc : CmpLaws cmp) (fuel : Nat) (ls : List (List α)) (hf : ls.flatten.length ≤ fuel)
    (hs : ∀ l ∈ ls, SortedBy cmp l) : SortedBy cmp (mergeK cmp fuel ls) := by
  induction fuel generalizing ls with
  | zero => simp [mergeK, SortedBy]
  | succ n ih =>
    simp only [mergeK]
    split
    next hn => simp [SortedBy]
    next x ls' hx =>
      have hp := extractMin_perm cmp ls x ls' hx
      have hlen : ls'.flatten.length ≤ n := by
        have := hp.length_eq
        rw [List.length_cons] at this
        omega
      have hs' := extractMin_sorted cmp ls x ls' hx hs
      unfold SortedBy
      rw [List.pairwise_cons]
      refine ⟨?_, ih ls' hlen hs'⟩
      intro y hy
      have hy' : y ∈ ls'.flatten := ((mergeK_perm cmp n ls' hlen).mem_iff).1 hy
      exact extractMin_le cmp hc ls x ls' hx hs y (hp.mem_iff.1 (by simp [hy']))

theorem totalLen_eq (ls : List (List α)) : totalLen ls = ls.flatten.length := by
  induction ls with
  | nil => rfl
  | cons l ls ih => simp_all [totalLen]

end Merge

end RlModel

namespace RlModel

/-! ### the LIMIT executor -/

theorem limitChunks_flatten {α : Type} (n m : Nat) (p : Nat) (cs : List (List α)) :
    (limitChunks n m p cs).flatten = ((cs.flatten).drop (m - p)).take ((m + n - p) - (m - p)) := by
  induction cs generalizing p with
  | nil => simp [limitChunks]
  | cons b bs ih =>
    simp only [limitChunks]
    by_cases hn : n = 0
    · subst hn; simp
    · simp only [hn, if_false, List.flatten_cons]
      have hstart : max p m - p = m - p := by omega
      have hstop : min (p + b.length) (m + n) - p = min b.length (m + n - p) := by omega
      rw [hstart, hstop]
      by_cases h1 : m - p ≥ min b.length (m + n - p)
      · simp only [h1, if_true]
        rw [ih (p + b.length)]
        by_cases h2 : m - p ≥ b.length
        · rw [List.drop_append, List.drop_of_length_le h2, List.nil_append]
          have e1 : m - (p + b.length) = m - p - b.length := by omega
          have e2 : m + n - (p + b.length) - (m - p - b.length) = m + n - p - (m - p) := by omega
          rw [e1, e2]
        · have e2 : m + n - p - (m - p) = 0 := by omega
          have e3 : m + n - (p + b.length) - (m - (p + b.length)) = 0 := by omega
          rw [e2, e3]; simp
      · simp only [h1, if_false]
        have hlo : m - p < b.length := by omega
        by_cases h3 : p + b.length ≥ m + n
        · simp only [h3, if_true, List.flatten_cons, List.flatten_nil, List.append_nil]
          have e1 : min b.length (m + n - p) = m + n - p := by omega
          rw [e1, List.drop_append, List.take_append]
          have e2 : m + n - p - (m - p) - (List.drop (m - p) b).length = 0 := by
            simp only [List.length_drop]; omega
          rw [e2]; simp
        · simp only [h3, if_false, List.flatten_cons]
          rw [ih (p + b.length)]
          have e1 : min b.length (m + n - p) = b.length := by omega
          rw [e1, List.drop_append, List.take_append]
          have e2 : m - p - b.length = 0 := by omega
          have e3 : m - (p + b.length) = 0 := by omega
          have e4 : List.take (b.length - (m - p)) (List.drop (m - p) b) = List.drop (m - p) b := by
            apply List.take_of_length_le; simp
          have e5 : List.take (m + n - p - (m - p)) (List.drop (m - p) b) = List.drop (m - p) b := by
            apply List.take_of_length_le; simp only [List.length_drop]; omega
          rw [e2, e3, e4, e5]
          simp only [List.drop_zero, List.length_drop]
          congr 2
          omega

end RlModel

namespace RlModel

/-! ### positional masks on sorted batches (C13) -/

section Mask
variable {α : Type}

/-- once `p` holds it holds for every later element -/
def Mono (p : α → Bool) (l : List α) : Prop := l.Pairwise (fun a b => p a = true → p b = true)

theorem Mono.tail {p : α → Bool} {a : α} {l : List α} (h : Mono p (a :: l)) : Mono p l :=
  (List.pairwise_cons.1 h).2

theorem Mono.sublist {p : α → Bool} {l l' : List α} (hs : l'.Sublist l) (h : Mono p l) : Mono p l' :=
  List.Pairwise.sublist hs h

theorem filter_not_eq_takeWhile (p : α → Bool) (l : List α) (h : Mono p l) :
    l.filter (fun x => !p x) = l.takeWhile (fun x => !p x) := by
  induction l with
  | nil => rfl
  | cons a l ih =>
    have h' := List.pairwise_cons.1 h
    cases hp : p a with
    | true =>
      simp only [List.filter_cons, List.takeWhile_cons, hp, Bool.not_true]
      simp only [Bool.false_eq_true, if_false]
      apply List.filter_eq_nil_iff.2
      intro b hb
      simp [h'.1 b hb hp]
    | false =>
      simp only [List.filter_cons, List.takeWhile_cons, hp, Bool.not_false, if_true]
      rw [ih h'.2]

theorem filter_eq_dropWhile (p : α → Bool) (l : List α) (h : Mono p l) :
    l.filter p = l.dropWhile (fun x => !p x) := by
  induction l with
  | nil => rfl
  | cons a l ih =>
    have h' := List.pairwise_cons.1 h
    cases hp : p a with
    | true =>
      simp only [List.filter_cons, List.dropWhile_cons, hp, Bool.not_true, if_true]
      simp only [Bool.false_eq_true, if_false]
      congr 1
      apply List.filter_eq_self.2
      intro b hb
      exact h'.1 b hb hp
    | false =>
      simp only [List.filter_cons, List.dropWhile_cons, hp, Bool.not_false, if_true]
      simp only [Bool.false_eq_true, if_false]
      exact ih h'.2

theorem take_length_takeWhile (q : α → Bool) (l : List α) : l.take (l.takeWhile q).length = l.takeWhile q := by
  induction l with
  | nil => rfl
  | cons a l ih =>
    cases hq : q a <;> simp [List.takeWhile_cons, hq, ih]

theorem drop_length_takeWhile (q q' : α → Bool) (b : List α) :
    (b.takeWhile q').drop (b.takeWhile q).length = (b.takeWhile q').dropWhile q := by
  induction b with
  | nil => rfl
  | cons a b ih =>
    cases hq' : q' a with
    | false => simp [List.takeWhile_cons, hq']
    | true =>
      cases hq : q a with
      | true => simp [List.takeWhile_cons, List.dropWhile_cons, hq, hq', ih]
      | false => simp [List.takeWhile_cons, List.dropWhile_cons, hq, hq']

/-- The positional mask `[firstIdx ok, firstIdx bad)` of a batch on which `ok` and `bad` are
monotone keeps exactly the elements with `ok ∧ ¬bad`. -/
theorem sliceRange_eq_filter (ok bad : α → Bool) (b : List α) (h1 : Mono ok b) (h2 : Mono bad b) :
    sliceRange (firstIdx ok b) (firstIdx bad b) b = b.filter (fun x => ok x && !bad x) := by
  unfold sliceRange firstIdx
  rw [take_length_takeWhile, drop_length_takeWhile]
  have ht : b.takeWhile (fun x => !bad x) = b.filter (fun x => !bad x) := (filter_not_eq_takeWhile bad b h2).symm
  rw [ht]
  have hm : Mono ok (b.filter (fun x => !bad x)) := Mono.sublist List.filter_sublist h1
  rw [← filter_eq_dropWhile ok _ hm, List.filter_filter]

theorem firstIdx_zero_iff (p : α → Bool) (a : α) (l : List α) : firstIdx p (a :: l) = 0 ↔ p a = true := by
  unfold firstIdx
  cases hp : p a <;> simp [List.takeWhile_cons, hp]

end Mask

theorem liveRows_append (a b : List (Row × Bool)) : liveRows (a ++ b) = liveRows a ++ liveRows b := by
  simp [liveRows]

theorem liveRows_all_dead (l l' : List (Row × Bool)) (hs : l'.Sublist l) (h : l.all (fun x => !x.2) = true) :
    liveRows l' = [] := by
  unfold liveRows
  rw [List.map_eq_nil_iff, List.filter_eq_nil_iff]
  intro x hx
  have := List.all_eq_true.1 h x (hs.subset hx)
  simpa using this

/-- a stop condition is sound when it only fires on a batch in which some row already violates
the upper bound (then, the stream being key-sorted, every later row violates it too) -/
def StopSound (stop : Nat → Nat → Nat → Bool) : Prop :=
  ∀ lo hi len, 0 < len → lo ≤ len → hi ≤ len → stop lo hi len = true → hi < len

theorem firstIdx_le {α : Type} (p : α → Bool) (l : List α) : firstIdx p l ≤ l.length := by
  unfold firstIdx
  exact (List.takeWhile_sublist _).length_le

theorem firstIdx_lt_exists {α : Type} (p : α → Bool) (l : List α) (h : firstIdx p l < l.length) : ∃ x ∈ l, p x = true := by
  induction l with
  | nil => simp [firstIdx] at h
  | cons a l ih =>
    cases hp : p a with
    | true => exact ⟨a, by simp, hp⟩
    | false =>
      have : firstIdx p (a :: l) = firstIdx p l + 1 := by simp [firstIdx, hp]
      rw [this] at h
      obtain ⟨x, hx, hpx⟩ := ih (by simpa using h)
      exact ⟨x, by simp [hx], hpx⟩

/-- Core of the row-set iterator: over ANY segmentation into batches of a stream on which the
lower-bound test and the upper-bound violation are monotone (a key-sorted stream), the masks and
the early stop return exactly the live rows in range. -/
theorem scanBatches_exact (hstop : StopSound Gen.rangeStop) (fc : Nat) (rg : KeyRange) (bs : List (List (Row × Bool)))
    (h1 : Mono (fun x : Row × Bool => lowerOk rg.lo (Row.at x.1 fc)) bs.flatten)
    (h2 : Mono (fun x : Row × Bool => upperBad rg.hi (Row.at x.1 fc)) bs.flatten) :
    scanBatches fc (some rg) bs
      = liveRows (bs.flatten.filter (fun x => lowerOk rg.lo (Row.at x.1 fc) && !upperBad rg.hi (Row.at x.1 fc))) := by
  induction bs with
  | nil => simp [scanBatches, liveRows]
  | cons b bs ih =>
    simp only [List.flatten_cons] at h1 h2 ⊢
    have h1' := List.pairwise_append.1 h1
    have h2' := List.pairwise_append.1 h2
    have ih' := ih h1'.2.1 h2'.2.1
    rw [List.filter_append, liveRows_append]
    simp only [scanBatches]
    split
    next hdead =>
      rw [ih', liveRows_all_dead b _ List.filter_sublist hdead]
      simp
    next hlive =>
      rw [sliceRange_eq_filter _ _ b h1'.1 h2'.1]
      split
      next hz =>
        -- early stop: sound only because some row of this batch already violates the upper bound
        have hlen : 0 < b.length := by
          cases b with
          | nil => simp at hlive
          | cons x xs => simp
        have hhi := hstop _ _ _ hlen (firstIdx_le _ b) (firstIdx_le _ b) hz
        obtain ⟨x, hxb, hbad⟩ := firstIdx_lt_exists _ b hhi
        have : bs.flatten.filter (fun x => lowerOk rg.lo (Row.at x.1 fc) && !upperBad rg.hi (Row.at x.1 fc)) = [] := by
          apply List.filter_eq_nil_iff.2
          intro y hy
          have := h2'.2.2 x hxb y hy hbad
          simp [this]
        rw [this]; simp [liveRows]
      next => rw [ih']

theorem scanBatches_none (fc : Nat) (bs : List (List (Row × Bool))) :
    scanBatches fc none bs = liveRows bs.flatten := by
  induction bs with
  | nil => simp [scanBatches, liveRows]
  | cons b bs ih =>
    simp only [scanBatches, List.flatten_cons, liveRows_append]
    split
    next hdead => rw [ih, liveRows_all_dead b b (List.Sublist.refl _) hdead]; simp
    next => rw [ih]

end RlModel

namespace RlModel

/-! ### start_rowid, batching, assembly (C13) -/

theorem firstKey_i32_roundtrip (v : Int) (h1 : -2147483648 ≤ v) (h2 : v < 2147483648) :
    firstKeyI32 (.i32 v) = some v := by
  have hr : List.range 4 = [0, 1, 2, 3] := by decide
  simp only [firstKeyI32, leBytes, hr, List.map, i32OfBytes]
  have hu : ∀ n : Nat, n < 256 → (UInt8.ofNat n).toNat = n := by
    intro n hn
    simp [Nat.mod_eq_of_lt hn]
  generalize hU : (v % ((256 ^ 4 : Nat) : Int)).toNat = u
  have hub : u < 4294967296 := by
    have : (256 ^ 4 : Nat) = 4294967296 := by decide
    rw [this] at hU
    omega
  rw [hu _ (Nat.mod_lt _ (by decide)), hu _ (Nat.mod_lt _ (by decide)), hu _ (Nat.mod_lt _ (by decide)), hu _ (Nat.mod_lt _ (by decide))]
  have e : u / 256 ^ 0 % 256 + 256 * (u / 256 ^ 1 % 256) + 65536 * (u / 256 ^ 2 % 256) + 16777216 * (u / 256 ^ 3 % 256) = u := by
    simp only [Nat.pow_zero, Nat.pow_one, Nat.div_one]
    have : (256:Nat) ^ 2 = 65536 := by decide
    have h3 : (256:Nat) ^ 3 = 16777216 := by decide
    rw [this, h3]
    omega
  rw [e]
  have : (256 ^ 4 : Nat) = 4294967296 := by decide
  rw [this] at hU
  congr 1
  split <;> omega

theorem upperBad_eq (hi : Bnd) (v : Val) :
    upperBad hi v = match hi with
      | .unb => false
      | .incl k => lowerOk (.excl k) v
      | .excl k => lowerOk (.incl k) v := by
  cases hi <;> rfl

theorem lowerOk_mono (lo : Bnd) {a b : Val} (h : Val.cmp a b ≠ .gt) (ha : lowerOk lo a = true) : lowerOk lo b = true := by
  have L := Val.cmp_laws
  cases lo with
  | unb => rfl
  | incl k =>
    simp only [lowerOk, bne_iff_ne, ne_eq] at *
    have hka : leBy Val.cmp k a := L.le_of_not_lt ha
    exact L.not_lt_of_le (L.le_trans hka h)
  | excl k =>
    simp only [lowerOk, beq_iff_eq] at *
    have hka : Val.cmp k a = .lt := (L.gt_iff a k).1 ha
    apply (L.gt_iff b k).2
    cases hab : Val.cmp a b with
    | gt => exact absurd hab h
    | lt => exact L.trans_lt k a b hka hab
    | eq => rw [← L.eq_cong_right k a b hab]; exact hka

theorem upperBad_mono (hi : Bnd) {a b : Val} (h : Val.cmp a b ≠ .gt) (ha : upperBad hi a = true) : upperBad hi b = true := by
  rw [upperBad_eq] at *
  cases hi with
  | unb => simp at ha
  | incl k => exact lowerOk_mono _ h ha
  | excl k => exact lowerOk_mono _ h ha

theorem keyCmp_single (k : Nat) (a b : Row) : keyCmp [⟨k, false⟩] a b = Val.cmp (Row.at a k) (Row.at b k) := by
  simp only [keyCmp]
  cases Val.cmp (Row.at a k) (Row.at b k) <;> rfl

theorem mono_lower_of_sorted (k : Nat) (lo : Bnd) (l : List (Row × Bool))
    (h : SortedBy (keyCmp [⟨k, false⟩]) (l.map (·.1))) :
    Mono (fun x : Row × Bool => lowerOk lo (Row.at x.1 k)) l := by
  unfold SortedBy at h
  rw [List.pairwise_map] at h
  exact List.Pairwise.imp (fun {a b} hab => lowerOk_mono lo (by rw [← keyCmp_single]; exact hab)) h

theorem mono_upper_of_sorted (k : Nat) (hi : Bnd) (l : List (Row × Bool))
    (h : SortedBy (keyCmp [⟨k, false⟩]) (l.map (·.1))) :
    Mono (fun x : Row × Bool => upperBad hi (Row.at x.1 k)) l := by
  unfold SortedBy at h
  rw [List.pairwise_map] at h
  exact List.Pairwise.imp (fun {a b} hab => upperBad_mono hi (by rw [← keyCmp_single]; exact hab)) h

theorem tagged_map_fst (rs : RowSet) : rs.tagged.map (·.1) = rs.rows := by
  unfold RowSet.tagged
  rw [List.map_map]
  have : ((fun x : Row × Bool => x.1) ∘ fun x : Row × Nat => (x.1, !rs.dead.contains x.2)) = (fun x : Row × Nat => x.1) := rfl
  rw [this]
  exact List.zipIdx_map_fst _ _

theorem foldl_min_gt (pos init : Nat) (l : List Nat) (hi : pos < init) (hl : ∀ x ∈ l, pos < x) :
    pos < l.foldl min init := by
  induction l generalizing init with
  | nil => simpa
  | cons a l ih =>
    simp only [List.foldl_cons]
    apply ih
    · have := hl a (by simp); omega
    · intro x hx; exact hl x (by simp [hx])

/-- batching never loses or reorders rows -/
theorem splitBatches_flatten {α : Type} (cuts : List Nat) (fuel pos : Nat) (xs : List α) (hf : xs.length < fuel) :
    (splitBatches cuts fuel pos xs).flatten = xs := by
  induction fuel generalizing pos xs with
  | zero => omega
  | succ n ih =>
    simp only [splitBatches]
    split
    next hemp => simp at hemp; simp [hemp]
    next hne =>
      have hpos : pos < (cuts.filter (· > pos)).foldl min (pos + 2048) := by
        apply foldl_min_gt
        · omega
        · intro x hx; simpa using (List.mem_filter.1 hx).2
      simp only [List.flatten_cons]
      have hlen : xs ≠ [] := by simpa using hne
      have : 0 < xs.length := List.length_pos_iff.2 hlen
      rw [ih]
      · exact List.take_append_drop _ _
      · simp only [List.length_drop]; omega

theorem startWalk_spec (b : Int) (blocks : List (Nat × Option Int)) (pre : Nat) :
    ∃ res, startWalk b blocks pre = .ok res ∧
      (res = pre ∨ ∃ x ∈ blocks, x.1 = res ∧ ∃ fv, x.2 = some fv ∧ fv < b) := by
  induction blocks generalizing pre with
  | nil => exact ⟨pre, rfl, Or.inl rfl⟩
  | cons x rest ih =>
    obtain ⟨rid, ofv⟩ := x
    cases ofv with
    | none => exact ⟨pre, rfl, Or.inl rfl⟩
    | some fv =>
      simp only [startWalk]
      split
      next hgt => exact ⟨pre, rfl, Or.inl rfl⟩
      next hle =>
        obtain ⟨res, hres, hcase⟩ := ih rid
        refine ⟨res, hres, ?_⟩
        rcases hcase with h | ⟨y, hy, h1, h2⟩
        · right
          exact ⟨(rid, some fv), by simp, h.symm, fv, rfl, by omega⟩
        · right
          exact ⟨y, by simp [hy], h1, h2⟩

theorem liveRows_filter (l : List (Row × Bool)) (q : Row → Bool) :
    (liveRows l).filter q = liveRows (l.filter (fun x => q x.1)) := by
  unfold liveRows
  rw [List.filter_map, List.filter_filter, List.filter_filter]
  congr 2
  funext x
  simp [Function.comp, Bool.and_comm]

end RlModel

namespace RlModel

/-! ### the executor's table scan (merge of per-row-set range scans) -/

theorem liveRows_sublist {l1 l2 : List (Row × Bool)} (h : l1.Sublist l2) : (liveRows l1).Sublist (liveRows l2) := by
  unfold liveRows
  exact (h.filter _).map _

theorem liveRows_sublist_map_fst (l : List (Row × Bool)) : (liveRows l).Sublist (l.map (·.1)) := by
  unfold liveRows
  exact (List.filter_sublist).map _

theorem scanBatchesC_sublist (fc : Nat) (r : Option KeyRange) (bs : List (List (Row × Bool))) :
    (scanBatchesC fc r bs).flatten.Sublist (liveRows bs.flatten) := by
  induction bs with
  | nil => simp [scanBatchesC, liveRows]
  | cons b bs ih =>
    simp only [List.flatten_cons, liveRows_append, scanBatchesC]
    split
    · exact ih.trans (List.sublist_append_right _ _)
    · cases r with
      | none =>
        simp only [List.flatten_cons]
        exact List.Sublist.append (List.Sublist.refl _) ih
      | some rg =>
        simp only
        have hout : (liveRows (sliceRange (firstIdx (fun x => lowerOk rg.lo (Row.at x.1 fc)) b)
            (firstIdx (fun x => upperBad rg.hi (Row.at x.1 fc)) b) b)).Sublist (liveRows b) := by
          apply liveRows_sublist
          unfold sliceRange
          exact (List.drop_sublist _ _).trans (List.take_sublist _ _)
        split
        · simp only [List.flatten_cons, List.flatten_nil, List.append_nil]
          exact hout.trans (List.sublist_append_left _ _)
        · simp only [List.flatten_cons]
          exact List.Sublist.append hout ih

theorem collectOut_mem {α β : Type} (f : α → Out β) (l : List α) (ys : List β) (h : collectOut (l.map f) = .ok ys) :
    ∀ y ∈ ys, ∃ x ∈ l, f x = .ok y := by
  induction l generalizing ys with
  | nil => simp [collectOut] at h; subst h; intro y hy; cases hy
  | cons a l ih =>
    simp only [List.map_cons, collectOut] at h
    cases hfa : f a with
    | panic s => simp [hfa, Out.bind] at h
    | ok b =>
      cases hrest : collectOut (l.map f) with
      | panic s => simp [hfa, hrest, Out.bind, Out.map] at h
      | ok bs =>
        simp only [hfa, hrest, Out.bind, Out.map, Out.ok.injEq] at h
        subst h
        intro y hy
        rcases List.mem_cons.1 hy with rfl | hy
        · exact ⟨a, by simp, hfa⟩
        · obtain ⟨x, hx, hfx⟩ := ih bs hrest y hy
          exact ⟨x, by simp [hx], hfx⟩

/-- every child iterator of the table scan delivers a sublist of its row-set's stored rows -/
theorem scanRowSetC_sorted (cmp : Row → Row → Ordering) (rs : RowSet) (cols : List Nat) (r : Option KeyRange)
    (chunks : List (List Row)) (h : scanRowSetC rs cols r = .ok chunks) (hs : SortedBy cmp rs.rows) :
    SortedBy cmp chunks.flatten := by
  unfold scanRowSetC at h
  cases hst : startRowid rs r with
  | panic s => simp [hst, Out.map] at h
  | ok s =>
    simp only [hst, Out.map, Out.ok.injEq] at h
    subst h
    have h1 := scanBatchesC_sublist (cols.headD 0) r
      (splitBatches (cutPoints rs cols) ((rs.tagged.drop s).length + 1) s (rs.tagged.drop s))
    rw [splitBatches_flatten _ _ _ _ (by omega)] at h1
    have h2 : (liveRows (rs.tagged.drop s)).Sublist rs.rows := by
      refine (liveRows_sublist_map_fst _).trans ?_
      rw [List.map_drop, tagged_map_fst]
      exact List.drop_sublist _ _
    exact List.Pairwise.sublist (h1.trans h2) hs

end RlModel

