import RlModel.Model.Kernel
/-! Helper lemmas for `Thm/C14.lean`: slot-wise characterisations of the kernels. -/
namespace RlModel

/-- The slot function of `binary_op(a, b, f)`. -/
def binSlot {α β γ} (f : α → β → KOut γ) (s : Slot α) (t : Slot β) : KOut (Slot γ) :=
  (f s.raw t.raw).map fun c => ⟨s.valid && t.valid, c⟩

theorem binaryOp_eq_zipSlotM {α β γ} (f : α → β → KOut γ) (a : Arr α) (b : Arr β)
    (h : a.length = b.length) : binaryOp f a b = zipSlotM (binSlot f) a b := by
  induction a generalizing b with
  | nil =>
    cases b with
    | nil => simp [binaryOp, zipSlotM, raws, valids, zipRawM, fromData, bvAnd]
    | cons y ys => simp at h
  | cons x xs ih =>
    cases b with
    | nil => simp at h
    | cons y ys =>
      have h' : xs.length = ys.length := by simpa using h
      have ih' := ih ys h'
      simp only [binaryOp, h', h, ne_eq, not_true_eq_false, ite_false] at ih' ⊢
      simp only [raws, valids, List.map_cons, zipRawM, zipSlotM, binSlot, bvAnd] at ih' ⊢
      cases hf : f x.raw y.raw with
      | ok c =>
        simp only [KOut.map]
        rw [← ih']
        cases hz : zipRawM f (List.map (fun s => s.raw) xs) (List.map (fun s => s.raw) ys) <;>
          simp [fromData]
      | err => simp [KOut.map]
      | panic => simp [KOut.map]

theorem binaryOp_len_ne {α β γ} (f : α → β → KOut γ) (a : Arr α) (b : Arr β)
    (h : a.length ≠ b.length) : binaryOp f a b = .panic := by
  simp [binaryOp, h]

theorem zipSlotM_len_ne {α β γ} (f : Slot α → Slot β → KOut (Slot γ)) (a : Arr α) (b : Arr β)
    (hf : ∀ s t, f s t ≠ .err) (h : a.length ≠ b.length) : zipSlotM f a b = .panic := by
  induction a generalizing b with
  | nil => cases b with
    | nil => simp at h
    | cons y ys => simp [zipSlotM]
  | cons x xs ih => cases b with
    | nil => simp [zipSlotM]
    | cons y ys =>
      have h' : xs.length ≠ ys.length := by simpa using h
      simp only [zipSlotM, ih ys h']
      cases hxy : f x y with
      | ok c => rfl
      | err => exact absurd hxy (hf x y)
      | panic => rfl

/-- For a kernel whose raw function never returns `Err`, the slot-wise form holds for all
lengths (length mismatch = the `assert_eq!` panic on both sides). -/
theorem binaryOp_eq_zipSlotM' {α β γ} (f : α → β → KOut γ) (a : Arr α) (b : Arr β)
    (hf : ∀ x y, f x y ≠ .err) : binaryOp f a b = zipSlotM (binSlot f) a b := by
  by_cases h : a.length = b.length
  · exact binaryOp_eq_zipSlotM f a b h
  · rw [binaryOp_len_ne f a b h, zipSlotM_len_ne _ a b _ h]
    intro s t
    simp only [binSlot]
    cases hxy : f s.raw t.raw with
    | ok c => simp [KOut.map]
    | err => exact absurd hxy (hf _ _)
    | panic => simp [KOut.map]

/-- Appending batches: slot-wise kernels are batch independent. -/
def KOut.append2 {α} (x y : KOut (List α)) : KOut (List α) :=
  match x with
  | .ok r1 =>
    match y with
    | .ok r2 => .ok (r1 ++ r2)
    | .err => .err
    | .panic => .panic
  | .err => .err
  | .panic => .panic

theorem zipSlotM_append {α β γ} (f : Slot α → Slot β → KOut (Slot γ))
    (a1 a2 : Arr α) (b1 b2 : Arr β) (h1 : a1.length = b1.length) :
    zipSlotM f (a1 ++ a2) (b1 ++ b2) = KOut.append2 (zipSlotM f a1 b1) (zipSlotM f a2 b2) := by
  induction a1 generalizing b1 with
  | nil =>
    cases b1 with
    | nil =>
      simp only [List.nil_append, zipSlotM, KOut.append2]
      cases zipSlotM f a2 b2 <;> simp
    | cons y ys => simp at h1
  | cons x xs ih =>
    cases b1 with
    | nil => simp at h1
    | cons y ys =>
      have h' : xs.length = ys.length := by simpa using h1
      simp only [List.cons_append, zipSlotM, ih ys h']
      cases f x y with
      | ok c =>
        simp only [KOut.append2]
        cases zipSlotM f xs ys <;> cases zipSlotM f a2 b2 <;> simp
      | err => simp [KOut.append2]
      | panic => simp [KOut.append2]

end RlModel
