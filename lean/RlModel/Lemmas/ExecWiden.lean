import RlModel.Lemmas.ExecNull
import RlModel.Lemmas.ValOrder
/-! Join keys built through `join_key` (integers of every width widened to 64 bits): structural
equality of widened keys IS SQL equality of the keys — for every data of the model's value universe
(NULL, BOOLEAN, SMALLINT, INT, BIGINT, VARCHAR; no DECIMAL / DOUBLE) — so the hypothesis
`KeysComparable` of the executor-body theorems is discharged for the executors themselves. -/
namespace RlModel
open List

theorem holds_and3 (x y : Option Bool) : holds (and3 x y) = (holds x && holds y) := by
  cases x with
  | none => cases y with
    | none => rfl
    | some b => cases b <;> rfl
  | some a => cases a <;> cases y with
    | none => rfl
    | some b => cases b <;> rfl

/-- `=`, `<`, … do not see the widening: they compare integers by value already. -/
theorem sqlCmp_joinKey (a b : Val) : sqlCmp (joinKey a) (joinKey b) = sqlCmp a b := by
  cases a <;> cases b <;> rfl

theorem isNull_joinKey (a : Val) : (joinKey a).isNull = a.isNull := by cases a <;> rfl

theorem hasNullKey_map_joinKey (a : List Val) : hasNullKey (a.map joinKey) = hasNullKey a := by
  unfold hasNullKey
  rw [List.any_map]
  congr 1
  funext v
  exact isNull_joinKey v

theorem keysEq3_map_joinKey : ∀ (a b : List Val), keysEq3 (a.map joinKey) (b.map joinKey) = keysEq3 a b
  | [], [] => rfl
  | [], _ :: _ => rfl
  | _ :: _, [] => rfl
  | x :: xs, y :: ys => by
    simp only [List.map_cons, keysEq3, sqlEq, sqlCmp_joinKey, keysEq3_map_joinKey xs ys]

theorem keyOf_wk (ks : List (Row → Val)) (r : Row) : keyOf (wk ks) r = (keyOf ks r).map joinKey := by
  unfold keyOf wk
  rw [List.map_map, List.map_map]
  rfl

/-- the join condition on widened keys is the join condition. -/
theorem equiOn_wk (nL : Nat) (lk rk : List (Row → Val)) (res : Pred) :
    equiOn nL (wk lk) (wk rk) res = equiOn nL lk rk res := by
  funext lr
  unfold equiOn
  have h := keysEq3_map_joinKey (keyOf lk (lr.take nL)) (keyOf rk (lr.drop nL))
  rw [← keyOf_wk, ← keyOf_wk] at h
  unfold keyOf at h
  rw [h]

theorem beq_eq_cmp (u v : Val) : (u == v) = (Val.cmp u v == .eq) := by
  by_cases h : u = v
  · subst h; rw [Val.cmp_refl]; simp
  · have h1 : (u == v) = false := by simpa using h
    have h2 : Val.cmp u v ≠ .eq := fun e => h ((Val.cmp_eq_iff u v).1 e)
    rw [h1]
    cases hc : Val.cmp u v
    · rfl
    · exact absurd hc h2
    · rfl

/-- one key position: widened values are structurally equal iff the SQL `=` of the values is TRUE. -/
theorem joinKey_beq (a b : Val) (ha : a.isNull = false) (hb : b.isNull = false) :
    (joinKey a == joinKey b) = holds (sqlEq a b) := by
  rw [beq_eq_cmp]
  cases a <;> cases b <;>
    first
    | (simp [Val.isNull] at ha; done)
    | (simp [Val.isNull] at hb; done)
    | (simp [joinKey, sqlEq, sqlCmp, holds, Val.int?, Val.cmp]; done)
    | (simp [joinKey, sqlEq, sqlCmp, holds, Val.int?, Val.cmp, Val.rank]; done)

theorem wkeys_beq : ∀ (a b : List Val), hasNullKey a = false → hasNullKey b = false →
    (a.map joinKey == b.map joinKey) = holds (keysEq3 a b)
  | [], [], _, _ => rfl
  | [], _ :: _, _, _ => rfl
  | _ :: _, [], _, _ => rfl
  | x :: xs, y :: ys, ha, hb => by
    simp only [hasNullKey, List.any_cons, Bool.or_eq_false_iff] at ha hb
    have ih := wkeys_beq xs ys (by simpa [hasNullKey] using ha.2) (by simpa [hasNullKey] using hb.2)
    simp only [List.map_cons, keysEq3, holds_and3]
    rw [← joinKey_beq x y ha.1 hb.1, ← ih]
    rfl

/-- `widen_keys_comparable`: whatever the widths (and types) of the key columns of the two sides, after
`join_key` the executors' structural key equality is SQL equality of the keys. -/
theorem widen_keys_comparable (lk rk : List (Row → Val)) (L R : List Row) :
    KeysComparable (wk lk) (wk rk) L R := by
  apply keysComparable_of_null_free
  intro l _ r _ h1 h2
  rw [keyOf_wk, keyOf_wk] at *
  rw [hasNullKey_map_joinKey] at h1 h2
  rw [keysEq3_map_joinKey]
  exact wkeys_beq _ _ h1 h2

/-! ### widening and the order of keys (merge join inputs)

The merge join compares widened keys; its inputs are sorted by the raw key columns.  Widening changes
the derived order of two values only if they are integers of DIFFERENT widths (variant rank first):
within one column — one width — sorted stays sorted. -/

def SameWidth (a b : Val) : Prop := a.int?.isSome → b.int?.isSome → a.rank = b.rank

theorem cmp_joinKey (a b : Val) (h : SameWidth a b) : Val.cmp (joinKey a) (joinKey b) = Val.cmp a b := by
  cases a <;> cases b <;> first | rfl | (exfalso; simp [SameWidth, Val.int?, Val.rank] at h)

def RowSameWidth : List Val → List Val → Prop
  | a :: as, b :: bs => SameWidth a b ∧ RowSameWidth as bs
  | _, _ => True

theorem rowCmp_map_joinKey : ∀ (a b : List Val), RowSameWidth a b →
    rowCmp (a.map joinKey) (b.map joinKey) = rowCmp a b
  | [], [], _ => rfl
  | [], _ :: _, _ => rfl
  | _ :: _, [], _ => rfl
  | x :: xs, y :: ys, h => by
    simp only [List.map_cons, rowCmp_cons]
    rw [cmp_joinKey x y h.1, rowCmp_map_joinKey xs ys h.2]

/-- an input sorted by its raw key columns is sorted by the widened keys, if every key column has one
integer width. -/
theorem sorted_widen (ks : List (Row → Val)) (X : List Row)
    (hw : ∀ x ∈ X, ∀ y ∈ X, RowSameWidth (keyOf ks x) (keyOf ks y))
    (h : SortedBy rowCmp (X.map (keyOf ks))) : SortedBy rowCmp (X.map (keyOf (wk ks))) := by
  unfold SortedBy at *
  rw [List.pairwise_map] at *
  refine List.Pairwise.imp_of_mem ?_ h
  intro x y hx hy hxy
  rw [keyOf_wk, keyOf_wk, rowCmp_map_joinKey _ _ (hw x hx y hy)]
  exact hxy

end RlModel
