import RlModel.Lemmas.PlanSem
import Mathlib.Data.List.Perm.Basic
/-! Permutation lemmas for the join-reordering rules (C01). -/
namespace RlModel.P
open List

theorem flatMap_const_nil {α β} (xs : List α) : xs.flatMap (fun _ => ([] : List β)) = [] := by
  induction xs <;> simp_all

/-- Nested loops can be swapped, up to the order of the produced rows. -/
theorem flatMap_swap_perm {α β γ} (xs : List α) (ys : List β) (f : α → β → List γ) :
    (xs.flatMap fun x => ys.flatMap fun y => f x y) ~ (ys.flatMap fun y => xs.flatMap fun x => f x y) := by
  induction xs with
  | nil => simp [flatMap_const_nil]
  | cons x xs ih =>
    simp only [flatMap_cons]
    exact (Perm.append_left _ ih).trans (flatMap_append_perm ys (f x) (fun y => xs.flatMap fun x => f x y))

theorem filter_map_eq_flatMap {α β} (xs : List α) (m : α → β) (p : β → Bool) :
    (xs.map m).filter p = xs.flatMap fun x => if p (m x) then [m x] else [] := by
  induction xs with
  | nil => rfl
  | cons x xs ih => by_cases h : p (m x) <;> simp [filter_cons, h, ih]

theorem map_flatMap' {α β γ} (xs : List α) (f : α → List β) (g : β → γ) :
    (xs.flatMap f).map g = xs.flatMap fun x => (f x).map g := by
  induction xs <;> simp_all

/-- Output of an inner join as two nested loops. -/
theorem inner_join_out (es : List VExpr) (on : BExpr) (L R : Rel) :
    (proj es (join .inner on L R)).out =
      L.rows.flatMap fun l => R.rows.flatMap fun r =>
        if holds on (merge R.owned l r) then [es.map fun e => e (merge R.owned l r)] else [] := by
  simp only [Rel.out, proj, join, joinRows, matchesL, map_flatMap']
  apply flatMap_congr'
  intro l _
  rw [filter_map_eq_flatMap, map_flatMap']
  apply flatMap_congr'
  intro r _
  by_cases h : holds on (merge R.owned l r) <;> simp [h]

/-- With disjoint sides, merging left-into-right or right-into-left gives rows that agree on the
columns of both sides. -/
theorem merge_swap_agree (SL SR : Col → Bool) (hd : ∀ x, SL x = true → SR x = false) (l r : Env) :
    ∀ x, (SL x || SR x) = true → merge SR l r x = merge SL r l x := by
  intro x hx
  by_cases hl : SL x = true
  · have := hd x hl; simp [merge, hl, this]
  · have hr : SR x = true := by cases h : SL x <;> simp_all
    simp [merge, hl, hr]

end RlModel.P
