import RlModel.Lemmas.ValOrder
import RlModel.Model.Store
/-! `keyLe k` (Model/Store.lean: `Vec<ComparableDataValue>` order on the key projection) is total
and transitive: the two fields of `TotalPreorder (keyLe k)` (Lemmas/Store.lean), i.e.
`⟨keyLe_total k, keyLe_trans k⟩ : TotalPreorder (keyLe k)`. -/
namespace RlModel

theorem keyLe_total (k : List Nat) : ∀ a b, keyLe k a b = true ∨ keyLe k b a = true :=
  fun a b => rowLe_total (keyOf k) a b

theorem keyLe_trans (k : List Nat) : ∀ a b c, keyLe k a b = true → keyLe k b c = true → keyLe k a c = true :=
  fun a b c => rowLe_trans (keyOf k) a b c

end RlModel
