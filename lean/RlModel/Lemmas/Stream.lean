import RlModel.Model.Stream
/-! Lemmas about the trace layer of L9 (used by `Thm/C15.lean`). -/
namespace RlModel
namespace Strm

variable {α σ : Type}

theorem collect_error_iff (t : Tr α) (e : Nat) : collect t = .error e ↔ t.fin = some e := by
  unfold collect
  cases h : t.fin <;> simp

theorem collect_ok_iff (t : Tr α) (rows : List α) : collect t = .ok rows ↔ t.fin = none ∧ t.chunks = rows := by
  unfold collect
  cases h : t.fin <;> simp

/-- A loop that never breaks re-raises the child's error (or fails earlier by itself). -/
theorem Phase.run_error_of_noStop (ph : Phase σ α) (h : ph.NoStop) (e : Nat) :
    ∀ (cs : List α) (s : σ), ∃ e', (ph.run (some e) s cs).2 = .error e' := by
  intro cs
  induction cs with
  | nil => intro s; simp [Phase.run, h.1 s]
  | cons c cs ih =>
    intro s
    simp only [Phase.run, h.1 s]
    cases hc : ph.onChunk s c with
    | error e' => exact ⟨e', by simp⟩
    | ok r =>
      obtain ⟨s', outs⟩ := r
      simp only [h.2 s']
      exact ih s'

/-- `t` is what a task sends in the faulty run, `t0` in the fault-free run: either the same, or
an error-terminated prefix. -/
def Rel (t t0 : Tr α) : Prop := t = t0 ∨ (t.fin.isSome = true ∧ t.chunks <+: t0.chunks)

theorem Rel.prefix {t t0 : Tr α} (h : Rel t t0) : t.chunks <+: t0.chunks := by
  rcases h with h | h
  · subst h; exact List.prefix_refl _
  · exact h.2

/-- Key lemma: a loop fed an error-terminated prefix of its fault-free input either behaves as
in the fault-free run (it stopped inside the prefix) or raises after a prefix of its output. -/
theorem Phase.run_prefix (ph : Phase σ α) (e : Nat) (fin0 : Option Nat) :
    ∀ (cs cs0 : List α) (s : σ), cs <+: cs0 →
      ph.run (some e) s cs = ph.run fin0 s cs0 ∨
      ((∃ e', (ph.run (some e) s cs).2 = .error e') ∧ (ph.run (some e) s cs).1 <+: (ph.run fin0 s cs0).1) := by
  intro cs
  induction cs with
  | nil =>
    intro cs0 s _
    by_cases hb : ph.stopBefore s = true
    · left
      cases cs0 with
      | nil => cases fin0 <;> simp [Phase.run, hb]
      | cons c cs0 => simp [Phase.run, hb]
    · right
      simp [Phase.run, hb]
  | cons c cs ih =>
    intro cs0 s hp
    cases cs0 with
    | nil => simp at hp
    | cons c0 cs0 =>
      rw [List.cons_prefix_cons] at hp
      obtain ⟨hc, hp'⟩ := hp
      subst hc
      simp only [Phase.run]
      by_cases hb : ph.stopBefore s = true
      · left; simp [hb]
      · simp only [hb]
        cases hoc : ph.onChunk s c with
        | error e' => left; rfl
        | ok r =>
          obtain ⟨s', outs⟩ := r
          by_cases ha : ph.stopAfter s' = true
          · left; simp [ha]
          · simp only [ha]
            rcases ih cs0 s' hp' with h | ⟨⟨e', he⟩, hpre⟩
            · left; simp [h]
            · right
              refine ⟨⟨e', by simpa using he⟩, ?_⟩
              simpa using (List.prefix_append_right_inj outs).mpr hpre

/-- The same for any related pair of input traces. -/
theorem Phase.run_rel (ph : Phase σ α) (s : σ) {t t0 : Tr α} (h : Rel t t0) :
    ph.run t.fin s t.chunks = ph.run t0.fin s t0.chunks ∨
    ((∃ e', (ph.run t.fin s t.chunks).2 = .error e') ∧
      (ph.run t.fin s t.chunks).1 <+: (ph.run t0.fin s t0.chunks).1) := by
  rcases h with h | ⟨hf, hp⟩
  · subst h; left; rfl
  · cases hfin : t.fin with
    | none => simp [hfin] at hf
    | some e => exact Phase.run_prefix ph e t0.fin t.chunks t0.chunks s hp

theorem finish_chunks_prefix (onEnd : σ → Except Nat (List α)) (outs : List α) (r : Except Nat σ) :
    outs <+: (finish onEnd outs r).chunks := by
  cases r with
  | error e => simp [finish]
  | ok s =>
    simp only [finish]
    cases onEnd s <;> simp

theorem Op1.exec_rel (o : Op1 α) {t t0 : Tr α} (h : Rel t t0) : Rel (o.exec t) (o.exec t0) := by
  unfold Op1.exec
  rcases Phase.run_rel o.ph o.init h with he | ⟨⟨e', he⟩, hp⟩
  · left; simp [he]
  · right
    simp only [he, finish]
    exact ⟨rfl, List.IsPrefix.trans hp (finish_chunks_prefix _ _ _)⟩

theorem Op2.cont_error (o : Op2 α) (r : Tr α) (a : List α × Except Nat o.σ) (e : Nat)
    (h : a.2 = .error e) : o.cont r a = ⟨a.1, some e⟩ := by
  obtain ⟨outs, res⟩ := a
  simp only at h; subst h; rfl

theorem Op2.cont_ok (o : Op2 α) (r : Tr α) (a : List α × Except Nat o.σ) (s : o.σ)
    (h : a.2 = .ok s) :
    o.cont r a = finish o.onEnd (a.1 ++ (o.phR.run r.fin s r.chunks).1) (o.phR.run r.fin s r.chunks).2 := by
  obtain ⟨outs, res⟩ := a
  simp only at h; subst h; rfl

theorem Op2.cont_chunks_prefix (o : Op2 α) (r : Tr α) (a : List α × Except Nat o.σ) :
    a.1 <+: (o.cont r a).chunks := by
  obtain ⟨outs, res⟩ := a
  cases res with
  | error e => simp [Op2.cont]
  | ok s =>
    simp only [Op2.cont]
    exact List.IsPrefix.trans (List.prefix_append _ _) (finish_chunks_prefix _ _ _)

theorem Op2.exec_rel (o : Op2 α) {l l0 r r0 : Tr α} (hl : Rel l l0) (hr : Rel r r0) :
    Rel (o.exec l r) (o.exec l0 r0) := by
  unfold Op2.exec
  rcases Phase.run_rel o.phL o.init hl with he | ⟨⟨e', he⟩, hp⟩
  · -- left loop identical
    rw [he]
    generalize o.phL.run l0.fin o.init l0.chunks = a
    obtain ⟨outs, res⟩ := a
    cases res with
    | error e => left; rfl
    | ok s =>
      simp only [Op2.cont]
      rcases Phase.run_rel o.phR s hr with he2 | ⟨⟨e2, he2⟩, hp2⟩
      · left; rw [he2]
      · right
        simp only [he2, finish]
        refine ⟨rfl, ?_⟩
        exact List.IsPrefix.trans ((List.prefix_append_right_inj _).mpr hp2) (finish_chunks_prefix _ _ _)
  · right
    have hc : (o.cont r (o.phL.run l.fin o.init l.chunks)) = ⟨(o.phL.run l.fin o.init l.chunks).1, some e'⟩ := by
      simp [Op2.cont, he]
    rw [hc]
    exact ⟨rfl, List.IsPrefix.trans hp (Op2.cont_chunks_prefix o r0 _)⟩

theorem Rel.prepend_both (outs : List α) {t t0 : Tr α} (h : Rel t t0) : Rel (t.prepend outs) (t0.prepend outs) := by
  rcases h with h | ⟨hf, hp⟩
  · subst h; exact Or.inl rfl
  · exact Or.inr ⟨hf, (List.prefix_append_right_inj outs).mpr hp⟩

/-- What is left of an input in the faulty run vs the fault-free run: the same, or an
error-terminated prefix. (`Rel` on the remaining parts.) -/
theorem Rel.tail {c : α} {cs cs0 : List α} {f f0 : Option Nat} (h : Rel (⟨c :: cs, f⟩ : Tr α) ⟨c :: cs0, f0⟩) :
    Rel (⟨cs, f⟩ : Tr α) ⟨cs0, f0⟩ := by
  rcases h with h | ⟨hf, hp⟩
  · left
    cases h; rfl
  · right
    refine ⟨hf, ?_⟩
    simp only [List.cons_prefix_cons] at hp
    exact hp.2

/-- The interleaved loop (merge join): related inputs give related outputs — an `Err` item of
either input is re-raised at whatever position the loop meets it, and until then the loop behaves
as in the fault-free run. -/
theorem OpM.go_rel (o : OpM α) : ∀ (n : Nat) (s : o.σ) (l l0 r r0 : Tr α), Rel l l0 → Rel r r0 →
    Rel (o.go n s l r) (o.go n s l0 r0) := by
  intro n
  induction n with
  | zero => intro s l l0 r r0 _ _; exact Or.inl rfl
  | succ n ih =>
    intro s l l0 r r0 hl hr
    simp only [OpM.go]
    cases hw : o.want s with
    | none => exact Or.inl rfl
    | some side =>
      simp only
      -- the polled input and its fault-free counterpart
      have key : ∀ (inp inp0 : Tr α), Rel inp inp0 →
          (∀ cs cs0 c, inp.chunks = c :: cs → inp0.chunks = c :: cs0 → ∀ s' : o.σ,
            Rel (o.go n s' (if side then ⟨cs, l.fin⟩ else l) (if side then r else ⟨cs, r.fin⟩))
                (o.go n s' (if side then ⟨cs0, l0.fin⟩ else l0) (if side then r0 else ⟨cs0, r0.fin⟩))) →
          (inp.chunks = [] → inp.fin = none → inp0.chunks = [] ∧ inp0.fin = none) →
          Rel (match inp.chunks with
               | c :: cs => (match o.onItem s side (some c) with
                  | .error e => (⟨[], some e⟩ : Tr α)
                  | .ok (s', outs) => (o.go n s' (if side then ⟨cs, l.fin⟩ else l) (if side then r else ⟨cs, r.fin⟩)).prepend outs)
               | [] => (match inp.fin with
                  | some e => ⟨[], some e⟩
                  | none => (match o.onItem s side none with
                     | .error e => ⟨[], some e⟩
                     | .ok (s', outs) => (o.go n s' l r).prepend outs)))
              (match inp0.chunks with
               | c :: cs => (match o.onItem s side (some c) with
                  | .error e => (⟨[], some e⟩ : Tr α)
                  | .ok (s', outs) => (o.go n s' (if side then ⟨cs, l0.fin⟩ else l0) (if side then r0 else ⟨cs, r0.fin⟩)).prepend outs)
               | [] => (match inp0.fin with
                  | some e => ⟨[], some e⟩
                  | none => (match o.onItem s side none with
                     | .error e => ⟨[], some e⟩
                     | .ok (s', outs) => (o.go n s' l0 r0).prepend outs))) := by
        intro inp inp0 hrel hstep hend
        cases hc : inp.chunks with
        | nil =>
          cases hf : inp.fin with
          | some e => exact Or.inr ⟨rfl, List.nil_prefix⟩
          | none =>
            obtain ⟨h1, h2⟩ := hend hc hf
            simp only [h1, h2]
            cases o.onItem s side none with
            | error e => exact Or.inl rfl
            | ok p => exact Rel.prepend_both p.2 (ih p.1 l l0 r r0 hl hr)
        | cons c cs =>
          -- the fault-free input starts with the same chunk
          have hp := hrel.prefix
          rw [hc] at hp
          cases hc0 : inp0.chunks with
          | nil => simp [hc0] at hp
          | cons c0 cs0 =>
            rw [hc0, List.cons_prefix_cons] at hp
            obtain ⟨hcc, _⟩ := hp
            subst hcc
            simp only
            cases o.onItem s side (some c) with
            | error e => exact Or.inl rfl
            | ok p => exact Rel.prepend_both p.2 (hstep cs cs0 c hc hc0 p.1)
      cases side with
      | true =>
        simp only [if_true]
        apply key l l0 hl
        · intro cs cs0 c hc hc0 s'
          simp only [if_true]
          apply ih s' _ _ _ _ _ hr
          have : Rel (⟨c :: cs, l.fin⟩ : Tr α) ⟨c :: cs0, l0.fin⟩ := by
            have e1 : (⟨c :: cs, l.fin⟩ : Tr α) = l := by cases l; simp_all
            have e2 : (⟨c :: cs0, l0.fin⟩ : Tr α) = l0 := by cases l0; simp_all
            rw [e1, e2]; exact hl
          exact Rel.tail this
        · intro hc hf
          rcases hl with h | ⟨hsome, _⟩
          · subst h; exact ⟨hc, hf⟩
          · rw [hf] at hsome; cases hsome
      | false =>
        simp only [Bool.false_eq_true, if_false]
        apply key r r0 hr
        · intro cs cs0 c hc hc0 s'
          simp only [Bool.false_eq_true, if_false]
          apply ih s' _ _ _ _ hl
          have : Rel (⟨c :: cs, r.fin⟩ : Tr α) ⟨c :: cs0, r0.fin⟩ := by
            have e1 : (⟨c :: cs, r.fin⟩ : Tr α) = r := by cases r; simp_all
            have e2 : (⟨c :: cs0, r0.fin⟩ : Tr α) = r0 := by cases r0; simp_all
            rw [e1, e2]; exact hr
          exact Rel.tail this
        · intro hc hf
          rcases hr with h | ⟨hsome, _⟩
          · subst h; exact ⟨hc, hf⟩
          · rw [hf] at hsome; cases hsome

theorem applyFault_rel (ft : Option Fault) {t t0 : Tr α} (h : Rel t t0) : Rel (applyFault ft t) t0 := by
  cases ft with
  | none => exact h
  | some f =>
    unfold applyFault
    simp only
    by_cases hlt : f.k < t.items
    · simp only [hlt, if_true]
      right
      cases f.kind <;> exact ⟨rfl, List.IsPrefix.trans (List.take_prefix _ _) h.prefix⟩
    · simp only [hlt, if_false]; exact h

/-- Whatever faults are armed (errors, panics, any number, anywhere) every task's trace is related
to its fault-free trace: the same, or an error-terminated prefix. -/
theorem Plan.tr_rel : ∀ (p : Plan α), Rel p.tr p.clean.tr
  | .leaf ft out => by
    simp only [Plan.tr, Plan.clean, applyFault]
    exact applyFault_rel ft (Or.inl rfl)
  | .unary ft o c => by
    simp only [Plan.tr, Plan.clean]
    have ih := Plan.tr_rel c
    have : applyFault none (o.exec c.clean.tr) = o.exec c.clean.tr := rfl
    rw [this]
    exact applyFault_rel ft (Op1.exec_rel o ih)
  | .binary ft o l r => by
    simp only [Plan.tr, Plan.clean]
    have ihl := Plan.tr_rel l
    have ihr := Plan.tr_rel r
    have : applyFault none (o.exec l.clean.tr r.clean.tr) = o.exec l.clean.tr r.clean.tr := rfl
    rw [this]
    exact applyFault_rel ft (Op2.exec_rel o ihl ihr)
  | .mjoin ft o fuel l r => by
    simp only [Plan.tr, Plan.clean]
    have ihl := Plan.tr_rel l
    have ihr := Plan.tr_rel r
    have : applyFault none (o.exec fuel l.clean.tr r.clean.tr) = o.exec fuel l.clean.tr r.clean.tr := rfl
    rw [this]
    exact applyFault_rel ft (OpM.go_rel o fuel o.init _ _ _ _ ihl ihr)

/-- An `ErrHit` plan's root task ends with an `Err` item. -/
theorem Plan.errHit_fin : ∀ (p : Plan α), p.ErrHit → ∃ e, p.tr.fin = some e
  | .leaf ft out, h => by
    obtain ⟨k, kd, hft, hk⟩ := h
    subst hft
    cases kd
    · exact ⟨0, by simp [Plan.tr, applyFault, hk]⟩
    · exact ⟨2, by simp [Plan.tr, applyFault, hk]⟩
  | .unary ft o c, h => by
    rcases h with ⟨k, kd, hft, hk⟩ | ⟨hft, hns, hc⟩
    · subst hft
      cases kd
      · exact ⟨0, by simp [Plan.tr, applyFault, hk]⟩
      · exact ⟨2, by simp [Plan.tr, applyFault, hk]⟩
    · subst hft
      obtain ⟨e, he⟩ := Plan.errHit_fin c hc
      obtain ⟨e', he'⟩ := Phase.run_error_of_noStop o.ph hns e c.tr.chunks o.init
      exact ⟨e', by simp [Plan.tr, applyFault, Op1.exec, he, he', finish]⟩
  | .binary ft o l r, h => by
    rcases h with ⟨k, kd, hft, hk⟩ | ⟨hft, hnl, hnr, hc⟩
    · subst hft
      cases kd
      · exact ⟨0, by simp [Plan.tr, applyFault, hk]⟩
      · exact ⟨2, by simp [Plan.tr, applyFault, hk]⟩
    · subst hft
      simp only [Plan.tr, applyFault, Op2.exec]
      cases hres : (o.phL.run l.tr.fin o.init l.tr.chunks).2 with
      | error e => exact ⟨e, by rw [Op2.cont_error o _ _ e hres]⟩
      | ok s =>
        rw [Op2.cont_ok o _ _ s hres]
        rcases hc with hc | hc
        · obtain ⟨e, he⟩ := Plan.errHit_fin l hc
          obtain ⟨e', he'⟩ := Phase.run_error_of_noStop o.phL hnl e l.tr.chunks o.init
          rw [he] at hres; rw [he'] at hres; cases hres
        · obtain ⟨e, he⟩ := Plan.errHit_fin r hc
          obtain ⟨e', he'⟩ := Phase.run_error_of_noStop o.phR hnr e r.tr.chunks s
          exact ⟨e', by simp [he, he', finish]⟩
  | .mjoin ft o fuel l r, h => by
    obtain ⟨k, kd, hft, hk⟩ := h
    subst hft
    cases kd
    · exact ⟨0, by simp [Plan.tr, applyFault, hk]⟩
    · exact ⟨2, by simp [Plan.tr, applyFault, hk]⟩

/-! ### prefix monotonicity of streaming loops -/

/-- A loop fed a prefix of its input (however either input ends) has yielded a prefix of its output. -/
theorem Phase.run_outs_prefix (ph : Phase σ α) (fin fin0 : Option Nat) :
    ∀ (cs cs0 : List α) (s : σ), cs <+: cs0 → (ph.run fin s cs).1 <+: (ph.run fin0 s cs0).1 := by
  intro cs
  induction cs with
  | nil =>
    intro cs0 s _
    have : (ph.run fin s []).1 = [] := by
      cases fin with
      | none => simp [Phase.run]
      | some e => by_cases hb : ph.stopBefore s = true <;> simp [Phase.run, hb]
    rw [this]; exact List.nil_prefix
  | cons c cs ih =>
    intro cs0 s hp
    cases cs0 with
    | nil => simp at hp
    | cons c0 cs0 =>
      rw [List.cons_prefix_cons] at hp
      obtain ⟨hc, hp'⟩ := hp
      subst hc
      simp only [Phase.run]
      by_cases hb : ph.stopBefore s = true
      · simp [hb]
      · simp only [hb]
        cases hoc : ph.onChunk s c with
        | error e => simp
        | ok r =>
          obtain ⟨s', outs⟩ := r
          by_cases ha : ph.stopAfter s' = true
          · simp [ha]
          · simp only [ha]
            simpa using (List.prefix_append_right_inj outs).mpr (ih cs0 s' hp')

end Strm
end RlModel
