import RlModel.Lemmas.Kernel
/-! Slot-level facts: every kernel as `zipSlotM` of an explicit slot function, and the generic
"slot-wise kernel = row-wise scalar function" lemma. -/
namespace RlModel

/-- Generic pointwise lemma: if on every pair of slots that actually occurs the slot function
(followed by `post`) denotes the scalar function `spec` of the two SQL values, then the kernel
denotes the row-wise lifting of `spec` — for arrays of any length. -/
theorem zipSlotM_vals {α β γ δ} (g : Slot α → Slot β → KOut (Slot γ)) (post : Slot γ → Slot δ)
    (spec : Option α → Option β → KOut (Option δ)) (a : Arr α) (b : Arr β)
    (h : ∀ p ∈ List.zip a b, (g p.1 p.2).map (fun c => (post c).val) = spec p.1.val p.2.val) :
    ((zipSlotM g a b).map (List.map post)).map vals = rows2 spec (vals a) (vals b) := by
  induction a generalizing b with
  | nil => cases b <;> simp [zipSlotM, rows2, vals, KOut.map]
  | cons x xs ih =>
    cases b with
    | nil => simp [zipSlotM, rows2, vals, KOut.map]
    | cons y ys =>
      have hxy := h (x, y) (by simp)
      have ih' := ih ys (fun p hp => h p (by simp [hp]))
      simp only [zipSlotM, vals, List.map_cons, rows2] at ih' ⊢
      simp only at hxy
      rw [← hxy, ← ih']
      cases g x y <;> cases zipSlotM g xs ys <;> simp [KOut.map, vals]

theorem zipSlotM_vals' {α β γ} (g : Slot α → Slot β → KOut (Slot γ))
    (spec : Option α → Option β → KOut (Option γ)) (a : Arr α) (b : Arr β)
    (h : ∀ p ∈ List.zip a b, (g p.1 p.2).map Slot.val = spec p.1.val p.2.val) :
    (zipSlotM g a b).map vals = rows2 spec (vals a) (vals b) := by
  have := zipSlotM_vals g id spec a b (by simpa using h)
  rw [← this]
  cases zipSlotM g a b <;> simp [KOut.map]

/-! ### cmp -/

def cmpSlot {α} (f : α → α → Bool) (s t : Slot α) : Slot Bool :=
  ⟨s.valid && t.valid, f s.raw t.raw && (s.valid && t.valid)⟩

theorem cmpK_eq {α} (f : α → α → Bool) (a b : Arr α) :
    cmpK f a b = zipSlotM (fun s t => .ok (cmpSlot f s t)) a b := by
  unfold cmpK
  rw [binaryOp_eq_zipSlotM' _ a b (by intro x y h; cases h)]
  induction a generalizing b with
  | nil => cases b <;> simp [zipSlotM, KOut.map, clearNull]
  | cons x xs ih =>
    cases b with
    | nil => simp [zipSlotM, KOut.map]
    | cons y ys =>
      simp only [zipSlotM, binSlot, KOut.map]
      rw [← ih ys]
      cases zipSlotM (binSlot fun x y => KOut.ok (f x y)) xs ys <;>
        simp [KOut.map, clearNull, cmpSlot]

/-! ### and / or / not -/

def andSlot (s t : Slot Bool) : Slot Bool :=
  ⟨(s.valid && t.valid) || (!s.raw && s.valid) || (!t.raw && t.valid), s.raw && t.raw⟩

def orSlot (s t : Slot Bool) : Slot Bool :=
  ⟨(s.valid && t.valid) || (s.raw && s.valid) || (t.raw && t.valid),
    (s.raw || t.raw) && ((s.valid && t.valid) || (s.raw && s.valid) || (t.raw && t.valid))⟩

def notSlot (s : Slot Bool) : Slot Bool := ⟨s.valid, !s.raw && s.valid⟩

theorem orValid_raws (c : Arr Bool) :
    orValid c (raws c) = c.map fun s => ⟨s.valid || s.raw, s.raw⟩ := by
  induction c with
  | nil => simp [orValid, raws]
  | cons x xs ih => simp only [raws, List.map_cons, orValid] at ih ⊢; rw [ih]

theorem orK_eq (a b : Arr Bool) : orK a b = zipSlotM (fun s t => .ok (orSlot s t)) a b := by
  unfold orK
  rw [binaryOp_eq_zipSlotM' _ a b (by intro x y h; cases h)]
  induction a generalizing b with
  | nil => cases b <;> simp [zipSlotM, orValid, raws, valids, bvAnd, clearNull]
  | cons x xs ih =>
    cases b with
    | nil => simp [zipSlotM]
    | cons y ys =>
      simp only [zipSlotM, binSlot, KOut.map]
      rw [← ih ys]
      cases zipSlotM (binSlot fun x y => KOut.ok (x || y)) xs ys <;>
        simp [orValid, raws, valids, bvAnd, clearNull, orSlot, Bool.or_assoc]

theorem andK_eq (a b : Arr Bool) : andK a b = zipSlotM (fun s t => .ok (andSlot s t)) a b := by
  unfold andK
  rw [binaryOp_eq_zipSlotM' _ a b (by intro x y h; cases h)]
  induction a generalizing b with
  | nil => cases b <;> simp [zipSlotM, orValid, raws, valids, bvNotThenAnd]
  | cons x xs ih =>
    cases b with
    | nil => simp [zipSlotM]
    | cons y ys =>
      simp only [zipSlotM, binSlot, KOut.map]
      rw [← ih ys]
      cases zipSlotM (binSlot fun x y => KOut.ok (x && y)) xs ys <;>
        simp [orValid, raws, valids, bvNotThenAnd, andSlot, Bool.or_assoc]

theorem notK_eq (a : Arr Bool) : notK a = a.map notSlot := by
  simp [notK, clearNull, notSlot, Function.comp_def]

/-! ### select -/

def selSlot {α} (s : Slot Bool) (a b : Slot α) : Slot α :=
  ⟨((s.raw && s.valid) && a.valid) || (!(s.raw && s.valid) && b.valid),
    if (s.raw && s.valid) then a.raw else b.raw⟩

def zip3 {α} (f : Slot Bool → Slot α → Slot α → Slot α) : Arr Bool → Arr α → Arr α → Arr α
  | s :: ss, a :: as, b :: bs => f s a b :: zip3 f ss as bs
  | _, _, _ => []

theorem selectOp_eq {α} (s : Arr Bool) (a b : Arr α) (h1 : a.length = b.length)
    (h2 : s.length = a.length) : selectOp s a b = .ok (zip3 selSlot s a b) := by
  simp only [selectOp, h1, h2, ne_eq, not_true_eq_false, or_self, ite_false]
  congr 1
  induction s generalizing a b with
  | nil => simp [raws, valids, fromData, zip3, bvOr, bvAnd, bvNotThenAnd]
  | cons s0 ss ih =>
    cases a with
    | nil => simp at h2
    | cons a0 as =>
      cases b with
      | nil => simp at h1
      | cons b0 bs =>
        have := ih as bs (by simpa using h1) (by simpa using h2)
        simp only [raws, valids, List.map_cons, List.zip_cons_cons, bvAnd, bvNotThenAnd, bvOr,
          fromData, zip3] at this ⊢
        rw [this]
        simp [selSlot]

end RlModel
