import RlModel.Lemmas.Exec
import RlModel.Lemmas.ValOrder
/-! Runs of adjacent equal keys and sorted inputs: the lemmas behind `hashagg_eq_sortagg` and the
merge join (C11).  `LawfulCmp`, `rowCmp_lawful`, `rowCmp_antisymm` come from Lemmas/ValOrder.lean. -/
namespace RlModel
open List

/-! ### maximal runs of adjacent equal keys (what sort_agg and group_by_keys compute) -/

def runsAux {α K} [BEq K] (key : α → K) : List α → K → List α → List (K × List α)
  | [], k, acc => [(k, acc)]
  | x :: xs, k, acc => if k == key x then runsAux key xs k (acc ++ [x]) else (k, acc) :: runsAux key xs (key x) [x]

def runs {α K} [BEq K] (key : α → K) : List α → List (K × List α)
  | [] => []
  | x :: xs => runsAux key xs (key x) [x]

theorem runsAux_eq {α K} [BEq K] (key : α → K) (xs : List α) (k : K) (acc : List α) :
    runsAux key xs k acc =
      (k, acc ++ xs.takeWhile (fun x => k == key x)) :: runs key (xs.dropWhile (fun x => k == key x)) := by
  induction xs generalizing acc with
  | nil => simp [runsAux, runs]
  | cons x xs ih =>
    unfold runsAux
    by_cases h : k == key x
    · simp only [h, if_true, List.takeWhile_cons, List.dropWhile_cons]
      rw [ih]; simp
    · simp only [h, Bool.false_eq_true, if_false, List.takeWhile_cons, List.dropWhile_cons, List.append_nil]
      rfl

/-- in a list sorted by a lawful comparison whose `.eq` is `==`, the elements equal to the head
key form a prefix, and nothing after that prefix carries the key. -/
theorem sorted_filter_eq_takeWhile {α K} [BEq K] [LawfulBEq K] (key : α → K) (cmp : K → K → Ordering)
    (hc : LawfulCmp cmp) (heq : ∀ a b, cmp a b = .eq ↔ a = b)
    (k : K) (xs : List α) (hs : (k :: xs.map key).Pairwise (fun a b => cmp a b ≠ .gt)) :
    xs.filter (fun x => k == key x) = xs.takeWhile (fun x => k == key x) ∧
    ∀ y ∈ xs.dropWhile (fun x => k == key x), (k == key y) = false := by
  induction xs with
  | nil => simp
  | cons x xs ih =>
    rw [List.map_cons, List.pairwise_cons] at hs
    obtain ⟨hk, hrest⟩ := hs
    by_cases h : k == key x
    · have hs' : (k :: xs.map key).Pairwise (fun a b => cmp a b ≠ .gt) := by
        rw [List.pairwise_cons]
        exact ⟨fun b hb => hk b (List.mem_cons_of_mem _ hb), (List.pairwise_cons.mp hrest).2⟩
      obtain ⟨i1, i2⟩ := ih hs'
      simp only [List.filter_cons, h, if_true, List.takeWhile_cons, List.dropWhile_cons]
      exact ⟨by rw [i1], i2⟩
    · -- key x > k: nothing later equals k
      have hlt : cmp k (key x) = .lt := by
        have h1 := hk (key x) List.mem_cons_self
        cases hcmp : cmp k (key x) with
        | lt => rfl
        | eq => exact absurd (by rw [(heq _ _).mp hcmp]; exact BEq.rfl) h
        | gt => exact absurd hcmp h1
      have hnone : ∀ y ∈ x :: xs, (k == key y) = false := by
        intro y hy
        rcases List.mem_cons.mp hy with rfl | hy'
        · simpa using h
        · have hxy : cmp (key x) (key y) ≠ .gt := (List.pairwise_cons.mp hrest).1 (key y) (List.mem_map_of_mem hy')
          have : cmp k (key y) = .lt := hc.lt_of_lt_of_le hlt hxy
          cases hky : k == key y
          · rfl
          · rw [eq_of_beq hky, hc.refl] at this; cases this
      constructor
      · rw [List.filter_eq_nil_iff.mpr (fun y hy => by simp [hnone y hy])]
        simp [h]
      · simp only [List.dropWhile_cons, h, Bool.false_eq_true, if_false]
        exact hnone

theorem filter_dedup_prefix {K} [BEq K] [LawfulBEq K] (k : K) (pre rest : List K)
    (hpre : ∀ y ∈ pre, y = k) (hrest : ∀ y ∈ rest, (y == k) = false) :
    (dedup (pre ++ rest)).filter (fun y => !(y == k)) = dedup rest := by
  induction pre with
  | nil =>
    simp only [List.nil_append]
    rw [List.filter_eq_self]
    intro y hy
    simp [hrest y ((mem_dedup rest y).mp hy)]
  | cons p ps ih =>
    have hp : p = k := hpre p List.mem_cons_self
    subst hp
    simp only [List.cons_append, dedup, List.filter_cons, BEq.rfl, Bool.not_true, Bool.false_eq_true, if_false,
      List.filter_filter, Bool.and_self]
    exact ih (fun y hy => hpre y (List.mem_cons_of_mem _ hy))

theorem mem_takeWhile_imp' {α} (p : α → Bool) (xs : List α) (y : α) (h : y ∈ xs.takeWhile p) : p y = true := by
  induction xs with
  | nil => simp at h
  | cons x xs ih =>
    rw [List.takeWhile_cons] at h
    split at h
    · rcases List.mem_cons.mp h with rfl | h'
      · assumption
      · exact ih h'
    · simp at h

theorem takeWhile_append_dropWhile' {α} (p : α → Bool) (xs : List α) : xs.takeWhile p ++ xs.dropWhile p = xs :=
  List.takeWhile_append_dropWhile

/-- runs of a sorted list = groups: in first-occurrence (= sorted) order, each key with all its rows. -/
theorem runs_sorted {α K} [BEq K] [LawfulBEq K] (key : α → K) (cmp : K → K → Ordering)
    (hc : LawfulCmp cmp) (heq : ∀ a b, cmp a b = .eq ↔ a = b) :
    ∀ (n : Nat) (X : List α), X.length ≤ n → (X.map key).Pairwise (fun a b => cmp a b ≠ .gt) →
      runs key X = (dedup (X.map key)).map (fun k => (k, X.filter (fun x => key x == k))) := by
  intro n
  induction n with
  | zero =>
    intro X hn _
    have : X = [] := List.eq_nil_of_length_eq_zero (Nat.le_zero.mp hn)
    subst this; rfl
  | succ n ih =>
    intro X hn hs
    cases X with
    | nil => rfl
    | cons x xs =>
      have hs0 := hs
      rw [List.map_cons] at hs
      obtain ⟨f1, f2⟩ := sorted_filter_eq_takeWhile key cmp hc heq (key x) xs hs
      simp only [runs]
      rw [runsAux_eq]
      have hlen : (xs.dropWhile (fun y => key x == key y)).length ≤ n := by
        have := (List.dropWhile_sublist (fun y => key x == key y) (l := xs)).length_le
        simp only [List.length_cons] at hn; omega
      have hsd : ((xs.dropWhile (fun y => key x == key y)).map key).Pairwise (fun a b => cmp a b ≠ .gt) := by
        have hsx : (xs.map key).Pairwise (fun a b => cmp a b ≠ .gt) := (List.pairwise_cons.mp hs).2
        have hsub : (xs.dropWhile (fun y => key x == key y)).Sublist xs := List.dropWhile_sublist _
        exact (List.Pairwise.sublist (hsub.map key) hsx)
      rw [ih _ hlen hsd]
      -- keys
      have hsplit : xs.map key = (xs.takeWhile (fun y => key x == key y)).map key ++ (xs.dropWhile (fun y => key x == key y)).map key := by
        rw [← List.map_append, List.takeWhile_append_dropWhile]
      have hdd : (dedup (xs.map key)).filter (fun y => !(y == key x)) = dedup ((xs.dropWhile (fun y => key x == key y)).map key) := by
        rw [hsplit]
        apply filter_dedup_prefix
        · intro y hy
          obtain ⟨z, hz, rfl⟩ := List.mem_map.mp hy
          have := mem_takeWhile_imp' _ _ _ hz
          exact (eq_of_beq this).symm
        · intro y hy
          obtain ⟨z, hz, rfl⟩ := List.mem_map.mp hy
          have := f2 z hz
          cases h : key z == key x
          · rfl
          · rw [eq_of_beq h] at this; simp at this
      simp only [List.map_cons, dedup, hdd, List.filter_cons, BEq.rfl, if_true]
      congr 1
      · congr 2
        rw [← f1, List.singleton_append]
        congr 1
        apply List.filter_congr
        intro y _
        cases h : key x == key y
        · cases h2 : key y == key x
          · rfl
          · rw [eq_of_beq h2] at h; simp at h
        · rw [eq_of_beq h]; simp
      · apply List.map_congr_left
        intro k hk
        have hkx : (key x == k) = false := by
          have hm := (mem_dedup _ k).mp hk
          obtain ⟨z, hz, rfl⟩ := List.mem_map.mp hm
          exact f2 z hz
        simp only [hkx, Bool.false_eq_true, if_false]
        congr 1
        -- rows of key k in xs are those in the dropWhile part
        conv => rhs; rw [← List.takeWhile_append_dropWhile (p := fun y => key x == key y) (l := xs)]
        rw [List.filter_append]
        have : (xs.takeWhile (fun y => key x == key y)).filter (fun y => key y == k) = [] := by
          rw [List.filter_eq_nil_iff]
          intro y hy hyk
          have h1 := mem_takeWhile_imp' _ _ _ hy
          rw [eq_of_beq h1, eq_of_beq hyk] at hkx
          simp at hkx
        rw [this, List.nil_append]


theorem rowCmp_eq_iff (a b : Row) : rowCmp a b = .eq ↔ a = b :=
  ⟨rowCmp_antisymm, fun h => by rw [h]; exact rowCmp_refl b⟩

end RlModel
