import RlModel.Lemmas.Store
/-! Lemmas about manifest replay and bootstrap (Model/Store.lean), used by Thm/C03. -/
namespace RlModel

/-! ### `Manifest::replay` -/

def Rec.isMark : Rec → Bool
  | .begin | .end_ => true
  | _ => false

/-- outside a transaction with nothing buffered: the state every clean `append` leaves -/
def Closed (m : List Rec) : Prop :=
  (m.foldl RState.step {}).inTxn = false ∧ (m.foldl RState.step {}).buf = []

theorem foldl_rstate_inTxn (recs : List Rec) (h : ∀ r ∈ recs, r.isMark = false) :
    ∀ st : RState, st.inTxn = true →
    recs.foldl RState.step st = { st with buf := st.buf ++ recs } := by
  induction recs with
  | nil => intro st _; simp
  | cons r rs ih =>
    intro st hst
    have hr : r.isMark = false := h r (by simp)
    have hstep : st.step r = { st with buf := st.buf ++ [r] } := by
      cases r <;> simp_all [RState.step, Rec.isMark]
    rw [List.foldl_cons, hstep]
    have := ih (fun x hx => h x (by simp [hx])) { st with buf := st.buf ++ [r] } hst
    rw [this]
    simp [List.append_assoc]

/-- replaying a clean log extended by one appended transaction = the old operations followed by
the transaction's records -/
theorem replay_append_txn (m recs : List Rec) (hc : Closed m) (h : ∀ r ∈ recs, r.isMark = false) :
    replay (m ++ txn recs) = replay m ++ recs ∧ Closed (m ++ txn recs) := by
  obtain ⟨h1, h2⟩ := hc
  have key : (m ++ txn recs).foldl RState.step {} =
      { inTxn := false, buf := [], ops := (m.foldl RState.step {}).ops ++ recs } := by
    rw [List.foldl_append, txn]
    show List.foldl RState.step _ (Rec.begin :: (recs ++ [Rec.end_])) = _
    rw [List.foldl_cons, List.foldl_append]
    have hb : (m.foldl RState.step {}).step .begin = { (m.foldl RState.step {}) with inTxn := true } := rfl
    rw [hb, foldl_rstate_inTxn recs h _ rfl]
    simp [RState.step, h2]
  refine ⟨?_, ?_⟩
  · simp [replay, key]
  · simp [Closed, key]

theorem closed_init : Closed (txn []) := by simp [Closed, txn, RState.step]

/-! ### sets as duplicate-free lists -/

theorem nodup_setInsert {α} [BEq α] [LawfulBEq α] (x : α) (l : List α) (h : l.Nodup) : (setInsert x l).Nodup := by
  unfold setInsert
  split
  · exact h
  · rename_i hc
    rw [List.nodup_append]
    refine ⟨h, by simp, ?_⟩
    intro a ha b hb
    simp at hb; subst hb
    intro heq; subst heq
    exact hc (by simpa using ha)

theorem nodup_setRemove {α} [BEq α] (x : α) (l : List α) (h : l.Nodup) : (setRemove x l).Nodup :=
  h.filter _

theorem foldl_setInsert_nodup {α} [BEq α] [LawfulBEq α] : ∀ (l acc : List α),
    (acc ++ l).Nodup → l.foldl (fun a x => setInsert x a) acc = acc ++ l
  | [], acc, _ => by simp
  | x :: xs, acc, h => by
    have hx : acc.contains x = false := by
      rw [List.nodup_append] at h
      cases hc : acc.contains x with
      | false => rfl
      | true => exact absurd rfl (h.2.2 x (by simpa using hc) x (by simp))
    rw [List.foldl_cons, setInsert, hx]
    simp only [Bool.false_eq_true, if_false]
    rw [foldl_setInsert_nodup xs (acc ++ [x]) (by simpa [List.append_assoc] using h)]
    simp [List.append_assoc]

/-! ### bootstrap fold -/

theorem foldl_inv {β α} (P : β → Prop) (f : β → α → β) (hstep : ∀ b a, P b → P (f b a)) :
    ∀ (l : List α) (b : β), P b → P (l.foldl f b)
  | [], _, h => h
  | a :: l, b, h => foldl_inv P f hstep l (f b a) (hstep b a h)

/-- ids handed out after a reopen are above every live row-set / DV id -/
def Boot.Fresh (b : Boot) : Prop :=
  (∀ k ∈ b.rsOpen, k.2 < b.nextRs) ∧ (∀ k ∈ b.dvOpen, k.2.2 < b.nextDv) ∧ b.rsOpen.Nodup ∧ b.dvOpen.Nodup

theorem mem_setInsert {α} [BEq α] [LawfulBEq α] (x y : α) (l : List α) : y ∈ setInsert x l → y = x ∨ y ∈ l := by
  unfold setInsert
  split
  · exact Or.inr
  · intro h; simp at h; rcases h with h | h
    · exact Or.inr h
    · exact Or.inl h

theorem Boot.step_fresh (b : Boot) (r : Rec) (h : b.Fresh) : (b.step r).Fresh := by
  obtain ⟨h1, h2, h3, h4⟩ := h
  unfold Boot.step
  split
  · exact ⟨h1, h2, h3, h4⟩
  · cases r with
    | createTable d =>
      simp only
      split <;> exact ⟨h1, h2, h3, h4⟩
    | dropTable t =>
      simp only
      split <;> exact ⟨h1, h2, h3, h4⟩
    | addRowSet t rs =>
      refine ⟨?_, h2, nodup_setInsert _ _ h3, h4⟩
      intro k hk
      rcases mem_setInsert _ _ _ hk with rfl | hk
      · simp; omega
      · have := h1 k hk; simp; omega
    | delRowSet t rs =>
      refine ⟨?_, h2, nodup_setRemove _ _ h3, h4⟩
      intro k hk
      exact h1 k (List.mem_filter.mp hk).1
    | addDV t rs dv =>
      refine ⟨h1, ?_, h3, nodup_setInsert _ _ h4⟩
      intro k hk
      rcases mem_setInsert _ _ _ hk with rfl | hk
      · simp; omega
      · have := h2 k hk; simp; omega
    | delDV t rs dv =>
      refine ⟨h1, ?_, h3, nodup_setRemove _ _ h4⟩
      intro k hk
      exact h2 k (List.mem_filter.mp hk).1
    | begin => exact ⟨h1, h2, h3, h4⟩
    | end_ => exact ⟨h1, h2, h3, h4⟩

theorem bootFold_fresh (ops : List Rec) : (bootFold ops).Fresh :=
  foldl_inv Boot.Fresh Boot.step Boot.step_fresh ops {} ⟨by simp, by simp, by simp, by simp⟩

/-! ### the boot-time manifest rewrite replays to the same state -/

def Rec.isTab : Rec → Bool
  | .createTable _ | .dropTable _ => true
  | _ => false

/-- the part of the bootstrap state that table operations determine -/
def Boot.tabPart (b : Boot) : Catalog × List (Nat × TableDef) × List Rec × Option String :=
  (b.cat, b.tables, b.tableOps, b.failed)

/-- the part that row-set / DV records determine -/
def Boot.rsPart (b : Boot) : List (Nat × Nat) × List (Nat × Nat × Nat) := (b.rsOpen, b.dvOpen)

theorem Boot.step_nontab (b : Boot) (r : Rec) (h : r.isTab = false) : (b.step r).tabPart = b.tabPart := by
  unfold Boot.step
  split
  · rfl
  · cases r <;> simp_all [Rec.isTab, Boot.tabPart]

theorem Boot.step_tab_rs (b : Boot) (r : Rec) (h : r.isTab = true) : (b.step r).rsPart = b.rsPart := by
  unfold Boot.step
  split
  · rfl
  · cases r with
    | createTable d => simp only; split <;> rfl
    | dropTable t => simp only; split <;> rfl
    | _ => simp [Rec.isTab] at h

theorem Boot.step_tab_congr (b b' : Boot) (r : Rec) (h : b.tabPart = b'.tabPart) :
    (b.step r).tabPart = (b'.step r).tabPart := by
  simp only [Boot.tabPart, Prod.mk.injEq] at h
  obtain ⟨h1, h2, h3, h4⟩ := h
  unfold Boot.step
  rw [h4]
  split
  · simp [Boot.tabPart, h1, h2, h3, h4]
  · cases r with
    | createTable d =>
      simp only [h1]
      split <;> simp [Boot.tabPart, h2, h3]
    | dropTable t =>
      simp only [h2]
      split <;> simp [Boot.tabPart, h1, h3]
    | _ => simp [Boot.tabPart, h1, h2, h3, h4]

/-- table state after a boot fold only depends on the table operations in the log -/
theorem foldl_tabPart : ∀ (ops : List Rec) (b b' : Boot), b.tabPart = b'.tabPart →
    (ops.foldl Boot.step b).tabPart = ((ops.filter Rec.isTab).foldl Boot.step b').tabPart
  | [], _, _, h => h
  | r :: ops, b, b', h => by
    cases hr : r.isTab with
    | true =>
      simp only [List.foldl_cons, List.filter_cons, hr, if_true]
      exact foldl_tabPart ops _ _ (Boot.step_tab_congr b b' r h)
    | false =>
      simp only [List.foldl_cons, List.filter_cons, hr, Bool.false_eq_true, if_false]
      exact foldl_tabPart ops _ _ ((Boot.step_nontab b r hr).trans h)

theorem Boot.step_failed_sticky (b : Boot) (r : Rec) (h : b.failed.isSome) : b.step r = b := by
  unfold Boot.step; simp [h]

theorem foldl_failed_sticky : ∀ (ops : List Rec) (b : Boot), b.failed.isSome → ops.foldl Boot.step b = b
  | [], _, _ => rfl
  | r :: ops, b, h => by rw [List.foldl_cons, Boot.step_failed_sticky b r h]; exact foldl_failed_sticky ops b h

/-- `table_changeset` of a successful bootstrap = the table operations of the log, in order -/
theorem foldl_tableOps : ∀ (ops : List Rec) (b : Boot), (ops.foldl Boot.step b).failed = none →
    (ops.foldl Boot.step b).tableOps = b.tableOps ++ ops.filter Rec.isTab
  | [], _, _ => by simp
  | r :: ops, b, h => by
    rw [List.foldl_cons] at h ⊢
    have hb : (b.step r).failed = none := by
      cases hf : (b.step r).failed with
      | none => rfl
      | some w =>
        rw [foldl_failed_sticky ops _ (by simp [hf])] at h
        simp [hf] at h
    rw [foldl_tableOps ops _ h]
    have hbf : b.failed = none := by
      cases hf : b.failed with
      | none => rfl
      | some w => rw [Boot.step_failed_sticky b r (by simp [hf])] at hb; simp [hf] at hb
    cases hr : r.isTab with
    | false =>
      have := Boot.step_nontab b r hr
      simp only [Boot.tabPart, Prod.mk.injEq] at this
      simp [hr, this.2.2.1]
    | true =>
      have hstep : (b.step r).tableOps = b.tableOps ++ [r] := by
        unfold Boot.step at hb ⊢
        simp only [hbf, Option.isSome_none, Bool.false_eq_true, if_false] at hb ⊢
        cases r with
        | createTable d =>
          simp only at hb ⊢
          split <;> simp_all
        | dropTable t =>
          simp only at hb ⊢
          split <;> simp_all
        | _ => simp [Rec.isTab] at hr
      simp [hr, hstep, List.append_assoc]

theorem foldl_addRowSets : ∀ (ks : List (Nat × Nat)) (b : Boot), b.failed = none →
    let b' := (ks.map fun k => Rec.addRowSet k.1 k.2).foldl Boot.step b
    b'.tabPart = b.tabPart ∧ b'.dvOpen = b.dvOpen ∧ b'.nextDv = b.nextDv ∧
      b'.rsOpen = ks.foldl (fun a x => setInsert x a) b.rsOpen
  | [], _, _ => by simp
  | k :: ks, b, h => by
    have hs : b.step (Rec.addRowSet k.1 k.2) =
        { b with nextRs := max b.nextRs (k.2 + 1), rsOpen := setInsert (k.1, k.2) b.rsOpen } := by
      unfold Boot.step; simp [h]
    have ih := foldl_addRowSets ks (b.step (Rec.addRowSet k.1 k.2)) (by rw [hs]; exact h)
    simp only [List.map_cons, List.foldl_cons]
    rw [hs] at ih ⊢
    exact ⟨ih.1, ih.2.1, ih.2.2.1, ih.2.2.2⟩

theorem foldl_addDVs : ∀ (ks : List (Nat × Nat × Nat)) (b : Boot), b.failed = none →
    let b' := (ks.map fun k => Rec.addDV k.1 k.2.1 k.2.2).foldl Boot.step b
    b'.tabPart = b.tabPart ∧ b'.rsOpen = b.rsOpen ∧ b'.nextRs = b.nextRs ∧
      b'.dvOpen = ks.foldl (fun a x => setInsert x a) b.dvOpen
  | [], _, _ => by simp
  | k :: ks, b, h => by
    have hs : b.step (Rec.addDV k.1 k.2.1 k.2.2) =
        { b with nextDv := max b.nextDv (k.2.2 + 1), dvOpen := setInsert (k.1, k.2.1, k.2.2) b.dvOpen } := by
      unfold Boot.step; simp [h]
    have ih := foldl_addDVs ks (b.step (Rec.addDV k.1 k.2.1 k.2.2)) (by rw [hs]; exact h)
    simp only [List.map_cons, List.foldl_cons]
    rw [hs] at ih ⊢
    exact ⟨ih.1, ih.2.1, ih.2.2.1, ih.2.2.2⟩

theorem foldl_tab_rsPart : ∀ (ops : List Rec) (b : Boot), (∀ r ∈ ops, r.isTab = true) →
    (ops.foldl Boot.step b).rsPart = b.rsPart
  | [], _, _ => rfl
  | r :: ops, b, h => by
    rw [List.foldl_cons, foldl_tab_rsPart ops _ (fun x hx => h x (by simp [hx]))]
    exact Boot.step_tab_rs b r (h r (by simp))

/-- the records `bootstrap` writes into the compacted manifest -/
def rewriteOps (b : Boot) : List Rec :=
  b.rsOpen.map (fun k => Rec.addRowSet k.1 k.2) ++ b.dvOpen.map (fun k => Rec.addDV k.1 k.2.1 k.2.2) ++ b.tableOps

theorem filter_isTab_rewrite (ops : List Rec) (b : Boot) (hb : b = bootFold ops) (hf : b.failed = none) :
    (rewriteOps b).filter Rec.isTab = ops.filter Rec.isTab := by
  have ht : b.tableOps = ops.filter Rec.isTab := by
    subst hb
    have := foldl_tableOps ops {} hf
    simpa [bootFold] using this
  simp only [rewriteOps, List.filter_append, ht, List.filter_filter, Bool.and_self]
  have h1 : (b.rsOpen.map fun k => Rec.addRowSet k.1 k.2).filter Rec.isTab = [] := by
    rw [List.filter_eq_nil_iff]
    intro a ha
    obtain ⟨k, _, rfl⟩ := List.mem_map.mp ha
    simp [Rec.isTab]
  have h2 : (b.dvOpen.map fun k => Rec.addDV k.1 k.2.1 k.2.2).filter Rec.isTab = [] := by
    rw [List.filter_eq_nil_iff]
    intro a ha
    obtain ⟨k, _, rfl⟩ := List.mem_map.mp ha
    simp [Rec.isTab]
  rw [h1, h2]; simp

/-- **Replaying the compacted manifest yields the state that replaying the original gave**:
same catalog (same table ids), same tables, same live row-sets and DVs. -/
theorem bootFold_rewrite (ops : List Rec) (hf : (bootFold ops).failed = none) :
    let b := bootFold ops
    let b' := bootFold (rewriteOps b)
    b'.cat = b.cat ∧ b'.tables = b.tables ∧ b'.tableOps = b.tableOps ∧ b'.failed = none ∧
      b'.rsOpen = b.rsOpen ∧ b'.dvOpen = b.dvOpen := by
  intro b b'
  have hfresh := bootFold_fresh ops
  -- table part
  have e1 : b'.tabPart = ((rewriteOps b).filter Rec.isTab |>.foldl Boot.step {}).tabPart :=
    foldl_tabPart (rewriteOps b) {} {} rfl
  have e2 : b.tabPart = ((ops.filter Rec.isTab).foldl Boot.step {}).tabPart := foldl_tabPart ops {} {} rfl
  rw [filter_isTab_rewrite ops b rfl hf, ← e2] at e1
  simp only [Boot.tabPart, Prod.mk.injEq] at e1
  -- row-set / DV part
  have hA := foldl_addRowSets b.rsOpen {} rfl
  have hD := foldl_addDVs b.dvOpen ((b.rsOpen.map fun k => Rec.addRowSet k.1 k.2).foldl Boot.step {}) (by
    have := hA.1; simp only [Boot.tabPart, Prod.mk.injEq] at this; exact this.2.2.2)
  have hT := foldl_tab_rsPart b.tableOps
    ((b.dvOpen.map fun k => Rec.addDV k.1 k.2.1 k.2.2).foldl Boot.step
      ((b.rsOpen.map fun k => Rec.addRowSet k.1 k.2).foldl Boot.step {})) (by
    intro r hr
    have ht : b.tableOps = ops.filter Rec.isTab := by
      have := foldl_tableOps ops {} hf
      simpa [b, bootFold] using this
    rw [ht] at hr
    exact (List.mem_filter.mp hr).2)
  have hb' : b' = b.tableOps.foldl Boot.step
      ((b.dvOpen.map fun k => Rec.addDV k.1 k.2.1 k.2.2).foldl Boot.step
        ((b.rsOpen.map fun k => Rec.addRowSet k.1 k.2).foldl Boot.step {})) := by
    simp only [b', bootFold, rewriteOps, List.foldl_append]
  simp only [Boot.rsPart, Prod.mk.injEq] at hT
  refine ⟨e1.1, e1.2.1, e1.2.2.1, by rw [e1.2.2.2]; exact hf, ?_, ?_⟩
  · rw [hb', hT.1, hD.2.1, hA.2.2.2]
    have := foldl_setInsert_nodup b.rsOpen [] (by simpa using hfresh.2.2.1)
    simpa using this
  · rw [hb', hT.2, hD.2.2.2, hA.2.1]
    have := foldl_setInsert_nodup b.dvOpen [] (by simpa using hfresh.2.2.2)
    simpa using this

/-! ### reopening -/

theorem lookup_filter {α β} [BEq α] [LawfulBEq α] (q : α → Bool) (k : α) (hq : q k = true) :
    ∀ l : List (α × β), lookup k (l.filter fun x => q x.1) = lookup k l
  | [] => rfl
  | (a, b) :: l => by
    rw [List.filter_cons]
    by_cases hak : (a == k) = true
    · have : a = k := by simpa using hak
      subst this
      simp [hq, lookup]
    · split
      · simp [lookup, hak, lookup_filter q k hq l]
      · simp [lookup, hak, lookup_filter q k hq l]

theorem sortDedup_idem_of_pairwise : ∀ l : List Nat, l.Pairwise (· < ·) → sortDedup l = l
  | [], _ => rfl
  | x :: xs, h => by
    have hc := List.pairwise_cons.mp h
    rw [sortDedup, sortDedup_idem_of_pairwise xs hc.2]
    cases xs with
    | nil => rfl
    | cons y ys =>
      have : x < y := hc.1 y (by simp)
      simp [insertNat, this]

theorem sortDedup_idem (l : List Nat) : sortDedup (sortDedup l) = sortDedup l :=
  sortDedup_idem_of_pairwise _ (pairwise_sortDedup l)

theorem openDvs_eq (files : List ((Nat × Nat × Nat) × List Nat)) : ∀ (dvs : List DvE),
    (∀ e ∈ dvs, ∃ raw, lookup e.key files = some raw ∧ sortDedup raw = e.dead) →
    openDvs files (dvs.map DvE.key) = some dvs
  | [], _ => rfl
  | e :: dvs, h => by
    obtain ⟨raw, h1, h2⟩ := h e (by simp)
    have ih := openDvs_eq files dvs (fun x hx => h x (by simp [hx]))
    simp only [List.map_cons, openDvs, h1, ih, h2]
    cases e; rfl

theorem openDvs_spec (files : List ((Nat × Nat × Nat) × List Nat)) : ∀ (ks : List (Nat × Nat × Nat)) (dvs : List DvE),
    openDvs files ks = some dvs →
    dvs.map DvE.key = ks ∧ ∀ e ∈ dvs, (∃ raw, lookup e.key files = some raw ∧ e.dead = sortDedup raw)
  | [], dvs, h => by simp [openDvs] at h; subst h; simp
  | k :: ks, dvs, h => by
    simp only [openDvs] at h
    split at h
    · rename_i dead rest h1 h2
      simp at h; subst h
      have ih := openDvs_spec files ks rest h2
      refine ⟨by simp [DvE.key, ih.1], ?_⟩
      intro e he
      cases he with
      | head => exact ⟨dead, by simpa [DvE.key] using h1, rfl⟩
      | tail _ he => exact ih.2 e he
    · simp at h

/-- what `Store.reopen` needs to find on disk in order to come back with the same state -/
structure ReopenHyp (s : Store) : Prop where
  ok : (bootFold (replay s.manifest)).failed = none
  cat : (bootFold (replay s.manifest)).cat.entries = s.cat.entries
  tables : (bootFold (replay s.manifest)).tables = s.tables
  rs : (bootFold (replay s.manifest)).rsOpen = s.rowsets
  dv : (bootFold (replay s.manifest)).dvOpen = s.dvs.map DvE.key
  dirs : ∀ k ∈ s.rowsets, (lookup k s.dirs).isSome
  rsTables : ∀ k ∈ s.rowsets, (lookup k.1 s.tables).isSome
  dvTables : ∀ e ∈ s.dvs, (lookup e.tid s.tables).isSome
  dvFiles : ∀ e ∈ s.dvs, ∃ raw, lookup e.key s.dvFiles = some raw ∧ sortDedup raw = e.dead

theorem any_false_of_forall {α} (l : List α) (q : α → Bool) (h : ∀ x ∈ l, q x = false) : l.any q = false := by
  rw [List.any_eq_false]; intro x hx; simp [h x hx]

theorem flatMap_congr' {α β} (f g : α → List β) : ∀ (l : List α), (∀ x ∈ l, f x = g x) → l.flatMap f = l.flatMap g
  | [], _ => rfl
  | x :: l, h => by
    simp only [List.flatMap_cons, h x (by simp), flatMap_congr' f g l (fun y hy => h y (by simp [hy]))]

theorem abs_congr (s s' : Store) (h1 : s'.cat.entries = s.cat.entries) (h2 : s'.tables = s.tables)
    (h3 : s'.rowsets = s.rowsets) (h4 : s'.dvs = s.dvs)
    (h5 : ∀ k ∈ s.rowsets, lookup k s'.dirs = lookup k s.dirs) (n : String) : s'.abs n = s.abs n := by
  have hid : s'.tableId? n = s.tableId? n := by simp [Store.tableId?, Catalog.find?, h1]
  unfold Store.abs
  rw [hid, h2]
  cases s.tableId? n with
  | none => rfl
  | some tid =>
    simp only
    cases lookup tid s.tables with
    | none => rfl
    | some d =>
      simp only [Option.some.injEq, Prod.mk.injEq, true_and]
      unfold Store.scan
      have hr : s'.rowsetsOf tid = s.rowsetsOf tid := by simp [Store.rowsetsOf, h3]
      rw [hr]
      apply flatMap_congr'
      intro rs hrs
      have hmem : (tid, rs) ∈ s.rowsets := by
        simp only [Store.rowsetsOf, List.mem_map, List.mem_filter] at hrs
        obtain ⟨k, ⟨hk, ht⟩, rfl⟩ := hrs
        have : k.1 = tid := by simpa using ht
        subst this; exact hk
      simp [Store.rsVisible, Store.dvsOf, Store.dirRows, h4, h5 _ hmem]

/-- **A clean reopen gives back the same tables** whenever the log replays to the live state and
the files it names are there. -/
theorem reopen_of_hyp (s : Store) (h : ReopenHyp s) :
    ∃ s', s.reopen = .ok s' ∧ (∀ n, s'.abs n = s.abs n) ∧
      s'.tables = s.tables ∧ s'.rowsets = s.rowsets ∧ s'.dvs = s.dvs := by
  have hdirs : ∀ k ∈ s.rowsets, lookup k (s.dirs.filter fun x => s.rowsets.contains x.1) = lookup k s.dirs :=
    fun k hk => lookup_filter (fun a => s.rowsets.contains a) k (by simpa using hk) s.dirs
  have a1 : (s.rowsets.any fun k => (lookup k.1 s.tables).isNone) = false :=
    any_false_of_forall _ _ fun k hk => by
      have := h.rsTables k hk
      cases hl : lookup k.1 s.tables <;> simp_all
  have a2 : (s.rowsets.any fun k => (lookup k (s.dirs.filter fun x => s.rowsets.contains x.1)).isNone) = false :=
    any_false_of_forall _ _ fun k hk => by
      rw [hdirs k hk]
      have := h.dirs k hk
      cases hl : lookup k s.dirs <;> simp_all
  have a3 : ((s.dvs.map DvE.key).any fun k => (lookup k.1 s.tables).isNone) = false :=
    any_false_of_forall _ _ fun k hk => by
      obtain ⟨e, he, rfl⟩ := List.mem_map.mp hk
      have := h.dvTables e he
      cases hl : lookup e.key.1 s.tables <;> simp_all [DvE.key]
  unfold Store.reopen
  simp only [h.ok, h.rs, h.tables, h.dv, a1, a2, a3, Bool.false_eq_true, if_false,
    openDvs_eq s.dvFiles s.dvs h.dvFiles]
  refine ⟨_, rfl, ?_, rfl, rfl, rfl⟩
  intro n
  apply abs_congr
  · exact h.cat
  · rfl
  · rfl
  · rfl
  · exact hdirs

theorem any_false_forall {α} (l : List α) (q : α → Bool) (h : l.any q = false) : ∀ x ∈ l, q x = false := by
  rw [List.any_eq_false] at h; intro x hx; simpa using h x hx

theorem replay_txn (recs : List Rec) (h : ∀ r ∈ recs, r.isMark = false) : replay (txn recs) = recs := by
  have := (replay_append_txn [] recs (by simp [Closed]) h).1
  simpa [replay] using this

theorem rewriteOps_noMarks (ops : List Rec) (hf : (bootFold ops).failed = none) :
    ∀ r ∈ rewriteOps (bootFold ops), r.isMark = false := by
  intro r hr
  simp only [rewriteOps, List.mem_append, List.mem_map] at hr
  rcases hr with (⟨k, _, rfl⟩ | ⟨k, _, rfl⟩) | hr
  · rfl
  · rfl
  · have ht : (bootFold ops).tableOps = ops.filter Rec.isTab := by
      have := foldl_tableOps ops {} hf
      simpa [bootFold] using this
    rw [ht] at hr
    have := (List.mem_filter.mp hr).2
    cases r <;> simp_all [Rec.isTab, Rec.isMark]

/-- whatever directory a successful open found, the state it leaves can be reopened -/
theorem reopenHyp_of_reopen (s s' : Store) (h : s.reopen = .ok s') : ReopenHyp s' := by
  unfold Store.reopen at h
  generalize hb : bootFold (replay s.manifest) = b at h
  simp only at h
  split at h
  · simp at h
  · rename_i hfail
    split at h
    · simp at h
    · rename_i c1
      split at h
      · simp at h
      · rename_i c2
        split at h
        · simp at h
        · rename_i c3
          split at h
          · simp at h
          · rename_i dvs hdv
            simp only [Opened.ok.injEq] at h
            subst h
            have hf : (bootFold (replay s.manifest)).failed = none := by rw [hb]; exact hfail
            have hrw := bootFold_rewrite (replay s.manifest) hf
            simp only [hb] at hrw
            have hnm := rewriteOps_noMarks (replay s.manifest) hf
            rw [hb] at hnm
            have hrep : replay (txn (rewriteOps b)) = rewriteOps b := replay_txn _ hnm
            have hsp := openDvs_spec s.dvFiles b.dvOpen dvs hdv
            have hman : replay (txn (List.map (fun k => Rec.addRowSet k.fst k.snd) b.rsOpen ++
                List.map (fun k => Rec.addDV k.fst k.snd.fst k.snd.snd) b.dvOpen ++ b.tableOps)) = rewriteOps b := hrep
            constructor
            · simp only [hman]; exact hrw.2.2.2.1
            · simp only [hman]; rw [hrw.1]
            · simp only [hman]; exact hrw.2.1
            · simp only [hman]; exact hrw.2.2.2.2.1
            · simp only [hman]; rw [hrw.2.2.2.2.2, hsp.1]
            · intro k hk
              have := any_false_forall _ _ (Bool.eq_false_iff.mpr c2) k hk
              cases hl : lookup k (List.filter (fun x => b.rsOpen.contains x.fst) s.dirs) with
              | none => rw [hl] at this; simp at this
              | some v => simp
            · intro k hk
              have := any_false_forall _ _ (Bool.eq_false_iff.mpr c1) k hk
              cases hl : lookup k.1 b.tables with
              | none => rw [hl] at this; simp at this
              | some v => simp
            · intro e he
              have hk : e.key ∈ b.dvOpen := by rw [← hsp.1]; exact List.mem_map_of_mem he
              have := any_false_forall _ _ (Bool.eq_false_iff.mpr c3) e.key hk
              cases hl : lookup e.tid b.tables with
              | none => simp only [DvE.key] at this; rw [hl] at this; simp at this
              | some v => simp
            · intro e he
              obtain ⟨raw, h1, h2⟩ := hsp.2 e he
              have hk : e.key ∈ b.dvOpen := by rw [← hsp.1]; exact List.mem_map_of_mem he
              refine ⟨raw, ?_, h2.symm⟩
              show lookup e.key (s.dvFiles.filter fun x => b.dvOpen.contains x.1) = some raw
              rw [lookup_filter (fun a => b.dvOpen.contains a) e.key (by simpa using hk)]
              exact h1

end RlModel
