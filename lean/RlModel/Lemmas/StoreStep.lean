import RlModel.Lemmas.StoreBoot
/-! Step lemmas of the disk model: how INSERT / DELETE / compaction / vacuum change `scan`. -/
namespace RlModel

theorem lookup_append {α β} [BEq α] (k : α) : ∀ (a b : List (α × β)),
    lookup k (a ++ b) = match lookup k a with | some v => some v | none => lookup k b
  | [], b => by simp [lookup]
  | (x, y) :: a, b => by
    simp only [List.cons_append, lookup]
    split
    · rfl
    · exact lookup_append k a b

theorem lookup_none_of_forall {α β} [BEq α] [LawfulBEq α] (k : α) : ∀ (l : List (α × β)),
    (∀ x ∈ l, x.1 ≠ k) → lookup k l = none
  | [], _ => rfl
  | (x, y) :: l, h => by
    have hx : (x == k) = false := by
      have := h (x, y) (by simp); simpa using this
    simp [lookup, hx, lookup_none_of_forall k l (fun z hz => h z (by simp [hz]))]

/-- the invariants of a store between statements that the step lemmas need -/
structure Wf (s : Store) : Prop where
  dirs : ∀ x ∈ s.dirs, x.1.2 < s.nextRs
  rs : ∀ k ∈ s.rowsets, k.2 < s.nextRs
  dv : ∀ e ∈ s.dvs, e.rs < s.nextRs
  pend : ∀ k ∈ s.pending, k ∉ s.rowsets ∧ k.2 < s.nextRs

theorem wf_init : Wf Store.init := ⟨by simp [Store.init], by simp [Store.init], by simp [Store.init], by simp [Store.init]⟩

theorem deadIn_nil : deadIn [] = fun _ => false := by funext i; simp [deadIn]

theorem mem_rowsetsOf {s : Store} {tid rs : Nat} : rs ∈ s.rowsetsOf tid ↔ (tid, rs) ∈ s.rowsets := by
  simp only [Store.rowsetsOf, List.mem_map, List.mem_filter]
  constructor
  · rintro ⟨k, ⟨hk, ht⟩, rfl⟩
    have : k.1 = tid := by simpa using ht
    subst this; exact hk
  · intro h; exact ⟨(tid, rs), ⟨h, by simp⟩, rfl⟩

/-- `scan` only depends on the row-set list of the table, the DVs and the directory contents of
those row-sets -/
theorem scan_congr (s s' : Store) (tid : Nat) (h1 : s'.rowsetsOf tid = s.rowsetsOf tid)
    (h2 : s'.dvs = s.dvs) (h3 : ∀ rs, (tid, rs) ∈ s.rowsets → lookup (tid, rs) s'.dirs = lookup (tid, rs) s.dirs) :
    s'.scan tid = s.scan tid := by
  unfold Store.scan
  rw [h1]
  apply flatMap_congr'
  intro rs hrs
  simp [Store.rsVisible, Store.dvsOf, Store.dirRows, h2, h3 rs (mem_rowsetsOf.mp hrs)]

/-! ### INSERT -/

theorem flushDirs_keys (d : TableDef) (tid : Nat) : ∀ (parts : List (List Row)) (next : Nat),
    ∀ x ∈ flushDirs d tid parts next, x.1.1 = tid ∧ next ≤ x.1.2 ∧ x.1.2 < next + parts.length
  | [], _, x, h => by simp [flushDirs] at h
  | p :: ps, next, x, h => by
    simp only [flushDirs, List.mem_cons] at h
    rcases h with rfl | h
    · simp
    · have := flushDirs_keys d tid ps (next + 1) x h
      simp only [List.length_cons]; omega

/-- reading the fresh row-sets back: each holds its part -/
theorem flushDirs_read (d : TableDef) (tid : Nat) : ∀ (parts : List (List Row)) (next : Nat)
    (dirs : List ((Nat × Nat) × List Row)), (∀ x ∈ dirs, x.1.2 < next) →
    ((flushDirs d tid parts next).map (·.1.2)).flatMap
        (fun rs => (lookup (tid, rs) (dirs ++ flushDirs d tid parts next)).getD [])
      = parts.flatMap (memFlush d)
  | [], _, _, _ => by simp [flushDirs]
  | p :: ps, next, dirs, h => by
    have hnone : lookup (tid, next) dirs = none :=
      lookup_none_of_forall _ _ (fun x hx heq => by have := h x hx; rw [heq] at this; simp at this)
    have ih := flushDirs_read d tid ps (next + 1) (dirs ++ [((tid, next), memFlush d p)]) (by
      intro x hx
      rcases List.mem_append.mp hx with hx | hx
      · have := h x hx; omega
      · simp at hx; subst hx; simp)
    simp only [flushDirs, List.map_cons, List.flatMap_cons]
    congr 1
    · rw [lookup_append, hnone]; simp [lookup]
    · rw [← ih]
      apply flatMap_congr'
      intro rs _
      simp [List.append_assoc]

theorem perm_flatMap_memFlush (d : TableDef) : ∀ parts : List (List Row),
    (parts.flatMap (memFlush d)).Perm (parts.flatten.map (storeRow d.cols))
  | [] => by simp
  | p :: ps => by
    simp only [List.flatMap_cons, List.flatten_cons, List.map_append]
    refine List.Perm.append ?_ (perm_flatMap_memFlush d ps)
    unfold memFlush
    split
    · exact List.Perm.refl _
    · exact sortStable_perm _ _

theorem storeRow_of_noNull : ∀ (cols : List ColDesc) (r : Row), noNullIn cols r = true → storeRow cols r = r
  | [], _, _ => by simp [storeRow]
  | _ :: _, [], _ => by simp [storeRow]
  | c :: cs, v :: vs, h => by
    simp only [noNullIn, Bool.and_eq_true, Bool.not_eq_true'] at h
    simp only [storeRow, h.1, Bool.false_eq_true, if_false, storeRow_of_noNull cs vs h.2]

theorem map_storeRow_of_ok (d : TableDef) (rows : List Row) (h : rowsOk d rows = true) :
    rows.map (storeRow d.cols) = rows := by
  induction rows with
  | nil => rfl
  | cons r rs ih =>
    simp only [rowsOk, List.all_cons, Bool.and_eq_true] at h
    simp only [List.map_cons, storeRow_of_noNull _ _ h.1]
    congr 1
    exact ih h.2

/-- an INSERT that violates NOT NULL is rejected and changes nothing -/
theorem insert_rejected (s : Store) (n : String) (parts : List (List Row)) (tid : Nat) (d : TableDef)
    (h1 : s.tableId? n = some tid) (h2 : lookup tid s.tables = some d) (hok : rowsOk d parts.flatten = false) :
    s.insert n parts = (s, .err "not-null") := by
  simp [Store.insert, h1, h2, hok]

/-- **INSERT adds exactly its rows** to its table and nothing to any other, for any partition into
row-sets (`hok`: the statement passed the NOT NULL check - otherwise `insert_rejected`). -/
theorem insert_scan (s : Store) (wf : Wf s) (n : String) (parts : List (List Row)) (tid : Nat) (d : TableDef)
    (h1 : s.tableId? n = some tid) (h2 : lookup tid s.tables = some d) (hok : rowsOk d parts.flatten = true) :
    let s' := (s.insert n parts).1
    Wf s' ∧ s'.cat = s.cat ∧ s'.tables = s.tables ∧ (s.insert n parts).2 = .ok parts.flatten.length ∧
    (s'.scan tid).Perm (s.scan tid ++ parts.flatten) ∧
    ∀ t, t ≠ tid → s'.scan t = s.scan t := by
  have hkeys := flushDirs_keys d tid parts s.nextRs
  have hmapid := map_storeRow_of_ok d parts.flatten hok
  suffices hraw : (let s' := (s.insert n parts).1
      Wf s' ∧ s'.cat = s.cat ∧ s'.tables = s.tables ∧ (s.insert n parts).2 = .ok parts.flatten.length ∧
      (s'.scan tid).Perm (s.scan tid ++ parts.flatten.map (storeRow d.cols)) ∧
      ∀ t, t ≠ tid → s'.scan t = s.scan t) by
    rw [hmapid] at hraw; exact hraw
  simp only [Store.insert, h1, h2, hok, Bool.not_true, Bool.false_eq_true, if_false]
  refine ⟨?_, rfl, rfl, ?_, ?_, ?_⟩
  · constructor
    · intro x hx
      rcases List.mem_append.mp hx with hx | hx
      · have := wf.dirs x hx; simp only [Store.commit]; omega
      · exact (hkeys x hx).2.2
    · intro k hk
      rcases List.mem_append.mp hk with hk | hk
      · have := wf.rs k hk; simp only [Store.commit]; omega
      · obtain ⟨x, hx, rfl⟩ := List.mem_map.mp hk
        exact (hkeys x hx).2.2
    · intro e he
      have := wf.dv e he; simp only [Store.commit] at he ⊢; omega
    · intro k hk
      have := wf.pend k hk
      refine ⟨?_, by simp only [Store.commit]; omega⟩
      intro hmem
      rcases List.mem_append.mp hmem with hmem | hmem
      · exact this.1 hmem
      · obtain ⟨x, hx, rfl⟩ := List.mem_map.mp hmem
        have := (hkeys x hx).2.1; omega
  · simp [List.length_flatten]
  · -- the table itself
    have hro : ∀ s0 : Store, (s0.rowsets = s.rowsets ++ (flushDirs d tid parts s.nextRs).map (·.1)) →
        s0.rowsetsOf tid = s.rowsetsOf tid ++ (flushDirs d tid parts s.nextRs).map (·.1.2) := by
      intro s0 h0
      simp only [Store.rowsetsOf, h0, List.filter_append, List.map_append]
      congr 1
      have : ((flushDirs d tid parts s.nextRs).map (·.1)).filter (fun x => x.1 == tid) = (flushDirs d tid parts s.nextRs).map (·.1) := by
        rw [List.filter_eq_self]
        intro k hk
        obtain ⟨x, hx, rfl⟩ := List.mem_map.mp hk
        simp [(hkeys x hx).1]
      rw [this, List.map_map]; rfl
    unfold Store.scan
    rw [hro _ rfl, List.flatMap_append]
    refine List.Perm.append ?_ ?_
    · apply List.Perm.of_eq
      apply flatMap_congr'
      intro rs hrs
      have hlt := wf.rs _ (mem_rowsetsOf.mp hrs)
      have hnew : lookup (tid, rs) (flushDirs d tid parts s.nextRs) = none :=
        lookup_none_of_forall _ _ (fun x hx heq => by
          have := (hkeys x hx).2.1; rw [heq] at this; simp at this; simp at hlt; omega)
      simp only [Store.rsVisible, Store.dvsOf, Store.dirRows, Store.commit, lookup_append, hnew]
      cases lookup (tid, rs) s.dirs <;> rfl
    · refine List.Perm.trans (List.Perm.of_eq ?_) (perm_flatMap_memFlush d parts)
      rw [← flushDirs_read d tid parts s.nextRs s.dirs wf.dirs]
      apply flatMap_congr'
      intro rs hrs
      obtain ⟨x, hx, rfl⟩ := List.mem_map.mp hrs
      have hk := hkeys x hx
      have hdv : (s.dvs.filter fun e => e.tid == tid && e.rs == x.1.2) = [] := by
        rw [List.filter_eq_nil_iff]
        intro e he
        have := wf.dv e he
        simp; intro _; omega
      simp only [Store.rsVisible, Store.dvsOf, Store.dirRows, Store.commit, hdv, List.map_nil, deadIn_nil,
        visFrom_false]
  · intro t ht
    apply scan_congr
    · simp only [Store.rowsetsOf, List.filter_append, List.map_append]
      have : ((flushDirs d tid parts s.nextRs).map (·.1)).filter (fun x => x.1 == t) = [] := by
        rw [List.filter_eq_nil_iff]
        intro k hk
        obtain ⟨x, hx, rfl⟩ := List.mem_map.mp hk
        simp [(hkeys x hx).1]; exact fun h => ht h.symm
      simp [this]
    · rfl
    · intro rs hrs
      have hnew : lookup (t, rs) (flushDirs d tid parts s.nextRs) = none :=
        lookup_none_of_forall _ _ (fun x hx heq => by
          have := (hkeys x hx).1; rw [heq] at this; exact ht this)
      simp only [lookup_append, hnew]
      cases lookup (t, rs) s.dirs <;> rfl

/-! ### DELETE -/

theorem mkDvs_mem (tid : Nat) : ∀ (hits : List (Nat × List Nat)) (next : Nat), ∀ e ∈ mkDvs tid hits next,
    e.tid = tid ∧ ∃ h ∈ hits, e.rs = h.1
  | [], _, e, he => by simp [mkDvs] at he
  | (rs, ids) :: rest, next, e, he => by
    simp only [mkDvs] at he
    split at he
    · obtain ⟨h1, h, hh, h2⟩ := mkDvs_mem tid rest next e he
      exact ⟨h1, h, by simp [hh], h2⟩
    · cases he with
      | head => exact ⟨rfl, (rs, ids), by simp, rfl⟩
      | tail _ he =>
        obtain ⟨h1, h, hh, h2⟩ := mkDvs_mem tid rest (next + 1) e he
        exact ⟨h1, h, by simp [hh], h2⟩

theorem deadIn_append (a b : List (List Nat)) (i : Nat) : deadIn (a ++ b) i = (deadIn a i || deadIn b i) := by
  simp [deadIn, List.any_append]

theorem deadIn_mkDvs (tid rs i : Nat) : ∀ (hits : List (Nat × List Nat)) (next : Nat),
    deadIn (((mkDvs tid hits next).filter fun e => e.tid == tid && e.rs == rs).map (·.dead)) i
      = hits.any fun h => h.1 == rs && h.2.contains i
  | [], _ => by simp [mkDvs, deadIn]
  | (rs', ids) :: rest, next => by
    simp only [mkDvs]
    split
    · rename_i hemp
      have : ids = [] := by simpa using hemp
      subst this
      simp [deadIn_mkDvs tid rs i rest next]
    · simp only [List.filter_cons, List.any_cons]
      by_cases hr : rs' = rs
      · subst hr
        simp only [BEq.rfl, Bool.and_self, if_true, List.map_cons, Bool.true_and]
        have : deadIn (sortDedup ids :: ((mkDvs tid rest (next + 1)).filter fun e => e.tid == tid && e.rs == rs').map (·.dead)) i
            = (ids.contains i || deadIn (((mkDvs tid rest (next + 1)).filter fun e => e.tid == tid && e.rs == rs').map (·.dead)) i) := by
          simp [deadIn, mem_sortDedup]
        rw [this, deadIn_mkDvs tid rs' i rest (next + 1)]
      · have h1 : (rs' == rs) = false := by simpa using hr
        simp only [h1, Bool.and_false, Bool.false_eq_true, if_false, Bool.false_and, Bool.false_or]
        exact deadIn_mkDvs tid rs i rest (next + 1)

theorem length_filter_flatMap {α β} (f : α → List β) (p : β → Bool) : ∀ l : List α,
    ((l.flatMap f).filter p).length = (l.map fun x => ((f x).filter p).length).sum
  | [] => rfl
  | x :: l => by simp [List.flatMap_cons, List.filter_append, length_filter_flatMap f p l]

theorem filter_flatMap' {α β} (f : α → List β) (p : β → Bool) : ∀ l : List α,
    (l.flatMap f).filter p = l.flatMap fun x => (f x).filter p
  | [] => rfl
  | x :: l => by simp [List.flatMap_cons, List.filter_append, filter_flatMap' f p l]

def delHits (s : Store) (tid : Nat) (p : Row → Bool) : List (Nat × List Nat) :=
  (s.rowsetsOf tid).map fun rs => (rs, hitsOf (deadIn (s.dvsOf tid rs)) p 0 (s.dirRows tid rs))

theorem delete_fields (s : Store) (n : String) (p : Row → Bool) (tid : Nat) (h1 : s.tableId? n = some tid) :
    let s' := (s.delete n p).1
    s'.cat = s.cat ∧ s'.tables = s.tables ∧ s'.rowsets = s.rowsets ∧ s'.dirs = s.dirs ∧
    s'.pending = s.pending ∧ s'.nextRs = s.nextRs ∧
    s'.dvs = s.dvs ++ mkDvs tid (delHits s tid p) s.nextDv ∧
    (s.delete n p).2 = .ok ((delHits s tid p).map (·.2.length)).sum := by
  simp only [Store.delete, h1, Store.commit, true_and]
  exact ⟨rfl, rfl⟩

theorem rsVisible_eq (s s' : Store) (tid rs : Nat) (hd : s'.dirs = s.dirs) (extra : List DvE)
    (hv : s'.dvs = s.dvs ++ extra) :
    s'.rsVisible tid rs = visFrom (fun i => deadIn (s.dvsOf tid rs) i ||
        deadIn ((extra.filter fun e => e.tid == tid && e.rs == rs).map (·.dead)) i) 0 (s.dirRows tid rs) := by
  simp only [Store.rsVisible, Store.dirRows, Store.dvsOf, hd, hv, List.filter_append, List.map_append]
  apply visFrom_congr
  intro i _
  exact deadIn_append _ _ i

theorem any_hits (s : Store) (tid : Nat) (p : Row → Bool) (rs i : Nat) : ∀ R : List Nat, rs ∈ R →
    ((R.map fun r => (r, hitsOf (deadIn (s.dvsOf tid r)) p 0 (s.dirRows tid r))).any
        fun h => h.1 == rs && h.2.contains i)
      = (hitsOf (deadIn (s.dvsOf tid rs)) p 0 (s.dirRows tid rs)).contains i
  | [], h => by simp at h
  | r :: R, hmemR => by
    simp only [List.map_cons, List.any_cons]
    by_cases hr : r = rs
    · subst hr
      simp only [BEq.rfl, Bool.true_and]
      by_cases hin : r ∈ R
      · rw [any_hits s tid p r i R hin]; simp
      · have : ((R.map fun r => (r, hitsOf (deadIn (s.dvsOf tid r)) p 0 (s.dirRows tid r))).any
            fun h => h.1 == r && h.2.contains i) = false := by
          rw [List.any_eq_false]
          intro x hx
          obtain ⟨y, hy, rfl⟩ := List.mem_map.mp hx
          have : y ≠ r := fun h => hin (h ▸ hy)
          simp [this]
        rw [this]; simp
    · have h1 : (r == rs) = false := by simpa using hr
      simp only [h1, Bool.false_and, Bool.false_or]
      have : rs ∈ R := by
        cases hmemR with
        | head => exact absurd rfl hr
        | tail _ h => exact h
      exact any_hits s tid p rs i R this

/-- **DELETE is exact**: its table loses exactly the rows that satisfy the predicate, every other
table is untouched, and the reported count is the number of rows removed. -/
theorem delete_scan (s : Store) (wf : Wf s) (n : String) (p : Row → Bool) (tid : Nat)
    (h1 : s.tableId? n = some tid) :
    let s' := (s.delete n p).1
    Wf s' ∧ s'.cat = s.cat ∧ s'.tables = s.tables ∧
    (s.delete n p).2 = .ok ((s.scan tid).filter p).length ∧
    s'.scan tid = (s.scan tid).filter (fun r => !p r) ∧
    ∀ t, t ≠ tid → s'.scan t = s.scan t := by
  intro s'
  obtain ⟨f1, f2, f3, f4, f5, f6, f7, f8⟩ := delete_fields s n p tid h1
  have hmem := mkDvs_mem tid (delHits s tid p) s.nextDv
  have hro : ∀ t, s'.rowsetsOf t = s.rowsetsOf t := fun t => by simp only [Store.rowsetsOf]; rw [f3]
  refine ⟨?_, f1, f2, ?_, ?_, ?_⟩
  · constructor
    · intro x hx; rw [f6]; rw [f4] at hx; exact wf.dirs x hx
    · intro k hk; rw [f6]; rw [f3] at hk; exact wf.rs k hk
    · intro e he
      rw [f6]; rw [f7] at he
      rcases List.mem_append.mp he with he | he
      · exact wf.dv e he
      · obtain ⟨_, h, hh, h2⟩ := hmem e he
        obtain ⟨rs, hrs, rfl⟩ := List.mem_map.mp hh
        rw [h2]
        exact wf.rs _ (mem_rowsetsOf.mp hrs)
    · intro k hk; rw [f6, f3]; rw [f5] at hk; exact wf.pend k hk
  · rw [f8]
    congr 1
    rw [Store.scan, length_filter_flatMap, delHits, List.map_map]
    congr 1
    apply List.map_congr_left
    intro rs _
    simp only [Function.comp, hitsOf_length, Store.rsVisible]
  · unfold Store.scan
    rw [hro tid, filter_flatMap']
    apply flatMap_congr'
    intro rs hrs
    rw [rsVisible_eq s s' tid rs f4 _ f7]
    have key : ∀ i, (deadIn (s.dvsOf tid rs) i ||
          deadIn (((mkDvs tid (delHits s tid p) s.nextDv).filter fun e => e.tid == tid && e.rs == rs).map (·.dead)) i)
        = (deadIn (s.dvsOf tid rs) i || (hitsOf (deadIn (s.dvsOf tid rs)) p 0 (s.dirRows tid rs)).contains i) := by
      intro i
      rw [deadIn_mkDvs, delHits, any_hits s tid p rs i _ hrs]
    rw [visFrom_congr _ 0 (fun i _ => key i), visFrom_delete, List.filter_map]
    rfl
  · intro t ht
    unfold Store.scan
    rw [hro t]
    apply flatMap_congr'
    intro rs _
    rw [rsVisible_eq s s' t rs f4 _ f7]
    have : ((mkDvs tid (delHits s tid p) s.nextDv).filter fun e => e.tid == t && e.rs == rs) = [] := by
      rw [List.filter_eq_nil_iff]
      intro e he
      have := (hmem e he).1
      simp [this]; intro h; exact absurd h.symm ht
    rw [this]
    simp only [List.map_nil, deadIn_nil, Bool.or_false, Store.rsVisible]

/-! ### vacuum -/

theorem vacuum_scan (s : Store) (wf : Wf s) :
    Wf s.vacuum ∧ s.vacuum.cat = s.cat ∧ s.vacuum.tables = s.tables ∧ ∀ t, s.vacuum.scan t = s.scan t := by
  refine ⟨?_, rfl, rfl, ?_⟩
  · constructor
    · intro x hx; exact wf.dirs x (List.mem_filter.mp hx).1
    · exact wf.rs
    · exact wf.dv
    · intro k hk; simp [Store.vacuum] at hk
  · intro t
    apply scan_congr
    · rfl
    · rfl
    · intro rs hrs
      have hnp : s.pending.contains (t, rs) = false := by
        cases hc : s.pending.contains (t, rs) with
        | false => rfl
        | true => exact absurd hrs (wf.pend _ (by simpa using hc)).1
      exact lookup_filter (fun a => !s.pending.contains a) (t, rs) (by rw [hnp]; rfl) s.dirs

/-! ### compaction -/

theorem mem_sortNat (l : List Nat) (x : Nat) : x ∈ sortNat l ↔ x ∈ l := (sortNat_perm l).mem_iff

theorem perm_filter_split {α} (q : α → Bool) (l : List α) {β} (f : α → List β) :
    (l.flatMap f).Perm ((l.filter fun x => !q x).flatMap f ++ (l.filter q).flatMap f) := by
  induction l with
  | nil => simp
  | cons x l ih =>
    simp only [List.flatMap_cons, List.filter_cons]
    cases q x with
    | true =>
      simp only [Bool.not_true, Bool.false_eq_true, if_false, if_true, List.flatMap_cons]
      refine (ih.append_left (f x)).trans ?_
      -- f x ++ (A ++ B) ~ A ++ (f x ++ B)
      rw [← List.append_assoc, ← List.append_assoc]
      exact List.Perm.append_right _ List.perm_append_comm
    | false =>
      simp only [Bool.not_false, if_true, Bool.false_eq_true, if_false, List.flatMap_cons, List.append_assoc]
      exact ih.append_left (f x)

theorem keepOf (tid t : Nat) (selected : List Nat) : ∀ rowsets : List (Nat × Nat),
    ((rowsets.filter fun x => !(x.1 == tid && selected.contains x.2)).filter (·.1 == t)).map (·.2)
      = if t = tid then (((rowsets.filter (·.1 == tid)).map (·.2)).filter fun x => !selected.contains x)
        else (rowsets.filter (·.1 == t)).map (·.2)
  | [] => by split <;> rfl
  | x :: l => by
    have ih := keepOf tid t selected l
    by_cases ht : t = tid
    · subst ht
      simp only [if_true] at ih ⊢
      by_cases h1 : x.1 = t <;> by_cases h3 : selected.contains x.2 = true <;>
        simp_all [List.filter_cons]
    · simp only [ht, if_false] at ih ⊢
      by_cases h1 : x.1 = tid <;> by_cases h2 : x.1 = t <;> by_cases h3 : selected.contains x.2 = true <;>
        simp_all [List.filter_cons]

/-- `compact_table` spelled out on its three outcomes -/
theorem compactTable_eq (s : Store) (tid : Nat) (d : TableDef) (sel : List Nat) (selected : List Nat)
    (rows : List Row)
    (hsel : sortNat ((s.rowsetsOf tid).filter sel.contains) = selected)
    (hrows : (if d.sortKey.isEmpty then (selected.map fun rs => (s.rsVisible tid rs).map (·.2)).flatten
      else mergeAll (keyLe d.sortKey) (selected.map fun rs => (s.rsVisible tid rs).map (·.2))) = rows) :
    s.compactTable tid d sel =
      if selected.length ≤ 1 then s
      else if rows.isEmpty then
        { (s.commit ((selected.map fun rs => Rec.delRowSet tid rs) ++ compactDvDels s tid selected)) with
          rowsets := s.rowsets.filter fun x => !(x.1 == tid && selected.contains x.2),
          dvs := s.dvs.filter fun e => !(e.tid == tid && selected.contains e.rs),
          pending := s.pending ++ selected.map fun rs => (tid, rs) }
      else
        { (s.commit (Rec.addRowSet tid s.nextRs :: ((selected.map fun rs => Rec.delRowSet tid rs) ++ compactDvDels s tid selected))) with
          nextRs := s.nextRs + 1
          dirs := s.dirs ++ [((tid, s.nextRs), rows)]
          rowsets := (s.rowsets.filter fun x => !(x.1 == tid && selected.contains x.2)) ++ [(tid, s.nextRs)]
          dvs := s.dvs.filter fun e => !(e.tid == tid && selected.contains e.rs)
          pending := s.pending ++ selected.map fun rs => (tid, rs) } := by
  subst hsel hrows
  rfl

/-- dropping the delete vectors of the selected row-sets of `tid` leaves the DVs of every other
row-set as they were -/
theorem dvsOf_keep (s s' : Store) (tid : Nat) (selected : List Nat)
    (hdv : s'.dvs = s.dvs.filter fun e => !(e.tid == tid && selected.contains e.rs))
    (t rs : Nat) (h : ¬ (t = tid ∧ rs ∈ selected)) : s'.dvsOf t rs = s.dvsOf t rs := by
  simp only [Store.dvsOf, hdv, List.filter_filter]
  congr 1
  apply List.filter_congr
  intro e _
  by_cases h1 : e.tid = t <;> by_cases h2 : e.rs = rs
  · subst h1; subst h2
    have : (e.tid == tid && selected.contains e.rs) = false := by
      cases hc : (e.tid == tid && selected.contains e.rs) with
      | false => rfl
      | true => simp at hc; exact absurd hc h
    rw [this]; simp
  · simp [h1, h2]
  · simp [h1]
  · simp [h1]

/-- **One table's compaction is invisible**: every table scans to a permutation of what it scanned
before, for any selection of row-sets. -/
theorem compactTable_scan (s : Store) (wf : Wf s) (tid : Nat) (d : TableDef) (sel : List Nat) :
    Wf (s.compactTable tid d sel) ∧ (s.compactTable tid d sel).cat = s.cat ∧
      (s.compactTable tid d sel).tables = s.tables ∧ ∀ t, ((s.compactTable tid d sel).scan t).Perm (s.scan t) := by
  generalize hsel : sortNat ((s.rowsetsOf tid).filter sel.contains) = selected
  generalize hrows : (if d.sortKey.isEmpty then (selected.map fun rs => (s.rsVisible tid rs).map (·.2)).flatten
      else mergeAll (keyLe d.sortKey) (selected.map fun rs => (s.rsVisible tid rs).map (·.2))) = rows
  rw [compactTable_eq s tid d sel selected rows hsel hrows]
  have hselmem : ∀ x, x ∈ selected → (tid, x) ∈ s.rowsets := by
    intro x hx
    rw [← hsel, mem_sortNat] at hx
    exact mem_rowsetsOf.mp (List.mem_filter.mp hx).1
  have hrowsPerm : rows.Perm (selected.flatMap fun rs => (s.rsVisible tid rs).map (·.2)) := by
    rw [← hrows, List.flatMap_def]
    split
    · exact List.Perm.refl _
    · exact mergeAll_perm _ _
  have hsplit : (s.scan tid).Perm (((s.rowsetsOf tid).filter fun x => !selected.contains x).flatMap
      (fun rs => (s.rsVisible tid rs).map (·.2)) ++ rows) := by
    refine (perm_filter_split (fun x => selected.contains x) (s.rowsetsOf tid) _).trans ?_
    refine List.Perm.append_left _ ?_
    refine List.Perm.trans ?_ hrowsPerm.symm
    have : (s.rowsetsOf tid).filter (fun x => selected.contains x) = (s.rowsetsOf tid).filter sel.contains := by
      apply List.filter_congr
      intro x hx
      rw [Bool.eq_iff_iff]
      simp only [List.contains_iff_mem, ← hsel, mem_sortNat, List.mem_filter, hx, true_and]
    rw [this, ← hsel]
    exact ((sortNat_perm _).flatMap_right _).symm
  have hkeepOf : ∀ t, ((s.rowsets.filter fun x => !(x.1 == tid && selected.contains x.2)).filter (·.1 == t)).map (·.2)
      = if t = tid then (s.rowsetsOf tid).filter (fun x => !selected.contains x) else s.rowsetsOf t :=
    fun t => keepOf tid t selected s.rowsets
  -- membership in the kept row-set list of a table
  have hkeptNot : ∀ t rs, rs ∈ (if t = tid then (s.rowsetsOf tid).filter (fun x => !selected.contains x) else s.rowsetsOf t) →
      ¬ (t = tid ∧ rs ∈ selected) ∧ (t, rs) ∈ s.rowsets := by
    intro t rs hrs
    by_cases ht : t = tid
    · subst ht
      simp only [if_true] at hrs
      have := List.mem_filter.mp hrs
      exact ⟨fun h => by simp [h.2] at this, mem_rowsetsOf.mp this.1⟩
    · simp only [ht, if_false] at hrs
      exact ⟨fun h => ht h.1, mem_rowsetsOf.mp hrs⟩
  by_cases hlen : selected.length ≤ 1
  · simp only [hlen, if_true]
    exact ⟨wf, trivial, trivial, fun _ => List.Perm.refl _⟩
  · simp only [hlen, if_false]
    by_cases hemp : rows.isEmpty = true
    · simp only [hemp, if_true]
      have hnil : rows = [] := by simpa using hemp
      refine ⟨?_, rfl, rfl, ?_⟩
      · constructor
        · exact wf.dirs
        · intro k hk; exact wf.rs k (List.mem_filter.mp hk).1
        · intro e he; exact wf.dv e (List.mem_filter.mp he).1
        · intro k hk
          rcases List.mem_append.mp hk with hk | hk
          · have := wf.pend k hk
            exact ⟨fun h => this.1 (List.mem_filter.mp h).1, this.2⟩
          · obtain ⟨rs, hrs, rfl⟩ := List.mem_map.mp hk
            refine ⟨?_, wf.rs _ (hselmem rs hrs)⟩
            intro h
            have := (List.mem_filter.mp h).2
            simp [hrs] at this
      · intro t
        generalize hs' : ({ (s.commit ((selected.map fun rs => Rec.delRowSet tid rs) ++ compactDvDels s tid selected)) with
          rowsets := s.rowsets.filter fun x => !(x.1 == tid && selected.contains x.2),
          dvs := s.dvs.filter fun e => !(e.tid == tid && selected.contains e.rs),
          pending := s.pending ++ selected.map fun rs => (tid, rs) } : Store) = s'
        have fdv : s'.dvs = s.dvs.filter fun e => !(e.tid == tid && selected.contains e.rs) := by rw [← hs']
        have fdirs : s'.dirs = s.dirs := by rw [← hs']; rfl
        have frs : s'.rowsets = s.rowsets.filter fun x => !(x.1 == tid && selected.contains x.2) := by rw [← hs']
        have hro : s'.rowsetsOf t = (if t = tid then (s.rowsetsOf tid).filter (fun x => !selected.contains x) else s.rowsetsOf t) := by
          rw [← hkeepOf t]; simp only [Store.rowsetsOf, frs]
        have hvis : ∀ rs, rs ∈ s'.rowsetsOf t → s'.rsVisible t rs = s.rsVisible t rs := by
          intro rs hrs
          rw [hro] at hrs
          simp only [Store.rsVisible, Store.dirRows, fdirs, dvsOf_keep s s' tid selected fdv t rs (hkeptNot t rs hrs).1]
        have e1 : s'.scan t = (s'.rowsetsOf t).flatMap fun rs => (s.rsVisible t rs).map (·.2) := by
          unfold Store.scan
          apply flatMap_congr'
          intro rs hrs
          rw [hvis rs hrs]
        rw [e1, hro]
        by_cases ht : t = tid
        · subst ht
          simp only [if_true]
          have := hsplit
          rw [hnil, List.append_nil] at this
          exact this.symm
        · simp only [ht, if_false]; exact List.Perm.refl _
    · have hemp' : rows.isEmpty = false := by simpa using hemp
      simp only [hemp', Bool.false_eq_true, if_false]
      refine ⟨?_, rfl, rfl, ?_⟩
      · constructor
        · intro x hx
          rcases List.mem_append.mp hx with hx | hx
          · have := wf.dirs x hx; show x.1.2 < s.nextRs + 1; omega
          · simp at hx; subst hx; show s.nextRs < s.nextRs + 1; omega
        · intro k hk
          rcases List.mem_append.mp hk with hk | hk
          · have := wf.rs k (List.mem_filter.mp hk).1; show k.2 < s.nextRs + 1; omega
          · simp at hk; subst hk; show s.nextRs < s.nextRs + 1; omega
        · intro e he; have := wf.dv e (List.mem_filter.mp he).1; show e.rs < s.nextRs + 1; omega
        · intro k hk
          rcases List.mem_append.mp hk with hk | hk
          · have := wf.pend k hk
            refine ⟨?_, by show k.2 < s.nextRs + 1; omega⟩
            intro h
            rcases List.mem_append.mp h with h | h
            · exact this.1 (List.mem_filter.mp h).1
            · simp at h; subst h; simp at this
          · obtain ⟨rs, hrs, rfl⟩ := List.mem_map.mp hk
            have hlt := wf.rs _ (hselmem rs hrs)
            refine ⟨?_, by show rs < s.nextRs + 1; simp at hlt; omega⟩
            intro h
            rcases List.mem_append.mp h with h | h
            · have := (List.mem_filter.mp h).2
              simp [hrs] at this
            · simp at h; simp at hlt; omega
      · intro t
        generalize hs' : ({ (s.commit (Rec.addRowSet tid s.nextRs :: ((selected.map fun rs => Rec.delRowSet tid rs) ++ compactDvDels s tid selected))) with
          nextRs := s.nextRs + 1
          dirs := s.dirs ++ [((tid, s.nextRs), rows)]
          rowsets := (s.rowsets.filter fun x => !(x.1 == tid && selected.contains x.2)) ++ [(tid, s.nextRs)]
          dvs := s.dvs.filter fun e => !(e.tid == tid && selected.contains e.rs)
          pending := s.pending ++ selected.map fun rs => (tid, rs) } : Store) = s'
        have fdv : s'.dvs = s.dvs.filter fun e => !(e.tid == tid && selected.contains e.rs) := by rw [← hs']
        have fdirs : s'.dirs = s.dirs ++ [((tid, s.nextRs), rows)] := by rw [← hs']
        have frs : s'.rowsets = (s.rowsets.filter fun x => !(x.1 == tid && selected.contains x.2)) ++ [(tid, s.nextRs)] := by
          rw [← hs']
        have hold : ∀ t rs, (t, rs) ∈ s.rowsets → ¬ (t = tid ∧ rs ∈ selected) → s'.rsVisible t rs = s.rsVisible t rs := by
          intro t rs hrs hns
          have hlt := wf.rs _ hrs
          have : lookup (t, rs) (s.dirs ++ [((tid, s.nextRs), rows)]) = lookup (t, rs) s.dirs := by
            rw [lookup_append]
            have : lookup (t, rs) [((tid, s.nextRs), rows)] = none := by
              simp [lookup]; intro _ h; simp at hlt; omega
            rw [this]; cases lookup (t, rs) s.dirs <;> rfl
          simp only [Store.rsVisible, Store.dirRows, fdirs, this, dvsOf_keep s s' tid selected fdv t rs hns]
        have hnew : (s'.rsVisible tid s.nextRs).map (·.2) = rows := by
          have hdv : (s'.dvs.filter fun e => e.tid == tid && e.rs == s.nextRs) = [] := by
            rw [List.filter_eq_nil_iff]
            intro e he
            rw [fdv] at he
            have := wf.dv e (List.mem_filter.mp he).1
            simp; intro _; omega
          have hl : lookup (tid, s.nextRs) (s.dirs ++ [((tid, s.nextRs), rows)]) = some rows := by
            rw [lookup_append, lookup_none_of_forall _ _ (fun x hx heq => by
              have := wf.dirs x hx; rw [heq] at this; simp at this)]
            simp [lookup]
          simp only [Store.rsVisible, Store.dvsOf, Store.dirRows, fdirs, hdv, hl, List.map_nil, deadIn_nil,
            visFrom_false, Option.getD_some]
        have hro : s'.rowsetsOf t = (if t = tid then (s.rowsetsOf tid).filter (fun x => !selected.contains x) else s.rowsetsOf t)
            ++ (if t = tid then [s.nextRs] else []) := by
          simp only [Store.rowsetsOf, frs, List.filter_append, List.map_append]
          congr 1
          · exact hkeepOf t
          · by_cases ht : t = tid
            · subst ht; simp
            · have : (tid == t) = false := by simp; exact fun h => ht h.symm
              simp [ht, List.filter_cons, this]
        unfold Store.scan
        rw [hro, List.flatMap_append]
        by_cases ht : t = tid
        · subst ht
          simp only [if_true, List.flatMap_cons, List.flatMap_nil, List.append_nil, hnew]
          refine List.Perm.trans (List.Perm.append_right _ (List.Perm.of_eq ?_)) hsplit.symm
          apply flatMap_congr'
          intro rs hrs
          have hk := hkeptNot t rs (by simp only [if_true]; exact hrs)
          rw [hold t rs hk.2 hk.1]
        · simp only [ht, if_false, List.flatMap_nil, List.append_nil]
          apply List.Perm.of_eq
          apply flatMap_congr'
          intro rs hrs
          have hk := hkeptNot t rs (by simp only [ht, if_false]; exact hrs)
          rw [hold t rs hk.2 hk.1]

/-- **A whole compaction pass is invisible**, whatever order the tables are visited in and
whatever each selection is. -/
theorem compact_scan : ∀ (plan : List (Nat × List Nat)) (s : Store), Wf s →
    Wf (s.compact plan) ∧ (s.compact plan).cat = s.cat ∧ (s.compact plan).tables = s.tables ∧
      ∀ t, ((s.compact plan).scan t).Perm (s.scan t)
  | [], s, wf => ⟨wf, rfl, rfl, fun _ => List.Perm.refl _⟩
  | (tid, sel) :: plan, s, wf => by
    simp only [Store.compact, List.foldl_cons]
    cases hl : lookup tid s.tables with
    | none =>
      simp only
      exact compact_scan plan s wf
    | some d =>
      simp only
      obtain ⟨w1, c1, t1, p1⟩ := compactTable_scan s wf tid d sel
      obtain ⟨w2, c2, t2, p2⟩ := compact_scan plan _ w1
      exact ⟨w2, c2.trans c1, t2.trans t1, fun t => (p2 t).trans (p1 t)⟩

end RlModel
