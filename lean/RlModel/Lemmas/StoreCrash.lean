import RlModel.Model.StoreCrash
/-! Lemmas about the persistence-step model (used by `Thm/C04.lean`). -/
namespace RlModel
namespace Crash

/-! ### `replay` -/

def Rec.isBracket : Rec → Bool
  | .begin => true | .fin => true | _ => false

/-- The log ends outside a transaction with nothing buffered (every complete `append` leaves it so). -/
def Balanced (rs : List Rec) : Prop := replayFrom ⟨false, [], []⟩ rs = ⟨false, [], replay rs⟩

theorem replayFrom_append (st : ReplaySt) (a b : List Rec) :
    replayFrom st (a ++ b) = replayFrom (replayFrom st a) b := by
  simp [replayFrom, List.foldl_append]

theorem replayFrom_inTxn (buf acc es : List Rec) (h : ∀ e ∈ es, e.isBracket = false) :
    replayFrom ⟨true, buf, acc⟩ es = ⟨true, buf ++ es, acc⟩ := by
  induction es generalizing buf with
  | nil => simp [replayFrom]
  | cons e es ih =>
    have he := h e (List.mem_cons_self ..)
    have hr : ∀ x ∈ es, x.isBracket = false := fun x hx => h x (List.mem_cons_of_mem _ hx)
    have : replayStep ⟨true, buf, acc⟩ e = ⟨true, buf ++ [e], acc⟩ := by
      cases e <;> simp_all [replayStep, Rec.isBracket]
    simp only [replayFrom, List.foldl_cons, this]
    have := ih (buf ++ [e]) hr
    simp only [replayFrom] at this
    rw [this]; simp

/-- An unterminated transaction at the tail is ignored. -/
theorem replay_open_txn (rs es : List Rec) (hb : Balanced rs) (h : ∀ e ∈ es, e.isBracket = false) :
    replay (rs ++ Rec.begin :: es) = replay rs := by
  unfold replay
  rw [replayFrom_append, hb]
  have : replayFrom ⟨false, [], replay rs⟩ (Rec.begin :: es) = replayFrom ⟨true, [], replay rs⟩ es := by
    simp [replayFrom, replayStep]
  rw [this, replayFrom_inTxn _ _ _ h]

/-- A complete transaction is applied, and leaves the log balanced. -/
theorem replay_closed_txn (rs es : List Rec) (hb : Balanced rs) (h : ∀ e ∈ es, e.isBracket = false) :
    replay (rs ++ ([Rec.begin] ++ es ++ [Rec.fin])) = replay rs ++ es ∧
    Balanced (rs ++ ([Rec.begin] ++ es ++ [Rec.fin])) := by
  have key : replayFrom ⟨false, [], []⟩ (rs ++ ([Rec.begin] ++ es ++ [Rec.fin])) = ⟨false, [], replay rs ++ es⟩ := by
    rw [replayFrom_append, hb]
    have : replayFrom ⟨false, [], replay rs⟩ ([Rec.begin] ++ es ++ [Rec.fin]) =
        replayFrom (replayFrom ⟨true, [], replay rs⟩ es) [Rec.fin] := by
      rw [List.append_assoc, replayFrom_append]
      simp [replayFrom, replayStep, List.foldl_append]
    rw [this, replayFrom_inTxn _ _ _ h]
    simp [replayFrom, replayStep]
  constructor
  · unfold replay; rw [key]; rfl
  · unfold Balanced replay; rw [key]

theorem take_txn_cases (es : List Rec) (c : Nat) (hc : c < es.length + 2) :
    ([Rec.begin] ++ es ++ [Rec.fin]).take c = [] ∨
    ∃ es', es' <+: es ∧ ([Rec.begin] ++ es ++ [Rec.fin]).take c = Rec.begin :: es' := by
  cases c with
  | zero => left; rfl
  | succ c =>
    right
    refine ⟨es.take c, List.take_prefix _ _, ?_⟩
    have hc' : c ≤ es.length := by omega
    simp [List.take_append, hc']

/-! ### lookups of referenced files -/

/-- `d'` agrees with `d` on every file the view references. -/
def Agree (v : View) (d d' : Disk) : Prop :=
  (∀ x ∈ v.rowsets, findRowset d' x.1 x.2 = findRowset d x.1 x.2) ∧
  (∀ x ∈ v.dvs, findDv d' x.1 x.2.1 x.2.2 = findDv d x.1 x.2.1 x.2.2)

theorem Agree.refl (v : View) (d : Disk) : Agree v d d := ⟨fun _ _ => rfl, fun _ _ => rfl⟩

theorem Agree.trans {v : View} {a b c : Disk} (h1 : Agree v a b) (h2 : Agree v b c) : Agree v a c :=
  ⟨fun x hx => (h2.1 x hx).trans (h1.1 x hx), fun x hx => (h2.2 x hx).trans (h1.2 x hx)⟩

theorem all_congr_mem {α : Type} {l : List α} {f g : α → Bool} (h : ∀ x ∈ l, f x = g x) : l.all f = l.all g := by
  induction l with
  | nil => rfl
  | cons a l ih =>
    simp only [List.all_cons, h a (List.mem_cons_self ..)]
    rw [ih (fun x hx => h x (List.mem_cons_of_mem _ hx))]

theorem flatMap_congr_mem {α β : Type} {l : List α} {f g : α → List β} (h : ∀ x ∈ l, f x = g x) :
    l.flatMap f = l.flatMap g := by
  induction l with
  | nil => rfl
  | cons a l ih =>
    simp only [List.flatMap_cons, h a (List.mem_cons_self ..)]
    rw [ih (fun x hx => h x (List.mem_cons_of_mem _ hx))]

theorem filesOk_agree {v : View} {d d' : Disk} (h : Agree v d d') : filesOk d' v = filesOk d v := by
  unfold filesOk
  congr 1
  · apply all_congr_mem
    intro x hx
    have := h.1 x hx
    obtain ⟨t, r⟩ := x
    simp only at this ⊢
    rw [this]
  · apply all_congr_mem
    intro x hx
    have := h.2 x hx
    obtain ⟨t, r, dv⟩ := x
    simp only at this ⊢
    rw [this]

theorem deletedIn_agree {v : View} {d d' : Disk} (h : Agree v d d') (t r : Nat) :
    deletedIn d' v t r = deletedIn d v t r := by
  unfold deletedIn
  apply flatMap_congr_mem
  intro x hx
  have hx' : x ∈ v.dvs := (List.mem_filter.mp hx).1
  have hk : x.1 = t ∧ x.2.1 = r := by
    have := (List.mem_filter.mp hx).2
    simp at this; exact this
  have := h.2 x hx'
  rw [hk.1, hk.2] at this
  rw [this]

theorem abs_agree {v : View} {d d' : Disk} (h : Agree v d d') : abs d' v = abs d v := by
  unfold abs
  apply List.map_congr_left
  intro ti _
  congr 1
  apply flatMap_congr_mem
  intro x hx
  have hx' : x ∈ v.rowsets := (List.mem_filter.mp hx).1
  unfold liveRows
  rw [h.1 x hx', deletedIn_agree h]

theorem view_agree {v : View} {d d' : Disk} (h : Agree v d d') (hr : replay d'.recs = replay d.recs)
    (hv : view d = .ok v) : view d' = .ok v := by
  unfold view at hv ⊢
  rw [hr]
  cases hl : View.empty.applyRecs (replay d.recs) with
  | error e => simp [hl] at hv
  | ok v0 =>
    simp only [hl] at hv ⊢
    by_cases hok : filesOk d v0 = true
    · simp [hok] at hv
      subst hv
      simp [filesOk_agree h, hok]
    · simp only [hok, Bool.false_eq_true, if_false] at hv
      split at hv <;> cases hv

/-- Steps that only touch files the view does not reference. -/
def Fresh (v : View) : PStep → Prop
  | .mkdir t r _ _ => (t, r) ∉ v.rowsets
  | .writeFile t r _ => (t, r) ∉ v.rowsets
  | .writeDv t r d _ => (t, r, d) ∉ v.dvs
  | .rmdir t r => (t, r) ∉ v.rowsets
  | .rmdv t r d => (t, r, d) ∉ v.dvs
  | _ => False

theorem find_append_ne {α : Type} (p : α → Bool) (l : List α) (a : α) (h : p a = false) :
    (l ++ [a]).find? p = l.find? p := by
  induction l with
  | nil => simp [h]
  | cons b l ih => simp [List.find?_cons, ih]

theorem findRowset_upd (f : RowsetDir → RowsetDir) (hf : ∀ x, (f x).t = x.t ∧ (f x).r = x.r)
    (t r t' r' : Nat) (l : List RowsetDir) (hne : (t', r') ≠ (t, r)) :
    (updRowset f t r l).find? (fun x => x.t == t' && x.r == r') = l.find? (fun x => x.t == t' && x.r == r') := by
  induction l with
  | nil => rfl
  | cons x xs ih =>
    unfold updRowset
    by_cases hx : x.t = t ∧ x.r = r
    · have h3 : (t == t' && r == r') = false := by
        simp; intro h1 h2; exact hne (by rw [h1, h2])
      have hfx := hf x
      simp [List.find?_cons, hx, hfx.1, hfx.2, h3]
    · simp only [hx, if_false, List.find?_cons, ih]

/-- A fresh step, however far it got, leaves every referenced file as it was. -/
theorem agree_apply_fresh (v : View) (d : Disk) (s : PStep) (p : Progress) (h : Fresh v s) :
    Agree v d (d.apply s p) ∧ (d.apply s p).recs = d.recs ∧ (d.apply s p).torn = d.torn := by
  cases s with
  | mkdir t r rows n =>
    refine ⟨⟨?_, fun _ _ => rfl⟩, rfl, rfl⟩
    intro x hx
    simp only [Disk.apply, findRowset]
    apply find_append_ne
    simp only [Fresh] at h
    simp; intro h1 h2; exact h (by rw [h1, h2]; exact hx)
  | writeFile t r i =>
    have hne : ∀ x ∈ v.rowsets, (x.1, x.2) ≠ (t, r) := fun x hx he => h (by rw [← he]; exact hx)
    cases p <;> refine ⟨⟨?_, fun _ _ => rfl⟩, rfl, rfl⟩ <;> intro x hx <;>
      simp only [Disk.apply, findRowset] <;>
      (refine findRowset_upd _ ?_ t r x.1 x.2 d.rowsets (hne x hx); intro y; exact ⟨rfl, rfl⟩)
  | writeDv t r dv dels =>
    refine ⟨⟨fun _ _ => rfl, ?_⟩, rfl, rfl⟩
    intro x hx
    simp only [Disk.apply, findDv]
    apply find_append_ne
    simp only [Fresh] at h
    simp; intro h1 h2 h3; exact h (by rw [h1, h2, h3]; exact hx)
  | rmdir t r =>
    refine ⟨⟨?_, fun _ _ => rfl⟩, rfl, rfl⟩
    intro x hx
    simp only [Disk.apply, findRowset]
    have hne : (x.1, x.2) ≠ (t, r) := fun he => h (by rw [← he]; exact hx)
    induction d.rowsets with
    | nil => rfl
    | cons y ys ih =>
      simp only [List.filter_cons]
      by_cases hy : (y.t == t && y.r == r) = true
      · simp only [hy, Bool.not_true, Bool.false_eq_true, if_false, List.find?_cons]
        have : (y.t == x.1 && y.r == x.2) = false := by
          simp at hy; rw [hy.1, hy.2]; simp; intro h1 h2; exact hne (by rw [h1, h2])
        rw [this]; exact ih
      · simp only [hy, Bool.not_false, if_true, List.find?_cons, ih]
  | rmdv t r dv =>
    refine ⟨⟨fun _ _ => rfl, ?_⟩, rfl, rfl⟩
    intro x hx
    simp only [Disk.apply, findDv]
    have hne : (x.1, x.2.1, x.2.2) ≠ (t, r, dv) := fun he => h (by rw [← he]; exact hx)
    induction d.dvfiles with
    | nil => rfl
    | cons y ys ih =>
      simp only [List.filter_cons]
      by_cases hy : (y.t == t && y.r == r && y.d == dv) = true
      · simp only [hy, Bool.not_true, Bool.false_eq_true, if_false, List.find?_cons]
        have : (y.t == x.1 && y.r == x.2.1 && y.d == x.2.2) = false := by
          simp at hy; rw [hy.1.1, hy.1.2, hy.2]; simp; intro h1 h2 h3; exact hne (by rw [h1, h2, h3])
        rw [this]; exact ih
      · simp only [hy, Bool.not_false, if_true, List.find?_cons, ih]
  | syncDir => cases h
  | mkdirDb => cases h
  | mkdirDv => cases h
  | createManifest => cases h
  | appendManifest _ => cases h
  | createTmp => cases h
  | appendTmp _ => cases h
  | renameTmp => cases h

theorem agree_applyAll_fresh (v : View) (steps : List PStep) (h : ∀ s ∈ steps, Fresh v s) (d : Disk) :
    Agree v d (d.applyAll steps) ∧ (d.applyAll steps).recs = d.recs ∧ (d.applyAll steps).torn = d.torn := by
  induction steps generalizing d with
  | nil => exact ⟨Agree.refl v d, rfl, rfl⟩
  | cons s ss ih =>
    have h1 := agree_apply_fresh v d s .full (h s (List.mem_cons_self ..))
    have h2 := ih (fun x hx => h x (List.mem_cons_of_mem _ hx)) (d.apply s .full)
    simp only [Disk.applyAll, List.foldl_cons] at h2 ⊢
    exact ⟨Agree.trans h1.1 h2.1, h2.2.1.trans h1.2.1, h2.2.2.trans h1.2.2⟩

/-- Steps that change neither `manifest.json` nor any referenced file. -/
def Harmless (v : View) (s : PStep) : Prop :=
  Fresh v s ∨ s = .mkdirDb ∨ s = .mkdirDv ∨ s = .createManifest ∨ s = .createTmp ∨ s = .syncDir ∨ ∃ rs, s = .appendTmp rs

theorem agree_apply_harmless (v : View) (d : Disk) (s : PStep) (p : Progress) (h : Harmless v s) :
    Agree v d (d.apply s p) ∧ (d.apply s p).recs = d.recs ∧ (d.apply s p).torn = d.torn := by
  rcases h with h | h | h | h | h | h | ⟨rs, h⟩
  · exact agree_apply_fresh v d s p h
  all_goals subst h
  · exact ⟨Agree.refl v d, rfl, rfl⟩
  · exact ⟨Agree.refl v d, rfl, rfl⟩
  · exact ⟨Agree.refl v d, rfl, rfl⟩
  · exact ⟨Agree.refl v d, rfl, rfl⟩
  · exact ⟨Agree.refl v d, rfl, rfl⟩
  · cases p <;> exact ⟨Agree.refl v d, rfl, rfl⟩

theorem agree_applyAll_harmless (v : View) (steps : List PStep) (h : ∀ s ∈ steps, Harmless v s) (d : Disk) :
    Agree v d (d.applyAll steps) ∧ (d.applyAll steps).recs = d.recs ∧ (d.applyAll steps).torn = d.torn := by
  induction steps generalizing d with
  | nil => exact ⟨Agree.refl v d, rfl, rfl⟩
  | cons s ss ih =>
    have h1 := agree_apply_harmless v d s .full (h s (List.mem_cons_self ..))
    have h2 := ih (fun x hx => h x (List.mem_cons_of_mem _ hx)) (d.apply s .full)
    simp only [Disk.applyAll, List.foldl_cons] at h2 ⊢
    exact ⟨Agree.trans h1.1 h2.1, h2.2.1.trans h1.2.1, h2.2.2.trans h1.2.2⟩

/-- A crash among the harmless steps in front of the decisive tail of a step list. -/
theorem crash_before_tail (v : View) (d : Disk) (pre tail : List PStep) (k : Nat) (p : Option Progress)
    (hpre : ∀ x ∈ pre, Harmless v x) (hk : k < pre.length ∨ (k = pre.length ∧ p = none)) :
    Agree v d (crash d (pre ++ tail) k p) ∧ (crash d (pre ++ tail) k p).recs = d.recs ∧
      (crash d (pre ++ tail) k p).torn = d.torn := by
  have htake : (pre ++ tail).take k = pre.take k := by
    rcases hk with hk | ⟨hk, _⟩
    · exact List.take_append_of_le_length (Nat.le_of_lt hk)
    · subst hk; simp
  have h0 := agree_applyAll_harmless v (pre.take k) (fun x hx => hpre x (List.mem_of_mem_take hx)) d
  unfold crash
  rw [htake]
  rcases hk with hk | ⟨hk, hp⟩
  · have hget : (pre ++ tail)[k]? = some pre[k] := by
      rw [List.getElem?_append_left hk]; exact List.getElem?_eq_getElem hk
    rw [hget]
    cases p with
    | none => exact h0
    | some p =>
      have h1 := agree_apply_harmless v (d.applyAll (pre.take k)) pre[k] p (hpre _ (List.getElem_mem hk))
      exact ⟨Agree.trans h0.1 h1.1, h1.2.1.trans h0.2.1, h1.2.2.trans h0.2.2⟩
  · subst hp
    cases (pre ++ tail)[k]? <;> exact h0

theorem crash_before_last (v : View) (d : Disk) (pre : List PStep) (last : PStep) (k : Nat) (p : Option Progress)
    (hpre : ∀ x ∈ pre, Harmless v x) (hk : k < pre.length ∨ (k = pre.length ∧ p = none)) :
    Agree v d (crash d (pre ++ [last]) k p) ∧ (crash d (pre ++ [last]) k p).recs = d.recs ∧
      (crash d (pre ++ [last]) k p).torn = d.torn :=
  crash_before_tail v d pre [last] k p hpre hk

/-! ### the view loaded from a rewritten manifest -/

def Rec.isTable : Rec → Bool
  | .createTable _ _ => true | .dropTable _ => true | _ => false

/-- Same table part. -/
def TEq (w v : View) : Prop := w.tables = v.tables ∧ w.nTables = v.nTables ∧ w.tableLog = v.tableLog

theorem applyRecs_append (v : View) (a b : List Rec) :
    v.applyRecs (a ++ b) = match v.applyRecs a with | .ok v1 => v1.applyRecs b | .error e => .error e := by
  induction a generalizing v with
  | nil => rfl
  | cons r rs ih =>
    simp only [List.cons_append, View.applyRecs]
    cases v.applyRec r with
    | error e => rfl
    | ok v1 => exact ih v1

/-- A table record acts on the table part only, and the same way on views with the same table part. -/
theorem applyRec_table (w v : View) (r : Rec) (hr : r.isTable = true) (h : TEq w v) (v' : View)
    (hv : v.applyRec r = .ok v') :
    ∃ w', w.applyRec r = .ok w' ∧ TEq w' v' ∧ w'.rowsets = w.rowsets ∧ w'.dvs = w.dvs ∧
      w'.nextR = w.nextR ∧ w'.nextD = w.nextD := by
  obtain ⟨h1, h2, h3⟩ := h
  cases r with
  | createTable name ncols =>
    simp only [View.applyRec] at hv ⊢
    rw [h1]
    split at hv
    · cases hv
    · rename_i hdup
      cases hv
      simp only [hdup]
      exact ⟨_, rfl, ⟨by simp [h1, h2], by simp [h2], by simp [h3]⟩, rfl, rfl, rfl, rfl⟩
  | dropTable t =>
    simp only [View.applyRec] at hv ⊢
    rw [h1]
    split at hv
    · rename_i hex
      cases hv
      simp only [hex]
      exact ⟨_, rfl, ⟨by simp [h1], h2, by simp [h3]⟩, rfl, rfl, rfl, rfl⟩
    · cases hv
  | begin => cases hr
  | fin => cases hr
  | addRowSet _ _ => cases hr
  | deleteRowSet _ _ => cases hr
  | addDV _ _ _ => cases hr
  | deleteDV _ _ _ => cases hr

theorem applyRecs_table (rs : List Rec) (hall : ∀ r ∈ rs, r.isTable = true) (w v : View) (h : TEq w v)
    (v' : View) (hv : v.applyRecs rs = .ok v') :
    ∃ w', w.applyRecs rs = .ok w' ∧ TEq w' v' ∧ w'.rowsets = w.rowsets ∧ w'.dvs = w.dvs ∧
      w'.nextR = w.nextR ∧ w'.nextD = w.nextD := by
  induction rs generalizing w v with
  | nil => cases hv; exact ⟨w, rfl, h, rfl, rfl, rfl, rfl⟩
  | cons r rs ih =>
    simp only [View.applyRecs] at hv ⊢
    cases hr : v.applyRec r with
    | error e => simp [hr] at hv
    | ok v1 =>
      simp only [hr] at hv
      obtain ⟨w1, hw1, ht, e1, e2, e3, e4⟩ := applyRec_table w v r (hall r (List.mem_cons_self ..)) h v1 hr
      obtain ⟨w', hw', ht', f1, f2, f3, f4⟩ := ih (fun x hx => hall x (List.mem_cons_of_mem _ hx)) w1 v1 ht hv
      refine ⟨w', by simp [hw1, hw'], ht', f1.trans e1, f2.trans e2, f3.trans e3, f4.trans e4⟩

/-- What `bootstrap` guarantees about the view it loads. -/
structure Canon (v : View) : Prop where
  nodupR : v.rowsets.Nodup
  nodupD : v.dvs.Nodup
  logTable : ∀ r ∈ v.tableLog, r.isTable = true
  logReplays : ∃ w, View.empty.applyRecs v.tableLog = .ok w ∧ TEq w v

theorem canon_empty : Canon View.empty :=
  ⟨List.nodup_nil, List.nodup_nil, (by intro r hr; cases hr), ⟨View.empty, rfl, rfl, rfl, rfl⟩⟩

theorem nodup_filter_append {α : Type} [BEq α] [LawfulBEq α] (l : List α) (k : α) (h : l.Nodup) :
    ((l.filter (· != k)) ++ [k]).Nodup := by
  rw [List.nodup_append]
  refine ⟨h.filter _, by simp, ?_⟩
  intro a ha b hb
  simp at hb
  subst hb
  have := (List.mem_filter.mp ha).2
  simpa using this

theorem canon_applyRec (v v' : View) (r : Rec) (hc : Canon v) (h : v.applyRec r = .ok v') : Canon v' := by
  obtain ⟨n1, n2, lt, w, hw, hteq⟩ := hc
  cases r with
  | begin => cases h; exact ⟨n1, n2, lt, w, hw, hteq⟩
  | fin => cases h; exact ⟨n1, n2, lt, w, hw, hteq⟩
  | addRowSet t r => cases h; exact ⟨nodup_filter_append v.rowsets (t, r) n1, n2, lt, w, hw, hteq⟩
  | deleteRowSet t r => cases h; exact ⟨n1.filter _, n2, lt, w, hw, hteq⟩
  | addDV t r d => cases h; exact ⟨n1, nodup_filter_append v.dvs (t, r, d) n2, lt, w, hw, hteq⟩
  | deleteDV t r d => cases h; exact ⟨n1, n2.filter _, lt, w, hw, hteq⟩
  | createTable name ncols =>
    obtain ⟨w', hw', ht', _⟩ := applyRec_table w v (.createTable name ncols) rfl hteq v' h
    have hlog : v'.tableLog = v.tableLog ++ [.createTable name ncols] := by
      simp only [View.applyRec] at h; split at h <;> cases h; rfl
    have hr : v'.rowsets = v.rowsets ∧ v'.dvs = v.dvs := by
      simp only [View.applyRec] at h; split at h <;> cases h; exact ⟨rfl, rfl⟩
    refine ⟨hr.1 ▸ n1, hr.2 ▸ n2, ?_, w', ?_, ht'⟩
    · rw [hlog]; intro x hx
      rcases List.mem_append.mp hx with hx | hx
      · exact lt x hx
      · simp at hx; subst hx; rfl
    · rw [hlog, applyRecs_append, hw]; simp [View.applyRecs, hw']
  | dropTable t =>
    obtain ⟨w', hw', ht', _⟩ := applyRec_table w v (.dropTable t) rfl hteq v' h
    have hlog : v'.tableLog = v.tableLog ++ [.dropTable t] := by
      simp only [View.applyRec] at h; split at h <;> cases h; rfl
    have hr : v'.rowsets = v.rowsets ∧ v'.dvs = v.dvs := by
      simp only [View.applyRec] at h; split at h <;> cases h; exact ⟨rfl, rfl⟩
    refine ⟨hr.1 ▸ n1, hr.2 ▸ n2, ?_, w', ?_, ht'⟩
    · rw [hlog]; intro x hx
      rcases List.mem_append.mp hx with hx | hx
      · exact lt x hx
      · simp at hx; subst hx; rfl
    · rw [hlog, applyRecs_append, hw]; simp [View.applyRecs, hw']

theorem canon_applyRecs (rs : List Rec) (v v' : View) (hc : Canon v) (h : v.applyRecs rs = .ok v') : Canon v' := by
  induction rs generalizing v with
  | nil => cases h; exact hc
  | cons r rs ih =>
    simp only [View.applyRecs] at h
    cases hr : v.applyRec r with
    | error e => simp [hr] at h
    | ok v1 => simp only [hr] at h; exact ih v1 (canon_applyRec v v1 r hc hr) h

theorem filter_ne_self {α : Type} [BEq α] [LawfulBEq α] (l : List α) (k : α) (h : k ∉ l) : l.filter (· != k) = l := by
  rw [List.filter_eq_self]
  intro a ha
  simp; intro he; exact h (he ▸ ha)

theorem applyRecs_adds (ks : List (Nat × Nat)) (w : View) (hnd : ks.Nodup) (hdis : ∀ k ∈ ks, k ∉ w.rowsets) :
    ∃ n, w.applyRecs (ks.map fun x => Rec.addRowSet x.1 x.2) = .ok { w with rowsets := w.rowsets ++ ks, nextR := n } := by
  induction ks generalizing w with
  | nil => exact ⟨w.nextR, by simp [View.applyRecs]⟩
  | cons k ks ih =>
    have hk : k ∉ w.rowsets := hdis k (List.mem_cons_self ..)
    have hnd' := (List.nodup_cons.mp hnd)
    simp only [List.map_cons, View.applyRecs, View.applyRec]
    have hf : w.rowsets.filter (· != (k.1, k.2)) = w.rowsets := filter_ne_self _ _ hk
    rw [hf]
    obtain ⟨n, hn⟩ := ih { w with rowsets := w.rowsets ++ [(k.1, k.2)], nextR := max w.nextR (k.2 + 1) } hnd'.2 (by
      intro k' hk' hmem
      rcases List.mem_append.mp hmem with h1 | h1
      · exact hdis k' (List.mem_cons_of_mem _ hk') h1
      · simp at h1; rw [h1] at hk'; exact hnd'.1 hk')
    exact ⟨n, by rw [hn]; simp⟩

theorem applyRecs_addDvs (ks : List (Nat × Nat × Nat)) (w : View) (hnd : ks.Nodup) (hdis : ∀ k ∈ ks, k ∉ w.dvs) :
    ∃ n, w.applyRecs (ks.map fun x => Rec.addDV x.1 x.2.1 x.2.2) = .ok { w with dvs := w.dvs ++ ks, nextD := n } := by
  induction ks generalizing w with
  | nil => exact ⟨w.nextD, by simp [View.applyRecs]⟩
  | cons k ks ih =>
    have hk : k ∉ w.dvs := hdis k (List.mem_cons_self ..)
    have hnd' := (List.nodup_cons.mp hnd)
    simp only [List.map_cons, View.applyRecs, View.applyRec]
    have hf : w.dvs.filter (· != (k.1, k.2.1, k.2.2)) = w.dvs := filter_ne_self _ _ hk
    rw [hf]
    obtain ⟨n, hn⟩ := ih { w with dvs := w.dvs ++ [(k.1, k.2.1, k.2.2)], nextD := max w.nextD (k.2.2 + 1) } hnd'.2 (by
      intro k' hk' hmem
      rcases List.mem_append.mp hmem with h1 | h1
      · exact hdis k' (List.mem_cons_of_mem _ hk') h1
      · simp at h1; rw [h1] at hk'; exact hnd'.1 hk')
    exact ⟨n, by rw [hn]; simp⟩

/-- The rewritten manifest loads to the same view, up to the re-derived id counters. -/
theorem load_rewrite (v : View) (hc : Canon v) :
    ∃ n m, View.empty.applyRecs (replay (rewriteRecs v)) = .ok { v with nextR := n, nextD := m } := by
  obtain ⟨n1, n2, lt, w0, hw0, hteq⟩ := hc
  let body := v.rowsets.map (fun x => Rec.addRowSet x.1 x.2) ++ v.dvs.map (fun x => Rec.addDV x.1 x.2.1 x.2.2) ++ v.tableLog
  have hnb : ∀ e ∈ body, e.isBracket = false := by
    intro e he
    simp only [body, List.mem_append, List.mem_map] at he
    rcases he with (⟨x, _, rfl⟩ | ⟨x, _, rfl⟩) | he
    · rfl
    · rfl
    · have := lt e he; cases e <;> simp_all [Rec.isTable, Rec.isBracket]
  have hrw : rewriteRecs v = [] ++ ([Rec.begin] ++ body ++ [Rec.fin]) := by
    simp [rewriteRecs, body, List.append_assoc]
  have hrep : replay (rewriteRecs v) = body := by
    rw [hrw, (replay_closed_txn [] body rfl hnb).1]; rfl
  rw [hrep]
  obtain ⟨n, hn⟩ := applyRecs_adds v.rowsets View.empty n1 (by intro k _ hk; cases hk)
  obtain ⟨m, hm⟩ := applyRecs_addDvs v.dvs { View.empty with rowsets := View.empty.rowsets ++ v.rowsets, nextR := n } n2
    (by intro k _ hk; cases hk)
  obtain ⟨w', hw', ht', f1, f2, f3, f4⟩ := applyRecs_table v.tableLog lt
    { ({ View.empty with rowsets := View.empty.rowsets ++ v.rowsets, nextR := n } : View) with
        dvs := View.empty.dvs ++ v.dvs, nextD := m } View.empty ⟨rfl, rfl, rfl⟩ w0 hw0
  refine ⟨n, m, ?_⟩
  simp only [body]
  rw [applyRecs_append, applyRecs_append, hn]
  simp only [hm, hw']
  congr 1
  obtain ⟨t1, t2, t3⟩ := ht'
  obtain ⟨u1, u2, u3⟩ := hteq
  cases w'
  cases v
  simp only [View.empty, List.nil_append] at *
  simp_all

theorem view_ok_parts {d : Disk} {v : View} (hv : view d = .ok v) :
    View.empty.applyRecs (replay d.recs) = .ok v ∧ filesOk d v = true := by
  unfold view at hv
  cases hl : View.empty.applyRecs (replay d.recs) with
  | error e => simp [hl] at hv
  | ok v0 =>
    simp only [hl] at hv
    by_cases hok : filesOk d v0 = true
    · simp [hok] at hv; subst hv; exact ⟨rfl, hok⟩
    · simp only [hok, Bool.false_eq_true, if_false] at hv
      split at hv <;> cases hv

theorem canon_of_view {d : Disk} {v : View} (hv : view d = .ok v) : Canon v :=
  canon_applyRecs _ _ _ canon_empty (view_ok_parts hv).1

theorem agree_apply_rename (v : View) (d : Disk) (p : Progress) : Agree v d (d.apply .renameTmp p) := by
  simp only [Disk.apply]
  cases d.tmp with
  | none => exact Agree.refl v d
  | some x => exact ⟨fun _ _ => rfl, fun _ _ => rfl⟩


/-! ### histories: the shape of the log is an invariant of `step` -/

theorem fresh_empty_mkdir (t r : Nat) (rows : List (List Int)) (n : Nat) : Fresh View.empty (.mkdir t r rows n) := by
  simp [Fresh, View.empty]
theorem fresh_empty_writeFile (t r i : Nat) : Fresh View.empty (.writeFile t r i) := by simp [Fresh, View.empty]
theorem fresh_empty_writeDv (t r d : Nat) (l : List Nat) : Fresh View.empty (.writeDv t r d l) := by
  simp [Fresh, View.empty]
theorem fresh_empty_rmdir (t r : Nat) : Fresh View.empty (.rmdir t r) := by simp [Fresh, View.empty]

/-- The write-ahead steps of any statement touch nothing an (empty) view references: in particular
they never change `manifest.json`. -/
theorem dataSteps_fresh_empty (s : State) (op : Op) : ∀ x ∈ dataSteps s op, Fresh View.empty x := by
  intro x hx
  cases op with
  | create name n => simp [dataSteps] at hx
  | drop name => simp [dataSteps] at hx
  | reopen => simp [dataSteps] at hx
  | vacuum => simp [dataSteps] at hx
  | insert name rows =>
    simp only [dataSteps] at hx
    split at hx
    · cases hx
    · split at hx
      · cases hx
      · simp only [List.mem_append, List.mem_singleton, List.mem_map] at hx
        rcases hx with rfl | ⟨i, _, rfl⟩
        · exact fresh_empty_mkdir _ _ _ _
        · exact fresh_empty_writeFile _ _ _
  | delete name c k =>
    simp only [dataSteps] at hx
    split at hx
    · cases hx
    · simp only [List.mem_map] at hx
      obtain ⟨y, _, rfl⟩ := hx
      exact fresh_empty_writeDv _ _ _ _
  | compact name =>
    simp only [dataSteps] at hx
    split at hx
    · cases hx
    · split at hx
      · cases hx
      · simp only [List.mem_append, List.mem_singleton, List.mem_map] at hx
        rcases hx with rfl | ⟨i, _, rfl⟩
        · exact fresh_empty_mkdir _ _ _ _
        · exact fresh_empty_writeFile _ _ _

/-- The records a statement logs are never `Begin` / `End`. -/
theorem txnOf_nonbracket (s : State) (op : Op) (es : List Rec) (h : txnOf s op = some es) :
    ∀ e ∈ es, e.isBracket = false := by
  intro e he
  cases op with
  | reopen => simp [txnOf] at h
  | vacuum => simp [txnOf] at h
  | create name n =>
    simp only [txnOf] at h
    split at h
    · cases h
    · cases h; simp at he; subst he; rfl
  | drop name =>
    simp only [txnOf, Option.map_eq_some_iff] at h
    obtain ⟨ti, _, rfl⟩ := h
    simp only [List.mem_append, List.mem_singleton, List.mem_flatMap, List.mem_map] at he
    rcases he with rfl | ⟨r, _, rfl | ⟨x, _, rfl⟩⟩ <;> rfl
  | insert name rows =>
    simp only [txnOf, Option.map_eq_some_iff] at h
    obtain ⟨ti, _, rfl⟩ := h
    split at he
    · cases he
    · simp at he; subst he; rfl
  | delete name c k =>
    simp only [txnOf, Option.map_eq_some_iff] at h
    obtain ⟨ti, _, rfl⟩ := h
    simp only [List.mem_map] at he
    obtain ⟨x, _, rfl⟩ := he
    rfl
  | compact name =>
    simp only [txnOf] at h
    split at h
    · cases h
    · split at h
      · cases h
      · cases h
        simp only [List.mem_append, List.mem_map, List.mem_flatMap] at he
        rcases he with (he | ⟨r, _, rfl⟩) | ⟨r, _, x, _, rfl⟩
        · split at he
          · cases he
          · simp at he; subst he; rfl
        · rfl
        · rfl

theorem rewriteRecs_balanced (v : View) (hc : Canon v) : Balanced (rewriteRecs v) := by
  let body := v.rowsets.map (fun x => Rec.addRowSet x.1 x.2) ++ v.dvs.map (fun x => Rec.addDV x.1 x.2.1 x.2.2) ++ v.tableLog
  have hnb : ∀ e ∈ body, e.isBracket = false := by
    intro e he
    simp only [body, List.mem_append, List.mem_map] at he
    rcases he with (⟨x, _, rfl⟩ | ⟨x, _, rfl⟩) | he
    · rfl
    · rfl
    · have := hc.logTable e he; cases e <;> simp_all [Rec.isTable, Rec.isBracket]
  have hrw : rewriteRecs v = [] ++ ([Rec.begin] ++ body ++ [Rec.fin]) := by
    simp [rewriteRecs, body, List.append_assoc]
  rw [hrw]
  exact (replay_closed_txn [] body rfl hnb).2

end Crash
end RlModel
