import RlModel.Lemmas.PlanAgg
/-! Grouping of a list made of blocks with pairwise different keys (C01: the aggregate
decorrelation rules `pushdown-apply-scalar-agg`, `pushdown-apply-group-agg`). -/
namespace RlModel.P

/-- Keys occurring in a group list. -/
def gkeys (gs : List (List PV × List Env)) : List (List PV) := gs.map fun g => g.1

/-- A row whose key is not among the first groups is inserted into the rest. -/
theorem groupInsert_append_absent (ks : List VExpr) (ρ : Env) (gs1 gs2 : List (List PV × List Env))
    (h : groupKey ks ρ ∉ gkeys gs1) : groupInsert ks ρ (gs1 ++ gs2) = gs1 ++ groupInsert ks ρ gs2 := by
  induction gs1 with
  | nil => rfl
  | cons g gs ih =>
    obtain ⟨k, ms⟩ := g
    have hk : ¬ k = groupKey ks ρ := by
      intro e; apply h; simp [gkeys, e]
    have hrest : groupKey ks ρ ∉ gkeys gs := by
      intro hm; apply h; simp only [gkeys, List.map_cons, List.mem_cons]; exact Or.inr hm
    simp only [List.cons_append, groupInsert, hk, if_false]
    rw [ih hrest]

/-- Every key of `groups ks xs` is the key of a row of `xs`. -/
theorem groups_keys (ks : List VExpr) (xs : List Env) (k : List PV) (hk : k ∈ gkeys (groups ks xs)) :
    ∃ x ∈ xs, groupKey ks x = k := by
  simp only [gkeys, List.mem_map] at hk
  obtain ⟨g, hg, rfl⟩ := hk
  have hinv := groups_inv ks xs g hg
  cases hms : g.2 with
  | nil => exact absurd hms hinv.1
  | cons m ms =>
    have hm : m ∈ g.2 := by rw [hms]; simp
    -- members of a group are rows of the input
    have hmem : ∀ (ys : List Env) (g : List PV × List Env), g ∈ groups ks ys → ∀ m ∈ g.2, m ∈ ys := by
      intro ys
      induction ys with
      | nil => intro g hg; cases hg
      | cons y ys ih =>
        intro g hg m hm
        simp only [groups] at hg
        -- membership in groupInsert
        have hgi : ∀ (gs : List (List PV × List Env)), (∀ g ∈ gs, ∀ m ∈ g.2, m ∈ ys) →
            ∀ g ∈ groupInsert ks y gs, ∀ m ∈ g.2, m ∈ y :: ys := by
          intro gs
          induction gs with
          | nil =>
            intro _ g hg m hm
            simp only [groupInsert, List.mem_singleton] at hg
            subst hg
            simp at hm
            simp [hm]
          | cons g0 gs ihg =>
            intro hall g hg m hm
            obtain ⟨k0, ms0⟩ := g0
            by_cases hk0 : k0 = groupKey ks y
            · simp only [groupInsert, hk0, if_true] at hg
              rcases List.mem_cons.mp hg with rfl | hg'
              · rcases List.mem_cons.mp hm with rfl | hm'
                · simp
                · exact List.mem_cons_of_mem _ (hall (k0, ms0) (by simp) m hm')
              · exact List.mem_cons_of_mem _ (hall g (by simp [hg']) m hm)
            · simp only [groupInsert, hk0, if_false] at hg
              rcases List.mem_cons.mp hg with rfl | hg'
              · exact List.mem_cons_of_mem _ (hall (k0, ms0) (by simp) m hm)
              · exact ihg (fun g hg => hall g (by simp [hg])) g hg' m hm
        exact hgi (groups ks ys) ih g hg m hm
    exact ⟨m, hmem xs g hg m hm, hinv.2 m hm⟩

/-- Two lists without a common key are grouped independently (the groups of the later list come
first: `groups` inserts from the back and appends new groups). -/
theorem groups_append_disjoint (ks : List VExpr) (xs ys : List Env)
    (h : ∀ x ∈ xs, ∀ y ∈ ys, groupKey ks x ≠ groupKey ks y) :
    groups ks (xs ++ ys) = groups ks ys ++ groups ks xs := by
  induction xs with
  | nil => simp [groups]
  | cons x xs ih =>
    have ih' := ih (fun a ha b hb => h a (by simp [ha]) b hb)
    simp only [List.cons_append, groups]
    rw [ih']
    apply groupInsert_append_absent
    intro hk
    obtain ⟨y, hy, hky⟩ := groups_keys ks ys _ hk
    exact h x (by simp) y hy hky.symm

/-- A list of blocks with pairwise different keys: the groups are the groups of the blocks, last
block first. -/
theorem groups_flatMap_blocks {α} (ks : List VExpr) (L : List α) (f : α → List Env)
    (h : L.Pairwise fun a b => ∀ x ∈ f a, ∀ y ∈ f b, groupKey ks x ≠ groupKey ks y) :
    groups ks (L.flatMap f) = L.reverse.flatMap fun l => groups ks (f l) := by
  induction L with
  | nil => rfl
  | cons l L ih =>
    have hp := List.pairwise_cons.mp h
    simp only [List.flatMap_cons, List.reverse_cons, List.flatMap_append, List.flatMap_nil, List.append_nil]
    rw [groups_append_disjoint ks (f l) (L.flatMap f), ih hp.2]
    intro x hx y hy
    obtain ⟨b, hb, hyb⟩ := List.mem_flatMap.mp hy
    exact hp.1 b hb x hx y hyb

/-- A non-empty list whose rows all have the key `k` is one group. -/
theorem groups_const_key (ks : List VExpr) (k : List PV) (x : Env) (xs : List Env)
    (h : ∀ y ∈ x :: xs, groupKey ks y = k) : groups ks (x :: xs) = [(k, x :: xs)] := by
  induction xs generalizing x with
  | nil =>
    simp only [groups, groupInsert]
    rw [h x (by simp)]
  | cons y ys ih =>
    have := ih y (fun z hz => h z (by simp [List.mem_cons] at hz ⊢; exact Or.inr hz))
    simp only [groups] at this ⊢
    rw [this]
    simp only [groupInsert]
    rw [h x (by simp), if_pos rfl]

theorem groupKey_append (a b : List VExpr) (ρ : Env) : groupKey (a ++ b) ρ = groupKey a ρ ++ groupKey b ρ := by
  simp [groupKey]

/-- Inserting a row whose `a`-key is `k` into groups keyed by `k ++ ·`. -/
theorem groupInsert_prefix (a ks : List VExpr) (k : List PV) (ρ : Env) (gs : List (List PV × List Env))
    (h : groupKey a ρ = k) :
    groupInsert (a ++ ks) ρ (gs.map fun g => (k ++ g.1, g.2))
      = (groupInsert ks ρ gs).map fun g => (k ++ g.1, g.2) := by
  induction gs with
  | nil => simp [groupInsert, groupKey_append, h]
  | cons g gs ih =>
    obtain ⟨k0, ms⟩ := g
    simp only [List.map_cons, groupInsert, groupKey_append, h]
    by_cases hk : k0 = groupKey ks ρ
    · simp [hk]
    · have : ¬ (k ++ k0 = k ++ groupKey ks ρ) := fun e => hk (List.append_cancel_left e)
      simp only [this, hk, if_false, List.map_cons]
      rw [← ih]

/-- Rows that all have the `a`-key `k` are grouped by `a ++ ks` as by `ks`, with `k` in front of
every key. -/
theorem groups_prefix (a ks : List VExpr) (k : List PV) (xs : List Env)
    (h : ∀ x ∈ xs, groupKey a x = k) :
    groups (a ++ ks) xs = (groups ks xs).map fun g => (k ++ g.1, g.2) := by
  induction xs with
  | nil => rfl
  | cons x xs ih =>
    simp only [groups]
    rw [ih (fun y hy => h y (by simp [hy]))]
    exact groupInsert_prefix a ks k x _ (h x (by simp))

end RlModel.P
