/-
Row-level lemmas about the small-step storage model (used by Thm/C09 and Thm/C10):
* `DvInv` — delete vectors only name known, committed row-set ids (so a freshly reserved id has
  no delete vector), preserved by every kernel operation;
* what a scan returns (`mem_scan`), how new delete vectors change it (`liveFrom_extra`);
* scans of permuted key lists return permuted rows (`scan?_perm`, `sortKeys_perm`).
-/
import RlModel.Thm.C08

namespace RlModel
namespace SC

/-! ### delete vectors name known row-sets -/

structure DvInv (k : K) : Prop where
  known_dvs : ∀ e, e ≤ k.epoch → ∀ x ∈ (k.status e).dvs, x.1.2 < k.nextRid
  known_infl : ∀ h f, k.infl = some (h, f) → ∀ x ∈ f.snap.dvs, x.1.2 < k.nextRid
  resv_dvs : ∀ r ∈ k.resv, ∀ e, e ≤ k.epoch → ∀ x ∈ (k.status e).dvs, x.1 ≠ r.2
  resv_infl : ∀ r ∈ k.resv, ∀ h f, k.infl = some (h, f) → ∀ x ∈ f.snap.dvs, x.1 ≠ r.2

theorem dvinv_init : DvInv ({} : K) where
  known_dvs := fun _ _ _ hx => nomatch hx
  known_infl := fun _ _ hf => nomatch hf
  resv_dvs := fun _ hr => nomatch hr
  resv_infl := fun _ hr => nomatch hr

theorem applyOp_dvs_mem {s s' : Snap} {o : Op} (h : applyOp s o = some s')
    {x : Key × Nat × List Nat} (hx : x ∈ s'.dvs) : x ∈ s.dvs ∨ x.1 ∈ dvKeys [o] := by
  cases o <;> simp only [applyOp] at h
  · cases h; exact Or.inl hx
  · cases h; exact Or.inl hx
  · cases h; exact Or.inl hx
  · cases h; exact Or.inl hx
  · cases h
    simp only [List.mem_cons] at hx
    rcases hx with rfl | hx
    · right; simp [dvKeys]
    · exact Or.inl hx
  · cases h; exact Or.inl (List.mem_filter.mp hx).1

theorem dvKeys_cons (o : Op) (r : List Op) : dvKeys (o :: r) = dvKeys [o] ++ dvKeys r := by
  cases o <;> simp [dvKeys]

theorem applyOps_dvs_mem : ∀ (ops : List Op) {s s' : Snap}, applyOps s ops = some s' →
    ∀ {x : Key × Nat × List Nat}, x ∈ s'.dvs → x ∈ s.dvs ∨ x.1 ∈ dvKeys ops
  | [], s, s', h, x, hx => by simp only [applyOps] at h; cases h; exact Or.inl hx
  | o :: r, s, s', h, x, hx => by
      simp only [applyOps] at h
      split at h
      · rename_i s1 h1
        rcases applyOps_dvs_mem r h hx with h2 | h2
        · rcases applyOp_dvs_mem h1 h2 with h3 | h3
          · exact Or.inl h3
          · right; rw [dvKeys_cons]; exact List.mem_append_left _ h3
        · right; rw [dvKeys_cons]; exact List.mem_append_right _ h2
      · cases h

theorem dvinv_kstep {k k' : K} (hk : KInv k) (h : DvInv k) (st : KStep k k') : DvInv k' := by
  cases st with
  | refl => exact h
  | pin th => exact ⟨h.known_dvs, h.known_infl, h.resv_dvs, h.resv_infl⟩
  | unpin th e hm => exact ⟨h.known_dvs, h.known_infl, h.resv_dvs, h.resv_infl⟩
  | find th => exact ⟨h.known_dvs, h.known_infl, h.resv_dvs, h.resv_infl⟩
  | unlink th ed key hm => exact ⟨h.known_dvs, h.known_infl, h.resv_dvs, h.resv_infl⟩
  | abandon th => exact ⟨h.known_dvs, h.known_infl, h.resv_dvs, h.resv_infl⟩
  | allocDv n => exact ⟨h.known_dvs, h.known_infl, h.resv_dvs, h.resv_infl⟩
  | reserve th t =>
      refine ⟨fun e he x hx => Nat.lt_succ_of_lt (h.known_dvs e he x hx),
        fun hh f hf x hx => Nat.lt_succ_of_lt (h.known_infl hh f hf x hx), ?_, ?_⟩
      · intro r hr e he x hx heq
        simp only [kReserve, List.mem_cons] at hr
        rcases hr with rfl | hr
        · have := h.known_dvs e he x hx
          rw [heq] at this
          exact Nat.lt_irrefl _ this
        · exact h.resv_dvs r hr e he x hx heq
      · intro r hr hh f hf x hx heq
        simp only [kReserve, List.mem_cons] at hr
        rcases hr with rfl | hr
        · have := h.known_infl hh f hf x hx
          rw [heq] at this
          exact Nat.lt_irrefl _ this
        · exact h.resv_infl r hr hh f hf x hx heq
  | commitA _ th ops hc =>
      simp only [kCommitA] at hc
      split at hc
      · cases hc
      split at hc
      · cases hc
      rename_i hinfl hok
      have hok : opsOk k th ops = true := by simpa using hok
      split at hc
      · cases hc
      rename_i snap' hsnap
      cases hc
      refine ⟨h.known_dvs, ?_, fun r hr => h.resv_dvs r (mem_resv_filter hr).1, ?_⟩
      · intro hh f hf x hx
        cases hf
        rcases applyOps_dvs_mem ops hsnap hx with h1 | h1
        · exact h.known_dvs k.epoch (Nat.le_refl _) x h1
        · exact (opsOk_dv hok h1).1
      · intro r hr hh f hf x hx heq
        cases hf
        have hr1 := (mem_resv_filter hr).1
        rcases applyOps_dvs_mem ops hsnap hx with h1 | h1
        · exact h.resv_dvs r hr1 k.epoch (Nat.le_refl _) x h1 heq
        · exact (opsOk_dv hok h1).2 r hr1 heq.symm
  | commitAPanic _ th ops hc =>
      simp only [kCommitAPanic] at hc
      split at hc
      · cases hc
      split at hc
      · cases hc
      split at hc
      · cases hc
      cases hc
      exact ⟨h.known_dvs, h.known_infl, fun r hr => h.resv_dvs r (mem_resv_filter hr).1,
        fun r hr => h.resv_infl r (mem_resv_filter hr).1⟩
  | commitB _ th hc =>
      simp only [kCommitB] at hc
      split at hc
      · cases hc
      rename_i hh f hi
      split at hc
      case isFalse => cases hc
      cases hc
      refine ⟨?_, (fun _ _ hf => by cases hf), ?_, (fun _ _ _ _ hf => by cases hf)⟩
      · intro e he x hx
        by_cases hee : e = k.epoch + 1
        · simp only [hee, if_true] at hx
          exact h.known_infl hh f hi x hx
        · simp only [hee, if_false] at hx
          have : e ≤ k.epoch + 1 := he
          exact h.known_dvs e (by omega) x hx
      · intro r hr e he x hx
        by_cases hee : e = k.epoch + 1
        · simp only [hee, if_true] at hx
          exact h.resv_infl r hr hh f hi x hx
        · simp only [hee, if_false] at hx
          have : e ≤ k.epoch + 1 := he
          exact h.resv_dvs r hr e (by omega) x hx

/-- a reserved (not yet committed) row-set id has no delete vector in the current snapshot -/
theorem reserved_no_dv {k : K} (h : DvInv k) {r : Tid × Key} (hr : r ∈ k.resv) :
    deadPos (k.status k.epoch) r.2 = [] := by
  simp only [deadPos]
  have : (k.status k.epoch).dvs.filter (fun x => x.1 == r.2) = [] := by
    apply List.filter_eq_nil_iff.mpr
    intro x hx hxe
    simp only [beq_iff_eq] at hxe
    exact h.resv_dvs r hr k.epoch (Nat.le_refl _) x hx hxe
  rw [this]
  rfl

/-- both invariants along any schedule -/
theorem dvinv_reachable : ∀ (acts : List Act) {s s' : Sys}, Inv s → DvInv s.k →
    run s acts = some s' → DvInv s'.k
  | [], s, s', _, hd, hr => by simp only [run] at hr; cases hr; exact hd
  | a :: r, s, s', h, hd, hr => by
      simp only [run] at hr
      split at hr
      · rename_i s1 h1
        exact dvinv_reachable r (inv_step h h1) (dvinv_kstep h hd (astep_kstep h1)) hr
      · cases hr

/-! ### what a scan returns -/

theorem liveFrom_congr {d1 d2 : List Nat} (h : ∀ j, d1.contains j = d2.contains j) :
    ∀ (i : Nat) (rows : List Int), liveFrom i d1 rows = liveFrom i d2 rows
  | _, [] => rfl
  | i, v :: r => by
      simp only [liveFrom, h i, liveFrom_congr h (i + 1) r]

/-- the value at a live position is the value stored at that position -/
theorem liveFrom_get {dead : List Nat} : ∀ {i : Nat} {rows : List Int} {j : Nat} {v : Int},
    (j, v) ∈ liveFrom i dead rows → i ≤ j ∧ rows[j - i]? = some v
  | _, [], _, _, h => by simp [liveFrom] at h
  | i, x :: r, j, v, h => by
      simp only [liveFrom] at h
      have tl : (j, v) ∈ liveFrom (i + 1) dead r → i ≤ j ∧ (x :: r)[j - i]? = some v := by
        intro ht
        obtain ⟨h1, h2⟩ := liveFrom_get ht
        refine ⟨by omega, ?_⟩
        have : j - i = (j - (i + 1)) + 1 := by omega
        rw [this, List.getElem?_cons_succ]
        exact h2
      split at h
      · exact tl h
      · rcases List.mem_cons.mp h with h | h
        · cases h
          exact ⟨Nat.le_refl _, by simp⟩
        · exact tl h

theorem liveFrom_fun {dead : List Nat} {i : Nat} {rows : List Int} {j : Nat} {v v' : Int}
    (h : (j, v) ∈ liveFrom i dead rows) (h' : (j, v') ∈ liveFrom i dead rows) : v = v' := by
  have a := (liveFrom_get h).2
  have b := (liveFrom_get h').2
  rw [a] at b
  exact Option.some.inj b

/-- Adding the positions `extra` to the deleted ones removes exactly the live rows at those
positions; when `extra` is "the live positions whose value satisfies `p`", that is a filter. -/
theorem liveFrom_extra (p : Int → Bool) {dead extra : List Nat} :
    ∀ (i : Nat) (rows : List Int),
      (∀ j v, (j, v) ∈ liveFrom i dead rows → extra.contains j = p v) →
      liveFrom i (extra ++ dead) rows = (liveFrom i dead rows).filter (fun q => !p q.2)
  | _, [], _ => rfl
  | i, x :: r, h => by
      have hc : (extra ++ dead).contains i = (extra.contains i || dead.contains i) := by
        simp [List.contains_eq_mem, List.mem_append, Bool.decide_or]
      simp only [liveFrom, hc]
      by_cases hd : dead.contains i = true
      · have ih := liveFrom_extra p (i + 1) r (fun j v hj => h j v (by simp only [liveFrom, hd, if_true]; exact hj))
        simp only [hd, Bool.or_true, if_true]
        exact ih
      · have hd' : dead.contains i = false := by simpa using hd
        have hmem : ∀ j v, (j, v) ∈ liveFrom (i + 1) dead r → (j, v) ∈ liveFrom i dead (x :: r) := by
          intro j v hj
          simp only [liveFrom, hd', Bool.false_eq_true, if_false]
          exact List.mem_cons_of_mem _ hj
        have ih := liveFrom_extra p (i + 1) r (fun j v hj => h j v (hmem j v hj))
        have hx : extra.contains i = p x := h i x (by
          simp only [liveFrom, hd', Bool.false_eq_true, if_false]
          exact List.mem_cons_self)
        simp only [hd', Bool.or_false, hx, Bool.false_eq_true, if_false, List.filter_cons]
        by_cases hp : p x = true
        · simp only [hp, if_true, Bool.not_true, Bool.false_eq_true, if_false]
          exact ih
        · have hp' : p x = false := by simpa using hp
          simp only [hp', Bool.false_eq_true, if_false, Bool.not_false, if_true]
          rw [ih]

/-- Adding the positions `extra` to the deleted ones removes exactly the live rows AT those
positions (no assumption on `extra`). -/
theorem liveFrom_extra_pos {dead extra : List Nat} :
    ∀ (i : Nat) (rows : List Int),
      liveFrom i (extra ++ dead) rows = (liveFrom i dead rows).filter (fun q => !extra.contains q.1)
  | _, [] => rfl
  | i, x :: r => by
      have hc : (extra ++ dead).contains i = (extra.contains i || dead.contains i) := by
        simp [List.contains_eq_mem, List.mem_append, Bool.decide_or]
      simp only [liveFrom, hc]
      have ih := liveFrom_extra_pos (dead := dead) (extra := extra) (i + 1) r
      by_cases hd : dead.contains i = true
      · simp only [hd, Bool.or_true, if_true]
        exact ih
      · have hd' : dead.contains i = false := by simpa using hd
        by_cases he : extra.contains i = true
        · simp only [hd', he, Bool.or_false, if_true, Bool.false_eq_true, if_false,
            List.filter_cons, Bool.not_true]
          exact ih
        · have he' : extra.contains i = false := by simpa using he
          simp only [hd', he', Bool.or_false, Bool.false_eq_true, if_false, List.filter_cons,
            Bool.not_false, if_true]
          rw [ih]

theorem mem_scan {pool : List (Key × List Int)} {s : Snap} : ∀ {keys : List Key}
    {l : List (Key × Nat × Int)}, scan? pool s keys = some l → ∀ x : Key × Nat × Int,
    (x ∈ l ↔ x.1 ∈ keys ∧ ∃ rows, lookupPool pool x.1 = some rows
        ∧ (x.2.1, x.2.2) ∈ liveFrom 0 (deadPos s x.1) rows)
  | [], l, h, x => by
      simp only [scan?] at h
      cases h
      simp
  | key :: r, l, h, x => by
      simp only [scan?] at h
      split at h
      · rename_i rows rest hl hr
        cases h
        simp only [List.mem_append, List.mem_map, List.mem_cons]
        rw [mem_scan hr x]
        constructor
        · rintro (⟨q, hq, rfl⟩ | ⟨h1, h2⟩)
          · exact ⟨Or.inl rfl, rows, hl, hq⟩
          · exact ⟨Or.inr h1, h2⟩
        · rintro ⟨h1 | h1, rows', hl', hq⟩
          · left
            rw [h1] at hl' hq
            rw [hl] at hl'
            cases hl'
            refine ⟨(x.2.1, x.2.2), hq, ?_⟩
            rw [← h1]
          · exact Or.inr ⟨h1, rows', hl', hq⟩
      · cases h

/-- a snapshot that differs only in delete vectors, such that per row-set the live rows are the
old live rows minus those satisfying `p` -/
theorem scan?_filter {pool : List (Key × List Int)} {s s' : Snap} (p : Int → Bool) :
    ∀ {keys : List Key} {l : List (Key × Nat × Int)},
    (∀ key ∈ keys, ∀ rows, lookupPool pool key = some rows →
      liveFrom 0 (deadPos s' key) rows = (liveFrom 0 (deadPos s key) rows).filter (fun q => !p q.2)) →
    scan? pool s keys = some l → scan? pool s' keys = some (l.filter (fun x => !p x.2.2))
  | [], l, _, h => by simp only [scan?] at h; cases h; rfl
  | key :: r, l, hk, h => by
      simp only [scan?] at h
      split at h
      · rename_i rows rest hl hr
        cases h
        have ih := scan?_filter p (keys := r) (fun k' hk' => hk k' (List.mem_cons_of_mem _ hk')) hr
        simp only [scan?, hl, ih, hk key List.mem_cons_self rows hl, List.filter_append,
          List.filter_map]
        rfl
      · cases h

/-- a snapshot that differs only in delete vectors, such that per row-set the live rows are the
old live rows minus those at the positions `extra key` -/
theorem scan?_filter_pos {pool : List (Key × List Int)} {s s' : Snap} (extra : Key → List Nat) :
    ∀ {keys : List Key} {l : List (Key × Nat × Int)},
    (∀ key ∈ keys, ∀ rows, lookupPool pool key = some rows →
      liveFrom 0 (deadPos s' key) rows
        = (liveFrom 0 (deadPos s key) rows).filter (fun q => !(extra key).contains q.1)) →
    scan? pool s keys = some l →
    scan? pool s' keys = some (l.filter (fun x => !(extra x.1).contains x.2.1))
  | [], l, _, h => by simp only [scan?] at h; cases h; rfl
  | key :: r, l, hk, h => by
      simp only [scan?] at h
      split at h
      · rename_i rows rest hl hr
        cases h
        have ih := scan?_filter_pos extra (keys := r) (fun k' hk' => hk k' (List.mem_cons_of_mem _ hk')) hr
        simp only [scan?, hl, ih, hk key List.mem_cons_self rows hl, List.filter_append,
          List.filter_map]
        rfl
      · cases h

theorem scan?_live_congr {pool : List (Key × List Int)} {s s' : Snap} :
    ∀ {keys : List Key},
    (∀ key ∈ keys, ∀ rows, lookupPool pool key = some rows →
      liveFrom 0 (deadPos s' key) rows = liveFrom 0 (deadPos s key) rows) →
    scan? pool s' keys = scan? pool s keys
  | [], _ => rfl
  | key :: r, hk => by
      have ih := scan?_live_congr (keys := r) (fun k' hk' => hk k' (List.mem_cons_of_mem _ hk'))
      cases hl : lookupPool pool key with
      | none => simp only [scan?, hl]
      | some rows =>
        cases hr : scan? pool s r with
        | none => simp only [scan?, hl, ih, hr]
        | some rest => simp only [scan?, hl, ih, hr, hk key List.mem_cons_self rows hl]

/-! ### the changeset of a DELETE -/

/-- delete vectors after pushing one per key -/
def pushDvs (hs : List (Key × Nat)) : Nat → List Key → List (Key × Nat × List Nat) →
    List (Key × Nat × List Nat)
  | _, [], acc => acc
  | dv0, key :: r, acc =>
      pushDvs hs (dv0 + 1) r ((key, dv0, (hs.filter (fun h => h.1 == key)).map (·.2)) :: acc)

theorem applyOps_dvOps (hs : List (Key × Nat)) : ∀ (keys : List Key) (dv0 : Nat) (s : Snap),
    applyOps s (dvOps dv0 hs keys) = some { rs := s.rs, dvs := pushDvs hs dv0 keys s.dvs }
  | [], _, s => by cases s; rfl
  | key :: r, dv0, s => by
      simp only [dvOps, applyOps, applyOp, pushDvs]
      rw [applyOps_dvOps hs r (dv0 + 1)]

def deadOf (dvs : List (Key × Nat × List Nat)) (key : Key) : List Nat :=
  (dvs.filter (fun x => x.1 == key)).flatMap (fun x => x.2.2)

theorem deadPos_eq (s : Snap) (key : Key) : deadPos s key = deadOf s.dvs key := rfl

theorem mem_positions (hs : List (Key × Nat)) (key : Key) (j : Nat) :
    j ∈ (hs.filter (fun h => h.1 == key)).map (·.2) ↔ (key, j) ∈ hs := by
  simp only [List.mem_map, List.mem_filter, beq_iff_eq]
  constructor
  · rintro ⟨h, ⟨hh, hk⟩, rfl⟩
    have : h = (key, h.2) := by rw [← hk]
    rw [← this]; exact hh
  · intro h
    exact ⟨(key, j), ⟨h, rfl⟩, rfl⟩

theorem mem_deadOf_cons (d : Key × Nat × List Nat) (acc : List (Key × Nat × List Nat)) (key : Key)
    (j : Nat) : j ∈ deadOf (d :: acc) key ↔ (d.1 = key ∧ j ∈ d.2.2) ∨ j ∈ deadOf acc key := by
  simp only [deadOf, List.filter_cons]
  by_cases hk : d.1 = key
  · have hb : (d.1 == key) = true := by simpa using hk
    simp [hb, hk]
  · have hb : (d.1 == key) = false := beq_false_of_ne hk
    simp [hb, hk]

theorem mem_deadOf_push (hs : List (Key × Nat)) (key : Key) (j : Nat) :
    ∀ (keys : List Key) (dv0 : Nat) (acc : List (Key × Nat × List Nat)),
    (j ∈ deadOf (pushDvs hs dv0 keys acc) key ↔ j ∈ deadOf acc key ∨ (key ∈ keys ∧ (key, j) ∈ hs))
  | [], _, acc => by simp [pushDvs]
  | k' :: r, dv0, acc => by
      simp only [pushDvs]
      rw [mem_deadOf_push hs key j r (dv0 + 1), mem_deadOf_cons]
      simp only [mem_positions, List.mem_cons]
      constructor
      · rintro ((⟨h1, h2⟩ | h) | ⟨h1, h2⟩)
        · subst h1; exact Or.inr ⟨Or.inl rfl, h2⟩
        · exact Or.inl h
        · exact Or.inr ⟨Or.inr h1, h2⟩
      · rintro (h | ⟨h1 | h1, h2⟩)
        · exact Or.inl (Or.inr h)
        · subst h1; exact Or.inl (Or.inl ⟨rfl, h2⟩)
        · exact Or.inr ⟨h1, h2⟩

theorem mem_dedupKeys {x : Key} : ∀ {l : List Key}, x ∈ dedupKeys l ↔ x ∈ l
  | [] => by simp [dedupKeys]
  | y :: r => by
      simp only [dedupKeys]
      split
      · rename_i hc
        rw [mem_dedupKeys (l := r)]
        simp only [List.contains_eq_mem, decide_eq_true_eq] at hc
        constructor
        · exact fun h => List.mem_cons_of_mem _ h
        · intro h
          rcases List.mem_cons.mp h with rfl | h
          · exact hc
          · exact h
      · simp only [List.mem_cons, mem_dedupKeys (l := r)]

theorem mem_insertSorted {k x : Key} : ∀ {l : List Key}, x ∈ insertSorted k l ↔ x = k ∨ x ∈ l
  | [] => by simp [insertSorted]
  | y :: r => by
      simp only [insertSorted]
      split
      · simp
      · simp only [List.mem_cons, mem_insertSorted (l := r)]
        constructor
        · rintro (h | h | h)
          · exact Or.inr (Or.inl h)
          · exact Or.inl h
          · exact Or.inr (Or.inr h)
        · rintro (h | h | h)
          · exact Or.inr (Or.inl h)
          · exact Or.inl h
          · exact Or.inr (Or.inr h)

theorem mem_sortKeys {x : Key} : ∀ {l : List Key}, x ∈ sortKeys l ↔ x ∈ l
  | [] => by simp [sortKeys]
  | y :: r => by
      simp only [sortKeys, mem_insertSorted, mem_sortKeys (l := r), List.mem_cons]

theorem poolAdds_dvOps (hs : List (Key × Nat)) : ∀ (keys : List Key) (dv0 : Nat),
    poolAdds (dvOps dv0 hs keys) = []
  | [], _ => rfl
  | _ :: r, dv0 => by simp only [dvOps, poolAdds, poolAdds_dvOps hs r (dv0 + 1)]

/-! ### permuted key lists -/

theorem insertSorted_perm (k : Key) : ∀ (l : List Key), (insertSorted k l).Perm (k :: l)
  | [] => List.Perm.refl _
  | y :: r => by
      simp only [insertSorted]
      split
      · exact List.Perm.refl _
      · exact ((insertSorted_perm k r).cons y).trans (List.Perm.swap k y r)

theorem sortKeys_perm : ∀ (l : List Key), (sortKeys l).Perm l
  | [] => List.Perm.refl _
  | y :: r => by
      simp only [sortKeys]
      exact (insertSorted_perm y (sortKeys r)).trans ((sortKeys_perm r).cons y)

/-- scanning the same row-sets in another order returns the same rows in another order -/
theorem scan?_perm {pool : List (Key × List Int)} {s : Snap} {k1 k2 : List Key}
    (hp : k1.Perm k2) : ∀ {l1 : List (Key × Nat × Int)}, scan? pool s k1 = some l1 →
    ∃ l2, scan? pool s k2 = some l2 ∧ l1.Perm l2 := by
  induction hp with
  | nil => intro l1 h; exact ⟨l1, h, List.Perm.refl _⟩
  | cons x _ ih =>
      intro l1 h
      simp only [scan?] at h
      split at h
      · rename_i rows rest hl hr
        cases h
        obtain ⟨l2, h2, hp2⟩ := ih hr
        exact ⟨_, by simp only [scan?, hl, h2], List.Perm.append_left _ hp2⟩
      · cases h
  | swap x y l =>
      intro l1 h
      simp only [scan?] at h
      split at h
      · rename_i rowsy rest hly hr
        split at hr
        · rename_i rowsx rest' hlx hr'
          cases hr
          cases h
          refine ⟨(liveFrom 0 (deadPos s x) rowsx).map (fun p => (x, p.1, p.2))
            ++ ((liveFrom 0 (deadPos s y) rowsy).map (fun p => (y, p.1, p.2)) ++ rest'),
            by simp only [scan?, hlx, hly, hr'], ?_⟩
          rw [← List.append_assoc, ← List.append_assoc]
          exact List.Perm.append_right _ List.perm_append_comm
        · cases hr
      · cases h
  | trans _ _ ih1 ih2 =>
      intro l1 h
      obtain ⟨l2, h2, hp2⟩ := ih1 h
      obtain ⟨l3, h3, hp3⟩ := ih2 h2
      exact ⟨l3, h3, hp2.trans hp3⟩

end SC
end RlModel
