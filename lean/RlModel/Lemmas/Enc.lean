import RlModel.Model.Enc
import RlModel.Lemmas.Crc
/-!
Helper lemmas for C06 (column encodings): little-endian integers, varints, the plain / nullable
builders as folds, bitmap packing.  Core Lean only.
-/
namespace RlModel

theorem UInt8_toNat_ofNat (n : Nat) : (UInt8.ofNat n).toNat = n % 256 := by
  simp [UInt8.toNat_ofNat']

theorem leBytes_length (w n : Nat) : (leBytes w n).length = w := by
  induction w generalizing n with
  | zero => rfl
  | succ w ih => simp [leBytes, ih]

theorem natOfLE_leBytes (w n : Nat) : natOfLE (leBytes w n) = n % 256 ^ w := by
  induction w generalizing n with
  | zero => simp [leBytes, natOfLE, Nat.mod_one]
  | succ w ih =>
    simp only [leBytes, natOfLE, ih, UInt8_toNat_ofNat]
    rw [Nat.pow_succ, Nat.mul_comm (256 ^ w) 256, Nat.mod_mul]
    omega

theorem varint_rt (v : Nat) (h : v < 0xF0000000) (rest : Bytes) :
    decodeU32Slice (encode32 v ++ rest) = some (v, (encode32 v).length) := by
  by_cases h1 : v < 0x80
  · simp [encode32, encodeVarint, decodeU32Slice, h1]
    rw [if_pos (by omega)]; simp; omega
  · by_cases h2 : v / 128 < 0x80
    · simp [encode32, encodeVarint, decodeU32Slice, h1, h2]
      rw [if_neg (by omega), if_pos (by omega)]; simp; omega
    · by_cases h3 : v / 128 / 128 < 0x80
      · simp [encode32, encodeVarint, decodeU32Slice, h1, h2, h3]
        rw [if_neg (by omega), if_neg (by omega), if_pos (by omega)]; simp; omega
      · by_cases h4 : v / 128 / 128 / 128 < 0x80
        · simp [encode32, encodeVarint, decodeU32Slice, h1, h2, h3, h4]
          rw [if_neg (by omega), if_neg (by omega), if_neg (by omega), if_pos (by omega)]; simp; omega
        · have h5 : v / 128 / 128 / 128 / 128 < 0x80 := by omega
          simp [encode32, encodeVarint, decodeU32Slice, h1, h2, h3, h4, h5]
          rw [if_neg (by omega), if_neg (by omega), if_neg (by omega), if_neg (by omega), if_pos (by omega)]; simp; omega


theorem encode32_ne_nil (v : Nat) : encode32 v ≠ [] := by
  simp only [encode32, encodeVarint]; split <;> simp

theorem encode32_length_pos (v : Nat) : 0 < (encode32 v).length :=
  List.length_pos_iff.mpr (encode32_ne_nil v)


theorem varints_rt (vs : List Nat) (h : ∀ v ∈ vs, v < 0xF0000000) (fuel : Nat)
    (hf : (vs.flatMap encode32).length ≤ fuel) :
    decodeVarints fuel (vs.flatMap encode32) = some vs := by
  induction vs generalizing fuel with
  | nil => cases fuel <;> simp [decodeVarints]
  | cons v vs ih =>
    have hv := h v (by simp)
    have hpos := encode32_length_pos v
    cases fuel with
    | zero => simp only [List.flatMap_cons, List.length_append] at hf; omega
    | succ fuel =>
      simp only [List.flatMap_cons, decodeVarints]
      have hne : (encode32 v ++ vs.flatMap encode32).isEmpty = false := by
        cases hh : encode32 v with
        | nil => exact absurd hh (encode32_ne_nil v)
        | cons a as => rfl
      rw [hne]
      simp only [Bool.false_eq_true, ↓reduceIte, varint_rt v hv]
      rw [List.drop_left' rfl]
      rw [ih (fun x hx => h x (by simp [hx])) fuel (by simp only [List.flatMap_cons, List.length_append] at hf; omega)]
      rfl


/-- bytes a plain builder of kind `k` appends for a cell -/
def cellBytes (k : Kind) : Cell → Bytes
  | some it => match k with
    | .fixed _ => it
    | .char w => it ++ zeros (w - it.length)
    | .blob => it
  | none => match k with
    | .fixed w => zeros w
    | .char w => zeros w
    | .blob => []

theorem Plain.append_kind (p : Plain) (c : Cell) : (p.append c).kind = p.kind := by
  cases c <;> simp only [Plain.append, Plain.appendValue, Plain.appendDefault] <;> split <;> rfl

theorem Plain.append_target (p : Plain) (c : Cell) : (p.append c).target = p.target := by
  cases c <;> simp only [Plain.append, Plain.appendValue, Plain.appendDefault] <;> split <;> rfl

theorem Plain.append_data (p : Plain) (c : Cell) :
    (p.append c).data = p.data ++ cellBytes p.kind c := by
  cases c <;> simp only [Plain.append, Plain.appendValue, Plain.appendDefault, cellBytes] <;>
    split <;> simp_all

theorem Plain.foldl_kind (cells : List Cell) (p : Plain) :
    (cells.foldl Plain.append p).kind = p.kind := by
  induction cells generalizing p with
  | nil => rfl
  | cons c cs ih => simp [List.foldl_cons, ih, Plain.append_kind]

theorem Plain.foldl_data (cells : List Cell) (p : Plain) :
    (cells.foldl Plain.append p).data = p.data ++ cells.flatMap (cellBytes p.kind) := by
  induction cells generalizing p with
  | nil => simp
  | cons c cs ih =>
    simp [List.foldl_cons, ih, Plain.append_kind, Plain.append_data, List.append_assoc]

theorem chunksN_flatten (w : Nat) (xs : List Bytes) (h : ∀ x ∈ xs, x.length = w) (rest : Bytes) :
    chunksN w xs.length (xs.flatten ++ rest) = xs := by
  induction xs with
  | nil => rfl
  | cons x xs ih =>
    have hx := h x (by simp)
    simp only [List.length_cons, chunksN, List.flatten_cons, List.append_assoc]
    rw [List.take_left' hx, List.drop_left' hx, ih (fun y hy => h y (by simp [hy]))]

/-- what a non-nullable block hands back for a cell -/
def storedItem (k : Kind) : Cell → Bytes
  | some it => it
  | none => defaultItem k

def FixedOk (w : Nat) (cells : List Cell) : Prop := ∀ it, some it ∈ cells → it.length = w

theorem plain_fixed_roundtrip (w target : Nat) (cells : List Cell) (h : FixedOk w cells) (rest : Bytes) :
    decodePlain (.fixed w) cells.length
      ((cells.foldl Plain.append { kind := .fixed w, target }).finish ++ rest)
      = cells.map (storedItem (.fixed w)) := by
  simp only [Plain.finish, Plain.foldl_kind, Plain.foldl_data, decodePlain, List.nil_append]
  have : cells.flatMap (cellBytes (.fixed w)) = (cells.map (storedItem (.fixed w))).flatten := by
    rw [List.flatMap_def]; congr 1
  rw [this]
  have hl : (cells.map (storedItem (.fixed w))).length = cells.length := by simp
  rw [← hl]
  apply chunksN_flatten
  intro x hx
  simp only [List.mem_map] at hx
  obtain ⟨c, hc, rfl⟩ := hx
  cases c with
  | none => simp [storedItem, defaultItem, zeros]
  | some it => exact h it hc


def pad8 (l : List Bool) : List Bool := l ++ List.replicate (8 - l.length) false

theorem byteBits_packByte (bs : List Bool) : byteBits (packByte bs) = pad8 (bs.take 8) := by
  rcases bs with _ | ⟨b0, _ | ⟨b1, _ | ⟨b2, _ | ⟨b3, _ | ⟨b4, _ | ⟨b5, _ | ⟨b6, _ | ⟨b7, tl⟩⟩⟩⟩⟩⟩⟩⟩
  · decide
  · revert b0; decide
  · revert b0 b1; decide
  · revert b0 b1 b2; decide
  · revert b0 b1 b2 b3; decide
  · revert b0 b1 b2 b3 b4; decide
  · revert b0 b1 b2 b3 b4 b5; decide
  · revert b0 b1 b2 b3 b4 b5 b6; decide
  · have : ∀ b0 b1 b2 b3 b4 b5 b6 b7 : Bool, byteBits (packByte [b0, b1, b2, b3, b4, b5, b6, b7]) = [b0, b1, b2, b3, b4, b5, b6, b7] := by decide
    simpa [packByte, pad8] using this b0 b1 b2 b3 b4 b5 b6 b7

theorem unpack_pack_take (n : Nat) (bs : List Bool) (h : bs.length ≤ 8 * n) :
    (unpackBits (packBitsN n bs)).take bs.length = bs := by
  induction n generalizing bs with
  | zero => simp at h; subst h; rfl
  | succ n ih =>
    simp only [packBitsN, unpackBits, List.flatMap_cons, byteBits_packByte]
    by_cases hl : bs.length ≤ 8
    · have h8 : bs.take 8 = bs := List.take_of_length_le hl
      rw [h8, pad8, List.append_assoc, List.take_left' rfl]
    · have hlen : (pad8 (bs.take 8)).length = 8 := by simp [pad8]; omega
      have hp : pad8 (bs.take 8) = bs.take 8 := by simp [pad8]; omega
      rw [List.take_append, hlen, hp]
      have := ih (bs.drop 8) (by simp; omega)
      simp only [unpackBits, List.length_drop] at this
      rw [this]
      have : List.take bs.length (List.take 8 bs) = bs.take 8 := by
        rw [List.take_take]; congr 1; omega
      rw [this, List.take_append_drop]

theorem packBitsN_length (n : Nat) (bs : List Bool) : (packBitsN n bs).length = n := by
  induction n generalizing bs with
  | zero => rfl
  | succ n ih => simp [packBitsN, ih]

theorem packBits_length (bs : List Bool) : (packBits bs).length = (bs.length + 7) / 8 :=
  packBitsN_length _ _

theorem unpack_pack (bs : List Bool) : (unpackBits (packBits bs)).take bs.length = bs :=
  unpack_pack_take _ bs (by omega)

/-- plain blocks of kind `k` holding `cells` decode to the stored items (whatever follows) -/
def PlainRT (k : Kind) (cells : List Cell) : Prop :=
  ∀ target rest, decodePlain k cells.length
    ((cells.foldl Plain.append { kind := k, target }).finish ++ rest) = cells.map (storedItem k)

theorem Sub.foldl_nullable (cells : List Cell) (s : Sub) :
    (cells.foldl Sub.append s).nullable = s.nullable := by
  induction cells generalizing s with
  | nil => rfl
  | cons c cs ih => simp only [List.foldl_cons, ih]; simp only [Sub.append]; split <;> rfl

theorem Sub.foldl_inner (cells : List Cell) (s : Sub) :
    (cells.foldl Sub.append s).inner = cells.foldl Plain.append s.inner := by
  induction cells generalizing s with
  | nil => rfl
  | cons c cs ih => simp only [List.foldl_cons, ih]; simp only [Sub.append]; split <;> rfl

theorem Sub.foldl_bitmap (cells : List Cell) (s : Sub) (h : s.nullable = true) :
    (cells.foldl Sub.append s).bitmap = s.bitmap ++ cells.map Option.isSome := by
  induction cells generalizing s with
  | nil => simp
  | cons c cs ih =>
    simp only [List.foldl_cons]
    rw [ih _ (by simp [Sub.append, h])]
    simp [Sub.append, h]

/-- what a block of the given nullability hands back for a cell -/
def storedCell (nullable : Bool) (k : Kind) (c : Cell) : Cell :=
  if nullable then c else some (storedItem k c)

theorem map_storedCell_true (k : Kind) (cells : List Cell) :
    cells.map (storedCell true k) = cells := by
  induction cells <;> simp_all [storedCell]

theorem zip_stored (k : Kind) (cells : List Cell) (extra : List Bool) :
    ((cells.map (storedItem k)).zip (cells.map Option.isSome ++ extra)).map
      (fun (it, v) => if v then some it else none) = cells := by
  induction cells with
  | nil => simp
  | cons c cs ih =>
    cases c <;> simp_all [storedItem]

theorem sub_roundtrip (nullable : Bool) (k : Kind) (target : Nat) (cells : List Cell)
    (hp : PlainRT k cells) (hlen : cells.length < 2 ^ 32) :
    decodeSub nullable k cells.length ((cells.foldl Sub.append (Sub.new nullable k target)).finish)
      = cells.map (storedCell nullable k) := by
  cases nullable with
  | false =>
    simp only [decodeSub, Sub.finish, Sub.foldl_nullable, Sub.new, Sub.foldl_inner, Bool.false_eq_true, ↓reduceIte]
    have := hp target []
    simp only [List.append_nil] at this
    rw [this]
    simp [storedCell, Function.comp_def]
  | true =>
    simp only [decodeSub, Sub.finish, Sub.foldl_nullable, Sub.new, Sub.foldl_inner, ↓reduceIte]
    rw [Sub.foldl_bitmap _ _ rfl]
    simp only [List.nil_append]
    generalize hin : (cells.foldl Plain.append { kind := k, target }).finish = inner
    generalize hbm : packBits (cells.map Option.isSome) = bm
    have hbl : bm.length < 2 ^ 32 := by
      rw [← hbm, packBits_length]; simp; omega
    have e1 : (inner ++ bm ++ leBytes 4 bm.length).length = inner.length + bm.length + 4 := by
      simp [leBytes_length]; omega
    rw [e1]
    have e2 : inner.length + bm.length + 4 - 4 = inner.length + bm.length := by omega
    rw [e2]
    have e3 : (inner ++ bm ++ leBytes 4 bm.length).drop (inner.length + bm.length) = leBytes 4 bm.length := by
      rw [List.drop_left' (by simp)]
    rw [e3, natOfLE_leBytes]
    have e4 : bm.length % 256 ^ 4 = bm.length := Nat.mod_eq_of_lt (by simpa using hbl)
    rw [e4]
    have e5 : inner.length + bm.length - bm.length = inner.length := by omega
    rw [e5]
    have e6 : ((inner ++ bm ++ leBytes 4 bm.length).drop inner.length).take bm.length = bm := by
      rw [List.append_assoc, List.drop_left' rfl, List.take_left' rfl]
    have e7 : (inner ++ bm ++ leBytes 4 bm.length).take inner.length = inner := by
      rw [List.append_assoc, List.take_left' rfl]
    rw [e6, e7, ← hin]
    have := hp target []
    simp only [List.append_nil] at this
    rw [this, ← hbm]
    have hu := unpack_pack (cells.map Option.isSome)
    have : unpackBits (packBits (cells.map Option.isSome))
        = cells.map Option.isSome ++ (unpackBits (packBits (cells.map Option.isSome))).drop (cells.map Option.isSome).length := by
      conv => lhs; rw [← List.take_append_drop (cells.map Option.isSome).length (unpackBits (packBits (cells.map Option.isSome)))]
      rw [hu]
    rw [this, zip_stored, map_storedCell_true]


/-! ### block cutting and index assembly -/

theorem cutAux_flatten (o : ColOpts) (bb : BB) (cur xs : List Cell) :
    (cutAux o bb cur xs).flatten = cur ++ xs := by
  induction xs generalizing bb cur with
  | nil =>
    simp only [cutAux]
    split <;> simp_all
  | cons c rest ih =>
    simp only [cutAux]
    split
    · simp [ih]
    · simp [ih]

theorem cutAux_nonempty (o : ColOpts) (bb : BB) (cur xs : List Cell) :
    ∀ ch ∈ cutAux o bb cur xs, ch ≠ [] := by
  induction xs generalizing bb cur with
  | nil =>
    simp only [cutAux]
    split <;> simp_all
  | cons c rest ih =>
    simp only [cutAux]
    split
    · rename_i h
      intro ch hch
      simp only [List.mem_cons] at hch
      rcases hch with rfl | hch
      · intro hn; simp [hn] at h
      · exact ih _ _ ch hch
    · exact ih _ _

theorem assemble_length (o : ColOpts) (bt : Nat) (chunks : List (List Cell)) (off row : Nat) :
    (assemble o bt chunks off row).2.length = chunks.length := by
  induction chunks generalizing off row with
  | nil => rfl
  | cons ch rest ih => simp [assemble, ih]

theorem assemble_entry (o : ColOpts) (bt : Nat) (chunks : List (List Cell)) (off row i : Nat)
    (e : IndexEntry) (h : (assemble o bt chunks off row).2[i]? = some e) :
    e.firstRowid = row + ((chunks.take i).map List.length).sum
      ∧ chunks[i]?.map List.length = some e.rowCount := by
  induction chunks generalizing off row i with
  | nil => simp [assemble] at h
  | cons ch rest ih =>
    simp only [assemble] at h
    cases i with
    | zero =>
      simp at h; subst h; simp
    | succ i =>
      simp only [List.getElem?_cons_succ] at h
      have := ih _ _ i h
      simp only [List.take_succ_cons, List.map_cons, List.sum_cons, List.getElem?_cons_succ]
      exact ⟨by omega, this.2⟩

theorem assemble_rowsum (o : ColOpts) (bt : Nat) (chunks : List (List Cell)) (off row : Nat) :
    ((assemble o bt chunks off row).2.map (·.rowCount)).sum = chunks.flatten.length := by
  induction chunks generalizing off row with
  | nil => rfl
  | cons ch rest ih => simp [assemble, ih]


/-! ### fixed-width char -/

def CharOk (w : Nat) (cells : List Cell) : Prop :=
  ∀ it, some it ∈ cells → it.length ≤ w ∧ (0 : UInt8) ∉ it

theorem takeWhile_nonzero_pad (it : Bytes) (k : Nat) (h : (0 : UInt8) ∉ it) :
    (it ++ zeros k).takeWhile (· != 0) = it := by
  induction it with
  | nil => cases k <;> simp [zeros, List.replicate_succ]
  | cons x xs ih =>
    have hx : x ≠ 0 := fun e => h (by simp [e])
    have hxs : (0 : UInt8) ∉ xs := fun e => h (by simp [e])
    simp [hx, ih hxs]

theorem plain_char_roundtrip (w target : Nat) (cells : List Cell) (h : CharOk w cells) (rest : Bytes) :
    decodePlain (.char w) cells.length
      ((cells.foldl Plain.append { kind := .char w, target }).finish ++ rest)
      = cells.map (storedItem (.char w)) := by
  simp only [Plain.finish, Plain.foldl_kind, Plain.foldl_data, decodePlain, List.nil_append]
  have e1 : cells.flatMap (cellBytes (.char w)) = (cells.map (cellBytes (.char w))).flatten := by
    rw [List.flatMap_def]
  rw [e1]
  have hl : (cells.map (cellBytes (.char w))).length = cells.length := by simp
  rw [← hl, chunksN_flatten w]
  · rw [List.map_map]
    apply List.map_congr_left
    intro c hc
    cases c with
    | none => simp [cellBytes, storedItem, defaultItem, zeros]
    | some it =>
      simp only [Function.comp, cellBytes, storedItem]
      exact takeWhile_nonzero_pad it _ (h it hc).2
  · intro x hx
    simp only [List.mem_map] at hx
    obtain ⟨c, hc, rfl⟩ := hx
    cases c with
    | none => simp [cellBytes, zeros]
    | some it =>
      have := (h it hc).1
      simp [cellBytes, zeros]; omega


/-! ### blob / varchar blocks -/

/-- end offsets the blob builder records, starting from `base` bytes already in the block -/
def blobOffs (base : Nat) : List Cell → List Nat
  | [] => []
  | c :: cs => (base + (cellBytes .blob c).length) :: blobOffs (base + (cellBytes .blob c).length) cs

theorem Plain.append_offs_blob (p : Plain) (c : Cell) (hk : p.kind = .blob) :
    (p.append c).offs = p.offs ++ [p.data.length + (cellBytes .blob c).length] := by
  cases c <;> simp [Plain.append, Plain.appendValue, Plain.appendDefault, cellBytes, hk]

theorem Plain.foldl_offs_blob (cells : List Cell) (p : Plain) (hk : p.kind = .blob) :
    (cells.foldl Plain.append p).offs = p.offs ++ blobOffs p.data.length cells := by
  induction cells generalizing p with
  | nil => simp [blobOffs]
  | cons c cs ih =>
    simp only [List.foldl_cons]
    rw [ih _ (by rw [Plain.append_kind]; exact hk), Plain.append_offs_blob p c hk, Plain.append_data, hk]
    simp [blobOffs, List.append_assoc]

theorem readOffsets_flatMap (offs : List Nat) (h : ∀ o ∈ offs, o < 2 ^ 32) (rest : Bytes) :
    readOffsets offs.length (offs.flatMap (leBytes 4) ++ rest) = offs := by
  induction offs with
  | nil => rfl
  | cons o os ih =>
    simp only [List.length_cons, readOffsets, List.flatMap_cons, List.append_assoc]
    rw [List.take_left' (leBytes_length 4 o), List.drop_left' (leBytes_length 4 o), natOfLE_leBytes,
      ih (fun x hx => h x (by simp [hx]))]
    have := h o (by simp)
    rw [Nat.mod_eq_of_lt (by simpa using this)]

theorem blobOffs_length (base : Nat) (cells : List Cell) : (blobOffs base cells).length = cells.length := by
  induction cells generalizing base with
  | nil => rfl
  | cons c cs ih => simp [blobOffs, ih]

theorem blobOffs_le (base : Nat) (cells : List Cell) :
    ∀ o ∈ blobOffs base cells, o ≤ base + (cells.flatMap (cellBytes .blob)).length := by
  induction cells generalizing base with
  | nil => simp [blobOffs]
  | cons c cs ih =>
    intro o ho
    simp only [blobOffs, List.mem_cons] at ho
    simp only [List.flatMap_cons, List.length_append]
    rcases ho with rfl | ho
    · omega
    · have := ih _ o ho; omega

theorem sliceByOffsets_blob (pre : Bytes) (cells : List Cell) (rest : Bytes) :
    sliceByOffsets (pre ++ cells.flatMap (cellBytes .blob) ++ rest) pre.length (blobOffs pre.length cells)
      = cells.map (storedItem .blob) := by
  induction cells generalizing pre with
  | nil => rfl
  | cons c cs ih =>
    simp only [blobOffs, sliceByOffsets, List.flatMap_cons, List.map_cons]
    have hst : storedItem .blob c = cellBytes .blob c := by cases c <;> rfl
    congr 1
    · rw [List.append_assoc, List.append_assoc, List.drop_left' rfl, Nat.add_sub_cancel_left,
        List.take_left' rfl, hst]
    · have := ih (pre ++ cellBytes .blob c)
      simp only [List.length_append, List.append_assoc] at this ⊢
      exact this

def BlobOk (cells : List Cell) : Prop := (cells.flatMap (cellBytes .blob)).length < 2 ^ 32

theorem plain_blob_roundtrip (target : Nat) (cells : List Cell) (h : BlobOk cells) (rest : Bytes) :
    decodePlain .blob cells.length
      ((cells.foldl Plain.append { kind := .blob, target }).finish ++ rest)
      = cells.map (storedItem .blob) := by
  have hoffs : (cells.foldl Plain.append { kind := .blob, target }).offs = blobOffs 0 cells := by
    rw [Plain.foldl_offs_blob cells { kind := .blob, target } rfl]; rfl
  simp only [Plain.finish, Plain.foldl_kind, Plain.foldl_data, decodePlain, hoffs, List.nil_append]
  have hlen := blobOffs_length 0 cells
  have hoff : ∀ o ∈ blobOffs 0 cells, o < 2 ^ 32 := by
    intro o ho; have := blobOffs_le 0 cells o ho; unfold BlobOk at h; omega
  have e1 : readOffsets cells.length
      (List.flatMap (leBytes 4) (blobOffs 0 cells) ++ List.flatMap (cellBytes Kind.blob) cells ++ rest)
      = blobOffs 0 cells := by
    rw [← hlen, List.append_assoc]; exact readOffsets_flatMap _ hoff _
  have e2 : (List.flatMap (leBytes 4) (blobOffs 0 cells)).length = 4 * cells.length := by
    rw [← hlen]; generalize blobOffs 0 cells = l
    induction l with
    | nil => rfl
    | cons a as ih => simp [List.flatMap_cons, leBytes_length, ih]; omega
  rw [e1, List.append_assoc, List.drop_left' e2]
  have := sliceByOffsets_blob [] cells rest
  simpa using this


/-! ### RLE builder invariant -/

theorem expandRuns_append (cs : List Nat) (hs : List Cell) (cs' : List Nat) (hs' : List Cell)
    (h : cs.length = hs.length) :
    expandRuns (cs ++ cs') (hs ++ hs') = expandRuns cs hs ++ expandRuns cs' hs' := by
  induction cs generalizing hs with
  | nil => cases hs <;> simp_all [expandRuns]
  | cons c cs ih =>
    cases hs with
    | nil => simp at h
    | cons x xs => simp [expandRuns, ih xs (by simpa using h), List.append_assoc]

theorem expandRuns_map (f : Cell → Cell) (cs : List Nat) (hs : List Cell) :
    expandRuns cs (hs.map f) = (expandRuns cs hs).map f := by
  induction cs generalizing hs with
  | nil => cases hs <;> simp [expandRuns]
  | cons c cs ih =>
    cases hs with
    | nil => simp [expandRuns]
    | cons x xs => simp [expandRuns, ih xs]

theorem expandRuns_length (cs : List Nat) (hs : List Cell) (h : cs.length = hs.length) :
    (expandRuns cs hs).length = cs.sum := by
  induction cs generalizing hs with
  | nil => cases hs <;> simp_all [expandRuns]
  | cons c cs ih =>
    cases hs with
    | nil => simp at h
    | cons x xs => simp [expandRuns, ih xs (by simpa using h)]

theorem le_sum_of_mem' (l : List Nat) (x : Nat) (h : x ∈ l) : x ≤ l.sum := by
  induction l with
  | nil => simp at h
  | cons a as ih =>
    simp only [List.mem_cons] at h
    simp only [List.sum_cons]
    rcases h with rfl | h
    · omega
    · have := ih h; omega

theorem encodeVarint_length_le (fuel v : Nat) : (encodeVarint fuel v).length ≤ fuel := by
  induction fuel generalizing v with
  | zero => simp [encodeVarint]
  | succ f ih =>
    simp only [encodeVarint]
    split
    · simp
    · have := ih (v / 128); simp; omega

theorem flatMap_encode32_length_le (cs : List Nat) : (cs.flatMap encode32).length ≤ 5 * cs.length := by
  induction cs with
  | nil => simp
  | cons c cs ih =>
    have := encodeVarint_length_le 5 c
    simp only [List.flatMap_cons, List.length_append, List.length_cons, encode32] at *
    omega

/-- the run equality is sound: cells it identifies are identical -/
def EqSound (eq : EqKind) : Prop := ∀ a b : Cell, cellEq eq a b = true → a = b

theorem eqSound_bytes : EqSound .bytes := by
  intro a b h
  cases a <;> cases b <;> simp_all [cellEq, itemEq]

/-- state of the RLE builder after appending `cells` to a builder created over `sub0` -/
def RleInv (sub0 : Sub) (r : Rle) (cells : List Cell) : Prop :=
  (cells = [] ∧ r.cur = 0 ∧ r.counts = [] ∧ r.sub = sub0) ∨
  (∃ hs : List Cell, 0 < r.cur ∧ hs.length = r.counts.length
    ∧ r.sub = (hs ++ [r.prev]).foldl Sub.append sub0
    ∧ expandRuns r.counts hs ++ List.replicate r.cur r.prev = cells
    ∧ (hs ++ [r.prev]).Sublist cells)

theorem Rle.append_eq (r : Rle) (c : Cell) : (r.append c).eq = r.eq := by
  simp only [Rle.append]
  split
  · rfl
  · split <;> rfl

theorem RleInv.step (sub0 : Sub) (r : Rle) (cells : List Cell) (c : Cell)
    (hs : EqSound r.eq) (h : RleInv sub0 r cells) : RleInv sub0 (r.append c) (cells ++ [c]) := by
  rcases h with ⟨rfl, hc, hcs, hsub⟩ | ⟨heads, hpos, hlen, hsub, hexp, hsl⟩
  · right
    refine ⟨[], ?_⟩
    simp [Rle.append, hc, hcs, hsub, expandRuns]
  · right
    have hne : (r.cur == 0) = false := by simp; omega
    simp only [Rle.append, hne, Bool.false_eq_true, ↓reduceIte]
    split
    · -- new run
      refine ⟨heads ++ [r.prev], by simp, by simp [hlen], ?_, ?_, ?_⟩
      · simp [hsub, List.foldl_append]
      · simp only []
        rw [expandRuns_append r.counts heads [r.cur] [r.prev] hlen.symm]
        simp [expandRuns, ← hexp, List.append_assoc]
      · exact List.Sublist.append hsl (List.Sublist.refl _)
    · -- same run
      rename_i hcond
      have hce : cellEq r.eq c r.prev = true := by
        simp only [Bool.or_eq_true, Bool.not_eq_true', beq_iff_eq, not_or] at hcond
        cases hh : cellEq r.eq c r.prev <;> simp_all
      have hcp : c = r.prev := hs c r.prev hce
      refine ⟨heads, by simp, hlen, hsub, ?_, ?_⟩
      · simp only []
        rw [← hexp, hcp, List.replicate_succ', List.append_assoc]
      · exact List.Sublist.trans hsl (List.sublist_append_left _ _)

theorem RleInv.foldl (sub0 : Sub) (rest : List Cell) (r : Rle) (done : List Cell)
    (hs : EqSound r.eq) (h : RleInv sub0 r done) :
    RleInv sub0 (rest.foldl Rle.append r) (done ++ rest) := by
  induction rest generalizing r done with
  | nil => simpa using h
  | cons c cs ih =>
    simp only [List.foldl_cons]
    have := ih (r.append c) (done ++ [c]) (by rw [Rle.append_eq]; exact hs) (RleInv.step sub0 r done c hs h)
    simpa [List.append_assoc] using this



/-! ### RLE round trip -/

theorem RleInv.init (eq : EqKind) (sub0 : Sub) : RleInv sub0 { eq, sub := sub0 } [] :=
  Or.inl ⟨rfl, rfl, rfl, rfl⟩

theorem Rle.foldl_eq (cells : List Cell) (r : Rle) : (cells.foldl Rle.append r).eq = r.eq := by
  induction cells generalizing r with
  | nil => rfl
  | cons c cs ih => simp [List.foldl_cons, ih, Rle.append_eq]

theorem rle_roundtrip_core (eq : EqKind) (hs : EqSound eq) (nullable : Bool) (k : Kind) (target : Nat)
    (cells : List Cell) (hp : ∀ l : List Cell, l.Sublist cells → PlainRT k l) (hlen : cells.length < 2 ^ 29) :
    decodeRle nullable k ((cells.foldl Rle.append { eq, sub := Sub.new nullable k target }).finish)
      = some (cells.map (storedCell nullable k)) := by
  have hinv := RleInv.foldl (Sub.new nullable k target) cells { eq, sub := Sub.new nullable k target } []
    hs (RleInv.init eq _)
  simp only [List.nil_append] at hinv
  generalize cells.foldl Rle.append { eq, sub := Sub.new nullable k target } = r at hinv
  rcases hinv with ⟨rfl, hc, _, _⟩ | ⟨heads, hpos, hl, hsub, hexp, hsl⟩
  · simp [Rle.finish, hc, decodeRle, natOfLE, decodeVarints, expandRuns]
  · have hne : (r.cur == 0) = false := by simp; omega
    simp only [Rle.finish, hne, Bool.false_eq_true, ↓reduceIte]
    generalize hcs : r.counts ++ [r.cur] = counts'
    generalize hvs : counts'.flatMap encode32 = vs
    have hheads : (heads ++ [r.prev]).length ≤ cells.length := hsl.length_le
    have hcl : counts'.length = (heads ++ [r.prev]).length := by rw [← hcs]; simp [hl]
    have hsum : counts'.sum = cells.length := by
      rw [← hexp, ← hcs]; simp [expandRuns_length r.counts heads hl.symm]
    have hvl : vs.length ≤ 5 * counts'.length := by rw [← hvs]; exact flatMap_encode32_length_le _
    have h1 : counts'.length < 2 ^ 32 := by omega
    have h2 : vs.length < 2 ^ 32 := by omega
    simp only [decodeRle]
    have e1 : natOfLE ((leBytes 4 counts'.length ++ leBytes 4 vs.length ++ vs ++ r.sub.finish).take 4)
        = counts'.length := by
      rw [List.append_assoc, List.append_assoc, List.take_left' (leBytes_length _ _), natOfLE_leBytes]
      exact Nat.mod_eq_of_lt (by simpa using h1)
    have e2 : natOfLE (((leBytes 4 counts'.length ++ leBytes 4 vs.length ++ vs ++ r.sub.finish).drop 4).take 4)
        = vs.length := by
      rw [List.append_assoc, List.append_assoc, List.drop_left' (leBytes_length _ _),
        List.take_left' (leBytes_length _ _), natOfLE_leBytes]
      exact Nat.mod_eq_of_lt (by simpa using h2)
    have e3 : ((leBytes 4 counts'.length ++ leBytes 4 vs.length ++ vs ++ r.sub.finish).drop 8).take vs.length = vs := by
      rw [List.append_assoc, List.drop_left' (by simp [leBytes_length]), List.take_left' rfl]
    have e4 : (leBytes 4 counts'.length ++ leBytes 4 vs.length ++ vs ++ r.sub.finish).drop (8 + vs.length)
        = r.sub.finish := by
      rw [List.drop_left' (by simp [leBytes_length]; omega)]
    rw [e1, e2, e3, e4]
    have hdec : decodeVarints vs.length vs = some counts' := by
      rw [← hvs]
      apply varints_rt counts' _ _ (Nat.le_refl _)
      intro v hv
      have := le_sum_of_mem' counts' v hv
      omega
    rw [hdec]
    simp only []
    rw [hcl, hsub, sub_roundtrip nullable k target (heads ++ [r.prev]) (hp _ hsl) (by omega)]
    rw [expandRuns_map, ← hcs, expandRuns_append r.counts heads [r.cur] [r.prev] hl.symm]
    simp [expandRuns, ← hexp]


/-! ### dictionary builder invariant -/

/-- what `DictBlockIterator` makes of a key cell, given the dictionary -/
def decKey (dict : List Bytes) (kc : Cell) : Cell :=
  match kc with
  | none => none
  | some kb =>
    let key := natOfLE kb
    if key == DICT_NULL_KEY then none else (dict.map some).getD (key - (DICT_NULL_KEY + 1)) none

def KeyOk (n : Nat) (kc : Cell) : Prop :=
  ∃ k, kc = some (leBytes 4 k) ∧ (k = DICT_NULL_KEY ∨ (DICT_NULL_KEY + 1 ≤ k ∧ k < DICT_NULL_KEY + 1 + n)) ∧ k < 2 ^ 32

theorem natOfLE_key (k : Nat) (h : k < 2 ^ 32) : natOfLE (leBytes 4 k) = k := by
  rw [natOfLE_leBytes]; exact Nat.mod_eq_of_lt (by simpa using h)

theorem decKey_mono (dict : List Bytes) (x : Bytes) (kc : Cell) (h : KeyOk dict.length kc) :
    decKey (dict ++ [x]) kc = decKey dict kc := by
  obtain ⟨k, rfl, hk, hlt⟩ := h
  simp only [decKey, natOfLE_key k hlt]
  rcases hk with rfl | ⟨h1, h2⟩
  · simp
  · have hne : (k == DICT_NULL_KEY) = false := by simp [DICT_NULL_KEY] at *; omega
    simp only [hne, Bool.false_eq_true, ↓reduceIte, List.map_append, List.map_cons, List.map_nil]
    rw [List.getD_eq_getElem?_getD, List.getD_eq_getElem?_getD, List.getElem?_append_left (by simp; omega)]

theorem KeyOk.mono {n m : Nat} {kc : Cell} (h : KeyOk n kc) (hnm : n ≤ m) : KeyOk m kc := by
  obtain ⟨k, rfl, hk, hlt⟩ := h
  refine ⟨k, rfl, ?_, hlt⟩
  rcases hk with h | ⟨h1, h2⟩
  · exact .inl h
  · exact .inr ⟨h1, by omega⟩

theorem Dict.lookup_some (eq : EqKind) (item : Bytes) (dict : List Bytes) (j i : Nat)
    (h : Dict.lookup eq item dict j = some i) :
    j ≤ i ∧ i - j < dict.length ∧ itemEq eq item (dict.getD (i - j) []) = true := by
  induction dict generalizing j with
  | nil => simp [Dict.lookup] at h
  | cons d ds ih =>
    simp only [Dict.lookup] at h
    split at h
    · rename_i hd
      injection h with h; subst h
      simp [hd]
    · have := ih (j + 1) h
      obtain ⟨h1, h2, h3⟩ := this
      refine ⟨by omega, by simp; omega, ?_⟩
      have : i - j = (i - (j + 1)) + 1 := by omega
      rw [this]; simpa using h3

def DictInv (data0 : Sub) (rle0 : Rle) (d : Dict) (cells : List Cell) : Prop :=
  ∃ keys : List Cell, d.rle = keys.foldl Rle.append rle0
    ∧ d.data = (d.dict.map some).foldl Sub.append data0
    ∧ keys.map (decKey d.dict) = cells
    ∧ (∀ kc ∈ keys, KeyOk d.dict.length kc)
    ∧ (d.dict.map some).Sublist cells
    ∧ keys.length = cells.length

theorem Dict.append_eq (d : Dict) (c : Cell) : (d.append c).eq = d.eq := by
  cases c with
  | none => rfl
  | some item => simp only [Dict.append]; split <;> rfl

theorem DictInv.step (data0 : Sub) (rle0 : Rle) (d : Dict) (cells : List Cell) (c : Cell)
    (hs : EqSound d.eq) (hlen : cells.length < 2 ^ 29) (h : DictInv data0 rle0 d cells) :
    DictInv data0 rle0 (d.append c) (cells ++ [c]) := by
  obtain ⟨keys, hrle, hdata, hdec, hok, hsl, hkl⟩ := h
  have hdl : d.dict.length ≤ cells.length := by simpa using hsl.length_le
  cases c with
  | none =>
    refine ⟨keys ++ [some (Dict.keyBytes DICT_NULL_KEY)], ?_, hdata, ?_, ?_, ?_, by simp [hkl]⟩
    · simp [Dict.append, hrle, List.foldl_append]
    · simp only [Dict.append, List.map_append, hdec, List.map_cons, List.map_nil]
      congr 1
    · intro kc hkc
      simp only [List.mem_append, List.mem_singleton] at hkc
      rcases hkc with hkc | rfl
      · exact hok kc hkc
      · exact ⟨DICT_NULL_KEY, rfl, .inl rfl, by decide⟩
    · exact List.Sublist.trans hsl (List.sublist_append_left _ _)
  | some item =>
    simp only [Dict.append]
    split
    · rename_i i hi
      obtain ⟨_, h2, h3⟩ := Dict.lookup_some d.eq item d.dict 0 i hi
      simp only [Nat.sub_zero] at h2 h3
      have hitem : item = d.dict.getD i [] := by
        have := hs (some item) (some (d.dict.getD i [])) (by simpa [cellEq] using h3)
        injection this
      have hk : DICT_NULL_KEY + 1 + i < 2 ^ 32 := by simp [DICT_NULL_KEY]; omega
      refine ⟨keys ++ [some (Dict.keyBytes (DICT_NULL_KEY + 1 + i))], ?_, hdata, ?_, ?_, ?_, by simp [hkl]⟩
      · simp [hrle, List.foldl_append]
      · simp only [List.map_append, hdec, List.map_cons, List.map_nil]
        congr 1
        simp only [decKey, Dict.keyBytes, natOfLE_key _ hk]
        have hne : (DICT_NULL_KEY + 1 + i == DICT_NULL_KEY) = false := by simp; omega
        simp only [hne, Bool.false_eq_true, ↓reduceIte]
        rw [show DICT_NULL_KEY + 1 + i - (DICT_NULL_KEY + 1) = i by omega]
        rw [List.getD_eq_getElem?_getD, List.getElem?_map]
        rw [hitem, List.getD_eq_getElem?_getD]
        rw [List.getElem?_eq_getElem h2]
        simp
      · intro kc hkc
        simp only [List.mem_append, List.mem_singleton] at hkc
        rcases hkc with hkc | rfl
        · exact hok kc hkc
        · exact ⟨_, rfl, .inr ⟨by omega, by show _ < DICT_NULL_KEY + 1 + d.dict.length; omega⟩, hk⟩
      · exact List.Sublist.trans hsl (List.sublist_append_left _ _)
    · have hk : DICT_NULL_KEY + 1 + d.dict.length < 2 ^ 32 := by simp [DICT_NULL_KEY]; omega
      refine ⟨keys ++ [some (Dict.keyBytes (DICT_NULL_KEY + 1 + d.dict.length))], ?_, ?_, ?_, ?_, ?_, by simp [hkl]⟩
      · simp [hrle, List.foldl_append]
      · simp [hdata, List.foldl_append]
      · simp only [List.map_append, List.map_cons, List.map_nil]
        congr 1
        · rw [← hdec]
          apply List.map_congr_left
          intro kc hkc
          exact decKey_mono d.dict item kc (hok kc hkc)
        · simp only [decKey, Dict.keyBytes, natOfLE_key _ hk]
          have hne : (DICT_NULL_KEY + 1 + d.dict.length == DICT_NULL_KEY) = false := by simp; omega
          simp only [hne, Bool.false_eq_true, ↓reduceIte]
          rw [show DICT_NULL_KEY + 1 + d.dict.length - (DICT_NULL_KEY + 1) = d.dict.length by omega]
          simp
      · intro kc hkc
        simp only [List.mem_append, List.mem_singleton] at hkc
        rcases hkc with hkc | rfl
        · exact (hok kc hkc).mono (by simp)
        · exact ⟨_, rfl, .inr ⟨by omega, by simp⟩, hk⟩
      · simp only [List.map_append, List.map_cons, List.map_nil]
        exact List.Sublist.append hsl (List.Sublist.refl _)


/-! ### dictionary round trip -/

theorem DictInv.foldl (data0 : Sub) (rle0 : Rle) (rest : List Cell) (d : Dict) (done : List Cell)
    (hs : EqSound d.eq) (hlen : (done ++ rest).length < 2 ^ 29) (h : DictInv data0 rle0 d done) :
    DictInv data0 rle0 (rest.foldl Dict.append d) (done ++ rest) := by
  induction rest generalizing d done with
  | nil => simpa using h
  | cons c cs ih =>
    simp only [List.foldl_cons]
    have := ih (d.append c) (done ++ [c]) (by rw [Dict.append_eq]; exact hs)
      (by simpa [List.append_assoc] using hlen)
      (DictInv.step data0 rle0 d done c hs (by simp at hlen; omega) h)
    simpa [List.append_assoc] using this

theorem storedCell_some (nullable : Bool) (k : Kind) (it : Bytes) :
    storedCell nullable k (some it) = some it := by
  cases nullable <;> rfl

theorem map_storedCell_somes (nullable : Bool) (k : Kind) (l : List Cell) (h : ∀ c ∈ l, c ≠ none) :
    l.map (storedCell nullable k) = l := by
  induction l with
  | nil => rfl
  | cons c cs ih =>
    have hc := h c (by simp)
    cases c with
    | none => exact absurd rfl hc
    | some it => simp [storedCell_some, ih (fun x hx => h x (by simp [hx]))]

/-- byte length of a non-nullable fixed-width sub-builder holding key cells -/
theorem keySub_finish_length (t : Nat) (l : List Cell) (h : ∀ c ∈ l, ∃ k, c = some (leBytes 4 k)) :
    ((l.foldl Sub.append (Sub.new false (.fixed 4) t)).finish).length = 4 * l.length := by
  simp only [Sub.finish, Sub.foldl_nullable, Sub.new, Sub.foldl_inner, Bool.false_eq_true, ↓reduceIte,
    Plain.finish, Plain.foldl_kind, Plain.foldl_data, List.nil_append]
  induction l with
  | nil => rfl
  | cons c cs ih =>
    obtain ⟨k, rfl⟩ := h c (by simp)
    simp only [List.flatMap_cons, List.length_append, List.length_cons, cellBytes, leBytes_length]
    rw [ih (fun x hx => h x (by simp [hx]))]
    omega

theorem Rle.finish_length_le (r : Rle) :
    r.finish.length ≤ 8 + 5 * (r.counts.length + 1) + r.sub.finish.length := by
  simp only [Rle.finish]
  split
  · simp
  · have := flatMap_encode32_length_le (r.counts ++ [r.cur])
    simp only [List.length_append, leBytes_length, List.length_cons, List.length_nil] at *
    omega

theorem dict_roundtrip_core (eq : EqKind) (hs : EqSound eq) (nullable : Bool) (k : Kind) (target : Nat)
    (cells : List Cell) (hp : ∀ l : List Cell, l.Sublist cells → PlainRT k l) (hlen : cells.length < 2 ^ 29) :
    decodeDict nullable k ((cells.foldl Dict.append (Dict.new eq (Sub.new nullable k target))).finish)
      = some cells := by
  have hinv : DictInv (Sub.new nullable k target) (Dict.new eq (Sub.new nullable k target)).rle
      (cells.foldl Dict.append (Dict.new eq (Sub.new nullable k target))) ([] ++ cells) := by
    apply DictInv.foldl _ _ cells _ [] hs (by simpa using hlen)
    exact ⟨[], rfl, rfl, rfl, by simp, by simp [Dict.new], rfl⟩
  simp only [List.nil_append] at hinv
  generalize cells.foldl Dict.append (Dict.new eq (Sub.new nullable k target)) = d at hinv
  obtain ⟨keys, hrle, hdata, hdec, hok, hsl, hkl⟩ := hinv
  have hdl : d.dict.length ≤ cells.length := by simpa using hsl.length_le
  have hkeys : ∀ c ∈ keys, ∃ kk, c = some (leBytes 4 kk) := fun c hc => by
    obtain ⟨kk, h1, _⟩ := hok c hc; exact ⟨kk, h1⟩
  -- the key block
  have hrt : decodeRle false (.fixed 4) d.rle.finish = some keys := by
    rw [hrle]
    simp only [Dict.new]
    rw [rle_roundtrip_core .bytes eqSound_bytes false (.fixed 4) _ keys _ (by omega)]
    · rw [map_storedCell_somes]
      intro c hc; obtain ⟨kk, rfl⟩ := hkeys c hc; simp
    · intro l hl t r
      apply plain_fixed_roundtrip 4 t l _ r
      intro it hit
      obtain ⟨kk, hk⟩ := hkeys (some it) (hl.subset hit)
      injection hk with hk; rw [hk, leBytes_length]
  -- its length fits the u64 header
  have hrl : d.rle.finish.length < 256 ^ 8 := by
    have h1 := Rle.finish_length_le d.rle
    have hri := RleInv.foldl (Dict.new eq (Sub.new nullable k target)).rle.sub keys
      (Dict.new eq (Sub.new nullable k target)).rle [] (by simp [Dict.new]; exact eqSound_bytes)
      (RleInv.init _ _)
    rw [← hrle] at hri
    simp only [List.nil_append] at hri
    rcases hri with ⟨_, _, hc0, hs0⟩ | ⟨heads, _, hl, hsub, _, hsl'⟩
    · rw [hc0, hs0] at h1; simp [Dict.new, Sub.new, Sub.finish, Plain.finish] at h1; omega
    · have h2 : d.rle.sub.finish.length = 4 * (heads ++ [d.rle.prev]).length := by
        rw [hsub]; simp only [Dict.new]
        exact keySub_finish_length _ _ (fun c hc => hkeys c (hsl'.subset hc))
      have h3 := hsl'.length_le
      simp only [List.length_append, List.length_cons, List.length_nil] at h2 h3
      omega
  simp only [Dict.finish, decodeDict]
  generalize hrb : d.rle.finish = rb at hrt hrl
  generalize hdf : d.data.finish = df
  have e1 : natOfBE ((beBytes 8 rb.length ++ beBytes 4 d.dict.length ++ rb ++ df).take 8) = rb.length := by
    rw [List.append_assoc, List.append_assoc, List.take_left' (beBytes_length _ _)]
    exact natOfBE_beBytes 8 _ hrl
  have e2 : natOfBE (((beBytes 8 rb.length ++ beBytes 4 d.dict.length ++ rb ++ df).drop 8).take 4) = d.dict.length := by
    rw [List.append_assoc, List.append_assoc, List.drop_left' (beBytes_length _ _),
      List.take_left' (beBytes_length _ _)]
    exact natOfBE_beBytes 4 _ (by omega)
  have e3 : ((beBytes 8 rb.length ++ beBytes 4 d.dict.length ++ rb ++ df).drop 12).take rb.length = rb := by
    rw [List.append_assoc, List.drop_left' (by simp [beBytes_length]), List.take_left' rfl]
  have e4 : (beBytes 8 rb.length ++ beBytes 4 d.dict.length ++ rb ++ df).drop (12 + rb.length) = df := by
    rw [List.drop_left' (by simp [beBytes_length]; omega)]
  rw [e1, e2, e3, e4, hrt]
  simp only []
  have hitems : decodeSub nullable k d.dict.length df = d.dict.map some := by
    rw [← hdf, hdata]
    have := sub_roundtrip nullable k target (d.dict.map some) (hp _ hsl) (by simp; omega)
    simp only [List.length_map] at this
    rw [this, map_storedCell_somes]
    intro c hc; simp at hc; obtain ⟨x, _, rfl⟩ := hc; simp
  rw [hitems, ← hdec]
  congr 1


/-! ### unified block round trip, trailer, assembled column -/

/-- what a block of the column hands back for a written cell: dictionary blocks keep NULL (key
`i32::MIN`) whatever the nullability; plain / RLE blocks of a non-nullable column read a NULL
back as the type's default -/
def storedOf (o : ColOpts) (c : Cell) : Cell :=
  match o.enc with
  | .dict => c
  | _ => storedCell o.nullable o.kind c

/-- block round trip: the block built from `chunk` decodes to the stored cells -/
def BlockRT (o : ColOpts) (chunk : List Cell) : Prop :=
  decodeBlock o chunk.length (encodeBlock o chunk) = some (chunk.map (storedOf o))

theorem BB.foldl_plain (cs : List Cell) (s : Sub) :
    cs.foldl BB.append (.plain s) = .plain (cs.foldl Sub.append s) := by
  induction cs generalizing s with
  | nil => rfl
  | cons c cs ih => simp [List.foldl_cons, BB.append, ih]

theorem BB.foldl_rle (cs : List Cell) (r : Rle) :
    cs.foldl BB.append (.rle r) = .rle (cs.foldl Rle.append r) := by
  induction cs generalizing r with
  | nil => rfl
  | cons c cs ih => simp [List.foldl_cons, BB.append, ih]

theorem BB.foldl_dict (cs : List Cell) (d : Dict) :
    cs.foldl BB.append (.dict d) = .dict (cs.foldl Dict.append d) := by
  induction cs generalizing d with
  | nil => rfl
  | cons c cs ih => simp [List.foldl_cons, BB.append, ih]

theorem blockRT_of (o : ColOpts) (chunk : List Cell)
    (hp : ∀ l : List Cell, l.Sublist chunk → PlainRT o.kind l) (hlen : chunk.length < 2 ^ 29)
    (heq : o.enc = .plain ∨ EqSound o.eq) : BlockRT o chunk := by
  unfold BlockRT
  cases henc : o.enc with
  | plain =>
    simp only [decodeBlock, encodeBlock, BB.new, henc, BB.foldl_plain, BB.finish, storedOf]
    rw [sub_roundtrip _ _ _ _ (hp chunk (List.Sublist.refl _)) (by omega)]
    congr 1
    apply List.map_congr_left
    intro c _; simp [storedOf, henc]
  | rle =>
    have hs : EqSound o.eq := by
      rcases heq with h | h
      · simp [henc] at h
      · exact h
    simp only [decodeBlock, encodeBlock, BB.new, henc, BB.foldl_rle, BB.finish]
    rw [rle_roundtrip_core o.eq hs o.nullable o.kind _ chunk hp hlen]
    congr 1
    apply List.map_congr_left
    intro c _; simp [storedOf, henc]
  | dict =>
    have hs : EqSound o.eq := by
      rcases heq with h | h
      · simp [henc] at h
      · exact h
    simp only [decodeBlock, encodeBlock, BB.new, henc, BB.foldl_dict, BB.finish]
    rw [dict_roundtrip_core o.eq hs o.nullable o.kind _ chunk hp hlen]
    congr 1
    symm
    apply List.map_id''
    intro c; simp [storedOf, henc]

/-! items accepted by a kind; closed under taking sublists -/

def KindOk (k : Kind) (xs : List Cell) : Prop :=
  match k with
  | .fixed w => FixedOk w xs
  | .char w => CharOk w xs
  | .blob => BlobOk xs

theorem flatMap_length_sublist {α β} (f : α → List β) {l xs : List α} (h : l.Sublist xs) :
    (l.flatMap f).length ≤ (xs.flatMap f).length := by
  induction h with
  | slnil => simp
  | cons a _ ih => simp only [List.flatMap_cons, List.length_append]; omega
  | cons_cons a _ ih => simp only [List.flatMap_cons, List.length_append]; omega

theorem KindOk.sublist {k : Kind} {l xs : List Cell} (h : KindOk k xs) (hl : l.Sublist xs) : KindOk k l := by
  cases k with
  | fixed w => exact fun it hit => h it (hl.subset hit)
  | char w => exact fun it hit => h it (hl.subset hit)
  | blob =>
    have := flatMap_length_sublist (cellBytes .blob) hl
    simp only [KindOk, BlobOk] at h ⊢; omega

theorem plainRT_of_kindOk {k : Kind} {l : List Cell} (h : KindOk k l) : PlainRT k l := by
  cases k with
  | fixed w => exact fun t r => plain_fixed_roundtrip w t l h r
  | char w => exact fun t r => plain_char_roundtrip w t l h r
  | blob => exact fun t r => plain_blob_roundtrip t l h r

/-! trailer -/

theorem openBlock_sealBlock (ck : CkType) (bt : Nat) (payload : Bytes) (hbt : bt < BLOCK_TYPE_COUNT) :
    openBlock (ck == .crc32) (sealBlock ck bt payload) = .ok (bt, payload) := by
  simp only [sealBlock]
  generalize hbody : payload ++ beBytes 4 bt = body
  generalize hb : body ++ beBytes 4 ck.code ++ beBytes 8 (buildChecksum ck body) = blk
  have hbl : body.length = payload.length + 4 := by rw [← hbody]; simp [beBytes_length]
  have hlen : blk.length = payload.length + 16 := by rw [← hb]; simp [beBytes_length, hbl]
  have hck : buildChecksum ck body < 256 ^ 8 := by
    cases ck
    · simp [buildChecksum]
    · exact Nat.lt_of_lt_of_le (crc32_lt body) (by decide)
  have e_bt : natOfBE ((blk.drop (blk.length - 16)).take 4) = bt := by
    rw [hlen, ← hb, ← hbody, show payload.length + 16 - 16 = payload.length by omega]
    simp only [List.append_assoc]
    rw [List.drop_left' rfl, List.take_left' (beBytes_length _ _)]
    exact natOfBE_beBytes 4 bt (by simp [BLOCK_TYPE_COUNT] at hbt; omega)
  have e_ct : natOfBE ((blk.drop (blk.length - 12)).take 4) = ck.code := by
    rw [hlen, ← hb, show payload.length + 16 - 12 = body.length by omega, List.append_assoc,
      List.drop_left' rfl, List.take_left' (beBytes_length _ _)]
    exact natOfBE_beBytes 4 _ (by cases ck <;> decide)
  have e_ck : natOfBE ((blk.drop (blk.length - 8)).take 8) = buildChecksum ck body := by
    rw [hlen, ← hb, show payload.length + 16 - 8 = (body ++ beBytes 4 ck.code).length by simp [beBytes_length]; omega,
      List.drop_left' rfl, List.take_of_length_le (by simp [beBytes_length])]
    exact natOfBE_beBytes 8 _ hck
  have e_body : blk.take (blk.length - BLOCK_META_CHECKSUM_SIZE) = body := by
    rw [hlen, ← hb, List.append_assoc]
    simp only [BLOCK_META_CHECKSUM_SIZE]
    rw [show payload.length + 16 - 12 = body.length by omega, List.take_left' rfl]
  have e_pay : blk.take (blk.length - BLOCK_META_SIZE) = payload := by
    rw [hlen, ← hb, ← hbody]
    simp only [BLOCK_META_SIZE, List.append_assoc]
    rw [show payload.length + 16 - 16 = payload.length by omega, List.take_left' rfl]
  simp only [openBlock, openBlockCfg]
  rw [if_neg (by simp only [BLOCK_META_SIZE]; omega)]
  simp only [e_bt, e_ct, e_ck, e_body, e_pay]
  rw [if_neg (by omega)]
  cases ck <;> simp [CkType.ofCode?, CkType.code, verifyStored, verifyChecksum]

/-! blocks of an assembled column -/

def infosOf (o : ColOpts) : List (List Cell) → Nat → List BlockInfo
  | [], _ => []
  | ch :: rest, row =>
    { firstRowid := row, rowCount := ch.length, cells := ch.map (storedOf o),
      rawNullable := o.nullable && o.enc == .plain } :: infosOf o rest (row + ch.length)

theorem blockInfos_assemble (o : ColOpts) (bt : Nat) (hbt : bt < BLOCK_TYPE_COUNT)
    (chunks : List (List Cell)) (hrt : ∀ ch ∈ chunks, BlockRT o ch) (pre : Bytes) (row : Nat) :
    blockInfos o (pre ++ (assemble o bt chunks pre.length row).1) (assemble o bt chunks pre.length row).2
      = some (infosOf o chunks row) := by
  induction chunks generalizing pre row with
  | nil => rfl
  | cons ch rest ih =>
    simp only [assemble, blockInfos, infosOf]
    generalize hblk : sealBlock o.ck bt (encodeBlock o ch) = blk
    have hsl : ((pre ++ (blk ++ (assemble o bt rest (pre.length + blk.length) (row + ch.length)).1)).drop pre.length).take blk.length = blk := by
      rw [List.drop_left' rfl, List.take_left' rfl]
    rw [hsl, ← hblk, openBlock_sealBlock o.ck bt _ hbt]
    simp only []
    have h1 := hrt ch (by simp)
    unfold BlockRT at h1
    rw [h1]
    have h2 := ih (fun c hc => hrt c (by simp [hc])) (pre ++ blk) (row + ch.length)
    simp only [List.length_append, List.append_assoc, hblk] at h2
    rw [hblk, h2]

def WfBlocks : List BlockInfo → Nat → Prop
  | [], _ => True
  | b :: rest, base =>
    b.firstRowid = base ∧ b.rowCount = b.cells.length ∧ 0 < b.rowCount ∧ WfBlocks rest (base + b.rowCount)

theorem infosOf_wf (o : ColOpts) (chunks : List (List Cell)) (row : Nat) (hne : ∀ ch ∈ chunks, ch ≠ []) :
    WfBlocks (infosOf o chunks row) row := by
  induction chunks generalizing row with
  | nil => trivial
  | cons ch rest ih =>
    refine ⟨rfl, by simp, ?_, ih _ (fun c hc => hne c (by simp [hc]))⟩
    have := hne ch (by simp)
    exact List.length_pos_iff.mpr this

theorem infosOf_cells (o : ColOpts) (chunks : List (List Cell)) (row : Nat) :
    (infosOf o chunks row).flatMap (·.cells) = chunks.flatten.map (storedOf o) := by
  induction chunks generalizing row with
  | nil => rfl
  | cons ch rest ih => simp [infosOf, ih]


/-! ### column iterator: the block loop of next_batch -/
open ColIter


def rowsOf (l : List BlockInfo) : Nat := (l.flatMap (·.cells)).length

theorem rowsOf_append (a b : List BlockInfo) : rowsOf (a ++ b) = rowsOf a + rowsOf b := by
  simp [rowsOf]

theorem rowsOf_cons (b : BlockInfo) (l : List BlockInfo) : rowsOf (b :: l) = b.cells.length + rowsOf l := by
  simp [rowsOf]

theorem wf_split (pre : List BlockInfo) (b : BlockInfo) (post : List BlockInfo) (base : Nat)
    (h : WfBlocks (pre ++ b :: post) base) :
    b.firstRowid = base + rowsOf pre ∧ b.rowCount = b.cells.length ∧ 0 < b.cells.length := by
  induction pre generalizing base with
  | nil =>
    obtain ⟨h1, h2, h3, _⟩ := h
    exact ⟨by simp [rowsOf, h1], h2, by omega⟩
  | cons a as ih =>
    obtain ⟨h1, h2, h3, h4⟩ := h
    have := ih (base + a.rowCount) h4
    rw [rowsOf_cons]
    exact ⟨by omega, this.2⟩

/-- cells still ahead of a block iterator at `pos` of block `b`, followed by the later blocks -/
def restCells (b : BlockInfo) (pos : Nat) (post : List BlockInfo) : List Cell :=
  b.cells.drop pos ++ post.flatMap (·.cells)

theorem arrB_finish_push (bld : ArrB) (h : bld.valid.length = bld.data.length) (got : List Cell) (dflt : Bytes) :
    ({ data := bld.data ++ got.map (fun c => c.getD dflt), valid := bld.valid ++ got.map Option.isSome } : ArrB).finish
      = bld.finish ++ got := by
  simp only [ArrB.finish]
  rw [List.zip_append h, List.map_append]
  congr 1
  induction got with
  | nil => rfl
  | cons c cs ih => cases c <;> simp_all

/-- `replace_bitmap` after the inner iterator pushed `got.length` valid items: the rows already
in the builder keep their validity, the new rows get `bits` (the repaired
`NullableBlockIterator::next_batch`). -/
theorem replaceBitmap_pushed {α : Type} (d : List Bytes) (v : List Bool) (got : List α) (f : α → Bool) :
    ({ data := d, valid := v ++ List.replicate got.length true } : ArrB).replaceBitmap (got.map f)
      = { data := d, valid := v ++ got.map f } := by
  simp [ArrB.replaceBitmap]

/-- the iterator moved to the next block after taking `kk` more rows (normal form of the record
updates in `nextLoop`) -/
def advBlock (c : ColIter) (kk : Nat) : ColIter :=
  { blocks := c.blocks, dflt := c.dflt, blockId := c.blockId + 1,
    it := iterFor c.blocks c.dflt (c.blockId + 1) (c.rowId + kk), rowId := c.rowId + kk,
    finished := c.finished, fake := c.fake }

/-- state of a column iterator between operations (never fake here) -/
def GoodState (blocks : List BlockInfo) (dflt : Bytes) (c : ColIter) : Prop :=
  c.blocks = blocks ∧ c.fake = false ∧ c.dflt = dflt ∧
  ((c.finished = true ∧ c.rowId = rowsOf blocks) ∨
   (c.finished = false ∧ ∃ pre b post pos, blocks = pre ++ b :: post ∧ c.blockId = pre.length
      ∧ c.it = { cells := b.cells, pos, rawNullable := b.rawNullable, dflt } ∧ pos ≤ b.cells.length
      ∧ c.rowId = rowsOf pre + pos))

theorem nextLoop_spec (blocks : List BlockInfo) (dflt : Bytes)
    (hwf : WfBlocks blocks 0) :
    ∀ (post : List BlockInfo) (fuel : Nat) (pre : List BlockInfo) (b : BlockInfo) (pos : Nat) (c : ColIter)
      (e : Option Nat) (bld : ArrB) (t : Nat),
      blocks = pre ++ b :: post → c.blocks = blocks → c.dflt = dflt → c.blockId = pre.length →
      c.it = { cells := b.cells, pos, rawNullable := b.rawNullable, dflt } → pos ≤ b.cells.length →
      c.rowId = rowsOf pre + pos → post.length < fuel → bld.valid.length = bld.data.length →
      c.finished = false → c.fake = false →
      (∀ k, e = some k → t < k) → (e = none → t = 0) →
      ∃ d, (nextLoop fuel c e bld t).2.2 = t + d
        ∧ (nextLoop fuel c e bld t).2.1.finish = bld.finish ++ (restCells b pos post).take d
        ∧ d ≤ (restCells b pos post).length
        ∧ (nextLoop fuel c e bld t).1.rowId = c.rowId + d
        ∧ (∀ k, e = some k → t + d ≤ k)
        ∧ (d = 0 → restCells b pos post = [])
        ∧ GoodState blocks dflt (nextLoop fuel c e bld t).1 := by
  intro post
  induction post with
  | nil =>
    intro fuel pre b pos c e bld t hb hcb hcd hid hit hpos hrow hfuel hbld hfin hfake hsome hnone
    obtain ⟨fuel, rfl⟩ : ∃ f, fuel = f + 1 := ⟨fuel - 1, by simp at hfuel; omega⟩
    have hlen : c.blocks.length = pre.length + 1 := by rw [hcb, hb]; simp
    simp only [nextLoop, BIter.nextBatch, hit, replaceBitmap_pushed, ite_self]
    cases e with
    | some k0 =>
      have htk := hsome k0 rfl
      simp only [Option.map_some]
      by_cases hle : k0 - t ≤ b.cells.length - pos
      · -- the batch is completed inside this block
        have hmin : min (k0 - t) (b.cells.length - pos) = k0 - t := Nat.min_eq_left hle
        simp only [hmin]
        have hdone : decide (t + (k0 - t) ≥ k0) = true := by simp; omega
        simp only [hdone, ↓reduceIte]
        refine ⟨k0 - t, rfl, ?_, ?_, by simp [hrow], ?_, ?_, ?_⟩
        · rw [arrB_finish_push bld hbld]
          simp [restCells, List.take_append_of_le_length (by simp; omega : k0 - t ≤ (b.cells.drop pos).length)]
        · simp [restCells]; omega
        · intro k hk; injection hk with hk; omega
        · intro h0; omega
        · refine ⟨hcb, hfake, hcd, .inr ⟨hfin, pre, b, [], pos + (k0 - t), hb, hid, rfl, by omega, by simp [hrow]; omega⟩⟩
      · have hmin : min (k0 - t) (b.cells.length - pos) = b.cells.length - pos := Nat.min_eq_right (by omega)
        simp only [hmin]
        have hdone : decide (t + (b.cells.length - pos) ≥ k0) = false := by simp; omega
        simp only [hdone, Bool.false_eq_true, ↓reduceIte, hid, hlen, Nat.le_refl, ge_iff_le]
        refine ⟨b.cells.length - pos, rfl, ?_, by simp [restCells], by simp [hrow], ?_, ?_, ?_⟩
        · rw [arrB_finish_push bld hbld]
          simp [restCells, List.take_of_length_le]
        · intro k hk; injection hk with hk; omega
        · intro h0; simp [restCells]; omega
        · refine ⟨hcb, hfake, hcd, .inl ⟨rfl, ?_⟩⟩
          simp only [hrow, hb, rowsOf_append, rowsOf_cons, rowsOf]; simp; omega
    | none =>
      have ht := hnone rfl
      subst ht
      simp only [Option.map_none, Nat.zero_add]
      by_cases hav : b.cells.length - pos = 0
      · have hdone : ((b.cells.length - pos) != 0) = false := by simp [hav]
        simp only [hdone, Bool.false_eq_true, ↓reduceIte, hid, hlen, Nat.le_refl, ge_iff_le]
        refine ⟨b.cells.length - pos, by simp, ?_, by simp [restCells], by simp [hrow], ?_, ?_, ?_⟩
        · rw [arrB_finish_push bld hbld]
          simp [restCells, List.take_of_length_le]
        · intro k hk; cases hk
        · intro _; simp [restCells]; omega
        · refine ⟨hcb, hfake, hcd, .inl ⟨rfl, ?_⟩⟩
          simp only [hrow, hb, rowsOf_append, rowsOf_cons, rowsOf]; simp; omega
      · have hdone : ((b.cells.length - pos) != 0) = true := by simp [hav]
        simp only [hdone, ↓reduceIte]
        refine ⟨b.cells.length - pos, by simp, ?_, by simp [restCells], by simp [hrow], ?_, ?_, ?_⟩
        · rw [arrB_finish_push bld hbld]
          simp [restCells, List.take_of_length_le]
        · intro k hk; cases hk
        · intro h0; omega
        · refine ⟨hcb, hfake, hcd, .inr ⟨hfin, pre, b, [], pos + (b.cells.length - pos), hb, hid, rfl, by omega, by simp [hrow]; omega⟩⟩
  | cons b2 post2 ih =>
    intro fuel pre b pos c e bld t hb hcb hcd hid hit hpos hrow hfuel hbld hfin hfake hsome hnone
    obtain ⟨fuel, rfl⟩ : ∃ f, fuel = f + 1 := ⟨fuel - 1, by simp at hfuel; omega⟩
    have hlen : c.blocks.length = pre.length + 2 + post2.length := by rw [hcb, hb]; simp; omega
    have hb' : blocks = (pre ++ [b]) ++ b2 :: post2 := by rw [hb]; simp
    have hw2 := wf_split (pre ++ [b]) b2 post2 0 (hb' ▸ hwf)
    -- the continuation into the next block, shared by the "not done" cases
    have hnext : ∀ (t' : Nat) (bld' : ArrB), bld'.valid.length = bld'.data.length →
        (∀ k, e = some k → t' < k) → (e = none → t' = 0) →
        ∃ d2, (nextLoop fuel (advBlock c (b.cells.length - pos)) e bld' t').2.2 = t' + d2
          ∧ (nextLoop fuel (advBlock c (b.cells.length - pos)) e bld' t').2.1.finish
              = bld'.finish ++ (restCells b2 0 post2).take d2
          ∧ d2 ≤ (restCells b2 0 post2).length
          ∧ (nextLoop fuel (advBlock c (b.cells.length - pos)) e bld' t').1.rowId
              = c.rowId + (b.cells.length - pos) + d2
          ∧ (∀ k, e = some k → t' + d2 ≤ k)
          ∧ (d2 = 0 → restCells b2 0 post2 = [])
          ∧ GoodState blocks dflt (nextLoop fuel (advBlock c (b.cells.length - pos)) e bld' t').1 := by
      intro t' bld' hbld' hs' hn'
      apply ih fuel (pre ++ [b]) b2 0 (advBlock c (b.cells.length - pos)) e bld' t' hb' hcb hcd (by simp [advBlock, hid]) _ (Nat.zero_le _) _ (by simp at hfuel; omega) hbld' hfin hfake hs' hn'
      · simp only [advBlock, iterFor, hcb, hb, hid, hcd]
        have hg : (pre ++ b :: b2 :: post2).getD (pre.length + 1) default = b2 := by
          rw [List.getD_eq_getElem?_getD, List.getElem?_append_right (by omega)]; simp
        rw [hg]
        congr 1
        rw [hw2.1, hrow, rowsOf_append, rowsOf_cons]; simp [rowsOf]; omega
      · simp only [advBlock, hrow, rowsOf_append, rowsOf_cons]; simp [rowsOf]; omega
    simp only [nextLoop, BIter.nextBatch, hit, replaceBitmap_pushed, ite_self]
    cases e with
    | some k0 =>
      have htk := hsome k0 rfl
      simp only [Option.map_some]
      by_cases hle : k0 - t ≤ b.cells.length - pos
      · have hmin : min (k0 - t) (b.cells.length - pos) = k0 - t := Nat.min_eq_left hle
        simp only [hmin]
        have hdone : decide (t + (k0 - t) ≥ k0) = true := by simp; omega
        simp only [hdone, ↓reduceIte]
        refine ⟨k0 - t, rfl, ?_, ?_, by simp [hrow], ?_, ?_, ?_⟩
        · rw [arrB_finish_push bld hbld]
          simp only [restCells]
          rw [List.take_append_of_le_length (by simp; omega)]
        · simp [restCells]; omega
        · intro k hk; injection hk with hk; omega
        · intro h0; omega
        · refine ⟨hcb, hfake, hcd, .inr ⟨hfin, pre, b, b2 :: post2, pos + (k0 - t), hb, hid, rfl, by omega, by simp [hrow]; omega⟩⟩
      · have hmin : min (k0 - t) (b.cells.length - pos) = b.cells.length - pos := Nat.min_eq_right (by omega)
        simp only [hmin]
        have hdone : decide (t + (b.cells.length - pos) ≥ k0) = false := by simp; omega
        have hge : ¬ (c.blockId + 1 ≥ c.blocks.length) := by omega
        simp only [hdone, Bool.false_eq_true, ↓reduceIte, hge]
        obtain ⟨d2, h1, h2, h3, h4, h5, h6, h7⟩ := hnext (t + (b.cells.length - pos))
          { data := bld.data ++ ((b.cells.drop pos).take (b.cells.length - pos)).map (fun c_1 => c_1.getD dflt),
            valid := bld.valid ++ ((b.cells.drop pos).take (b.cells.length - pos)).map Option.isSome }
          (by simp [hbld]) (by intro k hk; injection hk with hk; omega) (by intro h; cases h)
        simp only [advBlock] at h1 h2 h4 h7
        refine ⟨(b.cells.length - pos) + d2, by first | (rw [h1]; omega) | rw [h1], ?_, ?_, by rw [h4]; omega, ?_, ?_, h7⟩
        · rw [h2, arrB_finish_push bld hbld]
          simp only [restCells, List.drop_zero, List.flatMap_cons, List.append_assoc]
          rw [List.take_of_length_le (by simp)]
          have : (b.cells.drop pos).length = b.cells.length - pos := by simp
          rw [← this, List.take_length_add_append]
        · simp only [restCells, List.length_append, List.length_drop, List.flatMap_cons, List.drop_zero] at h3 ⊢; omega
        · intro k hk; have := h5 k hk; omega
        · intro h0
          have hd2 : d2 = 0 := by omega
          have := h6 hd2
          simp [restCells] at this
          exact absurd this.1 (by intro hh; have := hw2.2.2; simp [hh] at this)
    | none =>
      have ht := hnone rfl
      subst ht
      simp only [Option.map_none, Nat.zero_add]
      by_cases hav : b.cells.length - pos = 0
      · have hdone : ((b.cells.length - pos) != 0) = false := by simp [hav]
        have hge : ¬ (c.blockId + 1 ≥ c.blocks.length) := by omega
        simp only [hdone, Bool.false_eq_true, ↓reduceIte, hge]
        obtain ⟨d2, h1, h2, h3, h4, h5, h6, h7⟩ := hnext (b.cells.length - pos)
          { data := bld.data ++ ((b.cells.drop pos).take (b.cells.length - pos)).map (fun c_1 => c_1.getD dflt),
            valid := bld.valid ++ ((b.cells.drop pos).take (b.cells.length - pos)).map Option.isSome }
          (by simp [hbld]) (by intro k hk; cases hk) (by intro _; exact hav)
        simp only [advBlock] at h1 h2 h4 h7
        refine ⟨(b.cells.length - pos) + d2, by first | (rw [h1]; omega) | rw [h1], ?_, ?_, by rw [h4]; omega, ?_, ?_, h7⟩
        · rw [h2, arrB_finish_push bld hbld]
          simp only [restCells, List.drop_zero, List.flatMap_cons, List.append_assoc]
          rw [List.take_of_length_le (by simp)]
          have : (b.cells.drop pos).length = b.cells.length - pos := by simp
          rw [← this, List.take_length_add_append]
        · simp only [restCells, List.length_append, List.length_drop, List.flatMap_cons, List.drop_zero] at h3 ⊢; omega
        · intro k hk; cases hk
        · intro h0
          have hd2 : d2 = 0 := by omega
          have := h6 hd2
          simp [restCells] at this
          exact absurd this.1 (by intro hh; have := hw2.2.2; simp [hh] at this)
      · have hdone : ((b.cells.length - pos) != 0) = true := by simp [hav]
        simp only [hdone, ↓reduceIte]
        refine ⟨b.cells.length - pos, by simp, ?_, by simp [restCells], by simp [hrow], ?_, ?_, ?_⟩
        · rw [arrB_finish_push bld hbld]
          simp only [restCells]
          rw [List.take_append_of_le_length (by simp)]
          try simp [List.take_of_length_le]
        · intro k hk; cases hk
        · intro h0; omega
        · refine ⟨hcb, hfake, hcd, .inr ⟨hfin, pre, b, b2 :: post2, pos + (b.cells.length - pos), hb, hid, rfl, by omega, by simp [hrow]; omega⟩⟩


/-! ### column iterator: one next_batch -/
open ColIter

def cellsOf (blocks : List BlockInfo) : List Cell := blocks.flatMap (·.cells)

theorem drop_restCells (pre : List BlockInfo) (b : BlockInfo) (post : List BlockInfo) (pos : Nat)
    (h : pos ≤ b.cells.length) :
    (cellsOf (pre ++ b :: post)).drop (rowsOf pre + pos) = restCells b pos post := by
  simp only [cellsOf, List.flatMap_append, List.flatMap_cons, rowsOf, restCells]
  rw [List.drop_append, List.drop_of_length_le (by omega), List.nil_append, Nat.add_sub_cancel_left,
    List.drop_append]
  rw [show pos - b.cells.length = 0 by omega]; simp

theorem cellsOf_length (pre : List BlockInfo) (b : BlockInfo) (post : List BlockInfo) :
    (cellsOf (pre ++ b :: post)).length = rowsOf pre + b.cells.length + rowsOf post := by
  simp [cellsOf, rowsOf]; omega

/-- outcome of one `next_batch(expected)` on a good state -/
theorem nextBatch_spec (blocks : List BlockInfo) (dflt : Bytes)
    (hwf : WfBlocks blocks 0)
    (c : ColIter) (hg : GoodState blocks dflt c) (e : Option Nat) (he : ∀ k, e = some k → 0 < k) :
    GoodState blocks dflt (c.nextBatch e).1 ∧
    ((∃ cells, (c.nextBatch e).2 = .batch c.rowId cells
        ∧ cells = ((cellsOf blocks).drop c.rowId).take cells.length ∧ 0 < cells.length
        ∧ (∀ k, e = some k → cells.length ≤ k) ∧ (c.nextBatch e).1.rowId = c.rowId + cells.length)
     ∨ ((c.nextBatch e).2 = .none ∧ (cellsOf blocks).length ≤ c.rowId ∧ (c.nextBatch e).1.rowId = c.rowId)) := by
  obtain ⟨hcb, hfake, hcd, hst⟩ := hg
  rcases hst with ⟨hfin, hrow⟩ | ⟨hfin, pre, b, post, pos, hb, hid, hit, hpos, hrow⟩
  · simp only [ColIter.nextBatch, hfin, ↓reduceIte]
    exact ⟨⟨hcb, hfake, hcd, .inl ⟨hfin, hrow⟩⟩, .inr ⟨trivial, by simp [cellsOf, rowsOf, hrow], trivial⟩⟩
  · have hspec := nextLoop_spec blocks dflt hwf post (c.blocks.length + 1) pre b pos c e {} 0 hb hcb hcd hid
      hit hpos hrow (by rw [hcb, hb]; simp; omega) rfl hfin hfake (fun k hk => he k hk) (fun _ => rfl)
    obtain ⟨d, h1, h2, h3, h4, h5, h6, h7⟩ := hspec
    simp only [ColIter.nextBatch, hfin, Bool.false_eq_true, ↓reduceIte, hfake]
    simp only [Nat.zero_add] at h1 h5
    have hrest := drop_restCells pre b post pos hpos
    rw [← hb, ← hrow] at hrest
    by_cases hd : d = 0
    · have h0 : ((nextLoop (c.blocks.length + 1) c e {} 0).2.2 == 0) = true := by simp [h1, hd]
      simp only [h0, ↓reduceIte]
      refine ⟨h7, .inr ⟨trivial, ?_, by rw [h4, hd]; rfl⟩⟩
      have hr := h6 hd
      have hl := congrArg List.length hrest
      rw [hr] at hl
      simp only [List.length_drop, List.length_nil] at hl
      omega
    · have h0 : ((nextLoop (c.blocks.length + 1) c e {} 0).2.2 == 0) = false := by simp [h1, hd]
      simp only [h0, Bool.false_eq_true, ↓reduceIte]
      have hfin0 : ({} : ArrB).finish = [] := rfl
      rw [hfin0, List.nil_append] at h2
      have hlen : ((restCells b pos post).take d).length = d := by simp; omega
      refine ⟨h7, .inl ⟨_, rfl, ?_, ?_, ?_, ?_⟩⟩
      · rw [h2, hlen, hrest]
      · rw [h2, hlen]; omega
      · intro k hk; rw [h2, hlen]; exact h5 k hk
      · rw [h2, hlen]; exact h4



/-! ### column iterator: scan programs -/
open ColIter

/-- read programs covered by the positive theorem: any batch sizes (≥ 1), hinted or not, hints and
row-id queries; no `skip` -/
def ScanOp : IterOp → Prop
  | .next e => ∀ k, e = some k → 0 < k
  | .nextHinted k => 0 < k
  | .hint => True
  | .rowId => True
  | _ => False

/-- the outputs of a scan program started at logical row `p` over the written cells `xs`: every
batch is reported at the current logical row, is the slice of `xs` there, is non-empty and within the
requested size; the position advances by its length; `none` only at the end -/
def SpecScan (xs : List Cell) : Nat → List IterOp → List IterOut → Prop
  | _, [], outs => outs = []
  | p, op :: ops, outs =>
    match op with
    | .next e => ∃ out rest, outs = out :: rest ∧
        ((∃ cells, out = .batch p cells ∧ cells = (xs.drop p).take cells.length ∧ 0 < cells.length
            ∧ (∀ k, e = some k → cells.length ≤ k) ∧ SpecScan xs (p + cells.length) ops rest)
         ∨ (out = .none ∧ xs.length ≤ p ∧ SpecScan xs p ops rest))
    | .nextHinted k => ∃ out rest, outs = out :: rest ∧
        ((∃ cells, out = .batch p cells ∧ cells = (xs.drop p).take cells.length ∧ 0 < cells.length
            ∧ cells.length ≤ k ∧ SpecScan xs (p + cells.length) ops rest)
         ∨ (out = .none ∧ xs.length ≤ p ∧ SpecScan xs p ops rest))
    | .hint => ∃ out rest, outs = out :: rest ∧ SpecScan xs p ops rest
    | .rowId => ∃ rest, outs = .rowId p :: rest ∧ SpecScan xs p ops rest
    | _ => False

theorem hinted_pos (c : ColIter) (k : Nat) (hk : 0 < k) : 0 < hinted c k ∧ hinted c k ≤ k := by
  simp only [hinted]
  split
  · exact ⟨hk, Nat.le_refl _⟩
  · rename_i h
    have : c.fetchHint.1 ≠ 0 := by simpa using h
    exact ⟨by omega, Nat.min_le_left _ _⟩

theorem scan_spec (blocks : List BlockInfo) (dflt : Bytes)
    (hwf : WfBlocks blocks 0)
    (ops : List IterOp) (hops : ∀ op ∈ ops, ScanOp op) (c : ColIter) (hg : GoodState blocks dflt c) :
    SpecScan (cellsOf blocks) c.rowId ops (runOps c ops) := by
  induction ops generalizing c with
  | nil => simp [SpecScan, runOps]
  | cons op ops ih =>
    have hop := hops op (by simp)
    have hrest : ∀ o ∈ ops, ScanOp o := fun o ho => hops o (by simp [ho])
    cases op with
    | next e =>
      obtain ⟨hg', hout⟩ := nextBatch_spec blocks dflt hwf c hg e hop
      simp only [SpecScan, runOps, ColIter.step]
      refine ⟨_, _, rfl, ?_⟩
      rcases hout with ⟨cells, h1, h2, h3, h4, h5⟩ | ⟨h1, h2, h3⟩
      · left
        refine ⟨cells, h1, h2, h3, h4, ?_⟩
        have := ih hrest _ hg'
        rwa [h5] at this
      · right
        refine ⟨h1, h2, ?_⟩
        have := ih hrest _ hg'
        rwa [h3] at this
    | nextHinted k =>
      obtain ⟨hp, hle⟩ := hinted_pos c k hop
      obtain ⟨hg', hout⟩ := nextBatch_spec blocks dflt hwf c hg (some (hinted c k))
        (fun k' hk' => by injection hk' with hk'; omega)
      simp only [SpecScan, runOps, ColIter.step]
      refine ⟨_, _, rfl, ?_⟩
      rcases hout with ⟨cells, h1, h2, h3, h4, h5⟩ | ⟨h1, h2, h3⟩
      · left
        refine ⟨cells, h1, h2, h3, by have := h4 _ rfl; omega, ?_⟩
        have := ih hrest _ hg'
        rwa [h5] at this
      · right
        refine ⟨h1, h2, ?_⟩
        have := ih hrest _ hg'
        rwa [h3] at this
    | hint =>
      simp only [SpecScan, runOps, ColIter.step]
      exact ⟨_, _, rfl, ih hrest c hg⟩
    | rowId =>
      simp only [SpecScan, runOps, ColIter.step]
      exact ⟨_, rfl, ih hrest c hg⟩
    | skip n => exact absurd hop (by simp [ScanOp])
    | skipHinted n => exact absurd hop (by simp [ScanOp])

/-- a freshly created iterator at row 0 is in a good state -/
theorem new_good (blocks : List BlockInfo) (dflt : Bytes)
    (hwf : WfBlocks blocks 0) (hne : blocks ≠ []) :
    GoodState blocks dflt (ColIter.new blocks dflt 0) ∧ (ColIter.new blocks dflt 0).rowId = 0 := by
  cases blocks with
  | nil => exact absurd rfl hne
  | cons b rest =>
    obtain ⟨h1, h2, h3, h4⟩ := hwf
    have hbor : blockOfRow (b :: rest) 0 = 0 := by
      simp only [blockOfRow, List.takeWhile_cons, h1, Nat.le_refl, decide_true, ↓reduceIte]
      cases rest with
      | nil => rfl
      | cons b2 r2 =>
        obtain ⟨g1, _⟩ := h4
        have : ¬ (b2.firstRowid ≤ 0) := by omega
        simp [List.takeWhile_cons]; omega
    refine ⟨⟨rfl, rfl, rfl, .inr ⟨rfl, [], b, rest, 0, rfl, ?_, ?_, Nat.zero_le _, ?_⟩⟩, rfl⟩
    · simp [ColIter.new, hbor]
    · simp [ColIter.new, hbor, iterFor, h1]
    · simp [ColIter.new, rowsOf]

end RlModel
